/-
modeldriver — line protocol around the executable model.
One operation per input line, one canonical answer per output line.
Unknown or malformed operations answer `bad-op` (never a default value).
-/
import Rs1090.Driver.C13
import Rs1090.Driver.C18
open Rs1090.Driver

def handlers : List (List String → Option String) :=
  [C13.handle, C18.handle]

def dispatch (line : String) : String :=
  let ws := (line.trimAscii.toString.splitOn " ").filter (· ≠ "")
  let rec go : List (List String → Option String) → String
    | [] => "bad-op"
    | h :: hs => match h ws with
      | some r => r
      | none => go hs
  go handlers

partial def loop (hin : IO.FS.Stream) (hout : IO.FS.Stream) : IO Unit := do
  let line ← hin.getLine
  if line.isEmpty then return ()
  hout.putStrLn (dispatch line)
  loop hin hout

def main : IO Unit := do
  let hin ← IO.getStdin
  let hout ← IO.getStdout
  loop hin hout
  hout.flush
