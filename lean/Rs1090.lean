import Rs1090.Props.C01
import Rs1090.Props.C13
import Rs1090.Props.C18
