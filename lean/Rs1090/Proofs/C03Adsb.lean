/-
C03 helper lemmas, part 4: the `ME` reader on the 56 ME bits of each ADS-B register laid out by
the Spec (`me05`, `me06`, `me08`, `me09`, `me61`, `me62`), by symbolic execution of the reader
(`simp` with the `wpOk` rules; every read is resolved through `Frame.field`).
-/
import Rs1090.Proofs.C03Frames
namespace Rs1090.Proofs.C03
open Rs1090 Rs1090.Model Rs1090.Spec.Encode Rs1090.Model.Message

/-- the post-condition every ME lemma establishes -/
abbrev MEPost (F : List Nat) (out : SerFields) : SerFields → Rd → Prop :=
  fun r s' => r = out ∧ s'.bytes = F ∧ s'.p ≤ 88

theorem es_len {F : List Nat} {df c aa : Nat} {me : List Field} (hF : Frame F (esHeader df c aa ++ me))
    (hw : width me = 56) : F.length = 14 := by
  have := hF.len; rw [width_append, hw] at this; simp [width, esHeader] at this; omega

/-! ### BDS 0,5 -/

def tcAirborne (tc : Nat) : Prop := (9 ≤ tc ∧ tc ≤ 18) ∨ (20 ≤ tc ∧ tc ≤ 22)

theorem meBody_05 (tc : Nat) (h : tcAirborne tc) :
    meBody tc = (do seekLast; let v ← Bds05.read; pure (tagged (key! "bds") (key! "05") v)) := by
  unfold meBody tcAirborne at *
  have c1 : (tc == 0) = false := by simp; omega
  have c2 : (decide (1 ≤ tc) && decide (tc ≤ 4)) = false := by simp; omega
  have c3 : (decide (5 ≤ tc) && decide (tc ≤ 8)) = false := by simp; omega
  have c4 : ((decide (9 ≤ tc) && decide (tc ≤ 18)) || (decide (20 ≤ tc) && decide (tc ≤ 22))) = true := by
    simp; omega
  simp only [c1, c2, c3, c4, Bool.false_eq_true, if_false, if_true]

/-- NUCp of an airborne position from its type code (DO-260B table 2-11 / A-2-5) -/
def nuc05 (tc : Nat) : Nat := if tc < 19 then 18 - tc else if tc = 20 ∨ tc = 21 then 29 - tc else 0

theorem nuc05_ok (tc : Nat) (h : tcAirborne tc) :
    (if tc < 19 then subU 18 tc else if (tc == 20 || tc == 21) = true then subU 29 tc else Outcome.ok 0)
      = .ok (nuc05 tc) := by
  unfold tcAirborne at h
  unfold nuc05 subU
  by_cases h1 : tc < 19
  · simp only [h1, if_true]; rw [if_pos (by omega)]
  · simp only [h1, if_false]
    by_cases h2 : tc = 20 ∨ tc = 21
    · have : (tc == 20 || tc == 21) = true := by simpa using h2
      simp only [this, h2, if_true]; rw [if_pos (by omega)]
    · have : (tc == 20 || tc == 21) = false := by simpa using h2
      simp only [this, h2, if_false, Bool.false_eq_true]

/-- the serialised BDS 0,5 payload for given field values -/
def out05 (tc saf : Nat) (altv : Option Nat) (t f lat lon : Nat) : SerFields :=
  tagged (key! "bds") (key! "05") (.ok [
    fld (key! "tc") (jnat tc),
    fld (key! "NUCp") (jnat (nuc05 tc)),
    skipNone (key! "NICb") (if tc < 19 then some (jnat saf) else none),
    fldOpt (key! "altitude") (altv.map jnat),
    fld (key! "source") (.lit (if tc < 19 then key! "barometric" else key! "GNSS")),
    fld (key! "time_sync") (jbool (t == 1)),
    fld (key! "parity") (CPRFormat f),
    fld (key! "lat_cpr") (jnat lat),
    fld (key! "lon_cpr") (jnat lon),
    skipNone (key! "latitude") none,
    skipNone (key! "longitude") none ])

theorem me_bds05 (F : List Nat) (df c aa tc ss saf alt t f lat lon : Nat) (altv : Option Nat)
    (hF : Frame F (esHeader df c aa ++ me05 tc ss saf alt t f lat lon))
    (htc : tcAirborne tc) (halt : ac12 alt = .ok altv) :
    wpOk Message.me (MEPost F (out05 tc saf altv t f lat lon)) (st F 32 27 32) := by
  have hlen := es_len hF rfl
  have f_tc := hF.field 32 5 _ rfl
  have f_ss := hF.field 37 2 _ rfl
  have f_saf := hF.field 39 1 _ rfl
  have f_alt := hF.field 40 12 _ rfl
  have f_t := hF.field 52 1 _ rfl
  have f_f := hF.field 53 1 _ rfl
  have f_lat := hF.field 54 17 _ rfl
  have f_lon := hF.field 71 17 _ rfl
  unfold Message.me
  rw [wpOk_bind, wpOk_enumId 5 (by decide), f_tc, meBody_05 tc htc]
  unfold Bds05.read MEPost out05
  simp (disch := decide) only [wpOk_bind, wpOk_pure, wpOk_bits, wpOk_enumId, wpOk_flag, wpOk_seekLast,
    wpOk_lift_ok, nuc05_ok tc htc, halt,
    f_tc, f_ss, f_saf, f_alt, f_t, f_f, f_lat, f_lon, hlen, ceilDiv8, Nat.reduceAdd, Nat.reduceDiv, Nat.reduceSub,
    Nat.reduceMul, Nat.reduceLeDiff, true_and, and_self]

/-! ### BDS 0,6 -/

theorem meBody_06 (tc : Nat) (h : 5 ≤ tc ∧ tc ≤ 8) :
    meBody tc = (do seekLast; let v ← Bds06.read; pure (tagged (key! "bds") (key! "06") v)) := by
  unfold meBody
  have c1 : (tc == 0) = false := by simp; omega
  have c2 : (decide (1 ≤ tc) && decide (tc ≤ 4)) = false := by simp; omega
  have c3 : (decide (5 ≤ tc) && decide (tc ≤ 8)) = true := by simp; omega
  simp only [c1, c2, c3, Bool.false_eq_true, if_false, if_true]

def out06 (tc : Nat) (gs : Option Json) (sts trk f lat lon : Nat) : SerFields :=
  tagged (key! "bds") (key! "06") (.ok [
    fld (key! "tc") (jnat tc),
    fld (key! "NUCp") (jnat (14 - tc)),
    fldOpt (key! "groundspeed") gs,
    fldOpt (key! "track") (if sts == 1 then some (jrat (trk * 360) 128) else none),
    fld (key! "parity") (CPRFormat f),
    fld (key! "lat_cpr") (jnat lat),
    fld (key! "lon_cpr") (jnat lon),
    skipNone (key! "latitude") none,
    skipNone (key! "longitude") none ])

theorem me_bds06 (F : List Nat) (df c aa tc mov sts trk t f lat lon : Nat)
    (hF : Frame F (esHeader df c aa ++ me06 tc mov sts trk t f lat lon)) (htc : 5 ≤ tc ∧ tc ≤ 8) :
    wpOk Message.me (MEPost F (out06 tc (Bds06.groundspeed mov) sts trk f lat lon)) (st F 32 27 32) := by
  have hlen := es_len hF rfl
  have f_tc := hF.field 32 5 _ rfl
  have f_mov := hF.field 37 7 _ rfl
  have f_st := hF.field 44 1 _ rfl
  have f_trk := hF.field 45 7 _ rfl
  have f_t := hF.field 52 1 _ rfl
  have f_f := hF.field 53 1 _ rfl
  have f_lat := hF.field 54 17 _ rfl
  have f_lon := hF.field 71 17 _ rfl
  have hnuc : subU 14 tc = .ok (14 - tc) := subU_ok (by omega)
  unfold Message.me
  rw [wpOk_bind, wpOk_enumId 5 (by decide), f_tc, meBody_06 tc htc]
  unfold Bds06.read MEPost out06
  simp (disch := decide) only [wpOk_bind, wpOk_pure, wpOk_bits, wpOk_enumId, wpOk_flag, wpOk_seekLast,
    wpOk_lift_ok, hnuc,
    f_tc, f_mov, f_st, f_trk, f_t, f_f, f_lat, f_lon, hlen, ceilDiv8, Nat.reduceAdd, Nat.reduceDiv, Nat.reduceSub,
    Nat.reduceMul, Nat.reduceLeDiff, true_and, and_self]

/-! ### BDS 0,8 -/

theorem meBody_08 (tc : Nat) (h : 1 ≤ tc ∧ tc ≤ 4) :
    meBody tc = (do seekLast; let v ← Bds08.read; pure (tagged (key! "bds") (key! "08") v)) := by
  unfold meBody
  have c1 : (tc == 0) = false := by simp; omega
  have c2 : (decide (1 ≤ tc) && decide (tc ≤ 4)) = true := by simp; omega
  simp only [c1, c2, Bool.false_eq_true, if_false, if_true]

def out08 (tc ca : Nat) (cs : List Char) : SerFields :=
  tagged (key! "bds") (key! "08") (.ok [
    fld (key! "id") (jnat tc),
    fld (key! "wake_vortex") (.lit (Bds08.wakeVortex tc ca)),
    fld (key! "callsign") (.chars cs) ])

/-- the 6-bit codes at `p, p+6, …` -/
def codesAt (F : List Nat) : Nat → Nat → List Nat
  | _, 0 => []
  | p, k + 1 => bitsBE F p 6 :: codesAt F (p + 6) k

theorem wpOk_callsignChars : ∀ (k : Nat) (Q : List Nat → Rd → Prop) (F : List Nat) (p l r : Nat),
    ceilDiv8 (p + 6 * k) ≤ F.length →
    (wpOk (Bds08.callsignChars k) Q (st F p l r) ↔
      Q ((codesAt F p k).filter (· != 32)) (st F (p + 6 * k) (l + 6 * k) (r + 6 * k)))
  | 0, Q, F, p, l, r, _ => by
    simp only [Bds08.callsignChars, wpOk_pure, codesAt, List.filter_nil, Nat.mul_zero, Nat.add_zero]
  | k + 1, Q, F, p, l, r, h => by
    have h1 : ceilDiv8 (p + 6) ≤ F.length := by unfold ceilDiv8 at *; omega
    have h2 : ceilDiv8 (p + 6 + 6 * k) ≤ F.length := by unfold ceilDiv8 at *; omega
    simp only [Bds08.callsignChars, wpOk_bind]
    rw [wpOk_bits 6 (by decide)]
    simp only [h1, true_and]
    rw [wpOk_callsignChars k _ F (p + 6) (l + 6) (r + 6) h2]
    simp only [wpOk_pure, codesAt, List.filter_cons]
    have e1 : p + 6 + 6 * k = p + 6 * (k + 1) := by omega
    have e2 : l + 6 + 6 * k = l + 6 * (k + 1) := by omega
    have e3 : r + 6 + 6 * k = r + 6 * (k + 1) := by omega
    rw [e1, e2, e3]

/-- eight explicit character codes -/
def chars8 (c0 c1 c2 c3 c4 c5 c6 c7 : Nat) : List Field :=
  [(6, c0), (6, c1), (6, c2), (6, c3), (6, c4), (6, c5), (6, c6), (6, c7)]

theorem me_bds08 (F : List Nat) (df c aa tc ca c0 c1 c2 c3 c4 c5 c6 c7 : Nat) (cs : List Char)
    (hF : Frame F (esHeader df c aa ++ ([(5, tc), (3, ca)] ++ chars8 c0 c1 c2 c3 c4 c5 c6 c7)))
    (htc : 1 ≤ tc ∧ tc ≤ 4)
    (hcs : Bds08.callsign.go ([c0, c1, c2, c3, c4, c5, c6, c7].filter (· != 32)) = .ok cs) :
    wpOk Message.me (MEPost F (out08 tc ca cs)) (st F 32 27 32) := by
  have hlen := es_len hF rfl
  have f_tc := hF.field 32 5 _ rfl
  have f_ca := hF.field 37 3 _ rfl
  have f0 := hF.field 40 6 _ rfl
  have f1 := hF.field 46 6 _ rfl
  have f2 := hF.field 52 6 _ rfl
  have f3 := hF.field 58 6 _ rfl
  have f4 := hF.field 64 6 _ rfl
  have f5 := hF.field 70 6 _ rfl
  have f6 := hF.field 76 6 _ rfl
  have f7 := hF.field 82 6 _ rfl
  have hid : (decide (tc < 1) || decide (tc > 4)) = false := by simp; omega
  unfold Message.me
  rw [wpOk_bind, wpOk_enumId 5 (by decide), f_tc, meBody_08 tc htc]
  unfold Bds08.read Bds08.callsign MEPost out08
  simp (disch := decide) only [wpOk_bind, wpOk_pure, wpOk_bits, wpOk_enumId, wpOk_flag, wpOk_seekLast,
    f_tc, f_ca, hlen, ceilDiv8, Nat.reduceAdd, Nat.reduceDiv, Nat.reduceSub,
    Nat.reduceMul, Nat.reduceLeDiff, true_and, and_self, hid, Bool.false_eq_true, if_false]
  rw [wpOk_callsignChars 8 _ F 40 _ _ (by rw [hlen]; decide)]
  simp only [codesAt, Nat.reduceAdd, f0, f1, f2, f3, f4, f5, f6, f7, hcs, wpOk_lift_ok, Nat.reduceMul, Nat.reduceLeDiff,
    and_self]

/-! ### BDS 0,9 -/

theorem meBody_19 : meBody 19 = (do let v ← Bds09.read; pure (tagged (key! "bds") (key! "09") v)) := rfl

def out09 (nacv : Nat) (vel : Fields) (vsrc : Nat) (vr gb : Option Int) : SerFields :=
  tagged (key! "bds") (key! "09") (.ok (
    [ fld (key! "NACv") (jnat nacv) ] ++ vel ++
    [ fld (key! "vrate_src") (.lit (Bds09.vrateSrcName vsrc)),
      skipNone (key! "vertical_rate") (vr.map jint),
      fldOpt (key! "geo_minus_baro") (gb.map jint) ]))

/-- subtypes 1 and 2: velocity over ground -/
theorem me_bds09_ground (F : List Nat) (df c aa sub ic ifr nacv dew vew dns vns vsrc vsign vr gsign g : Nat)
    (ew ns : Int) (vrv gbv : Option Int)
    (hF : Frame F (esHeader df c aa ++ me09 sub ic ifr nacv (velGround dew vew dns vns) vsrc vsign vr gsign g))
    (hsub : sub = 1 ∨ sub = 2)
    (hew : Bds09.velComponent sub dew vew = .ok ew) (hns : Bds09.velComponent sub dns vns = .ok ns)
    (hvr : Bds09.vrate vsign vr = .ok vrv) (hgb : Bds09.geoBaro gsign g = .ok gbv) :
    wpOk Message.me (MEPost F (out09 nacv
      [ fld (key! "groundspeed") (Bds09.groundspeedJ ew ns), fld (key! "track") (Bds09.trackJ ew ns) ]
      vsrc vrv gbv)) (st F 32 27 32) := by
  have hlen := es_len hF rfl
  have f_tc := hF.field 32 5 _ rfl
  have f_sub := hF.field 37 3 _ rfl
  have f_ic := hF.field 40 1 _ rfl
  have f_ifr := hF.field 41 1 _ rfl
  have f_nacv := hF.field 42 3 _ rfl
  have f_v1 := hF.field 45 1 _ rfl
  have f_v2 := hF.field 46 10 _ rfl
  have f_v3 := hF.field 56 1 _ rfl
  have f_v4 := hF.field 57 10 _ rfl
  have f_vsrc := hF.field 67 1 _ rfl
  have f_vsign := hF.field 68 1 _ rfl
  have f_vr := hF.field 69 9 _ rfl
  have f_gsign := hF.field 80 1 _ rfl
  have f_g := hF.field 81 7 _ rfl
  unfold Message.me
  rw [wpOk_bind, wpOk_enumId 5 (by decide), f_tc, meBody_19]
  unfold Bds09.read Bds09.readVelocity Bds09.readGroundSpeed MEPost out09
  rcases hsub with rfl | rfl <;>
  simp (disch := decide) only [wpOk_bind, wpOk_pure, wpOk_bits, wpOk_enumId, wpOk_enumId0, wpOk_flag,
    wpOk_lift_ok, hew, hns, hvr, hgb,
    f_sub, f_ic, f_ifr, f_nacv, f_v1, f_v2, f_v3, f_v4, f_vsrc, f_vsign, f_vr, f_gsign, f_g,
    hlen, ceilDiv8, Nat.reduceAdd, Nat.reduceDiv, Nat.reduceSub, Nat.reduceMul, Nat.reduceLeDiff, Nat.reduceBEq,
    Bool.or_true, Bool.or_false, Bool.true_or, Bool.false_eq_true, if_false, if_true, true_and, and_self]

/-- subtype 3: airspeed (subsonic) and heading -/
theorem me_bds09_air3 (F : List Nat) (df c aa ic ifr nacv hst hdg ast asp vsrc vsign vr gsign g : Nat)
    (spd : Option Nat) (vrv gbv : Option Int)
    (hF : Frame F (esHeader df c aa ++ me09 3 ic ifr nacv (velAir hst hdg ast asp) vsrc vsign vr gsign g))
    (hsp : Bds09.airspeedSub asp = .ok spd)
    (hvr : Bds09.vrate vsign vr = .ok vrv) (hgb : Bds09.geoBaro gsign g = .ok gbv) :
    wpOk Message.me (MEPost F (out09 nacv
      (Bds09.airspeedFields (if hst == 1 then some (jrat (Bds09.headingNum hdg) Bds09.headingDen) else none) ast spd)
      vsrc vrv gbv)) (st F 32 27 32) := by
  have hlen := es_len hF rfl
  have f_tc := hF.field 32 5 _ rfl
  have f_sub := hF.field 37 3 _ rfl
  have f_ic := hF.field 40 1 _ rfl
  have f_ifr := hF.field 41 1 _ rfl
  have f_nacv := hF.field 42 3 _ rfl
  have f_v1 := hF.field 45 1 _ rfl
  have f_v2 := hF.field 46 10 _ rfl
  have f_v3 := hF.field 56 1 _ rfl
  have f_v4 := hF.field 57 10 _ rfl
  have f_vsrc := hF.field 67 1 _ rfl
  have f_vsign := hF.field 68 1 _ rfl
  have f_vr := hF.field 69 9 _ rfl
  have f_gsign := hF.field 80 1 _ rfl
  have f_g := hF.field 81 7 _ rfl
  unfold Message.me
  rw [wpOk_bind, wpOk_enumId 5 (by decide), f_tc, meBody_19]
  unfold Bds09.read Bds09.readVelocity Bds09.readAirspeedSub MEPost out09
  simp (disch := decide) only [wpOk_bind, wpOk_pure, wpOk_bits, wpOk_enumId, wpOk_enumId0, wpOk_flag,
    wpOk_lift_ok, hsp, hvr, hgb,
    f_sub, f_ic, f_ifr, f_nacv, f_v1, f_v2, f_v3, f_v4, f_vsrc, f_vsign, f_vr, f_gsign, f_g,
    hlen, ceilDiv8, Nat.reduceAdd, Nat.reduceDiv, Nat.reduceSub, Nat.reduceMul, Nat.reduceLeDiff, Nat.reduceBEq,
    Bool.or_true, Bool.or_false, Bool.true_or, Bool.false_eq_true, if_false, if_true, true_and, and_self]

/-- subtype 4: airspeed (supersonic, LSB 4 kt) and heading -/
theorem me_bds09_air4 (F : List Nat) (df c aa ic ifr nacv hst hdg ast asp vsrc vsign vr gsign g : Nat)
    (spd : Option Nat) (vrv gbv : Option Int)
    (hF : Frame F (esHeader df c aa ++ me09 4 ic ifr nacv (velAir hst hdg ast asp) vsrc vsign vr gsign g))
    (hsp : Bds09.airspeedSuper asp = .ok spd)
    (hvr : Bds09.vrate vsign vr = .ok vrv) (hgb : Bds09.geoBaro gsign g = .ok gbv) :
    wpOk Message.me (MEPost F (out09 nacv
      (Bds09.airspeedFields (if hst == 1 then some (jrat (Bds09.headingNum hdg) Bds09.headingDen) else none) ast spd)
      vsrc vrv gbv)) (st F 32 27 32) := by
  have hlen := es_len hF rfl
  have f_tc := hF.field 32 5 _ rfl
  have f_sub := hF.field 37 3 _ rfl
  have f_ic := hF.field 40 1 _ rfl
  have f_ifr := hF.field 41 1 _ rfl
  have f_nacv := hF.field 42 3 _ rfl
  have f_v1 := hF.field 45 1 _ rfl
  have f_v2 := hF.field 46 10 _ rfl
  have f_v3 := hF.field 56 1 _ rfl
  have f_v4 := hF.field 57 10 _ rfl
  have f_vsrc := hF.field 67 1 _ rfl
  have f_vsign := hF.field 68 1 _ rfl
  have f_vr := hF.field 69 9 _ rfl
  have f_gsign := hF.field 80 1 _ rfl
  have f_g := hF.field 81 7 _ rfl
  unfold Message.me
  rw [wpOk_bind, wpOk_enumId 5 (by decide), f_tc, meBody_19]
  unfold Bds09.read Bds09.readVelocity Bds09.readAirspeedSuper MEPost out09
  simp (disch := decide) only [wpOk_bind, wpOk_pure, wpOk_bits, wpOk_enumId, wpOk_enumId0, wpOk_flag,
    wpOk_lift_ok, hsp, hvr, hgb,
    f_sub, f_ic, f_ifr, f_nacv, f_v1, f_v2, f_v3, f_v4, f_vsrc, f_vsign, f_vr, f_gsign, f_g,
    hlen, ceilDiv8, Nat.reduceAdd, Nat.reduceDiv, Nat.reduceSub, Nat.reduceMul, Nat.reduceLeDiff, Nat.reduceBEq,
    Bool.or_true, Bool.or_false, Bool.true_or, Bool.false_eq_true, if_false, if_true, true_and, and_self]

/-! ### BDS 6,1 -/

theorem meBody_28 : meBody 28 = (do let v ← Bds61.read; pure (tagged (key! "bds") (key! "61") v)) := rfl

def out61 (sub es id : Nat) : SerFields :=
  tagged (key! "bds") (key! "61") (.ok [
    fld (key! "subtype") (.lit (Bds61.subtypeName sub)),
    fld (key! "emergency_state") (.lit (Bds61.emergencyName es)),
    fld (key! "squawk") (jhex4 (decodeId13 id)) ])

theorem me_bds61 (F : List Nat) (df c aa sub es id : Nat)
    (hF : Frame F (esHeader df c aa ++ me61 sub es id)) :
    wpOk Message.me (MEPost F (out61 sub es id)) (st F 32 27 32) := by
  have hlen := es_len hF rfl
  have f_tc := hF.field 32 5 _ rfl
  have f_sub := hF.field 37 3 _ rfl
  have f_es := hF.field 40 3 _ rfl
  have f_id := hF.field 43 13 _ rfl
  unfold Message.me
  rw [wpOk_bind, wpOk_enumId 5 (by decide), f_tc, meBody_28]
  unfold Bds61.read Bds61.squawk MEPost out61
  simp (disch := decide) only [wpOk_bind, wpOk_pure, wpOk_bits, wpOk_enumId,
    f_sub, f_es, f_id, hlen, ceilDiv8, Nat.reduceAdd, Nat.reduceDiv, Nat.reduceLeDiff, true_and, and_self]

/-! ### BDS 6,2 -/

theorem meBody_29 : meBody 29 = (do let v ← Bds62.read; pure (tagged (key! "bds") (key! "62") v)) := rfl

def out62 (altType : Nat) (alt : Option Nat) (qnh : Option (Nat × Nat)) (hst hdg nacp ms ap vnav ah app tcas lnav : Nat) :
    SerFields :=
  tagged (key! "bds") (key! "62") (.ok [
    fld (key! "source") (.lit (Bds62.altSourceName altType)),
    skipNone (key! "selected_altitude") (alt.map jnat),
    skipNone (key! "barometric_setting") (qnh.map fun (n, d) => jrat n d),
    skipNone (key! "selected_heading") (if hst == 1 then some (jrat (Bds62.headingNum hdg) Bds62.headingDen) else none),
    fld (key! "NACp") (jnat nacp),
    skipNone (key! "autopilot") (Bds62.modeFlag (ms == 1) (ap == 1)),
    skipNone (key! "vnav_mode") (Bds62.modeFlag (ms == 1) (vnav == 1)),
    skipNone (key! "alt_hold") (Bds62.modeFlag (ms == 1) (ah == 1)),
    skipNone (key! "approach_mode") (Bds62.modeFlag (ms == 1) (app == 1)),
    fld (key! "tcas_operational") (jbool (tcas == 1)),
    skipNone (key! "lnav_mode") (Bds62.modeFlag (ms == 1) (lnav == 1)) ])

theorem me_bds62 (F : List Nat) (df c aa silSup altType selAlt qnh hst hdg nacp nicb sil ms ap vnav ah adsr app tcas lnav : Nat)
    (altv : Option Nat) (qv : Option (Nat × Nat))
    (hF : Frame F (esHeader df c aa ++
      me62 silSup altType selAlt qnh hst hdg nacp nicb sil ms ap vnav ah adsr app tcas lnav))
    (halt : Bds62.selectedAltitude selAlt = .ok altv) (hq : Bds62.barometricSetting qnh = .ok qv) :
    wpOk Message.me (MEPost F (out62 altType altv qv hst hdg nacp ms ap vnav ah app tcas lnav)) (st F 32 27 32) := by
  have hlen := es_len hF (by simp [width, me62])
  have f_tc := hF.field 32 5 29 rfl
  have f_at := hF.field 40 1 altType rfl
  have f_alt := hF.field 41 11 selAlt rfl
  have f_qnh := hF.field 52 9 qnh rfl
  have f_hst := hF.field 61 1 hst rfl
  have f_hdg := hF.field 62 9 hdg rfl
  have f_nacp := hF.field 71 4 nacp rfl
  have f_ms := hF.field 78 1 ms rfl
  have f_ap := hF.field 79 1 ap rfl
  have f_vnav := hF.field 80 1 vnav rfl
  have f_ah := hF.field 81 1 ah rfl
  have f_app := hF.field 83 1 app rfl
  have f_tcas := hF.field 84 1 tcas rfl
  have f_lnav := hF.field 85 1 lnav rfl
  unfold Message.me
  rw [wpOk_bind, wpOk_enumId 5 (by decide), f_tc, meBody_29]
  unfold Bds62.read MEPost out62
  simp (disch := decide) only [wpOk_bind, wpOk_pure, wpOk_bits, wpOk_enumId, wpOk_flag, wpOk_pad,
    wpOk_lift_ok, halt, hq,
    f_at, f_alt, f_qnh, f_hst, f_hdg, f_nacp, f_ms, f_ap, f_vnav, f_ah, f_app, f_tcas, f_lnav,
    hlen, ceilDiv8, Nat.reduceAdd, Nat.reduceDiv, Nat.reduceLeDiff, true_and, and_self]

end Rs1090.Proofs.C03
