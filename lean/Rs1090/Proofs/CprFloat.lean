import Rs1090.Proofs.CprGlobal
/-!
The f64 argument for CPR decoding, as theorems (C04 / C05) — for an abstract rounding function; the IEEE-754
instance is defined and proved in `Proofs/IeeeRound.lean` (`rounding_fl64 : Rounding fl64`).

`crates/rs1090/src/decode/cpr.rs` computes in `f64`; `Model/Cpr.lean` in exact rationals.  This file
relates the two through

* `F64Exact q` — `q` is a binary64 value (`q = m·2^e`, `|m| < 2^53`, `-1074 ≤ e ≤ 971`), and
* `Rounding fl` — the *standard model* of rounding as a HYPOTHESIS on an abstract `fl : ℚ → ℚ`:
  `fl` is the identity on `F64Exact` values, monotone, and `|fl x − x| ≤ |x|·2⁻⁵³ + 2⁻¹⁰⁷⁵` for
  `|x| ≤ 2^1023` (the second term is half the spacing of the subnormals; without it the hypothesis would be
  false of IEEE for |x| < 2⁻¹⁰²²).  IEEE-754 binary64 round-to-nearest-even satisfies it — a theorem,
  `IeeeRound.rounding_fl64`; `Rounding id` is the trivial instance.

The `f…` definitions below follow the Rust expressions one by one with `fl` after EVERY operation (also
after those that turn out to be exact).  Two kinds of theorems:

* `…_f64exact`: the operands/results the informal argument called exact ARE `F64Exact`, for all 17-bit
  fields and all `nl ∈ 1..59` — hence the `fl`-computation of `j`, `j mod 60`, `j mod 59`, `lat_even`, `m`,
  `m mod ni`, `r + c` (global) and of `cpr`, `d_lat_even`, `j + cpr_lat`, `lat` (local, even) returns
  exactly the rational model's values (`fJ_eq`, `fModulo_eq`, `fLatE_eq`, `fM_eq`, …);
* error bounds for what is not exact (`360/59`, `lat_odd`, `360/ni`, the longitude, the local formulas
  with the reference) and stability of the branch decisions away from the boundaries.
-/
namespace Rs1090.Proofs.CprFloat
open Rs1090 Rs1090.Model.Cpr Rs1090.Proofs.Cpr

/-! ### binary64 values and the rounding hypothesis -/

/-- `q` is (exactly) a finite binary64 value -/
def F64Exact (q : ℚ) : Prop :=
  ∃ m e : ℤ, q = (m : ℚ) * (2 : ℚ) ^ e ∧ |m| < 2 ^ 53 ∧ -1074 ≤ e ∧ e ≤ 971

/-- unit roundoff `2⁻⁵³` -/
def u : ℚ := 1 / 2 ^ 53
/-- half the spacing of the subnormal numbers, `2⁻¹⁰⁷⁵` -/
def eta : ℚ := 1 / 2 ^ 1075

/-- **The rounding hypothesis** (standard model; the real instance is IEEE-754 round-to-nearest-even of
    binary64: `fl64` of `Proofs/IeeeRound.lean`, proved there to satisfy it). -/
structure Rounding (fl : ℚ → ℚ) : Prop where
  exact : ∀ q, F64Exact q → fl q = q
  err : ∀ q, |q| ≤ 2 ^ 1023 → |fl q - q| ≤ |q| * u + eta
  mono : ∀ a b, a ≤ b → fl a ≤ fl b

/-- the hypothesis is satisfiable -/
theorem rounding_id : Rounding id :=
  ⟨fun _ _ => rfl, fun q _ => by
      simp only [id, sub_self, abs_zero]
      have : (0 : ℚ) ≤ |q| := abs_nonneg q
      unfold u eta; positivity,
   fun _ _ h => h⟩

theorem f64exact_int (n : ℤ) (h : |n| < 2 ^ 53) : F64Exact (n : ℚ) :=
  ⟨n, 0, by simp, h, by norm_num, by norm_num⟩

/-- integers over `2^k` -/
theorem f64exact_div_pow (n : ℤ) (k : ℕ) (hk : k ≤ 1074) (h : |n| < 2 ^ 53) :
    F64Exact ((n : ℚ) / 2 ^ k) :=
  ⟨n, -(k : ℤ), by rw [zpow_neg, zpow_natCast, div_eq_mul_inv], h, by omega, by omega⟩

/-- the workhorse: a value that equals `N / 2^17` with `|N| < 2^53` -/
theorem f64exact_17 {q : ℚ} (N : ℤ) (hq : q = (N : ℚ) / 131072) (hN : |N| < 2 ^ 53) : F64Exact q := by
  have := f64exact_div_pow N 17 (by norm_num) hN
  rw [hq]; norm_num at this ⊢; exact this

theorem f64exact_of_int {q : ℚ} (N : ℤ) (hq : q = (N : ℚ)) (hN : |N| < 2 ^ 53) : F64Exact q := by
  rw [hq]; exact f64exact_int N hN

theorem eta_le : eta ≤ 1 / 2 ^ 100 := by
  unfold eta
  apply one_div_le_one_div_of_le (by positivity)
  exact pow_le_pow_right₀ (by norm_num) (by norm_num)

theorem u_pos : 0 < u := by unfold u; positivity
theorem eta_pos : 0 < eta := by unfold eta; positivity

variable {fl : ℚ → ℚ}

/-- absolute form of the error hypothesis -/
theorem Rounding.abs_err (R : Rounding fl) {q B : ℚ} (hq : |q| ≤ B) (hB : B ≤ 1024) :
    |fl q - q| ≤ B * u + 1 / 2 ^ 100 := by
  have h0 : (1024 : ℚ) ≤ 2 ^ 1023 := by
    calc (1024 : ℚ) = 2 ^ 10 := by norm_num
      _ ≤ 2 ^ 1023 := pow_le_pow_right₀ (by norm_num) (by norm_num)
  have h1 : |q| ≤ 2 ^ 1023 := le_trans hq (le_trans hB h0)
  have := R.err q h1
  have h2 : |q| * u ≤ B * u := mul_le_mul_of_nonneg_right hq (le_of_lt u_pos)
  linarith [eta_le]

/-- **Stability of `floor` under rounding.**  If the exact value `x` stays `d` below the next integer and
    the rounding error at `x` is below `d`, `floor (fl x) = floor x` (the lower side needs only monotonicity
    and exactness of integers). -/
theorem Rounding.floor_eq (R : Rounding fl) {x B d : ℚ} (hx : |x| ≤ B) (hB : B ≤ 1024)
    (hd : B * u + 1 / 2 ^ 100 < d) (hgap : x + d ≤ (⌊x⌋ : ℚ) + 1) : ⌊fl x⌋ = ⌊x⌋ := by
  have hn : |⌊x⌋| < 2 ^ 53 := by
    have h1 : (⌊x⌋ : ℚ) ≤ x := Int.floor_le x
    have h2 : x < (⌊x⌋ : ℚ) + 1 := Int.lt_floor_add_one x
    have h3 := abs_le.mp hx
    rw [abs_lt]
    constructor
    · have : (-1026 : ℚ) < (⌊x⌋ : ℚ) := by linarith
      have : (-1026 : ℤ) < ⌊x⌋ := by exact_mod_cast this
      omega
    · have : (⌊x⌋ : ℚ) < 1025 := by linarith
      have : ⌊x⌋ < (1025 : ℤ) := by exact_mod_cast this
      omega
  rw [Int.floor_eq_iff]
  constructor
  · have := R.mono _ _ (Int.floor_le x)
    rwa [R.exact _ (f64exact_int _ hn)] at this
  · have := abs_le.mp (R.abs_err hx hB)
    linarith

/-- product with an inexact factor: `|fl (D'·s) − D·s| ≤ εD·S + P·u + 2⁻¹⁰⁰` -/
theorem Rounding.mul_err (R : Rounding fl) {D' D s εD S P : ℚ} (hD : |D' - D| ≤ εD) (hs : |s| ≤ S)
    (hP : |D'| * S ≤ P) (hP' : P ≤ 1024) :
    |fl (D' * s) - D * s| ≤ εD * S + P * u + 1 / 2 ^ 100 := by
  have h1 : |D' * s| ≤ P := by
    rw [abs_mul]; exact le_trans (mul_le_mul_of_nonneg_left hs (abs_nonneg _)) hP
  have h2 := R.abs_err h1 hP'
  have h3 : |D' * s - D * s| ≤ εD * S := by
    rw [← sub_mul, abs_mul]
    exact mul_le_mul hD hs (abs_nonneg _) (le_trans (abs_nonneg _) hD)
  have e : fl (D' * s) - D * s = (fl (D' * s) - D' * s) + (D' * s - D * s) := by ring
  rw [e]
  exact le_trans (abs_add_le _ _) (by linarith)

/-- `floor` of a perturbed value: same integer unless the exact value is within `δ` of an integer -/
theorem floor_eq_of_close {x' x δ : ℚ} (h : |x' - x| ≤ δ) (lo : (⌊x⌋ : ℚ) + δ ≤ x)
    (hi : x + δ < (⌊x⌋ : ℚ) + 1) : ⌊x'⌋ = ⌊x⌋ := by
  have := abs_le.mp h
  rw [Int.floor_eq_iff]
  constructor <;> linarith

theorem cprMax_eq : cprMax = 131072 := by unfold cprMax Gen.Cpr.CPR_MAX; norm_num

/-! ### `airborne_position` (cpr.rs l.225-307), `fl` after every operation -/

section Defs
variable (fl : ℚ → ℚ)

/-- l.253-256 `f64::from(x.lat_cpr) / CPR_MAX` (the conversion `u32 → f64` is exact) -/
def fCpr (n : ℕ) : ℚ := fl ((n : ℚ) / 131072)
/-- l.258 `libm::floor(59.0 * cpr_lat_even - 60.0 * cpr_lat_odd + 0.5)` -/
def fJ (e o : Msg) : ℤ := ⌊fl (fl (fl (59 * fCpr fl e.lat) - fl (60 * fCpr fl o.lat)) + 1 / 2)⌋
/-- l.218-220 `a - b * libm::floor(a / b)` -/
def fModulo (a b : ℚ) : ℚ := fl (a - fl (b * ((⌊fl (a / b)⌋ : ℤ) : ℚ)))
/-- l.214 `D_LAT_EVEN = 360.0 / (4.0 * NZ)` -/
def fDLatEven : ℚ := fl (360 / fl (4 * 15))
/-- l.215 `D_LAT_ODD = 360.0 / (4.0 * NZ - 1.0)` -/
def fDLatOdd : ℚ := fl (360 / fl (fl (4 * 15) - 1))
/-- l.263-269 `if x >= 270.0 { x -= 360.0 }` -/
def fWrap270 (x : ℚ) : ℚ := if x ≥ 270 then fl (x - 360) else x
/-- l.299-301 `if lon >= 180.0 { lon -= 360.0 }` -/
def fWrap180 (x : ℚ) : ℚ := if x ≥ 180 then fl (x - 360) else x
/-- l.260 `D_LAT_EVEN * (modulo(j, 60.) + cpr_lat_even)` -/
def fLatE0 (e o : Msg) : ℚ := fl (fDLatEven fl * fl (fModulo fl (fJ fl e o) 60 + fCpr fl e.lat))
/-- l.261 `D_LAT_ODD * (modulo(j, 59.) + cpr_lat_odd)` -/
def fLatO0 (e o : Msg) : ℚ := fl (fDLatOdd fl * fl (fModulo fl (fJ fl e o) 59 + fCpr fl o.lat))
def fLatE (e o : Msg) : ℚ := fWrap270 fl (fLatE0 fl e o)
def fLatO (e o : Msg) : ℚ := fWrap270 fl (fLatO0 fl e o)
/-- l.291-294 `floor(cpr_lon_even * (nl(lat) - 1) as f64 - cpr_lon_odd * nl(lat) as f64 + 0.5)`, `n = nl(lat)` -/
def fM (e o : Msg) (n : ℕ) : ℤ :=
  ⌊fl (fl (fl (fCpr fl e.lon * fl ((n - 1 : ℕ) : ℚ)) - fl (fCpr fl o.lon * fl (n : ℚ))) + 1 / 2)⌋
/-- l.290, 296, 298 `ni = max(nl(lat) - p, 1) as f64; r = modulo(m, ni); (360.0 / ni) * (r + c)`;
    `k` is the `lon_cpr` field of the latest report (`c = k / 2^17`) -/
def fLon0 (e o : Msg) (n p k : ℕ) : ℚ :=
  fl (fl (360 / fl ((max (n - p) 1 : ℕ) : ℚ)) *
    fl (fModulo fl (fM fl e o n) (fl ((max (n - p) 1 : ℕ) : ℚ)) + fCpr fl k))
end Defs

/-- the rational model's `m` with `n = nl(lat)` (`Proofs.Cpr.gM e o lat = gMn e o (nl lat)`, by `rfl`) -/
def gMn (e o : Msg) (n : ℕ) : ℤ :=
  ⌊(e.lon : ℚ) / cprMax * ((n - 1 : ℕ) : ℚ) - (o.lon : ℚ) / cprMax * (n : ℚ) + 1 / 2⌋

theorem gM_eq_gMn (e o : Msg) (lat : ℚ) : gM e o lat = gMn e o (nl lat) := rfl

/-- the rational model's longitude before the `>= 180` wrap -/
def gLon0 (e o : Msg) (n p k : ℕ) : ℚ :=
  360 / ((max (n - p) 1 : ℕ) : ℚ) *
    (modulo (gMn e o n : ℚ) ((max (n - p) 1 : ℕ) : ℚ) + (k : ℚ) / cprMax)

theorem gLon_eq_gLon0 (e o : Msg) (lat : ℚ) (p k : ℕ) :
    gLon e o lat p ((k : ℚ) / cprMax) = wrap180 (gLon0 e o (nl lat) p k) := rfl

/-- l.253-256: `cpr / 131072` is a binary64 value -/
theorem cpr_f64exact (n : ℕ) (hn : n < 131072) : F64Exact ((n : ℚ) / 131072) :=
  f64exact_17 (n : ℤ) (by push_cast; rfl) (by rw [abs_lt]; constructor <;> omega)

theorem fCpr_eq (R : Rounding fl) (n : ℕ) (hn : n < 131072) : fCpr fl n = (n : ℚ) / 131072 :=
  R.exact _ (cpr_f64exact n hn)

/-- l.258: `59·a`, `60·b`, their difference, `+ 0.5` and the floor are binary64 values, and `-60 ≤ j ≤ 59` -/
theorem j_f64exact (a b : ℕ) (ha : a < 131072) (hb : b < 131072) :
    F64Exact (59 * ((a : ℚ) / 131072)) ∧ F64Exact (60 * ((b : ℚ) / 131072)) ∧
    F64Exact (59 * ((a : ℚ) / 131072) - 60 * ((b : ℚ) / 131072)) ∧
    F64Exact (59 * ((a : ℚ) / 131072) - 60 * ((b : ℚ) / 131072) + 1 / 2) ∧
    (-60 ≤ ⌊59 * ((a : ℚ) / 131072) - 60 * ((b : ℚ) / 131072) + 1 / 2⌋ ∧
      ⌊59 * ((a : ℚ) / 131072) - 60 * ((b : ℚ) / 131072) + 1 / 2⌋ ≤ 59) ∧
    F64Exact ((⌊59 * ((a : ℚ) / 131072) - 60 * ((b : ℚ) / 131072) + 1 / 2⌋ : ℤ) : ℚ) := by
  have hr : -60 ≤ ⌊59 * ((a : ℚ) / 131072) - 60 * ((b : ℚ) / 131072) + 1 / 2⌋ ∧
      ⌊59 * ((a : ℚ) / 131072) - 60 * ((b : ℚ) / 131072) + 1 / 2⌋ ≤ 59 := by
    have ha' : (a : ℚ) ≤ 131071 := by exact_mod_cast Nat.le_of_lt_succ ha
    have hb' : (b : ℚ) ≤ 131071 := by exact_mod_cast Nat.le_of_lt_succ hb
    have ha0 : (0 : ℚ) ≤ a := Nat.cast_nonneg a
    have hb0 : (0 : ℚ) ≤ b := Nat.cast_nonneg b
    constructor
    · rw [Int.le_floor]; push_cast; linarith
    · have : ⌊59 * ((a : ℚ) / 131072) - 60 * ((b : ℚ) / 131072) + 1 / 2⌋ < 60 := by
        rw [Int.floor_lt]; push_cast; linarith
      omega
  refine ⟨f64exact_17 (59 * (a : ℤ)) (by push_cast; ring) (by rw [abs_lt]; constructor <;> omega),
    f64exact_17 (60 * (b : ℤ)) (by push_cast; ring) (by rw [abs_lt]; constructor <;> omega),
    f64exact_17 (59 * (a : ℤ) - 60 * (b : ℤ)) (by push_cast; ring) (by rw [abs_lt]; constructor <;> omega),
    f64exact_17 (59 * (a : ℤ) - 60 * (b : ℤ) + 65536) (by push_cast; ring)
      (by rw [abs_lt]; constructor <;> omega),
    hr, f64exact_int _ (by rw [abs_lt]; constructor <;> omega)⟩

/-- **`j` is computed exactly** -/
theorem fJ_eq (R : Rounding fl) (e o : Msg) (he : e.lat < 131072) (ho : o.lat < 131072) :
    fJ fl e o = gJ e o := by
  obtain ⟨h1, h2, h3, h4, _, _⟩ := j_f64exact e.lat o.lat he ho
  unfold fJ gJ
  rw [fCpr_eq R _ he, fCpr_eq R _ ho, R.exact _ h1, R.exact _ h2, R.exact _ h3, R.exact _ h4, cprMax_eq]

theorem gJ_range (e o : Msg) (he : e.lat < 131072) (ho : o.lat < 131072) : -60 ≤ gJ e o ∧ gJ e o ≤ 59 := by
  unfold gJ; rw [cprMax_eq]; exact (j_f64exact e.lat o.lat he ho).2.2.2.2.1

/-- l.218-220 on an integer `j`, `|j| ≤ 60`, and an integer `1 ≤ n ≤ 60`: the quotient `j / n` is NOT a binary64
    value in general, but the floor of its rounding is the exact floor (here the rounding hypothesis is used);
    `n·⌊j/n⌋` and `j − n·⌊j/n⌋` are binary64 values; the result is `j mod n`. -/
theorem modulo_f64exact (R : Rounding fl) (j : ℤ) (n : ℕ) (hj : |j| ≤ 60) (hn1 : 1 ≤ n) (hn : n ≤ 60) :
    ⌊fl ((j : ℚ) / (n : ℚ))⌋ = j / (n : ℤ) ∧
    F64Exact ((n : ℚ) * ((j / (n : ℤ) : ℤ) : ℚ)) ∧
    F64Exact ((j : ℚ) - (n : ℚ) * ((j / (n : ℤ) : ℤ) : ℚ)) ∧
    fModulo fl (j : ℚ) (n : ℚ) = ((j % (n : ℤ) : ℤ) : ℚ) := by
  have hnZ : (0 : ℤ) < (n : ℤ) := by exact_mod_cast hn1
  have hnQ : (0 : ℚ) < (n : ℚ) := by exact_mod_cast hn1
  have hn1Q : (1 : ℚ) ≤ (n : ℚ) := by exact_mod_cast hn1
  have hn60 : (n : ℚ) ≤ 60 := by exact_mod_cast hn
  have hn60Z : (n : ℤ) ≤ 60 := by exact_mod_cast hn
  have hdm := Int.emod_add_mul_ediv j (n : ℤ)
  have hr0 := Int.emod_nonneg j (ne_of_gt hnZ)
  have hr1 := Int.emod_lt_of_pos j hnZ
  have hjj := abs_le.mp hj
  set q := j / (n : ℤ) with hq
  set r := j % (n : ℤ) with hr
  have hfl : ⌊(j : ℚ) / (n : ℚ)⌋ = q := floor_int_div j n
  have hjQ : (j : ℚ) = r + n * q := by exact_mod_cast hdm.symm
  have hx : (j : ℚ) / (n : ℚ) = q + (r : ℚ) / n := by
    rw [hjQ]; field_simp; ring
  have hrQ : (r : ℚ) ≤ (n : ℚ) - 1 := by
    have : r ≤ (n : ℤ) - 1 := by omega
    exact_mod_cast this
  have hrn : (r : ℚ) / n ≤ 1 - 1 / 60 := by
    rw [div_le_iff₀ hnQ]
    nlinarith
  have habs : |(j : ℚ) / (n : ℚ)| ≤ 60 := by
    rw [abs_div, abs_of_pos hnQ, div_le_iff₀ hnQ]
    have : |(j : ℚ)| ≤ 60 := by exact_mod_cast hj
    nlinarith [abs_nonneg (j : ℚ)]
  have h1 : ⌊fl ((j : ℚ) / (n : ℚ))⌋ = q := by
    have := R.floor_eq (x := (j : ℚ) / (n : ℚ)) (B := 60) (d := 1 / 60) habs (by norm_num)
      (by unfold u; norm_num) (by rw [hfl, hx]; linarith)
    rw [this, hfl]
  have hnq : -121 < (n : ℤ) * q ∧ (n : ℤ) * q < 121 := by constructor <;> linarith
  have e2 : (n : ℚ) * (q : ℚ) = (((n : ℤ) * q : ℤ) : ℚ) := by push_cast; ring
  have e3 : (j : ℚ) - (n : ℚ) * (q : ℚ) = ((r : ℤ) : ℚ) := by rw [hjQ]; ring
  have x2 : F64Exact ((n : ℚ) * (q : ℚ)) :=
    f64exact_of_int _ e2 (by rw [abs_lt]; constructor <;> omega)
  have x3 : F64Exact ((j : ℚ) - (n : ℚ) * (q : ℚ)) :=
    f64exact_of_int _ e3 (by rw [abs_lt]; constructor <;> omega)
  refine ⟨h1, x2, x3, ?_⟩
  unfold fModulo
  rw [h1, R.exact _ x2, R.exact _ x3, e3]

theorem fModulo_eq (R : Rounding fl) (j : ℤ) (n : ℕ) (hj : |j| ≤ 60) (hn1 : 1 ≤ n) (hn : n ≤ 60) :
    fModulo fl (j : ℚ) (n : ℚ) = modulo (j : ℚ) (n : ℚ) := by
  rw [(modulo_f64exact R j n hj hn1 hn).2.2.2, modulo_int]

/-- l.214: `4.0 * NZ = 60` and `D_LAT_EVEN = 360/60 = 6` (also `90/60 = 3/2`, the surface zone) are binary64 values -/
theorem dlat_even_f64exact :
    F64Exact (4 * 15 : ℚ) ∧ F64Exact (360 / 60 : ℚ) ∧ F64Exact (90 / 60 : ℚ) ∧ F64Exact (60 - 1 : ℚ) := by
  refine ⟨f64exact_of_int 60 (by norm_num) (by norm_num), f64exact_of_int 6 (by norm_num) (by norm_num),
    f64exact_17 196608 (by norm_num) (by norm_num), f64exact_of_int 59 (by norm_num) (by norm_num)⟩

theorem fDLatEven_eq (R : Rounding fl) : fDLatEven fl = 6 := by
  unfold fDLatEven
  rw [R.exact _ dlat_even_f64exact.1]
  have : (360 / (4 * 15) : ℚ) = 360 / 60 := by norm_num
  rw [this, R.exact _ dlat_even_f64exact.2.1]; norm_num

/-- l.260, 263-265: `(j mod 60) + cpr_lat_even`, its product with 6 and the `− 360` of the wrap are binary64 values -/
theorem lat_even_f64exact (r : ℤ) (a : ℕ) (hr : 0 ≤ r ∧ r < 60) (ha : a < 131072) :
    F64Exact ((r : ℚ) + (a : ℚ) / 131072) ∧ F64Exact (6 * ((r : ℚ) + (a : ℚ) / 131072)) ∧
    F64Exact (6 * ((r : ℚ) + (a : ℚ) / 131072) - 360) := by
  refine ⟨f64exact_17 (131072 * r + a) (by push_cast; ring) (by rw [abs_lt]; constructor <;> omega),
    f64exact_17 (6 * (131072 * r + a)) (by push_cast; ring) (by rw [abs_lt]; constructor <;> omega),
    f64exact_17 (6 * (131072 * r + a) - 47185920) (by push_cast; ring)
      (by rw [abs_lt]; constructor <;> omega)⟩

theorem emod_range (j : ℤ) (n : ℤ) (hn : 0 < n) : 0 ≤ j % n ∧ j % n < n :=
  ⟨Int.emod_nonneg j (ne_of_gt hn), Int.emod_lt_of_pos j hn⟩

/-- **`lat_even` is computed exactly**, wrap included -/
theorem fLatE_eq (R : Rounding fl) (e o : Msg) (he : e.lat < 131072) (ho : o.lat < 131072) :
    fLatE fl e o = gLatE e o := by
  have hj := gJ_range e o he ho
  have hr := emod_range (gJ e o) 60 (by norm_num)
  obtain ⟨x1, x2, x3⟩ := lat_even_f64exact (gJ e o % 60) e.lat hr he
  unfold fLatE fLatE0 gLatE
  rw [fJ_eq R e o he ho, fDLatEven_eq R, fCpr_eq R _ he, dLatEven_eq, cprMax_eq]
  have h60 := fModulo_eq R (gJ e o) 60 (by rw [abs_le]; constructor <;> omega) (by norm_num) (by norm_num)
  norm_num at h60
  rw [h60, modulo_60, R.exact _ x1, R.exact _ x2]
  unfold fWrap270 wrap270
  split
  · rw [R.exact _ x3]
  · rfl

/-! ### longitude zone index `m` (l.290-296): exact for every `nl ∈ 1..59` -/

/-- l.291-294: `(nl − 1) as f64`, `nl as f64`, the two products, their difference, `+ 0.5` and the floor are
    binary64 values for all 17-bit fields and all `nl = k + 1 ∈ 1..59`; `-59 ≤ m ≤ 58`. -/
theorem m_f64exact (a b k : ℕ) (ha : a < 131072) (hb : b < 131072) (hk : k + 1 ≤ 59) :
    F64Exact ((k : ℕ) : ℚ) ∧ F64Exact ((k + 1 : ℕ) : ℚ) ∧
    F64Exact ((a : ℚ) / 131072 * (k : ℚ)) ∧ F64Exact ((b : ℚ) / 131072 * ((k + 1 : ℕ) : ℚ)) ∧
    F64Exact ((a : ℚ) / 131072 * (k : ℚ) - (b : ℚ) / 131072 * ((k + 1 : ℕ) : ℚ)) ∧
    F64Exact ((a : ℚ) / 131072 * (k : ℚ) - (b : ℚ) / 131072 * ((k + 1 : ℕ) : ℚ) + 1 / 2) ∧
    (-59 ≤ ⌊(a : ℚ) / 131072 * (k : ℚ) - (b : ℚ) / 131072 * ((k + 1 : ℕ) : ℚ) + 1 / 2⌋ ∧
      ⌊(a : ℚ) / 131072 * (k : ℚ) - (b : ℚ) / 131072 * ((k + 1 : ℕ) : ℚ) + 1 / 2⌋ ≤ 58) ∧
    F64Exact ((⌊(a : ℚ) / 131072 * (k : ℚ) - (b : ℚ) / 131072 * ((k + 1 : ℕ) : ℚ) + 1 / 2⌋ : ℤ) : ℚ) := by
  have hP1 : a * k ≤ 131071 * 58 := Nat.mul_le_mul (by omega) (by omega)
  have hP2 : b * (k + 1) ≤ 131071 * 59 := Nat.mul_le_mul (by omega) (by omega)
  generalize hp1 : a * k = P1 at hP1
  generalize hp2 : b * (k + 1) = P2 at hP2
  have e1 : (a : ℚ) / 131072 * (k : ℚ) = ((P1 : ℤ) : ℚ) / 131072 := by
    rw [← hp1]; push_cast; ring
  have e2 : (b : ℚ) / 131072 * ((k + 1 : ℕ) : ℚ) = ((P2 : ℤ) : ℚ) / 131072 := by
    rw [← hp2]; push_cast; ring
  have hr : -59 ≤ ⌊(a : ℚ) / 131072 * (k : ℚ) - (b : ℚ) / 131072 * ((k + 1 : ℕ) : ℚ) + 1 / 2⌋ ∧
      ⌊(a : ℚ) / 131072 * (k : ℚ) - (b : ℚ) / 131072 * ((k + 1 : ℕ) : ℚ) + 1 / 2⌋ ≤ 58 := by
    rw [e1, e2]
    have hk' : P1 ≤ 131071 * k := by rw [← hp1]; exact Nat.mul_le_mul_right k (by omega)
    have hk'' : P2 ≤ 131071 * (k + 1) := by rw [← hp2]; exact Nat.mul_le_mul_right (k + 1) (by omega)
    have q1 : (P1 : ℚ) ≤ 131071 * (k : ℚ) := by exact_mod_cast hk'
    have q2 : (P2 : ℚ) ≤ 131071 * ((k : ℚ) + 1) := by exact_mod_cast hk''
    have q3 : (0 : ℚ) ≤ (P1 : ℚ) := by positivity
    have q4 : (0 : ℚ) ≤ (P2 : ℚ) := by positivity
    have q5 : (k : ℚ) ≤ 58 := by exact_mod_cast (by omega : k ≤ 58)
    constructor
    · rw [Int.le_floor]; push_cast; linarith
    · have : ⌊((P1 : ℤ) : ℚ) / 131072 - ((P2 : ℤ) : ℚ) / 131072 + 1 / 2⌋ < 59 := by
        rw [Int.floor_lt]; push_cast; linarith
      omega
  refine ⟨f64exact_of_int k (by push_cast; rfl) (by rw [abs_lt]; constructor <;> omega),
    f64exact_of_int ((k : ℤ) + 1) (by push_cast; rfl) (by rw [abs_lt]; constructor <;> omega),
    f64exact_17 P1 e1 (by rw [abs_lt]; constructor <;> omega),
    f64exact_17 P2 e2 (by rw [abs_lt]; constructor <;> omega),
    f64exact_17 ((P1 : ℤ) - P2) (by rw [e1, e2]; push_cast; ring) (by rw [abs_lt]; constructor <;> omega),
    f64exact_17 ((P1 : ℤ) - P2 + 65536) (by rw [e1, e2]; push_cast; ring)
      (by rw [abs_lt]; constructor <;> omega),
    hr, f64exact_int _ (by rw [abs_lt]; constructor <;> omega)⟩

/-- **`m` is computed exactly**, for every value `n ∈ 1..59` of `nl(lat)` -/
theorem fM_eq (R : Rounding fl) (e o : Msg) (n : ℕ) (he : e.lon < 131072) (ho : o.lon < 131072)
    (hn1 : 1 ≤ n) (hn : n ≤ 59) : fM fl e o n = gMn e o n := by
  obtain ⟨k, rfl⟩ : ∃ k, n = k + 1 := ⟨n - 1, by omega⟩
  obtain ⟨h1, h2, h3, h4, h5, h6, _, _⟩ := m_f64exact e.lon o.lon k he ho hn
  unfold fM gMn
  have hk : k + 1 - 1 = k := by omega
  rw [hk, fCpr_eq R _ he, fCpr_eq R _ ho, R.exact _ h1, R.exact _ h2, R.exact _ h3, R.exact _ h4,
    R.exact _ h5, R.exact _ h6, cprMax_eq]

theorem gMn_range (e o : Msg) (n : ℕ) (he : e.lon < 131072) (ho : o.lon < 131072)
    (hn1 : 1 ≤ n) (hn : n ≤ 59) : -59 ≤ gMn e o n ∧ gMn e o n ≤ 58 := by
  obtain ⟨k, rfl⟩ : ∃ k, n = k + 1 := ⟨n - 1, by omega⟩
  have hk : k + 1 - 1 = k := by omega
  unfold gMn; rw [cprMax_eq, hk]
  exact (m_f64exact e.lon o.lon k he ho hn).2.2.2.2.2.2.1

/-- l.290: `ni = max(nl − p, 1) as f64` is a binary64 value in `1..59` -/
theorem ni_f64exact (n p : ℕ) (hn : n ≤ 59) :
    F64Exact ((max (n - p) 1 : ℕ) : ℚ) ∧ 1 ≤ max (n - p) 1 ∧ max (n - p) 1 ≤ 59 := by
  have h1 : 1 ≤ max (n - p) 1 := le_max_right _ _
  have h2 : max (n - p) 1 ≤ 59 := max_le (by omega) (by norm_num)
  exact ⟨f64exact_of_int ((max (n - p) 1 : ℕ) : ℤ) (by push_cast; rfl) (by rw [abs_lt]; constructor <;> omega),
    h1, h2⟩

/-- **`r = modulo(m, ni)` and `r + c` are computed exactly** (l.296, l.298): the second factor of the longitude
    is the rational model's, a binary64 value in `[0, ni)` -/
theorem lon_factor_f64exact (R : Rounding fl) (e o : Msg) (n p k : ℕ) (he : e.lon < 131072)
    (ho : o.lon < 131072) (hk : k < 131072) (hn1 : 1 ≤ n) (hn : n ≤ 59) :
    fl (fModulo fl (fM fl e o n) (fl ((max (n - p) 1 : ℕ) : ℚ)) + fCpr fl k)
      = modulo (gMn e o n : ℚ) ((max (n - p) 1 : ℕ) : ℚ) + (k : ℚ) / cprMax ∧
    F64Exact (modulo (gMn e o n : ℚ) ((max (n - p) 1 : ℕ) : ℚ) + (k : ℚ) / cprMax) ∧
    0 ≤ modulo (gMn e o n : ℚ) ((max (n - p) 1 : ℕ) : ℚ) + (k : ℚ) / cprMax ∧
    modulo (gMn e o n : ℚ) ((max (n - p) 1 : ℕ) : ℚ) + (k : ℚ) / cprMax < ((max (n - p) 1 : ℕ) : ℚ) := by
  obtain ⟨x0, h1, h2⟩ := ni_f64exact n p hn
  have hm := gMn_range e o n he ho hn1 hn
  set ni := max (n - p) 1 with hni
  have hniZ : (0 : ℤ) < (ni : ℤ) := by exact_mod_cast h1
  have hr := emod_range (gMn e o n) (ni : ℤ) hniZ
  have hni59 : (ni : ℤ) ≤ 59 := by exact_mod_cast h2
  have x1 := (lat_even_f64exact (gMn e o n % (ni : ℤ)) k ⟨hr.1, by omega⟩ hk).1
  rw [fM_eq R e o n he ho hn1 hn, R.exact _ x0,
    fModulo_eq R _ ni (by rw [abs_le]; constructor <;> omega) h1 (by omega), fCpr_eq R _ hk, cprMax_eq,
    modulo_int]
  refine ⟨R.exact _ x1, x1, ?_, ?_⟩
  · have : (0 : ℚ) ≤ ((gMn e o n % (ni : ℤ) : ℤ) : ℚ) := by exact_mod_cast hr.1
    have : (0 : ℚ) ≤ (k : ℚ) / 131072 := by positivity
    linarith
  · have : ((gMn e o n % (ni : ℤ) : ℤ) : ℚ) ≤ (ni : ℚ) - 1 := by
      have : gMn e o n % (ni : ℤ) ≤ (ni : ℤ) - 1 := by omega
      exact_mod_cast this
    have : (k : ℚ) / 131072 < 1 := by
      rw [div_lt_one (by norm_num)]; exact_mod_cast hk
    linarith

/-! ### what is NOT exact: `360/59`, `lat_odd`, `360/ni`, the longitude — error bounds -/

/-- l.215: `D_LAT_ODD` is the rounding of `360/59` (the operands `60`, `59` are exact) -/
theorem fDLatOdd_err (R : Rounding fl) : |fDLatOdd fl - 360 / 59| ≤ 8 * u + 1 / 2 ^ 100 := by
  unfold fDLatOdd
  rw [R.exact _ dlat_even_f64exact.1]
  have : ((4 : ℚ) * 15 - 1) = 60 - 1 := by norm_num
  rw [this, R.exact _ dlat_even_f64exact.2.2.2]
  have : ((60 : ℚ) - 1) = 59 := by norm_num
  rw [this]
  exact R.abs_err (by rw [abs_of_pos] <;> norm_num) (by norm_num)

/-- the rational model's `lat_odd` before the `>= 270` wrap -/
def gLatO0 (e o : Msg) : ℚ := dLatOdd * (modulo (gJ e o : ℚ) 59 + (o.lat : ℚ) / cprMax)

theorem gLatO_eq (e o : Msg) : gLatO e o = wrap270 (gLatO0 e o) := rfl

/-- **`lat_odd` (before the wrap) is within `10⁻¹²` degrees of the rational model's value**: its second factor
    is exact, the first is the rounded `360/59`, the product is rounded once. (The bound is `984·u + 60·2⁻¹⁰⁰ <
    1.1·10⁻¹³`.) -/
theorem lat_odd_err (R : Rounding fl) (e o : Msg) (he : e.lat < 131072) (ho : o.lat < 131072) :
    |fLatO0 fl e o - gLatO0 e o| ≤ 1 / 10 ^ 12 ∧ 0 ≤ gLatO0 e o ∧ gLatO0 e o < 360 := by
  have hj := gJ_range e o he ho
  have hr := emod_range (gJ e o) 59 (by norm_num)
  have x1 := (lat_even_f64exact (gJ e o % 59) o.lat ⟨hr.1, by omega⟩ ho).1
  have hD := fDLatOdd_err R
  unfold fLatO0 gLatO0
  rw [fJ_eq R e o he ho, fCpr_eq R _ ho, dLatOdd_eq, cprMax_eq]
  have h59 := fModulo_eq R (gJ e o) 59 (by rw [abs_le]; constructor <;> omega) (by norm_num) (by norm_num)
  norm_num at h59
  rw [h59, modulo_59, R.exact _ x1]
  have hs0 : (0 : ℚ) ≤ ((gJ e o % 59 : ℤ) : ℚ) + (o.lat : ℚ) / 131072 := by
    have : (0 : ℚ) ≤ ((gJ e o % 59 : ℤ) : ℚ) := by exact_mod_cast hr.1
    have : (0 : ℚ) ≤ (o.lat : ℚ) / 131072 := by positivity
    linarith
  have hs1 : ((gJ e o % 59 : ℤ) : ℚ) + (o.lat : ℚ) / 131072 < 59 := by
    have : ((gJ e o % 59 : ℤ) : ℚ) ≤ 58 := by
      have : gJ e o % 59 ≤ 58 := by omega
      exact_mod_cast this
    have : (o.lat : ℚ) / 131072 < 1 := by
      rw [div_lt_one (by norm_num)]; exact_mod_cast ho
    linarith
  have hs : |((gJ e o % 59 : ℤ) : ℚ) + (o.lat : ℚ) / 131072| ≤ 59 := by
    rw [abs_of_nonneg hs0]; linarith
  have hD' : |fDLatOdd fl| ≤ 8 := by
    have := abs_le.mp hD
    have hu : 8 * u + 1 / 2 ^ 100 ≤ 1 := by unfold u; norm_num
    rw [abs_le]; constructor <;> linarith
  have := R.mul_err (P := 512) hD hs (by linarith) (by norm_num)
  refine ⟨le_trans this (by unfold u; norm_num), by positivity, ?_⟩
  nlinarith

/-- **the longitude (before the `>= 180` wrap) is within `10⁻¹²` degrees of the rational model's value**, for all
    17-bit fields, every `nl ∈ 1..59` and `p`: `360/ni` is rounded once (`ni` exact), the second factor is exact,
    the product is rounded once.  (The bound is `721·u + 60·2⁻¹⁰⁰ < 8.1·10⁻¹⁴`.) -/
theorem lon_err (R : Rounding fl) (e o : Msg) (n p k : ℕ) (he : e.lon < 131072) (ho : o.lon < 131072)
    (hk : k < 131072) (hn1 : 1 ≤ n) (hn : n ≤ 59) :
    |fLon0 fl e o n p k - gLon0 e o n p k| ≤ 1 / 10 ^ 12 ∧ 0 ≤ gLon0 e o n p k ∧ gLon0 e o n p k < 360 := by
  obtain ⟨x0, h1, h2⟩ := ni_f64exact n p hn
  obtain ⟨f1, _, f3, f4⟩ := lon_factor_f64exact R e o n p k he ho hk hn1 hn
  unfold fLon0 gLon0
  rw [f1, R.exact _ x0]
  set ni := max (n - p) 1 with hni
  set s := modulo (gMn e o n : ℚ) (ni : ℚ) + (k : ℚ) / cprMax with hs
  have hniQ : (1 : ℚ) ≤ (ni : ℚ) := by exact_mod_cast h1
  have hni59 : (ni : ℚ) ≤ 59 := by exact_mod_cast h2
  have hnipos : (0 : ℚ) < (ni : ℚ) := by linarith
  have hDpos : (0 : ℚ) < 360 / (ni : ℚ) := by positivity
  have hDle : 360 / (ni : ℚ) ≤ 360 := by rw [div_le_iff₀ hnipos]; nlinarith
  have hDni : 360 / (ni : ℚ) * (ni : ℚ) = 360 := by field_simp
  have hD : |fl (360 / (ni : ℚ)) - 360 / (ni : ℚ)| ≤ 360 / (ni : ℚ) * u + 1 / 2 ^ 100 :=
    R.abs_err (by rw [abs_of_pos hDpos]) (by linarith)
  have hsabs : |s| ≤ (ni : ℚ) := by rw [abs_of_nonneg f3]; linarith
  have hD' : |fl (360 / (ni : ℚ))| * (ni : ℚ) ≤ 361 := by
    have h := abs_le.mp hD
    have : |fl (360 / (ni : ℚ))| ≤ 360 / (ni : ℚ) + (360 / (ni : ℚ) * u + 1 / 2 ^ 100) := by
      rw [abs_le]; constructor <;> linarith
    have h3 := mul_le_mul_of_nonneg_right this (le_of_lt hnipos)
    have e3 : (360 / (ni : ℚ) + (360 / (ni : ℚ) * u + 1 / 2 ^ 100)) * (ni : ℚ)
        = 360 + 360 * u + (ni : ℚ) / 2 ^ 100 := by
      have : (360 / (ni : ℚ) + (360 / (ni : ℚ) * u + 1 / 2 ^ 100)) * (ni : ℚ)
          = 360 / (ni : ℚ) * (ni : ℚ) * (1 + u) + (ni : ℚ) / 2 ^ 100 := by ring
      rw [this, hDni]; ring
    rw [e3] at h3
    have : 360 * u + (ni : ℚ) / 2 ^ 100 ≤ 1 := by
      have : (ni : ℚ) / 2 ^ 100 ≤ 59 / 2 ^ 100 := div_le_div_of_nonneg_right hni59 (by positivity)
      have : 360 * u + 59 / 2 ^ 100 ≤ 1 := by unfold u; norm_num
      linarith
    linarith
  have := R.mul_err (P := 361) hD hsabs hD' (by norm_num)
  have e4 : (360 / (ni : ℚ) * u + 1 / 2 ^ 100) * (ni : ℚ) = 360 * u + (ni : ℚ) / 2 ^ 100 := by
    have : (360 / (ni : ℚ) * u + 1 / 2 ^ 100) * (ni : ℚ)
        = 360 / (ni : ℚ) * (ni : ℚ) * u + (ni : ℚ) / 2 ^ 100 := by ring
    rw [this, hDni]
  rw [e4] at this
  have hb : 360 * u + (ni : ℚ) / 2 ^ 100 + 361 * u + 1 / 2 ^ 100 ≤ 1 / 10 ^ 12 := by
    have : (ni : ℚ) / 2 ^ 100 ≤ 59 / 2 ^ 100 := div_le_div_of_nonneg_right hni59 (by positivity)
    have : 360 * u + 59 / 2 ^ 100 + 361 * u + 1 / 2 ^ 100 ≤ 1 / 10 ^ 12 := by unfold u; norm_num
    linarith
  refine ⟨le_trans this hb, by positivity, ?_⟩
  calc 360 / (ni : ℚ) * s < 360 / (ni : ℚ) * (ni : ℚ) := mul_lt_mul_of_pos_left f4 hDpos
    _ = 360 := hDni

/-- a comparison with a constant is decided alike unless the exact value is within `ε` of it -/
theorem ge_iff_of_far {x' x ε c : ℚ} (h : |x' - x| ≤ ε) (far : ε < |x - c|) : (x' ≥ c ↔ x ≥ c) := by
  have := abs_le.mp h
  constructor
  · intro h1
    by_contra h2
    rw [not_le] at h2
    rw [abs_of_neg (by linarith)] at far
    linarith
  · intro h1
    rw [abs_of_nonneg (by linarith)] at far
    linarith

theorem le_iff_of_far {x' x ε c : ℚ} (h : |x' - x| ≤ ε) (far : ε < |x - c|) : (x' ≤ c ↔ x ≤ c) := by
  have := abs_le.mp h
  constructor
  · intro h1
    by_contra h2
    rw [not_le] at h2
    rw [abs_of_pos (by linarith)] at far
    linarith
  · intro h1
    rw [abs_of_nonpos (by linarith)] at far
    linarith

/-- the wraps `if x >= c { x -= 360.0 }` (`c = 270`, `180`) on a perturbed value: one more rounding when taken -/
theorem wrap_err (R : Rounding fl) {x' x ε c : ℚ} (h : |x' - x| ≤ ε) (hc : 180 ≤ c) (hx : x' ≤ 400)
    (same : x' ≥ c ↔ x ≥ c) :
    |(if x' ≥ c then fl (x' - 360) else x') - (if x ≥ c then x - 360 else x)| ≤ ε + 256 * u + 1 / 2 ^ 100 := by
  have hu : 0 ≤ 256 * u + 1 / 2 ^ 100 := by unfold u; positivity
  by_cases hx' : x' ≥ c
  · rw [if_pos hx', if_pos (same.mp hx')]
    have h1 : |x' - 360| ≤ 256 := by rw [abs_le]; constructor <;> linarith
    have h2 := R.abs_err h1 (by norm_num)
    have e : fl (x' - 360) - (x - 360) = (fl (x' - 360) - (x' - 360)) + (x' - x) := by ring
    rw [e]
    exact le_trans (abs_add_le _ _) (by linarith)
  · rw [if_neg hx', if_neg (fun h => hx' (same.mpr h))]
    linarith

/-- **`lat_odd` after the wrap**: within `2·10⁻¹²` degrees of the model when the `>= 270` decision is the same, and
    the decision IS the same unless the exact value is within `10⁻¹²` of 270 -/
theorem lat_odd_wrapped_err (R : Rounding fl) (e o : Msg) (he : e.lat < 131072) (ho : o.lat < 131072) :
    ((fLatO0 fl e o ≥ 270 ↔ gLatO0 e o ≥ 270) → |fLatO fl e o - gLatO e o| ≤ 2 / 10 ^ 12) ∧
    (1 / 10 ^ 12 < |gLatO0 e o - 270| → (fLatO0 fl e o ≥ 270 ↔ gLatO0 e o ≥ 270)) := by
  obtain ⟨h1, h2, h3⟩ := lat_odd_err R e o he ho
  refine ⟨fun same => ?_, fun far => ge_iff_of_far h1 far⟩
  have hx : fLatO0 fl e o ≤ 400 := by have := abs_le.mp h1; linarith
  have := wrap_err R h1 (by norm_num : (180 : ℚ) ≤ 270) hx same
  rw [gLatO_eq]; unfold fLatO fWrap270 wrap270
  refine le_trans this (by unfold u; norm_num)

/-- **the returned longitude**: within `2·10⁻¹²` degrees of the model's when the `>= 180` decision is the same
    (otherwise the two differ by 360°, the same point), and the decision IS the same unless the exact value is
    within `10⁻¹²` of 180 -/
theorem lon_wrapped_err (R : Rounding fl) (e o : Msg) (n p k : ℕ) (he : e.lon < 131072) (ho : o.lon < 131072)
    (hk : k < 131072) (hn1 : 1 ≤ n) (hn : n ≤ 59) :
    ((fLon0 fl e o n p k ≥ 180 ↔ gLon0 e o n p k ≥ 180) →
      |fWrap180 fl (fLon0 fl e o n p k) - wrap180 (gLon0 e o n p k)| ≤ 2 / 10 ^ 12) ∧
    (1 / 10 ^ 12 < |gLon0 e o n p k - 180| → (fLon0 fl e o n p k ≥ 180 ↔ gLon0 e o n p k ≥ 180)) := by
  obtain ⟨h1, h2, h3⟩ := lon_err R e o n p k he ho hk hn1 hn
  refine ⟨fun same => ?_, fun far => ge_iff_of_far h1 far⟩
  have hx : fLon0 fl e o n p k ≤ 400 := by have := abs_le.mp h1; linarith
  have := wrap_err R h1 (le_refl (180 : ℚ)) hx same
  unfold fWrap180 wrap180
  refine le_trans this (by unfold u; norm_num)

/-! ### `airborne_position_with_reference` (l.315-372) and `surface_position_with_reference` (l.380-437)

Both axes have the same shape — `idx = floor(0.5 + ref / d - cpr)` (l.335/360, l.400/425), `d * (idx + cpr)`
(l.337/361, l.402/426) — with `d = d_lat` (l.323-327: `360/60`, `360/59`; l.388-392: `90/60`, `90/59`) or
`d = d_lon = 360 / ni` resp. `90 / ni` (l.352, l.417).  `d'` below is the binary64 value the code holds for
`d`; in every case it is ONE rounding of the exact quotient (`60`, `59`, `ni` are exact), i.e.
`|d' − d| ≤ d·u + 2⁻¹⁰⁰`, and `3/2 ≤ 90/60 ≤ d ≤ 360`. -/

section LocalDefs
variable (fl : ℚ → ℚ)
/-- l.323-327 / l.388-392 (`full = 360` / `90`) -/
def fDLat (full : ℚ) (m : Msg) : ℚ := if m.parity = .even then fl (full / 60) else fl (full / 59)
/-- l.352 / l.417 -/
def fDLon (full : ℚ) (ni : ℕ) : ℚ := if ni > 0 then fl (full / fl (ni : ℚ)) else full
/-- the argument of the floor in l.335, 360, 400, 425: `0.5 + ref / d - cpr` -/
def fIdxArg (ref d : ℚ) (k : ℕ) : ℚ := fl (fl (1 / 2 + fl (ref / d)) - fCpr fl k)
/-- l.335, 360, 400, 425 -/
def fIdx (ref d : ℚ) (k : ℕ) : ℤ := ⌊fIdxArg fl ref d k⌋
/-- l.337, 361, 402, 426: `d * (idx + cpr)` -/
def fCoord (d : ℚ) (j : ℤ) (k : ℕ) : ℚ := fl (d * fl ((j : ℚ) + fCpr fl k))
end LocalDefs

/-- the rational model's floor argument -/
def gIdxArg (ref d : ℚ) (k : ℕ) : ℚ := 1 / 2 + ref / d - (k : ℚ) / 131072

/-- l.323/388 (even), l.337/402: `360/60`, `90/60` are binary64 values, and for every integer `|j| ≤ 1024`
    so are `j + cpr` and its products with `6` and `3/2` — given the zone index, an EVEN report's latitude
    is computed exactly (airborne and surface) -/
theorem local_even_f64exact (j : ℤ) (k : ℕ) (hj : |j| ≤ 1024) (hk : k < 131072) :
    F64Exact (360 / 60 : ℚ) ∧ F64Exact (90 / 60 : ℚ) ∧ F64Exact ((j : ℚ) + (k : ℚ) / 131072) ∧
    F64Exact (360 / 60 * ((j : ℚ) + (k : ℚ) / 131072)) ∧ F64Exact (90 / 60 * ((j : ℚ) + (k : ℚ) / 131072)) := by
  have hjj := abs_le.mp hj
  refine ⟨dlat_even_f64exact.2.1, dlat_even_f64exact.2.2.1,
    f64exact_17 (131072 * j + k) (by push_cast; ring) (by rw [abs_lt]; constructor <;> omega),
    f64exact_17 (6 * (131072 * j + k)) (by push_cast; ring) (by rw [abs_lt]; constructor <;> omega), ?_⟩
  have := f64exact_div_pow (3 * (131072 * j + k)) 18 (by norm_num) (by rw [abs_lt]; constructor <;> omega)
  have e : (90 / 60 * ((j : ℚ) + (k : ℚ) / 131072)) = ((3 * (131072 * j + k) : ℤ) : ℚ) / 2 ^ 18 := by
    push_cast; ring
  rw [e]; exact this

/-- an even report's coordinate `d_lat * (j + cpr_lat)` is exact once `j` is (both decoders) -/
theorem fCoord_even_eq (R : Rounding fl) (j : ℤ) (k : ℕ) (hj : |j| ≤ 1024) (hk : k < 131072) :
    fCoord fl (fl (360 / 60)) j k = 360 / 60 * ((j : ℚ) + (k : ℚ) / 131072) ∧
    fCoord fl (fl (90 / 60)) j k = 90 / 60 * ((j : ℚ) + (k : ℚ) / 131072) := by
  obtain ⟨a, b, c, d, e⟩ := local_even_f64exact j k hj hk
  unfold fCoord
  rw [fCpr_eq R _ hk, R.exact _ a, R.exact _ b, R.exact _ c, R.exact _ d, R.exact _ e]
  exact ⟨rfl, rfl⟩

/-- the zone sizes the code holds are one rounding of the exact quotient -/
theorem zone_size_err (R : Rounding fl) (full : ℚ) (hf : full = 360 ∨ full = 90) (n : ℕ) (hn1 : 1 ≤ n)
    (hn : n ≤ 60) :
    |fl (full / fl (n : ℚ)) - full / n| ≤ full / n * u + 1 / 2 ^ 100 ∧ 3 / 2 ≤ full / (n : ℚ) ∧
      full / (n : ℚ) ≤ 360 := by
  have x0 : F64Exact (n : ℚ) :=
    f64exact_of_int (n : ℤ) (by push_cast; rfl) (by rw [abs_lt]; constructor <;> omega)
  have hnQ : (1 : ℚ) ≤ (n : ℚ) := by exact_mod_cast hn1
  have hn60 : (n : ℚ) ≤ 60 := by exact_mod_cast hn
  have hnpos : (0 : ℚ) < (n : ℚ) := by linarith
  have hf90 : (90 : ℚ) ≤ full := by rcases hf with h | h <;> norm_num [h]
  have hf360 : full ≤ 360 := by rcases hf with h | h <;> norm_num [h]
  have hfpos : (0 : ℚ) < full := by linarith
  have hpos : 0 < full / (n : ℚ) := by positivity
  have hlo : 3 / 2 ≤ full / (n : ℚ) := by rw [le_div_iff₀ hnpos]; nlinarith
  have hhi : full / (n : ℚ) ≤ 360 := by rw [div_le_iff₀ hnpos]; nlinarith
  rw [R.exact _ x0]
  exact ⟨R.abs_err (by rw [abs_of_pos hpos]) (by linarith), hlo, hhi⟩

/-- shared preliminaries: `d'` is positive and within 20 % of `d` -/
theorem zone_size_near {d d' η : ℚ} (hd : 3 / 2 ≤ d) (hη : η = 1 / 2 ^ 100)
    (hd' : |d' - d| ≤ d * u + η) : 4 / 5 * d ≤ d' ∧ d' ≤ d + (d * u + η) := by
  have hdd := abs_le.mp hd'
  have h1 : u ≤ 1 / 10 := by unfold u; norm_num
  have h2 : η ≤ 1 / 10 := by rw [hη]; norm_num
  have hsmall : d * u + η ≤ d / 5 := by nlinarith
  exact ⟨by linarith [hdd.1], by linarith [hdd.2]⟩

/-- the quotient `ref / d` (l.335, 360, 400, 425) with the rounded zone size -/
theorem quot_err {d d' ref η : ℚ} (hd : 3 / 2 ≤ d) (hη : η = 1 / 2 ^ 100)
    (hd' : |d' - d| ≤ d * u + η) (href : |ref| ≤ 360) :
    |ref / d' - ref / d| ≤ 300 * u + 200 * η ∧ |ref / d| ≤ 240 := by
  have hu := u_pos
  have hηpos : 0 < η := by rw [hη]; positivity
  have hdpos : 0 < d := by linarith
  obtain ⟨hd'lo, _⟩ := zone_size_near hd hη hd'
  have hd'pos : 0 < d' := by linarith
  refine ⟨?_, by rw [abs_div, abs_of_pos hdpos, div_le_iff₀ hdpos]; linarith⟩
  have e : ref / d' - ref / d = ref * (d - d') / (d * d') := by field_simp
  rw [e, abs_div, abs_of_pos (mul_pos hdpos hd'pos), div_le_iff₀ (mul_pos hdpos hd'pos), abs_mul]
  have h1 : |d - d'| ≤ d * u + η := by rw [abs_sub_comm]; exact hd'
  have h2 : |ref| * |d - d'| ≤ 360 * (d * u + η) := mul_le_mul href h1 (abs_nonneg _) (by norm_num)
  have h3 : d * (4 / 5 * d) ≤ d * d' := mul_le_mul_of_nonneg_left hd'lo (le_of_lt hdpos)
  have h4 : 3 / 2 * d ≤ d * d := by nlinarith
  have h5 : 9 / 4 ≤ d * d := by nlinarith
  have h6 : 0 ≤ 300 * u + 200 * η := by positivity
  have h7 : (300 * u + 200 * η) * (d * (4 / 5 * d)) ≤ (300 * u + 200 * η) * (d * d') :=
    mul_le_mul_of_nonneg_left h3 h6
  have e8 : (300 * u + 200 * η) * (d * (4 / 5 * d)) = 240 * u * (d * d) + 160 * η * (d * d) := by ring
  have a1 : 240 * u * (3 / 2 * d) ≤ 240 * u * (d * d) := mul_le_mul_of_nonneg_left h4 (by positivity)
  have a2 : 160 * η * (9 / 4) ≤ 160 * η * (d * d) := mul_le_mul_of_nonneg_left h5 (by positivity)
  have e9 : 360 * (d * u + η) = 240 * u * (3 / 2 * d) + 160 * η * (9 / 4) := by ring
  calc |ref| * |d - d'| ≤ 360 * (d * u + η) := h2
    _ = 240 * u * (3 / 2 * d) + 160 * η * (9 / 4) := e9
    _ ≤ 240 * u * (d * d) + 160 * η * (d * d) := add_le_add a1 a2
    _ = (300 * u + 200 * η) * (d * (4 / 5 * d)) := e8.symm
    _ ≤ (300 * u + 200 * η) * (d * d') := h7

/-- **the floor argument** `0.5 + ref / d − cpr` computed with `fl` is within `10⁻¹²` (`≈ 1068·u`) of the exact one -/
theorem idx_arg_err (R : Rounding fl) {d d' ref : ℚ} (k : ℕ) (hk : k < 131072) (hd : 3 / 2 ≤ d)
    (hd' : |d' - d| ≤ d * u + 1 / 2 ^ 100) (href : |ref| ≤ 360) :
    |fIdxArg fl ref d' k - gIdxArg ref d k| ≤ 1 / 10 ^ 12 := by
  obtain ⟨η, hη⟩ : ∃ η : ℚ, η = 1 / 2 ^ 100 := ⟨_, rfl⟩
  rw [← hη] at hd'
  obtain ⟨hκ, hq⟩ := quot_err hd hη hd' href
  have hc0 : (0 : ℚ) ≤ (k : ℚ) / 131072 := by positivity
  have hc1 : (k : ℚ) / 131072 < 1 := by rw [div_lt_one (by norm_num)]; exact_mod_cast hk
  have hsm : 300 * u + 200 * η ≤ 1 := by rw [hη]; unfold u; norm_num
  have hq' : |ref / d'| ≤ 241 := by
    have := abs_sub_abs_le_abs_sub (ref / d') (ref / d)
    linarith
  have r1 := R.abs_err (B := 256) (le_trans hq' (by norm_num)) (by norm_num)
  have r1' := abs_le.mp r1
  have hq'' := abs_le.mp hq'
  have hub : 256 * u + 1 / 2 ^ 100 ≤ 1 := by unfold u; norm_num
  have b2 : |1 / 2 + fl (ref / d')| ≤ 256 := by
    rw [abs_le]; constructor
    · linarith [r1'.1, hq''.1]
    · linarith [r1'.2, hq''.2]
  have r2 := R.abs_err b2 (by norm_num)
  have r2' := abs_le.mp r2
  have b2' := abs_le.mp b2
  have x0 := fCpr_eq R k hk
  have b3 : |fl (1 / 2 + fl (ref / d')) - fCpr fl k| ≤ 256 := by
    rw [x0, abs_le]; constructor
    · linarith [r2'.1, r1'.1, hq''.1]
    · linarith [r2'.2, r1'.2, hq''.2]
  have r3 := R.abs_err b3 (by norm_num)
  rw [x0] at r3
  have r3' := abs_le.mp r3
  have hk' := abs_le.mp hκ
  have hA12 : 300 * u + 200 * η + 3 * (256 * u + 1 / 2 ^ 100) ≤ 1 / 10 ^ 12 := by
    rw [hη]; unfold u; norm_num
  unfold fIdxArg gIdxArg
  rw [x0, abs_le]
  constructor
  · linarith [r3'.1, r2'.1, r1'.1, hk'.1]
  · linarith [r3'.2, r2'.2, r1'.2, hk'.2]

/-- **the coordinate** `d * (idx + cpr)` computed with `fl` for the MODEL's index is within `10⁻¹²` degrees
    (`≈ 1081·u`) of the rational model's coordinate -/
theorem coord_err (R : Rounding fl) {d d' ref : ℚ} (k : ℕ) (hk : k < 131072) (hd : 3 / 2 ≤ d) (hd360 : d ≤ 360)
    (hd' : |d' - d| ≤ d * u + 1 / 2 ^ 100) (href : |ref| ≤ 360) :
    |fCoord fl d' ⌊gIdxArg ref d k⌋ k - d * ((⌊gIdxArg ref d k⌋ : ℚ) + (k : ℚ) / 131072)| ≤ 1 / 10 ^ 12 := by
  obtain ⟨η, hη⟩ : ∃ η : ℚ, η = 1 / 2 ^ 100 := ⟨_, rfl⟩
  have hd'0 := hd'
  rw [← hη] at hd'
  have hu := u_pos
  have hηpos : 0 < η := by rw [hη]; positivity
  have hdpos : 0 < d := by linarith
  obtain ⟨hd'lo, hd'hi⟩ := zone_size_near hd hη hd'
  have hd'pos : 0 < d' := by linarith
  have hc0 : (0 : ℚ) ≤ (k : ℚ) / 131072 := by positivity
  have hc1 : (k : ℚ) / 131072 < 1 := by rw [div_lt_one (by norm_num)]; exact_mod_cast hk
  generalize hAdef : gIdxArg ref d k = A
  have hAeq : A = 1 / 2 + ref / d - (k : ℚ) / 131072 := by rw [← hAdef]; rfl
  have hfl0 : ((⌊A⌋ : ℤ) : ℚ) ≤ A := Int.floor_le A
  have hfl1 : A < ((⌊A⌋ : ℤ) : ℚ) + 1 := Int.lt_floor_add_one A
  obtain ⟨q, hqdef⟩ : ∃ q : ℚ, q = 360 / d := ⟨_, rfl⟩
  have hqd : q * d = 360 := by rw [hqdef]; field_simp
  have hqpos : 0 < q := by rw [hqdef]; positivity
  have hq240 : q ≤ 240 := by rw [hqdef, div_le_iff₀ hdpos]; linarith
  have hrq : |ref / d| ≤ q := by
    rw [abs_div, abs_of_pos hdpos, hqdef]; exact div_le_div_of_nonneg_right href (le_of_lt hdpos)
  have hrq' := abs_le.mp hrq
  have hS : |((⌊A⌋ : ℤ) : ℚ) + (k : ℚ) / 131072| ≤ q + 1 / 2 := by
    rw [abs_le]; constructor
    · linarith [hrq'.1]
    · linarith [hrq'.2]
  have hjabs : |⌊A⌋| ≤ 1024 := by
    have h1 : ((-1024 : ℤ) : ℚ) ≤ ((⌊A⌋ : ℤ) : ℚ) := by push_cast; linarith [hrq'.1]
    have h2 : ((⌊A⌋ : ℤ) : ℚ) ≤ ((1024 : ℤ) : ℚ) := by push_cast; linarith [hrq'.2]
    rw [abs_le]; exact ⟨Int.cast_le.mp h1, Int.cast_le.mp h2⟩
  have xs := (local_even_f64exact ⌊A⌋ k hjabs hk).2.2.1
  have x0 := fCpr_eq R k hk
  unfold fCoord
  rw [x0, R.exact _ xs]
  have hεS : (d * u + η) * (q + 1 / 2) = 360 * u + d * u / 2 + η * (q + 1 / 2) := by
    have : (d * u + η) * (q + 1 / 2) = q * d * u + d * u / 2 + η * (q + 1 / 2) := by ring
    rw [this, hqd]
  have g1 : d * u / 2 ≤ 180 * u := by nlinarith
  have g2 : η * (q + 1 / 2) ≤ η * 241 := mul_le_mul_of_nonneg_left (by linarith) (le_of_lt hηpos)
  have g3 : 360 * u + 180 * u + η * 241 ≤ 1 := by rw [hη]; unfold u; norm_num
  have hP : |d'| * (q + 1 / 2) ≤ 541 := by
    rw [abs_of_pos hd'pos]
    have h2 : d' * (q + 1 / 2) ≤ (d + (d * u + η)) * (q + 1 / 2) :=
      mul_le_mul_of_nonneg_right hd'hi (by linarith)
    have e2 : (d + (d * u + η)) * (q + 1 / 2) = q * d + d / 2 + (d * u + η) * (q + 1 / 2) := by ring
    rw [e2, hεS, hqd] at h2
    linarith
  have hmain := R.mul_err (P := 541) hd' hS hP (by norm_num)
  rw [hεS] at hmain
  have h3 : 360 * u + 180 * u + η * 241 + 541 * u + 1 / 2 ^ 100 ≤ 1 / 10 ^ 12 := by
    rw [hη]; unfold u; norm_num
  linarith

/-- **One axis of the local decoders under rounding.**  `d` exact zone size (`3/2 ≤ d ≤ 360`), `d'` its
    binary64 value (`|d' − d| ≤ d·u + 2⁻¹⁰⁰`), `|ref| ≤ 360`, `k` a 17-bit field.  Then
    1. the computed floor argument is within `10⁻¹²` of the exact one;
    2. hence the computed zone index is the rational model's unless the exact argument lies within `10⁻¹²`
       of an integer;
    3. with the same index, the computed coordinate is within `10⁻¹²` degrees of the model's. -/
theorem local_axis (R : Rounding fl) {d d' ref : ℚ} (k : ℕ) (hk : k < 131072) (hd : 3 / 2 ≤ d) (hd360 : d ≤ 360)
    (hd' : |d' - d| ≤ d * u + 1 / 2 ^ 100) (href : |ref| ≤ 360) :
    |fIdxArg fl ref d' k - gIdxArg ref d k| ≤ 1 / 10 ^ 12 ∧
    (((⌊gIdxArg ref d k⌋ : ℤ) : ℚ) + 1 / 10 ^ 12 ≤ gIdxArg ref d k →
      gIdxArg ref d k + 1 / 10 ^ 12 < ((⌊gIdxArg ref d k⌋ : ℤ) : ℚ) + 1 →
      fIdx fl ref d' k = ⌊gIdxArg ref d k⌋) ∧
    |fCoord fl d' ⌊gIdxArg ref d k⌋ k - d * ((⌊gIdxArg ref d k⌋ : ℚ) + (k : ℚ) / 131072)| ≤ 1 / 10 ^ 12 :=
  ⟨idx_arg_err R k hk hd hd' href,
   fun lo hi => floor_eq_of_close (idx_arg_err R k hk hd hd' href) lo hi,
   coord_err R k hk hd hd360 hd' href⟩

/-! ### glue to the normal form of `Model.Cpr.withRef` (`Proofs.Cpr.latOf`, `lonOf`, `dLatOf`, `dLonOf`) -/

theorem fDLat_err (R : Rounding fl) (full : ℚ) (hf : full = 360 ∨ full = 90) (m : Msg) :
    |fDLat fl full m - dLatOf full m| ≤ dLatOf full m * u + 1 / 2 ^ 100 ∧ 3 / 2 ≤ dLatOf full m ∧
      dLatOf full m ≤ 360 := by
  unfold fDLat dLatOf
  have x60 : F64Exact ((60 : ℕ) : ℚ) := f64exact_of_int 60 (by norm_num) (by norm_num)
  have x59 : F64Exact ((59 : ℕ) : ℚ) := f64exact_of_int 59 (by norm_num) (by norm_num)
  split
  · have := zone_size_err R full hf 60 (by norm_num) (by norm_num)
    rw [R.exact _ x60] at this
    simpa using this
  · have := zone_size_err R full hf 59 (by norm_num) (by norm_num)
    rw [R.exact _ x59] at this
    simpa using this

theorem fDLon_err (R : Rounding fl) (full : ℚ) (hf : full = 360 ∨ full = 90) (ni : ℕ) (h1 : 1 ≤ ni)
    (h59 : ni ≤ 59) :
    |fDLon fl full ni - full / ni| ≤ full / ni * u + 1 / 2 ^ 100 ∧ 3 / 2 ≤ full / (ni : ℚ) ∧
      full / (ni : ℚ) ≤ 360 := by
  unfold fDLon
  rw [if_pos (by omega)]
  exact zone_size_err R full hf ni h1 (by omega)

theorem latOf_eq (full : ℚ) (m : Msg) (latRef : ℚ) :
    latOf full m latRef
      = dLatOf full m * ((⌊gIdxArg latRef (dLatOf full m) m.lat⌋ : ℚ) + (m.lat : ℚ) / 131072) := by
  unfold latOf gIdxArg; rw [cprMax_eq]

theorem lonOf_eq (full : ℚ) (m : Msg) (lat lonRef : ℚ) :
    lonOf full m lat lonRef
      = dLonOf full m lat * ((⌊gIdxArg lonRef (dLonOf full m lat) m.lon⌋ : ℚ) + (m.lon : ℚ) / 131072) := by
  unfold lonOf gIdxArg; rw [cprMax_eq]

theorem niOf_range (i : ℕ) (lat : ℚ) : 1 ≤ niOf i lat ∧ niOf i lat ≤ 59 := by
  have := nl_range lat
  unfold niOf
  exact ⟨le_max_right _ _, max_le (by omega) (by norm_num)⟩

end Rs1090.Proofs.CprFloat
