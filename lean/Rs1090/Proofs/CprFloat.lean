import Rs1090.Proofs.CprGlobal
/-!
The f64 argument for CPR decoding, as theorems (C04 / C05) — WITHOUT a model of IEEE-754 rounding.

`crates/rs1090/src/decode/cpr.rs` computes in `f64`; `Model/Cpr.lean` in exact rationals.  This file
relates the two through

* `F64Exact q` — `q` is a binary64 value (`q = m·2^e`, `|m| < 2^53`, `-1074 ≤ e ≤ 971`), and
* `Rounding fl` — the *standard model* of rounding as a HYPOTHESIS on an abstract `fl : ℚ → ℚ`:
  `fl` is the identity on `F64Exact` values, monotone, and `|fl x − x| ≤ |x|·2⁻⁵³ + 2⁻¹⁰⁷⁵` for
  `|x| ≤ 2^1023` (the second term is half the spacing of the subnormals; without it the hypothesis would be
  false of IEEE for |x| < 2⁻¹⁰²²).  IEEE-754 round-to-nearest satisfies it — that is the trusted part;
  `Rounding id` shows the hypothesis is satisfiable.

The `f…` definitions below follow the Rust expressions one by one with `fl` after EVERY operation (also
after those that turn out to be exact).  Two kinds of theorems:

* `…_f64exact`: the operands/results the informal argument called exact ARE `F64Exact`, for all 17-bit
  fields and all `nl ∈ 1..59` — hence the `fl`-computation of `j`, `j mod 60`, `j mod 59`, `lat_even`, `m`,
  `m mod ni`, `r + c` (global) and of `cpr`, `d_lat_even`, `j + cpr_lat`, `lat` (local, even) returns
  exactly the rational model's values (`fJ_eq`, `fModulo_eq`, `fLatE_eq`, `fM_eq`, …);
* error bounds for what is not exact (`360/59`, `lat_odd`, `360/ni`, the longitude, the local formulas
  with the reference) and stability of the branch decisions away from the boundaries.
-/
namespace Rs1090.Proofs.CprFloat
open Rs1090 Rs1090.Model.Cpr Rs1090.Proofs.Cpr

/-! ### binary64 values and the rounding hypothesis -/

/-- `q` is (exactly) a finite binary64 value -/
def F64Exact (q : ℚ) : Prop :=
  ∃ m e : ℤ, q = (m : ℚ) * (2 : ℚ) ^ e ∧ |m| < 2 ^ 53 ∧ -1074 ≤ e ∧ e ≤ 971

/-- unit roundoff `2⁻⁵³` -/
def u : ℚ := 1 / 2 ^ 53
/-- half the spacing of the subnormal numbers, `2⁻¹⁰⁷⁵` -/
def eta : ℚ := 1 / 2 ^ 1075

/-- **The rounding hypothesis** (standard model; the real instance is IEEE-754 round-to-nearest-even of
    binary64, which is trusted, not modelled). -/
structure Rounding (fl : ℚ → ℚ) : Prop where
  exact : ∀ q, F64Exact q → fl q = q
  err : ∀ q, |q| ≤ 2 ^ 1023 → |fl q - q| ≤ |q| * u + eta
  mono : ∀ a b, a ≤ b → fl a ≤ fl b

/-- the hypothesis is satisfiable -/
theorem rounding_id : Rounding id :=
  ⟨fun _ _ => rfl, fun q _ => by
      simp only [id, sub_self, abs_zero]
      have : (0 : ℚ) ≤ |q| := abs_nonneg q
      unfold u eta; positivity,
   fun _ _ h => h⟩

theorem f64exact_int (n : ℤ) (h : |n| < 2 ^ 53) : F64Exact (n : ℚ) :=
  ⟨n, 0, by simp, h, by norm_num, by norm_num⟩

/-- integers over `2^k` -/
theorem f64exact_div_pow (n : ℤ) (k : ℕ) (hk : k ≤ 1074) (h : |n| < 2 ^ 53) :
    F64Exact ((n : ℚ) / 2 ^ k) :=
  ⟨n, -(k : ℤ), by rw [zpow_neg, zpow_natCast, div_eq_mul_inv], h, by omega, by omega⟩

/-- the workhorse: a value that equals `N / 2^17` with `|N| < 2^53` -/
theorem f64exact_17 {q : ℚ} (N : ℤ) (hq : q = (N : ℚ) / 131072) (hN : |N| < 2 ^ 53) : F64Exact q := by
  have := f64exact_div_pow N 17 (by norm_num) hN
  rw [hq]; norm_num at this ⊢; exact this

theorem f64exact_of_int {q : ℚ} (N : ℤ) (hq : q = (N : ℚ)) (hN : |N| < 2 ^ 53) : F64Exact q := by
  rw [hq]; exact f64exact_int N hN

theorem eta_le : eta ≤ 1 / 2 ^ 100 := by
  unfold eta
  apply one_div_le_one_div_of_le (by positivity)
  exact pow_le_pow_right₀ (by norm_num) (by norm_num)

theorem u_pos : 0 < u := by unfold u; positivity
theorem eta_pos : 0 < eta := by unfold eta; positivity

variable {fl : ℚ → ℚ}

/-- absolute form of the error hypothesis -/
theorem Rounding.abs_err (R : Rounding fl) {q B : ℚ} (hq : |q| ≤ B) (hB : B ≤ 1024) :
    |fl q - q| ≤ B * u + 1 / 2 ^ 100 := by
  have h0 : (1024 : ℚ) ≤ 2 ^ 1023 := by
    calc (1024 : ℚ) = 2 ^ 10 := by norm_num
      _ ≤ 2 ^ 1023 := pow_le_pow_right₀ (by norm_num) (by norm_num)
  have h1 : |q| ≤ 2 ^ 1023 := le_trans hq (le_trans hB h0)
  have := R.err q h1
  have h2 : |q| * u ≤ B * u := mul_le_mul_of_nonneg_right hq (le_of_lt u_pos)
  linarith [eta_le]

/-- **Stability of `floor` under rounding.**  If the exact value `x` stays `d` below the next integer and
    the rounding error at `x` is below `d`, `floor (fl x) = floor x` (the lower side needs only monotonicity
    and exactness of integers). -/
theorem Rounding.floor_eq (R : Rounding fl) {x B d : ℚ} (hx : |x| ≤ B) (hB : B ≤ 1024)
    (hd : B * u + 1 / 2 ^ 100 < d) (hgap : x + d ≤ (⌊x⌋ : ℚ) + 1) : ⌊fl x⌋ = ⌊x⌋ := by
  have hn : |⌊x⌋| < 2 ^ 53 := by
    have h1 : (⌊x⌋ : ℚ) ≤ x := Int.floor_le x
    have h2 : x < (⌊x⌋ : ℚ) + 1 := Int.lt_floor_add_one x
    have h3 := abs_le.mp hx
    rw [abs_lt]
    constructor
    · have : (-1026 : ℚ) < (⌊x⌋ : ℚ) := by linarith
      have : (-1026 : ℤ) < ⌊x⌋ := by exact_mod_cast this
      omega
    · have : (⌊x⌋ : ℚ) < 1025 := by linarith
      have : ⌊x⌋ < (1025 : ℤ) := by exact_mod_cast this
      omega
  rw [Int.floor_eq_iff]
  constructor
  · have := R.mono _ _ (Int.floor_le x)
    rwa [R.exact _ (f64exact_int _ hn)] at this
  · have := abs_le.mp (R.abs_err hx hB)
    linarith

/-- product with an inexact factor: `|fl (D'·s) − D·s| ≤ εD·S + P·u + 2⁻¹⁰⁰` -/
theorem Rounding.mul_err (R : Rounding fl) {D' D s εD S P : ℚ} (hD : |D' - D| ≤ εD) (hs : |s| ≤ S)
    (hP : |D'| * S ≤ P) (hP' : P ≤ 1024) :
    |fl (D' * s) - D * s| ≤ εD * S + P * u + 1 / 2 ^ 100 := by
  have h1 : |D' * s| ≤ P := by
    rw [abs_mul]; exact le_trans (mul_le_mul_of_nonneg_left hs (abs_nonneg _)) hP
  have h2 := R.abs_err h1 hP'
  have h3 : |D' * s - D * s| ≤ εD * S := by
    rw [← sub_mul, abs_mul]
    exact mul_le_mul hD hs (abs_nonneg _) (le_trans (abs_nonneg _) hD)
  have e : fl (D' * s) - D * s = (fl (D' * s) - D' * s) + (D' * s - D * s) := by ring
  rw [e]
  exact le_trans (abs_add_le _ _) (by linarith)

/-- `floor` of a perturbed value: same integer unless the exact value is within `δ` of an integer -/
theorem floor_eq_of_close {x' x δ : ℚ} (h : |x' - x| ≤ δ) (lo : (⌊x⌋ : ℚ) + δ ≤ x)
    (hi : x + δ < (⌊x⌋ : ℚ) + 1) : ⌊x'⌋ = ⌊x⌋ := by
  have := abs_le.mp h
  rw [Int.floor_eq_iff]
  constructor <;> linarith

theorem cprMax_eq : cprMax = 131072 := by unfold cprMax Gen.Cpr.CPR_MAX; norm_num

/-! ### `airborne_position` (cpr.rs l.225-307), `fl` after every operation -/

section Defs
variable (fl : ℚ → ℚ)

/-- l.253-256 `f64::from(x.lat_cpr) / CPR_MAX` (the conversion `u32 → f64` is exact) -/
def fCpr (n : ℕ) : ℚ := fl ((n : ℚ) / 131072)
/-- l.258 `libm::floor(59.0 * cpr_lat_even - 60.0 * cpr_lat_odd + 0.5)` -/
def fJ (e o : Msg) : ℤ := ⌊fl (fl (fl (59 * fCpr fl e.lat) - fl (60 * fCpr fl o.lat)) + 1 / 2)⌋
/-- l.218-220 `a - b * libm::floor(a / b)` -/
def fModulo (a b : ℚ) : ℚ := fl (a - fl (b * ((⌊fl (a / b)⌋ : ℤ) : ℚ)))
/-- l.214 `D_LAT_EVEN = 360.0 / (4.0 * NZ)` -/
def fDLatEven : ℚ := fl (360 / fl (4 * 15))
/-- l.215 `D_LAT_ODD = 360.0 / (4.0 * NZ - 1.0)` -/
def fDLatOdd : ℚ := fl (360 / fl (fl (4 * 15) - 1))
/-- l.263-269 `if x >= 270.0 { x -= 360.0 }` -/
def fWrap270 (x : ℚ) : ℚ := if x ≥ 270 then fl (x - 360) else x
/-- l.299-301 `if lon >= 180.0 { lon -= 360.0 }` -/
def fWrap180 (x : ℚ) : ℚ := if x ≥ 180 then fl (x - 360) else x
/-- l.260 `D_LAT_EVEN * (modulo(j, 60.) + cpr_lat_even)` -/
def fLatE0 (e o : Msg) : ℚ := fl (fDLatEven fl * fl (fModulo fl (fJ fl e o) 60 + fCpr fl e.lat))
/-- l.261 `D_LAT_ODD * (modulo(j, 59.) + cpr_lat_odd)` -/
def fLatO0 (e o : Msg) : ℚ := fl (fDLatOdd fl * fl (fModulo fl (fJ fl e o) 59 + fCpr fl o.lat))
def fLatE (e o : Msg) : ℚ := fWrap270 fl (fLatE0 fl e o)
def fLatO (e o : Msg) : ℚ := fWrap270 fl (fLatO0 fl e o)
/-- l.291-294 `floor(cpr_lon_even * (nl(lat) - 1) as f64 - cpr_lon_odd * nl(lat) as f64 + 0.5)`, `n = nl(lat)` -/
def fM (e o : Msg) (n : ℕ) : ℤ :=
  ⌊fl (fl (fl (fCpr fl e.lon * fl ((n - 1 : ℕ) : ℚ)) - fl (fCpr fl o.lon * fl (n : ℚ))) + 1 / 2)⌋
/-- l.290, 296, 298 `ni = max(nl(lat) - p, 1) as f64; r = modulo(m, ni); (360.0 / ni) * (r + c)`;
    `k` is the `lon_cpr` field of the latest report (`c = k / 2^17`) -/
def fLon0 (e o : Msg) (n p k : ℕ) : ℚ :=
  fl (fl (360 / fl ((max (n - p) 1 : ℕ) : ℚ)) *
    fl (fModulo fl (fM fl e o n) (fl ((max (n - p) 1 : ℕ) : ℚ)) + fCpr fl k))
end Defs

/-- the rational model's `m` with `n = nl(lat)` (`Proofs.Cpr.gM e o lat = gMn e o (nl lat)`, by `rfl`) -/
def gMn (e o : Msg) (n : ℕ) : ℤ :=
  ⌊(e.lon : ℚ) / cprMax * ((n - 1 : ℕ) : ℚ) - (o.lon : ℚ) / cprMax * (n : ℚ) + 1 / 2⌋

theorem gM_eq_gMn (e o : Msg) (lat : ℚ) : gM e o lat = gMn e o (nl lat) := rfl

/-- the rational model's longitude before the `>= 180` wrap -/
def gLon0 (e o : Msg) (n p k : ℕ) : ℚ :=
  360 / ((max (n - p) 1 : ℕ) : ℚ) *
    (modulo (gMn e o n : ℚ) ((max (n - p) 1 : ℕ) : ℚ) + (k : ℚ) / cprMax)

theorem gLon_eq_gLon0 (e o : Msg) (lat : ℚ) (p k : ℕ) :
    gLon e o lat p ((k : ℚ) / cprMax) = wrap180 (gLon0 e o (nl lat) p k) := rfl

/-- l.253-256: `cpr / 131072` is a binary64 value -/
theorem cpr_f64exact (n : ℕ) (hn : n < 131072) : F64Exact ((n : ℚ) / 131072) :=
  f64exact_17 (n : ℤ) (by push_cast; rfl) (by rw [abs_lt]; constructor <;> omega)

theorem fCpr_eq (R : Rounding fl) (n : ℕ) (hn : n < 131072) : fCpr fl n = (n : ℚ) / 131072 :=
  R.exact _ (cpr_f64exact n hn)

/-- l.258: `59·a`, `60·b`, their difference, `+ 0.5` and the floor are binary64 values, and `-60 ≤ j ≤ 59` -/
theorem j_f64exact (a b : ℕ) (ha : a < 131072) (hb : b < 131072) :
    F64Exact (59 * ((a : ℚ) / 131072)) ∧ F64Exact (60 * ((b : ℚ) / 131072)) ∧
    F64Exact (59 * ((a : ℚ) / 131072) - 60 * ((b : ℚ) / 131072)) ∧
    F64Exact (59 * ((a : ℚ) / 131072) - 60 * ((b : ℚ) / 131072) + 1 / 2) ∧
    (-60 ≤ ⌊59 * ((a : ℚ) / 131072) - 60 * ((b : ℚ) / 131072) + 1 / 2⌋ ∧
      ⌊59 * ((a : ℚ) / 131072) - 60 * ((b : ℚ) / 131072) + 1 / 2⌋ ≤ 59) ∧
    F64Exact ((⌊59 * ((a : ℚ) / 131072) - 60 * ((b : ℚ) / 131072) + 1 / 2⌋ : ℤ) : ℚ) := by
  have hr : -60 ≤ ⌊59 * ((a : ℚ) / 131072) - 60 * ((b : ℚ) / 131072) + 1 / 2⌋ ∧
      ⌊59 * ((a : ℚ) / 131072) - 60 * ((b : ℚ) / 131072) + 1 / 2⌋ ≤ 59 := by
    have ha' : (a : ℚ) ≤ 131071 := by exact_mod_cast Nat.le_of_lt_succ ha
    have hb' : (b : ℚ) ≤ 131071 := by exact_mod_cast Nat.le_of_lt_succ hb
    have ha0 : (0 : ℚ) ≤ a := Nat.cast_nonneg a
    have hb0 : (0 : ℚ) ≤ b := Nat.cast_nonneg b
    constructor
    · rw [Int.le_floor]; push_cast; linarith
    · have : ⌊59 * ((a : ℚ) / 131072) - 60 * ((b : ℚ) / 131072) + 1 / 2⌋ < 60 := by
        rw [Int.floor_lt]; push_cast; linarith
      omega
  refine ⟨f64exact_17 (59 * (a : ℤ)) (by push_cast; ring) (by rw [abs_lt]; constructor <;> omega),
    f64exact_17 (60 * (b : ℤ)) (by push_cast; ring) (by rw [abs_lt]; constructor <;> omega),
    f64exact_17 (59 * (a : ℤ) - 60 * (b : ℤ)) (by push_cast; ring) (by rw [abs_lt]; constructor <;> omega),
    f64exact_17 (59 * (a : ℤ) - 60 * (b : ℤ) + 65536) (by push_cast; ring)
      (by rw [abs_lt]; constructor <;> omega),
    hr, f64exact_int _ (by rw [abs_lt]; constructor <;> omega)⟩

/-- **`j` is computed exactly** -/
theorem fJ_eq (R : Rounding fl) (e o : Msg) (he : e.lat < 131072) (ho : o.lat < 131072) :
    fJ fl e o = gJ e o := by
  obtain ⟨h1, h2, h3, h4, _, _⟩ := j_f64exact e.lat o.lat he ho
  unfold fJ gJ
  rw [fCpr_eq R _ he, fCpr_eq R _ ho, R.exact _ h1, R.exact _ h2, R.exact _ h3, R.exact _ h4, cprMax_eq]

theorem gJ_range (e o : Msg) (he : e.lat < 131072) (ho : o.lat < 131072) : -60 ≤ gJ e o ∧ gJ e o ≤ 59 := by
  unfold gJ; rw [cprMax_eq]; exact (j_f64exact e.lat o.lat he ho).2.2.2.2.1

/-- l.218-220 on an integer `j`, `|j| ≤ 60`, and an integer `1 ≤ n ≤ 60`: the quotient `j / n` is NOT a binary64
    value in general, but the floor of its rounding is the exact floor (here the rounding hypothesis is used);
    `n·⌊j/n⌋` and `j − n·⌊j/n⌋` are binary64 values; the result is `j mod n`. -/
theorem modulo_f64exact (R : Rounding fl) (j : ℤ) (n : ℕ) (hj : |j| ≤ 60) (hn1 : 1 ≤ n) (hn : n ≤ 60) :
    ⌊fl ((j : ℚ) / (n : ℚ))⌋ = j / (n : ℤ) ∧
    F64Exact ((n : ℚ) * ((j / (n : ℤ) : ℤ) : ℚ)) ∧
    F64Exact ((j : ℚ) - (n : ℚ) * ((j / (n : ℤ) : ℤ) : ℚ)) ∧
    fModulo fl (j : ℚ) (n : ℚ) = ((j % (n : ℤ) : ℤ) : ℚ) := by
  have hnZ : (0 : ℤ) < (n : ℤ) := by exact_mod_cast hn1
  have hnQ : (0 : ℚ) < (n : ℚ) := by exact_mod_cast hn1
  have hn1Q : (1 : ℚ) ≤ (n : ℚ) := by exact_mod_cast hn1
  have hn60 : (n : ℚ) ≤ 60 := by exact_mod_cast hn
  have hn60Z : (n : ℤ) ≤ 60 := by exact_mod_cast hn
  have hdm := Int.emod_add_mul_ediv j (n : ℤ)
  have hr0 := Int.emod_nonneg j (ne_of_gt hnZ)
  have hr1 := Int.emod_lt_of_pos j hnZ
  have hjj := abs_le.mp hj
  set q := j / (n : ℤ) with hq
  set r := j % (n : ℤ) with hr
  have hfl : ⌊(j : ℚ) / (n : ℚ)⌋ = q := floor_int_div j n
  have hjQ : (j : ℚ) = r + n * q := by exact_mod_cast hdm.symm
  have hx : (j : ℚ) / (n : ℚ) = q + (r : ℚ) / n := by
    rw [hjQ]; field_simp; ring
  have hrQ : (r : ℚ) ≤ (n : ℚ) - 1 := by
    have : r ≤ (n : ℤ) - 1 := by omega
    exact_mod_cast this
  have hrn : (r : ℚ) / n ≤ 1 - 1 / 60 := by
    rw [div_le_iff₀ hnQ]
    nlinarith
  have habs : |(j : ℚ) / (n : ℚ)| ≤ 60 := by
    rw [abs_div, abs_of_pos hnQ, div_le_iff₀ hnQ]
    have : |(j : ℚ)| ≤ 60 := by exact_mod_cast hj
    nlinarith [abs_nonneg (j : ℚ)]
  have h1 : ⌊fl ((j : ℚ) / (n : ℚ))⌋ = q := by
    have := R.floor_eq (x := (j : ℚ) / (n : ℚ)) (B := 60) (d := 1 / 60) habs (by norm_num)
      (by unfold u; norm_num) (by rw [hfl, hx]; linarith)
    rw [this, hfl]
  have hnq : -121 < (n : ℤ) * q ∧ (n : ℤ) * q < 121 := by constructor <;> linarith
  have e2 : (n : ℚ) * (q : ℚ) = (((n : ℤ) * q : ℤ) : ℚ) := by push_cast; ring
  have e3 : (j : ℚ) - (n : ℚ) * (q : ℚ) = ((r : ℤ) : ℚ) := by rw [hjQ]; ring
  have x2 : F64Exact ((n : ℚ) * (q : ℚ)) :=
    f64exact_of_int _ e2 (by rw [abs_lt]; constructor <;> omega)
  have x3 : F64Exact ((j : ℚ) - (n : ℚ) * (q : ℚ)) :=
    f64exact_of_int _ e3 (by rw [abs_lt]; constructor <;> omega)
  refine ⟨h1, x2, x3, ?_⟩
  unfold fModulo
  rw [h1, R.exact _ x2, R.exact _ x3, e3]

theorem fModulo_eq (R : Rounding fl) (j : ℤ) (n : ℕ) (hj : |j| ≤ 60) (hn1 : 1 ≤ n) (hn : n ≤ 60) :
    fModulo fl (j : ℚ) (n : ℚ) = modulo (j : ℚ) (n : ℚ) := by
  rw [(modulo_f64exact R j n hj hn1 hn).2.2.2, modulo_int]

/-- l.214: `4.0 * NZ = 60` and `D_LAT_EVEN = 360/60 = 6` (also `90/60 = 3/2`, the surface zone) are binary64 values -/
theorem dlat_even_f64exact :
    F64Exact (4 * 15 : ℚ) ∧ F64Exact (360 / 60 : ℚ) ∧ F64Exact (90 / 60 : ℚ) ∧ F64Exact (60 - 1 : ℚ) := by
  refine ⟨f64exact_of_int 60 (by norm_num) (by norm_num), f64exact_of_int 6 (by norm_num) (by norm_num),
    f64exact_17 196608 (by norm_num) (by norm_num), f64exact_of_int 59 (by norm_num) (by norm_num)⟩

theorem fDLatEven_eq (R : Rounding fl) : fDLatEven fl = 6 := by
  unfold fDLatEven
  rw [R.exact _ dlat_even_f64exact.1]
  have : (360 / (4 * 15) : ℚ) = 360 / 60 := by norm_num
  rw [this, R.exact _ dlat_even_f64exact.2.1]; norm_num

/-- l.260, 263-265: `(j mod 60) + cpr_lat_even`, its product with 6 and the `− 360` of the wrap are binary64 values -/
theorem lat_even_f64exact (r : ℤ) (a : ℕ) (hr : 0 ≤ r ∧ r < 60) (ha : a < 131072) :
    F64Exact ((r : ℚ) + (a : ℚ) / 131072) ∧ F64Exact (6 * ((r : ℚ) + (a : ℚ) / 131072)) ∧
    F64Exact (6 * ((r : ℚ) + (a : ℚ) / 131072) - 360) := by
  refine ⟨f64exact_17 (131072 * r + a) (by push_cast; ring) (by rw [abs_lt]; constructor <;> omega),
    f64exact_17 (6 * (131072 * r + a)) (by push_cast; ring) (by rw [abs_lt]; constructor <;> omega),
    f64exact_17 (6 * (131072 * r + a) - 47185920) (by push_cast; ring)
      (by rw [abs_lt]; constructor <;> omega)⟩

theorem emod_range (j : ℤ) (n : ℤ) (hn : 0 < n) : 0 ≤ j % n ∧ j % n < n :=
  ⟨Int.emod_nonneg j (ne_of_gt hn), Int.emod_lt_of_pos j hn⟩

/-- **`lat_even` is computed exactly**, wrap included -/
theorem fLatE_eq (R : Rounding fl) (e o : Msg) (he : e.lat < 131072) (ho : o.lat < 131072) :
    fLatE fl e o = gLatE e o := by
  have hj := gJ_range e o he ho
  have hr := emod_range (gJ e o) 60 (by norm_num)
  obtain ⟨x1, x2, x3⟩ := lat_even_f64exact (gJ e o % 60) e.lat hr he
  unfold fLatE fLatE0 gLatE
  rw [fJ_eq R e o he ho, fDLatEven_eq R, fCpr_eq R _ he, dLatEven_eq, cprMax_eq]
  have h60 := fModulo_eq R (gJ e o) 60 (by rw [abs_le]; constructor <;> omega) (by norm_num) (by norm_num)
  norm_num at h60
  rw [h60, modulo_60, R.exact _ x1, R.exact _ x2]
  unfold fWrap270 wrap270
  split
  · rw [R.exact _ x3]
  · rfl

end Rs1090.Proofs.CprFloat
