/-
Helper definitions and lemmas for the live-table theorems of C12 (Props/C12.lean, section
"All writers"): the table under `update_snapshot`, `store_history` and the expiry task
(`Model/SnapshotWriters.lean`).  Core Lean only.
-/
import Rs1090.Model.SnapshotWriters
import Rs1090.Proofs.Snapshot
set_option linter.unusedSimpArgs false
namespace Rs1090.Proofs.SnapshotWriters
open Rs1090 Rs1090.Model.Snapshot Rs1090.Model.SnapshotWriters Rs1090.Spec.Snapshot Rs1090.Proofs.Snapshot

/-! ### vocabulary of the statements -/

/-- the address a step is about (an expiry pass is about nobody in particular) -/
def stepAddr : Step → Option Addr
  | .record r => r.addr
  | .history r => r.addr
  | .expire _ => none

/-- the time stamp (`timestamp as u64`) of the record of a step -/
def stepTs : Step → Nat
  | .record r => r.ts
  | .history r => r.ts
  | .expire _ => 0

def isRecord : Step → Bool
  | .record _ => true
  | _ => false

def isExpire : Step → Bool
  | .expire _ => true
  | _ => false

/-- `k`'s own steps: the `update_snapshot` / `store_history` calls on records showing address `k` -/
def ownSteps (k : Addr) (s : List Step) : List Step := s.filter fun x => stepAddr x = some k

/-- the records `update_snapshot` was called on -/
def recordsOf (s : List Step) : List Record :=
  s.filterMap fun x => match x with
    | .record r => some r
    | _ => none

/-- the effect of one of `k`'s own steps on `k`'s entry -/
def stepOwn (k : Addr) (oe : Option Entry) : Step → Option Entry
  | .record r => some (touch r (oe.getD (Entry.new r.ts k)))
  | .history r => some (oe.getD (Entry.new r.ts k))
  | .expire _ => oe

/-- "the pass at `now` removes `k`'s entry from table `t`": there is one before and none after -/
def removesK (minutes : Nat) (k : Addr) (t : Table) (now : Nat) : Bool :=
  (entryOf k t).isSome && (entryOf k (expireStep now minutes t)).isNone

/-- fold state of `sinceRemoval`: the table so far, and the steps since `k`'s entry was last removed -/
def sinceStep (minutes : Nat) (k : Addr) (st : Table × List Step) (x : Step) : Table × List Step :=
  match x with
  | .expire now =>
    if removesK minutes k st.1 now then (stepLive minutes st.1 x, [])
    else (stepLive minutes st.1 x, st.2 ++ [x])
  | _ => (stepLive minutes st.1 x, st.2 ++ [x])

/-- the steps after the last expiry pass that removed `k`'s entry (all steps when none did) -/
def sinceRemoval (minutes : Nat) (k : Addr) (s : List Step) : List Step :=
  (s.foldl (sinceStep minutes k) ([], [])).2

/-- no evaluation of the removal test overflows: every time stamp plus the expiry delay fits `u64` -/
def NoOverflow (minutes : Nat) (s : List Step) : Prop :=
  ∀ x ∈ s, isExpire x = false → stepTs x + minutes * 60 < 2 ^ 64

/-- `k`'s entry as a machine of its own: its own steps, and the removal test on its own `lastseen` -/
def stepEntry (minutes : Nat) (k : Addr) (oe : Option Entry) (x : Step) : Option Entry :=
  match x with
  | .expire now => oe.bind fun e => if now > e.lastseen + minutes * 60 then none else some e
  | _ => if stepAddr x = some k then stepOwn k oe x else oe

/-- what `k`'s entry can depend on: `k`'s own steps and the expiry passes -/
def relevant (k : Addr) (s : List Step) : List Step :=
  s.filter fun x => decide (stepAddr x = some k) || isExpire x

/-! ### the expiry pass is a filter (when it does not panic) -/

/-- the entry survives a (non-panicking) pass -/
def keeps (now minutes : Nat) (e : Entry) : Bool :=
  match expired now minutes e with
  | .ok true => false
  | _ => true

theorem expire_ok_filter (now m : Nat) : ∀ (t t' : Table), expire now m t = .ok t' →
    t' = t.filter (keeps now m) := by
  intro t
  induction t with
  | nil => intro t' h; simp only [expire, Outcome.ok.injEq] at h; simp [← h]
  | cons e t ih =>
    intro t' h
    unfold expire at h
    cases he : expired now m e with
    | err x => rw [he, Outcome.bind_err] at h; cases h
    | panic x => rw [he, Outcome.bind_panic] at h; cases h
    | ok b =>
      rw [he, Outcome.bind_ok] at h
      cases ht : expire now m t with
      | err x => rw [ht, Outcome.bind_err] at h; cases h
      | panic x => rw [ht, Outcome.bind_panic] at h; cases h
      | ok t'' =>
        rw [ht, Outcome.bind_ok] at h
        have := ih t'' ht
        cases b <;> simp only [Outcome.ok.injEq, Bool.false_eq_true, if_false, if_true] at h <;>
          simp [List.filter, keeps, he, ← h, this]

/-- a pass either panics and leaves the table alone, or filters it -/
theorem expireStep_cases (now m : Nat) (t : Table) :
    expireStep now m t = t ∨ expireStep now m t = t.filter (keeps now m) := by
  unfold expireStep
  cases h : expire now m t with
  | ok t' => right; exact expire_ok_filter now m t t' h
  | err x => left; rfl
  | panic x => left; rfl

theorem keys_filter_sublist (p : Entry → Bool) (t : Table) : (keys (t.filter p)).Sublist (keys t) := by
  unfold keys
  exact (List.filter_sublist).map _

theorem entryOf_filter (k : Addr) (p : Entry → Bool) : ∀ t : Table, (keys t).Nodup →
    entryOf k (t.filter p) = (entryOf k t).filter p := by
  intro t
  induction t with
  | nil => intro _; rfl
  | cons e t ih =>
    intro hn
    have hn' : (keys t).Nodup := (List.nodup_cons.mp hn).2
    have hk : e.icao24 ∉ keys t := (List.nodup_cons.mp hn).1
    by_cases he : e.icao24 = k
    · by_cases hp : p e = true
      · simp [List.filter, hp, entryOf, he, Option.filter]
      · have hnone : entryOf k (t.filter p) = none := by
          cases h : entryOf k (t.filter p) with
          | none => rfl
          | some e' =>
            have h1 : k ∈ keys (t.filter p) := (mem_keys_iff_get k _).mpr (by rw [h]; rfl)
            exact absurd ((keys_filter_sublist p t).subset h1) (he ▸ hk)
        simp [List.filter, hp, entryOf, he, Option.filter, hnone]
    · by_cases hp : p e = true
      · simp [List.filter, hp, entryOf, he, ih hn']
      · simp [List.filter, hp, entryOf, he, ih hn']

/-! ### one step: keys stay duplicate-free; effect on the entry of `k` -/

theorem keys_upsert_nodup (k : Addr) (ts : Nat) (f : Entry → Entry) (hf : ∀ e, (f e).icao24 = e.icao24)
    (t : Table) (ht : (keys t).Nodup) : (keys (upsert k ts f t)).Nodup := by
  rw [keys_upsert k ts f hf t]
  split
  · exact ht
  · rename_i hk
    rw [List.nodup_append]
    refine ⟨ht, by simp, ?_⟩
    intro a hmem b hb
    simp at hb; subst hb
    intro hab; subst hab; exact hk hmem

theorem keys_stepLive_nodup (m : Nat) (t : Table) (x : Step) (ht : (keys t).Nodup) :
    (keys (stepLive m t x)).Nodup := by
  cases x with
  | record r =>
    simp only [stepLive, update]
    cases r.addr with
    | none => exact ht
    | some k => exact keys_upsert_nodup k r.ts (touch r) (touch_icao24 r) t ht
  | history r =>
    simp only [stepLive, storeHistory]
    cases r.addr with
    | none => exact ht
    | some k => exact keys_upsert_nodup k r.ts id (fun _ => rfl) t ht
  | expire now =>
    simp only [stepLive]
    rcases expireStep_cases now m t with h | h <;> rw [h]
    · exact ht
    · exact ht.sublist (keys_filter_sublist _ t)

theorem keys_foldl_nodup (m : Nat) (s : List Step) : ∀ t : Table, (keys t).Nodup →
    (keys (s.foldl (stepLive m) t)).Nodup := by
  induction s with
  | nil => intro t ht; exact ht
  | cons x s ih => intro t ht; exact ih _ (keys_stepLive_nodup m t x ht)

/-- a `record` / `history` step of `k` acts on `k`'s entry as `stepOwn`; a step of anybody else not at all -/
theorem get_stepLive_own (m : Nat) (t : Table) (x : Step) (k : Addr) (hx : stepAddr x = some k) :
    entryOf k (stepLive m t x) = stepOwn k (entryOf k t) x := by
  cases x with
  | record r => exact get_update_same t r k hx
  | history r =>
    simp only [stepAddr] at hx
    simp only [stepLive, storeHistory, hx, stepOwn]
    rw [get_upsert_same k r.ts id (fun _ => rfl) t]; rfl
  | expire now => cases hx

theorem get_stepLive_other (m : Nat) (t : Table) (x : Step) (k : Addr) (hx : stepAddr x ≠ some k)
    (he : isExpire x = false) : entryOf k (stepLive m t x) = entryOf k t := by
  cases x with
  | record r => exact get_update_other t r k hx
  | history r =>
    simp only [stepAddr] at hx
    simp only [stepLive, storeHistory]
    cases ha : r.addr with
    | none => rfl
    | some k' =>
      have : k ≠ k' := by intro hk; apply hx; rw [ha, hk]
      exact get_upsert_other k' k this r.ts id (fun _ => rfl) t
  | expire now => cases he

/-- an expiry pass on the entry of `k`: kept as it is, or gone -/
theorem get_expireStep (now m : Nat) (t : Table) (k : Addr) (ht : (keys t).Nodup) :
    entryOf k (expireStep now m t) = entryOf k t ∨ entryOf k (expireStep now m t) = none := by
  rcases expireStep_cases now m t with h | h <;> rw [h]
  · left; rfl
  · rw [entryOf_filter k _ t ht]
    cases entryOf k t with
    | none => left; rfl
    | some e => by_cases hp : keeps now m e = true <;> simp [Option.filter, hp]

/-! ### (a) the entry of `k` is the fold of `k`'s own steps since its last removal -/

theorem ownSteps_append (k : Addr) (a b : List Step) : ownSteps k (a ++ b) = ownSteps k a ++ ownSteps k b := by
  simp [ownSteps]

theorem ownSteps_single_own (k : Addr) (x : Step) (hx : stepAddr x = some k) : ownSteps k [x] = [x] := by
  simp [ownSteps, hx]

theorem ownSteps_single_other (k : Addr) (x : Step) (hx : stepAddr x ≠ some k) : ownSteps k [x] = [] := by
  simp [ownSteps, hx]

/-- one step of the `sinceRemoval` fold keeps "entry of `k` = fold of `k`'s own steps since" -/
theorem sinceStep_inv (m : Nat) (k : Addr) (t : Table) (acc : List Step) (x : Step) (ht : (keys t).Nodup)
    (hinv : entryOf k t = (ownSteps k acc).foldl (stepOwn k) none) :
    (sinceStep m k (t, acc) x).1 = stepLive m t x ∧
    entryOf k (stepLive m t x) = (ownSteps k (sinceStep m k (t, acc) x).2).foldl (stepOwn k) none := by
  by_cases hx : stepAddr x = some k
  · have hs : sinceStep m k (t, acc) x = (stepLive m t x, acc ++ [x]) := by
      cases x with
      | expire now => cases hx
      | record r => rfl
      | history r => rfl
    rw [hs]
    refine ⟨rfl, ?_⟩
    simp only []
    rw [ownSteps_append, ownSteps_single_own k x hx, List.foldl_append, ← hinv]
    exact get_stepLive_own m t x k hx
  · cases x with
    | record r =>
      refine ⟨rfl, ?_⟩
      show _ = (ownSteps k (acc ++ [Step.record r])).foldl (stepOwn k) none
      rw [ownSteps_append, ownSteps_single_other k _ hx, List.append_nil, ← hinv]
      exact get_stepLive_other m t _ k hx rfl
    | history r =>
      refine ⟨rfl, ?_⟩
      show _ = (ownSteps k (acc ++ [Step.history r])).foldl (stepOwn k) none
      rw [ownSteps_append, ownSteps_single_other k _ hx, List.append_nil, ← hinv]
      exact get_stepLive_other m t _ k hx rfl
    | expire now =>
      simp only [sinceStep]
      by_cases hr : removesK m k t now = true
      · rw [if_pos hr]
        refine ⟨rfl, ?_⟩
        simp only [removesK, Bool.and_eq_true, Option.isNone_iff_eq_none] at hr
        simp only [stepLive, hr.2, ownSteps, List.filter_nil, List.foldl_nil]
      · rw [if_neg hr]
        refine ⟨rfl, ?_⟩
        simp only []
        rw [ownSteps_append, ownSteps_single_other k _ hx, List.append_nil, ← hinv]
        simp only [stepLive]
        rcases get_expireStep now m t k ht with h | h
        · exact h
        · rw [h]
          simp only [removesK, h, Option.isNone_none, Bool.and_true, Bool.not_eq_true,
            Option.isSome_eq_false_iff, Option.isNone_iff_eq_none] at hr
          exact hr.symm

theorem since_fold (m : Nat) (k : Addr) (s : List Step) : ∀ (t : Table) (acc : List Step), (keys t).Nodup →
    entryOf k t = (ownSteps k acc).foldl (stepOwn k) none →
    (s.foldl (sinceStep m k) (t, acc)).1 = s.foldl (stepLive m) t ∧
    entryOf k (s.foldl (stepLive m) t) =
      (ownSteps k (s.foldl (sinceStep m k) (t, acc)).2).foldl (stepOwn k) none := by
  induction s with
  | nil => intro t acc _ hinv; exact ⟨rfl, hinv⟩
  | cons x s ih =>
    intro t acc ht hinv
    obtain ⟨h1, h2⟩ := sinceStep_inv m k t acc x ht hinv
    rw [List.foldl_cons, List.foldl_cons]
    have hst : sinceStep m k (t, acc) x = (stepLive m t x, (sinceStep m k (t, acc) x).2) := by
      rw [← h1]
    rw [hst]
    exact ih _ _ (keys_stepLive_nodup m t x ht) h2

theorem entry_since (m : Nat) (k : Addr) (s : List Step) :
    entryOf k (runLive m s) = (ownSteps k (sinceRemoval m k s)).foldl (stepOwn k) none :=
  (since_fold m k s [] [] (by simp [keys]) rfl).2

theorem since_fst (m : Nat) (k : Addr) (s : List Step) :
    (s.foldl (sinceStep m k) ([], [])).1 = runLive m s :=
  (since_fold m k s [] [] (by simp [keys]) rfl).1

/-! ### folds over one aircraft's own steps -/

theorem mem_ownSteps {k : Addr} {s : List Step} {x : Step} : x ∈ ownSteps k s ↔ x ∈ s ∧ stepAddr x = some k := by
  simp [ownSteps]

theorem mem_recordsOf {s : List Step} {r : Record} : r ∈ recordsOf s ↔ Step.record r ∈ s := by
  unfold recordsOf
  rw [List.mem_filterMap]
  constructor
  · rintro ⟨x, hx, h⟩
    cases x <;> simp at h
    subst h; exact hx
  · intro h; exact ⟨_, h, rfl⟩

theorem recordsOf_cons_record (r : Record) (l : List Step) : recordsOf (.record r :: l) = r :: recordsOf l := rfl
theorem recordsOf_cons_history (r : Record) (l : List Step) : recordsOf (.history r :: l) = recordsOf l := rfl
theorem recordsOf_cons_expire (n : Nat) (l : List Step) : recordsOf (.expire n :: l) = recordsOf l := rfl

theorem recordsOf_length (l : List Step) : (recordsOf l).length = (l.filter isRecord).length := by
  induction l with
  | nil => rfl
  | cons x l ih => cases x <;> simp [recordsOf_cons_record, recordsOf_cons_history, recordsOf_cons_expire,
      List.filter, isRecord, ih]

/-- on an existing entry `store_history` changes nothing: the fold is `update_snapshot`'s fold over the records -/
theorem foldOwn_some (k : Addr) (l : List Step) : ∀ e : Entry,
    l.foldl (stepOwn k) (some e) = (recordsOf l).foldl (stepK k) (some e) := by
  induction l with
  | nil => intro e; rfl
  | cons x l ih =>
    intro e
    cases x with
    | record r => rw [List.foldl_cons, recordsOf_cons_record, List.foldl_cons]; exact ih _
    | history r => rw [List.foldl_cons, recordsOf_cons_history]; exact ih e
    | expire n => rw [List.foldl_cons, recordsOf_cons_expire]; exact ih e

/-- … hence when the first own step is an `update_snapshot`, the whole fold is `update_snapshot`'s -/
theorem foldOwn_record_first (k : Addr) (r : Record) (l : List Step) :
    (Step.record r :: l).foldl (stepOwn k) none = (recordsOf (Step.record r :: l)).foldl (stepK k) none := by
  rw [List.foldl_cons, recordsOf_cons_record, List.foldl_cons]
  exact foldOwn_some k l _

theorem foldOwn_count (k : Addr) (l : List Step) : ∀ oe : Option Entry,
    cnt (l.foldl (stepOwn k) oe) = cnt oe + (l.filter isRecord).length := by
  induction l with
  | nil => intro oe; simp
  | cons x l ih =>
    intro oe
    rw [List.foldl_cons, ih]
    cases x with
    | record r =>
      have : cnt (stepOwn k oe (.record r)) = cnt oe + 1 := by
        cases oe <;> simp [cnt, stepOwn, touch_count, Entry.new]
      rw [this]; simp [List.filter, isRecord]; omega
    | history r =>
      have : cnt (stepOwn k oe (.history r)) = cnt oe := by
        cases oe <;> simp [cnt, stepOwn, Entry.new]
      rw [this]; simp [List.filter, isRecord]
    | expire n => simp [stepOwn, List.filter, isRecord]

/-- from an existing entry: `firstseen` stays, `lastseen` is the time stamp of the latest `update_snapshot` -/
theorem foldOwn_seen (k : Addr) (l : List Step) : ∀ e e' : Entry, l.foldl (stepOwn k) (some e) = some e' →
    e'.firstseen = e.firstseen ∧
    e'.lastseen = (((l.filter isRecord).getLast?).map stepTs).getD e.lastseen := by
  induction l with
  | nil => intro e e' h; cases h; exact ⟨rfl, rfl⟩
  | cons x l ih =>
    intro e e' h
    rw [List.foldl_cons] at h
    cases x with
    | record r =>
      obtain ⟨h1, h2⟩ := ih (touch r e) e' h
      refine ⟨by rw [h1, touch_firstseen], ?_⟩
      rw [h2, touch_lastseen]
      have : (Step.record r :: l).filter isRecord = Step.record r :: l.filter isRecord := by
        simp [List.filter, isRecord]
      rw [this, List.getLast?_cons]
      cases (l.filter isRecord).getLast? <;> simp [stepTs]
    | history r =>
      obtain ⟨h1, h2⟩ := ih e e' h
      refine ⟨h1, ?_⟩
      have : (Step.history r :: l).filter isRecord = l.filter isRecord := by simp [List.filter, isRecord]
      rw [this]; exact h2
    | expire n =>
      obtain ⟨h1, h2⟩ := ih e e' h
      refine ⟨h1, ?_⟩
      have : (Step.expire n :: l).filter isRecord = l.filter isRecord := by simp [List.filter, isRecord]
      rw [this]; exact h2

/-- from no entry: `firstseen` is the time stamp of the first own step (`update_snapshot` or
    `store_history`), `lastseen` that of the latest `update_snapshot`, or `firstseen` when there is none -/
theorem foldOwn_seen_none (k : Addr) (l : List Step) (hl : ∀ x ∈ l, isExpire x = false) (e : Entry)
    (h : l.foldl (stepOwn k) none = some e) :
    l.head?.map stepTs = some e.firstseen ∧
    e.lastseen = (((l.filter isRecord).getLast?).map stepTs).getD e.firstseen := by
  cases l with
  | nil => cases h
  | cons x l =>
    rw [List.foldl_cons] at h
    cases x with
    | record r =>
      obtain ⟨h1, h2⟩ := foldOwn_seen k l _ e h
      rw [touch_firstseen] at h1
      refine ⟨by simp [stepTs, h1, Entry.new], ?_⟩
      rw [h2, touch_lastseen]
      have : (Step.record r :: l).filter isRecord = Step.record r :: l.filter isRecord := by
        simp [List.filter, isRecord]
      rw [this, List.getLast?_cons]
      cases (l.filter isRecord).getLast? <;> simp [stepTs]
    | history r =>
      obtain ⟨h1, h2⟩ := foldOwn_seen k l _ e h
      refine ⟨by simp [stepTs, h1, Entry.new], ?_⟩
      have : (Step.history r :: l).filter isRecord = l.filter isRecord := by simp [List.filter, isRecord]
      rw [this, h2, h1]; simp [Entry.new]
    | expire n => exact absurd (hl _ (List.mem_cons_self ..)) (by simp [isExpire])

/-- provenance along a fold of own steps: a held value is carried by a record an `update_snapshot` step
    of the fold was called on (`store_history` and the expiry pass copy nothing) -/
theorem foldOwn_prov (k : Addr) (l : List Step) : ∀ (oe : Option Entry) (seen : List Record),
    (∀ e f v, oe = some e → entryField e f = some v → ∃ r, r ∈ seen ∧ v ∈ carried r f) →
    ∀ e f v, l.foldl (stepOwn k) oe = some e → entryField e f = some v →
      ∃ r, r ∈ seen ++ recordsOf l ∧ v ∈ carried r f := by
  induction l with
  | nil =>
    intro oe seen hs e f v he hv
    obtain ⟨r, hr, hc⟩ := hs e f v he hv
    exact ⟨r, by simpa [recordsOf] using hr, hc⟩
  | cons x l ih =>
    intro oe seen hs e f v he hv
    rw [List.foldl_cons] at he
    cases x with
    | record r =>
      have := ih (stepOwn k oe (.record r)) (seen ++ [r]) ?_ e f v he hv
      · obtain ⟨r', hr', hc⟩ := this
        exact ⟨r', by simpa [recordsOf_cons_record, List.append_assoc] using hr', hc⟩
      · intro e1 f1 v1 he1 hv1
        simp only [stepOwn, Option.some.injEq] at he1
        subst he1
        rcases touch_field r (oe.getD (Entry.new r.ts k)) f1 with hsame | hnone | ⟨v', hv', hnew⟩
        · rw [hsame] at hv1
          cases oe with
          | none => simp [entryField_new] at hv1
          | some e0 =>
            obtain ⟨r', hr', hc⟩ := hs e0 f1 v1 rfl hv1
            exact ⟨r', by simp [hr'], hc⟩
        · rw [hnone] at hv1; cases hv1
        · rw [hnew] at hv1; cases hv1
          exact ⟨r, by simp, hv'⟩
    | history r =>
      rw [recordsOf_cons_history]
      refine ih (stepOwn k oe (.history r)) seen ?_ e f v he hv
      intro e1 f1 v1 he1 hv1
      cases oe with
      | none =>
        simp only [stepOwn, Option.getD_none, Option.some.injEq] at he1
        subst he1; simp [entryField_new] at hv1
      | some e0 =>
        simp only [stepOwn, Option.getD_some, Option.some.injEq] at he1
        subst he1; exact hs _ f1 v1 rfl hv1
    | expire n =>
      rw [recordsOf_cons_expire]
      exact ih oe seen hs e f v he hv

/-! ### what `sinceRemoval` is: the part after the last removing pass -/

/-- `pre` ends with a pass that removed `k`'s entry, or is empty -/
def EndsWithRemoval (m : Nat) (k : Addr) (pre : List Step) : Prop :=
  pre = [] ∨ ∃ p now, pre = p ++ [Step.expire now] ∧ removesK m k (runLive m p) now = true

/-- no pass inside `seg` (run after `pre`) removes `k`'s entry -/
def NoRemovalIn (m : Nat) (k : Addr) (pre seg : List Step) : Prop :=
  ∀ p1 now p2, seg = p1 ++ Step.expire now :: p2 → removesK m k (runLive m (pre ++ p1)) now = false

theorem runLive_append (m : Nat) (a b : List Step) : runLive m (a ++ b) = b.foldl (stepLive m) (runLive m a) := by
  unfold runLive; rw [List.foldl_append]

theorem since_spec_fold (m : Nat) (k : Addr) (s : List Step) : ∀ (acc pre0 : List Step),
    (∃ pre, pre0 = pre ++ acc ∧ EndsWithRemoval m k pre ∧ NoRemovalIn m k pre acc) →
    ∃ pre, pre0 ++ s = pre ++ (s.foldl (sinceStep m k) (runLive m pre0, acc)).2 ∧
      EndsWithRemoval m k pre ∧ NoRemovalIn m k pre (s.foldl (sinceStep m k) (runLive m pre0, acc)).2 := by
  induction s with
  | nil => intro acc pre0 h; simpa using h
  | cons x s ih =>
    intro acc pre0 ⟨pre, hpre, h1, h2⟩
    rw [List.foldl_cons]
    have hfst : ∀ a, sinceStep m k (runLive m pre0, acc) x = (runLive m (pre0 ++ [x]), a) ↔
        (sinceStep m k (runLive m pre0, acc) x).2 = a := by
      intro a
      have : (sinceStep m k (runLive m pre0, acc) x).1 = runLive m (pre0 ++ [x]) := by
        rw [runLive_append]
        cases x with
        | record r => rfl
        | history r => rfl
        | expire now => simp only [sinceStep]; split <;> rfl
      constructor
      · intro h; rw [h]
      · intro h; rw [← h, ← this]
    have hgoal : ∀ a, (sinceStep m k (runLive m pre0, acc) x).2 = a →
        (∃ pre, pre0 ++ [x] = pre ++ a ∧ EndsWithRemoval m k pre ∧ NoRemovalIn m k pre a) →
        ∃ pre, pre0 ++ x :: s = pre ++ (s.foldl (sinceStep m k) (sinceStep m k (runLive m pre0, acc) x)).2 ∧
          EndsWithRemoval m k pre ∧
          NoRemovalIn m k pre (s.foldl (sinceStep m k) (sinceStep m k (runLive m pre0, acc) x)).2 := by
      intro a ha hex
      rw [(hfst a).mpr ha]
      have := ih a (pre0 ++ [x]) hex
      simpa [List.append_assoc] using this
    -- the non-removing case, shared by the three kinds of steps
    have keep : (x = x) → (∀ now, x = Step.expire now → removesK m k (runLive m pre0) now = false) →
        ∃ pre, pre0 ++ [x] = pre ++ (acc ++ [x]) ∧ EndsWithRemoval m k pre ∧ NoRemovalIn m k pre (acc ++ [x]) := by
      intro _ hx
      refine ⟨pre, by rw [hpre, List.append_assoc], h1, ?_⟩
      intro p1 now p2 hsplit
      rcases List.eq_nil_or_concat p2 with hp2 | ⟨q, y, hp2⟩
      · subst hp2
        have := List.append_inj' hsplit rfl
        obtain ⟨ha, hb⟩ := this
        simp only [List.cons.injEq, and_true] at hb
        rw [← ha, ← hpre]
        exact hx now hb
      · rw [List.concat_eq_append] at hp2
        subst hp2
        have : acc ++ [x] = (p1 ++ Step.expire now :: q) ++ [y] := by rw [hsplit]; simp
        obtain ⟨ha, _⟩ := List.append_inj' this rfl
        exact h2 p1 now q ha
    cases x with
    | record r => exact hgoal _ rfl (keep rfl (by intro now h; cases h))
    | history r => exact hgoal _ rfl (keep rfl (by intro now h; cases h))
    | expire now =>
      by_cases hr : removesK m k (runLive m pre0) now = true
      · refine hgoal [] (by simp only [sinceStep, hr, if_true]) ?_
        refine ⟨pre0 ++ [Step.expire now], by simp, Or.inr ⟨pre0, now, rfl, hr⟩, ?_⟩
        intro p1 now' p2 h; cases p1 <;> cases h
      · refine hgoal (acc ++ [Step.expire now]) (by simp only [sinceStep, hr, if_false]; rfl) ?_
        refine keep rfl ?_
        intro now' h; cases h
        simpa using hr

theorem since_spec (m : Nat) (k : Addr) (s : List Step) :
    ∃ pre, s = pre ++ sinceRemoval m k s ∧ EndsWithRemoval m k pre ∧ NoRemovalIn m k pre (sinceRemoval m k s) := by
  have := since_spec_fold m k s [] [] ⟨[], rfl, Or.inl rfl, by intro p1 now p2 h; cases p1 <;> cases h⟩
  simpa [sinceRemoval, runLive] using this

/-! ### (b) without overflow the removal test is `now > lastseen + 60·minutes` on the entry's own `lastseen` -/

/-- every `lastseen` of the table plus the expiry delay fits `u64` -/
def Bounded (m : Nat) (t : Table) : Prop := ∀ e ∈ t, e.lastseen + m * 60 < 2 ^ 64

theorem expired_of_bounded (now m : Nat) (e : Entry) (h : e.lastseen + m * 60 < 2 ^ 64) :
    expired now m e = .ok (decide (now > e.lastseen + m * 60)) := by
  have hm : m * 60 < 2 ^ 64 := by omega
  unfold expired
  rw [mulU_ok hm, Outcome.bind_ok, addU_ok h, Outcome.bind_ok]

theorem expire_of_bounded (now m : Nat) : ∀ t : Table, Bounded m t →
    expire now m t = .ok (t.filter fun e => !decide (now > e.lastseen + m * 60)) := by
  intro t
  induction t with
  | nil => intro _; rfl
  | cons e t ih =>
    intro hb
    have he := expired_of_bounded now m e (hb e (List.mem_cons_self ..))
    have ht := ih (fun e' he' => hb e' (List.mem_cons_of_mem _ he'))
    unfold expire
    rw [he, Outcome.bind_ok, ht, Outcome.bind_ok]
    by_cases hn : now > e.lastseen + m * 60 <;> simp [List.filter, hn]

theorem expireStep_of_bounded (now m : Nat) (t : Table) (hb : Bounded m t) :
    expireStep now m t = t.filter fun e => !decide (now > e.lastseen + m * 60) := by
  unfold expireStep; rw [expire_of_bounded now m t hb]

theorem mem_upsert (k : Addr) (ts : Nat) (f : Entry → Entry) : ∀ (t : Table) (e' : Entry),
    e' ∈ upsert k ts f t → e' ∈ t ∨ (∃ e, e ∈ t ∧ e' = f e) ∨ e' = f (Entry.new ts k) := by
  intro t
  induction t with
  | nil => intro e' h; simp [upsert] at h; exact .inr (.inr h)
  | cons x t ih =>
    intro e' h
    unfold upsert at h
    split at h
    · rcases List.mem_cons.mp h with h | h
      · exact .inr (.inl ⟨x, List.mem_cons_self .., h⟩)
      · exact .inl (List.mem_cons_of_mem _ h)
    · rcases List.mem_cons.mp h with h | h
      · exact .inl (h ▸ List.mem_cons_self ..)
      · rcases ih e' h with h | ⟨e, he, h⟩ | h
        · exact .inl (List.mem_cons_of_mem _ h)
        · exact .inr (.inl ⟨e, List.mem_cons_of_mem _ he, h⟩)
        · exact .inr (.inr h)

theorem bounded_stepLive (m : Nat) (t : Table) (x : Step) (hb : Bounded m t)
    (hx : isExpire x = false → stepTs x + m * 60 < 2 ^ 64) : Bounded m (stepLive m t x) := by
  cases x with
  | record r =>
    have hr : r.ts + m * 60 < 2 ^ 64 := hx rfl
    simp only [stepLive, update]
    cases r.addr with
    | none => exact hb
    | some k =>
      intro e' he'
      rcases mem_upsert k r.ts (touch r) t e' he' with h | ⟨e, _, h⟩ | h
      · exact hb e' h
      · rw [h, touch_lastseen]; exact hr
      · rw [h, touch_lastseen]; exact hr
  | history r =>
    have hr : r.ts + m * 60 < 2 ^ 64 := hx rfl
    simp only [stepLive, storeHistory]
    cases r.addr with
    | none => exact hb
    | some k =>
      intro e' he'
      rcases mem_upsert k r.ts id t e' he' with h | ⟨e, he, h⟩ | h
      · exact hb e' h
      · rw [h]; exact hb e he
      · rw [h]; exact hr
  | expire now =>
    simp only [stepLive]
    rw [expireStep_of_bounded now m t hb]
    intro e' he'
    exact hb e' (List.mem_filter.mp he').1

/-- **Reduction, all writers.**  Without overflow the entry of `k` is the run of `k`'s private machine -/
theorem live_fold (m : Nat) (k : Addr) (s : List Step) : ∀ t : Table, (keys t).Nodup → Bounded m t →
    NoOverflow m s → entryOf k (s.foldl (stepLive m) t) = s.foldl (stepEntry m k) (entryOf k t) := by
  induction s with
  | nil => intro t _ _ _; rfl
  | cons x s ih =>
    intro t hn hb hno
    have hx : isExpire x = false → stepTs x + m * 60 < 2 ^ 64 := hno x (List.mem_cons_self ..)
    rw [List.foldl_cons, List.foldl_cons,
      ih _ (keys_stepLive_nodup m t x hn) (bounded_stepLive m t x hb hx)
        (fun y hy => hno y (List.mem_cons_of_mem _ hy))]
    congr 1
    cases x with
    | expire now =>
      simp only [stepLive, stepEntry]
      rw [expireStep_of_bounded now m t hb, entryOf_filter k _ t hn]
      cases entryOf k t with
      | none => rfl
      | some e => by_cases hn : now > e.lastseen + m * 60 <;> simp [Option.filter, hn]
    | record r =>
      by_cases ha : stepAddr (Step.record r) = some k
      · simp only [stepEntry, ha, if_true]; exact get_stepLive_own m t _ k ha
      · simp only [stepEntry, ha, if_false]; exact get_stepLive_other m t _ k ha rfl
    | history r =>
      by_cases ha : stepAddr (Step.history r) = some k
      · simp only [stepEntry, ha, if_true]; exact get_stepLive_own m t _ k ha
      · simp only [stepEntry, ha, if_false]; exact get_stepLive_other m t _ k ha rfl

theorem stepEntry_relevant (m : Nat) (k : Addr) (s : List Step) : ∀ oe : Option Entry,
    s.foldl (stepEntry m k) oe = (relevant k s).foldl (stepEntry m k) oe := by
  induction s with
  | nil => intro oe; rfl
  | cons x s ih =>
    intro oe
    unfold relevant
    rw [List.foldl_cons, List.filter_cons]
    split
    · rw [List.foldl_cons]; exact ih _
    · rename_i hrel
      simp only [Bool.or_eq_true, decide_eq_true_eq, not_or, Bool.not_eq_true] at hrel
      have : stepEntry m k oe x = oe := by
        cases x with
        | expire now => exact absurd hrel.2 (by simp [isExpire])
        | record r => simp only [stepEntry, hrel.1, if_false]
        | history r => simp only [stepEntry, hrel.1, if_false]
      rw [this]; exact ih oe

theorem noOverflow_relevant (m : Nat) (k : Addr) (s : List Step) (h : NoOverflow m s) :
    NoOverflow m (relevant k s) :=
  fun x hx => h x (List.mem_filter.mp hx).1

/-! ### (c) the loop alone: `store_history` right after `update_snapshot` changes nothing -/

theorem upsert_id_present (k : Addr) (ts : Nat) : ∀ t : Table, (entryOf k t).isSome = true →
    upsert k ts id t = t := by
  intro t
  induction t with
  | nil => intro h; simp [entryOf] at h
  | cons x t ih =>
    intro h
    unfold upsert
    by_cases hx : x.icao24 = k
    · simp [hx]
    · simp only [hx, if_false]
      unfold entryOf at h
      simp only [hx, if_false] at h
      rw [ih h]

theorem storeHistory_after_update (t : Table) (r : Record) : storeHistory (update t r) r = update t r := by
  unfold storeHistory
  cases ha : r.addr with
  | none => rfl
  | some k =>
    simp only []
    apply upsert_id_present
    rw [get_update_same t r k ha]; rfl

theorem loopSteps_fold (m : Nat) (t : Table) (r : Record) (keep : Bool) :
    (loopSteps r keep).foldl (stepLive m) t = update t r := by
  cases keep
  · rfl
  · simp only [loopSteps, if_true, List.foldl_cons, List.foldl_nil, stepLive]
    exact storeHistory_after_update t r

theorem liveOfHistory_fold (m : Nat) (h : List (Record × Bool)) : ∀ t : Table,
    (liveOfHistory h).foldl (stepLive m) t = (h.map (·.1)).foldl update t := by
  induction h with
  | nil => intro t; rfl
  | cons x h ih =>
    intro t
    have : liveOfHistory (x :: h) = loopSteps x.1 x.2 ++ liveOfHistory h := by
      simp [liveOfHistory, List.flatMap_cons]
    rw [this, List.foldl_append, loopSteps_fold, ih]
    rfl

theorem recordsOf_append (a b : List Step) : recordsOf (a ++ b) = recordsOf a ++ recordsOf b := by
  simp [recordsOf, List.filterMap_append]

theorem recordsOf_liveOfHistory (h : List (Record × Bool)) : recordsOf (liveOfHistory h) = h.map (·.1) := by
  induction h with
  | nil => rfl
  | cons x h ih =>
    have : liveOfHistory (x :: h) = loopSteps x.1 x.2 ++ liveOfHistory h := by
      simp [liveOfHistory, List.flatMap_cons]
    rw [this, recordsOf_append, ih]
    cases hx : x.2 <;> simp [loopSteps, hx, recordsOf]

theorem own_recordsOf (k : Addr) (s : List Step) : own k (recordsOf s) = recordsOf (ownSteps k s) := by
  induction s with
  | nil => rfl
  | cons x s ih =>
    cases x with
    | record r =>
      by_cases hr : r.addr = some k
      · simp [ownSteps, List.filter, stepAddr, hr, recordsOf_cons_record, own] at ih ⊢; exact ih
      · simp [ownSteps, List.filter, stepAddr, hr, recordsOf_cons_record, own] at ih ⊢; exact ih
    | history r =>
      by_cases hr : r.addr = some k
      · simp [ownSteps, List.filter, stepAddr, hr, recordsOf_cons_history] at ih ⊢; exact ih
      · simp [ownSteps, List.filter, stepAddr, hr, recordsOf_cons_history] at ih ⊢; exact ih
    | expire n => simp [ownSteps, List.filter, stepAddr, recordsOf_cons_expire] at ih ⊢; exact ih

theorem bounded_foldl (m : Nat) (s : List Step) : ∀ t : Table, Bounded m t → NoOverflow m s →
    Bounded m (s.foldl (stepLive m) t) := by
  induction s with
  | nil => intro t hb _; exact hb
  | cons x s ih =>
    intro t hb hno
    exact ih _ (bounded_stepLive m t x hb (hno x (List.mem_cons_self ..)))
      (fun y hy => hno y (List.mem_cons_of_mem _ hy))

theorem bounded_runLive (m : Nat) (s : List Step) (hno : NoOverflow m s) : Bounded m (runLive m s) :=
  bounded_foldl m s [] (by intro e he; cases he) hno

theorem keys_runLive_nodup (m : Nat) (s : List Step) : (keys (runLive m s)).Nodup :=
  keys_foldl_nodup m s [] (by simp [keys])

/-- without overflow a pass removes `k`'s entry iff there is one and `now > lastseen + 60·minutes` -/
theorem removesK_iff (m : Nat) (k : Addr) (t : Table) (now : Nat) (hn : (keys t).Nodup) (hb : Bounded m t) :
    removesK m k t now = true ↔ ∃ e, entryOf k t = some e ∧ now > e.lastseen + m * 60 := by
  unfold removesK
  rw [expireStep_of_bounded now m t hb, entryOf_filter k _ t hn]
  cases entryOf k t with
  | none => simp
  | some e => by_cases h : now > e.lastseen + m * 60 <;> simp [Option.filter, h]

end Rs1090.Proofs.SnapshotWriters
