/-
`modes_checksum` (the table-driven model over the generated `CRC_TABLE`) computes the
polynomial remainder of Spec/Crc.lean — for every byte string.
-/
import Rs1090.Proofs.Crc
import Rs1090.Model.Decode.Checksum
namespace Rs1090.Proofs.Crc
open Rs1090 Rs1090.Spec.Crc Rs1090.Model

/-- **the table obligation**: all 256 rows of `CRC_TABLE` (regenerated from crc.rs on every
    run) are the parities of the single bytes -/
theorem table_ok : Gen.Crc.crcTable = crcTableList := by decide +kernel

theorem idx_table (i : Nat) (h : i < 256) : idx Gen.Crc.crcTable i = .ok (crcTable i).toNat := by
  rw [table_ok]
  simp [idx, crcTableList, h]

/-! ### eight register steps at once -/

theorem stepN_small (k : Nat) (r : BitVec 24) (hk : k ≤ 24) (h : r.toNat < 2 ^ (24 - k)) :
    stepN k r = r <<< k := by
  induction k generalizing r with
  | zero => simp [stepN]
  | succ k ih =>
    have hp : 2 ^ (24 - k) = 2 * 2 ^ (24 - (k + 1)) := by
      rw [show 24 - k = (24 - (k + 1)) + 1 by omega, Nat.pow_succ]; omega
    have h23 : 2 ^ (24 - (k + 1)) ≤ 2 ^ 23 := Nat.pow_le_pow_right (by omega) (by omega)
    rw [stepN, step0_small r (by omega), ih _ (by omega) (by rw [shl1_toNat r (by omega), hp]; omega)]
    rw [← BitVec.shiftLeft_add, Nat.add_comm]

def hiOk (h : Nat) : Bool := stepN 8 (BitVec.ofNat 24 h <<< 16) == crcTable h

theorem stepN8_hi (h : Nat) (hh : h < 256) : stepN 8 (BitVec.ofNat 24 h <<< 16) = crcTable h := by
  have e : allBits hiOk 8 0 = true := by decide +kernel
  have := forall_lt_of_allBits hiOk 8 e h (by omega)
  simpa [hiOk] using this

theorem split_hi_lo (r : BitVec 24) : r = ((r >>> 16) <<< 16) ^^^ (r.setWidth 16).setWidth 24 := by
  ext i hi
  simp
  by_cases h : i < 16
  · simp [h, BitVec.getLsbD_eq_getElem hi]
  · simp [h]
    rw [show 16 + (i - 16) = i by omega]
    simp [BitVec.getLsbD_eq_getElem hi]

theorem hi_lt (r : BitVec 24) : (r >>> 16).toNat < 256 := by
  rw [BitVec.toNat_ushiftRight, Nat.shiftRight_eq_div_pow]
  have := r.isLt
  omega

/-- eight multiplications by `x` = shift by a byte and fold the byte shifted out through the table -/
theorem stepN8 (r : BitVec 24) : stepN 8 r = (r <<< 8) ^^^ crcTable (r >>> 16).toNat := by
  have hs := split_hi_lo r
  generalize hL : (r.setWidth 16).setWidth 24 = L at hs
  have hLlt : L.toNat < 2 ^ 16 := by
    rw [← hL]; simp; omega
  have hH : stepN 8 ((r >>> 16) <<< 16) = crcTable (r >>> 16).toNat := by
    have := stepN8_hi (r >>> 16).toNat (hi_lt r)
    rwa [BitVec.ofNat_toNat, BitVec.setWidth_eq] at this
  have hsh : r <<< 8 = L <<< 8 := by
    conv => lhs; rw [hs]
    rw [BitVec.shiftLeft_xor_distrib, ← BitVec.shiftLeft_add]
    rw [BitVec.shiftLeft_eq_zero (by omega)]
    simp
  conv => lhs; rw [hs]
  rw [stepN_xor, hH, stepN_small 8 L (by omega) (by simpa using hLlt), hsh, BitVec.xor_comm]

/-- the table is linear in its index -/
theorem crcTable_xor (a b : Nat) : crcTable (a ^^^ b) = crcTable a ^^^ crcTable b := by
  unfold crcTable parity bits8
  rw [bitsN_xor, ← xorBits_zeros 24, ← xorBits_append _ _ _ _ (by simp [bitsN_length]), xorBits_zeros,
    polyMod_xor _ _ (by simp [bitsN_length])]

/-- one byte of the table-driven algorithm, on the specification side -/
def next (r : BitVec 24) (b : Nat) : BitVec 24 := (r <<< 8) ^^^ crcTable ((r >>> 16).toNat ^^^ b)

theorem parity_append_byte (xs : List Bool) (b : Nat) :
    parity (xs ++ bits8 b) = next (parity xs) b := by
  have h1 : parity (xs ++ bits8 b) = stepN 32 (polyMod xs) ^^^ crcTable b := by
    unfold parity crcTable parity
    rw [List.append_assoc, polyMod_append]
    simp [bits8_length, zeros]
  rw [h1, show (32 : Nat) = 24 + 8 from rfl, stepN_add, ← parity_eq, stepN8, next, crcTable_xor,
    BitVec.xor_assoc]

/-! ### the model's loop -/

theorem crcLoop_cons (b : Nat) (rest : List Nat) (r : BitVec 24) (hb : b < 256) :
    crcLoop (b :: rest) r.toNat = crcLoop rest (next r b).toNat := by
  have hr := r.isLt
  have hidx : (r.toNat &&& 0xff0000) >>> 16 = (r >>> 16).toNat := by
    rw [BitVec.toNat_ushiftRight, Nat.shiftRight_and_distrib]
    have : (0xff0000 : Nat) >>> 16 = 2 ^ 8 - 1 := by decide
    rw [this, Nat.and_two_pow_sub_one_eq_mod, Nat.shiftRight_eq_div_pow]
    omega
  have hi := hi_lt r
  have hlt : b ^^^ (r >>> 16).toNat < 256 := Nat.xor_lt_two_pow (n := 8) hb hi
  rw [crcLoop, hidx]
  show Outcome.bind _ _ = _
  rw [idx_table _ hlt, Outcome.bind_ok]
  congr 1
  rw [next, BitVec.toNat_xor, BitVec.toNat_shiftLeft, Nat.xor_comm b]
  have ht := (crcTable ((r >>> 16).toNat ^^^ b)).isLt
  generalize (crcTable ((r >>> 16).toNat ^^^ b)).toNat = t at *
  have : (0xffffff : Nat) = 2 ^ 24 - 1 := by decide
  rw [this, Nat.and_two_pow_sub_one_eq_mod, Nat.xor_mod_two_pow, Nat.mod_eq_of_lt ht]
  congr 1
  omega


theorem crcLoop_eq (data : List Nat) (xs : List Bool) (hd : Bytes data) :
    crcLoop data (parity xs).toNat = .ok (parity (xs ++ bits data)).toNat := by
  induction data generalizing xs with
  | nil => simp [crcLoop, bits]
  | cons b rest ih =>
    have hb : b < 256 := hd b (by simp)
    rw [crcLoop_cons b rest _ hb, ← parity_append_byte, ih _ (fun x hx => hd x (by simp [hx]))]
    simp [bits, List.append_assoc]

theorem parity_nil : parity [] = 0#24 := by decide

theorem polyMod_bits8 (m : Nat) (h : m < 256) : polyMod (bits8 m) = BitVec.ofNat 24 m := by
  apply BitVec.eq_of_toNat_eq
  rw [polyMod_short _ (by simp [bits8_length]), bits8, valBE_bitsN, BitVec.toNat_ofNat]
  omega

/-- the last three bytes, as a remainder -/
theorem polyMod_bits3 (m1 m2 m3 : Nat) (h1 : m1 < 256) (h2 : m2 < 256) (h3 : m3 < 256) :
    (polyMod (bits [m1, m2, m3])).toNat = (m1 <<< 16) ^^^ (m2 <<< 8) ^^^ m3 := by
  have e : bits [m1, m2, m3] = bits8 m1 ++ (bits8 m2 ++ bits8 m3) := by simp [bits]
  rw [e, polyMod_append, polyMod_append, polyMod_bits8 _ h1, polyMod_bits8 _ h2, polyMod_bits8 _ h3]
  simp only [List.length_append, bits8_length]
  rw [stepN_small 16 _ (by omega) (by simp; omega), stepN_small 8 _ (by omega) (by simp; omega)]
  simp only [BitVec.toNat_xor, BitVec.toNat_shiftLeft, BitVec.toNat_ofNat, Nat.shiftLeft_eq]
  rw [Nat.xor_assoc]
  congr 1
  · omega
  · congr 1 <;> omega

/-- `modes_checksum` on `data ++ [m1, m2, m3]` -/
theorem modesChecksum_split (data : List Nat) (m1 m2 m3 : Nat) (hd : Bytes data)
    (h1 : m1 < 256) (h2 : m2 < 256) (h3 : m3 < 256) :
    modesChecksum (data ++ [m1, m2, m3]) (8 * (data.length + 3))
      = .ok (polyMod (bits (data ++ [m1, m2, m3]))).toNat := by
  have hn : 8 * (data.length + 3) / 8 = data.length + 3 := by omega
  unfold modesChecksum
  simp only [hn]
  have hc : ((data.length + 3 < 3) || decide ((data ++ [m1, m2, m3]).length < data.length + 3)) = false := by
    simp
  rw [hc]
  simp only [Bool.false_eq_true, ↓reduceIte, Nat.add_sub_cancel]
  have ht : (data ++ [m1, m2, m3]).take data.length = data := by simp
  have hl := crcLoop_eq data [] hd
  rw [parity_nil] at hl
  simp only [BitVec.toNat_ofNat, Nat.zero_mod, List.nil_append] at hl
  have i1 : idx (data ++ [m1, m2, m3]) data.length = .ok m1 := by simp [idx]
  have i2 : idx (data ++ [m1, m2, m3]) (data.length + 3 - 2) = .ok m2 := by
    rw [show data.length + 3 - 2 = data.length + 1 by omega]; simp [idx]
  have i3 : idx (data ++ [m1, m2, m3]) (data.length + 3 - 1) = .ok m3 := by
    rw [show data.length + 3 - 1 = data.length + 2 by omega]; simp [idx]
  rw [ht, hl, i1, i2, i3]
  simp only [Outcome.bind_ok', Outcome.pure_eq]
  rw [bits_append, polyMod_append24 _ _ (by simp [bits_length]), BitVec.toNat_xor, polyMod_bits3 _ _ _ h1 h2 h3]


theorem split_last3 (msg : List Nat) (h : 3 ≤ msg.length) :
    ∃ data m1 m2 m3, msg = data ++ [m1, m2, m3] := by
  refine ⟨msg.take (msg.length - 3), ?_⟩
  have hd : (msg.drop (msg.length - 3)).length = 3 := by simp; omega
  match hm : msg.drop (msg.length - 3), hd with
  | [a, b, c], _ => exact ⟨a, b, c, by rw [← hm, List.take_append_drop]⟩

/-- **the checksum is the polynomial remainder** — every byte string of length ≥ 3 (never a panic:
    the table index is always < 256) -/
theorem modesChecksum_eq (msg : List Nat) (h : 3 ≤ msg.length) (hb : Bytes msg) :
    modesChecksum msg (8 * msg.length) = .ok (polyMod (bits msg)).toNat := by
  obtain ⟨data, m1, m2, m3, rfl⟩ := split_last3 msg h
  have hl : (data ++ [m1, m2, m3]).length = data.length + 3 := by simp
  rw [hl]
  exact modesChecksum_split data m1 m2 m3 (fun x hx => hb x (by simp [hx]))
    (hb m1 (by simp)) (hb m2 (by simp)) (hb m3 (by simp))

/-- remainder of a frame as a number -/
def syndrome (frame : List Nat) : Nat := (polyMod (bits frame)).toNat

/-! ### the overlay on the specification side -/

theorem apField_bits (data : List Nat) (a : Nat) :
    bits (apField data a) = bitsN 24 ((parity (bits data)).toNat ^^^ a) :=
  bits_pack _ (by simp [bitsN_length])

theorem apField_length (data : List Nat) (a : Nat) : (apField data a).length = 3 := by
  rw [apField, pack_length, bitsN_length]

theorem encodeAP_bytes (data : List Nat) (a : Nat) (hd : Bytes data) : Bytes (encodeAP data a) := by
  intro x hx
  simp only [encodeAP, List.mem_append] at hx
  rcases hx with hx | hx
  · exact hd x hx
  · exact pack_bytes _ x hx

theorem encodeAP_length (data : List Nat) (a : Nat) : (encodeAP data a).length = data.length + 3 := by
  simp [encodeAP, apField_length]

/-- **the overlay is undone by the remainder**: whatever the data, whatever the address -/
theorem syndrome_encodeAP (data : List Nat) (a : Nat) (ha : a < 2 ^ 24) :
    syndrome (encodeAP data a) = a := by
  unfold syndrome encodeAP
  rw [bits_append, apField_bits, polyMod_append24 _ _ (by simp [bitsN_length]), BitVec.toNat_xor,
    polyMod_short _ (by simp [bitsN_length]), valBE_bitsN]
  have hp := (parity (bits data)).isLt
  generalize (parity (bits data)).toNat = p at *
  rw [Nat.mod_eq_of_lt (Nat.xor_lt_two_pow hp ha), ← Nat.xor_assoc, Nat.xor_self, Nat.zero_xor]

end Rs1090.Proofs.Crc
