/-
Helper lemmas for C10: members of a group lie within the group's window `[first, first + w)` —
all members of an open group, all members but possibly the LAST one of a group that leaves (the
arrival that closed it joined it first when it carries the same frame).  History form.
-/
import Rs1090.Proofs.DedupSpec
namespace Rs1090.Dedup
open Rs1090.Spec.Dedup (firstT closes WellFormed members recordOf records)

/-- every member of every group of the cache arrived inside the group's window -/
def Within (w : Nat) (c : Cache) : Prop := ∀ g ∈ c, ∀ m ∈ g.2, m.t < firstT g + w

theorem within_nil (w : Nat) : Within w [] := fun _ h => by cases h

/-- after the arrival joined: every member except the arrival itself is inside the window, and the
    arrival can only be the LAST member -/
theorem push_within {w : Nat} (a : Arrival) : ∀ {c : Cache}, (∀ g ∈ c, g.2 ≠ []) → Within w c →
    ∀ g ∈ push c a, (∀ m ∈ g.2.dropLast, m.t < firstT g + w) ∧
      (∀ m ∈ g.2, m = a ∨ m.t < firstT g + w)
  | [], _, _, g, hg => by
    simp only [push, List.mem_singleton] at hg
    subst hg
    exact ⟨by simp, fun m hm => Or.inl (by simpa using hm)⟩
  | (f, ms) :: rest, hne, hc, g, hg => by
    have hold : ∀ x ∈ (f, ms) :: rest, (∀ m ∈ x.2.dropLast, m.t < firstT x + w) ∧
        (∀ m ∈ x.2, m = a ∨ m.t < firstT x + w) := fun x hx =>
      ⟨fun m hm => hc x hx m (List.dropLast_subset _ hm), fun m hm => Or.inr (hc x hx m hm)⟩
    simp only [push] at hg
    split at hg
    · simp only [List.mem_cons] at hg
      rcases hg with rfl | hg
      · have hf := firstT_snoc (f := f) a (hne (f, ms) (by simp))
        refine ⟨fun m hm => ?_, fun m hm => ?_⟩
        · rw [List.dropLast_concat] at hm
          rw [hf]; exact hc (f, ms) (by simp) m hm
        · simp only [List.mem_append, List.mem_singleton] at hm
          rcases hm with hm | hm
          · right; rw [hf]; exact hc (f, ms) (by simp) m hm
          · exact Or.inl hm
      · exact hold g (by simp [hg])
    · simp only [List.mem_cons] at hg
      rcases hg with rfl | hg
      · exact hold (f, ms) (by simp)
      · exact push_within a (fun x hx => hne x (by simp [hx])) (fun x hx => hc x (by simp [hx])) g hg

/-- one iteration: the groups that stay are within their windows; in a group that leaves every
    member but the last is, and a late last member is the arrival being processed -/
theorem stepG_within {w : Nat} {s : State} (a : Arrival) (hinv : Inv w s) (hc : Within w s.cache) :
    Within w (stepG w s a).1.cache ∧
    (∀ g ∈ (stepG w s a).2, ∀ m ∈ g.2.dropLast, m.t < firstT g + w) ∧
    (∀ g ∈ (stepG w s a).2, ∀ m ∈ g.2, m = a ∨ m.t < firstT g + w) := by
  have hne : ∀ g ∈ s.cache, g.2 ≠ [] := fun g hg => (hinv.wf g hg).1
  have hsub := stepG_subset a hinv
  refine ⟨fun g hg m hm => ?_, fun g hg => (push_within a hne hc g (hsub.1 g hg)).1,
    fun g hg => (push_within a hne hc g (hsub.1 g hg)).2⟩
  rcases (push_within a hne hc g (hsub.2 g hg)).2 m hm with h0 | h1
  · have := (stepG_spec a hinv).2.1 ▸ hg
    rw [h0]
    simpa [closes] using (List.mem_filter.mp this).2
  · exact h1

/-- histories -/
theorem runG_within {w : Nat} : ∀ (hist : List Arrival) {s : State}, Inv w s → Within w s.cache →
    Within w (runG w s hist).1.cache ∧
    ∀ g ∈ (runG w s hist).2, ∀ m ∈ g.2.dropLast, m.t < firstT g + w
  | [], _, _, hc => ⟨hc, by simp [runG]⟩
  | a :: as, s, hinv, hc => by
    have h1 := stepG_within a hinv hc
    have h2 := runG_within as (stepG_spec a hinv).1 h1.1
    refine ⟨h2.1, fun g hg => ?_⟩
    simp only [runG, List.mem_append] at hg
    rcases hg with hg | hg
    · exact h1.2.1 g hg
    · exact h2.2 g hg

end Rs1090.Dedup
