/-
Algebra of the Mode S long division (Spec/Crc.lean): the register step is XOR-linear and
injective at 0, the remainder is additive over equal-length bit strings, short strings are
their own remainder.  Core Lean only.
-/
import Rs1090.Spec.Crc
import Rs1090.Model.Basic
namespace Rs1090.Proofs.Crc
open Rs1090 Rs1090.Spec.Crc

/-! ### the register step -/

theorem step0_zero : step0 0#24 = 0#24 := by decide

theorem xor_xor_xor_comm (a b c d : BitVec 24) : (a ^^^ b) ^^^ (c ^^^ d) = (a ^^^ c) ^^^ (b ^^^ d) := by
  ext i hi
  simp only [BitVec.getElem_xor]
  cases a[i] <;> cases b[i] <;> cases c[i] <;> cases d[i] <;> rfl

theorem step0_xor (a b : BitVec 24) : step0 (a ^^^ b) = step0 a ^^^ step0 b := by
  unfold step0
  rw [BitVec.shiftLeft_xor_distrib, BitVec.msb_xor, xor_xor_xor_comm (a <<< 1)]
  congr 1
  cases a.msb <;> cases b.msb <;> simp

/-- the generator has constant term 1, so multiplication by `x` modulo `G` has no kernel -/
theorem step0_ne_zero (r : BitVec 24) (h : r ≠ 0#24) : step0 r ≠ 0#24 := by
  intro hz
  apply h
  unfold step0 at hz
  by_cases hm : r.msb = true
  · exfalso
    have := congrArg (fun v => v.getLsbD 0) hz
    simp [hm, P, GENERATOR] at this
  · have hm2 : r.msb = false := by simpa using hm
    rw [hm2] at hz
    simp at hz
    have hm' : r.getLsbD 23 = false := by
      rw [BitVec.msb_eq_getLsbD_last] at hm2; simpa using hm2
    ext i hi
    have h1 : (r <<< 1).getLsbD (i + 1) = (0#24).getLsbD (i + 1) := by rw [hz]
    simp only [BitVec.getLsbD_shiftLeft] at h1
    by_cases h23 : i = 23
    · subst h23; simpa using hm'
    · have : i + 1 < 24 := by omega
      simp_all

/-! ### feeding bits -/

theorem feed_false (r : BitVec 24) : feed r false = step0 r := by
  simp [feed]

theorem feed_xor (r s : BitVec 24) (a b : Bool) :
    feed (r ^^^ s) (a ^^ b) = feed r a ^^^ feed s b := by
  unfold feed
  rw [step0_xor, xor_xor_xor_comm (step0 r)]
  congr 1
  cases a <;> cases b <;> decide

theorem polyModFrom_nil (r : BitVec 24) : polyModFrom r [] = r := rfl
theorem polyModFrom_cons (r : BitVec 24) (b : Bool) (bs : List Bool) :
    polyModFrom r (b :: bs) = polyModFrom (feed r b) bs := rfl
theorem polyModFrom_append (r : BitVec 24) (xs ys : List Bool) :
    polyModFrom r (xs ++ ys) = polyModFrom (polyModFrom r xs) ys := by
  simp [polyModFrom, List.foldl_append]

/-- the remainder is additive: two dividends of equal length, two starting remainders -/
theorem polyModFrom_xor : ∀ (xs ys : List Bool) (r s : BitVec 24), xs.length = ys.length →
    polyModFrom (r ^^^ s) (xorBits xs ys) = polyModFrom r xs ^^^ polyModFrom s ys := by
  intro xs
  induction xs with
  | nil => intro ys r s h; cases ys <;> simp_all [xorBits, polyModFrom]
  | cons x xs ih =>
    intro ys r s h
    cases ys with
    | nil => simp at h
    | cons y ys =>
      simp only [xorBits, List.zipWith_cons_cons, polyModFrom_cons]
      rw [feed_xor]
      exact ih ys _ _ (by simpa using h)

/-- `n` multiplications by `x` modulo `G` -/
def stepN : Nat → BitVec 24 → BitVec 24
  | 0, r => r
  | n + 1, r => stepN n (step0 r)

theorem stepN_zero (n : Nat) : stepN n 0#24 = 0#24 := by
  induction n with
  | zero => rfl
  | succ n ih => simp [stepN, step0_zero, ih]

theorem stepN_xor (n : Nat) (a b : BitVec 24) : stepN n (a ^^^ b) = stepN n a ^^^ stepN n b := by
  induction n generalizing a b with
  | zero => rfl
  | succ n ih => simp [stepN, step0_xor, ih]

theorem stepN_ne_zero (n : Nat) (r : BitVec 24) (h : r ≠ 0#24) : stepN n r ≠ 0#24 := by
  induction n generalizing r with
  | zero => exact h
  | succ n ih => exact ih _ (step0_ne_zero r h)

theorem stepN_add (m n : Nat) (r : BitVec 24) : stepN (m + n) r = stepN n (stepN m r) := by
  induction m generalizing r with
  | zero => simp [stepN]
  | succ m ih => rw [Nat.succ_add]; simp [stepN, ih]

theorem polyModFrom_zeros (n : Nat) (r : BitVec 24) : polyModFrom r (zeros n) = stepN n r := by
  induction n generalizing r with
  | zero => rfl
  | succ n ih =>
    simp only [zeros, List.replicate_succ, polyModFrom_cons, feed_false, stepN]
    exact ih _

theorem polyMod_zeros (n : Nat) : polyMod (zeros n) = 0#24 := by
  rw [polyMod, polyModFrom_zeros, stepN_zero]

/-- continuing from `r` = shifting `r` through, plus the remainder of the new bits alone -/
theorem polyModFrom_eq (bs : List Bool) (r : BitVec 24) :
    polyModFrom r bs = stepN bs.length r ^^^ polyMod bs := by
  induction bs generalizing r with
  | nil => simp [polyModFrom, polyMod, stepN]
  | cons b bs ih =>
    have e : polyMod (b :: bs) = polyModFrom (feed 0#24 b) bs := rfl
    rw [polyModFrom_cons, ih, e, ih (feed 0#24 b)]
    have : feed r b = step0 r ^^^ feed 0#24 b := by
      simp [feed, step0_zero]
    rw [this, stepN_xor, List.length_cons, stepN, BitVec.xor_assoc]

theorem polyMod_append (xs ys : List Bool) :
    polyMod (xs ++ ys) = stepN ys.length (polyMod xs) ^^^ polyMod ys := by
  rw [polyMod, polyModFrom_append, polyModFrom_eq ys]; rfl

theorem polyMod_append_zeros (xs : List Bool) (n : Nat) :
    polyMod (xs ++ zeros n) = stepN n (polyMod xs) := by
  rw [polyMod, polyModFrom_append, polyModFrom_zeros]; rfl

theorem polyMod_zeros_append (n : Nat) (ys : List Bool) : polyMod (zeros n ++ ys) = polyMod ys := by
  rw [polyMod_append, polyMod_zeros, stepN_zero]; simp

/-- **linearity of the syndrome**: equal-length bit strings -/
theorem polyMod_xor (xs ys : List Bool) (h : xs.length = ys.length) :
    polyMod (xorBits xs ys) = polyMod xs ^^^ polyMod ys := by
  have := polyModFrom_xor xs ys 0#24 0#24 h
  simpa [polyMod] using this

theorem parity_eq (xs : List Bool) : parity xs = stepN 24 (polyMod xs) := polyMod_append_zeros xs 24

/-- attaching 24 bits `ys` to `xs`: the remainder is `parity xs ⊕ remainder of ys` -/
theorem polyMod_append24 (xs ys : List Bool) (h : ys.length = 24) :
    polyMod (xs ++ ys) = parity xs ^^^ polyMod ys := by
  rw [polyMod_append, h, parity_eq]

/-! ### short strings are their own remainder -/

theorem two_mul_xor_one (n : Nat) : 2 * n ^^^ 1 = 2 * n + 1 := by
  apply Nat.eq_of_testBit_eq
  intro i
  rw [Nat.testBit_xor]
  cases i with
  | zero => simp [Nat.testBit_zero]
  | succ i =>
    rw [Nat.testBit_succ, Nat.testBit_succ, Nat.testBit_succ]
    have h1 : 2 * n / 2 = n := by omega
    have h2 : (2 * n + 1) / 2 = n := by omega
    rw [h1, h2]; simp

theorem step0_small (r : BitVec 24) (h : r.toNat < 2 ^ 23) : step0 r = r <<< 1 := by
  have : r.msb = false := by
    rw [BitVec.msb_eq_decide]; simp; omega
  simp [step0, this]

theorem shl1_toNat (r : BitVec 24) (h : r.toNat < 2 ^ 23) : (r <<< 1).toNat = 2 * r.toNat := by
  rw [BitVec.toNat_shiftLeft, Nat.shiftLeft_eq]; omega

theorem feed_toNat (r : BitVec 24) (b : Bool) (h : r.toNat < 2 ^ 23) :
    (feed r b).toNat = 2 * r.toNat + b.toNat := by
  rw [feed, step0_small r h]
  cases b
  · simp [shl1_toNat r h]
  · rw [BitVec.toNat_xor, shl1_toNat r h]
    simpa using two_mul_xor_one r.toNat

/-- big-endian value continued from an accumulator -/
def valFrom (acc : Nat) (bs : List Bool) : Nat := bs.foldl (fun acc b => 2 * acc + b.toNat) acc

theorem valBE_eq (bs : List Bool) : valBE bs = valFrom 0 bs := rfl

theorem valFrom_eq (bs : List Bool) (acc : Nat) :
    valFrom acc bs = acc * 2 ^ bs.length + valBE bs ∧ valBE bs < 2 ^ bs.length := by
  induction bs generalizing acc with
  | nil => simp [valFrom, valBE]
  | cons b bs ih =>
    have h1 := ih (2 * acc + b.toNat)
    have h2 := ih (2 * 0 + b.toNat)
    have e1 : valFrom acc (b :: bs) = valFrom (2 * acc + b.toNat) bs := rfl
    have e2 : valBE (b :: bs) = valFrom (2 * 0 + b.toNat) bs := rfl
    rw [e1, e2, h1.1, h2.1, List.length_cons, Nat.pow_succ]
    have hv := h1.2
    have hb : b.toNat ≤ 1 := by cases b <;> simp
    generalize 2 ^ bs.length = p at *
    generalize valBE bs = v at *
    generalize b.toNat = t at *
    have k1 : (2 * acc + t) * p = acc * (p * 2) + t * p := by
      rw [Nat.add_mul]; congr 1; rw [Nat.mul_comm 2 acc, Nat.mul_assoc, Nat.mul_comm 2 p]
    have k2 : (2 * 0 + t) * p = t * p := by simp
    have k3 : t * p ≤ 1 * p := Nat.mul_le_mul_right _ hb
    rw [k1, k2]
    exact ⟨by omega, by omega⟩

theorem valBE_lt (bs : List Bool) : valBE bs < 2 ^ bs.length := (valFrom_eq bs 0).2

theorem valBE_append (xs ys : List Bool) : valBE (xs ++ ys) = valBE xs * 2 ^ ys.length + valBE ys := by
  have : valBE (xs ++ ys) = valFrom (valBE xs) ys := by
    simp [valBE, valFrom, List.foldl_append]
  rw [this, (valFrom_eq ys _).1]

theorem valBE_cons (b : Bool) (bs : List Bool) : valBE (b :: bs) = b.toNat * 2 ^ bs.length + valBE bs := by
  have := valBE_append [b] bs
  simpa [valBE] using this

theorem valBE_pos (bs : List Bool) (h : true ∈ bs) : 0 < valBE bs := by
  induction bs with
  | nil => simp at h
  | cons b bs ih =>
    rw [valBE_cons]
    cases b
    · simp at h; simpa using ih h
    · have : 0 < 2 ^ bs.length := Nat.two_pow_pos _
      simp; omega

theorem polyModFrom_toNat (bs : List Bool) (r : BitVec 24) (hl : bs.length ≤ 24)
    (hr : r.toNat < 2 ^ (24 - bs.length)) :
    (polyModFrom r bs).toNat = valFrom r.toNat bs := by
  induction bs generalizing r with
  | nil => rfl
  | cons b bs ih =>
    simp only [List.length_cons] at hl hr
    have hp : 2 ^ (24 - bs.length) = 2 * 2 ^ (24 - (bs.length + 1)) := by
      rw [show 24 - bs.length = (24 - (bs.length + 1)) + 1 by omega, Nat.pow_succ]; omega
    have h23 : 2 ^ (24 - (bs.length + 1)) ≤ 2 ^ 23 := Nat.pow_le_pow_right (by omega) (by omega)
    have hf := feed_toNat r b (by omega)
    have hb : b.toNat ≤ 1 := by cases b <;> simp
    rw [polyModFrom_cons, ih (feed r b) (by omega) (by rw [hf, hp]; omega), hf]
    rfl

/-- a string of at most 24 bits is its own remainder -/
theorem polyMod_short (bs : List Bool) (hl : bs.length ≤ 24) : (polyMod bs).toNat = valBE bs := by
  rw [polyMod, polyModFrom_toNat bs _ hl (by simp; exact Nat.two_pow_pos _)]
  rfl

theorem polyMod_short_ne_zero (bs : List Bool) (hl : bs.length ≤ 24) (h : true ∈ bs) :
    polyMod bs ≠ 0#24 := by
  intro hz
  have := polyMod_short bs hl
  rw [hz] at this
  have := valBE_pos bs h
  simp at *; omega

/-! ### the register formulation is schoolbook long division by the 25-bit generator -/

theorem xor_top (a p : Nat) (ha : a < 2 ^ 24) (hp : p < 2 ^ 24) :
    (2 ^ 24 + a) ^^^ (2 ^ 24 + p) = a ^^^ p := by
  have hm : ((2 ^ 24 + a) ^^^ (2 ^ 24 + p)) % 2 ^ 24 = a ^^^ p := by
    rw [Nat.xor_mod_two_pow]
    congr 1 <;> omega
  have hd : ((2 ^ 24 + a) ^^^ (2 ^ 24 + p)) / 2 ^ 24 = 0 := by
    rw [← Nat.shiftRight_eq_div_pow, Nat.shiftRight_xor_distrib, Nat.shiftRight_eq_div_pow,
      Nat.shiftRight_eq_div_pow]
    have h1 : (2 ^ 24 + a) / 2 ^ 24 = 1 := by omega
    have h2 : (2 ^ 24 + p) / 2 ^ 24 = 1 := by omega
    rw [h1, h2]; rfl
  have := Nat.mod_add_div ((2 ^ 24 + a) ^^^ (2 ^ 24 + p)) (2 ^ 24)
  rw [hm, hd] at this
  omega

theorem divStep_hi (n p g bt : Nat) (hn : 2 ^ 23 ≤ n) (hn2 : n < 2 ^ 24) (hb : bt ≤ 1) (hp : p < 2 ^ 24)
    (hg : g = 2 ^ 24 + p) : (2 * n + bt) ^^^ g = (2 * n - 2 ^ 24 + bt) ^^^ p := by
  subst hg
  have : 2 * n + bt = 2 ^ 24 + (2 * n - 2 ^ 24 + bt) := by omega
  rw [this]
  exact xor_top _ _ (by omega) hp

theorem divStep_eq (r : BitVec 24) (b : Bool) : divStep r.toNat b = (feed r b).toNat := by
  have hr := r.isLt
  have hb : b.toNat ≤ 1 := by cases b <;> simp
  unfold divStep
  by_cases h : r.toNat < 2 ^ 23
  · rw [feed_toNat r b h]
    simp only
    rw [if_neg (by omega)]
  · simp only
    rw [if_pos (by omega)]
    have hmsb : r.msb = true := by rw [BitVec.msb_eq_decide]; simp; omega
    have hP : P.toNat = 16774153 := by simp [P, GENERATOR]
    have hG : GENERATOR = 2 ^ 24 + P.toNat := by rw [hP]; simp [GENERATOR]
    have hs : (r <<< 1).toNat = 2 * r.toNat - 2 ^ 24 := by
      rw [BitVec.toNat_shiftLeft, Nat.shiftLeft_eq]; omega
    have hx : (2 * r.toNat - 2 ^ 24) ^^^ b.toNat = 2 * r.toNat - 2 ^ 24 + b.toNat := by
      have he : 2 * r.toNat - 2 ^ 24 = 2 * (r.toNat - 2 ^ 23) := by omega
      rw [he]
      cases b
      · rw [show false.toNat = 0 from rfl, Nat.xor_zero, Nat.add_zero]
      · rw [show true.toNat = 1 from rfl]; exact two_mul_xor_one (r.toNat - 2 ^ 23)
    rw [divStep_hi r.toNat P.toNat GENERATOR b.toNat (by omega) hr hb P.isLt hG]
    unfold feed step0
    rw [hmsb]
    simp only [↓reduceIte, BitVec.toNat_xor, hs]
    have hbit : (if b = true then 1#24 else 0#24).toNat = b.toNat := by cases b <;> rfl
    rw [hbit, ← hx, Nat.xor_assoc, Nat.xor_assoc, Nat.xor_comm P.toNat]

theorem polyModNat_from (bs : List Bool) (r : BitVec 24) :
    bs.foldl divStep r.toNat = (polyModFrom r bs).toNat := by
  induction bs generalizing r with
  | nil => rfl
  | cons b bs ih => rw [List.foldl_cons, divStep_eq, ih, polyModFrom_cons]

/-- the 24-bit register formulation is schoolbook long division by the 25-bit generator -/
theorem polyModNat_eq (bs : List Bool) : polyModNat bs = (polyMod bs).toNat :=
  polyModNat_from bs 0#24

/-! ### error patterns -/

/-- a non-zero pattern confined to a window of at most 24 consecutive positions has a
    non-zero syndrome, wherever the window lies and however long the string is -/
theorem burst_syndrome_ne_zero (a c : Nat) (p : List Bool) (hl : p.length ≤ 24) (hp : true ∈ p) :
    polyMod (zeros a ++ p ++ zeros c) ≠ 0#24 := by
  rw [polyMod_append_zeros, polyMod_zeros_append]
  exact stepN_ne_zero _ _ (polyMod_short_ne_zero p hl hp)

/-- the pattern `x^d + 1`: two errors `d` positions apart -/
def pair (d : Nat) : List Bool := true :: (zeros (d - 1) ++ [true])

def pairOk (d : Nat) : Bool := d == 0 || d > 111 || polyMod (pair d) != 0#24

/-- `x^d + 1` is not a multiple of the generator for d = 1 … 111 (kernel computation, 111 long
    divisions) -/
theorem pair_ne_zero (d : Nat) (h1 : 1 ≤ d) (h2 : d ≤ 111) : polyMod (pair d) ≠ 0#24 := by
  have h : allBits pairOk 7 0 = true := by decide +kernel
  have := forall_lt_of_allBits pairOk 7 h d (by omega)
  simp only [pairOk, Bool.or_eq_true, beq_iff_eq, decide_eq_true_eq, bne_iff_ne] at this
  rcases this with (h | h) | h
  · omega
  · omega
  · exact h

theorem double_syndrome_ne_zero (a d c : Nat) (h1 : 1 ≤ d) (h2 : d ≤ 111) :
    polyMod (zeros a ++ pair d ++ zeros c) ≠ 0#24 := by
  rw [polyMod_append_zeros, polyMod_zeros_append]
  exact stepN_ne_zero _ _ (pair_ne_zero d h1 h2)

/-! ### bytes and bits -/

theorem bitsN_length (n v : Nat) : (bitsN n v).length = n := by
  induction n with
  | zero => rfl
  | succ n ih => simp [bitsN, ih]

theorem bits8_length (b : Nat) : (bits8 b).length = 8 := bitsN_length 8 b

theorem bits_length (bs : List Nat) : (bits bs).length = 8 * bs.length := by
  induction bs with
  | nil => rfl
  | cons b bs ih => simp [bits, bits8_length, ih]; omega

theorem bits_append (xs ys : List Nat) : bits (xs ++ ys) = bits xs ++ bits ys := by
  induction xs with
  | nil => rfl
  | cons x xs ih => simp [bits, ih]

theorem bitsN_xor (n a b : Nat) : bitsN n (a ^^^ b) = xorBits (bitsN n a) (bitsN n b) := by
  induction n with
  | zero => rfl
  | succ n ih => simp [bitsN, xorBits, Nat.testBit_xor] at *; exact ih

theorem xorBits_append (a b c d : List Bool) (h : a.length = c.length) :
    xorBits (a ++ b) (c ++ d) = xorBits a c ++ xorBits b d := by
  simp [xorBits, List.zipWith_append h]

theorem xorBits_zeros (n : Nat) : xorBits (zeros n) (zeros n) = zeros n := by
  simp [xorBits, zeros]

theorem xorBits_length (a b : List Bool) (h : a.length = b.length) : (xorBits a b).length = a.length := by
  simp [xorBits, h]

theorem valBE_bitsN (n v : Nat) : valBE (bitsN n v) = v % 2 ^ n := by
  induction n with
  | zero => simp [bitsN, valBE, Nat.mod_one]
  | succ n ih =>
    rw [bitsN, valBE_cons, ih, bitsN_length, Nat.toNat_testBit]
    have := Nat.mod_pow_succ (x := v) (b := 2) (k := n)
    rw [this, Nat.mul_comm]; omega

theorem bits_pack : ∀ (bs : List Bool), bs.length % 8 = 0 → bits (pack bs) = bs := by
  intro bs
  fun_induction pack bs with
  | case1 b7 b6 b5 b4 b3 b2 b1 b0 rest ih =>
    intro h
    have hr : rest.length % 8 = 0 := by simp at h; omega
    rw [bits, ih hr]
    have : bits8 (valBE [b7, b6, b5, b4, b3, b2, b1, b0]) = [b7, b6, b5, b4, b3, b2, b1, b0] := by
      cases b7 <;> cases b6 <;> cases b5 <;> cases b4 <;> cases b3 <;> cases b2 <;> cases b1 <;> cases b0 <;> rfl
    rw [this]; rfl
  | case2 bs hne =>
    intro h
    match bs, hne, h with
    | [], _, _ => rfl
    | [_], _, h => simp at h
    | [_, _], _, h => simp at h
    | [_, _, _], _, h => simp at h
    | [_, _, _, _], _, h => simp at h
    | [_, _, _, _, _], _, h => simp at h
    | [_, _, _, _, _, _], _, h => simp at h
    | [_, _, _, _, _, _, _], _, h => simp at h
    | _ :: _ :: _ :: _ :: _ :: _ :: _ :: _ :: _, hne, _ => exact absurd rfl (hne _ _ _ _ _ _ _ _ _)

/-! ### byte strings -/

/-- every element is a byte -/
def Bytes (bs : List Nat) : Prop := ∀ b ∈ bs, b < 256

instance (bs : List Nat) : Decidable (Bytes bs) := by unfold Bytes; infer_instance

theorem pack_length (bs : List Bool) : (pack bs).length = bs.length / 8 := by
  fun_induction pack bs with
  | case1 b7 b6 b5 b4 b3 b2 b1 b0 rest ih => simp [ih]; omega
  | case2 bs hne =>
    match bs, hne with
    | [], _ => simp
    | [_], _ => simp
    | [_, _], _ => simp
    | [_, _, _], _ => simp
    | [_, _, _, _], _ => simp
    | [_, _, _, _, _], _ => simp
    | [_, _, _, _, _, _], _ => simp
    | [_, _, _, _, _, _, _], _ => simp
    | _ :: _ :: _ :: _ :: _ :: _ :: _ :: _ :: _, hne => exact absurd rfl (hne _ _ _ _ _ _ _ _ _)

theorem valBE8_lt (b7 b6 b5 b4 b3 b2 b1 b0 : Bool) : valBE [b7, b6, b5, b4, b3, b2, b1, b0] < 256 :=
  by
  have := valBE_lt [b7, b6, b5, b4, b3, b2, b1, b0]
  simpa using this

theorem pack_bytes (bs : List Bool) : Bytes (pack bs) := by
  fun_induction pack bs with
  | case1 b7 b6 b5 b4 b3 b2 b1 b0 rest ih =>
    intro x hx
    simp only [List.mem_cons] at hx
    rcases hx with rfl | hx
    · exact valBE8_lt ..
    · exact ih x hx
  | case2 bs hne => intro x hx; simp at hx

end Rs1090.Proofs.Crc
