/-
C14 — the invariants carried by every registration the model produces (`wf`), the structured left inverse
(`inv`: registration ↦ address), the constant national prefix of each scheme/row (`key`), and the shape of the
per-scheme lemmas (`Good`).
-/
import Rs1090.Proofs.TailBase
namespace Rs1090.Proofs.Tail
open Rs1090 Rs1090.Model.Tail Rs1090.Gen.Tail

/-! ### inverse of the N-number suffix -/

def letterInv : List Nat → Nat
  | [l] => l + NL_DEC
  | _ => NL_ZERO

def lettersInv : List Nat → Nat
  | q :: l => q * NLS_DIV + letterInv l + NLS_DEC
  | [] => NLS_ZERO

def nInv : List Nat → List Nat → Nat
  | [d1], ls => (d1 - N_D1_ADD) * N_D1_DIV + lettersInv ls
  | [d1, d2], ls => (d1 - N_D1_ADD) * N_D1_DIV + N_L1_SUB + d2 * N_D2_DIV + lettersInv ls
  | [d1, d2, d3], ls =>
    (d1 - N_D1_ADD) * N_D1_DIV + N_L1_SUB + d2 * N_D2_DIV + N_L2_SUB + d3 * N_D3_DIV + lettersInv ls
  | [d1, d2, d3, d4], ls =>
    (d1 - N_D1_ADD) * N_D1_DIV + N_L1_SUB + d2 * N_D2_DIV + N_L2_SUB + d3 * N_D3_DIV + N_L3_SUB + d4 * N_D4_DIV
      + letterInv ls
  | [d1, d2, d3, d4, d5], _ =>
    (d1 - N_D1_ADD) * N_D1_DIV + N_L1_SUB + d2 * N_D2_DIV + N_L2_SUB + d3 * N_D3_DIV + N_L3_SUB + d4 * N_D4_DIV
      + N_L4_SUB + d5
  | _, _ => 0

def jaInv : List Nat → List Nat → Nat
  | [d1, d2, d3, d4], [] => d1 * JA_D1_DIV + d2 * JA_D2_DIV + d3 * JA_D3_DIV + d4
  | [d1, d2, d3], [l] => d1 * JA_D1_DIV + d2 * JA_D2_DIV + d3 * JA_D3_DIV + l + JA_D4_SUB
  | [d1, d2], [l3, l4] => d1 * JA_D1_DIV + d2 * JA_D2_DIV + JA_L_SUB + l3 * JA_L3_DIV + l4
  | _, _ => 0

/-! ### per-row quantities -/

/-- the values `hexid - sub + add` of an `hl_reg` arm -/
def hlVLo (r : HlRow) : Nat := r.lo - r.sub + r.add
def hlVHi (r : HlRow) : Nat := r.hi - r.sub + r.add

/-- largest registration number of a numeric row -/
def numVMax (m : NumRow) : Nat := m.end_ - m.start + m.first
/-- the template without its trailing zeros: the part that is never overwritten … -/
def numKey (m : NumRow) : List Char := (m.template.reverse.dropWhile (· == '0')).reverse
/-- … and the number of trailing zeros -/
def numW (m : NumRow) : Nat := m.template.length - (numKey m).length

/-- first-letter indices a stride row can produce -/
def strideLo (m : StrideRow) : Nat := m.offset / m.s1
def strideHi (m : StrideRow) : Nat := (m.end_ - m.start + m.offset) / m.s1

/-! ### invariants, inverse, national prefix -/

def wf : Reg → Prop
  | .n ds ls => (∀ d ∈ ds, d < 10) ∧ (∀ l ∈ ls, l < LIMITED_ALPHABET.length)
  | .ja ds ls => (∀ d ∈ ds, d < 10) ∧ (∀ l ∈ ls, l < LIMITED_ALPHABET.length)
  | .hl row v => row < hlRows.length ∧ hlVLo (hlRows.getD row default) ≤ v ∧ v ≤ hlVHi (hlRows.getD row default)
  | .num row v => row < numericRows.length ∧ v ≤ numVMax (numericRows.getD row default)
  | .stride row i1 i2 i3 =>
    row < strideRows.length ∧
      i1 < (strideRows.getD row default).alphabet.length ∧ i2 < (strideRows.getD row default).alphabet.length ∧
      i3 < (strideRows.getD row default).alphabet.length ∧
      strideLo (strideRows.getD row default) ≤ i1 ∧ i1 ≤ strideHi (strideRows.getD row default)

/-- the address a (well-formed) registration comes from -/
def inv : Reg → Nat
  | .n ds ls => N_BASE + nInv ds ls
  | .ja ds ls => JA_BASE + jaInv ds ls
  | .hl row v => v + (hlRows.getD row default).sub - (hlRows.getD row default).add
  | .num row v => v + (numericRows.getD row default).start - (numericRows.getD row default).first
  | .stride row i1 i2 i3 =>
    (strideRows.getD row default).start
      + (i1 * (strideRows.getD row default).s1 + i2 * (strideRows.getD row default).s2 + i3)
      - (strideRows.getD row default).offset

/-- the constant leading part of the formatted registration: the national prefix -/
def key : Reg → List Char
  | .n _ _ => ['N']
  | .ja _ _ => ['J', 'A']
  | .hl _ _ => ['H', 'L']
  | .num row _ => numKey (numericRows.getD row default)
  | .stride row _ _ _ => (strideRows.getD row default).pre

/-! ### country -/

/-- every address of `[lo, hi]` is assigned (first match in file order) one and the same block, whose national
    pattern matches the prefix `k`, and none of whose categories re-assigns the country -/
def countryOkB (lo hi : Nat) (k : List Char) : Bool :=
  match rangeFind lo hi blocks with
  | some b => natMatch b k && b.cats.all (fun c => c.country.isNone)
  | none => false

def CountryFact (h : Nat) (r : Reg) : Prop :=
  ∃ b, blockOf h = some b ∧ natMatch b (key r) = true ∧ b.cats.all (fun c => c.country.isNone) = true

theorem countryFact_of {lo hi : Nat} {r : Reg} (hc : countryOkB lo hi (key r) = true) {h : Nat}
    (h1 : lo ≤ h) (h2 : h ≤ hi) : CountryFact h r := by
  unfold countryOkB at hc
  cases hr : rangeFind lo hi blocks with
  | none => rw [hr] at hc; cases hc
  | some b =>
    rw [hr] at hc
    simp only [Bool.and_eq_true] at hc
    exact ⟨b, rangeFind_spec lo hi blocks b hr h h1 h2, hc.1, hc.2⟩

theorem catFind_mem (t : List Char) : ∀ (cs : List Category) (c : Category), catFind t cs = some c → c ∈ cs := by
  intro cs
  induction cs with
  | nil => intro c h; cases h
  | cons d ds ih =>
    intro c h
    unfold catFind at h
    split at h
    · cases h; simp
    · exact List.mem_cons_of_mem _ (ih c h)

/-! ### what each scheme lemma establishes -/

def Fact (h : Nat) (r : Reg) : Prop := wf r ∧ inv r = h ∧ CountryFact h r

/-- the scheme returns without panic, and whatever it returns satisfies `Fact` -/
def Good (h : Nat) (x : Outcome (Option Reg)) : Prop :=
  ∃ o, x = .ok o ∧ ∀ r, o = some r → Fact h r

theorem good_orElse {h : Nat} {a : Outcome (Option Reg)} {b : Unit → Outcome (Option Reg)}
    (ha : Good h a) (hb : Good h (b ())) : Good h (orElse a b) := by
  obtain ⟨o, rfl, ho⟩ := ha
  unfold orElse
  rw [Outcome.bind_ok]
  cases o with
  | some r => exact ⟨some r, rfl, ho⟩
  | none => exact hb

end Rs1090.Proofs.Tail
