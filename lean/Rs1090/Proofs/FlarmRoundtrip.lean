/-
C15 helper lemmas: a packet built by the Spec encoder decodes to the record of its own words.
-/
import Rs1090.Proofs.FlarmTotal
namespace Rs1090.Proofs.Flarm
open Rs1090 Rs1090.Model.Flarm Rs1090.Gen.Flarm

/-- the little-endian bytes of a word read back as that word -/
theorem le32_wordBytes (c : BitVec 32) :
    BitVec.ofNat 32 (le32 (c.toNat % 256) (c.toNat / 256 % 256) (c.toNat / 65536 % 256)
      (c.toNat / 16777216 % 256)) = c := by
  have h : c.toNat < 4294967296 := c.isLt
  have : le32 (c.toNat % 256) (c.toNat / 256 % 256) (c.toNat / 65536 % 256)
      (c.toNat / 16777216 % 256) = c.toNat := by
    unfold le32; omega
  rw [this, BitVec.ofNat_toNat, BitVec.setWidth_eq]

theorem readWords_wordBytes (c0 c1 c2 c3 c4 : BitVec 32) (tail : List Nat) :
    readWords 5 ([c0, c1, c2, c3, c4].flatMap Spec.Flarm.wordBytes ++ tail)
      = .ok ([c0, c1, c2, c3, c4], tail) := by
  simp only [List.flatMap_cons, List.flatMap_nil, Spec.Flarm.wordBytes, List.cons_append, List.nil_append,
    List.append_nil, readWords, Outcome.bind_ok, le32_wordBytes]

/-- the address entering the key, as the model computes it, is the Spec's -/
theorem keyAddr_eq (addr : Nat) :
    BitVec.ofNat 32 (((addr <<< ADDR_SHL) % 2 ^ 32) &&& ADDR_MASK) = Spec.Flarm.keyAddress addr := by
  have e : ((addr <<< ADDR_SHL) % 2 ^ 32) &&& ADDR_MASK = addr * 256 % 2 ^ 24 := by
    show ((addr <<< 8) % 2 ^ 32) &&& 16777215 = _
    rw [show (16777215 : Nat) = 2 ^ 24 - 1 from rfl, Nat.and_two_pow_sub_one_eq_mod, Nat.shiftLeft_eq,
      Nat.mod_mod_of_dvd _ (by decide)]
  rw [e]; rfl


theorem magic_build (b : Bool) : magicValue (if b then 0x10 else 0x20) = .ok b := by
  cases b <;> decide

/-- **Decoding a Spec-built packet yields the record of the Spec's own five words.** -/
theorem fromRecord_buildPacket (F : FloatOps) (ts : Nat) (hts : ts < 2 ^ 32)
    (f : Spec.Flarm.Fields) (haddr : f.addr < 2 ^ 24) (roundLat roundLon : Int)
    (hlat1 : -2147483648 ≤ roundLat) (hlat2 : roundLat < 2147483648)
    (hlon1 : -2147483648 ≤ roundLon) (hlon2 : roundLon < 2147483648)
    (t0 t1 : Nat) (extra : List Nat) :
    ∃ m, 0 ≤ m ∧ m ≤ 3 ∧ decodeMult (BitVec.ofNat 32 (Spec.Flarm.word2 f)).toNat = .ok m ∧
      fromRecord F ts true roundLat roundLon (Spec.Flarm.buildPacket ts f (t0 :: t1 :: extra))
        = .ok (recordOf F f.addr f.addrIsIcao roundLat roundLon
            (BitVec.ofNat 32 (Spec.Flarm.word0 f)) (BitVec.ofNat 32 (Spec.Flarm.word1 f))
            (BitVec.ofNat 32 (Spec.Flarm.word2 f)) (BitVec.ofNat 32 (Spec.Flarm.word3 f))
            (BitVec.ofNat 32 (Spec.Flarm.word4 f)) m) := by
  obtain ⟨m, hm, h0, h3⟩ := decodeMult_ok (BitVec.ofNat 32 (Spec.Flarm.word2 f)).toNat
  refine ⟨m, h0, h3, hm, ?_⟩
  -- the encrypted block is some five words
  have hkl : (Spec.Flarm.makeKey (BitVec.ofNat 32 ts) (Spec.Flarm.keyAddress f.addr)).length = 4 := by
    unfold Spec.Flarm.makeKey
    split <;> simp only [List.length_map, Spec.Flarm.table0, Spec.Flarm.table1, List.length_cons, List.length_nil]
  have hinv := btea_bteaEnc (Spec.Flarm.words f) _ rfl hkl
  obtain ⟨c0, c1, c2, c3, c4, hc⟩ : ∃ c0 c1 c2 c3 c4, Spec.Flarm.cipher ts f = [c0, c1, c2, c3, c4] := by
    unfold Spec.Flarm.cipher Spec.Flarm.bteaEnc Spec.Flarm.words
    simp only [List.length_cons, List.length_nil, Nat.reduceAdd, Nat.reduceLT, if_false, Nat.reduceSub,
      List.getD_cons_succ, List.getD_cons_zero]
    exact encRounds_shape _ _ _ _ _ _ _ _
  have haddr' : f.addr % 256 + 256 * (f.addr / 256 % 256) + 65536 * (f.addr / 65536 % 256) = f.addr := by
    omega
  have hkey : makeKey ts (((f.addr <<< ADDR_SHL) % 2 ^ 32) &&& ADDR_MASK)
      = Spec.Flarm.makeKey (BitVec.ofNat 32 ts) (Spec.Flarm.keyAddress f.addr) := by
    rw [makeKey_spec ts _ hts (Nat.lt_of_le_of_lt Nat.and_le_right (by decide)), keyAddr_eq]
  have hbtea : btea [c0, c1, c2, c3, c4] (Spec.Flarm.makeKey (BitVec.ofNat 32 ts) (Spec.Flarm.keyAddress f.addr))
      = .ok (Spec.Flarm.words f) := by
    rw [← hc]; exact hinv
  unfold Spec.Flarm.buildPacket
  rw [hc]
  simp only [fromRecord, Bool.not_true, Bool.false_eq_true, if_false, List.cons_append, List.nil_append,
    magic_build, Outcome.bind_ok, haddr', decodeBtea, hkey, readWords_wordBytes, hbtea, Spec.Flarm.words,
    fields_eq F f.addr f.addrIsIcao roundLat roundLon hlat1 hlat2 hlon1 hlon2 _ _ _ _ _ _ m hm h0 h3,
    List.length_cons]
  rw [if_neg (by omega), if_neg (by omega)]


/-! ### what the decoder's shifts and masks extract from the Spec's words -/

theorem b2n_le (b : Bool) : Spec.Flarm.b2n b ≤ 1 := by cases b <;> decide

theorem word0_lt (f : Spec.Flarm.Fields) (hf : f.WF) : Spec.Flarm.word0 f < 2 ^ 32 := by
  have := hf.vs; have := hf.spareA; have := hf.spareB; have := hf.gps; have := hf.actype
  have := b2n_le f.stealth; have := b2n_le f.noTrack
  unfold Spec.Flarm.word0; simp only [Nat.reducePow] at *; omega

theorem coordBits19_lt (x : Int) : Spec.Flarm.coordBits x 19 < 524288 := by
  unfold Spec.Flarm.coordBits; simp only [Int.reducePow]; omega

theorem coordBits20_lt (x : Int) : Spec.Flarm.coordBits x 20 < 1048576 := by
  unfold Spec.Flarm.coordBits; simp only [Int.reducePow]; omega

theorem word1_lt (f : Spec.Flarm.Fields) (hf : f.WF) : Spec.Flarm.word1 f < 2 ^ 32 := by
  have := hf.alt; have := coordBits19_lt f.latE7
  unfold Spec.Flarm.word1; simp only [Nat.reducePow] at *; omega

theorem word2_lt (f : Spec.Flarm.Fields) (hf : f.WF) : Spec.Flarm.word2 f < 2 ^ 32 := by
  have := hf.spareC; have := hf.factor; have := coordBits20_lt f.lonE7
  unfold Spec.Flarm.word2; simp only [Nat.reducePow] at *; omega

theorem bit_eq_b2n (x : Nat) (b : Bool) (h : x = Spec.Flarm.b2n b) : (x == 1) = b := by
  subst h; cases b <;> rfl

/-- word 0: type, flags, GPS status, vertical-speed bits -/
theorem word0_extract (f : Spec.Flarm.Fields) (hf : f.WF) :
    let w := (BitVec.ofNat 32 (Spec.Flarm.word0 f)).toNat
    (w >>> ACTYPE_SHR) &&& ACTYPE_MASK = f.actype ∧
    (((w >>> NOTRACK_SHR) &&& NOTRACK_MASK) == NOTRACK_VAL) = f.noTrack ∧
    (((w >>> STEALTH_SHR) &&& STEALTH_MASK) == STEALTH_VAL) = f.stealth ∧
    (w >>> GPS_SHR) &&& GPS_MASK = f.gps ∧
    w &&& VS_MASK = f.vs := by
  have h32 := word0_lt f hf
  have := hf.vs; have := hf.spareA; have := hf.spareB; have := hf.gps; have := hf.actype
  have := b2n_le f.stealth; have := b2n_le f.noTrack
  simp only [BitVec.toNat_ofNat, Nat.mod_eq_of_lt h32]
  show (Spec.Flarm.word0 f >>> 28) &&& (2 ^ 4 - 1) = f.actype ∧
    (((Spec.Flarm.word0 f >>> 14) &&& (2 ^ 1 - 1)) == 1) = f.noTrack ∧
    (((Spec.Flarm.word0 f >>> 13) &&& (2 ^ 1 - 1)) == 1) = f.stealth ∧
    (Spec.Flarm.word0 f >>> 16) &&& (2 ^ 12 - 1) = f.gps ∧
    Spec.Flarm.word0 f &&& (2 ^ 10 - 1) = f.vs
  simp only [Nat.and_two_pow_sub_one_eq_mod, Nat.shiftRight_eq_div_pow]
  unfold Spec.Flarm.word0 at *
  simp only [Nat.reducePow] at *
  refine ⟨by omega, bit_eq_b2n _ _ (by omega), bit_eq_b2n _ _ (by omega), by omega, by omega⟩

/-- word 1: altitude and the 19 transmitted latitude bits -/
theorem word1_extract (f : Spec.Flarm.Fields) (hf : f.WF) :
    let w := (BitVec.ofNat 32 (Spec.Flarm.word1 f)).toNat
    (w >>> ALT_SHR) &&& ALT_MASK = f.alt ∧ w % 524288 = Spec.Flarm.coordBits f.latE7 19 := by
  have h32 := word1_lt f hf
  have := hf.alt; have := coordBits19_lt f.latE7
  simp only [BitVec.toNat_ofNat, Nat.mod_eq_of_lt h32]
  show (Spec.Flarm.word1 f >>> 19) &&& (2 ^ 13 - 1) = f.alt ∧ _
  simp only [Nat.and_two_pow_sub_one_eq_mod, Nat.shiftRight_eq_div_pow]
  unfold Spec.Flarm.word1 at *
  simp only [Nat.reducePow] at *
  omega

/-- word 2: the 20 transmitted longitude bits -/
theorem word2_extract (f : Spec.Flarm.Fields) (hf : f.WF) :
    (BitVec.ofNat 32 (Spec.Flarm.word2 f)).toNat % 1048576 = Spec.Flarm.coordBits f.lonE7 20 := by
  have h32 := word2_lt f hf
  have := hf.spareC; have := hf.factor; have := coordBits20_lt f.lonE7
  simp only [BitVec.toNat_ofNat, Nat.mod_eq_of_lt h32]
  unfold Spec.Flarm.word2 at *
  simp only [Nat.reducePow] at *
  omega

/-! ### the decodable window -/

/-- Latitude: for **every** reference `r` (any `i32`) and true coordinate `q` (1e-7 degree, `i32`)
    whose 128-unit cells differ by less than 2^18 (from −2^18 up to 2^18 − 1), the decoder
    returns the centre of the true cell. -/
theorem lat_window (w1 : Nat) (q r : Int)
    (hw : w1 % 524288 = Spec.Flarm.coordBits q 19)
    (hq1 : -2147483648 ≤ q) (hq2 : q < 2147483648)
    (hwin1 : -262144 ≤ q / 128 - r / 128) (hwin2 : q / 128 - r / 128 < 262144) :
    wrapS32 ((fold19 (((w1 % 524288 : Nat) : Int) - r / 128) + r / 128) * 128) + 64
      = q / 128 * 128 + 64 := by
  rw [hw]
  unfold Spec.Flarm.coordBits fold19 wrapS32
  simp only [Int.reducePow]
  split <;> omega

theorem lon_window (w2 : Nat) (q r : Int)
    (hw : w2 % 1048576 = Spec.Flarm.coordBits q 20)
    (hq1 : -2147483648 ≤ q) (hq2 : q < 2147483648)
    (hwin1 : -524288 ≤ q / 128 - r / 128) (hwin2 : q / 128 - r / 128 < 524288) :
    wrapS32 ((fold20 (((w2 % 1048576 : Nat) : Int) - r / 128) + r / 128) * 128) + 64
      = q / 128 * 128 + 64 := by
  rw [hw]
  unfold Spec.Flarm.coordBits fold20 wrapS32
  simp only [Int.reducePow]
  split <;> omega

end Rs1090.Proofs.Flarm
