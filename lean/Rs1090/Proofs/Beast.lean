/-
Helper lemmas for C09: a pure, suffix-based view of the model of `next_msg`'s re-framing loop,
its equivalence with the checked model (`Model/Beast.lean`), termination, and stability of every
non-`break` iteration under extension of the buffer.
-/
import Rs1090.Model.Beast
namespace Rs1090.Proofs.Beast
open Rs1090 Rs1090.Model.Beast Rs1090.Gen.Beast

/-! ### Pure view -/

/-- the un-escape loop seen on the not yet scanned suffix `data[idx..]` -/
def scan (size : Nat) : Bytes → Bytes → Nat → Bytes × Nat
  | [], msg, i => (msg, i)
  | b :: rest, msg, i =>
    if msg.length < size then
      if b = 26 then
        match rest with
        | [] => (msg, i)
        | c :: rest' =>
          if c = 26 then scan size rest' (msg ++ [c]) (i + 1 + 1)
          else scan size (c :: rest') (msg ++ [b]) (i + 1)
      else scan size rest (msg ++ [b]) (i + 1)
    else (msg, i)

def size (t : Nat) : Nat :=
  if t = 49 then 11 else if t = 50 then 16 else if t = 51 then 23 else if t = 52 then 23 else 0

def valid (t : Nat) : Bool := decide (t = 49 ∨ t = 50 ∨ t = 51 ∨ t = 52)

/-- the iteration after the resync: `d` starts at the 0x1A and has at least 23 bytes -/
def iterTail (d : Bytes) : Iter :=
  let t := d.getD 1 0
  if valid t then
    let r := scan (size t) (d.drop 2) (d.take 2) 2
    if r.1.length < size t then .brk d
    else .cont (d.drop r.2) (if t ≠ 52 then some r.1 else none)
  else .cont (d.drop 1) none

def iter (d : Bytes) : Iter :=
  match position 26 d with
  | none => .brk d
  | some it => if (d.drop it).length < 23 then .brk (d.drop it) else iterTail (d.drop it)

def loop : Nat → Bytes → Bytes × List Bytes
  | 0, d => (d, [])
  | n + 1, d =>
    if d.length < 23 then (d, []) else
    match iter d with
    | .brk d' => (d', [])
    | .cont d' o => ((loop n d').1, o.toList ++ (loop n d').2)

/-- the while loop on a buffer: remaining buffer and frames handed on -/
def F (d : Bytes) : Bytes × List Bytes := loop (d.length + 1) d

/-- a sequence of reads -/
def run : Bytes → List Bytes → Bytes × List Bytes
  | buf, [] => (buf, [])
  | buf, c :: cs => ((run (F (buf ++ c)).1 cs).1, (F (buf ++ c)).2 ++ (run (F (buf ++ c)).1 cs).2)

/-! ### position -/

theorem position_lt {e : Nat} : ∀ {d : Bytes} {it}, position e d = some it → it < d.length := by
  intro d
  induction d with
  | nil => intro it h; simp [position] at h
  | cons b rest ih =>
    intro it h
    simp only [position] at h
    split at h
    · cases h; simp
    · cases hp : position e rest with
      | none => simp [hp] at h
      | some j =>
        simp [hp] at h
        have := ih hp
        simp; omega

theorem position_append_some {e : Nat} : ∀ {d : Bytes} {it} (x : Bytes),
    position e d = some it → position e (d ++ x) = some it := by
  intro d
  induction d with
  | nil => intro it x h; simp [position] at h
  | cons b rest ih =>
    intro it x h
    simp only [position, List.cons_append] at h ⊢
    split
    · rename_i hb; simp [hb] at h; exact congrArg some h
    · rename_i hb
      simp only [hb, if_false] at h
      cases hp : position e rest with
      | none => simp [hp] at h
      | some j => rw [ih x hp]; simpa [hp] using h

theorem position_head {e : Nat} {d : Bytes} {it} (h : position e d = some it) :
    ∃ rest, d.drop it = e :: rest := by
  induction d generalizing it with
  | nil => simp [position] at h
  | cons b rest ih =>
    simp only [position] at h
    split at h
    · rename_i hb; cases h; exact ⟨rest, by simp [hb]⟩
    · cases hp : position e rest with
      | none => simp [hp] at h
      | some j =>
        simp [hp] at h
        subst h
        obtain ⟨r, hr⟩ := ih hp
        exact ⟨r, by simpa using hr⟩

theorem position_cons_self (e : Nat) (rest : Bytes) : position e (e :: rest) = some 0 := by
  simp [position]

/-! ### scan -/

theorem scan_idx_le (sz : Nat) (rest msg : Bytes) (i : Nat) :
    (scan sz rest msg i).2 ≤ i + rest.length ∧ i ≤ (scan sz rest msg i).2 := by
  fun_induction scan sz rest msg i <;> simp_all <;> omega

theorem scan_nil (sz : Nat) (msg : Bytes) (i : Nat) : scan sz [] msg i = (msg, i) := by
  simp [scan]
theorem scan_full {sz : Nat} {msg : Bytes} (rest : Bytes) (i : Nat) (h : ¬ msg.length < sz) :
    scan sz rest msg i = (msg, i) := by
  cases rest with
  | nil => simp [scan]
  | cons b r => rw [scan.eq_def]; simp [h]
theorem scan_esc_end {sz : Nat} {msg : Bytes} (i : Nat) (h : msg.length < sz) :
    scan sz [26] msg i = (msg, i) := by
  rw [scan.eq_def]; simp [h]
theorem scan_esc_esc {sz : Nat} {msg : Bytes} (r : Bytes) (i : Nat) (h : msg.length < sz) :
    scan sz (26 :: 26 :: r) msg i = scan sz r (msg ++ [26]) (i + 1 + 1) := by
  rw [scan.eq_def]; simp [h]
theorem scan_esc_other {sz : Nat} {msg : Bytes} {c : Nat} (r : Bytes) (i : Nat) (h : msg.length < sz)
    (hc : ¬ c = 26) : scan sz (26 :: c :: r) msg i = scan sz (c :: r) (msg ++ [26]) (i + 1) := by
  rw [scan.eq_def]; simp [h, hc]
theorem scan_plain {sz : Nat} {msg : Bytes} {b : Nat} (r : Bytes) (i : Nat) (h : msg.length < sz)
    (hb : ¬ b = 26) : scan sz (b :: r) msg i = scan sz r (msg ++ [b]) (i + 1) := by
  rw [scan.eq_def]; simp [h, hb]

/-- a scan that filled the message does not look at bytes appended later -/
theorem scan_complete_append (sz : Nat) (rest msg : Bytes) (i : Nat) (x : Bytes)
    (h : sz ≤ (scan sz rest msg i).1.length) :
    scan sz (rest ++ x) msg i = scan sz rest msg i := by
  fun_induction scan sz rest msg i with
  | case1 msg i => exact scan_full _ _ (by simp at h; omega)
  | case2 msg i hlt => simp at h; omega
  | case3 msg i hlt r ih => simp only [List.cons_append]; rw [scan_esc_esc _ _ hlt]; exact ih h
  | case4 msg i hlt c r hc ih =>
    simp only [List.cons_append] at ih ⊢; rw [scan_esc_other _ _ hlt hc]; exact ih h
  | case5 b r msg i hlt hb ih => simp only [List.cons_append]; rw [scan_plain _ _ hlt hb]; exact ih h
  | case6 b r msg i hlt => exact scan_full _ _ hlt

/-- the message only grows -/
theorem scan_msg_le (sz : Nat) (rest msg : Bytes) (i : Nat) :
    msg.length ≤ (scan sz rest msg i).1.length := by
  fun_induction scan sz rest msg i <;> simp_all <;> omega

/-! ### The checked model computes the pure view: no panic, enough fuel -/

theorem drop_eq_cons {d : Bytes} {i b : Nat} {rest : Bytes} (h : d.drop i = b :: rest) :
    d[i]? = some b ∧ d.drop (i + 1) = rest ∧ i < d.length := by
  have h1 : (d.drop i)[0]? = some b := by rw [h]; rfl
  rw [List.getElem?_drop] at h1
  have h2 : (d.drop i).drop 1 = rest := by rw [h]; rfl
  rw [List.drop_drop] at h2
  refine ⟨by simpa using h1, by simpa [Nat.add_comm] using h2, ?_⟩
  rcases Nat.lt_or_ge i d.length with hc | hc
  · exact hc
  · rw [List.drop_eq_nil_of_le hc] at h
    cases h

theorem idx_ok {d : Bytes} {i b : Nat} (h : d[i]? = some b) : idx d i = .ok b := by
  simp [idx, h]

theorem scanO_eq (sz : Nat) (data : Bytes) : ∀ (fuel : Nat) (msg : Bytes) (i : Nat),
    i ≤ data.length → data.length - i < fuel →
    scanO sz data fuel msg i = .ok (scan sz (data.drop i) msg i) := by
  intro fuel
  induction fuel with
  | zero => intro msg i _ h; omega
  | succ fuel ih =>
    intro msg i hi hf
    rw [scanO]
    cases hd : data.drop i with
    | nil =>
      have : data.length ≤ i := List.drop_eq_nil_iff.mp hd
      rw [if_neg (by omega), scan_nil]
    | cons b rest =>
      obtain ⟨hb, hr, hlt⟩ := drop_eq_cons hd
      by_cases hm : msg.length < sz
      · rw [if_pos ⟨hm, hlt⟩, idx_ok hb, Outcome.bind_ok]
        by_cases hb26 : b = 26
        · subst hb26
          rw [if_pos (by rfl)]
          cases rest with
          | nil =>
            have : data[i + 1]? = none := by
              have := List.drop_eq_nil_iff.mp hr
              exact List.getElem?_eq_none this
            rw [this, scan_esc_end _ hm]
          | cons c rest' =>
            obtain ⟨hc, hr', hlt'⟩ := drop_eq_cons hr
            rw [hc]
            simp only
            by_cases hc26 : c = 26
            · subst hc26
              rw [if_pos (by rfl), idx_ok hc, Outcome.bind_ok, ih _ _ (by omega) (by omega), hr',
                scan_esc_esc _ _ hm]
            · rw [if_neg (by simpa [ESC_NEXT] using hc26), ih _ _ (by omega) (by omega), hr,
                scan_esc_other _ _ hm hc26]
        · rw [if_neg (by simpa [ESC_DATA] using hb26), ih _ _ (by omega) (by omega), hr,
            scan_plain _ _ hm hb26]
      · rw [if_neg (by intro h; exact hm h.1), scan_full _ _ hm]

theorem msgSize_eq (t : Nat) : msgSize t = size t := rfl

theorem valid_eq (t : Nat) : VALID_TYPES.contains t = valid t := by
  simp [VALID_TYPES, valid]

theorem iterO_eq (d : Bytes) : iterO d = .ok (iter d) := by
  unfold iterO iter
  show (match position 26 d with
    | none => _
    | some it => _) = _
  cases hp : position 26 d with
  | none => rfl
  | some it =>
    have hit := position_lt hp
    simp only
    rw [splitOff, if_pos (Nat.le_of_lt hit), Outcome.bind_ok]
    generalize d.drop it = e
    by_cases he : e.length < 23
    · rw [if_pos (by simpa [LOOKAHEAD_RESYNC] using he), if_pos he]
    · rw [if_neg (by simpa [LOOKAHEAD_RESYNC] using he), if_neg he]
      have he' : 23 ≤ e.length := Nat.le_of_not_lt he
      have h1 : e[1]? = some (e.getD 1 0) := by
        rw [List.getD_eq_getElem?_getD, List.getElem?_eq_getElem (by omega)]; rfl
      rw [show TYPE_INDEX = 1 from rfl, idx_ok h1, Outcome.bind_ok, valid_eq]
      unfold iterTail
      simp only
      generalize e.getD 1 0 = t
      cases hv : valid t with
      | false =>
        simp only [Bool.false_eq_true, if_false]
        rw [splitOff, if_pos (by simp [RESYNC_SKIP]; omega), Outcome.bind_ok]
        rfl
      | true =>
        simp only [if_true]
        rw [sliceTo, if_pos (by simp [HEADER_LEN]; omega), Outcome.bind_ok, msgSize_eq,
          show SCAN_START = 2 from rfl, show HEADER_LEN = 2 from rfl,
          scanO_eq _ _ _ _ _ (by omega) (by omega), Outcome.bind_ok]
        have hle := (scan_idx_le (size t) (e.drop 2) (e.take 2) 2).1
        generalize scan (size t) (e.drop 2) (e.take 2) 2 = r at hle ⊢
        obtain ⟨m, j⟩ := r
        simp only
        by_cases hm : m.length < size t
        · rw [if_pos hm, if_pos hm]
        · rw [if_neg hm, if_neg hm, drainTo, if_pos (by simp at hle; omega), Outcome.bind_ok]
          rfl

/-! ### Termination: an iteration that does not `break` strictly shortens the buffer -/

theorem iterTail_cont {e d' : Bytes} {o : Option Bytes} (h : iterTail e = .cont d' o) (he : 2 ≤ e.length) :
    ∃ j, 0 < j ∧ j ≤ e.length ∧ d' = e.drop j := by
  unfold iterTail at h
  simp only at h
  split at h
  · split at h
    · cases h
    · have h2 := scan_idx_le (size (e.getD 1 0)) (e.drop 2) (e.take 2) 2
      injection h with h _
      rw [List.length_drop] at h2
      exact ⟨_, by omega, by omega, h.symm⟩
  · injection h with h _
    exact ⟨1, by omega, by omega, h.symm⟩

theorem iter_cases (d : Bytes) :
    (position 26 d = none ∧ iter d = .brk d) ∨
    (∃ it, position 26 d = some it ∧ (d.drop it).length < 23 ∧ iter d = .brk (d.drop it)) ∨
    (∃ it, position 26 d = some it ∧ 23 ≤ (d.drop it).length ∧ iter d = iterTail (d.drop it)) := by
  unfold iter
  cases hp : position 26 d with
  | none => exact .inl ⟨rfl, rfl⟩
  | some it =>
    by_cases h : (d.drop it).length < 23
    · exact .inr (.inl ⟨it, rfl, h, by simp only; rw [if_pos h]⟩)
    · exact .inr (.inr ⟨it, rfl, Nat.le_of_not_lt h, by simp only; rw [if_neg h]⟩)

theorem iter_cont_lt {d d' : Bytes} {o : Option Bytes} (h : iter d = .cont d' o) :
    d'.length < d.length := by
  rcases iter_cases d with ⟨_, h1⟩ | ⟨it, _, _, h1⟩ | ⟨it, hp, h23, h1⟩
  · rw [h1] at h; cases h
  · rw [h1] at h; cases h
  · rw [h1] at h
    obtain ⟨j, hj0, hj, rfl⟩ := iterTail_cont h (by omega)
    simp at h23 ⊢
    omega

/-- the same statement about the checked model -/
theorem iterO_cont_lt {d d' : Bytes} {o : Option Bytes} (h : iterO d = .ok (.cont d' o)) :
    d'.length < d.length := by
  rw [iterO_eq] at h
  injection h with h
  exact iter_cont_lt h

/-! ### The while loop -/

theorem loop_fuel (n m : Nat) : ∀ (d : Bytes), d.length < n → d.length < m → loop n d = loop m d := by
  induction n generalizing m with
  | zero => intro d h; omega
  | succ n ih =>
    intro d hn hm
    cases m with
    | zero => omega
    | succ m =>
      rw [loop, loop]
      split
      · rfl
      · cases hi : iter d with
        | brk d' => rfl
        | cont d' o =>
          have := iter_cont_lt hi
          simp only
          rw [ih m d' (by omega) (by omega)]

theorem F_unfold (d : Bytes) :
    F d = if d.length < 23 then (d, []) else
      match iter d with
      | .brk d' => (d', [])
      | .cont d' o => ((F d').1, o.toList ++ (F d').2) := by
  unfold F
  rw [loop]
  split
  · rfl
  · cases hi : iter d with
    | brk d' => rfl
    | cont d' o =>
      have := iter_cont_lt hi
      simp only
      rw [loop_fuel (d.length) (d'.length + 1) d' (by omega) (by omega)]

theorem F_short {d : Bytes} (h : d.length < 23) : F d = (d, []) := by
  rw [F_unfold, if_pos h]

theorem loopO_eq : ∀ (fuel : Nat) (d : Bytes) (acc : List Bytes), d.length < fuel →
    loopO fuel d acc = .ok ((loop fuel d).1, acc ++ (loop fuel d).2) := by
  intro fuel
  induction fuel with
  | zero => intro d acc h; omega
  | succ fuel ih =>
    intro d acc h
    rw [loopO, loop]
    by_cases h23 : d.length < 23
    · rw [if_neg (by simpa [LOOKAHEAD] using h23), if_pos h23]; simp
    · rw [if_pos (by simpa [LOOKAHEAD] using h23), if_neg h23, iterO_eq, Outcome.bind_ok]
      cases hi : iter d with
      | brk d' => simp
      | cont d' o =>
        have := iter_cont_lt hi
        simp only
        rw [ih d' _ (by omega)]
        simp [List.append_assoc]

theorem stepO_eq (buf chunk : Bytes) : stepO buf chunk = .ok (F (buf ++ chunk)) := by
  unfold stepO F
  simp only
  rw [loopO_eq _ _ _ (by omega)]
  simp

theorem runO_eq : ∀ (cs : List Bytes) (buf : Bytes) (acc : List Bytes),
    runO buf cs acc = .ok ((run buf cs).1, acc ++ (run buf cs).2) := by
  intro cs
  induction cs with
  | nil => intro buf acc; simp [runO, run]
  | cons c cs ih =>
    intro buf acc
    rw [runO, stepO_eq, Outcome.bind_ok]
    simp only
    rw [ih, run]
    simp [List.append_assoc]

/-! ### Stability under extension of the buffer (the heart of chunk independence) -/

theorem iter_of_head {r : Bytes} (h : 23 ≤ (26 :: r).length) : iter (26 :: r) = iterTail (26 :: r) := by
  unfold iter
  rw [position_cons_self]
  simp only [List.drop_zero]
  rw [if_neg (by omega)]

/-- dropping the bytes before the first 0x1A first makes no difference -/
theorem F_dropGarbage {d : Bytes} {it : Nat} (hp : position 26 d = some it) (hd : 23 ≤ d.length) :
    F d = F (d.drop it) := by
  obtain ⟨r, hr⟩ := position_head hp
  have hi : iter d = if (d.drop it).length < 23 then .brk (d.drop it) else iterTail (d.drop it) := by
    unfold iter; rw [hp]
  rw [F_unfold d, if_neg (by omega), hi]
  by_cases h : (d.drop it).length < 23
  · rw [if_pos h, F_short h]
  · rw [if_neg h, F_unfold (d.drop it), if_neg h, hr, iter_of_head (by rw [← hr]; omega)]

theorem iterTail_brk {e d' : Bytes} (h : iterTail e = .brk d') : d' = e := by
  unfold iterTail at h
  simp only at h
  split at h
  · split at h
    · injection h with h; exact h.symm
    · cases h
  · cases h

theorem iter_brk_cases {d d' : Bytes} (h : iter d = .brk d') :
    d' = d ∨ ∃ it, position 26 d = some it ∧ d' = d.drop it := by
  rcases iter_cases d with ⟨_, h1⟩ | ⟨it, hp, _, h1⟩ | ⟨it, hp, _, h1⟩
  · rw [h1] at h; injection h with h; exact .inl h.symm
  · rw [h1] at h; injection h with h; exact .inr ⟨it, hp, h.symm⟩
  · rw [h1] at h; exact .inr ⟨it, hp, iterTail_brk h⟩

theorem iter_brk_append {d d' : Bytes} (x : Bytes) (h : iter d = .brk d') (hd : 23 ≤ d.length) :
    F (d ++ x) = F (d' ++ x) := by
  rcases iter_brk_cases h with rfl | ⟨it, hp, rfl⟩
  · rfl
  · have hit := position_lt hp
    rw [F_dropGarbage (position_append_some x hp) (by simp; omega),
      List.drop_append_of_le_length (Nat.le_of_lt hit)]

theorem iterTail_cont_append {e d' : Bytes} {o : Option Bytes} (x : Bytes)
    (h : iterTail e = .cont d' o) (he : 2 ≤ e.length) : iterTail (e ++ x) = .cont (d' ++ x) o := by
  unfold iterTail at h ⊢
  simp only at h ⊢
  have ht : (e ++ x).getD 1 0 = e.getD 1 0 := by
    rw [List.getD_eq_getElem?_getD, List.getD_eq_getElem?_getD, List.getElem?_append_left (by omega)]
  rw [ht, List.take_append_of_le_length he, List.drop_append_of_le_length he]
  split at h
  · rename_i hv
    rw [if_pos hv]
    split at h
    · cases h
    · rename_i hc
      have hc' : size (e.getD 1 0) ≤ (scan (size (e.getD 1 0)) (e.drop 2) (e.take 2) 2).1.length :=
        Nat.le_of_not_lt hc
      rw [scan_complete_append _ _ _ _ x hc', if_neg hc]
      have h2 := (scan_idx_le (size (e.getD 1 0)) (e.drop 2) (e.take 2) 2).1
      rw [List.length_drop] at h2
      rw [List.drop_append_of_le_length (by omega)]
      injection h with h1 h2
      rw [h1, h2]
  · rename_i hv
    rw [if_neg hv, List.drop_append_of_le_length (by omega)]
    injection h with h1 h2
    rw [h1, h2]

theorem iter_cont_append {d d' : Bytes} {o : Option Bytes} (x : Bytes) (h : iter d = .cont d' o) :
    iter (d ++ x) = .cont (d' ++ x) o := by
  rcases iter_cases d with ⟨_, h1⟩ | ⟨it, _, _, h1⟩ | ⟨it, hp, h23, h1⟩
  · rw [h1] at h; cases h
  · rw [h1] at h; cases h
  · rw [h1] at h
    have hit := position_lt hp
    unfold iter
    rw [position_append_some x hp]
    simp only
    rw [List.drop_append_of_le_length (Nat.le_of_lt hit), if_neg (by simp at h23 ⊢; omega)]
    exact iterTail_cont_append x h (by omega)

/-- **Prefix stability.**  Running the loop on `d ++ x` is running it on `d` and then, with what is
    left, on the rest: frames add up, the final buffer is the same. -/
theorem F_append (x : Bytes) : ∀ (n : Nat) (d : Bytes), d.length < n →
    F (d ++ x) = ((F ((F d).1 ++ x)).1, (F d).2 ++ (F ((F d).1 ++ x)).2) := by
  intro n
  induction n with
  | zero => intro d h; omega
  | succ n ih =>
    intro d hn
    by_cases h23 : d.length < 23
    · rw [F_short h23]; rfl
    · rw [F_unfold d, if_neg h23]
      cases hi : iter d with
      | brk d' =>
        simp only
        rw [iter_brk_append x hi (Nat.le_of_not_lt h23)]
        rfl
      | cont d' o =>
        have hlt := iter_cont_lt hi
        simp only
        rw [F_unfold (d ++ x), if_neg (by simp; omega), iter_cont_append x hi]
        simp only
        rw [ih d' (by omega)]
        simp [List.append_assoc]

theorem F_idem (d : Bytes) : F (F d).1 = ((F d).1, []) := by
  have h := F_append [] (d.length + 1) d (by omega)
  simp only [List.append_nil] at h
  have h1 := congrArg Prod.fst h
  have h2 := congrArg Prod.snd h
  simp only at h1 h2
  have h3 : (F (F d).1).2 = [] := by
    have := congrArg List.length h2
    rw [List.length_append] at this
    exact List.eq_nil_of_length_eq_zero (by omega)
  exact Prod.ext h1.symm h3

/-- any sequence of reads = one read of the concatenation (from a buffer the loop has left behind) -/
theorem run_eq_F : ∀ (cs : List Bytes) (buf : Bytes), F buf = (buf, []) →
    run buf cs = F (buf ++ cs.flatten) := by
  intro cs
  induction cs with
  | nil => intro buf h; simp [run, h]
  | cons c cs ih =>
    intro buf _
    rw [run, ih _ (F_idem _), List.flatten_cons, ← List.append_assoc,
      F_append cs.flatten ((buf ++ c).length + 1) (buf ++ c) (by omega)]

theorem F_nil : F [] = ([], []) := F_short (by simp)

end Rs1090.Proofs.Beast
