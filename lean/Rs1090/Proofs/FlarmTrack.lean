/-
C15 helper lemmas: the track estimate lies in [0, 360), on exact rationals, for arbitrary
`sqrt` / `atan2`.
-/
import Rs1090.Model.Flarm
import Mathlib.Data.Rat.Floor
import Mathlib.Tactic.Linarith
namespace Rs1090.Proofs.Flarm
open Rs1090 Rs1090.Model.Flarm Rs1090.Gen.Flarm

/-- `rem_euclid` by a positive modulus lands in `[0, m)` -/
theorem remEuclid_range (x m : Rat) (hm : 0 < m) : 0 ≤ remEuclid x m ∧ remEuclid x m < m := by
  unfold remEuclid
  have h1 : ((x / m).floor : Rat) ≤ x / m := Rat.floor_le _
  have h2 : x / m < (((x / m).floor + 1 : Int) : Rat) := Rat.lt_floor_add_one _
  rw [le_div_iff₀ hm] at h1
  rw [div_lt_iff₀ hm] at h2
  push_cast at h2
  constructor <;> nlinarith

/-- **track ∈ [0, 360)** for the repaired `decode_track`, whatever `track4`, `track8` are -/
theorem wrapTrack_range (t4 t8 : Rat) : 0 ≤ wrapTrack t4 t8 ∧ wrapTrack t4 t8 < 360 := by
  unfold wrapTrack
  simp only [WRAP_FULL, WRAP_CORNER, WRAP_CORNER_VALUE, Nat.cast_ofNat, Nat.cast_zero]
  have h := remEuclid_range (t4 - (EXTRAP_MUL : Rat) * turningRate t4 t8 / (EXTRAP_DIV : Rat)) 360 (by norm_num)
  split
  · constructor <;> norm_num
  · exact h

/-- the formula before the repair (`track4 − turning_rate`) does leave the range -/
theorem unrepaired_track_leaves_range :
    (10 : Rat) - turningRate 10 100 < 0 ∧ (350 : Rat) - turningRate 350 260 ≥ 360 := by
  decide +kernel


/-- the divisor of the track closure is positive for a non-negative speed -/
theorem trackDivisor_pos (v : Rat) : 0 < trackDivisor v := by
  unfold trackDivisor
  simp only [V_EPS_NUM, V_EPS_DEN, V_FLOOR, Nat.cast_ofNat, Nat.cast_one]
  split
  · norm_num
  · rename_i h
    have : (1 : Rat) / 1000000 ≤ v := not_lt.mp h
    have : (0 : Rat) < 1 / 1000000 := by norm_num
    linarith

end Rs1090.Proofs.Flarm
