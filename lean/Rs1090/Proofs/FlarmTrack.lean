/-
C15 helper lemmas: the track estimate lies in [0, 360), on exact rationals, for arbitrary
`sqrt` / `atan2`.
-/
import Rs1090.Model.Flarm
import Mathlib.Data.Rat.Floor
import Mathlib.Tactic.Linarith
namespace Rs1090.Proofs.Flarm
open Rs1090 Rs1090.Model.Flarm Rs1090.Gen.Flarm

/-- `rem_euclid` by a positive modulus lands in `[0, m)` -/
theorem remEuclid_range (x m : Rat) (hm : 0 < m) : 0 ≤ remEuclid x m ∧ remEuclid x m < m := by
  unfold remEuclid
  have h1 : ((x / m).floor : Rat) ≤ x / m := Rat.floor_le _
  have h2 : x / m < (((x / m).floor + 1 : Int) : Rat) := Rat.lt_floor_add_one _
  rw [le_div_iff₀ hm] at h1
  rw [div_lt_iff₀ hm] at h2
  push_cast at h2
  constructor <;> nlinarith

/-- **track ∈ [0, 360)** for the repaired `decode_track`, whatever `track4`, `track8` are -/
theorem wrapTrack_range (t4 t8 : Rat) : 0 ≤ wrapTrack t4 t8 ∧ wrapTrack t4 t8 < 360 := by
  unfold wrapTrack
  simp only [WRAP_FULL, WRAP_CORNER, WRAP_CORNER_VALUE, Nat.cast_ofNat, Nat.cast_zero]
  have h := remEuclid_range (t4 - (EXTRAP_MUL : Rat) * turningRate t4 t8 / (EXTRAP_DIV : Rat)) 360 (by norm_num)
  split
  · constructor <;> norm_num
  · exact h

/-- On exact numbers the corner arm of `wrapTrack` is never taken: the range does not rely on it. -/
theorem wrapTrack_arm_dead (t4 t8 : Rat) :
    wrapTrack t4 t8 =
      remEuclid (t4 - (EXTRAP_MUL : Rat) * turningRate t4 t8 / (EXTRAP_DIV : Rat)) 360 := by
  unfold wrapTrack
  simp only [WRAP_FULL, WRAP_CORNER, WRAP_CORNER_VALUE, Nat.cast_ofNat, Nat.cast_zero]
  have h := remEuclid_range (t4 - (EXTRAP_MUL : Rat) * turningRate t4 t8 / (EXTRAP_DIV : Rat)) 360 (by norm_num)
  rw [if_neg (not_le.mpr h.2)]

/-- the truncated remainder lies strictly between `-m` and `m` -/
theorem fmodPos_range (x m : Rat) (hm : 0 < m) : -m < fmodPos x m ∧ fmodPos x m < m := by
  unfold fmodPos
  split
  · have := remEuclid_range x m hm
    constructor <;> linarith [this.1, this.2]
  · have := remEuclid_range (-x) m hm
    constructor <;> linarith [this.1, this.2]

/-- a rounded `rem_euclid` lands in the CLOSED interval `[0, m]` for every monotone rounding that
    fixes `0` and `m` -/
theorem remEuclidR_range (rnd : Rat → Rat) (hmono : ∀ a b, a ≤ b → rnd a ≤ rnd b)
    (x m : Rat) (hm : 0 < m) (h0 : rnd 0 = 0) (hmm : rnd m = m) :
    0 ≤ remEuclidR rnd x m ∧ remEuclidR rnd x m ≤ m := by
  unfold remEuclidR
  have h := fmodPos_range x m hm
  simp only
  split
  · rename_i hneg
    constructor
    · have := hmono 0 (fmodPos x m + m) (by linarith [h.1])
      rw [h0] at this; exact this
    · have := hmono (fmodPos x m + m) m (by linarith)
      rw [hmm] at this; exact this
  · rename_i hpos
    exact ⟨not_lt.mp hpos, le_of_lt h.2⟩

/-- with the corner arm the rounded wrap is in `[0, 360)` -/
theorem wrapR_range (rnd : Rat → Rat) (hmono : ∀ a b, a ≤ b → rnd a ≤ rnd b)
    (h0 : rnd 0 = 0) (h360 : rnd 360 = 360) (t : Rat) : 0 ≤ wrapR rnd t ∧ wrapR rnd t < 360 := by
  unfold wrapR
  simp only [WRAP_FULL, WRAP_CORNER, WRAP_CORNER_VALUE, Nat.cast_ofNat, Nat.cast_zero]
  have h := remEuclidR_range rnd hmono t 360 (by norm_num) h0 h360
  split
  · constructor <;> norm_num
  · rename_i hlt
    exact ⟨h.1, not_le.mp hlt⟩

/-- a monotone rounding fixing 0 and 360 (everything above 359 goes up to 360) -/
def coarse (x : Rat) : Rat := if 359 < x then max x 360 else x

theorem coarse_mono (a b : Rat) (h : a ≤ b) : coarse a ≤ coarse b := by
  unfold coarse
  split <;> split
  · exact max_le_max h (le_refl _)
  · rename_i h1 h2; exact absurd (lt_of_lt_of_le h1 h) h2
  · rename_i h1 h2
    exact le_trans h (le_max_left _ _)
  · exact h

/-- … under which the rounded `rem_euclid` of a tiny negative angle IS 360: without the arm the
    range `[0, 360)` would be left. -/
theorem remEuclidR_reaches_corner :
    coarse 0 = 0 ∧ coarse 360 = 360 ∧ remEuclidR coarse (-1 / 2) 360 = 360 ∧ wrapR coarse (-1 / 2) = 0 := by
  decide +kernel

/-- the formula before the repair (`track4 − turning_rate`) does leave the range -/
theorem unrepaired_track_leaves_range :
    (10 : Rat) - turningRate 10 100 < 0 ∧ (350 : Rat) - turningRate 350 260 ≥ 360 := by
  decide +kernel


/-- the divisor of the track closure is positive for a non-negative speed -/
theorem trackDivisor_pos (v : Rat) : 0 < trackDivisor v := by
  unfold trackDivisor
  simp only [V_EPS_NUM, V_EPS_DEN, V_FLOOR, Nat.cast_ofNat, Nat.cast_one]
  split
  · norm_num
  · rename_i h
    have : (1 : Rat) / 1000000 ≤ v := not_lt.mp h
    have : (0 : Rat) < 1 / 1000000 := by norm_num
    linarith

end Rs1090.Proofs.Flarm
