/-
Helper lemmas for C10: the model refines the abstract specification (Spec/Dedup.lean); the panic
sites of the loop are unreachable; the fuel of the expiry loop is irrelevant.
-/
import Rs1090.Proofs.DedupRun
namespace Rs1090.Dedup
open Rs1090.Spec.Dedup (firstT closes WellFormed members recordOf records before insertBy sortBy)

/-! ### the model refines the abstract specification -/

theorem before_eq (g h : Group) : before g h = keyLt (keyOf 0 g) (keyOf 0 h) :=
  (keyLt_keyOf 0 g h).symm

theorem insertBy_perm (g : Group) : ∀ hs : List Group, (insertBy g hs).Perm (g :: hs)
  | [] => List.Perm.refl _
  | h :: hs => by
    simp only [insertBy]
    split
    · exact ((insertBy_perm g hs).cons h).trans (List.Perm.swap g h hs)
    · exact List.Perm.refl _

theorem sortBy_perm : ∀ gs : List Group, (sortBy gs).Perm gs
  | [] => List.Perm.refl _
  | g :: gs => (insertBy_perm g (sortBy gs)).trans ((sortBy_perm gs).cons g)

/-- weakly sorted: no later element is strictly before an earlier one -/
def Sorted (gs : List Group) : Prop := gs.Pairwise (fun g h => before h g = false)

theorem insertBy_sorted (g : Group) : ∀ hs : List Group, Sorted hs → Sorted (insertBy g hs)
  | [], _ => by simp [insertBy, Sorted]
  | h :: hs, hso => by
    have hso' := List.pairwise_cons.mp hso
    simp only [insertBy]
    split
    · rename_i hb
      refine List.pairwise_cons.mpr ⟨?_, insertBy_sorted g hs hso'.2⟩
      intro y hy
      have := (insertBy_perm g hs).subset hy
      simp only [List.mem_cons] at this
      rcases this with rfl | hy
      · rw [before_eq] at hb ⊢; exact keyLt_asymm hb
      · exact hso'.1 y hy
    · rename_i hb
      have hb' : before h g = false := by simpa using hb
      refine List.pairwise_cons.mpr ⟨?_, hso⟩
      intro y hy
      simp only [List.mem_cons] at hy
      rcases hy with rfl | hy
      · exact hb'
      · have h1 := hso'.1 y hy
        rw [before_eq] at h1 hb' ⊢
        cases h2 : keyLt (keyOf 0 y) (keyOf 0 g)
        · rfl
        · have := keyLt_of_lt_of_not_lt h2 hb'
          rw [h1] at this; cases this

theorem sortBy_sorted : ∀ gs : List Group, Sorted (sortBy gs)
  | [] => by simp [sortBy, Sorted]
  | g :: gs => insertBy_sorted g _ (sortBy_sorted gs)

/-- a strictly sorted list and a weakly sorted list with the same elements are equal -/
theorem sorted_unique : ∀ {l1 l2 : List Group}, l1.Perm l2 →
    l1.Pairwise (fun g h => before g h = true) → Sorted l2 → l1 = l2
  | [], l2, hp, _, _ => hp.nil_eq
  | x :: xs, [], hp, _, _ => by simpa using hp.length_eq
  | x :: xs, y :: ys, hp, h1, h2 => by
    have h1' := List.pairwise_cons.mp h1
    have h2' := List.pairwise_cons.mp h2
    by_cases e : x = y
    · subst e
      rw [sorted_unique hp.cons_inv h1'.2 h2'.2]
    · exfalso
      have hx : x ∈ ys := by
        have := hp.subset (List.mem_cons_self)
        simp only [List.mem_cons] at this
        rcases this with h | h
        · exact absurd h e
        · exact h
      have hy : y ∈ xs := by
        have := hp.symm.subset (List.mem_cons_self)
        simp only [List.mem_cons] at this
        rcases this with h | h
        · exact absurd h.symm e
        · exact h
      have := h1'.1 y hy
      rw [h2'.1 x hx] at this
      cases this

/-- One arrival: the model's cache and closed groups are those of the specification. -/
theorem stepG_refines {w : Nat} {s : State} (a : Arrival) (hinv : Inv w s) :
    ((stepG w s a).1.cache, (stepG w s a).2) = Spec.Dedup.stepG w s.cache a := by
  have hsp := stepG_spec a hinv
  simp only [Spec.Dedup.stepG, ← push_eq_join]
  refine Prod.ext hsp.2.1 ?_
  simp only
  have hperm : (stepG w s a).2.Perm ((push s.cache a).filter (closes w a.t)) := by
    have h1 := hsp.2.2.1
    rw [hsp.2.1] at h1
    have h2 := List.filter_append_perm (closes w a.t) (push s.cache a)
    exact (List.perm_append_right_iff _).mp (h1.trans h2.symm)
  refine sorted_unique (hperm.trans (sortBy_perm _).symm) ?_ (sortBy_sorted _)
  exact hsp.2.2.2.2.imp (by intro g h hk; rwa [keyLt_keyOf] at hk)

theorem runG_refines {w : Nat} : ∀ (hist : List Arrival) {s : State}, Inv w s →
    ((runG w s hist).1.cache, (runG w s hist).2) = Spec.Dedup.runG w s.cache hist
  | [], _, _ => rfl
  | a :: as, s, hinv => by
    have h1 := stepG_refines a hinv
    have h2 := runG_refines as (stepG_spec a hinv).1
    simp only [runG, Spec.Dedup.runG, ← h1, ← h2]



/-! ### panic sites and fuel -/

/-- popping the heap under the invariant: the popped frame has a non-empty group in the cache, and
    removing both keeps the invariant -/
theorem inv_pop {w : Nat} {c : Cache} {h h' : Heap} {k : Key} (hinv : Inv w ⟨c, h⟩)
    (hp : popMin h = some (k, h')) :
    ∃ m ms c', remove c k.2 = some (m :: ms, c') ∧ Inv w ⟨c', h'⟩ := by
  obtain ⟨hk, rfl, _⟩ := popMin_some hp
  have hkm : k ∈ c.map (keyOf w) := hinv.heap.mem_iff.mp hk
  obtain ⟨g, hg, hgk⟩ := List.mem_map.mp hkm
  have hkeys : k.2 ∈ keys c := List.mem_map.mpr ⟨g, hg, by rw [← hgk]; rfl⟩
  obtain ⟨l, ms, r, hc, hl⟩ := split_first hkeys
  have hg' : g = (k.2, ms) :=
    eq_of_key_eq hinv.nodup hg (by rw [hc]; simp) (by rw [← hgk]; rfl)
  subst hc
  have hkey : keyOf w (k.2, ms) = k := by rw [← hg']; exact hgk
  have hne : ms ≠ [] := (hinv.wf (k.2, ms) (by simp)).1
  cases ms with
  | nil => exact absurd rfl hne
  | cons m ms =>
    refine ⟨m, ms, l ++ r, remove_split l hl, ?_, ?_, ?_⟩
    · have h1 : (k :: h.erase k).Perm (k :: (l ++ r).map (keyOf w)) := by
        refine (List.perm_cons_erase hk).symm.trans (hinv.heap.trans ?_)
        simp only [List.map_append, List.map_cons, hkey]
        exact List.perm_middle
      exact h1.cons_inv
    · have := hinv.nodup
      simp only [keys, List.map_append, List.map_cons] at this ⊢
      exact this.sublist (List.Sublist.append_left (List.sublist_cons_self _ _) _)
    · intro x hx
      apply hinv.wf
      simp only [List.mem_append, List.mem_cons] at hx ⊢
      rcases hx with hx | hx <;> simp [hx]

theorem expireChecked_eq {w : Nat} (t : Nat) : ∀ (n : Nat) (s : State), Inv w s →
    expireChecked t n s = .ok (expire t n s)
  | 0, _, _ => rfl
  | n + 1, ⟨c, h⟩, hinv => by
    simp only [expireChecked, expire, notExpired_eq, decide_eq_true_eq]
    cases hp : popMin h with
    | none => rfl
    | some kh =>
      obtain ⟨k, h'⟩ := kh
      simp only
      by_cases ht : t < k.1
      · simp only [ht, if_true]
      · obtain ⟨m, ms, c', hr, hinv'⟩ := inv_pop hinv hp
        simp only [ht, if_false, hr, expireChecked_eq t n _ hinv']

theorem stepChecked_eq {w : Nat} (dec : Frame → Bool) {s : State} (a : Arrival) (hinv : Inv w s)
    (ht : a.t + w < 2 ^ 128) : stepChecked w dec s a = .ok (step w dec s a) := by
  obtain ⟨c, h⟩ := s
  have hinv' := push_inv a hinv
  have hget : ∃ ms, get (push c a) a.frame = some ms := by
    by_cases hk : a.frame ∈ keys c
    · obtain ⟨l, ms, r, rfl, hl⟩ := split_first hk
      exact ⟨_, by rw [push_split l hl, get_split l hl]⟩
    · exact ⟨_, by rw [push_new c hk, get_split c hk]⟩
  obtain ⟨ms, hms⟩ := hget
  simp only [hms, Option.getD_some] at hinv'
  simp only [stepChecked, step, stepG, hms, Option.getD_some, isFirst_eq, expiry_eq, decide_eq_true_eq]
  by_cases h1 : ms.length = 1
  · simp only [h1, if_true, ht] at hinv' ⊢
    rw [expireChecked_eq a.t _ _ hinv']
  · simp only [h1, if_false] at hinv' ⊢
    rw [expireChecked_eq a.t _ _ hinv']

theorem runChecked_eq {w : Nat} (dec : Frame → Bool) : ∀ (hist : List Arrival) {s : State},
    Inv w s → (∀ a ∈ hist, a.t + w < 2 ^ 128) → runChecked w dec s hist = .ok (run w dec s hist)
  | [], _, _, _ => rfl
  | a :: as, s, hinv, ht => by
    have h1 := stepChecked_eq dec a hinv (ht a (by simp))
    have hinv' : Inv w (step w dec s a).1 := (stepG_spec a hinv).1
    have h2 := runChecked_eq dec as hinv' (fun b hb => ht b (by simp [hb]))
    simp only [runChecked, run, h1, h2]

/-- Any fuel above the heap length gives the same result: the `0` case of `expire` is never the
    reason the loop stops. -/
theorem expire_fuel (t : Nat) : ∀ (n m : Nat) (s : State), s.heap.length < n → s.heap.length < m →
    expire t n s = expire t m s
  | 0, _, _, h, _ => by omega
  | _ + 1, 0, _, _, h => by omega
  | n + 1, m + 1, ⟨c, h⟩, hn, hm => by
    simp only [expire, notExpired_eq, decide_eq_true_eq]
    cases hp : popMin h with
    | none => rfl
    | some kh =>
      obtain ⟨k, h'⟩ := kh
      obtain ⟨hk, rfl, _⟩ := popMin_some hp
      have h1 : h.length < n + 1 := hn
      have h2 : h.length < m + 1 := hm
      have h3 : 0 < h.length := List.length_pos_of_mem hk
      have hl : (h.erase k).length = h.length - 1 := List.length_erase_of_mem hk
      simp only
      split
      · rfl
      · have hn' : (h.erase k).length < n := by omega
        have hm' : (h.erase k).length < m := by omega
        cases hr : remove c k.2 with
        | none =>
          simp only
          exact expire_fuel t n m ⟨c, h.erase k⟩ hn' hm'
        | some r =>
          simp only
          rw [expire_fuel t n m ⟨r.2, h.erase k⟩ hn' hm']



/-! ### decode1090's flush at end of file -/

theorem flush_spec {w : Nat} : ∀ (n : Nat) (s : State), Inv w s → s.heap.length ≤ n →
    (flush n s).Perm s.cache ∧
    (flush n s).Pairwise (fun g h => keyLt (keyOf w g) (keyOf w h) = true)
  | 0, ⟨c, h⟩, hinv, hlen => by
    have hh : h = [] := List.length_eq_zero_iff.mp (Nat.le_zero.mp hlen)
    have hc : c = [] := by
      have := hinv.heap; simp only [hh] at this
      simpa using this.symm.eq_nil
    subst hh hc
    simp [flush]
  | n + 1, ⟨c, h⟩, hinv, hlen => by
    simp only [flush]
    cases hp : popMin h with
    | none =>
      have hh : h = [] := popMin_none.mp hp
      have hc : c = [] := by
        have := hinv.heap; simp only [hh] at this
        simpa using this.symm.eq_nil
      subst hh hc
      simp
    | some kh =>
      obtain ⟨k, h'⟩ := kh
      obtain ⟨m, ms, c', hr, hinv'⟩ := inv_pop hinv hp
      obtain ⟨hk, rfl, hmin⟩ := popMin_some hp
      have hkm : k ∈ c.map (keyOf w) := hinv.heap.mem_iff.mp hk
      obtain ⟨g, hg, hgk⟩ := List.mem_map.mp hkm
      have hkeys : k.2 ∈ keys c := List.mem_map.mpr ⟨g, hg, by rw [← hgk]; rfl⟩
      obtain ⟨l, ms', r, hc, hl⟩ := split_first hkeys
      subst hc
      rw [remove_split l hl] at hr
      simp only [Option.some.injEq, Prod.mk.injEq] at hr
      obtain ⟨rfl, rfl⟩ := hr
      have hg' : g = (k.2, m :: ms) :=
        eq_of_key_eq hinv.nodup hg (by simp) (by rw [← hgk]; rfl)
      have hkey : keyOf w (k.2, m :: ms) = k := by rw [← hg']; exact hgk
      have h1 : h.length ≤ n + 1 := hlen
      have h3 : 0 < h.length := List.length_pos_of_mem hk
      have hlen' : (h.erase k).length ≤ n := by
        rw [List.length_erase_of_mem hk]; omega
      obtain ⟨i1, i2⟩ := flush_spec n ⟨l ++ r, h.erase k⟩ hinv' hlen'
      simp only [remove_split l hl]
      refine ⟨(List.Perm.cons _ i1).trans List.perm_middle.symm, List.pairwise_cons.mpr ⟨?_, i2⟩⟩
      intro x hx
      have hxc : x ∈ l ++ r := i1.subset hx
      have hxh : keyOf w x ∈ h := hinv.heap.mem_iff.mpr (List.mem_map.mpr ⟨x, by
        simp only [List.mem_append, List.mem_cons] at hxc ⊢
        rcases hxc with hxc | hxc <;> simp [hxc], rfl⟩)
      rw [hkey]
      cases hlt : keyLt k (keyOf w x)
      · exfalso
        have e := keyLt_tri hlt (hmin _ hxh)
        have hn := hinv.nodup
        simp only [keys, List.map_append, List.map_cons] at hn
        have hx2 : k.2 ∈ (l ++ r).map (·.1) := List.mem_map.mpr ⟨x, hxc, by rw [e]; rfl⟩
        have hr : k.2 ∉ r.map (·.1) := (List.nodup_cons.mp (List.nodup_append.mp hn).2.1).1
        simp only [List.map_append, List.mem_append] at hx2
        rcases hx2 with hx2 | hx2
        · exact hl hx2
        · exact hr hx2
      · rfl

/-- the flush writes the open groups in the specification's order -/
theorem flush_eq_sortBy {w : Nat} {s : State} (hinv : Inv w s) :
    flush s.heap.length s = sortBy s.cache := by
  obtain ⟨h1, h2⟩ := flush_spec (w := w) s.heap.length s hinv (Nat.le_refl _)
  refine sorted_unique (h1.trans (sortBy_perm _).symm) ?_ (sortBy_sorted _)
  exact h2.imp (by intro g h hk; rwa [keyLt_keyOf] at hk)


end Rs1090.Dedup
