/-
C14 — generic lemmas behind the registration-lookup theorems: digits and their inverse, injectivity of
symbol maps, the "digits then letters" split, monotonicity of the prefix matcher, first-match searches.
-/
import Rs1090.Model.Tail
namespace Rs1090.Proofs.Tail
open Rs1090 Rs1090.Model.Tail Rs1090.Gen.Tail

/-! ### checked primitives -/

theorem nthU_ok {xs : List Char} {i : Nat} (h : i < xs.length) : nthU xs i = .ok (xs[i]) := by
  unfold nthU
  rw [List.getElem?_eq_getElem h]

/-! ### digits -/

/-- value of a most-significant-first digit list, continuing from `acc` -/
def val (b : Nat) (acc : Nat) (ds : List Nat) : Nat := ds.foldl (fun a d => a * b + d) acc

theorem val_digitsAux (b : Nat) (_hb : 2 ≤ b) :
    ∀ fuel v acc, v < b ^ fuel → val b 0 (digitsAux b fuel v acc) = val b v acc := by
  intro fuel
  induction fuel with
  | zero =>
    intro v acc hv
    have : v = 0 := by simpa using hv
    subst this; rfl
  | succ n ih =>
    intro v acc hv
    unfold digitsAux
    split
    · simp [val]
    · rename_i hge
      have hlt : v / b < b ^ n := by
        apply Nat.div_lt_of_lt_mul
        rw [Nat.pow_succ, Nat.mul_comm] at hv
        exact hv
      rw [ih (v / b) (v % b :: acc) hlt]
      simp only [val, List.foldl_cons]
      congr 1
      rw [Nat.mul_comm]; exact Nat.div_add_mod v b

theorem val_digits (b : Nat) (hb : 2 ≤ b) (v : Nat) (hv : v < b ^ 33) : val b 0 (digits b v) = v := by
  unfold digits
  rw [val_digitsAux b hb 33 v [] hv]; rfl

theorem digits_inj (b : Nat) (hb : 2 ≤ b) {v w : Nat} (hv : v < b ^ 33) (hw : w < b ^ 33)
    (h : digits b v = digits b w) : v = w := by
  rw [← val_digits b hb v hv, ← val_digits b hb w hw, h]

theorem digitsAux_lt (b : Nat) (hb : 0 < b) :
    ∀ fuel v acc, (∀ d ∈ acc, d < b) → ∀ d ∈ digitsAux b fuel v acc, d < b := by
  intro fuel
  induction fuel with
  | zero => intro v acc ha; simpa [digitsAux] using ha
  | succ n ih =>
    intro v acc ha
    unfold digitsAux
    split
    · rename_i hlt
      intro d hd
      rcases List.mem_cons.mp hd with rfl | hd
      · exact hlt
      · exact ha d hd
    · apply ih
      intro d hd
      rcases List.mem_cons.mp hd with rfl | hd
      · exact Nat.mod_lt _ hb
      · exact ha d hd

theorem digits_lt_base (b : Nat) (hb : 0 < b) (v : Nat) : ∀ d ∈ digits b v, d < b :=
  digitsAux_lt b hb 33 v [] (by simp)

theorem digits_of_lt {b v : Nat} (h : v < b) : digits b v = [v] := by
  unfold digits digitsAux
  rw [if_pos h]

theorem digitsAux_length (b : Nat) (_hb : 2 ≤ b) :
    ∀ fuel v acc k, v < b ^ k → 0 < k → (digitsAux b fuel v acc).length ≤ k + acc.length := by
  intro fuel
  induction fuel with
  | zero => intro v acc k _ _; simp [digitsAux]
  | succ n ih =>
    intro v acc k hv hk
    unfold digitsAux
    split
    · simp; omega
    · rename_i hge
      cases k with
      | zero => omega
      | succ k =>
        cases k with
        | zero => simp at hv; omega
        | succ k =>
          have hlt : v / b < b ^ (k + 1) := by
            apply Nat.div_lt_of_lt_mul
            rw [Nat.pow_succ, Nat.mul_comm] at hv
            exact hv
          have := ih (v / b) (v % b :: acc) (k + 1) hlt (by omega)
          simp at this ⊢
          omega

theorem digits_length_le (b : Nat) (hb : 2 ≤ b) (v k : Nat) (hv : v < b ^ k) (hk : 0 < k) :
    (digits b v).length ≤ k := by
  have := digitsAux_length b hb 33 v [] k hv hk
  simpa [digits] using this

theorem val_replicate_zero (b : Nat) (k : Nat) (ds : List Nat) :
    val b 0 (List.replicate k 0 ++ ds) = val b 0 ds := by
  induction k with
  | zero => simp
  | succ n ih => simpa [List.replicate_succ, val] using ih

/-! ### symbol maps -/

theorem map_inj_on {α β} (f : α → β) (P : α → Prop) (hf : ∀ a b, P a → P b → f a = f b → a = b) :
    ∀ (xs ys : List α), (∀ x ∈ xs, P x) → (∀ y ∈ ys, P y) → xs.map f = ys.map f → xs = ys := by
  intro xs
  induction xs with
  | nil => intro ys _ _ h; cases ys <;> simp_all
  | cons x xs ih =>
    intro ys hx hy h
    cases ys with
    | nil => simp at h
    | cons y ys =>
      simp only [List.map_cons, List.cons.injEq] at h
      have h1 := hf x y (hx x (by simp)) (hy y (by simp)) h.1
      have h2 := ih ys (fun a ha => hx a (by simp [ha])) (fun a ha => hy a (by simp [ha])) h.2
      rw [h1, h2]

/-- "first kind of symbols, then second kind": if the two images are disjoint and both maps are injective on
    their domains, the concatenation determines both lists. -/
theorem split_inj {α β γ} (f : α → γ) (g : β → γ) (P : α → Prop) (Q : β → Prop)
    (hf : ∀ a b, P a → P b → f a = f b → a = b) (hg : ∀ a b, Q a → Q b → g a = g b → a = b)
    (hfg : ∀ a b, P a → Q b → f a ≠ g b) :
    ∀ (xs xs' : List α) (ys ys' : List β), (∀ x ∈ xs, P x) → (∀ x ∈ xs', P x) → (∀ y ∈ ys, Q y) →
      (∀ y ∈ ys', Q y) → xs.map f ++ ys.map g = xs'.map f ++ ys'.map g → xs = xs' ∧ ys = ys' := by
  intro xs
  induction xs with
  | nil =>
    intro xs' ys ys' _ hx' hy hy' h
    cases xs' with
    | nil => exact ⟨rfl, map_inj_on g Q hg ys ys' hy hy' (by simpa using h)⟩
    | cons a as =>
      cases ys with
      | nil => simp at h
      | cons b bs =>
        simp only [List.map_nil, List.nil_append, List.map_cons, List.cons_append, List.cons.injEq] at h
        exact absurd h.1.symm (hfg a b (hx' a (by simp)) (hy b (by simp)))
  | cons x xs ih =>
    intro xs' ys ys' hx hx' hy hy' h
    cases xs' with
    | nil =>
      cases ys' with
      | nil => simp at h
      | cons b bs =>
        simp only [List.map_nil, List.nil_append, List.map_cons, List.cons_append, List.cons.injEq] at h
        exact absurd h.1 (hfg x b (hx x (by simp)) (hy' b (by simp)))
    | cons a as =>
      simp only [List.map_cons, List.cons_append, List.cons.injEq] at h
      have h1 := hf x a (hx x (by simp)) (hx' a (by simp)) h.1
      have h2 := ih as ys ys' (fun a ha => hx a (by simp [ha])) (fun a ha => hx' a (by simp [ha])) hy hy' h.2
      exact ⟨by rw [h1, h2.1], h2.2⟩

/-- lookup in a duplicate-free list is injective on valid indices -/
theorem getD_inj_of_nodup {xs : List Char} (hn : xs.Nodup) {i j : Nat} (hi : i < xs.length) (hj : j < xs.length)
    (h : xs.getD i '?' = xs.getD j '?') : i = j := by
  simp only [List.getD_eq_getElem?_getD, List.getElem?_eq_getElem hi, List.getElem?_eq_getElem hj, Option.getD_some] at h
  exact (List.getElem_inj hn).mp h

/-! ### the prefix matcher is monotone in the text -/

theorem pm_append (r : Re) (s t : List Char) (h : r.pm s = true) : r.pm (s ++ t) = true := by
  induction s generalizing r with
  | nil =>
    cases t with
    | nil => simpa using h
    | cons c cs => simp only [List.nil_append, Re.pm]; simp only [Re.pm] at h; simp [h]
  | cons c cs ih =>
    simp only [Re.pm, Bool.or_eq_true] at h
    simp only [List.cons_append, Re.pm, Bool.or_eq_true]
    rcases h with h | h
    · exact Or.inl h
    · exact Or.inr (ih _ h)

/-! ### first-match searches over a table of ranges -/

/-- the block found for every address of `[lo, hi]`, computed once: every earlier block lies entirely outside the
    range and the selected block contains it -/
def rangeFind (lo hi : Nat) : List Block → Option Block
  | [] => none
  | b :: bs =>
    if b.start ≤ lo ∧ hi ≤ b.end_ then some b
    else if hi < b.start ∨ b.end_ < lo then rangeFind lo hi bs
    else none

theorem rangeFind_spec (lo hi : Nat) : ∀ (bs : List Block) (b : Block), rangeFind lo hi bs = some b →
    ∀ h, lo ≤ h → h ≤ hi → blockFind h bs = some b := by
  intro bs
  induction bs with
  | nil => intro b h; simp [rangeFind] at h
  | cons c cs ih =>
    intro b hb h h1 h2
    unfold rangeFind at hb
    unfold blockFind
    split at hb
    · rename_i hc
      rw [if_pos (by omega)]
      exact hb
    · split at hb
      · rename_i hc
        rw [if_neg (by omega)]
        exact ih b hb h h1 h2
      · cases hb

/-- Boolean pairwise check -/
def pairwiseB {α} (p : α → α → Bool) : List α → Bool
  | [] => true
  | a :: as => as.all (p a) && pairwiseB p as

theorem pairwiseB_get {α} (p : α → α → Bool) : ∀ (l : List α), pairwiseB p l = true →
    ∀ i j (hi : i < l.length) (hj : j < l.length), i < j → p l[i] l[j] = true := by
  intro l
  induction l with
  | nil => intro _ i j hi; simp at hi
  | cons a as ih =>
    intro h i j hi hj hij
    simp only [pairwiseB, Bool.and_eq_true, List.all_eq_true] at h
    cases j with
    | zero => omega
    | succ j =>
      cases i with
      | zero =>
        simp only [List.getElem_cons_zero, List.getElem_cons_succ]
        exact h.1 _ (List.getElem_mem _)
      | succ i =>
        simp only [List.getElem_cons_succ]
        exact ih h.2 i j (by simpa using hi) (by simpa using hj) (by omega)

end Rs1090.Proofs.Tail
