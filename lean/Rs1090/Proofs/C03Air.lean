/-
C03 helper lemmas, part 6: air-air surveillance replies (DF 0 / DF 16) and the all-call reply (DF 11).

  * `tryFrom_df0`  — `buildAir0`:  AC field at bit 19 behind VS / CC / SL / RI, address from the AP overlay
  * `tryFrom_df16` — `buildAir16`: the same head (VS, SL, RI are reported), any 56-bit MV field, AP overlay
  * `tryFrom_df11` — `buildAllCall`: capability and the ANNOUNCED address (bits 9–32), for every interrogator
                     code overlaid on the parity
-/
import Rs1090.Proofs.C03Commb
namespace Rs1090.Proofs.C03
open Rs1090 Rs1090.Model Rs1090.Spec.Encode Rs1090.Model.Message
open Rs1090.Spec.Crc (pack encodeAP apField bitsN)

/-- **DF 0**: altitude code in the AC field, address from the AP overlay; VS, CC, SL, RI are not reported -/
theorem tryFrom_df0 (vs cc sl ri code addr alt : Nat)
    (hvs : vs < 2 ^ 1) (hcc : cc < 2 ^ 1) (hsl : sl < 2 ^ 3) (hri : ri < 2 ^ 4) (hcode : code < 2 ^ 13)
    (haddr : addr < 2 ^ 24) (halt : ac13 code = .ok alt) :
    tryFrom (buildAir0 vs cc sl ri code addr) = .ok (toDecoded (.ok
      [dfTag (key! "0"), fld (key! "altitude") (jnat alt), fld (key! "icao24") (jhex6 addr)])) := by
  have hfr : Frame (buildAir0 vs cc sl ri code addr) (airHeader0 vs cc sl ri code) := by
    apply frame_encodeAP
    · simp [width, airHeader0]
    · simp [fits, airHeader0, hvs, hcc, hsl, hri, hcode]
  have hlen : (buildAir0 vs cc sl ri code addr).length = 7 := by
    have := hfr.len; simp [width, airHeader0] at this; omega
  have hcrc := checksum_frame (buildAir0 vs cc sl ri code addr) _ addr rfl hfr haddr
  rw [hlen] at hcrc
  have f_df := hfr.field 0 5 _ rfl
  have f_code := hfr.field 19 13 _ rfl
  refine tryFrom_of_dfBody _ 7 0 addr _ hlen hfr.lt f_df (Or.inr ⟨by omega, rfl⟩) hcrc (fun h => by omega) ?_
  show wpOk (do
    let _ ← bits 14
    let ac ← ac13Field
    let _ ← bitsLE 24
    pure (Except.ok [dfTag (key! "0"), fld (key! "altitude") (jnat ac), fld (key! "icao24") (jhex6 addr)] : SerFields)) _ _
  unfold ac13Field
  simp (disch := decide) only [wpOk_bind, wpOk_bits, wpOk_bitsLE, wpOk_pure, wpOk_lift_ok, f_code, halt, hlen,
    ceilDiv8, Nat.reduceAdd, Nat.reduceDiv, Nat.reduceLeDiff, true_and]

/-- **DF 16**: vertical status, sensitivity level, reply information, the altitude of the AC field, the address
    from the AP overlay — for ANY 56-bit MV field -/
theorem tryFrom_df16 (vs sl ri code addr alt : Nat) (mv : List Field)
    (hvs : vs < 2 ^ 1) (hsl : sl < 2 ^ 3) (hri : ri < 2 ^ 4) (hcode : code < 2 ^ 13) (haddr : addr < 2 ^ 24)
    (hw : width mv = 56) (hfit : fits mv = true) (halt : ac13 code = .ok alt) :
    tryFrom (buildAir16 vs sl ri code addr mv) = .ok (toDecoded (.ok
      [dfTag (key! "16"), fld (key! "vs") (jnat vs), fld (key! "sl") (jnat sl), fld (key! "ri") (jnat ri),
       fld (key! "altitude") (jnat alt), fld (key! "icao24") (jhex6 addr)])) := by
  have hfr : Frame (buildAir16 vs sl ri code addr mv) (airHeader16 vs sl ri code ++ mv) := by
    apply frame_encodeAP
    · rw [width_append, hw]; simp [width, airHeader16]
    · rw [fits_append, hfit]; simp [fits, airHeader16, hvs, hsl, hri, hcode]
  have hlen : (buildAir16 vs sl ri code addr mv).length = 14 := by
    have := hfr.len; rw [width_append, hw] at this; simp [width, airHeader16] at this; omega
  have hcrc := checksum_frame (buildAir16 vs sl ri code addr mv) _ addr rfl hfr haddr
  rw [hlen] at hcrc
  have f_df := hfr.field 0 5 16 rfl
  have f_vs := hfr.field 5 1 vs rfl
  have f_sl := hfr.field 8 3 sl rfl
  have f_ri := hfr.field 13 4 ri rfl
  have f_code := hfr.field 19 13 code rfl
  refine tryFrom_of_dfBody _ 14 16 addr _ hlen hfr.lt f_df (Or.inl ⟨by omega, rfl⟩) hcrc (fun h => by omega) ?_
  show wpOk (do
    let vs ← bits 1; let _ ← bits 2; let sl ← bits 3; let _ ← bits 2; let ri ← bits 4; let _ ← bits 2
    let ac ← ac13Field
    let _ ← bytesN 7
    let _ ← bitsLE 24
    pure (Except.ok [dfTag (key! "16"), fld (key! "vs") (jnat vs), fld (key! "sl") (jnat sl), fld (key! "ri") (jnat ri),
               fld (key! "altitude") (jnat ac), fld (key! "icao24") (jhex6 addr)] : SerFields)) _ _
  unfold ac13Field
  simp (disch := decide) only [wpOk_bind, wpOk_bits, wpOk_lift_ok, f_vs, f_sl, f_ri, f_code, halt, hlen,
    ceilDiv8, Nat.reduceAdd, Nat.reduceDiv, Nat.reduceLeDiff, true_and]
  refine (wpOk_bytesN 7 _ _ 4 _ _ hfr.lt (by omega)).2 ?_
  simp (disch := decide) only [wpOk_bitsLE, wpOk_pure, hlen, ceilDiv8, Nat.reduceAdd, Nat.reduceMul, Nat.reduceDiv,
    Nat.reduceLeDiff, true_and]

/-- **DF 11**: the capability and the announced address (bits 9–32 of the reply), whatever interrogator code is
    overlaid on the parity (the checksum remainder of a DF 11 reply is not an address and is not reported) -/
theorem tryFrom_df11 (ca aa ic : Nat) (hca : ca < 2 ^ 3) (haa : aa < 2 ^ 24) (hic : ic < 2 ^ 24) :
    tryFrom (buildAllCall ca aa ic) = .ok (toDecoded (.ok
      [dfTag (key! "11"), fld (key! "capability") (.lit (capabilityName ca)), fld (key! "icao24") (jhex6 aa)])) := by
  have hfr : Frame (buildAllCall ca aa ic) [(5, 11), (3, ca), (24, aa)] := by
    apply frame_encodeAP
    · simp [width]
    · simp [fits, hca, haa]
  have hlen : (buildAllCall ca aa ic).length = 7 := by
    have := hfr.len; simp [width] at this; omega
  have hcrc := checksum_frame (buildAllCall ca aa ic) _ ic rfl hfr hic
  rw [hlen] at hcrc
  have f_df := hfr.field 0 5 11 rfl
  have f_ca := hfr.field 5 3 ca rfl
  have f_aa := hfr.field 8 24 aa rfl
  refine tryFrom_of_dfBody _ 7 11 ic _ hlen hfr.lt f_df (Or.inr ⟨by omega, rfl⟩) hcrc (fun h => by omega) ?_
  show wpOk (do
    let cap ← enumId 3
    let icao ← bits 24
    let _ ← bits 24
    pure (Except.ok [dfTag (key! "11"), fld (key! "capability") (.lit (capabilityName cap)),
               fld (key! "icao24") (jhex6 icao)] : SerFields)) _ _
  simp (disch := decide) only [wpOk_bind, wpOk_bits, wpOk_enumId, wpOk_pure, f_ca, f_aa, hlen,
    ceilDiv8, Nat.reduceAdd, Nat.reduceDiv, Nat.reduceLeDiff, true_and]

end Rs1090.Proofs.C03
