/-
C03 helper lemmas, part 7: what the two symbolic nodes of BDS 0,9 (velocity over ground) denote over the reals.

The decoder computes, from the exactly decoded integer components `ew`, `ns` (kt),

    groundspeed = libm::hypot(|ew|, |ns|)
    track       = let h = libm::atan2(ew, ns) * (360 / (2π));  if h < 0 { h + 360 } else { h }

The model keeps them as the nodes `Json.hypot |ew| |ns|`, `Json.atan2deg ew ns`.  Here:

  * `atan2 y x := Complex.arg (x + y·i)` ∈ (−π, π] — the mathematical function libm approximates
  * `trackDeg ew ns`: the EXACT angle in degrees wrapped the way the code wraps it
  * `arg_le_neg_arctan`: a point with integer-sized coordinates `im ≤ −1`, `|re| ≤ B` has `arg ≤ −arctan(1/B)`
  * `trackDeg_range`: for `|ew|, |ns| ≤ 4·1022` the wrapped angle lies in `[0, 359.987]`: a negative angle is at most
    `−(180/π)·arctan(1/4088) < −0.013°`, so `h + 360 ≤ 359.987 < 360` — the margin is 10^11 ulps of 360.0, which is why
    the f64 corner "tiny negative + 360 = 360.0" cannot occur (libm's atan2 is accurate to < 1 ulp)
  * `hypotR_sq`: `groundspeed² = ew² + ns²`, `groundspeed ≥ 0`
-/
import Mathlib.Analysis.SpecialFunctions.Complex.Arg
import Mathlib.Analysis.SpecialFunctions.Trigonometric.Arctan
import Mathlib.Analysis.SpecialFunctions.Trigonometric.Bounds
import Mathlib.Analysis.Real.Pi.Bounds
import Mathlib.Tactic.Linarith
import Mathlib.Tactic.NormNum
import Mathlib.Tactic.FieldSimp
import Rs1090.Model.Decode.Bds09
namespace Rs1090.Proofs.C03.Track
open Real

/-- `atan2 y x`: the argument of `x + y·i`, in (−π, π] (`atan2 0 0 = 0`, as libm) -/
noncomputable def atan2 (y x : ℝ) : ℝ := Complex.arg ⟨x, y⟩

/-- the angle before wrapping: `atan2(ew, ns) · 360 / (2π)` degrees, in (−180, 180] -/
noncomputable def headingDeg (ew ns : ℤ) : ℝ := atan2 ew ns * (360 / (2 * π))

/-- the reported track, exactly: `if h < 0 then h + 360 else h` -/
noncomputable def trackDeg (ew ns : ℤ) : ℝ :=
  if headingDeg ew ns < 0 then headingDeg ew ns + 360 else headingDeg ew ns

/-- the reported ground speed, exactly -/
noncomputable def hypotR (a b : ℤ) : ℝ := Real.sqrt ((a : ℝ) ^ 2 + (b : ℝ) ^ 2)

/-- what a JSON number node of the model denotes when it is one of the two transcendental nodes -/
noncomputable def exact : Rs1090.Model.Json → Option ℝ
  | .hypot a b => some (hypotR a b)
  | .atan2deg y x => some (trackDeg y x)
  | _ => none

theorem hypotR_nonneg (a b : ℤ) : 0 ≤ hypotR a b := Real.sqrt_nonneg _

theorem hypotR_sq (a b : ℤ) : hypotR a b ^ 2 = (a : ℝ) ^ 2 + (b : ℝ) ^ 2 :=
  Real.sq_sqrt (by positivity)

/-- a point below the real axis by at least 1 whose real part is at most `B` in absolute value: its argument
    is at most `−arctan (1 / B)` -/
theorem arg_le_neg_arctan (z : ℂ) (B : ℝ) (hB : 0 < B) (him : z.im ≤ -1) (hre : |z.re| ≤ B) :
    Complex.arg z ≤ -Real.arctan (1 / B) := by
  by_contra hcon
  have hcon := not_le.mp hcon
  have hneg : Complex.arg z < 0 := Complex.arg_neg_iff.mpr (by linarith)
  have hd1 : Real.arctan (1 / B) < π / 2 := Real.arctan_lt_pi_div_two _
  have hd0 : 0 < Real.arctan (1 / B) := Real.arctan_pos.mpr (by positivity)
  have hz : z ≠ 0 := by
    intro h; rw [h] at him; simp at him; linarith
  have hnorm : 0 < ‖z‖ := norm_pos_iff.mpr hz
  -- cos (arg z) > 0, hence re z > 0
  have hcos : 0 < Real.cos (Complex.arg z) :=
    Real.cos_pos_of_mem_Ioo ⟨by linarith, by linarith [Real.pi_pos]⟩
  rw [Complex.cos_arg hz] at hcos
  have hrepos : 0 < z.re := by
    by_contra h
    have h := not_lt.mp h
    have : z.re / ‖z‖ ≤ 0 := div_nonpos_of_nonpos_of_nonneg h hnorm.le
    linarith
  -- tan is increasing on (−π/2, π/2)
  have htan := Real.tan_lt_tan_of_lt_of_lt_pi_div_two (x := -Real.arctan (1 / B)) (y := Complex.arg z)
    (by linarith) (by linarith [Real.pi_pos]) hcon
  rw [Real.tan_neg, Real.tan_arctan, Complex.tan_arg] at htan
  have hreB : z.re ≤ B := le_trans (le_abs_self _) hre
  -- −1/B < im / re  with 0 < re ≤ B  gives  −1 < im
  have h1 : -(1 / B) * z.re < z.im := by
    have := mul_lt_mul_of_pos_right htan hrepos
    rwa [div_mul_cancel₀ _ hrepos.ne'] at this
  have h2 : -(1 / B) * z.re ≥ -1 := by
    have : (1 / B) * z.re ≤ (1 / B) * B := mul_le_mul_of_nonneg_left hreB (by positivity)
    rw [one_div_mul_cancel hB.ne'] at this
    linarith
  linarith

/-- `t < arctan a` whenever `t / (1 − t²/2) < a` (from `sin t < t`, `cos t ≥ 1 − t²/2`) -/
theorem lt_arctan_of (t a : ℝ) (ht0 : 0 < t) (ht1 : t < 1) (ha : 0 ≤ a) (h : t < a * (1 - t ^ 2 / 2)) :
    t < Real.arctan a := by
  have htpi : t < π / 2 := by have := Real.pi_gt_three; linarith
  have hcos : 1 - t ^ 2 / 2 ≤ Real.cos t := Real.one_sub_sq_div_two_le_cos
  have hsin : Real.sin t < t := Real.sin_lt ht0
  have hc : 0 < Real.cos t := Real.cos_pos_of_mem_Ioo ⟨by linarith, htpi⟩
  have htan : Real.tan t < a := by
    rw [Real.tan_eq_sin_div_cos, div_lt_iff₀ hc]
    have h3 : a * (1 - t ^ 2 / 2) ≤ a * Real.cos t := mul_le_mul_of_nonneg_left hcos ha
    linarith
  have := Real.arctan_strictMono htan
  rwa [Real.arctan_tan (by linarith) htpi] at this

/-- `arctan (1/4088) > 0.00023` rad -/
theorem arctan_4088_gt : (23 / 100000 : ℝ) < Real.arctan (1 / 4088) :=
  lt_arctan_of _ _ (by norm_num) (by norm_num) (by norm_num) (by norm_num)

/-- the margin in degrees: `(180/π)·arctan(1/4088) > 0.013` -/
theorem margin_deg : (0.013 : ℝ) < Real.arctan (1 / 4088) * (360 / (2 * π)) := by
  have hpi := Real.pi_pos
  have h1 := arctan_4088_gt
  have h2 := Real.pi_lt_d2
  have h3 : (0.013 : ℝ) < (23 / 100000 : ℝ) * (360 / (2 * π)) := by
    rw [show (23 / 100000 : ℝ) * (360 / (2 * π)) = (23 / 100000 * 180) / π by field_simp; ring]
    rw [lt_div_iff₀ hpi]
    norm_num at h2 ⊢
    linarith
  have h4 : (23 / 100000 : ℝ) * (360 / (2 * π)) < Real.arctan (1 / 4088) * (360 / (2 * π)) :=
    mul_lt_mul_of_pos_right h1 (by positivity)
  linarith

/-- **a negative heading is negative by a margin**: for integer components with `|ns| ≤ 4088`, a heading below
    zero is at most `−(180/π)·arctan(1/4088)` degrees -/
theorem headingDeg_neg_margin (ew ns : ℤ) (hns : |ns| ≤ 4 * 1022) (h : headingDeg ew ns < 0) :
    headingDeg ew ns ≤ -(Real.arctan (1 / 4088) * (360 / (2 * π))) := by
  have hpi := Real.pi_pos
  have hk : (0 : ℝ) < 360 / (2 * π) := by positivity
  unfold headingDeg atan2 at h ⊢
  have harg : Complex.arg ⟨(ns : ℝ), (ew : ℝ)⟩ < 0 := by
    by_contra hc
    have hc := not_lt.mp hc
    have := mul_nonneg hc hk.le
    linarith
  have him : ((⟨(ns : ℝ), (ew : ℝ)⟩ : ℂ)).im < 0 := Complex.arg_neg_iff.mp harg
  simp only at him
  have hew : ew ≤ -1 := by
    have : ew < 0 := by exact_mod_cast him
    omega
  have hew' : ((⟨(ns : ℝ), (ew : ℝ)⟩ : ℂ)).im ≤ -1 := by
    simp only; exact_mod_cast hew
  have hns' : |((⟨(ns : ℝ), (ew : ℝ)⟩ : ℂ)).re| ≤ 4088 := by
    simp only
    have : ((|ns| : ℤ) : ℝ) ≤ 4088 := by exact_mod_cast (by omega : |ns| ≤ 4088)
    rwa [Int.cast_abs] at this
  have := arg_le_neg_arctan _ 4088 (by norm_num) hew' hns'
  have := mul_le_mul_of_nonneg_right this hk.le
  linarith

/-- **the track lies in [0, 360) with an explicit margin**: for all integer components with `|ns| ≤ 4·1022`
    (any `ew`; both zero included: `atan2 0 0 = 0`) the exact wrapped angle is in `[0, 359.987]` -/
theorem trackDeg_range (ew ns : ℤ) (hns : |ns| ≤ 4 * 1022) :
    0 ≤ trackDeg ew ns ∧ trackDeg ew ns ≤ 359.987 ∧ trackDeg ew ns < 360 := by
  have hpi := Real.pi_pos
  have hk : (0 : ℝ) < 360 / (2 * π) := by positivity
  have hlo : -180 < headingDeg ew ns := by
    unfold headingDeg atan2
    have := Complex.neg_pi_lt_arg ⟨(ns : ℝ), (ew : ℝ)⟩
    have h2 := mul_lt_mul_of_pos_right this hk
    have e : -π * (360 / (2 * π)) = -180 := by field_simp; ring
    linarith
  have hhi : headingDeg ew ns ≤ 180 := by
    unfold headingDeg atan2
    have := Complex.arg_le_pi ⟨(ns : ℝ), (ew : ℝ)⟩
    have h2 := mul_le_mul_of_nonneg_right this hk.le
    have e : π * (360 / (2 * π)) = 180 := by field_simp; ring
    linarith
  unfold trackDeg
  split
  · rename_i h
    have hm := headingDeg_neg_margin ew ns hns h
    have := margin_deg
    refine ⟨by linarith, ?_, ?_⟩ <;> norm_num <;> linarith
  · rename_i h
    have h := not_lt.mp h
    refine ⟨h, ?_, ?_⟩ <;> norm_num <;> linarith

end Rs1090.Proofs.C03.Track
