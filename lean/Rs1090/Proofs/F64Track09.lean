import Rs1090.Proofs.F64Wrap
import Rs1090.Proofs.C03Track
/-!
BDS 0,9 ground track in binary64, from an explicit hypothesis on libm.

`Proofs/C03Track.lean` proves over Mathlib's reals that the EXACT angle `atan2(ew, ns)·360/(2π)` of integer components
with `|ns| ≤ 4·1022`, when negative, is below `−0.013°`.  `Proofs/F64Wrap.lean` proves that the binary64 sum
`h + 360.` is below 360 exactly when `h < −2⁻⁴⁵`.  Here the two are joined: what has to be assumed about
`libm::atan2` and the rounded multiplication by `360.0 / (2.0 * PI)` is `LibmAtan2Deg` — NOT correct rounding, only

  * `sign`:  the computed angle is negative only when the exact one is (atan2 has the sign of its first argument), and
  * `close`: it is within `tol = 0.005°` of the exact angle (libm's actual error is below 10⁻¹³°).
-/
namespace Rs1090.Proofs.F64Track09
open Rs1090.Proofs.IeeeRound Rs1090.Proofs.F64Wrap Rs1090.Proofs.C03.Track

/-- **the libm hypothesis**: `h` (the binary64 value of `libm::atan2(ew, ns) * (360.0 / (2.0 * PI))`) against the
    exact angle `headingDeg ew ns = atan2(ew, ns)·360/(2π)` -/
structure LibmAtan2Deg (tol : ℚ) (ew ns : ℤ) (h : ℚ) : Prop where
  sign : h < 0 → headingDeg ew ns < 0
  close : |((h : ℚ) : ℝ) - headingDeg ew ns| ≤ ((tol : ℚ) : ℝ)

theorem headingDeg_bounds (ew ns : ℤ) : -180 < headingDeg ew ns ∧ headingDeg ew ns ≤ 180 := by
  have hpi := Real.pi_pos
  have hk : (0 : ℝ) < 360 / (2 * Real.pi) := by positivity
  constructor
  · unfold headingDeg atan2
    have := Complex.neg_pi_lt_arg ⟨(ns : ℝ), (ew : ℝ)⟩
    have h2 := mul_lt_mul_of_pos_right this hk
    have e : -Real.pi * (360 / (2 * Real.pi)) = -180 := by field_simp; ring
    linarith
  · unfold headingDeg atan2
    have := Complex.arg_le_pi ⟨(ns : ℝ), (ew : ℝ)⟩
    have h2 := mul_le_mul_of_nonneg_right this hk.le
    have e : Real.pi * (360 / (2 * Real.pi)) = 180 := by field_simp; ring
    linarith

/-- the libm hypothesis with `tol = 1/200`° gives the hypothesis `AngleOk (1/128)` of the wrap theorems, for all
    integer components subtypes 1 and 2 can carry -/
theorem angleOk_of_libm (ew ns : ℤ) (hns : |ns| ≤ 4 * 1022) (h : ℚ) (H : LibmAtan2Deg (1 / 200) ew ns h) :
    AngleOk (1 / 128) h := by
  have hb := headingDeg_bounds ew ns
  have hc := abs_le.mp H.close
  have e : (((1 / 200 : ℚ)) : ℝ) = 1 / 200 := by norm_num
  rw [e] at hc
  refine ⟨?_, ?_, ?_⟩
  · have : ((-181 : ℚ) : ℝ) ≤ ((h : ℚ) : ℝ) := by push_cast; linarith
    exact_mod_cast this
  · have : ((h : ℚ) : ℝ) ≤ ((181 : ℚ) : ℝ) := by push_cast; linarith
    exact_mod_cast this
  · intro hneg
    have h1 := headingDeg_neg_margin ew ns hns (H.sign hneg)
    have h2 := margin_deg
    have : ((h : ℚ) : ℝ) ≤ ((-(1 / 128) : ℚ) : ℝ) := by push_cast; norm_num at h2 ⊢; linarith
    exact_mod_cast this

/-- **BDS 0,9 ground track in binary64 lies in `[0, 360 − 1/128]`, in particular below 360.0**: for every integer
    components with `|ns| ≤ 4·1022` and every computed angle `h` satisfying the libm hypothesis, the value
    `if h < 0. { h + 360. } else { h }` with the IEEE-754 addition -/
theorem track09_ieee (ew ns : ℤ) (hns : |ns| ≤ 4 * 1022) (h : ℚ) (H : LibmAtan2Deg (1 / 200) ew ns h) :
    0 ≤ track09 fl64 h ∧ track09 fl64 h ≤ 360 - 1 / 128 ∧ track09 fl64 h < 360 := by
  have := track09_margin (angleOk_of_libm ew ns hns h H)
  exact ⟨this.1, this.2, by linarith [this.2]⟩

/-- the hypothesis is satisfiable on the negative arm: due west (`ew = −1, ns = 0`), `atan2 = −π/2`, `h = −90` -/
theorem libm_west : LibmAtan2Deg (1 / 200) (-1) 0 (-90) := by
  have hpi := Real.pi_pos
  have e : headingDeg (-1) 0 = -90 := by
    unfold headingDeg atan2
    have : (⟨((0 : ℤ) : ℝ), ((-1 : ℤ) : ℝ)⟩ : ℂ) = -Complex.I := by
      apply Complex.ext <;> simp
    rw [this, Complex.arg_neg_I]
    field_simp; ring
  exact ⟨fun _ => by rw [e]; norm_num, by rw [e]; norm_num⟩

/-- … and on the other: due north (`ew = 0, ns = 1`), `h = 0` -/
theorem libm_north : LibmAtan2Deg (1 / 200) 0 1 0 := by
  have e : headingDeg 0 1 = 0 := by
    unfold headingDeg atan2
    have : (⟨((1 : ℤ) : ℝ), ((0 : ℤ) : ℝ)⟩ : ℂ) = 1 := by
      apply Complex.ext <;> simp
    rw [this, Complex.arg_one]; simp
  exact ⟨fun hh => absurd hh (lt_irrefl _), by rw [e]; norm_num⟩

end Rs1090.Proofs.F64Track09
