/-
Facts about the serde_json text of a `Json` value (`Json.text`, Model/JsonText.lean): it contains no
control character — so no line feed and no carriage return: the text is ONE LINE — and the text of an
object starts with `{` and ends with `}`.

No hypothesis about key names is needed: serde_json escapes keys and unit-variant names like any other
string (`MapKeySerializer::serialize_str`), and so does `Json.text`.  `escape_of_clean` is the converse
fact that keeps the runtime printer honest: on a name made of characters ≥ 0x20 other than `"` and `\`
(every Rust identifier / renamed field of the decoder) the escaping is the identity.
-/
import Rs1090.Model.JsonText
namespace Rs1090.Model

/-- what `ryu` prints for a finite `f64` (`0-9 + - . e E`), and `null`, which serde_json writes for a
    non-finite one (that this does not happen is `json_wellformed` / C08) -/
def numChars : List Char :=
  ['0', '1', '2', '3', '4', '5', '6', '7', '8', '9', '+', '-', '.', 'e', 'E', 'n', 'u', 'l']

/-- the only assumption on the float printer: its output is made of `numChars` -/
def NumClean (numText : Json → List Char) : Prop := ∀ j, ∀ c ∈ numText j, c ∈ numChars

/-- no control character (code below 0x20) -/
def NoCtl (l : List Char) : Prop := ∀ c ∈ l, 0x20 ≤ c.toNat

instance (l : List Char) : Decidable (NoCtl l) := by unfold NoCtl; infer_instance

theorem NoCtl.nil : NoCtl [] := by intro c h; cases h

theorem NoCtl.cons {c : Char} {l : List Char} (hc : 0x20 ≤ c.toNat) (hl : NoCtl l) : NoCtl (c :: l) := by
  intro x hx
  rcases List.mem_cons.mp hx with rfl | hx
  · exact hc
  · exact hl x hx

theorem NoCtl.append {a b : List Char} (ha : NoCtl a) (hb : NoCtl b) : NoCtl (a ++ b) := by
  intro x hx
  rcases List.mem_append.mp hx with hx | hx
  · exact ha x hx
  · exact hb x hx

theorem hexDigit_noCtl : ∀ n, n < 16 → 0x20 ≤ (hexDigit n).toNat := by decide

/-- `"`, `\` and the 32 control characters are replaced by sequences of printable ASCII characters -/
theorem escapeCharL_noCtl (c : Char) : NoCtl (escapeCharL c) := by
  unfold escapeCharL
  have h16 : ∀ n, n < 16 → 0x20 ≤ (hexDigit n).toNat := hexDigit_noCtl
  split
  · decide
  · split
    · decide
    · split
      · rename_i hlt
        split; · decide
        split; · decide
        split; · decide
        split; · decide
        split; · decide
        intro x hx
        simp only [List.mem_cons, List.not_mem_nil, or_false] at hx
        rcases hx with rfl | rfl | rfl | rfl | rfl | rfl
        · decide
        · decide
        · decide
        · decide
        · exact h16 _ (by omega)
        · exact h16 _ (by omega)
      · rename_i hge
        intro x hx
        simp only [List.mem_cons, List.not_mem_nil, or_false] at hx
        subst hx
        omega

/-- **escaping handles every character**: whatever the string, its escaped form has no control character -/
theorem escape_no_control (cs : List Char) : NoCtl (escape cs) := by
  induction cs with
  | nil => exact NoCtl.nil
  | cons c r ih => exact NoCtl.append (escapeCharL_noCtl c) ih

theorem quoted_noCtl (cs : List Char) : NoCtl (quoted cs) :=
  NoCtl.cons (by decide) (NoCtl.append (escape_no_control cs) (NoCtl.cons (by decide) NoCtl.nil))

theorem toDigits_noCtl (n : Nat) : NoCtl (Nat.toDigits 10 n) := by
  intro c hc
  have := Char.isDigit_iff_toNat.mp (Nat.isDigit_of_mem_toDigits (by decide) (by decide) hc)
  have h0 : '0'.toNat = 48 := by decide
  omega

theorem intText_noCtl (i : Int) : NoCtl (intText i) := by
  cases i with
  | ofNat n => exact toDigits_noCtl n
  | negSucc n => exact NoCtl.cons (by decide) (toDigits_noCtl _)

theorem numClean_noCtl {numText : Json → List Char} (hn : NumClean numText) (j : Json) : NoCtl (numText j) := by
  intro c hc
  have h : ∀ c ∈ numChars, 0x20 ≤ c.toNat := by decide
  exact h c (hn j c hc)

mutual
/-- **One line**: the serde_json text of ANY value of the model's JSON type has no character below 0x20 — in
    particular no `\n` and no `\r` — provided only that the float printer emits number characters. -/
theorem text_no_control {numText : Json → List Char} (hn : NumClean numText) :
    (j : Json) → NoCtl (j.text numText)
  | .null => by unfold Json.text; decide
  | .bool true => by unfold Json.text; decide
  | .bool false => by unfold Json.text; decide
  | .int i => by unfold Json.text; exact intText_noCtl i
  | .num n d => by unfold Json.text; exact numClean_noCtl hn _
  | .hypot a b => by unfold Json.text; exact numClean_noCtl hn _
  | .atan2deg y x => by unfold Json.text; exact numClean_noCtl hn _
  | .lit k => by unfold Json.text; exact quoted_noCtl _
  | .chars cs => by unfold Json.text; exact quoted_noCtl _
  | .arr [] => by unfold Json.text; decide
  | .arr (x :: xs) => by
    unfold Json.text
    exact NoCtl.cons (by decide) (NoCtl.append (text_no_control hn x)
      (NoCtl.append (textTail_no_control hn xs) (NoCtl.cons (by decide) NoCtl.nil)))
  | .obj [] => by unfold Json.text; decide
  | .obj ((k, v) :: kvs) => by
    unfold Json.text
    exact NoCtl.cons (by decide) (NoCtl.append (quoted_noCtl _) (NoCtl.cons (by decide)
      (NoCtl.append (text_no_control hn v)
        (NoCtl.append (textFieldsTail_no_control hn kvs) (NoCtl.cons (by decide) NoCtl.nil)))))
theorem textTail_no_control {numText : Json → List Char} (hn : NumClean numText) :
    (xs : List Json) → NoCtl (Json.textTail numText xs)
  | [] => by unfold Json.textTail; exact NoCtl.nil
  | x :: xs => by
    unfold Json.textTail
    exact NoCtl.cons (by decide) (NoCtl.append (text_no_control hn x) (textTail_no_control hn xs))
theorem textFieldsTail_no_control {numText : Json → List Char} (hn : NumClean numText) :
    (kvs : List (Key × Json)) → NoCtl (Json.textFieldsTail numText kvs)
  | [] => by unfold Json.textFieldsTail; exact NoCtl.nil
  | (k, v) :: kvs => by
    unfold Json.textFieldsTail
    exact NoCtl.cons (by decide) (NoCtl.append (quoted_noCtl _) (NoCtl.cons (by decide)
      (NoCtl.append (text_no_control hn v) (textFieldsTail_no_control hn kvs))))
end

/-- neither a line feed nor a carriage return -/
theorem text_one_line {numText : Json → List Char} (hn : NumClean numText) (j : Json) :
    ∀ c ∈ j.text numText, c ≠ '\n' ∧ c ≠ '\r' := by
  intro c hc
  have h := text_no_control hn j c hc
  constructor
  · intro e; subst e; exact absurd h (by decide)
  · intro e; subst e; exact absurd h (by decide)

theorem getLast?_cons_append_singleton (a z : Char) (l : List Char) : (a :: (l ++ [z])).getLast? = some z := by
  rw [← List.cons_append, List.getLast?_append]
  rfl

/-- the text of an object is `{ … }` -/
theorem text_obj_shape (numText : Json → List Char) (kvs : List (Key × Json)) :
    ((Json.obj kvs).text numText).head? = some '{' ∧ ((Json.obj kvs).text numText).getLast? = some '}' := by
  cases kvs with
  | nil => unfold Json.text; exact ⟨rfl, rfl⟩
  | cons kv r =>
    obtain ⟨k, v⟩ := kv
    unfold Json.text
    refine ⟨rfl, ?_⟩
    have e : ∀ (a b c d : List Char), a ++ (':' :: (b ++ (c ++ d))) = (a ++ (':' :: (b ++ c))) ++ d := by
      intro a b c d; simp
    rw [e]
    exact getLast?_cons_append_singleton _ _ _

/-- the text of an array is `[ … ]` -/
theorem text_arr_shape (numText : Json → List Char) (xs : List Json) :
    ((Json.arr xs).text numText).head? = some '[' ∧ ((Json.arr xs).text numText).getLast? = some ']' := by
  cases xs with
  | nil => unfold Json.text; exact ⟨rfl, rfl⟩
  | cons x r =>
    unfold Json.text
    refine ⟨rfl, ?_⟩
    rw [← List.append_assoc]
    exact getLast?_cons_append_singleton _ _ _

/-! ### names the runtime printer may print verbatim -/

/-- a character `format_escaped_str` copies: not a control character, not `"`, not `\` -/
def cleanChar (c : Char) : Bool := decide (0x20 ≤ c.toNat) && c != '"' && c != '\\'

theorem escapeCharL_of_clean (c : Char) (h : cleanChar c = true) : escapeCharL c = [c] := by
  simp only [cleanChar, Bool.and_eq_true, decide_eq_true_eq, bne_iff_ne, ne_eq] at h
  obtain ⟨⟨h1, h2⟩, h3⟩ := h
  unfold escapeCharL
  rw [if_neg h2, if_neg h3, if_neg (by omega)]

/-- on a clean name the escaping is the identity: it is printed verbatim between the quotation marks -/
theorem escape_of_clean (cs : List Char) (h : cs.all cleanChar = true) : escape cs = cs := by
  induction cs with
  | nil => rfl
  | cons c r ih =>
    simp only [List.all_cons, Bool.and_eq_true] at h
    simp only [escape, escapeCharL_of_clean c h.1, ih h.2, List.cons_append, List.nil_append]

mutual
/-- every key name and every interned literal, at any depth, is clean -/
def Json.keysClean : Json → Bool
  | .lit k => k.name.toList.all cleanChar
  | .arr xs => Json.keysCleanList xs
  | .obj kvs => Json.keysCleanObj kvs
  | _ => true
def Json.keysCleanList : List Json → Bool
  | [] => true
  | x :: xs => x.keysClean && Json.keysCleanList xs
def Json.keysCleanObj : List (Key × Json) → Bool
  | [] => true
  | (k, v) :: r => k.name.toList.all cleanChar && v.keysClean && Json.keysCleanObj r
end

end Rs1090.Model
