/-
Key-path provenance for C12 (audit B, C12 finding 3): the value `viewOfJson` puts into the view for a
quantity is the text of the member of the message's own decoded JSON at one of the key paths under
which the serialised message SHOWS that quantity (`shownAt`, written from the serde names of the Rust
types — `selected_mcp`, `vrate_inertial`, `TAS`, `NACp`, … — not from `viewOfJson`).  A view that read
another member (say `vrate_barometric` for the inertial vertical rate) would make `view_keyed` false.
-/
import Rs1090.Proofs.SnapshotView
set_option linter.unusedSimpArgs false
namespace Rs1090.Proofs.SnapshotKeyed
open Rs1090 Rs1090.Model Rs1090.Model.Message Rs1090.Model.Snapshot Rs1090.Model.SnapshotView
open Rs1090.Spec.Snapshot Rs1090.Proofs.Snapshot Rs1090.Proofs.Filters Rs1090.Proofs.SnapshotView

/-- a key path into the JSON of a decoded message: a member of the message object, or a member of one of
    its nested Comm-B register objects -/
inductive Path where
  | top (k : Key)
  | nested (reg k : Key)

/-- the member at a path (C07/C11's lookup `objGet` at each level) -/
def memberAt (kvs : List (Key × Json)) : Path → Option Json
  | .top k => objGet kvs k
  | .nested reg k =>
    match objGet kvs reg with
    | some (.obj inner) => objGet inner k
    | _ => none

/-- **Where a decoded message shows a quantity** (the JSON member names of `rs1090`'s serialisation):
    the extended-squitter members at top level, the Comm-B ones inside `bds20` / `bds40` / `bds50` / `bds60`.
    Latitude / longitude are not listed: the decoder's JSON has no such members, they are written by
    `decode_position` (see `pipeline_position_provenance`); `typecode` is not a member either (`GRND` marks
    a DF18 message). -/
def shownAt : Field → List Path
  | .callsign => [.top (key! "callsign"), .nested (key! "bds20") (key! "callsign")]
  | .squawk => [.top (key! "squawk")]
  | .altitude => [.top (key! "altitude")]
  | .selectedAltitude => [.top (key! "selected_altitude"), .nested (key! "bds40") (key! "selected_mcp")]
  | .groundspeed => [.top (key! "groundspeed"), .nested (key! "bds50") (key! "groundspeed")]
  | .verticalRate => [.top (key! "vertical_rate"), .nested (key! "bds60") (key! "vrate_inertial")]
  | .track => [.top (key! "track"), .nested (key! "bds50") (key! "track")]
  | .ias => [.top (key! "IAS"), .nested (key! "bds60") (key! "IAS")]
  | .tas => [.top (key! "TAS"), .nested (key! "bds50") (key! "TAS")]
  | .mach => [.nested (key! "bds60") (key! "Mach")]
  | .roll => [.nested (key! "bds50") (key! "roll")]
  | .heading => [.top (key! "heading"), .nested (key! "bds60") (key! "heading")]
  | .nacp => [.top (key! "NACp")]
  | .latitude => []
  | .longitude => []
  | .typecode => []

/-- "`v` is the text of the member of `kvs` at one of the paths of quantity `f`" -/
def Keyed (kvs : List (Key × Json)) (f : Field) (v : Val) : Prop :=
  ∃ p, p ∈ shownAt f ∧ (memberAt kvs p).bind valText = some v

theorem keyed_top {kvs : List (Key × Json)} {f : Field} {v : Val} (k : Key)
    (hm : Path.top k ∈ shownAt f) (h : fldV kvs k = some v) : Keyed kvs f v :=
  ⟨.top k, hm, h⟩

theorem keyed_nested {kvs : List (Key × Json)} {f : Field} {v : Val} (reg k : Key) (b : Json)
    (hm : Path.nested reg k ∈ shownAt f) (hb : member kvs reg = some b) (h : fldOf b k = some v) :
    Keyed kvs f v := by
  refine ⟨.nested reg k, hm, ?_⟩
  cases b with
  | obj inner =>
    have : objGet kvs reg = some (.obj inner) := hb
    simp only [memberAt, this]; exact h
  | _ => simp [fldOf] at h

theorem velocity_keyed (frame : List Nat) (kvs : List (Key × Json)) (vel : Velocity) (f : Field) (v : Val)
    (h : velocityView frame kvs = some vel)
    (hv : v ∈ meCarried (.bds09 (fldV kvs (key! "vertical_rate")) vel) f) : Keyed kvs f v := by
  unfold velocityView at h
  simp only [] at h
  split at h
  · split at h
    · rename_i gs trk hgs htrk
      cases h
      cases f <;> simp [meCarried] at hv
      · subst hv; exact keyed_top _ (by simp [shownAt]) hgs
      · exact keyed_top _ (by simp [shownAt]) hv
      · subst hv; exact keyed_top _ (by simp [shownAt]) htrk
    · cases h
  · split at h
    · cases h
      by_cases ht : (bitAt frame 56 == 1) = true
      · cases f <;> simp [meCarried, ht] at hv <;> exact keyed_top _ (by simp [shownAt]) hv
      · cases f <;> simp [meCarried, ht] at hv <;> exact keyed_top _ (by simp [shownAt]) hv
    · cases h
      cases f <;> simp [meCarried] at hv
      exact keyed_top _ (by simp [shownAt]) hv

theorem meView_keyed (frame : List Nat) (kvs : List (Key × Json)) (pos : Option (Val × Val)) (f : Field) (v : Val)
    (hv : v ∈ meCarried (meView frame kvs pos) f) (h1 : f ≠ .latitude) (h2 : f ≠ .longitude) : Keyed kvs f v := by
  unfold meView at hv
  split at hv
  · cases f <;> simp [meCarried] at hv <;> first | exact absurd rfl h1 | exact absurd rfl h2 | skip
    exact keyed_top _ (by simp [shownAt]) hv
  · cases f <;> simp [meCarried] at hv <;> first | exact absurd rfl h1 | exact absurd rfl h2 | skip
    all_goals exact keyed_top _ (by simp [shownAt]) hv
  · cases h : fldV kvs (key! "callsign") <;> simp only [h, Option.map_none, Option.map_some, Option.getD_none,
      Option.getD_some] at hv
    · cases f <;> simp [meCarried] at hv
    · cases f <;> simp [meCarried] at hv
      subst hv; exact keyed_top _ (by simp [shownAt]) h
  · cases h : velocityView frame kvs <;> simp only [h, Option.map_none, Option.map_some, Option.getD_none,
      Option.getD_some] at hv
    · cases f <;> simp [meCarried] at hv
    · exact velocity_keyed frame kvs _ f v h hv
  · cases h : fldV kvs (key! "squawk") <;> simp only [h, Option.map_none, Option.map_some, Option.getD_none,
      Option.getD_some] at hv
    · cases f <;> simp [meCarried] at hv
    · cases f <;> simp [meCarried] at hv
      subst hv; exact keyed_top _ (by simp [shownAt]) h
  · cases h : fldV kvs (key! "NACp") <;> simp only [h, Option.map_none, Option.map_some, Option.getD_none,
      Option.getD_some] at hv
    · cases f <;> simp [meCarried] at hv
    · cases f <;> simp [meCarried] at hv
      · exact keyed_top _ (by simp [shownAt]) hv
      · subst hv; exact keyed_top _ (by simp [shownAt]) h
  · cases f <;> simp [meCarried] at hv
    exact keyed_top _ (by simp [shownAt]) hv
  · cases f <;> simp [meCarried] at hv

theorem commBView_keyed (kvs : List (Key × Json)) (f : Field) (v : Val)
    (hv : v ∈ commbCarried (commBView kvs) f) : Keyed kvs f v := by
  cases f <;> simp only [commbCarried, commBView] at hv
  case callsign =>
    cases hb : member kvs (key! "bds20") with
    | none => simp [hb] at hv
    | some b => simp [hb] at hv; exact keyed_nested _ _ b (by simp [shownAt]) hb hv
  case selectedAltitude =>
    cases hb : member kvs (key! "bds40") with
    | none => simp [hb] at hv
    | some b => simp [hb] at hv; exact keyed_nested _ _ b (by simp [shownAt]) hb hv
  all_goals first
    | (simp at hv; done)
    | (cases hb : member kvs (key! "bds50") with
       | none => simp [hb] at hv
       | some b => simp [hb] at hv; exact keyed_nested _ _ b (by simp [shownAt]) hb hv)
    | (cases hb : member kvs (key! "bds60") with
       | none => simp [hb] at hv
       | some b => simp [hb] at hv; exact keyed_nested _ _ b (by simp [shownAt]) hb hv)

theorem bodyView_keyed (frame : List Nat) (kvs : List (Key × Json)) (pos : Option (Val × Val)) (f : Field) (v : Val)
    (hv : v ∈ bodyCarried (bodyView frame kvs pos) f)
    (h1 : f ≠ .latitude) (h2 : f ≠ .longitude) (h3 : f ≠ .typecode) : Keyed kvs f v := by
  unfold bodyView at hv
  split at hv
  · cases h : fldV kvs (key! "squawk") <;> simp only [h, Option.map_none, Option.map_some, Option.getD_none,
      Option.getD_some] at hv
    · cases f <;> simp [bodyCarried] at hv
    · cases f <;> simp [bodyCarried] at hv
      subst hv; exact keyed_top _ (by simp [shownAt]) h
  · cases h : fldV kvs (key! "altitude") <;> simp only [h, Option.map_none, Option.map_some, Option.getD_none,
      Option.getD_some] at hv
    · cases f <;> simp [bodyCarried] at hv
    · cases f <;> simp [bodyCarried] at hv
      subst hv; exact keyed_top _ (by simp [shownAt]) h
  · exact meView_keyed frame kvs pos f v (by simpa [bodyCarried] using hv) h1 h2
  · refine meView_keyed frame kvs pos f v ?_ h1 h2
    cases f <;> first | exact absurd rfl h3 | simpa [bodyCarried] using hv
  · exact commBView_keyed kvs f v (by simpa [bodyCarried] using hv)
  · exact commBView_keyed kvs f v (by simpa [bodyCarried] using hv)
  · cases f <;> simp [bodyCarried] at hv

/-- the `GRND` marker is carried by the view of a message whose JSON says `"df": "18"`, and by no other -/
theorem bodyView_typecode (frame : List Nat) (kvs : List (Key × Json)) (pos : Option (Val × Val)) (v : Val)
    (hv : v ∈ bodyCarried (bodyView frame kvs pos) .typecode) :
    v = "GRND" ∧ (objGet kvs (key! "df")).bind strOf = some "18" := by
  unfold bodyView at hv
  split at hv
  · cases h : fldV kvs (key! "squawk") <;> simp [h, bodyCarried] at hv
  · cases h : fldV kvs (key! "altitude") <;> simp [h, bodyCarried] at hv
  · have := hv; simp only [bodyCarried] at this
    generalize meView frame kvs pos = me at this
    cases me <;> (try rename_i vel; cases vel) <;> simp [meCarried] at this
  · rename_i heq
    exact ⟨by simpa [bodyCarried] using hv, heq⟩
  · simp [bodyCarried, commbCarried] at hv
  · simp [bodyCarried, commbCarried] at hv
  · simp [bodyCarried] at hv

/-- **Key-path provenance of the view** — for every quantity other than the position and the type-code
    marker: a value the view of a decoded message carries for `f` is the text of the member of THAT
    message's JSON at one of the paths `shownAt f` -/
theorem view_keyed (ts : Nat) (frame : List Nat) (kvs : List (Key × Json)) (pos : Option (Val × Val)) (f : Field)
    (v : Val) (hv : v ∈ carried (viewOfJson ts frame (.obj kvs) pos) f)
    (h1 : f ≠ .latitude) (h2 : f ≠ .longitude) (h3 : f ≠ .typecode) : Keyed kvs f v :=
  bodyView_keyed frame kvs pos f v hv h1 h2 h3

/-- the same for the record of a reception: its frame decodes, and the value sits in the decoded JSON -/
theorem record_keyed (x : Rx) (f : Field) (v : Val) (hv : v ∈ carried x.record f)
    (h1 : f ≠ .latitude) (h2 : f ≠ .longitude) (h3 : f ≠ .typecode) :
    ∃ kvs, Message.tryFrom x.frame = .ok (.json (.obj kvs)) ∧ Keyed kvs f v := by
  unfold Rx.record recordOfFrame at hv
  split at hv
  · rename_i j heq
    cases j with
    | obj kvs => exact ⟨kvs, heq, view_keyed _ _ kvs _ f v hv h1 h2 h3⟩
    | _ => cases f <;> simp [viewOfJson, undecoded, carried, bodyCarried] at hv
  · cases f <;> simp [undecoded, carried, bodyCarried] at hv

theorem record_typecode (x : Rx) (v : Val) (hv : v ∈ carried x.record .typecode) :
    v = "GRND" ∧ ∃ kvs, Message.tryFrom x.frame = .ok (.json (.obj kvs)) ∧
      (objGet kvs (key! "df")).bind strOf = some "18" := by
  unfold Rx.record recordOfFrame at hv
  split at hv
  · rename_i j heq
    cases j with
    | obj kvs =>
      obtain ⟨h1, h2⟩ := bodyView_typecode x.frame kvs x.pos v hv
      exact ⟨h1, kvs, heq, h2⟩
    | _ => simp [viewOfJson, undecoded, carried, bodyCarried] at hv
  · simp [undecoded, carried, bodyCarried] at hv

end Rs1090.Proofs.SnapshotKeyed
