/-
C14 — United States (`n_reg`): never panics; what it returns is well formed, comes from exactly one address
(mixed-radix left inverse), and lies in a block whose national pattern matches `N`.
-/
import Rs1090.Proofs.TailDefs
namespace Rs1090.Proofs.Tail
open Rs1090 Rs1090.Model.Tail Rs1090.Gen.Tail

theorem limited_len : LIMITED_ALPHABET.length = 24 := by decide

/-! unchecked versions of the three functions -/
def letterP (rem : Nat) : List Nat := if rem = NL_ZERO then [] else [rem - NL_DEC]
def lettersP (rem : Nat) : List Nat :=
  if rem = NLS_ZERO then [] else ((rem - NLS_DEC) / NLS_DIV) :: letterP ((rem - NLS_DEC) % NLS_MOD)

def nRegP (h : Nat) : Option Reg :=
  let off := wsub32 h N_BASE
  if N_COUNT ≤ off then none else
  let d1 := off / N_D1_DIV + N_D1_ADD
  let off := off % N_D1_MOD
  if off ≤ N_L1_MAX then some (.n [d1] (lettersP off)) else
  let off := off - N_L1_SUB
  let d2 := off / N_D2_DIV
  let off := off % N_D2_MOD
  if off ≤ N_L2_MAX then some (.n [d1, d2] (lettersP off)) else
  let off := off - N_L2_SUB
  let d3 := off / N_D3_DIV
  let off := off % N_D3_MOD
  if off ≤ N_L3_MAX then some (.n [d1, d2, d3] (lettersP off)) else
  let off := off - N_L3_SUB
  let d4 := off / N_D4_DIV
  let off := off % N_D4_MOD
  if off ≤ N_L4_MAX then some (.n [d1, d2, d3, d4] (letterP off)) else
  some (.n [d1, d2, d3, d4, off - N_L4_SUB] [])

theorem nLetter_eq (rem : Nat) (h : rem ≤ 24) : nLetter rem = .ok (letterP rem) := by
  unfold nLetter letterP
  simp only [NL_ZERO, NL_DEC]
  split
  · rfl
  · rw [subU_ok (by omega), Outcome.bind_ok, nthU_ok (by rw [limited_len]; omega), Outcome.bind_ok]

theorem nLetters_eq (rem : Nat) (h : rem ≤ 600) : nLetters rem = .ok (lettersP rem) := by
  unfold nLetters lettersP
  simp only [NLS_ZERO, NLS_DEC, NLS_DIV, NLS_MOD]
  split
  · rfl
  · rw [subU_ok (by omega), Outcome.bind_ok, divU_ok (by omega), Outcome.bind_ok,
      nthU_ok (by rw [limited_len]; omega), Outcome.bind_ok, modU_ok (by omega), Outcome.bind_ok,
      nLetter_eq _ (by omega), Outcome.bind_ok]

/-- totality of `n_reg`: every checked operation succeeds, for every `h` -/
theorem nReg_eq (h : Nat) : nReg h = .ok (nRegP h) := by
  unfold nReg nRegP
  simp only [N_COUNT, N_D1_DIV, N_D1_ADD, N_D1_MOD, N_L1_MAX, N_L1_SUB, N_D2_DIV, N_D2_MOD, N_L2_MAX,
    N_L2_SUB, N_D3_DIV, N_D3_MOD, N_L3_MAX, N_L3_SUB, N_D4_DIV, N_D4_MOD, N_L4_MAX, N_L4_SUB]
  generalize wsub32 h N_BASE = off
  split
  · rfl
  · rw [divU_ok (by omega), Outcome.bind_ok, addU_ok (by omega), Outcome.bind_ok, modU_ok (by omega), Outcome.bind_ok]
    split
    · rw [nLetters_eq _ (by omega), Outcome.bind_ok]
    · rw [subU_ok (by omega), Outcome.bind_ok, divU_ok (by omega), Outcome.bind_ok, modU_ok (by omega), Outcome.bind_ok]
      split
      · rw [nLetters_eq _ (by omega), Outcome.bind_ok]
      · rw [subU_ok (by omega), Outcome.bind_ok, divU_ok (by omega), Outcome.bind_ok, modU_ok (by omega), Outcome.bind_ok]
        split
        · rw [nLetters_eq _ (by omega), Outcome.bind_ok]
        · rw [subU_ok (by omega), Outcome.bind_ok, divU_ok (by omega), Outcome.bind_ok, modU_ok (by omega), Outcome.bind_ok]
          split
          · rw [nLetter_eq _ (by omega), Outcome.bind_ok]
          · rw [subU_ok (by omega), Outcome.bind_ok]

theorem letterP_spec (rem : Nat) (h : rem ≤ 24) :
    (∀ l ∈ letterP rem, l < 24) ∧ letterInv (letterP rem) = rem := by
  unfold letterP
  simp only [NL_ZERO, NL_DEC]
  split
  · simp [letterInv, NL_ZERO]; omega
  · simp [letterInv, NL_DEC]; omega

theorem lettersP_spec (rem : Nat) (h : rem ≤ 600) :
    (∀ l ∈ lettersP rem, l < 24) ∧ lettersInv (lettersP rem) = rem := by
  unfold lettersP
  simp only [NLS_ZERO, NLS_DEC, NLS_DIV, NLS_MOD]
  split
  · simp [lettersInv, NLS_ZERO]; omega
  · have := letterP_spec ((rem - 1) % 25) (by omega)
    refine ⟨?_, ?_⟩
    · intro l hl
      rcases List.mem_cons.mp hl with rfl | hl
      · omega
      · exact this.1 l hl
    · simp only [lettersInv, this.2, NLS_DIV, NLS_DEC]; omega

theorem wsub32_lt {h b c : Nat} (hh : h < 4294967296) (hb : b < 4294967296) (hc : ¬ c ≤ wsub32 h b)
    (hcb : b + c ≤ 4294967296) : b ≤ h ∧ wsub32 h b = h - b := by
  unfold wsub32 at *
  simp only [Nat.reducePow] at *
  omega

set_option maxRecDepth 20000 in
/-- the registrations of `n_reg` are well formed and determine the address -/
theorem nRegP_spec (h : Nat) (hh : h < 2 ^ 32) (r : Reg) (hr : nRegP h = some r) :
    wf r ∧ inv r = h ∧ N_BASE ≤ h ∧ h ≤ N_BASE + N_COUNT - 1 := by
  unfold nRegP at hr
  simp only [N_COUNT, N_D1_DIV, N_D1_ADD, N_D1_MOD, N_L1_MAX, N_L1_SUB, N_D2_DIV, N_D2_MOD, N_L2_MAX,
    N_L2_SUB, N_D3_DIV, N_D3_MOD, N_L3_MAX, N_L3_SUB, N_D4_DIV, N_D4_MOD, N_L4_MAX, N_L4_SUB] at hr
  split at hr
  · cases hr
  · rename_i hc
    have hw : N_BASE ≤ h ∧ wsub32 h N_BASE = h - N_BASE := by
      unfold wsub32 at hc ⊢
      simp only [N_BASE, Nat.reducePow] at hc hh ⊢
      omega
    obtain ⟨hb, hoff⟩ := hw
    rw [hoff] at hr hc
    generalize hoffdef : h - N_BASE = off at hr hc
    simp only [N_BASE] at hb hoffdef
    have hrange : N_BASE ≤ h ∧ h ≤ N_BASE + N_COUNT - 1 := by simp only [N_BASE, N_COUNT]; omega
    refine (fun (x : wf r ∧ inv r = h) => ⟨x.1, x.2, hrange⟩) ?_
    split at hr
    · rename_i h1
      have hl := lettersP_spec (off % 101711) h1
      cases hr
      refine ⟨⟨by simp; omega, by simpa [limited_len] using hl.1⟩, ?_⟩
      simp only [inv, nInv, hl.2, N_BASE, N_D1_ADD, N_D1_DIV]; omega
    · rename_i h1
      split at hr
      · rename_i h2
        have hl := lettersP_spec _ h2
        cases hr
        refine ⟨⟨by simp; omega, by simpa [limited_len] using hl.1⟩, ?_⟩
        simp only [inv, nInv, hl.2, N_BASE, N_D1_ADD, N_D1_DIV, N_L1_SUB, N_D2_DIV]; omega
      · rename_i h2
        split at hr
        · rename_i h3
          have hl := lettersP_spec _ h3
          cases hr
          refine ⟨⟨by simp; omega, by simpa [limited_len] using hl.1⟩, ?_⟩
          simp only [inv, nInv, hl.2, N_BASE, N_D1_ADD, N_D1_DIV, N_L1_SUB, N_D2_DIV, N_L2_SUB, N_D3_DIV]; omega
        · rename_i h3
          split at hr
          · rename_i h4
            have hl := letterP_spec _ h4
            cases hr
            refine ⟨⟨by simp; omega, by simpa [limited_len] using hl.1⟩, ?_⟩
            simp only [inv, nInv, hl.2, N_BASE, N_D1_ADD, N_D1_DIV, N_L1_SUB, N_D2_DIV, N_L2_SUB, N_D3_DIV,
              N_L3_SUB, N_D4_DIV]; omega
          · rename_i h4
            cases hr
            refine ⟨⟨by simp; omega, by simp⟩, ?_⟩
            simp only [inv, nInv, N_BASE, N_D1_ADD, N_D1_DIV, N_L1_SUB, N_D2_DIV, N_L2_SUB, N_D3_DIV,
              N_L3_SUB, N_D4_DIV, N_L4_SUB]; omega

theorem n_country : countryOkB N_BASE (N_BASE + N_COUNT - 1) ['N'] = true := by decide +kernel

theorem nRegP_key (h : Nat) (r : Reg) (hr : nRegP h = some r) : key r = ['N'] := by
  unfold nRegP at hr
  simp only at hr
  repeat' split at hr
  all_goals (cases hr <;> rfl)

theorem nReg_good (h : Nat) (hh : h < 2 ^ 32) : Good h (nReg h) := by
  refine ⟨nRegP h, nReg_eq h, ?_⟩
  intro r hr
  obtain ⟨h1, h2, h3, h4⟩ := nRegP_spec h hh r hr
  refine ⟨h1, h2, ?_⟩
  apply countryFact_of (lo := N_BASE) (hi := N_BASE + N_COUNT - 1) _ h3 h4
  rw [nRegP_key h r hr]; exact n_country

end Rs1090.Proofs.Tail
