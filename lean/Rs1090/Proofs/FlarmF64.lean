/-
C15 helper lemmas: what the f64 code adds to the exact model of `decode_groundspeed` / `decode_track`.

  * `groundspeed_bounds`: the ground speed of the MODEL (exact ℚ, `sqrt` a parameter) lies in `[0, 136]` under the explicit
    hypothesis `SqrtSound` on the parameter (`0 ≤ sqrt x`, `sqrt x · sqrt x ≤ x + 1`, asked on `[0, 18432]` only);
  * `fGroundspeed_bounds`: the same for a float-level model with EVERY operation rounded by an `fl` satisfying
    `Rounding fl` (in particular IEEE-754 `fl64`): every intermediate is in `[0, 18432]` — no overflow, no NaN;
  * `wrapR_ieee`, `remEuclidR_ieee_eq_360_iff`: the last two statements of `decode_track` with the ONE rounded
    operation of `f64::rem_euclid` (`r + 360.`) being the IEEE-754 addition: the result is in `[0, 360)`, and the
    corner arm `if track >= 360. { 0. }` is taken exactly when `−2⁻⁴⁵ ≤ track % 360. < 0`.
-/
import Rs1090.Proofs.FlarmTrack
import Rs1090.Proofs.F64Wrap
import Mathlib.Tactic.Linarith
import Mathlib.Tactic.Ring
import Mathlib.Tactic.NormNum
namespace Rs1090.Proofs.Flarm
open Rs1090 Rs1090.Model.Flarm Rs1090.Gen.Flarm
open Rs1090.Proofs.CprFloat Rs1090.Proofs.IeeeRound Rs1090.Proofs.F64Wrap

/-- **hypothesis on the `sqrt` parameter** (asked only on the range the decoder uses, `0 ≤ x ≤ 2·96²`): the result
    is non-negative and its square exceeds `x` by at most 1.  True of the real square root, and of the correctly
    rounded binary64 one (`s² ≤ x(1 + 2⁻⁵³)² ≤ x + 10⁻¹¹` there). -/
def SqrtSound (sqrt : Rat → Rat) : Prop := ∀ x, 0 ≤ x → x ≤ 18432 → 0 ≤ sqrt x ∧ sqrt x * sqrt x ≤ x + 1

theorem SqrtSound.le {sqrt : Rat → Rat} (h : SqrtSound sqrt) {x : Rat} (h0 : 0 ≤ x) (h1 : x ≤ 18432) :
    0 ≤ sqrt x ∧ sqrt x ≤ 136 := by
  obtain ⟨a, b⟩ := h x h0 h1
  refine ⟨a, ?_⟩
  by_contra hc
  have hc := not_le.mp hc
  nlinarith

/-- a velocity component (`i8 × mult`, `mult ≤ 3`) -/
@[reducible] def VelOk (p : Int × Int) : Prop := (-384 ≤ p.1 ∧ p.1 ≤ 381) ∧ (-384 ≤ p.2 ∧ p.2 ≤ 381)

theorem sq_quarter_bound (n : Int) (h1 : -384 ≤ n) (h2 : n ≤ 381) :
    0 ≤ (n : Rat) / 4 * ((n : Rat) / 4) ∧ (n : Rat) / 4 * ((n : Rat) / 4) ≤ 9216 := by
  have a : (-384 : Rat) ≤ (n : Rat) := by exact_mod_cast h1
  have b : (n : Rat) ≤ 381 := by exact_mod_cast h2
  constructor
  · exact mul_self_nonneg _
  · nlinarith

/-- one step of the `map(..).sum()` of `decode_groundspeed` in the model -/
def gsStep (F : FloatOps) (acc : Rat) (p : Int × Int) : Rat :=
  let a : Rat := (p.1 : Rat) / (SPEED_COMP_DIV_NS : Rat)
  let b : Rat := (p.2 : Rat) / (SPEED_COMP_DIV_EW : Rat)
  acc + F.sqrt (a * a + b * b)

theorem groundspeed_eq (F : FloatOps) (ns ew : List Int) :
    groundspeed F ns ew = ((ns.zip ew).foldl (gsStep F) 0) / (SPEED_MEAN_DIV : Rat) := rfl

theorem gsStep_bound (F : FloatOps) (hs : SqrtSound F.sqrt) (acc : Rat) (p : Int × Int) (hp : VelOk p) :
    acc ≤ gsStep F acc p ∧ gsStep F acc p ≤ acc + 136 := by
  unfold gsStep
  simp only [SPEED_COMP_DIV_NS, SPEED_COMP_DIV_EW, Nat.cast_ofNat]
  have a := sq_quarter_bound p.1 hp.1.1 hp.1.2
  have b := sq_quarter_bound p.2 hp.2.1 hp.2.2
  have := hs.le (x := (p.1 : Rat) / 4 * ((p.1 : Rat) / 4) + (p.2 : Rat) / 4 * ((p.2 : Rat) / 4))
    (by linarith [a.1, b.1]) (by linarith [a.2, b.2])
  constructor <;> linarith [this.1, this.2]

theorem gsFold_bound (F : FloatOps) (hs : SqrtSound F.sqrt) :
    ∀ (l : List (Int × Int)) (acc : Rat), (∀ p ∈ l, VelOk p) →
      acc ≤ l.foldl (gsStep F) acc ∧ l.foldl (gsStep F) acc ≤ acc + 136 * (l.length : Rat) := by
  intro l
  induction l with
  | nil => intro acc _; simp
  | cons p l ih =>
    intro acc h
    have h1 := gsStep_bound F hs acc p (h p (by simp))
    have h2 := ih (gsStep F acc p) (fun q hq => h q (by simp [hq]))
    simp only [List.foldl_cons, List.length_cons, Nat.cast_add, Nat.cast_one]
    constructor <;> linarith [h1.1, h1.2, h2.1, h2.2]

theorem zip_velOk (ns ew : List Int) (hb : ∀ x ∈ ns ++ ew, -384 ≤ x ∧ x ≤ 381) :
    ∀ p ∈ ns.zip ew, VelOk p := by
  intro p hp
  obtain ⟨a, b⟩ := List.of_mem_zip (a := p.1) (b := p.2) hp
  exact ⟨hb _ (by simp [a]), hb _ (by simp [b])⟩

/-- **the model's ground speed lies in `[0, 136]` kt-units** (four samples, each `√((n/4)² + (e/4)²) ≤ 136`, mean) -/
theorem groundspeed_bounds (F : FloatOps) (hs : SqrtSound F.sqrt) (ns ew : List Int)
    (hl : ns.length = 4) (hb : ∀ x ∈ ns ++ ew, -384 ≤ x ∧ x ≤ 381) :
    0 ≤ groundspeed F ns ew ∧ groundspeed F ns ew ≤ 136 := by
  rw [groundspeed_eq]
  have h := gsFold_bound F hs (ns.zip ew) 0 (zip_velOk ns ew hb)
  have hlen : ((ns.zip ew).length : Rat) ≤ 4 := by
    have : (ns.zip ew).length ≤ 4 := by rw [List.length_zip, hl]; exact Nat.min_le_left _ _
    exact_mod_cast this
  simp only [SPEED_MEAN_DIV, Nat.cast_ofNat]
  constructor
  · apply div_nonneg <;> linarith [h.1]
  · rw [div_le_iff₀ (by norm_num)]; linarith [h.2]

/-! ### the same with every operation rounded -/

/-- one step of `decode_groundspeed` in f64: `n as f64 / 4.0`, `e as f64 / 4.0`, two products, a sum, `sqrt`
    (the parameter: its result is a binary64 value already), the running sum -/
def fGsStep (fl sqrt : Rat → Rat) (acc : Rat) (p : Int × Int) : Rat :=
  let a := fl ((p.1 : Rat) / 4)
  let b := fl ((p.2 : Rat) / 4)
  fl (acc + sqrt (fl (fl (a * a) + fl (b * b))))

/-- `decode_groundspeed` in f64 -/
def fGroundspeed (fl sqrt : Rat → Rat) (ns ew : List Int) : Rat :=
  fl ((ns.zip ew).foldl (fGsStep fl sqrt) 0 / 4)

theorem f64exact_nat (n : Nat) (h : n < 2 ^ 50) : F64Exact (n : Rat) := by
  have := F64Wrap.f64exact_int (n : Int) (by rw [abs_of_nonneg (by positivity)]; omega)
  exact_mod_cast this

theorem _root_.Rs1090.Proofs.CprFloat.Rounding.between {fl : Rat → Rat} (R : Rounding fl) {x lo hi : Rat}
    (hlo : F64Exact lo) (hhi : F64Exact hi) (h1 : lo ≤ x) (h2 : x ≤ hi) : lo ≤ fl x ∧ fl x ≤ hi := by
  have a := R.mono _ _ h1
  have b := R.mono _ _ h2
  rw [R.exact _ hlo] at a
  rw [R.exact _ hhi] at b
  exact ⟨a, b⟩

theorem fe0 : F64Exact (0 : Rat) := by have := f64exact_nat 0 (by norm_num); simpa using this
theorem fe9216 : F64Exact (9216 : Rat) := by have := f64exact_nat 9216 (by norm_num); simpa using this
theorem fe18432 : F64Exact (18432 : Rat) := by have := f64exact_nat 18432 (by norm_num); simpa using this
theorem fe136 : F64Exact (136 : Rat) := by have := f64exact_nat 136 (by norm_num); simpa using this

theorem fGsStep_bound {fl sqrt : Rat → Rat} (R : Rounding fl) (hs : SqrtSound sqrt) (k : Nat) (hk : k < 1000)
    (acc : Rat) (p : Int × Int) (hp : VelOk p) (h0 : 0 ≤ acc) (h1 : acc ≤ ((136 * k : Nat) : Rat)) :
    0 ≤ fGsStep fl sqrt acc p ∧ fGsStep fl sqrt acc p ≤ ((136 * (k + 1) : Nat) : Rat) := by
  unfold fGsStep
  have ea : fl ((p.1 : Rat) / 4) = (p.1 : Rat) / 4 := by
    apply R.exact
    have := f64exact_int_div_pow2 p.1 2 (abs_lt.mpr ⟨by have := hp.1.1; omega, by have := hp.1.2; omega⟩) (by norm_num)
    norm_num at this ⊢; exact this
  have eb : fl ((p.2 : Rat) / 4) = (p.2 : Rat) / 4 := by
    apply R.exact
    have := f64exact_int_div_pow2 p.2 2 (abs_lt.mpr ⟨by have := hp.2.1; omega, by have := hp.2.2; omega⟩) (by norm_num)
    norm_num at this ⊢; exact this
  simp only [ea, eb]
  have a := sq_quarter_bound p.1 hp.1.1 hp.1.2
  have b := sq_quarter_bound p.2 hp.2.1 hp.2.2
  generalize (p.1 : Rat) / 4 * ((p.1 : Rat) / 4) = A at a ⊢
  generalize (p.2 : Rat) / 4 * ((p.2 : Rat) / 4) = B at b ⊢
  have a' := R.between fe0 fe9216 a.1 a.2
  have b' := R.between fe0 fe9216 b.1 b.2
  have c' := R.between (x := fl A + fl B) fe0 fe18432 (by linarith [a'.1, b'.1]) (by linarith [a'.2, b'.2])
  have s := hs.le c'.1 c'.2
  have hK : F64Exact (((136 * (k + 1) : Nat)) : Rat) := f64exact_nat _ (by omega)
  have := R.between (x := acc + sqrt (fl (fl A + fl B))) fe0 hK (by linarith [s.1])
    (by push_cast at h1 ⊢; linarith [s.2])
  exact this

theorem fGsFold_bound {fl sqrt : Rat → Rat} (R : Rounding fl) (hs : SqrtSound sqrt) :
    ∀ (l : List (Int × Int)) (k : Nat) (acc : Rat), k + l.length < 1000 → (∀ p ∈ l, VelOk p) →
      0 ≤ acc → acc ≤ ((136 * k : Nat) : Rat) →
      0 ≤ l.foldl (fGsStep fl sqrt) acc ∧ l.foldl (fGsStep fl sqrt) acc ≤ ((136 * (k + l.length) : Nat) : Rat) := by
  intro l
  induction l with
  | nil => intro k acc _ _ h0 h1; exact ⟨h0, by simpa using h1⟩
  | cons p l ih =>
    intro k acc hk h h0 h1
    simp only [List.length_cons] at hk
    have s := fGsStep_bound R hs k (by omega) acc p (h p (by simp)) h0 h1
    have := ih (k + 1) (fGsStep fl sqrt acc p) (by omega) (fun q hq => h q (by simp [hq])) s.1 s.2
    simp only [List.foldl_cons, List.length_cons]
    rw [show k + (l.length + 1) = k + 1 + l.length by omega]
    exact this

/-- **`decode_groundspeed` in f64 returns a value in `[0, 136]`, and every intermediate is in `[0, 18432]`**, for
    every rounding satisfying `Rounding` (IEEE-754: `rounding_fl64`) and every `sqrt` satisfying `SqrtSound`:
    nothing overflows, no NaN arises (the argument of `sqrt` is `≥ 0`). -/
theorem fGroundspeed_bounds {fl sqrt : Rat → Rat} (R : Rounding fl) (hs : SqrtSound sqrt) (ns ew : List Int)
    (hl : ns.length = 4) (hb : ∀ x ∈ ns ++ ew, -384 ≤ x ∧ x ≤ 381) :
    0 ≤ fGroundspeed fl sqrt ns ew ∧ fGroundspeed fl sqrt ns ew ≤ 136 := by
  unfold fGroundspeed
  have hlen : (ns.zip ew).length ≤ 4 := by rw [List.length_zip, hl]; exact Nat.min_le_left _ _
  have h := fGsFold_bound R hs (ns.zip ew) 0 0 (by omega) (zip_velOk ns ew hb) le_rfl (by simp)
  have hle : (((136 * (0 + (ns.zip ew).length) : Nat)) : Rat) ≤ 544 := by
    have : 136 * (0 + (ns.zip ew).length) ≤ 544 := by omega
    exact_mod_cast this
  exact R.between (x := (ns.zip ew).foldl (fGsStep fl sqrt) 0 / 4) fe0 fe136
    (by apply div_nonneg; exact h.1; norm_num)
    (by rw [div_le_iff₀ (by norm_num)]; linarith [h.2])

/-- `SqrtSound` is satisfiable: the integer square root of the integer part -/
def isqrt (x : Rat) : Rat := ((Nat.sqrt x.floor.toNat : Nat) : Rat)

theorem isqrt_sound : SqrtSound isqrt := by
  intro x h0 _
  unfold isqrt
  refine ⟨by positivity, ?_⟩
  have h1 : Nat.sqrt x.floor.toNat * Nat.sqrt x.floor.toNat ≤ x.floor.toNat := Nat.sqrt_le _
  have h2 : ((x.floor.toNat : Nat) : Int) = x.floor := Int.toNat_of_nonneg (by
    have b := Rat.lt_floor_add_one x
    have : ((-1 : Int) : Rat) < ((x.floor : Int) : Rat) := by push_cast at b ⊢; linarith
    have := Int.cast_lt.mp this
    omega)
  have h3 : ((x.floor : Int) : Rat) ≤ x := Rat.floor_le x
  have h4 : (((Nat.sqrt x.floor.toNat * Nat.sqrt x.floor.toNat : Nat)) : Rat) ≤ ((x.floor.toNat : Nat) : Rat) := by
    exact_mod_cast h1
  have h5 : ((x.floor.toNat : Nat) : Rat) = ((x.floor : Int) : Rat) := by exact_mod_cast congrArg (Int.cast (R := Rat)) h2
  push_cast at h4
  linarith

/-! ### the final wrap with the IEEE-754 addition -/

/-- **the last two statements of `decode_track` in binary64**: `track.rem_euclid(360.)` (fmod exact, the addition
    `r + 360.` rounded to nearest-even) followed by `if track >= 360. { 0. }` is in `[0, 360)` for EVERY `track` -/
theorem wrapR_ieee (t : Rat) : 0 ≤ wrapR fl64 t ∧ wrapR fl64 t < 360 :=
  wrapR_range fl64 (fun _ _ h => fl64_mono h) fl64_zero fl64_360 t

/-- **the sharp corner**: std's `rem_euclid` returns exactly 360.0 iff the truncated remainder is in `[−2⁻⁴⁵, 0)` -/
theorem remEuclidR_ieee_eq_360_iff (t : Rat) :
    remEuclidR fl64 t 360 = 360 ↔ (-(1 / 2 ^ 45) ≤ fmodPos t 360 ∧ fmodPos t 360 < 0) := by
  unfold remEuclidR
  have h := fmodPos_range t 360 (by norm_num)
  simp only
  split
  · rename_i hneg
    rw [wrap360_eq_iff (le_of_lt hneg)]
    exact ⟨fun a => ⟨a, hneg⟩, fun a => a.1⟩
  · rename_i hpos
    constructor
    · intro e; linarith [h.2]
    · intro a; exact absurd a.2 hpos

/-- … and it is reached, by IEEE rounding itself (not by an artificial one): `track = −2⁻⁴⁶` -/
theorem remEuclidR_ieee_corner :
    remEuclidR fl64 (-(1 / 2 ^ 46)) 360 = 360 ∧ wrapR fl64 (-(1 / 2 ^ 46)) = 0 := by
  have hf : fmodPos (-(1 / 2 ^ 46)) 360 = -(1 / 2 ^ 46) := by
    unfold fmodPos remEuclid
    rw [if_neg (by norm_num)]
    have : ((-(-(1 / 2 ^ 46 : Rat)) / 360).floor : Int) = 0 := by
      have a := Rat.floor_le (-(-(1 / 2 ^ 46 : Rat)) / 360)
      have b := Rat.lt_floor_add_one (-(-(1 / 2 ^ 46 : Rat)) / 360)
      have a' : (((-(-(1 / 2 ^ 46 : Rat)) / 360).floor : Int) : Rat) < ((1 : Int) : Rat) := by
        push_cast; norm_num at a ⊢; linarith
      have b' : ((-1 : Int) : Rat) < (((-(-(1 / 2 ^ 46 : Rat)) / 360).floor : Int) : Rat) := by
        push_cast at b ⊢; norm_num at b ⊢; linarith
      have a'' := Int.cast_lt.mp a'
      have b'' := Int.cast_lt.mp b'
      omega
    rw [this]; norm_num
  have h1 : remEuclidR fl64 (-(1 / 2 ^ 46)) 360 = 360 :=
    (remEuclidR_ieee_eq_360_iff _).mpr (by rw [hf]; constructor <;> norm_num)
  refine ⟨h1, ?_⟩
  unfold wrapR
  simp only [WRAP_FULL, WRAP_CORNER, WRAP_CORNER_VALUE, Nat.cast_ofNat, Nat.cast_zero]
  rw [h1]; simp

end Rs1090.Proofs.Flarm
