/-
The checksum gate of `Message::from_reader_with_ctx` and the address/parity overlay, on the
decoder model (Model/Decode/Message.lean).
-/
import Rs1090.Proofs.CrcModel
import Rs1090.Model.Decode.Message
namespace Rs1090.Proofs.Crc
open Rs1090 Rs1090.Spec.Crc Rs1090.Model Rs1090.Model.Message

/-- the checksum gate of `decodeBuf`, on a long frame -/
theorem frameBits_long (b0 : Nat) (h : (b0 >>> 3) &&& 0x10 ≠ 0) : frameBits b0 = 112 := by
  simp [frameBits, h]

theorem frameBits_short (b0 : Nat) (h : (b0 >>> 3) &&& 0x10 = 0) : frameBits b0 = 56 := by
  simp [frameBits, h]

/-- remainder of a frame as a number -/
def syndrome (frame : List Nat) : Nat := (polyMod (bits frame)).toNat

/-- the `DF` parser run on the buffered bytes with context `crc`, state dropped
    (the last step of `decodeBuf`) -/
def parseDF (crc : Nat) (buf : List Nat) : Outcome SerFields :=
  match (df crc).run buf with
  | .err e => .err e
  | .panic x => .panic x
  | .ok (v, _) => .ok v

/-- **DF17 with a non-zero remainder is rejected** at the checksum gate -/
theorem decodeBuf_df17_reject (b0 : Nat) (buf : List Nat) (hlen : buf.length = 14) (hb : Bytes buf)
    (hdf : b0 >>> 3 = 17) (hs : syndrome buf ≠ 0) : decodeBuf b0 buf = .err .assertion := by
  have hf : frameBits b0 = 8 * buf.length := by
    rw [frameBits_long b0 (by rw [hdf]; decide), hlen]
  unfold decodeBuf
  rw [hf, modesChecksum_eq buf (by omega) hb]
  have : syndrome buf > 0 := by omega
  simp [hdf, syndrome] at *
  omega

/-- **DF17 with remainder zero passes the gate**: the outcome is that of the `DF` parser -/
theorem decodeBuf_df17_pass (b0 : Nat) (buf : List Nat) (hlen : buf.length = 14) (hb : Bytes buf)
    (hdf : b0 >>> 3 = 17) (hs : syndrome buf = 0) :
    decodeBuf b0 buf = parseDF 0 buf := by
  have hf : frameBits b0 = 8 * buf.length := by
    rw [frameBits_long b0 (by rw [hdf]; decide), hlen]
  unfold decodeBuf
  rw [hf, modesChecksum_eq buf (by omega) hb]
  simp only [syndrome] at hs
  simp [hdf, hs]
  rfl

/-- for any other format the remainder is handed to the `DF` parser as context -/
theorem decodeBuf_other (b0 : Nat) (buf : List Nat) (hlen : 8 * buf.length = frameBits b0) (hb : Bytes buf)
    (hdf : b0 >>> 3 ≠ 17) :
    decodeBuf b0 buf = parseDF (syndrome buf) buf := by
  have h3 : 3 ≤ buf.length := by
    unfold frameBits at hlen; split at hlen <;> omega
  unfold decodeBuf
  rw [← hlen, modesChecksum_eq buf h3 hb]
  simp [hdf, syndrome]
  rfl

/-! ### the `DF` parser reports its context as `icao24` for the address/parity formats -/

theorem bitsBE_df (b0 : Nat) (rest : List Nat) (h : b0 < 256) : bitsBE (b0 :: rest) 0 5 = b0 >>> 3 := by
  simp only [bitsBE, bitAt, Nat.zero_add, Nat.shiftRight_eq_div_pow]
  simp
  omega

theorem enumId5 (b0 : Nat) (rest : List Nat) (h : b0 < 256) :
    enumId 5 (Rd.init (b0 :: rest)) = .ok (b0 >>> 3, { bytes := b0 :: rest, p := 5, last := 5, nread := 5 }) := by
  simp [enumId, Model.bits, Rd.init, ceilDiv8, bitsBE_df b0 rest h]

/-- every successful run of `m` ends in a value satisfying `P` -/
def Ends {α} (P : α → Prop) (m : R α) : Prop := ∀ s v s', m s = .ok (v, s') → P v

theorem Ends_bind {α β} (P : β → Prop) (m : R α) (f : α → R β) (h : ∀ a, Ends P (f a)) :
    Ends P (m.bind f) := by
  intro s v s' hr
  simp only [R.bind] at hr
  split at hr
  · exact h _ _ _ _ hr
  · cases hr
  · cases hr

theorem Ends_pure {α} (P : α → Prop) (a : α) (h : P a) : Ends P (R.pure a) := by
  intro s v s' hr
  simp only [R.pure] at hr
  cases hr; exact h

/-- the serialised object, if there is one, ends with the field `icao24 = hex6(crc)` -/
def LastIcao (crc : Nat) (v : SerFields) : Prop :=
  ∀ fs, v = .ok fs → fs.getLast? = some (fld (key! "icao24") (jhex6 crc))

theorem lastIcao_withFields (crc : Nat) (pre : Fields) (b : SerFields) :
    LastIcao crc (withFields pre b [fld (key! "icao24") (jhex6 crc)]) := by
  intro fs h
  cases b with
  | error e => simp [withFields, Except.map] at h
  | ok x =>
    simp only [withFields, Except.map] at h
    cases h
    simp

theorem df_last_icao (crc b0 : Nat) (rest : List Nat) (h : b0 < 256)
    (hdf : b0 >>> 3 = 0 ∨ b0 >>> 3 = 4 ∨ b0 >>> 3 = 5 ∨ b0 >>> 3 = 16 ∨ b0 >>> 3 = 20 ∨ b0 >>> 3 = 21)
    (v : SerFields) (s : Rd) (hr : (df crc).run (b0 :: rest) = .ok (v, s)) : LastIcao crc v := by
  unfold df R.run at hr
  simp only [bind, R.bind] at hr
  rw [enumId5 b0 rest h] at hr
  simp only [pure] at hr
  rcases hdf with e | e | e | e | e | e <;> rw [e] at hr <;> simp only at hr <;>
    refine (?_ : Ends (LastIcao crc) _) _ _ _ hr
  · iterate 3 (apply Ends_bind; intro _)
    apply Ends_pure; intro fs hfs
    injection hfs with hfs; subst hfs; simp
  · iterate 3 (apply Ends_bind; intro _)
    apply Ends_pure; intro fs hfs
    injection hfs with hfs; subst hfs; simp
  · iterate 3 (apply Ends_bind; intro _)
    apply Ends_pure; intro fs hfs
    injection hfs with hfs; subst hfs; simp
  · iterate 9 (apply Ends_bind; intro _)
    apply Ends_pure; intro fs hfs
    injection hfs with hfs; subst hfs; simp
  · iterate 4 (apply Ends_bind; intro _)
    apply Ends_pure
    exact lastIcao_withFields crc _ _
  · iterate 4 (apply Ends_bind; intro _)
    apply Ends_pure
    exact lastIcao_withFields crc _ _

/-! ### the overlay on the specification side -/

theorem apField_bits (data : List Nat) (a : Nat) :
    bits (apField data a) = bitsN 24 ((parity (bits data)).toNat ^^^ a) :=
  bits_pack _ (by simp [bitsN_length])

theorem pack_length (bs : List Bool) : (pack bs).length = bs.length / 8 := by
  fun_induction pack bs with
  | case1 b7 b6 b5 b4 b3 b2 b1 b0 rest ih => simp [ih]; omega
  | case2 bs hne =>
    match bs, hne with
    | [], _ => simp
    | [_], _ => simp
    | [_, _], _ => simp
    | [_, _, _], _ => simp
    | [_, _, _, _], _ => simp
    | [_, _, _, _, _], _ => simp
    | [_, _, _, _, _, _], _ => simp
    | [_, _, _, _, _, _, _], _ => simp
    | _ :: _ :: _ :: _ :: _ :: _ :: _ :: _ :: _, hne => exact absurd rfl (hne _ _ _ _ _ _ _ _ _)

theorem apField_length (data : List Nat) (a : Nat) : (apField data a).length = 3 := by
  rw [apField, pack_length, bitsN_length]

theorem valBE8_lt (b7 b6 b5 b4 b3 b2 b1 b0 : Bool) : valBE [b7, b6, b5, b4, b3, b2, b1, b0] < 256 :=
  by
  have := valBE_lt [b7, b6, b5, b4, b3, b2, b1, b0]
  simpa using this

theorem pack_bytes (bs : List Bool) : Bytes (pack bs) := by
  fun_induction pack bs with
  | case1 b7 b6 b5 b4 b3 b2 b1 b0 rest ih =>
    intro x hx
    simp only [List.mem_cons] at hx
    rcases hx with rfl | hx
    · exact valBE8_lt ..
    · exact ih x hx
  | case2 bs hne => intro x hx; simp at hx

theorem encodeAP_bytes (data : List Nat) (a : Nat) (hd : Bytes data) : Bytes (encodeAP data a) := by
  intro x hx
  simp only [encodeAP, List.mem_append] at hx
  rcases hx with hx | hx
  · exact hd x hx
  · exact pack_bytes _ x hx

theorem encodeAP_length (data : List Nat) (a : Nat) : (encodeAP data a).length = data.length + 3 := by
  simp [encodeAP, apField_length]

/-- **the overlay is undone by the remainder**: whatever the data, whatever the address -/
theorem syndrome_encodeAP (data : List Nat) (a : Nat) (ha : a < 2 ^ 24) :
    syndrome (encodeAP data a) = a := by
  unfold syndrome encodeAP
  rw [bits_append, apField_bits, polyMod_append24 _ _ (by simp [bitsN_length]), BitVec.toNat_xor,
    polyMod_short _ (by simp [bitsN_length]), valBE_bitsN]
  have hp := (parity (bits data)).isLt
  generalize (parity (bits data)).toNat = p at *
  rw [Nat.mod_eq_of_lt (Nat.xor_lt_two_pow hp ha), ← Nat.xor_assoc, Nat.xor_self, Nat.zero_xor]

/-! ### `Message::try_from` on a frame of the prescribed length -/

/-- the tail of `tryFrom`: an accepted parse is wrapped into the serialised message -/
def wrap : Outcome SerFields → Outcome Decoded
  | .err e => .err e
  | .panic x => .panic x
  | .ok v => .ok (toDecoded v)

theorem tryFrom_exact (b0 : Nat) (rest : List Nat) (hl : 8 * (b0 :: rest).length = frameBits b0) :
    tryFrom (b0 :: rest) = wrap (decodeBuf b0 (b0 :: rest)) := by
  have h8 : frameBits b0 / 8 = (b0 :: rest).length := by omega
  unfold tryFrom
  simp only [h8, Nat.lt_irrefl, ↓reduceIte, List.take_length, bne_self_eq_false, Bool.false_eq_true]
  cases decodeBuf b0 (b0 :: rest) <;> rfl

/-- acceptance implies the announced length (as C01's `accept_len_core`) -/
theorem tryFrom_ok_length (b0 : Nat) (rest : List Nat) (d : Decoded)
    (h : tryFrom (b0 :: rest) = .ok d) : 8 * (b0 :: rest).length = frameBits b0 := by
  have hf : frameBits b0 = 112 ∨ frameBits b0 = 56 := by
    unfold frameBits; split <;> simp
  simp only [tryFrom] at h
  split at h
  · cases h
  · split at h
    · cases h
    · cases h
    · split at h
      · cases h
      · rename_i hl
        simp only [bne_iff_ne, ne_eq, Decidable.not_not] at hl
        rcases hf with hf | hf <;> rw [hf] at hl ⊢ <;> omega

/-- downlink format: the top five bits of the first byte -/
def dfField (frame : List Nat) : Nat := frame.headD 0 >>> 3

/-- complete description of `Message::try_from` on a 14-byte frame announcing DF 17:
    rejected with the CRC assertion unless the remainder is zero, and then exactly the `DF`
    parser's outcome (with context 0) -/
theorem tryFrom_df17 (frame : List Nat) (hl : frame.length = 14) (hb : Bytes frame)
    (hdf : dfField frame = 17) :
    tryFrom frame = if polyMod (bits frame) = 0#24 then wrap (parseDF 0 frame) else .err .assertion := by
  match frame, hl with
  | b0 :: rest, hl =>
    simp only [dfField, List.headD_cons] at hdf
    have hfb : frameBits b0 = 112 := frameBits_long b0 (by rw [hdf]; decide)
    rw [tryFrom_exact b0 rest (by rw [hfb, hl])]
    by_cases hz : polyMod (bits (b0 :: rest)) = 0#24
    · rw [if_pos hz, decodeBuf_df17_pass b0 _ hl hb hdf (by simp [syndrome, hz])]
    · rw [if_neg hz, decodeBuf_df17_reject b0 _ hl hb hdf]
      · rfl
      · intro h0
        apply hz
        apply BitVec.eq_of_toNat_eq
        simpa [syndrome] using h0

end Rs1090.Proofs.Crc
