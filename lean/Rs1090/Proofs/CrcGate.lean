/-
The checksum gate of `Message::from_reader_with_ctx` and the address/parity overlay, on the
decoder model (Model/Decode/Message.lean).
-/
import Rs1090.Proofs.CrcModel
import Rs1090.Model.Decode.Message
namespace Rs1090.Proofs.Crc
open Rs1090 Rs1090.Spec.Crc Rs1090.Model Rs1090.Model.Message

/-- the checksum gate of `decodeBuf`, on a long frame -/
theorem frameBits_long (b0 : Nat) (h : (b0 >>> 3) &&& 0x10 ≠ 0) : frameBits b0 = 112 := by
  simp [frameBits, h]

theorem frameBits_short (b0 : Nat) (h : (b0 >>> 3) &&& 0x10 = 0) : frameBits b0 = 56 := by
  simp [frameBits, h]

/-- the `DF` parser run on the buffered bytes with context `crc`, state dropped
    (the last step of `decodeBuf`) -/
def parseDF (crc : Nat) (buf : List Nat) : Outcome SerFields :=
  match (df crc).run buf with
  | .err e => .err e
  | .panic x => .panic x
  | .ok (v, _) => .ok v

/-- **DF17 with a non-zero remainder is rejected** at the checksum gate -/
theorem decodeBuf_df17_reject (b0 : Nat) (buf : List Nat) (hlen : buf.length = 14) (hb : Bytes buf)
    (hdf : b0 >>> 3 = 17) (hs : syndrome buf ≠ 0) : decodeBuf b0 buf = .err .assertion := by
  have hf : frameBits b0 = 8 * buf.length := by
    rw [frameBits_long b0 (by rw [hdf]; decide), hlen]
  unfold decodeBuf
  rw [hf, modesChecksum_eq buf (by omega) hb]
  have : syndrome buf > 0 := by omega
  simp [hdf, syndrome] at *
  omega

/-- **DF17 with remainder zero passes the gate**: the outcome is that of the `DF` parser -/
theorem decodeBuf_df17_pass (b0 : Nat) (buf : List Nat) (hlen : buf.length = 14) (hb : Bytes buf)
    (hdf : b0 >>> 3 = 17) (hs : syndrome buf = 0) :
    decodeBuf b0 buf = parseDF 0 buf := by
  have hf : frameBits b0 = 8 * buf.length := by
    rw [frameBits_long b0 (by rw [hdf]; decide), hlen]
  unfold decodeBuf
  rw [hf, modesChecksum_eq buf (by omega) hb]
  simp only [syndrome] at hs
  simp [hdf, hs]
  rfl

/-- for any other format the remainder is handed to the `DF` parser as context -/
theorem decodeBuf_other (b0 : Nat) (buf : List Nat) (hlen : 8 * buf.length = frameBits b0) (hb : Bytes buf)
    (hdf : b0 >>> 3 ≠ 17) :
    decodeBuf b0 buf = parseDF (syndrome buf) buf := by
  have h3 : 3 ≤ buf.length := by
    unfold frameBits at hlen; split at hlen <;> omega
  unfold decodeBuf
  rw [← hlen, modesChecksum_eq buf h3 hb]
  simp [hdf, syndrome]
  rfl

/-! ### `Message::try_from` on a frame of the prescribed length -/

/-- the tail of `tryFrom`: an accepted parse is wrapped into the serialised message -/
def wrap : Outcome SerFields → Outcome Decoded
  | .err e => .err e
  | .panic x => .panic x
  | .ok v => .ok (toDecoded v)

theorem tryFrom_exact (b0 : Nat) (rest : List Nat) (hl : 8 * (b0 :: rest).length = frameBits b0) :
    tryFrom (b0 :: rest) = wrap (decodeBuf b0 (b0 :: rest)) := by
  have h8 : frameBits b0 / 8 = (b0 :: rest).length := by omega
  unfold tryFrom
  simp only [h8, Nat.lt_irrefl, ↓reduceIte, List.take_length, bne_self_eq_false, Bool.false_eq_true]
  cases decodeBuf b0 (b0 :: rest) <;> rfl

/-- acceptance implies the announced length (as C01's `accept_len_core`) -/
theorem tryFrom_ok_length (b0 : Nat) (rest : List Nat) (d : Decoded)
    (h : tryFrom (b0 :: rest) = .ok d) : 8 * (b0 :: rest).length = frameBits b0 := by
  have hf : frameBits b0 = 112 ∨ frameBits b0 = 56 := by
    unfold frameBits; split <;> simp
  simp only [tryFrom] at h
  split at h
  · cases h
  · split at h
    · cases h
    · cases h
    · split at h
      · cases h
      · rename_i hl
        simp only [bne_iff_ne, ne_eq, Decidable.not_not] at hl
        rcases hf with hf | hf <;> rw [hf] at hl ⊢ <;> omega

/-- downlink format: the top five bits of the first byte -/
def dfField (frame : List Nat) : Nat := frame.headD 0 >>> 3

/-- complete description of `Message::try_from` on a 14-byte frame announcing DF 17:
    rejected with the CRC assertion unless the remainder is zero, and then exactly the `DF`
    parser's outcome (with context 0) -/
theorem tryFrom_df17 (frame : List Nat) (hl : frame.length = 14) (hb : Bytes frame)
    (hdf : dfField frame = 17) :
    tryFrom frame = if polyMod (bits frame) = 0#24 then wrap (parseDF 0 frame) else .err .assertion := by
  match frame, hl with
  | b0 :: rest, hl =>
    simp only [dfField, List.headD_cons] at hdf
    have hfb : frameBits b0 = 112 := frameBits_long b0 (by rw [hdf]; decide)
    rw [tryFrom_exact b0 rest (by rw [hfb, hl])]
    by_cases hz : polyMod (bits (b0 :: rest)) = 0#24
    · rw [if_pos hz, decodeBuf_df17_pass b0 _ hl hb hdf (by simp [syndrome, hz])]
    · rw [if_neg hz, decodeBuf_df17_reject b0 _ hl hb hdf]
      · rfl
      · intro h0
        apply hz
        apply BitVec.eq_of_toNat_eq
        simpa [syndrome] using h0

end Rs1090.Proofs.Crc
