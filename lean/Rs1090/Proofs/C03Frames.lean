/-
C03 helper lemmas, part 3: `Message.tryFrom` on a frame built by the Spec encoder.

  * checksum of a Spec frame (`encodeAP`): zero with PI parity, the address with AP overlay
  * the outer layers of `tryFrom` (length test, checksum gate, `DF` dispatch) reduced to `dfBody`
  * `dfBody` for DF 17/18 (ME at bit 32) and DF 4/5 (AC / ID at bit 19)
-/
import Rs1090.Proofs.C03Exec
import Rs1090.Props.C13
namespace Rs1090.Proofs.C03
open Rs1090 Rs1090.Model Rs1090.Spec.Encode Rs1090.Model.Message
open Rs1090.Spec.Crc (pack encodeAP apField bitsN polyMod parity)
open Rs1090.Proofs.Crc (bits_append bits_pack bitsN_length polyMod_append24 polyMod_short valBE_bitsN modesChecksum_eq)

/-! ### checksum of a Spec frame -/

theorem apField_bits' (data : List Nat) (a : Nat) :
    Spec.Crc.bits (apField data a) = bitsN 24 ((parity (Spec.Crc.bits data)).toNat ^^^ a) :=
  bits_pack _ (by simp [bitsN_length])

/-- the remainder of `data ++ (parity(data) ⊕ a)` is `a` (as C02's `ap_syndrome`) -/
theorem syndrome_encodeAP' (data : List Nat) (a : Nat) (ha : a < 2 ^ 24) :
    (polyMod (Spec.Crc.bits (encodeAP data a))).toNat = a := by
  unfold encodeAP
  rw [bits_append, apField_bits', polyMod_append24 _ _ (by simp [bitsN_length]), BitVec.toNat_xor,
    polyMod_short _ (by simp [bitsN_length]), valBE_bitsN]
  have hp := (parity (Spec.Crc.bits data)).isLt
  generalize (parity (Spec.Crc.bits data)).toNat = p at *
  rw [Nat.mod_eq_of_lt (Nat.xor_lt_two_pow hp ha), ← Nat.xor_assoc, Nat.xor_self, Nat.zero_xor]

/-- **the parity hypothesis of every frame theorem holds for the Spec's frames by construction**:
    `modes_checksum` of `encodeAP data a` is `a` (0 for the PI field of DF 17/18) -/
theorem checksum_frame (F : List Nat) (fs : List Field) (a : Nat) (hF : F = encodeAP (dataBytes fs) a)
    (hfr : Frame F fs) (ha : a < 2 ^ 24) : modesChecksum F (8 * F.length) = .ok a := by
  have hl := hfr.len
  rw [modesChecksum_eq F (by omega) hfr.lt, hF, syndrome_encodeAP' _ _ ha]

/-! ### outer layers of `tryFrom` -/

theorem bitsBE_head5 (b0 : Nat) (rest : List Nat) (h : b0 < 256) : bitsBE (b0 :: rest) 0 5 = b0 >>> 3 := by
  simp [bitsBE, bitAt, Nat.shiftRight_eq_div_pow]
  omega

theorem long_bit : ∀ d, d < 2 ^ 5 → 16 ≤ d → d &&& 0x10 ≠ 0 := Props.C13.enum 5 (by decide +kernel)
theorem short_bit : ∀ d, d < 2 ^ 5 → d < 16 → d &&& 0x10 = 0 := Props.C13.enum 5 (by decide +kernel)

/-- `tryFrom` on a frame of the announced length whose checksum passes the DF17 gate: the result is
    whatever `dfBody` yields from bit 5 on -/
theorem tryFrom_of_dfBody (F : List Nat) (n df crc : Nat) (v : SerFields)
    (hl : F.length = n) (hlt : ∀ b ∈ F, b < 256) (hdf : bitsBE F 0 5 = df)
    (hn : (16 ≤ df ∧ n = 14) ∨ (df < 16 ∧ n = 7))
    (hcrc : modesChecksum F (8 * n) = .ok crc) (hgate : df = 17 → crc = 0)
    (hrun : wpOk (dfBody crc df) (fun r _ => r = v) (st F 5 5 5)) :
    tryFrom F = .ok (toDecoded v) := by
  match F, hl, hlt, hdf, hcrc, hrun with
  | [], hl, _, _, _, _ => simp at hl; omega
  | b0 :: rest, hl, hlt, hdf, hcrc, hrun =>
    have hb0 : b0 < 256 := hlt b0 (by simp)
    rw [bitsBE_head5 b0 rest hb0] at hdf
    have hdf32 : df < 2 ^ 5 := by rw [← hdf, Nat.shiftRight_eq_div_pow]; omega
    have hfb : frameBits b0 = 8 * n := by
      unfold frameBits
      rcases hn with ⟨h16, rfl⟩ | ⟨h16, rfl⟩
      · have := long_bit df hdf32 h16
        rw [hdf]; simp [this]
      · have := short_bit df hdf32 h16
        rw [hdf]; simp [this]
    have hrun' : (Message.df crc).run (b0 :: rest) = .ok (v, (wpOk_elim hrun).choose_spec.choose) ∨ True :=
      Or.inr trivial
    obtain ⟨r, s', hm, hr⟩ := wpOk_elim hrun
    subst hr
    have hdfrun : ∃ s'', (Message.df crc).run (b0 :: rest) = .ok (r, s'') := by
      refine ⟨s', ?_⟩
      unfold Message.df R.run
      show R.bind (enumId 5) (dfBody crc) (Rd.init (b0 :: rest)) = _
      unfold R.bind
      have he : enumId 5 (Rd.init (b0 :: rest)) = .ok (b0 >>> 3, st (b0 :: rest) 5 5 5) := by
        have : ceilDiv8 (0 + 5) ≤ (b0 :: rest).length := by simp [ceilDiv8]
        simp only [enumId, bits, Rd.init, this]
        simp [bitsBE_head5 b0 rest hb0]
      rw [he]
      simp only []
      rw [hdf]; exact hm
    obtain ⟨s'', hs''⟩ := hdfrun
    unfold tryFrom
    simp only [hfb, hl]
    have h8 : 8 * n / 8 = n := by omega
    simp only [h8, Nat.lt_irrefl, if_false]
    rw [List.take_of_length_le (by omega)]
    unfold decodeBuf
    rw [hfb, hcrc]
    simp only []
    have hg : ((b0 >>> 3 == 17) && decide (crc > 0)) = false := by
      rw [hdf]
      by_cases h17 : df = 17
      · simp [hgate h17]
      · simp [h17]
    rw [hg]
    simp only [Bool.false_eq_true, if_false, hs'']
    simp

/-! ### extended squitter: DF 17 / DF 18 -/

theorem wpOk_lift_ok {α} (a : α) (Q : α → Rd → Prop) (s : Rd) : wpOk (R.lift (.ok a)) Q s ↔ Q a s := by
  simp [wpOk, R.lift]

/-- `dfBody` for DF 17 given what the `ME` reader does from bit 32 -/
theorem dfBody17 (F : List Nat) (crc c aa : Nat) (me : List Field) (out : SerFields)
    (hF : Frame F (esHeader 17 c aa ++ me)) (hw : width me = 56)
    (hme : wpOk Message.me (fun r s' => r = out ∧ s'.bytes = F ∧ s'.p ≤ 88) (st F 32 27 32)) :
    wpOk (dfBody crc 17)
      (fun r _ => r = withFields [dfTag (key! "17"), fld (key! "icao24") (jhex6 aa)] out) (st F 5 5 5) := by
  have hlen : F.length = 14 := by
    have := hF.len; rw [width_append] at this; simp [width, esHeader] at this; omega
  have f_aa := hF.field 8 24 _ rfl
  show wpOk (do
    let _cap ← enumId 3
    let icao ← bits 24
    let m ← Message.me
    let _ ← bits 24
    pure (withFields [dfTag (key! "17"), fld (key! "icao24") (jhex6 icao)] m)) _ _
  simp (disch := decide) only [wpOk_bind, wpOk_bits, wpOk_enumId, hlen, ceilDiv8, Nat.reduceAdd, Nat.reduceDiv,
    Nat.reduceLeDiff, true_and, f_aa]
  refine wpOk_mono hme ?_
  rintro r ⟨b, p, l, n⟩ ⟨rfl, hb, hp⟩
  simp only at hb hp
  subst hb
  rw [wpOk_bits 24 (by decide)]
  refine ⟨by simp only [ceilDiv8, hlen]; omega, ?_⟩
  rw [wpOk_pure]

theorem dfBody18 (F : List Nat) (crc c aa : Nat) (me : List Field) (out : SerFields)
    (hF : Frame F (esHeader 18 c aa ++ me)) (hw : width me = 56)
    (hme : wpOk Message.me (fun r s' => r = out ∧ s'.bytes = F ∧ s'.p ≤ 88) (st F 32 27 32)) :
    wpOk (dfBody crc 18)
      (fun r _ => r = withFields [dfTag (key! "18"), fld (key! "tisb") (.lit (controlFieldName c)),
        fld (key! "icao24") (jhex6 aa)] out) (st F 5 5 5) := by
  have hlen : F.length = 14 := by
    have := hF.len; rw [width_append] at this; simp [width, esHeader] at this; omega
  have f_c := hF.field 5 3 _ rfl
  have f_aa := hF.field 8 24 _ rfl
  show wpOk (do
    let ft ← enumId 3
    let aa ← bits 24
    let m ← Message.me
    let _ ← bits 24
    pure (withFields [dfTag (key! "18"), fld (key! "tisb") (.lit (controlFieldName ft)),
                      fld (key! "icao24") (jhex6 aa)] m)) _ _
  simp (disch := decide) only [wpOk_bind, wpOk_bits, wpOk_enumId, hlen, ceilDiv8, Nat.reduceAdd, Nat.reduceDiv,
    Nat.reduceLeDiff, true_and, f_aa, f_c]
  refine wpOk_mono hme ?_
  rintro r ⟨b, p, l, n⟩ ⟨rfl, hb, hp⟩
  simp only at hb hp
  subst hb
  rw [wpOk_bits 24 (by decide)]
  refine ⟨by simp only [ceilDiv8, hlen]; omega, ?_⟩
  rw [wpOk_pure]

/-- the serialised head of an extended squitter: `df`, (`tisb`,) `icao24` -/
def esHead (df c aa : Nat) : Fields :=
  if df = 17 then [dfTag (key! "17"), fld (key! "icao24") (jhex6 aa)]
  else [dfTag (key! "18"), fld (key! "tisb") (.lit (controlFieldName c)), fld (key! "icao24") (jhex6 aa)]

/-- **extended squitter frames**: if the `ME` reader turns the 56 ME bits into `out`, the whole
    frame decodes to the head fields followed by `out` -/
theorem tryFrom_es (df c aa : Nat) (me : List Field) (out : SerFields)
    (hdf : df = 17 ∨ df = 18) (hc : c < 2 ^ 3) (haa : aa < 2 ^ 24) (hw : width me = 56) (hfit : fits me = true)
    (hme : ∀ F, Frame F (esHeader df c aa ++ me) →
      wpOk Message.me (fun r s' => r = out ∧ s'.bytes = F ∧ s'.p ≤ 88) (st F 32 27 32)) :
    tryFrom (buildES df c aa me) = .ok (toDecoded (withFields (esHead df c aa) out)) := by
  have hfr : Frame (buildES df c aa me) (esHeader df c aa ++ me) := by
    apply frame_encodeAP
    · rw [width_append, hw]; simp [width, esHeader]
    · rw [fits_append, hfit]
      rcases hdf with rfl | rfl <;> simp [fits, esHeader, hc, haa]
  have hlen : (buildES df c aa me).length = 14 := by
    have := hfr.len; rw [width_append, hw] at this; simp [width, esHeader] at this; omega
  have hcrc := checksum_frame (buildES df c aa me) _ 0 rfl hfr (by decide)
  rw [hlen] at hcrc
  have f_df := hfr.field 0 5 _ rfl
  refine tryFrom_of_dfBody _ 14 df 0 _ hlen hfr.lt f_df (Or.inl ⟨by omega, rfl⟩) hcrc (fun _ => rfl) ?_
  rcases hdf with rfl | rfl
  · exact dfBody17 _ 0 c aa me out hfr hw (hme _ hfr)
  · exact dfBody18 _ 0 c aa me out hfr hw (hme _ hfr)

/-! ### surveillance replies: DF 4 / DF 5 (and the common head of DF 20 / DF 21) -/

theorem survHeader_run (F : List Nat) (Q : Unit → Rd → Prop) (hlen : 7 ≤ F.length) :
    wpOk surveillanceHeader Q (st F 5 5 5) ↔ Q () (st F 19 2 19) := by
  unfold surveillanceHeader
  simp (disch := decide) only [wpOk_bind, wpOk_bits, wpOk_enumId, wpOk_pure, ceilDiv8, Nat.reduceAdd, Nat.reduceDiv]
  constructor
  · rintro ⟨_, _, _, _, h⟩; exact h
  · intro h; exact ⟨by omega, by omega, by omega, by omega, h⟩

/-- **DF 4**: altitude code in the AC field, address from the AP overlay -/
theorem tryFrom_df4 (fs dr um code addr alt : Nat)
    (hfs : fs < 2 ^ 3) (hdr : dr < 2 ^ 5) (hum : um < 2 ^ 6) (hcode : code < 2 ^ 13) (haddr : addr < 2 ^ 24)
    (halt : ac13 code = .ok alt) :
    tryFrom (buildShort 4 fs dr um code addr) = .ok (toDecoded (.ok
      [dfTag (key! "4"), fld (key! "altitude") (jnat alt), fld (key! "icao24") (jhex6 addr)])) := by
  have hfr : Frame (buildShort 4 fs dr um code addr) (survHeader 4 fs dr um code) := by
    apply frame_encodeAP
    · simp [width, survHeader]
    · simp [fits, survHeader, hfs, hdr, hum, hcode]
  have hlen : (buildShort 4 fs dr um code addr).length = 7 := by
    have := hfr.len; simp [width, survHeader] at this; omega
  have hcrc := checksum_frame (buildShort 4 fs dr um code addr) _ addr rfl hfr haddr
  rw [hlen] at hcrc
  have f_df := hfr.field 0 5 _ rfl
  have f_code := hfr.field 19 13 _ rfl
  refine tryFrom_of_dfBody _ 7 4 addr _ hlen hfr.lt f_df (Or.inr ⟨by omega, rfl⟩) hcrc (fun h => by omega) ?_
  show wpOk (do
    surveillanceHeader
    let ac ← ac13Field
    let _ ← bitsLE 24
    pure (Except.ok [dfTag (key! "4"), fld (key! "altitude") (jnat ac), fld (key! "icao24") (jhex6 addr)] : SerFields)) _ _
  rw [wpOk_bind, survHeader_run _ _ (by omega)]
  unfold ac13Field
  simp (disch := decide) only [wpOk_bind, wpOk_bits, wpOk_bitsLE, wpOk_pure, wpOk_lift_ok, f_code, halt, hlen,
    ceilDiv8, Nat.reduceAdd, Nat.reduceDiv, Nat.reduceLeDiff, true_and]

/-- **DF 5**: identity code in the ID field, address from the AP overlay -/
theorem tryFrom_df5 (fs dr um code addr : Nat)
    (hfs : fs < 2 ^ 3) (hdr : dr < 2 ^ 5) (hum : um < 2 ^ 6) (hcode : code < 2 ^ 13) (haddr : addr < 2 ^ 24) :
    tryFrom (buildShort 5 fs dr um code addr) = .ok (toDecoded (.ok
      [dfTag (key! "5"), fld (key! "squawk") (jhex4 (decodeId13 code)), fld (key! "icao24") (jhex6 addr)])) := by
  have hfr : Frame (buildShort 5 fs dr um code addr) (survHeader 5 fs dr um code) := by
    apply frame_encodeAP
    · simp [width, survHeader]
    · simp [fits, survHeader, hfs, hdr, hum, hcode]
  have hlen : (buildShort 5 fs dr um code addr).length = 7 := by
    have := hfr.len; simp [width, survHeader] at this; omega
  have hcrc := checksum_frame (buildShort 5 fs dr um code addr) _ addr rfl hfr haddr
  rw [hlen] at hcrc
  have f_df := hfr.field 0 5 _ rfl
  have f_code := hfr.field 19 13 _ rfl
  refine tryFrom_of_dfBody _ 7 5 addr _ hlen hfr.lt f_df (Or.inr ⟨by omega, rfl⟩) hcrc (fun h => by omega) ?_
  show wpOk (do
    surveillanceHeader
    let sq ← identityCode
    let _ ← bitsLE 24
    pure (Except.ok [dfTag (key! "5"), fld (key! "squawk") (jhex4 sq), fld (key! "icao24") (jhex6 addr)] : SerFields)) _ _
  rw [wpOk_bind, survHeader_run _ _ (by omega)]
  unfold identityCode
  simp (disch := decide) only [wpOk_bind, wpOk_bits, wpOk_bitsLE, wpOk_pure, f_code, hlen,
    ceilDiv8, Nat.reduceAdd, Nat.reduceDiv, Nat.reduceLeDiff, true_and]

end Rs1090.Proofs.C03
