import Rs1090.Model.Decode.Message
import Rs1090.Spec.Encode
