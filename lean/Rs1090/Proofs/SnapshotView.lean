/-
Helper definitions and lemmas for the frame-level corollaries of C12: what
`Model/SnapshotView.lean` (`viewOfJson`, `recordOfFrame`, `runFrames`) guarantees about the
*displayed address* of a record — it is literally the `icao24` member of the JSON that the
decoder model returns for the frame — and the transport of the view-level theorems
(`Props/C12.lean`, over `List Record`) to histories of received frames (`List Rx`).
-/
import Rs1090.Model.SnapshotView
import Rs1090.Proofs.Snapshot
import Rs1090.Props.C07
namespace Rs1090.Proofs.SnapshotView
open Rs1090 Rs1090.Model Rs1090.Model.Message Rs1090.Model.Snapshot Rs1090.Model.SnapshotView
open Rs1090.Spec.Snapshot Rs1090.Proofs.Snapshot Rs1090.Proofs.Filters

/-- the model's member lookup is C07/C11's `objGet` -/
theorem member_eq_objGet (kvs : List (Key × Json)) (k : Key) : member kvs k = objGet kvs k := rfl

/-! ### the displayed address of a frame -/

/-- the text of the `icao24` member of the JSON the decoder model returns for `frame`
    (`none`: the frame is refused, or its JSON has no — or a `null` — `icao24` member) -/
def icao24Of (frame : List Nat) : Option Addr :=
  match Message.tryFrom frame with
  | .ok (.json (.obj kvs)) => (objGet kvs (key! "icao24")).bind valText
  | _ => none

/-- "the frame decodes to JSON whose `icao24` member is `k`" -/
def ShowsIcao24 (frame : List Nat) (k : Addr) : Prop :=
  ∃ kvs j, Message.tryFrom frame = .ok (.json (.obj kvs)) ∧
    objGet kvs (key! "icao24") = some j ∧ valText j = some k

theorem showsIcao24_iff (frame : List Nat) (k : Addr) : ShowsIcao24 frame k ↔ icao24Of frame = some k := by
  unfold ShowsIcao24 icao24Of
  constructor
  · rintro ⟨kvs, j, h, hj, hv⟩
    rw [h]; simp only []; rw [hj]; exact hv
  · intro h
    split at h
    · rename_i kvs heq
      cases hj : objGet kvs (key! "icao24") with
      | none => rw [hj] at h; cases h
      | some j => rw [hj] at h; exact ⟨kvs, j, heq, hj, h⟩
    · cases h

/-- **`view_addr`**: the address the view displays is the text of the JSON's `icao24` member -/
theorem view_addr (ts : Nat) (frame : List Nat) (kvs : List (Key × Json)) (pos : Option (Val × Val)) :
    (viewOfJson ts frame (.obj kvs) pos).addr = (objGet kvs (key! "icao24")).bind valText := rfl

theorem view_ts (ts : Nat) (frame : List Nat) (j : Json) (pos : Option (Val × Val)) :
    (viewOfJson ts frame j pos).ts = ts := by
  unfold viewOfJson; split <;> rfl

theorem record_ts (x : Rx) : x.record.ts = x.ts := by
  unfold Rx.record recordOfFrame
  split
  · exact view_ts ..
  · rfl

/-- the record of a reception displays exactly the `icao24` member of the frame's decoded JSON
    (and no address when the frame is refused) — whatever the position input -/
theorem record_addr (x : Rx) : x.record.addr = icao24Of x.frame := by
  unfold Rx.record recordOfFrame icao24Of
  cases h : Message.tryFrom x.frame with
  | err e => rfl
  | panic s => rfl
  | ok d =>
    cases d with
    | serErr e => rfl
    | json j =>
      cases j <;> first | rfl | exact view_addr ..

/-! ### histories of receptions -/

theorem runFrames_eq (h : List Rx) : runFrames h = run (h.map Rx.record) := by
  unfold runFrames run
  rw [List.foldl_map]

/-- the receptions of the history whose frame decodes to JSON with `icao24` = `k` -/
def ownFrames (k : Addr) (h : List Rx) : List Rx := h.filter fun x => icao24Of x.frame = some k

theorem mem_ownFrames {k : Addr} {h : List Rx} {x : Rx} :
    x ∈ ownFrames k h ↔ x ∈ h ∧ ShowsIcao24 x.frame k := by
  unfold ownFrames
  rw [List.mem_filter, showsIcao24_iff]
  simp

theorem own_map (k : Addr) (h : List Rx) : own k (h.map Rx.record) = (ownFrames k h).map Rx.record := by
  unfold own ownFrames
  rw [List.filter_map]
  congr 1
  apply List.filter_congr
  intro x _
  simp only [Function.comp, record_addr]

/-! ### the displayed address is the address the frame carries -/

theorem hexDigit_ne_space : ∀ n, n < 16 → hexDigit n ≠ ' ' := by decide

theorem noSpace_hexChars (d v : Nat) : noSpace (hexChars d v) = String.ofList (hexChars d v) := by
  unfold noSpace
  congr 1
  conv => rhs; rw [← List.map_id (hexChars d v)]
  apply List.map_congr_left
  intro c hc
  unfold hexChars at hc
  rw [List.mem_map] at hc
  obtain ⟨i, _, rfl⟩ := hc
  have := hexDigit_ne_space (v / 16 ^ i % 16) (Nat.mod_lt _ (by decide))
  simp [this]

/-- six lowercase hex digits of a 24-bit address, as the table key -/
def hex6 (a : Nat) : Addr := String.ofList (hexChars 6 a)

theorem valText_jhex6 (a : Nat) : valText (jhex6 a) = some (hex6 a) := by
  unfold jhex6 hex6
  simp only [valText, noSpace_hexChars]

/-- for the nine address-carrying formats the displayed address is the address the frame carries:
    the announced address field (bits 8..32) for DF 11, 17, 18, the checksum remainder
    (address/parity overlay) for DF 0, 4, 5, 16, 20, 21 -/
theorem icao24Of_frame (bs : List Nat) (d : Decoded) (h : tryFrom bs = .ok d)
    (hdf : [0, 4, 5, 11, 16, 17, 18, 20, 21].contains (bitsBE bs 0 5) = true) :
    ∃ a, icao24Of bs = some (hex6 a) ∧
      ([11, 17, 18].contains (bitsBE bs 0 5) = true → a = bitsBE bs 8 24) ∧
      ([0, 4, 5, 16, 20, 21].contains (bitsBE bs 0 5) = true →
        modesChecksum bs (frameBits (bs.headD 0)) = .ok a) := by
  obtain ⟨kvs, rfl, _⟩ := tryFrom_good bs d h
  obtain ⟨_, a, _, _, ha, h1, h2⟩ := Rs1090.Props.C07.df_icao_consistent bs kvs h hdf
  refine ⟨a, ?_, h1, h2⟩
  unfold icao24Of
  rw [h]; simp only []; rw [ha]
  exact valText_jhex6 a

/-! ### the other formats (DF19, DF24‥31) show no `icao24` member -/

theorem df_noaddr (crc : Nat) (bs : List Nat) (fs : Fields) (s : Rd)
    (h : (Message.df crc).run bs = .ok (.ok fs, s))
    (hdf : [0, 4, 5, 11, 16, 17, 18, 20, 21].contains (bitsBE bs 0 5) = false) :
    objGet fs.toObj (key! "icao24") = none := by
  unfold R.run Message.df at h
  obtain ⟨id, s1, h1, h⟩ := bind_ok h
  obtain ⟨hid, _, _⟩ := enumId_ok (by decide) h1
  simp only [Rd.init] at hid
  rw [← hid] at hdf
  unfold Message.dfBody at h
  split at h
  all_goals first | exact absurd hdf (by decide) | skip
  · -- DF19
    obtain ⟨_, _, h⟩ := bind_ok' h
    cases pure_ok h
    rfl
  · split at h
    · obtain ⟨_, _, h⟩ := bind_ok' h
      obtain ⟨_, _, h⟩ := bind_ok' h
      obtain ⟨_, _, h⟩ := bind_ok' h
      obtain ⟨_, _, h⟩ := bind_ok' h
      obtain ⟨_, _, h⟩ := bind_ok' h
      obtain ⟨_, _, h⟩ := bind_ok' h
      cases pure_ok h
      rfl
    · cases h

theorem tryFrom_noaddr (bs : List Nat) (kvs : List (Key × Json))
    (h : tryFrom bs = .ok (.json (.obj kvs)))
    (hdf : [0, 4, 5, 11, 16, 17, 18, 20, 21].contains (bitsBE bs 0 5) = false) :
    objGet kvs (key! "icao24") = none := by
  cases bs with
  | nil => simp [tryFrom] at h
  | cons b0 rest =>
    simp only [tryFrom] at h
    split at h
    · cases h
    · split at h
      · cases h
      · cases h
      · rename_i r hdb
        split at h
        · cases h
        · rename_i hl
          simp only [bne_iff_ne, ne_eq, Decidable.not_not] at hl
          have htake : (b0 :: rest).take (frameBits b0 / 8) = b0 :: rest := by
            rw [hl]; exact List.take_length
          rw [htake] at hdb
          unfold decodeBuf at hdb
          split at hdb
          · cases hdb
          · cases hdb
          · rename_i crc _
            split at hdb
            · cases hdb
            · split at hdb
              · cases hdb
              · cases hdb
              · rename_i v s hrun
                cases hdb
                cases r with
                | error e => simp [toDecoded] at h
                | ok fs =>
                  simp only [toDecoded, Outcome.ok.injEq, Decoded.json.injEq, Json.obj.injEq] at h
                  subst h
                  exact df_noaddr crc _ fs s hrun hdf

/-- a frame of another format (DF19, DF24‥31) displays no address, accepted or not -/
theorem icao24Of_none (bs : List Nat)
    (hdf : [0, 4, 5, 11, 16, 17, 18, 20, 21].contains (bitsBE bs 0 5) = false) :
    icao24Of bs = none := by
  unfold icao24Of
  split
  · rename_i kvs h
    rw [tryFrom_noaddr bs kvs h hdf]; rfl
  · rfl

end Rs1090.Proofs.SnapshotView
