/-
Distances on a sphere, for the "within N metres" clauses of C04/C05/C06.

Points are given by latitude `φ` and longitude `l` in radians.  `chordSq` is the squared straight-line
(chord) distance of the two points of the UNIT sphere in ℝ³ — an elementary definition; everything else is
derived from it:

  * `chordSq_eq`    the haversine identity  chord² = 4 sin²(Δφ/2) + 4 cos φ₁ cos φ₂ sin²(Δl/2)
  * `chordSq_le`    chord² ≤ Δφ² + cos φ₁ cos φ₂ (Δl + 2πk)²          (sin² x ≤ x²; any number of turns k)
  * `gcDist`        great-circle distance on the sphere of radius R: the central angle σ of a chord c of the
                    unit sphere is σ = 2 arcsin(c/2)
  * `gcDist_le`     R·chord ≤ S and S ≤ D − D³/(24R²)  ⇒  gcDist ≤ D       (x − x³/6 ≤ sin x)
-/
import Mathlib.Analysis.SpecialFunctions.Trigonometric.Bounds
import Mathlib.Analysis.SpecialFunctions.Trigonometric.Inverse
import Mathlib.Analysis.Real.Pi.Bounds
namespace Rs1090.Proofs.Geo
open Real

/-- degrees → radians -/
noncomputable def rad (d : ℝ) : ℝ := d * π / 180

/-- squared chord between `(φ₁, l₁)` and `(φ₂, l₂)` on the unit sphere: the squared Euclidean distance of
    `(cos φ cos l, cos φ sin l, sin φ)` -/
noncomputable def chordSq (φ₁ l₁ φ₂ l₂ : ℝ) : ℝ :=
  (cos φ₁ * cos l₁ - cos φ₂ * cos l₂) ^ 2 + (cos φ₁ * sin l₁ - cos φ₂ * sin l₂) ^ 2
    + (sin φ₁ - sin φ₂) ^ 2

/-- great-circle distance on the sphere of radius `R` (central angle `2·arcsin(chord/2)` times `R`) -/
noncomputable def gcDist (R φ₁ l₁ φ₂ l₂ : ℝ) : ℝ := 2 * R * arcsin (√(chordSq φ₁ l₁ φ₂ l₂) / 2)

/-- straight-line distance through the sphere of radius `R` -/
noncomputable def chordDist (R φ₁ l₁ φ₂ l₂ : ℝ) : ℝ := R * √(chordSq φ₁ l₁ φ₂ l₂)

theorem chordSq_nonneg (φ₁ l₁ φ₂ l₂ : ℝ) : 0 ≤ chordSq φ₁ l₁ φ₂ l₂ := by
  unfold chordSq; positivity

/-- the haversine identity -/
theorem chordSq_eq (φ₁ l₁ φ₂ l₂ : ℝ) :
    chordSq φ₁ l₁ φ₂ l₂
      = 4 * sin ((φ₁ - φ₂) / 2) ^ 2 + 4 * cos φ₁ * cos φ₂ * sin ((l₁ - l₂) / 2) ^ 2 := by
  have e1 : sin ((φ₁ - φ₂) / 2) ^ 2 = 1 / 2 - cos (φ₁ - φ₂) / 2 := by
    rw [sin_sq_eq_half_sub]; congr 2; ring_nf
  have e2 : sin ((l₁ - l₂) / 2) ^ 2 = 1 / 2 - cos (l₁ - l₂) / 2 := by
    rw [sin_sq_eq_half_sub]; congr 2; ring_nf
  rw [e1, e2, cos_sub, cos_sub]
  unfold chordSq
  have h1 := sin_sq_add_cos_sq φ₁
  have h2 := sin_sq_add_cos_sq φ₂
  have H1 := sin_sq_add_cos_sq l₁
  have H2 := sin_sq_add_cos_sq l₂
  linear_combination (cos φ₁) ^ 2 * H1 + (cos φ₂) ^ 2 * H2 + h1 + h2

/-- `sin²` has period π -/
theorem sin_sq_add_int_mul_pi (x : ℝ) (k : ℤ) : sin (x + k * π) ^ 2 = sin x ^ 2 := by
  rw [sin_sq_eq_half_sub, sin_sq_eq_half_sub x]
  have : 2 * (x + k * π) = 2 * x + k * (2 * π) := by ring
  rw [this, cos_add_int_mul_two_pi]

/-- chord² ≤ Δφ² + cos φ₁ · cos φ₂ · (Δl + 2πk)², for latitudes in [−π/2, π/2] and any whole number `k` of
    turns in longitude -/
theorem chordSq_le (φ₁ l₁ φ₂ l₂ : ℝ) (k : ℤ) (h1 : 0 ≤ cos φ₁) (h2 : 0 ≤ cos φ₂) :
    chordSq φ₁ l₁ φ₂ l₂ ≤ (φ₁ - φ₂) ^ 2 + cos φ₁ * cos φ₂ * (l₁ + 2 * π * k - l₂) ^ 2 := by
  rw [chordSq_eq]
  have e : sin ((l₁ - l₂) / 2) ^ 2 = sin ((l₁ + 2 * π * k - l₂) / 2) ^ 2 := by
    rw [← sin_sq_add_int_mul_pi ((l₁ - l₂) / 2) k]; congr 2; ring
  rw [e]
  have a := sin_sq_le_sq (x := (φ₁ - φ₂) / 2)
  have b := sin_sq_le_sq (x := (l₁ + 2 * π * k - l₂) / 2)
  have hc : 0 ≤ cos φ₁ * cos φ₂ := mul_nonneg h1 h2
  have b' := mul_le_mul_of_nonneg_left b hc
  nlinarith

/-- the same with explicit bounds: `|Δφ| ≤ a`, `|Δl + 2πk| ≤ b`, `cos φ₂ ≤ c` give
    chord² ≤ a² + (c + a)·c·b²   (cos is 1-Lipschitz: cos φ₁ ≤ cos φ₂ + |Δφ|) -/
theorem chordSq_le_of_bounds (φ₁ l₁ φ₂ l₂ a b c : ℝ) (k : ℤ) (h1 : 0 ≤ cos φ₁) (h2 : 0 ≤ cos φ₂)
    (ha : |φ₁ - φ₂| ≤ a) (hb : |l₁ + 2 * π * k - l₂| ≤ b) (hc : cos φ₂ ≤ c) :
    chordSq φ₁ l₁ φ₂ l₂ ≤ a ^ 2 + (c + a) * c * b ^ 2 := by
  have ha0 : 0 ≤ a := le_trans (abs_nonneg _) ha
  have hb0 : 0 ≤ b := le_trans (abs_nonneg _) hb
  have hc0 : 0 ≤ c := le_trans h2 hc
  have lip : cos φ₁ ≤ c + a := by
    have := abs_cos_sub_cos_le φ₁ φ₂
    have := (abs_le.mp (le_trans this ha)).2
    linarith
  have s1 : (φ₁ - φ₂) ^ 2 ≤ a ^ 2 := by rw [← sq_abs]; exact pow_le_pow_left₀ (abs_nonneg _) ha 2
  have s2 : (l₁ + 2 * π * k - l₂) ^ 2 ≤ b ^ 2 := by
    rw [← sq_abs]; exact pow_le_pow_left₀ (abs_nonneg _) hb 2
  have p : cos φ₁ * cos φ₂ ≤ (c + a) * c := mul_le_mul lip hc h2 (by linarith)
  have p2 : cos φ₁ * cos φ₂ * (l₁ + 2 * π * k - l₂) ^ 2 ≤ (c + a) * c * b ^ 2 :=
    mul_le_mul p s2 (sq_nonneg _) (by positivity)
  linarith [chordSq_le φ₁ l₁ φ₂ l₂ k h1 h2]

/-- from a bound on `R²·chord²` to the chord distance -/
theorem chordDist_le (R S φ₁ l₁ φ₂ l₂ : ℝ) (hR : 0 ≤ R) (hS0 : 0 ≤ S)
    (hS : R ^ 2 * chordSq φ₁ l₁ φ₂ l₂ ≤ S ^ 2) : chordDist R φ₁ l₁ φ₂ l₂ ≤ S := by
  unfold chordDist
  have h : R * √(chordSq φ₁ l₁ φ₂ l₂) = √(R ^ 2 * chordSq φ₁ l₁ φ₂ l₂) := by
    rw [sqrt_mul (sq_nonneg R), sqrt_sq hR]
  rw [h]
  calc √(R ^ 2 * chordSq φ₁ l₁ φ₂ l₂) ≤ √(S ^ 2) := sqrt_le_sqrt hS
    _ = S := sqrt_sq hS0

/-- from the chord to the arc: if `R·chord ≤ S` and `S ≤ D − D³/(24R²)` (with `D ≤ 2R`) then the
    great-circle distance is at most `D`.  (`arcsin(s/2) ≤ y ⇔ s/2 ≤ sin y`, and `y − y³/6 ≤ sin y`.) -/
theorem gcDist_le (R D S φ₁ l₁ φ₂ l₂ : ℝ) (hR : 0 < R) (hD0 : 0 ≤ D) (hD : D ≤ 2 * R) (hS0 : 0 ≤ S)
    (hS : R ^ 2 * chordSq φ₁ l₁ φ₂ l₂ ≤ S ^ 2) (hSD : S ≤ D - D ^ 3 / (24 * R ^ 2)) :
    gcDist R φ₁ l₁ φ₂ l₂ ≤ D := by
  have hc := chordDist_le R S φ₁ l₁ φ₂ l₂ hR.le hS0 hS
  unfold chordDist at hc
  unfold gcDist
  set s := √(chordSq φ₁ l₁ φ₂ l₂) with hs
  set y := D / (2 * R) with hy
  have hy0 : 0 ≤ y := by positivity
  have hy1 : y ≤ 1 := by rw [hy, div_le_one (by linarith)]; exact hD
  have hpi : (1 : ℝ) < π / 2 := by have := pi_gt_three; linarith
  have key : s / 2 ≤ sin y := by
    have h1 := sin_ge_sub_cube hy0
    have h2 : s / 2 ≤ y - y ^ 3 / 6 := by
      have e : y - y ^ 3 / 6 = (D - D ^ 3 / (24 * R ^ 2)) / (2 * R) := by
        rw [hy]; field_simp; ring
      rw [e, div_le_div_iff₀ (by norm_num) (by linarith)]
      nlinarith
    linarith
  have hmem : y ∈ Set.Ico (-(π / 2)) (π / 2) := ⟨by linarith, by linarith⟩
  have h3 : arcsin (s / 2) ≤ y := (arcsin_le_iff_le_sin' hmem).mpr key
  calc 2 * R * arcsin (s / 2) ≤ 2 * R * y := by
        apply mul_le_mul_of_nonneg_left h3; linarith
    _ = D := by rw [hy]; field_simp

end Rs1090.Proofs.Geo
