/-
GENERATED ONCE by tools/cpr_metres_gen.py (committed; nothing here is trusted: every row is a theorem).

For each longitude-zone band NL = n of DO-260B: `lowThr n` = the lower edge of the band in degrees (the
transition latitude of the row n+1 of `Spec.Cpr.nlTable`; 0 for n = 59, 87 for n = 1), `cosUB n` = a rational
upper bound of `cos(lowThr n)` with 7 decimals.  Since cos decreases on [0°, 90°], `cosUB n` bounds the
cosine of every latitude of the band (`Proofs/CprMetres.lean`).
-/
import Mathlib.Analysis.SpecialFunctions.Trigonometric.Bounds
import Mathlib.Analysis.Real.Pi.Bounds
import Mathlib.Tactic.IntervalCases
import Rs1090.Spec.Cpr
namespace Rs1090.Proofs.Metres
open Real

/-- `cos x ≤ 1 − a²/2 + (5/96)·a⁴` for `0 ≤ a ≤ x ≤ π`, `a ≤ 1` (cos is antitone on [0, π]; `Real.cos_bound` at `a`) -/
theorem cos_le_of_lo {a x : ℝ} (ha0 : 0 ≤ a) (ha1 : a ≤ 1) (hax : a ≤ x) (hx : x ≤ π) :
    cos x ≤ 1 - a ^ 2 / 2 + 5 / 96 * a ^ 4 := by
  have h1 : cos x ≤ cos a := cos_le_cos_of_nonneg_of_le_pi ha0 hx hax
  have h2 := cos_bound (x := a) (by rw [abs_of_nonneg ha0]; exact ha1)
  rw [abs_of_nonneg ha0] at h2
  have := (abs_le.mp h2).2
  linarith

/-- `cos x = sin(π/2 − x) ≤ b − b³/6 + b⁵/100` for `π/2 − x ≤ b ≤ 1`, `x ≤ π/2` (sin is monotone on
    [−π/2, π/2]; `Real.sin_bound` at `b`) -/
theorem cos_le_of_hi {b x : ℝ} (hb1 : b ≤ 1) (hx : x ≤ π / 2) (hxb : π / 2 - x ≤ b) :
    cos x ≤ b - b ^ 3 / 6 + b ^ 5 / 100 := by
  have hb0 : 0 ≤ b := by linarith
  have e : cos x = sin (π / 2 - x) := (sin_pi_div_two_sub x).symm
  have h1 : sin (π / 2 - x) ≤ sin b := by
    apply sin_le_sin_of_le_of_le_pi_div_two _ _ hxb
    · linarith [pi_pos]
    · have := pi_gt_d4; linarith
  have h2 := sin_bound (x := b) (by rw [abs_of_nonneg hb0]; exact hb1)
  rw [abs_of_nonneg hb0] at h2
  have := (abs_le.mp h2).2
  linarith

/-- lower edge of the band NL = n, degrees -/
def lowThr : Nat → ℚ
  | 59 => 0 / 100000000
  | 58 => 1047047130 / 100000000
  | 57 => 1482817437 / 100000000
  | 56 => 1818626357 / 100000000
  | 55 => 2102939493 / 100000000
  | 54 => 2354504487 / 100000000
  | 53 => 2582924707 / 100000000
  | 52 => 2793898710 / 100000000
  | 51 => 2991135686 / 100000000
  | 50 => 3177209708 / 100000000
  | 49 => 3353993436 / 100000000
  | 48 => 3522899598 / 100000000
  | 47 => 3685025108 / 100000000
  | 46 => 3841241892 / 100000000
  | 45 => 3992256684 / 100000000
  | 44 => 4138651832 / 100000000
  | 43 => 4280914012 / 100000000
  | 42 => 4419454951 / 100000000
  | 41 => 4554626723 / 100000000
  | 40 => 4686733252 / 100000000
  | 39 => 4816039128 / 100000000
  | 38 => 4942776439 / 100000000
  | 37 => 5067150166 / 100000000
  | 36 => 5189342469 / 100000000
  | 35 => 5309516153 / 100000000
  | 34 => 5427817472 / 100000000
  | 33 => 5544378444 / 100000000
  | 32 => 5659318756 / 100000000
  | 31 => 5772747354 / 100000000
  | 30 => 5884763776 / 100000000
  | 29 => 5995459277 / 100000000
  | 28 => 6104917774 / 100000000
  | 27 => 6213216659 / 100000000
  | 26 => 6320427479 / 100000000
  | 25 => 6426616523 / 100000000
  | 24 => 6531845310 / 100000000
  | 23 => 6636171008 / 100000000
  | 22 => 6739646774 / 100000000
  | 21 => 6842322022 / 100000000
  | 20 => 6944242631 / 100000000
  | 19 => 7045451075 / 100000000
  | 18 => 7145986473 / 100000000
  | 17 => 7245884545 / 100000000
  | 16 => 7345177442 / 100000000
  | 15 => 7443893416 / 100000000
  | 14 => 7542056257 / 100000000
  | 13 => 7639684391 / 100000000
  | 12 => 7736789461 / 100000000
  | 11 => 7833374083 / 100000000
  | 10 => 7929428225 / 100000000
  | 9 => 8024923213 / 100000000
  | 8 => 8119801349 / 100000000
  | 7 => 8213956981 / 100000000
  | 6 => 8307199445 / 100000000
  | 5 => 8399173563 / 100000000
  | 4 => 8489166191 / 100000000
  | 3 => 8575541621 / 100000000
  | 2 => 8653536998 / 100000000
  | 1 => 8700000000 / 100000000
  | _ => 0

/-- rational upper bound of cos(lowThr n) (hence of cos on the whole band) -/
def cosUB : Nat → ℚ
  | 59 => 10000000 / 10000000
  | 58 => 9833604 / 10000000
  | 57 => 9667449 / 10000000
  | 56 => 9501541 / 10000000
  | 55 => 9335889 / 10000000
  | 54 => 9170501 / 10000000
  | 53 => 9005384 / 10000000
  | 52 => 8840547 / 10000000
  | 51 => 8675997 / 10000000
  | 50 => 8511745 / 10000000
  | 49 => 8347798 / 10000000
  | 48 => 8184166 / 10000000
  | 47 => 8020858 / 10000000
  | 46 => 7857884 / 10000000
  | 45 => 7695255 / 10000000
  | 44 => 7532980 / 10000000
  | 43 => 7371071 / 10000000
  | 42 => 7209538 / 10000000
  | 41 => 7008351 / 10000000
  | 40 => 6841200 / 10000000
  | 39 => 6674157 / 10000000
  | 38 => 6507207 / 10000000
  | 37 => 6340339 / 10000000
  | 36 => 6173545 / 10000000
  | 35 => 6006817 / 10000000
  | 34 => 5840148 / 10000000
  | 33 => 5673534 / 10000000
  | 32 => 5506969 / 10000000
  | 31 => 5340451 / 10000000
  | 30 => 5173977 / 10000000
  | 29 => 5007545 / 10000000
  | 28 => 4841154 / 10000000
  | 27 => 4674803 / 10000000
  | 26 => 4508493 / 10000000
  | 25 => 4342224 / 10000000
  | 24 => 4175998 / 10000000
  | 23 => 4009818 / 10000000
  | 22 => 3843685 / 10000000
  | 21 => 3677606 / 10000000
  | 20 => 3511586 / 10000000
  | 19 => 3345630 / 10000000
  | 18 => 3179749 / 10000000
  | 17 => 3013954 / 10000000
  | 16 => 2848257 / 10000000
  | 15 => 2682678 / 10000000
  | 14 => 2517239 / 10000000
  | 13 => 2351970 / 10000000
  | 12 => 2186910 / 10000000
  | 11 => 2022113 / 10000000
  | 10 => 1857651 / 10000000
  | 9 => 1693630 / 10000000
  | 8 => 1530203 / 10000000
  | 7 => 1367606 / 10000000
  | 6 => 1206222 / 10000000
  | 5 => 1046720 / 10000000
  | 4 => 890393 / 10000000
  | 3 => 740143 / 10000000
  | 2 => 604324 / 10000000
  | 1 => 523360 / 10000000
  | _ => 1

theorem cos_row_59 : cos ((((0 : ℚ) / 100000000 : ℚ) : ℝ) * π / 180) ≤ (((10000000 : ℚ) / 10000000 : ℚ) : ℝ) := by
  push_cast; exact le_trans (cos_le_one _) (by norm_num)

theorem cos_row_58 : cos ((((1047047130 : ℚ) / 100000000 : ℚ) : ℝ) * π / 180) ≤ (((9833604 : ℚ) / 10000000 : ℚ) : ℝ) := by
  have hp := pi_lt_d6; have hp' := pi_gt_d6
  push_cast
  refine le_trans (cos_le_of_lo (a := 3.141592 / 180 * (1047047130 / 100000000)) (by norm_num) (by norm_num) (by linarith) (by linarith)) ?_
  norm_num

theorem cos_row_57 : cos ((((1482817437 : ℚ) / 100000000 : ℚ) : ℝ) * π / 180) ≤ (((9667449 : ℚ) / 10000000 : ℚ) : ℝ) := by
  have hp := pi_lt_d6; have hp' := pi_gt_d6
  push_cast
  refine le_trans (cos_le_of_lo (a := 3.141592 / 180 * (1482817437 / 100000000)) (by norm_num) (by norm_num) (by linarith) (by linarith)) ?_
  norm_num

theorem cos_row_56 : cos ((((1818626357 : ℚ) / 100000000 : ℚ) : ℝ) * π / 180) ≤ (((9501541 : ℚ) / 10000000 : ℚ) : ℝ) := by
  have hp := pi_lt_d6; have hp' := pi_gt_d6
  push_cast
  refine le_trans (cos_le_of_lo (a := 3.141592 / 180 * (1818626357 / 100000000)) (by norm_num) (by norm_num) (by linarith) (by linarith)) ?_
  norm_num

theorem cos_row_55 : cos ((((2102939493 : ℚ) / 100000000 : ℚ) : ℝ) * π / 180) ≤ (((9335889 : ℚ) / 10000000 : ℚ) : ℝ) := by
  have hp := pi_lt_d6; have hp' := pi_gt_d6
  push_cast
  refine le_trans (cos_le_of_lo (a := 3.141592 / 180 * (2102939493 / 100000000)) (by norm_num) (by norm_num) (by linarith) (by linarith)) ?_
  norm_num

theorem cos_row_54 : cos ((((2354504487 : ℚ) / 100000000 : ℚ) : ℝ) * π / 180) ≤ (((9170501 : ℚ) / 10000000 : ℚ) : ℝ) := by
  have hp := pi_lt_d6; have hp' := pi_gt_d6
  push_cast
  refine le_trans (cos_le_of_lo (a := 3.141592 / 180 * (2354504487 / 100000000)) (by norm_num) (by norm_num) (by linarith) (by linarith)) ?_
  norm_num

theorem cos_row_53 : cos ((((2582924707 : ℚ) / 100000000 : ℚ) : ℝ) * π / 180) ≤ (((9005384 : ℚ) / 10000000 : ℚ) : ℝ) := by
  have hp := pi_lt_d6; have hp' := pi_gt_d6
  push_cast
  refine le_trans (cos_le_of_lo (a := 3.141592 / 180 * (2582924707 / 100000000)) (by norm_num) (by norm_num) (by linarith) (by linarith)) ?_
  norm_num

theorem cos_row_52 : cos ((((2793898710 : ℚ) / 100000000 : ℚ) : ℝ) * π / 180) ≤ (((8840547 : ℚ) / 10000000 : ℚ) : ℝ) := by
  have hp := pi_lt_d6; have hp' := pi_gt_d6
  push_cast
  refine le_trans (cos_le_of_lo (a := 3.141592 / 180 * (2793898710 / 100000000)) (by norm_num) (by norm_num) (by linarith) (by linarith)) ?_
  norm_num

theorem cos_row_51 : cos ((((2991135686 : ℚ) / 100000000 : ℚ) : ℝ) * π / 180) ≤ (((8675997 : ℚ) / 10000000 : ℚ) : ℝ) := by
  have hp := pi_lt_d6; have hp' := pi_gt_d6
  push_cast
  refine le_trans (cos_le_of_lo (a := 3.141592 / 180 * (2991135686 / 100000000)) (by norm_num) (by norm_num) (by linarith) (by linarith)) ?_
  norm_num

theorem cos_row_50 : cos ((((3177209708 : ℚ) / 100000000 : ℚ) : ℝ) * π / 180) ≤ (((8511745 : ℚ) / 10000000 : ℚ) : ℝ) := by
  have hp := pi_lt_d6; have hp' := pi_gt_d6
  push_cast
  refine le_trans (cos_le_of_lo (a := 3.141592 / 180 * (3177209708 / 100000000)) (by norm_num) (by norm_num) (by linarith) (by linarith)) ?_
  norm_num

theorem cos_row_49 : cos ((((3353993436 : ℚ) / 100000000 : ℚ) : ℝ) * π / 180) ≤ (((8347798 : ℚ) / 10000000 : ℚ) : ℝ) := by
  have hp := pi_lt_d6; have hp' := pi_gt_d6
  push_cast
  refine le_trans (cos_le_of_lo (a := 3.141592 / 180 * (3353993436 / 100000000)) (by norm_num) (by norm_num) (by linarith) (by linarith)) ?_
  norm_num

theorem cos_row_48 : cos ((((3522899598 : ℚ) / 100000000 : ℚ) : ℝ) * π / 180) ≤ (((8184166 : ℚ) / 10000000 : ℚ) : ℝ) := by
  have hp := pi_lt_d6; have hp' := pi_gt_d6
  push_cast
  refine le_trans (cos_le_of_lo (a := 3.141592 / 180 * (3522899598 / 100000000)) (by norm_num) (by norm_num) (by linarith) (by linarith)) ?_
  norm_num

theorem cos_row_47 : cos ((((3685025108 : ℚ) / 100000000 : ℚ) : ℝ) * π / 180) ≤ (((8020858 : ℚ) / 10000000 : ℚ) : ℝ) := by
  have hp := pi_lt_d6; have hp' := pi_gt_d6
  push_cast
  refine le_trans (cos_le_of_lo (a := 3.141592 / 180 * (3685025108 / 100000000)) (by norm_num) (by norm_num) (by linarith) (by linarith)) ?_
  norm_num

theorem cos_row_46 : cos ((((3841241892 : ℚ) / 100000000 : ℚ) : ℝ) * π / 180) ≤ (((7857884 : ℚ) / 10000000 : ℚ) : ℝ) := by
  have hp := pi_lt_d6; have hp' := pi_gt_d6
  push_cast
  refine le_trans (cos_le_of_lo (a := 3.141592 / 180 * (3841241892 / 100000000)) (by norm_num) (by norm_num) (by linarith) (by linarith)) ?_
  norm_num

theorem cos_row_45 : cos ((((3992256684 : ℚ) / 100000000 : ℚ) : ℝ) * π / 180) ≤ (((7695255 : ℚ) / 10000000 : ℚ) : ℝ) := by
  have hp := pi_lt_d6; have hp' := pi_gt_d6
  push_cast
  refine le_trans (cos_le_of_lo (a := 3.141592 / 180 * (3992256684 / 100000000)) (by norm_num) (by norm_num) (by linarith) (by linarith)) ?_
  norm_num

theorem cos_row_44 : cos ((((4138651832 : ℚ) / 100000000 : ℚ) : ℝ) * π / 180) ≤ (((7532980 : ℚ) / 10000000 : ℚ) : ℝ) := by
  have hp := pi_lt_d6; have hp' := pi_gt_d6
  push_cast
  refine le_trans (cos_le_of_lo (a := 3.141592 / 180 * (4138651832 / 100000000)) (by norm_num) (by norm_num) (by linarith) (by linarith)) ?_
  norm_num

theorem cos_row_43 : cos ((((4280914012 : ℚ) / 100000000 : ℚ) : ℝ) * π / 180) ≤ (((7371071 : ℚ) / 10000000 : ℚ) : ℝ) := by
  have hp := pi_lt_d6; have hp' := pi_gt_d6
  push_cast
  refine le_trans (cos_le_of_lo (a := 3.141592 / 180 * (4280914012 / 100000000)) (by norm_num) (by norm_num) (by linarith) (by linarith)) ?_
  norm_num

theorem cos_row_42 : cos ((((4419454951 : ℚ) / 100000000 : ℚ) : ℝ) * π / 180) ≤ (((7209538 : ℚ) / 10000000 : ℚ) : ℝ) := by
  have hp := pi_lt_d6; have hp' := pi_gt_d6
  push_cast
  refine le_trans (cos_le_of_lo (a := 3.141592 / 180 * (4419454951 / 100000000)) (by norm_num) (by norm_num) (by linarith) (by linarith)) ?_
  norm_num

theorem cos_row_41 : cos ((((4554626723 : ℚ) / 100000000 : ℚ) : ℝ) * π / 180) ≤ (((7008351 : ℚ) / 10000000 : ℚ) : ℝ) := by
  have hp := pi_lt_d6; have hp' := pi_gt_d6
  push_cast
  refine le_trans (cos_le_of_hi (b := 3.141593 / 180 * (90 - 4554626723 / 100000000)) (by norm_num) (by linarith) (by linarith)) ?_
  norm_num

theorem cos_row_40 : cos ((((4686733252 : ℚ) / 100000000 : ℚ) : ℝ) * π / 180) ≤ (((6841200 : ℚ) / 10000000 : ℚ) : ℝ) := by
  have hp := pi_lt_d6; have hp' := pi_gt_d6
  push_cast
  refine le_trans (cos_le_of_hi (b := 3.141593 / 180 * (90 - 4686733252 / 100000000)) (by norm_num) (by linarith) (by linarith)) ?_
  norm_num

theorem cos_row_39 : cos ((((4816039128 : ℚ) / 100000000 : ℚ) : ℝ) * π / 180) ≤ (((6674157 : ℚ) / 10000000 : ℚ) : ℝ) := by
  have hp := pi_lt_d6; have hp' := pi_gt_d6
  push_cast
  refine le_trans (cos_le_of_hi (b := 3.141593 / 180 * (90 - 4816039128 / 100000000)) (by norm_num) (by linarith) (by linarith)) ?_
  norm_num

theorem cos_row_38 : cos ((((4942776439 : ℚ) / 100000000 : ℚ) : ℝ) * π / 180) ≤ (((6507207 : ℚ) / 10000000 : ℚ) : ℝ) := by
  have hp := pi_lt_d6; have hp' := pi_gt_d6
  push_cast
  refine le_trans (cos_le_of_hi (b := 3.141593 / 180 * (90 - 4942776439 / 100000000)) (by norm_num) (by linarith) (by linarith)) ?_
  norm_num

theorem cos_row_37 : cos ((((5067150166 : ℚ) / 100000000 : ℚ) : ℝ) * π / 180) ≤ (((6340339 : ℚ) / 10000000 : ℚ) : ℝ) := by
  have hp := pi_lt_d6; have hp' := pi_gt_d6
  push_cast
  refine le_trans (cos_le_of_hi (b := 3.141593 / 180 * (90 - 5067150166 / 100000000)) (by norm_num) (by linarith) (by linarith)) ?_
  norm_num

theorem cos_row_36 : cos ((((5189342469 : ℚ) / 100000000 : ℚ) : ℝ) * π / 180) ≤ (((6173545 : ℚ) / 10000000 : ℚ) : ℝ) := by
  have hp := pi_lt_d6; have hp' := pi_gt_d6
  push_cast
  refine le_trans (cos_le_of_hi (b := 3.141593 / 180 * (90 - 5189342469 / 100000000)) (by norm_num) (by linarith) (by linarith)) ?_
  norm_num

theorem cos_row_35 : cos ((((5309516153 : ℚ) / 100000000 : ℚ) : ℝ) * π / 180) ≤ (((6006817 : ℚ) / 10000000 : ℚ) : ℝ) := by
  have hp := pi_lt_d6; have hp' := pi_gt_d6
  push_cast
  refine le_trans (cos_le_of_hi (b := 3.141593 / 180 * (90 - 5309516153 / 100000000)) (by norm_num) (by linarith) (by linarith)) ?_
  norm_num

theorem cos_row_34 : cos ((((5427817472 : ℚ) / 100000000 : ℚ) : ℝ) * π / 180) ≤ (((5840148 : ℚ) / 10000000 : ℚ) : ℝ) := by
  have hp := pi_lt_d6; have hp' := pi_gt_d6
  push_cast
  refine le_trans (cos_le_of_hi (b := 3.141593 / 180 * (90 - 5427817472 / 100000000)) (by norm_num) (by linarith) (by linarith)) ?_
  norm_num

theorem cos_row_33 : cos ((((5544378444 : ℚ) / 100000000 : ℚ) : ℝ) * π / 180) ≤ (((5673534 : ℚ) / 10000000 : ℚ) : ℝ) := by
  have hp := pi_lt_d6; have hp' := pi_gt_d6
  push_cast
  refine le_trans (cos_le_of_hi (b := 3.141593 / 180 * (90 - 5544378444 / 100000000)) (by norm_num) (by linarith) (by linarith)) ?_
  norm_num

theorem cos_row_32 : cos ((((5659318756 : ℚ) / 100000000 : ℚ) : ℝ) * π / 180) ≤ (((5506969 : ℚ) / 10000000 : ℚ) : ℝ) := by
  have hp := pi_lt_d6; have hp' := pi_gt_d6
  push_cast
  refine le_trans (cos_le_of_hi (b := 3.141593 / 180 * (90 - 5659318756 / 100000000)) (by norm_num) (by linarith) (by linarith)) ?_
  norm_num

theorem cos_row_31 : cos ((((5772747354 : ℚ) / 100000000 : ℚ) : ℝ) * π / 180) ≤ (((5340451 : ℚ) / 10000000 : ℚ) : ℝ) := by
  have hp := pi_lt_d6; have hp' := pi_gt_d6
  push_cast
  refine le_trans (cos_le_of_hi (b := 3.141593 / 180 * (90 - 5772747354 / 100000000)) (by norm_num) (by linarith) (by linarith)) ?_
  norm_num

theorem cos_row_30 : cos ((((5884763776 : ℚ) / 100000000 : ℚ) : ℝ) * π / 180) ≤ (((5173977 : ℚ) / 10000000 : ℚ) : ℝ) := by
  have hp := pi_lt_d6; have hp' := pi_gt_d6
  push_cast
  refine le_trans (cos_le_of_hi (b := 3.141593 / 180 * (90 - 5884763776 / 100000000)) (by norm_num) (by linarith) (by linarith)) ?_
  norm_num

theorem cos_row_29 : cos ((((5995459277 : ℚ) / 100000000 : ℚ) : ℝ) * π / 180) ≤ (((5007545 : ℚ) / 10000000 : ℚ) : ℝ) := by
  have hp := pi_lt_d6; have hp' := pi_gt_d6
  push_cast
  refine le_trans (cos_le_of_hi (b := 3.141593 / 180 * (90 - 5995459277 / 100000000)) (by norm_num) (by linarith) (by linarith)) ?_
  norm_num

theorem cos_row_28 : cos ((((6104917774 : ℚ) / 100000000 : ℚ) : ℝ) * π / 180) ≤ (((4841154 : ℚ) / 10000000 : ℚ) : ℝ) := by
  have hp := pi_lt_d6; have hp' := pi_gt_d6
  push_cast
  refine le_trans (cos_le_of_hi (b := 3.141593 / 180 * (90 - 6104917774 / 100000000)) (by norm_num) (by linarith) (by linarith)) ?_
  norm_num

theorem cos_row_27 : cos ((((6213216659 : ℚ) / 100000000 : ℚ) : ℝ) * π / 180) ≤ (((4674803 : ℚ) / 10000000 : ℚ) : ℝ) := by
  have hp := pi_lt_d6; have hp' := pi_gt_d6
  push_cast
  refine le_trans (cos_le_of_hi (b := 3.141593 / 180 * (90 - 6213216659 / 100000000)) (by norm_num) (by linarith) (by linarith)) ?_
  norm_num

theorem cos_row_26 : cos ((((6320427479 : ℚ) / 100000000 : ℚ) : ℝ) * π / 180) ≤ (((4508493 : ℚ) / 10000000 : ℚ) : ℝ) := by
  have hp := pi_lt_d6; have hp' := pi_gt_d6
  push_cast
  refine le_trans (cos_le_of_hi (b := 3.141593 / 180 * (90 - 6320427479 / 100000000)) (by norm_num) (by linarith) (by linarith)) ?_
  norm_num

theorem cos_row_25 : cos ((((6426616523 : ℚ) / 100000000 : ℚ) : ℝ) * π / 180) ≤ (((4342224 : ℚ) / 10000000 : ℚ) : ℝ) := by
  have hp := pi_lt_d6; have hp' := pi_gt_d6
  push_cast
  refine le_trans (cos_le_of_hi (b := 3.141593 / 180 * (90 - 6426616523 / 100000000)) (by norm_num) (by linarith) (by linarith)) ?_
  norm_num

theorem cos_row_24 : cos ((((6531845310 : ℚ) / 100000000 : ℚ) : ℝ) * π / 180) ≤ (((4175998 : ℚ) / 10000000 : ℚ) : ℝ) := by
  have hp := pi_lt_d6; have hp' := pi_gt_d6
  push_cast
  refine le_trans (cos_le_of_hi (b := 3.141593 / 180 * (90 - 6531845310 / 100000000)) (by norm_num) (by linarith) (by linarith)) ?_
  norm_num

theorem cos_row_23 : cos ((((6636171008 : ℚ) / 100000000 : ℚ) : ℝ) * π / 180) ≤ (((4009818 : ℚ) / 10000000 : ℚ) : ℝ) := by
  have hp := pi_lt_d6; have hp' := pi_gt_d6
  push_cast
  refine le_trans (cos_le_of_hi (b := 3.141593 / 180 * (90 - 6636171008 / 100000000)) (by norm_num) (by linarith) (by linarith)) ?_
  norm_num

theorem cos_row_22 : cos ((((6739646774 : ℚ) / 100000000 : ℚ) : ℝ) * π / 180) ≤ (((3843685 : ℚ) / 10000000 : ℚ) : ℝ) := by
  have hp := pi_lt_d6; have hp' := pi_gt_d6
  push_cast
  refine le_trans (cos_le_of_hi (b := 3.141593 / 180 * (90 - 6739646774 / 100000000)) (by norm_num) (by linarith) (by linarith)) ?_
  norm_num

theorem cos_row_21 : cos ((((6842322022 : ℚ) / 100000000 : ℚ) : ℝ) * π / 180) ≤ (((3677606 : ℚ) / 10000000 : ℚ) : ℝ) := by
  have hp := pi_lt_d6; have hp' := pi_gt_d6
  push_cast
  refine le_trans (cos_le_of_hi (b := 3.141593 / 180 * (90 - 6842322022 / 100000000)) (by norm_num) (by linarith) (by linarith)) ?_
  norm_num

theorem cos_row_20 : cos ((((6944242631 : ℚ) / 100000000 : ℚ) : ℝ) * π / 180) ≤ (((3511586 : ℚ) / 10000000 : ℚ) : ℝ) := by
  have hp := pi_lt_d6; have hp' := pi_gt_d6
  push_cast
  refine le_trans (cos_le_of_hi (b := 3.141593 / 180 * (90 - 6944242631 / 100000000)) (by norm_num) (by linarith) (by linarith)) ?_
  norm_num

theorem cos_row_19 : cos ((((7045451075 : ℚ) / 100000000 : ℚ) : ℝ) * π / 180) ≤ (((3345630 : ℚ) / 10000000 : ℚ) : ℝ) := by
  have hp := pi_lt_d6; have hp' := pi_gt_d6
  push_cast
  refine le_trans (cos_le_of_hi (b := 3.141593 / 180 * (90 - 7045451075 / 100000000)) (by norm_num) (by linarith) (by linarith)) ?_
  norm_num

theorem cos_row_18 : cos ((((7145986473 : ℚ) / 100000000 : ℚ) : ℝ) * π / 180) ≤ (((3179749 : ℚ) / 10000000 : ℚ) : ℝ) := by
  have hp := pi_lt_d6; have hp' := pi_gt_d6
  push_cast
  refine le_trans (cos_le_of_hi (b := 3.141593 / 180 * (90 - 7145986473 / 100000000)) (by norm_num) (by linarith) (by linarith)) ?_
  norm_num

theorem cos_row_17 : cos ((((7245884545 : ℚ) / 100000000 : ℚ) : ℝ) * π / 180) ≤ (((3013954 : ℚ) / 10000000 : ℚ) : ℝ) := by
  have hp := pi_lt_d6; have hp' := pi_gt_d6
  push_cast
  refine le_trans (cos_le_of_hi (b := 3.141593 / 180 * (90 - 7245884545 / 100000000)) (by norm_num) (by linarith) (by linarith)) ?_
  norm_num

theorem cos_row_16 : cos ((((7345177442 : ℚ) / 100000000 : ℚ) : ℝ) * π / 180) ≤ (((2848257 : ℚ) / 10000000 : ℚ) : ℝ) := by
  have hp := pi_lt_d6; have hp' := pi_gt_d6
  push_cast
  refine le_trans (cos_le_of_hi (b := 3.141593 / 180 * (90 - 7345177442 / 100000000)) (by norm_num) (by linarith) (by linarith)) ?_
  norm_num

theorem cos_row_15 : cos ((((7443893416 : ℚ) / 100000000 : ℚ) : ℝ) * π / 180) ≤ (((2682678 : ℚ) / 10000000 : ℚ) : ℝ) := by
  have hp := pi_lt_d6; have hp' := pi_gt_d6
  push_cast
  refine le_trans (cos_le_of_hi (b := 3.141593 / 180 * (90 - 7443893416 / 100000000)) (by norm_num) (by linarith) (by linarith)) ?_
  norm_num

theorem cos_row_14 : cos ((((7542056257 : ℚ) / 100000000 : ℚ) : ℝ) * π / 180) ≤ (((2517239 : ℚ) / 10000000 : ℚ) : ℝ) := by
  have hp := pi_lt_d6; have hp' := pi_gt_d6
  push_cast
  refine le_trans (cos_le_of_hi (b := 3.141593 / 180 * (90 - 7542056257 / 100000000)) (by norm_num) (by linarith) (by linarith)) ?_
  norm_num

theorem cos_row_13 : cos ((((7639684391 : ℚ) / 100000000 : ℚ) : ℝ) * π / 180) ≤ (((2351970 : ℚ) / 10000000 : ℚ) : ℝ) := by
  have hp := pi_lt_d6; have hp' := pi_gt_d6
  push_cast
  refine le_trans (cos_le_of_hi (b := 3.141593 / 180 * (90 - 7639684391 / 100000000)) (by norm_num) (by linarith) (by linarith)) ?_
  norm_num

theorem cos_row_12 : cos ((((7736789461 : ℚ) / 100000000 : ℚ) : ℝ) * π / 180) ≤ (((2186910 : ℚ) / 10000000 : ℚ) : ℝ) := by
  have hp := pi_lt_d6; have hp' := pi_gt_d6
  push_cast
  refine le_trans (cos_le_of_hi (b := 3.141593 / 180 * (90 - 7736789461 / 100000000)) (by norm_num) (by linarith) (by linarith)) ?_
  norm_num

theorem cos_row_11 : cos ((((7833374083 : ℚ) / 100000000 : ℚ) : ℝ) * π / 180) ≤ (((2022113 : ℚ) / 10000000 : ℚ) : ℝ) := by
  have hp := pi_lt_d6; have hp' := pi_gt_d6
  push_cast
  refine le_trans (cos_le_of_hi (b := 3.141593 / 180 * (90 - 7833374083 / 100000000)) (by norm_num) (by linarith) (by linarith)) ?_
  norm_num

theorem cos_row_10 : cos ((((7929428225 : ℚ) / 100000000 : ℚ) : ℝ) * π / 180) ≤ (((1857651 : ℚ) / 10000000 : ℚ) : ℝ) := by
  have hp := pi_lt_d6; have hp' := pi_gt_d6
  push_cast
  refine le_trans (cos_le_of_hi (b := 3.141593 / 180 * (90 - 7929428225 / 100000000)) (by norm_num) (by linarith) (by linarith)) ?_
  norm_num

theorem cos_row_9 : cos ((((8024923213 : ℚ) / 100000000 : ℚ) : ℝ) * π / 180) ≤ (((1693630 : ℚ) / 10000000 : ℚ) : ℝ) := by
  have hp := pi_lt_d6; have hp' := pi_gt_d6
  push_cast
  refine le_trans (cos_le_of_hi (b := 3.141593 / 180 * (90 - 8024923213 / 100000000)) (by norm_num) (by linarith) (by linarith)) ?_
  norm_num

theorem cos_row_8 : cos ((((8119801349 : ℚ) / 100000000 : ℚ) : ℝ) * π / 180) ≤ (((1530203 : ℚ) / 10000000 : ℚ) : ℝ) := by
  have hp := pi_lt_d6; have hp' := pi_gt_d6
  push_cast
  refine le_trans (cos_le_of_hi (b := 3.141593 / 180 * (90 - 8119801349 / 100000000)) (by norm_num) (by linarith) (by linarith)) ?_
  norm_num

theorem cos_row_7 : cos ((((8213956981 : ℚ) / 100000000 : ℚ) : ℝ) * π / 180) ≤ (((1367606 : ℚ) / 10000000 : ℚ) : ℝ) := by
  have hp := pi_lt_d6; have hp' := pi_gt_d6
  push_cast
  refine le_trans (cos_le_of_hi (b := 3.141593 / 180 * (90 - 8213956981 / 100000000)) (by norm_num) (by linarith) (by linarith)) ?_
  norm_num

theorem cos_row_6 : cos ((((8307199445 : ℚ) / 100000000 : ℚ) : ℝ) * π / 180) ≤ (((1206222 : ℚ) / 10000000 : ℚ) : ℝ) := by
  have hp := pi_lt_d6; have hp' := pi_gt_d6
  push_cast
  refine le_trans (cos_le_of_hi (b := 3.141593 / 180 * (90 - 8307199445 / 100000000)) (by norm_num) (by linarith) (by linarith)) ?_
  norm_num

theorem cos_row_5 : cos ((((8399173563 : ℚ) / 100000000 : ℚ) : ℝ) * π / 180) ≤ (((1046720 : ℚ) / 10000000 : ℚ) : ℝ) := by
  have hp := pi_lt_d6; have hp' := pi_gt_d6
  push_cast
  refine le_trans (cos_le_of_hi (b := 3.141593 / 180 * (90 - 8399173563 / 100000000)) (by norm_num) (by linarith) (by linarith)) ?_
  norm_num

theorem cos_row_4 : cos ((((8489166191 : ℚ) / 100000000 : ℚ) : ℝ) * π / 180) ≤ (((890393 : ℚ) / 10000000 : ℚ) : ℝ) := by
  have hp := pi_lt_d6; have hp' := pi_gt_d6
  push_cast
  refine le_trans (cos_le_of_hi (b := 3.141593 / 180 * (90 - 8489166191 / 100000000)) (by norm_num) (by linarith) (by linarith)) ?_
  norm_num

theorem cos_row_3 : cos ((((8575541621 : ℚ) / 100000000 : ℚ) : ℝ) * π / 180) ≤ (((740143 : ℚ) / 10000000 : ℚ) : ℝ) := by
  have hp := pi_lt_d6; have hp' := pi_gt_d6
  push_cast
  refine le_trans (cos_le_of_hi (b := 3.141593 / 180 * (90 - 8575541621 / 100000000)) (by norm_num) (by linarith) (by linarith)) ?_
  norm_num

theorem cos_row_2 : cos ((((8653536998 : ℚ) / 100000000 : ℚ) : ℝ) * π / 180) ≤ (((604324 : ℚ) / 10000000 : ℚ) : ℝ) := by
  have hp := pi_lt_d6; have hp' := pi_gt_d6
  push_cast
  refine le_trans (cos_le_of_hi (b := 3.141593 / 180 * (90 - 8653536998 / 100000000)) (by norm_num) (by linarith) (by linarith)) ?_
  norm_num

theorem cos_row_1 : cos ((((8700000000 : ℚ) / 100000000 : ℚ) : ℝ) * π / 180) ≤ (((523360 : ℚ) / 10000000 : ℚ) : ℝ) := by
  have hp := pi_lt_d6; have hp' := pi_gt_d6
  push_cast
  refine le_trans (cos_le_of_hi (b := 3.141593 / 180 * (90 - 8700000000 / 100000000)) (by norm_num) (by linarith) (by linarith)) ?_
  norm_num

/-- **the 59 cosine bounds**: `cos(lowThr n · π/180) ≤ cosUB n` for every band -/
theorem cos_lowThr (n : Nat) (h1 : 1 ≤ n) (h59 : n ≤ 59) :
    cos (((lowThr n : ℚ) : ℝ) * π / 180) ≤ ((cosUB n : ℚ) : ℝ) := by
  interval_cases n
  · exact cos_row_1
  · exact cos_row_2
  · exact cos_row_3
  · exact cos_row_4
  · exact cos_row_5
  · exact cos_row_6
  · exact cos_row_7
  · exact cos_row_8
  · exact cos_row_9
  · exact cos_row_10
  · exact cos_row_11
  · exact cos_row_12
  · exact cos_row_13
  · exact cos_row_14
  · exact cos_row_15
  · exact cos_row_16
  · exact cos_row_17
  · exact cos_row_18
  · exact cos_row_19
  · exact cos_row_20
  · exact cos_row_21
  · exact cos_row_22
  · exact cos_row_23
  · exact cos_row_24
  · exact cos_row_25
  · exact cos_row_26
  · exact cos_row_27
  · exact cos_row_28
  · exact cos_row_29
  · exact cos_row_30
  · exact cos_row_31
  · exact cos_row_32
  · exact cos_row_33
  · exact cos_row_34
  · exact cos_row_35
  · exact cos_row_36
  · exact cos_row_37
  · exact cos_row_38
  · exact cos_row_39
  · exact cos_row_40
  · exact cos_row_41
  · exact cos_row_42
  · exact cos_row_43
  · exact cos_row_44
  · exact cos_row_45
  · exact cos_row_46
  · exact cos_row_47
  · exact cos_row_48
  · exact cos_row_49
  · exact cos_row_50
  · exact cos_row_51
  · exact cos_row_52
  · exact cos_row_53
  · exact cos_row_54
  · exact cos_row_55
  · exact cos_row_56
  · exact cos_row_57
  · exact cos_row_58
  · exact cos_row_59

/-- `lowThr` is the standard's table: the band NL = n starts at the transition latitude of the row n+1 -/
theorem lowThr_table :
    (Spec.Cpr.nlTable.all fun row => decide (lowThr (row.2 - 1) = (row.1 : ℚ) / Spec.Cpr.nlUnit)) = true := by
  decide +kernel

theorem lowThr_59 : lowThr 59 = 0 := by simp [lowThr]
theorem lowThr_1 : lowThr 1 = 87 := by norm_num [lowThr]

end Rs1090.Proofs.Metres
