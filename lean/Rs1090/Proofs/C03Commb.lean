/-
C03 helper lemmas, part 5: Comm-B replies (DF 20 / DF 21).

  * `bytesN 7` at bit 32 of a Spec frame returns the packed MB field
  * the Comm-B selector (`Commb.df20` / `df21`) on a non-zero MB field always returns a field list
    `regs` (no panic: C01's `common_noPanic`; no serde error: C07's `df20_good`), and `regs` holds,
    under key `bdsNN`, the object of every register whose hypothesis test accepted the payload
  * the whole frame: `tryFrom (buildCommB …)`
-/
import Rs1090.Proofs.C03Adsb
import Rs1090.Proofs.Decode.AllGood
namespace Rs1090.Proofs.C03
open Rs1090 Rs1090.Model Rs1090.Spec.Encode Rs1090.Model.Message
open Rs1090.Spec.Crc (pack encodeAP apField bitsN)

/-! ### whole bytes -/

theorem bitsBE_byte : ∀ (F : List Nat) (j : Nat), (∀ b ∈ F, b < 256) → j < F.length →
    bitsBE F (8 * j) 8 = F.getD j 0 := by
  intro F j hlt hj
  have hb : F.getD j 0 < 256 := by
    rw [List.getD_eq_getElem?_getD, List.getElem?_eq_getElem hj]; exact hlt _ (List.getElem_mem hj)
  have e : ∀ k, k < 8 → bitAt F (8 * j + k) = (F.getD j 0 >>> (7 - k)) % 2 := by
    intro k hk
    unfold bitAt
    have h1 : (8 * j + k) / 8 = j := by omega
    have h2 : (8 * j + k) % 8 = k := by omega
    rw [h1, h2]
  have e0 := e 0 (by omega)
  rw [Nat.add_zero] at e0
  simp only [bitsBE, e0, e 1 (by omega), e 2 (by omega), e 3 (by omega), e 4 (by omega),
    e 5 (by omega), e 6 (by omega), e 7 (by omega), Nat.add_zero]
  generalize F.getD j 0 = b at *
  simp only [Nat.shiftRight_eq_div_pow, Nat.reduceSub, Nat.reducePow]
  omega

/-- `bytesN k` from a byte boundary -/
theorem wpOk_bytesN : ∀ (k : Nat) (Q : List Nat → Rd → Prop) (F : List Nat) (j l r : Nat),
    (∀ b ∈ F, b < 256) → j + k ≤ F.length →
    (wpOk (bytesN k) Q (st F (8 * j) l r) ↔
      Q ((F.drop j).take k) (st F (8 * (j + k)) (l + 8 * k) (r + 8 * k)))
  | 0, Q, F, j, l, r, _, _ => by
    simp only [bytesN, wpOk_pure, List.take_zero, Nat.add_zero, Nat.mul_zero]
  | k + 1, Q, F, j, l, r, hlt, h => by
    have hj : j < F.length := by omega
    simp only [bytesN, wpOk_bind]
    rw [wpOk_bits 8 (by decide)]
    have h1 : ceilDiv8 (8 * j + 8) ≤ F.length := by unfold ceilDiv8; omega
    simp only [h1, true_and]
    have e1 : 8 * j + 8 = 8 * (j + 1) := by omega
    rw [e1, wpOk_bytesN k _ F (j + 1) (l + 8) (r + 8) hlt (by omega)]
    simp only [wpOk_pure]
    rw [bitsBE_byte F j hlt hj]
    have e2 : (F.drop j).take (k + 1) = F.getD j 0 :: (F.drop (j + 1)).take k := by
      rw [List.drop_eq_getElem_cons hj, List.take_succ_cons, List.getD_eq_getElem?_getD,
        List.getElem?_eq_getElem hj, Option.getD_some]
    rw [e2]
    have e3 : 8 * (j + 1 + k) = 8 * (j + (k + 1)) := by omega
    have e4 : l + 8 + 8 * k = l + 8 * (k + 1) := by omega
    have e5 : r + 8 + 8 * k = r + 8 * (k + 1) := by omega
    rw [e3, e4, e5]

/-! ### the MB field of a Spec frame -/

theorem pack_append (a b : List Bool) (h : a.length % 8 = 0) : pack (a ++ b) = pack a ++ pack b := by
  fun_induction pack a with
  | case1 b7 b6 b5 b4 b3 b2 b1 b0 rest ih =>
    have hr : rest.length % 8 = 0 := by simp at h; omega
    simp only [List.cons_append, pack, ih hr]
  | case2 bs hne =>
    match bs, hne, h with
    | [], _, _ => simp [pack]
    | [_], _, h => simp at h
    | [_, _], _, h => simp at h
    | [_, _, _], _, h => simp at h
    | [_, _, _, _], _, h => simp at h
    | [_, _, _, _, _], _, h => simp at h
    | [_, _, _, _, _, _], _, h => simp at h
    | [_, _, _, _, _, _, _], _, h => simp at h
    | _ :: _ :: _ :: _ :: _ :: _ :: _ :: _ :: _, hne, _ => exact absurd rfl (hne _ _ _ _ _ _ _ _ _)

/-- a 7-byte buffer carrying the MB field list `mb` -/
structure MBuf (buf : List Nat) (mb : List Field) : Prop where
  len : buf.length = 7
  lt : ∀ b ∈ buf, b < 256
  field : ∀ off w v, fieldAt mb off w = some v → bitsBE buf off w = v

theorem mbuf_pack (mb : List Field) (hw : width mb = 56) (hf : fits mb = true) : MBuf (pack (layout mb)) mb := by
  refine ⟨?_, pack_lt _, ?_⟩
  · have := pack_length' (layout mb) (by rw [layout_length, hw])
    rw [layout_length, hw] at this; omega
  · intro off w v h
    have := bitsBE_layout mb [] off w v (by rw [hw]) hf h
    rwa [List.append_nil] at this

/-- bytes 4 … 10 of a long Spec frame are the packed MB field -/
theorem mb_of_frame (hdr mb : List Field) (addr : Nat) (hh : width hdr = 32) (hw : width mb = 56) :
    ((encodeAP (dataBytes (hdr ++ mb)) addr).drop 4).take 7 = pack (layout mb) := by
  have h4 : (pack (layout hdr)).length = 4 := by
    have := pack_length' (layout hdr) (by rw [layout_length, hh]); rw [layout_length, hh] at this; omega
  have h7 : (pack (layout mb)).length = 7 := by
    have := pack_length' (layout mb) (by rw [layout_length, hw]); rw [layout_length, hw] at this; omega
  unfold encodeAP dataBytes
  rw [layout_append, pack_append _ _ (by rw [layout_length, hh]), List.append_assoc,
    List.drop_append_of_le_length (by omega), List.drop_of_length_le (by omega), List.nil_append,
    List.take_append_of_le_length (by omega), List.take_of_length_le (by omega)]

theorem allZero_bitsBE (buf : List Nat) (h : Commb.allZero buf = true) (p : Nat) : ∀ n, bitsBE buf p n = 0
  | 0 => rfl
  | n + 1 => by
    have hb : bitAt buf (p + n) = 0 := by
      unfold bitAt
      have : buf.getD ((p + n) / 8) 0 = 0 := by
        rw [List.getD_eq_getElem?_getD]
        cases hg : buf[(p + n) / 8]? with
        | none => rfl
        | some x =>
          have hx : x ∈ buf := List.mem_of_getElem? hg
          have := List.all_eq_true.1 h x hx
          simpa using this
      rw [this]; simp
    rw [bitsBE, allZero_bitsBE buf h p n, hb]

theorem not_allZero {buf : List Nat} {mb : List Field} (hb : MBuf buf mb) (off w v : Nat)
    (hf : fieldAt mb off w = some v) (hv : v ≠ 0) : Commb.allZero buf = false := by
  cases h : Commb.allZero buf with
  | false => rfl
  | true => exact absurd ((hb.field off w v hf).symm.trans (allZero_bitsBE buf h off w)) hv

/-! ### the Comm-B selector -/

theorem hypo_ok {r : R SerFields} (h : NoPanic r) (buf : List Nat) : ∃ o, Commb.hypo r buf = .ok o := by
  have hn := Commb.hypo_noPanic h buf
  unfold Commb.hypo at *
  cases ht : tryFromBytes r buf with
  | ok v => exact ⟨_, rfl⟩
  | err e => exact ⟨_, rfl⟩
  | panic x => rw [ht] at hn; simp [Outcome.isPanic] at hn

/-- the serialised value of one register hypothesis -/
def nestVal : Option SerFields → Option Json
  | some (.ok f) => some (.obj f.toObj)
  | _ => none

theorem nest_ok {k : Key} {o : Option SerFields} {a : Key × Option Json} (h : Commb.nest k o = .ok a) :
    a = (k, nestVal o) := by
  unfold Commb.nest at h
  cases o with
  | none => cases h; rfl
  | some v =>
    cases v with
    | ok f => cases h; rfl
    | error e => cases h

theorem collect_cons_ok {x : Except SerErr (Key × Option Json)} {xs} {fs : Fields}
    (h : Commb.collect (x :: xs) = .ok fs) : ∃ a r, x = .ok a ∧ Commb.collect xs = .ok r ∧ fs = a :: r := by
  unfold Commb.collect at h
  cases x with
  | error e => cases h
  | ok a =>
    cases hc : Commb.collect xs with
    | error e => rw [hc] at h; cases h
    | ok r => rw [hc] at h; cases h; exact ⟨a, r, rfl, rfl, rfl⟩

theorem collect_ok : ∀ (xs : List (Key × Option SerFields)) (fs : Fields),
    Commb.collect (xs.map fun kv => Commb.nest kv.1 kv.2) = .ok fs → fs = xs.map fun kv => (kv.1, nestVal kv.2)
  | [], fs, h => by simp [Commb.collect] at h; cases h; rfl
  | (k, o) :: rest, fs, h => by
    rw [List.map_cons] at h
    obtain ⟨a, r, ha, hr, rfl⟩ := collect_cons_ok h
    rw [nest_ok ha, collect_ok rest r hr]
    rfl

/-- what the selector's register list looks like: the fourteen keys in order, each with the value of
    its hypothesis -/
structure Regs (buf : List Nat) (b05 : Option SerFields) (regs : Fields) : Prop where
  ex : ∃ b10 b17 b18 b19 b20 b21 b30 b40 b44 b45 b50 b60 b65,
    Commb.hypo Bds20.read buf = .ok b20 ∧ Commb.hypo Bds40.read buf = .ok b40 ∧
    Commb.hypo Bds50.read buf = .ok b50 ∧ Commb.hypo Bds60.read buf = .ok b60 ∧
    regs = [(key! "bds05", nestVal b05), (key! "bds10", nestVal b10), (key! "bds17", nestVal b17),
      (key! "bds18", nestVal b18), (key! "bds19", nestVal b19), (key! "bds20", nestVal b20),
      (key! "bds21", nestVal b21), (key! "bds30", nestVal b30), (key! "bds40", nestVal b40),
      (key! "bds44", nestVal b44), (key! "bds45", nestVal b45), (key! "bds50", nestVal b50),
      (key! "bds60", nestVal b60), (key! "bds65", nestVal b65)]

theorem common_regs (buf : List Nat) (b05 : Option SerFields) (h05 : Commb.OptGood b05) :
    ∃ regs, Commb.common buf b05 = .ok (.ok regs) ∧ Regs buf b05 regs := by
  obtain ⟨b10, h10⟩ := hypo_ok Bds10.read_noPanic buf
  obtain ⟨b17, h17⟩ := hypo_ok Bds17.read_noPanic buf
  obtain ⟨b18, h18⟩ := hypo_ok Bds18.read_noPanic buf
  obtain ⟨b19, h19⟩ := hypo_ok Bds19.read_noPanic buf
  obtain ⟨b20, h20⟩ := hypo_ok Bds20.read_noPanic buf
  obtain ⟨b21, h21⟩ := hypo_ok Bds21.read_noPanic buf
  obtain ⟨b30, h30⟩ := hypo_ok Bds30.read_noPanic buf
  obtain ⟨b40, h40⟩ := hypo_ok Bds40.read_noPanic buf
  obtain ⟨b44, h44⟩ := hypo_ok Bds44.read_noPanic buf
  obtain ⟨b45, h45⟩ := hypo_ok Bds45.read_noPanic buf
  obtain ⟨b50, h50⟩ := hypo_ok Bds50.read_noPanic buf
  obtain ⟨b60, h60⟩ := hypo_ok Bds60.read_noPanic buf
  obtain ⟨b65', h65'⟩ := hypo_ok Bds65.readEnum_noPanic buf
  -- the result of `common`, for whichever value the BDS 6,5 guard takes
  have hcom : ∃ b65, Commb.common buf b05 = .ok (Commb.collect ([
      (key! "bds05", b05), (key! "bds10", b10), (key! "bds17", b17), (key! "bds18", b18),
      (key! "bds19", b19), (key! "bds20", b20), (key! "bds21", b21), (key! "bds30", b30),
      (key! "bds40", b40), (key! "bds44", b44), (key! "bds45", b45), (key! "bds50", b50),
      (key! "bds60", b60), (key! "bds65", b65)].map fun kv => Commb.nest kv.1 kv.2)) := by
    unfold Commb.common
    simp only [h10, h17, h18, h19, h20, h21, h30, h40, h44, h45, h50, h60, Outcome.bind_ok']
    split
    · refine ⟨b65', ?_⟩
      simp only [h65', Outcome.bind_ok', List.map_cons, List.map_nil]; rfl
    · refine ⟨none, ?_⟩
      simp only [Outcome.bind_ok', List.map_cons, List.map_nil]; rfl
  obtain ⟨b65, hcom⟩ := hcom
  have hgood := Commb.common_good regsGood buf b05 h05 _ hcom
  obtain ⟨regs, hregs, _⟩ := hgood.1
  refine ⟨regs, by rw [hcom, hregs], ⟨b10, b17, b18, b19, b20, b21, b30, b40, b44, b45, b50, b60, b65,
    h20, h40, h50, h60, ?_⟩⟩
  have := collect_ok _ regs hregs
  simpa using this

theorem regs_get20 {buf b05 regs} (h : Regs buf b05 regs) (f : Fields)
    (hf : Commb.hypo Bds20.read buf = .ok (some (.ok f))) :
    Fields.get? regs (key! "bds20") = some (.obj f.toObj) := by
  obtain ⟨b10, b17, b18, b19, b20, b21, b30, b40, b44, b45, b50, b60, b65, h20, h40, h50, h60, rfl⟩ := h.ex
  rw [hf] at h20; cases h20
  rfl

theorem regs_get40 {buf b05 regs} (h : Regs buf b05 regs) (f : Fields)
    (hf : Commb.hypo Bds40.read buf = .ok (some (.ok f))) :
    Fields.get? regs (key! "bds40") = some (.obj f.toObj) := by
  obtain ⟨b10, b17, b18, b19, b20, b21, b30, b40, b44, b45, b50, b60, b65, h20, h40, h50, h60, rfl⟩ := h.ex
  rw [hf] at h40; cases h40
  rfl

theorem regs_get50 {buf b05 regs} (h : Regs buf b05 regs) (f : Fields)
    (hf : Commb.hypo Bds50.read buf = .ok (some (.ok f))) :
    Fields.get? regs (key! "bds50") = some (.obj f.toObj) := by
  obtain ⟨b10, b17, b18, b19, b20, b21, b30, b40, b44, b45, b50, b60, b65, h20, h40, h50, h60, rfl⟩ := h.ex
  rw [hf] at h50; cases h50
  rfl

theorem regs_get60 {buf b05 regs} (h : Regs buf b05 regs) (f : Fields)
    (hf : Commb.hypo Bds60.read buf = .ok (some (.ok f))) :
    Fields.get? regs (key! "bds60") = some (.obj f.toObj) := by
  obtain ⟨b10, b17, b18, b19, b20, b21, b30, b40, b44, b45, b50, b60, b65, h20, h40, h50, h60, rfl⟩ := h.ex
  rw [hf] at h60; cases h60
  rfl

theorem regs_get05 {buf b05 regs} (h : Regs buf b05 regs) :
    Fields.get? regs (key! "bds05") = nestVal b05 := by
  obtain ⟨b10, b17, b18, b19, b20, b21, b30, b40, b44, b45, b50, b60, b65, h20, h40, h50, h60, rfl⟩ := h.ex
  rfl

/-- the BDS 0,5 hypothesis of DF 20: accepted only with an altitude equal to the AC field's -/
theorem b05_ok (ac : Nat) (buf : List Nat) (c : Bool) :
    ∃ b05, (if c then
      match tryFromBytes Bds05.read buf with
      | .ok (.ok fs) =>
        (match fs.get? (key! "altitude") with
         | some (.int a) => if a == (ac : Int) then Outcome.ok (some (Except.ok fs)) else .ok none
         | _ => .ok none)
      | .ok (.error e) => .ok (some (.error e))
      | .err _ => .ok none
      | .panic x => .panic x
    else Outcome.ok (none : Option SerFields)) = .ok b05 ∧ Commb.OptGood b05 ∧
      (∀ f, b05 = some (.ok f) → Fields.get? f (key! "altitude") = some (.int ac)) := by
  have hnp := tryFromBytes_noPanic Bds05.read_noPanic buf
  cases c
  · exact ⟨none, rfl, (fun v e => by cases e), (fun f e => by cases e)⟩
  · simp only [if_true]
    cases hr : tryFromBytes Bds05.read buf with
    | ok v =>
      have hv : Commb.RegGood v := tryFromBytes_post regsGood.b05 hr
      cases v with
      | ok fs =>
        simp only []
        cases hg : Fields.get? fs (key! "altitude") with
        | none => exact ⟨none, rfl, (fun v e => by cases e), (fun f e => by cases e)⟩
        | some j =>
          cases j with
          | int a =>
            simp only []
            by_cases ha : (a == (ac : Int)) = true
            · rw [if_pos ha]
              refine ⟨some (.ok fs), rfl, (fun v e => by cases e; exact hv), ?_⟩
              intro f e
              cases e
              rw [hg]
              have : a = (ac : Int) := by simpa using ha
              rw [this]
            · rw [if_neg ha]
              exact ⟨none, rfl, (fun v e => by cases e), (fun f e => by cases e)⟩
          | _ => exact ⟨none, rfl, (fun v e => by cases e), (fun f e => by cases e)⟩
      | error e =>
        exact ⟨some (.error e), rfl, (fun v e' => by cases e'; exact hv), (fun f e' => by cases e')⟩
    | err e => exact ⟨none, rfl, (fun v e => by cases e), (fun f e => by cases e)⟩
    | panic x => rw [hr] at hnp; simp [Outcome.isPanic] at hnp

/-- `Commb.df20` on a long frame whose MB field (bytes 4 … 10) is `buf ≠ 0` -/
theorem df20_run (F buf : List Nat) (ac l r : Nat) (hlt : ∀ b ∈ F, b < 256) (hlen : F.length = 14)
    (hbuf : (F.drop 4).take 7 = buf) (hnz : Commb.allZero buf = false) :
    ∃ b05 regs, Regs buf b05 regs ∧
      (∀ f, b05 = some (.ok f) → Fields.get? f (key! "altitude") = some (.int ac)) ∧
      wpOk (Commb.df20 ac) (fun v s' => v = .ok regs ∧ s' = st F 88 (l + 56) (r + 56)) (st F 32 l r) := by
  obtain ⟨b05, hb05, hgood, halt⟩ := b05_ok ac buf
    (decide (9 ≤ (buf.getD 0 0) >>> 3) && decide ((buf.getD 0 0) >>> 3 < 22) && ((buf.getD 0 0) >>> 3 != 19))
  obtain ⟨regs, hcom, hregs⟩ := common_regs buf b05 hgood
  refine ⟨b05, regs, hregs, halt, ?_⟩
  unfold Commb.df20
  rw [wpOk_bind]
  show wpOk (bytesN 7) _ (st F (8 * 4) l r)
  rw [wpOk_bytesN 7 _ F 4 l r hlt (by omega), hbuf]
  simp only [hnz, Bool.false_eq_true, if_false]
  rw [wpOk_bind]
  refine (wpOk_lift _ _ _ b05 hb05).2 ?_
  refine (wpOk_lift _ _ _ (.ok regs) hcom).2 ?_
  exact ⟨rfl, rfl⟩

theorem df21_run (F buf : List Nat) (l r : Nat) (hlt : ∀ b ∈ F, b < 256) (hlen : F.length = 14)
    (hbuf : (F.drop 4).take 7 = buf) (hnz : Commb.allZero buf = false) :
    ∃ regs, Regs buf none regs ∧
      wpOk Commb.df21 (fun v s' => v = .ok regs ∧ s' = st F 88 (l + 56) (r + 56)) (st F 32 l r) := by
  obtain ⟨regs, hcom, hregs⟩ := common_regs buf none (fun v e => by cases e)
  refine ⟨regs, hregs, ?_⟩
  unfold Commb.df21
  rw [wpOk_bind]
  show wpOk (bytesN 7) _ (st F (8 * 4) l r)
  rw [wpOk_bytesN 7 _ F 4 l r hlt (by omega), hbuf]
  simp only [hnz, Bool.false_eq_true, if_false]
  rw [wpOk_lift _ _ _ (.ok regs) hcom]
  exact ⟨rfl, rfl⟩

/-! ### whole Comm-B frames -/

/-- the payload is not all zero: some field is non-zero -/
def NonZero (mb : List Field) : Prop := ∃ off w v, fieldAt mb off w = some v ∧ v ≠ 0

/-- **DF 20** with an arbitrary non-zero MB field: the reply decodes to `df`, the altitude of the AC
    field, the register list of the Comm-B selector, and the address recovered from the AP overlay -/
theorem tryFrom_df20 (fs dr um code addr alt : Nat) (mb : List Field)
    (hfs : fs < 2 ^ 3) (hdr : dr < 2 ^ 5) (hum : um < 2 ^ 6) (hcode : code < 2 ^ 13) (haddr : addr < 2 ^ 24)
    (hw : width mb = 56) (hfit : fits mb = true) (hnz : NonZero mb) (halt : ac13 code = .ok alt) :
    ∃ b05 regs, Regs (pack (layout mb)) b05 regs ∧
      (∀ f, b05 = some (.ok f) → Fields.get? f (key! "altitude") = some (.int alt)) ∧
      tryFrom (buildCommB 20 fs dr um code addr mb) = .ok (toDecoded (.ok
        ([dfTag (key! "20"), fld (key! "altitude") (jnat alt)] ++ regs ++ [fld (key! "icao24") (jhex6 addr)]))) := by
  have hfr : Frame (buildCommB 20 fs dr um code addr mb) (survHeader 20 fs dr um code ++ mb) := by
    apply frame_encodeAP
    · rw [width_append, hw]; simp [width, survHeader]
    · rw [fits_append, hfit]; simp [fits, survHeader, hfs, hdr, hum, hcode]
  have hlen : (buildCommB 20 fs dr um code addr mb).length = 14 := by
    have := hfr.len; rw [width_append, hw] at this; simp [width, survHeader] at this; omega
  have hcrc := checksum_frame (buildCommB 20 fs dr um code addr mb) _ addr rfl hfr haddr
  rw [hlen] at hcrc
  have f_df := hfr.field 0 5 20 rfl
  have f_code := hfr.field 19 13 code rfl
  have hbuf := mb_of_frame (survHeader 20 fs dr um code) mb addr (by simp [width, survHeader]) hw
  have hmb := mbuf_pack mb hw hfit
  obtain ⟨off, w, v, hfv, hv⟩ := hnz
  have hz := not_allZero hmb off w v hfv hv
  obtain ⟨b05, regs, hregs, hb05, hrun⟩ := df20_run (buildCommB 20 fs dr um code addr mb) _ alt 15 32 hfr.lt hlen hbuf hz
  refine ⟨b05, regs, hregs, hb05, ?_⟩
  refine tryFrom_of_dfBody _ 14 20 addr _ hlen hfr.lt f_df (Or.inl ⟨by omega, rfl⟩) hcrc (fun h => by omega) ?_
  show wpOk (do
    surveillanceHeader
    let ac ← ac13Field
    let b ← Commb.df20 ac
    let _ ← bitsLE 24
    pure (withFields [dfTag (key! "20"), fld (key! "altitude") (jnat ac)] b [fld (key! "icao24") (jhex6 addr)])) _ _
  rw [wpOk_bind, survHeader_run _ _ (by omega)]
  unfold ac13Field
  simp (disch := decide) only [wpOk_bind, wpOk_bits, wpOk_lift_ok, f_code, halt, hlen,
    ceilDiv8, Nat.reduceAdd, Nat.reduceDiv, Nat.reduceLeDiff, true_and]
  refine wpOk_mono hrun ?_
  rintro v s' ⟨rfl, rfl⟩
  simp (disch := decide) only [wpOk_bitsLE, wpOk_pure, hlen, ceilDiv8, Nat.reduceAdd, Nat.reduceDiv,
    Nat.reduceLeDiff, true_and]
  rfl

/-- **DF 21** with an arbitrary non-zero MB field -/
theorem tryFrom_df21 (fs dr um code addr : Nat) (mb : List Field)
    (hfs : fs < 2 ^ 3) (hdr : dr < 2 ^ 5) (hum : um < 2 ^ 6) (hcode : code < 2 ^ 13) (haddr : addr < 2 ^ 24)
    (hw : width mb = 56) (hfit : fits mb = true) (hnz : NonZero mb) :
    ∃ regs, Regs (pack (layout mb)) none regs ∧
      tryFrom (buildCommB 21 fs dr um code addr mb) = .ok (toDecoded (.ok
        ([dfTag (key! "21"), fld (key! "squawk") (jhex4 (decodeId13 code))] ++ regs ++
          [fld (key! "icao24") (jhex6 addr)]))) := by
  have hfr : Frame (buildCommB 21 fs dr um code addr mb) (survHeader 21 fs dr um code ++ mb) := by
    apply frame_encodeAP
    · rw [width_append, hw]; simp [width, survHeader]
    · rw [fits_append, hfit]; simp [fits, survHeader, hfs, hdr, hum, hcode]
  have hlen : (buildCommB 21 fs dr um code addr mb).length = 14 := by
    have := hfr.len; rw [width_append, hw] at this; simp [width, survHeader] at this; omega
  have hcrc := checksum_frame (buildCommB 21 fs dr um code addr mb) _ addr rfl hfr haddr
  rw [hlen] at hcrc
  have f_df := hfr.field 0 5 21 rfl
  have f_code := hfr.field 19 13 code rfl
  have hbuf := mb_of_frame (survHeader 21 fs dr um code) mb addr (by simp [width, survHeader]) hw
  have hmb := mbuf_pack mb hw hfit
  obtain ⟨off, w, v, hfv, hv⟩ := hnz
  have hz := not_allZero hmb off w v hfv hv
  obtain ⟨regs, hregs, hrun⟩ := df21_run (buildCommB 21 fs dr um code addr mb) _ 15 32 hfr.lt hlen hbuf hz
  refine ⟨regs, hregs, ?_⟩
  refine tryFrom_of_dfBody _ 14 21 addr _ hlen hfr.lt f_df (Or.inl ⟨by omega, rfl⟩) hcrc (fun h => by omega) ?_
  show wpOk (do
    surveillanceHeader
    let sq ← identityCode
    let b ← Commb.df21
    let _ ← bitsLE 24
    pure (withFields [dfTag (key! "21"), fld (key! "squawk") (jhex4 sq)] b [fld (key! "icao24") (jhex6 addr)])) _ _
  rw [wpOk_bind, survHeader_run _ _ (by omega)]
  unfold identityCode
  simp (disch := decide) only [wpOk_bind, wpOk_bits, wpOk_pure, f_code, hlen,
    ceilDiv8, Nat.reduceAdd, Nat.reduceDiv, Nat.reduceLeDiff, true_and]
  refine wpOk_mono hrun ?_
  rintro v s' ⟨rfl, rfl⟩
  simp (disch := decide) only [wpOk_bitsLE, wpOk_pure, hlen, ceilDiv8, Nat.reduceAdd, Nat.reduceDiv,
    Nat.reduceLeDiff, true_and]
  rfl

/-! ### register hypotheses on a Spec payload -/

theorem hypo_of_wpOk {r : R SerFields} {buf : List Nat} {out : SerFields} (hlen : buf.length = 7)
    (h : wpOk r (fun v s' => v = out ∧ s'.nread = 56) (st buf 0 0 0)) :
    Commb.hypo r buf = .ok (some out) := by
  obtain ⟨v, s', hm, rfl, hn⟩ := wpOk_elim h
  unfold Commb.hypo tryFromBytes R.run
  have : r (Rd.init buf) = .ok (v, s') := hm
  rw [this]
  simp [hn, hlen]

/-- BDS 2,0 -/
def out20 (cs : List Char) : SerFields :=
  tagged (key! "bds") (key! "20") (.ok [ fld (key! "callsign") (.chars cs) ])

theorem hypo_bds20 (buf : List Nat) (c0 c1 c2 c3 c4 c5 c6 c7 : Nat) (cs : List Char)
    (hB : MBuf buf ((8, 0x20) :: chars8 c0 c1 c2 c3 c4 c5 c6 c7))
    (hcs : Bds08.callsign.go ([c0, c1, c2, c3, c4, c5, c6, c7].filter (· != 32)) = .ok cs) :
    Commb.hypo Bds20.read buf = .ok (some (out20 cs)) := by
  have hlen := hB.len
  have f_b := hB.field 0 8 0x20 rfl
  have f0 := hB.field 8 6 c0 rfl
  have f1 := hB.field 14 6 c1 rfl
  have f2 := hB.field 20 6 c2 rfl
  have f3 := hB.field 26 6 c3 rfl
  have f4 := hB.field 32 6 c4 rfl
  have f5 := hB.field 38 6 c5 rfl
  have f6 := hB.field 44 6 c6 rfl
  have f7 := hB.field 50 6 c7 rfl
  apply hypo_of_wpOk hlen
  unfold Bds20.read Bds08.callsign out20
  have h20 : Bds20.failIfNot20 0x20 = .ok 0x20 := rfl
  simp (disch := decide) only [wpOk_bind, wpOk_pure, wpOk_bits, f_b, h20, wpOk_lift_ok, hlen, ceilDiv8,
    Nat.reduceAdd, Nat.reduceDiv, Nat.reduceLeDiff, true_and]
  rw [wpOk_callsignChars 8 _ buf 8 _ _ (by rw [hlen]; decide)]
  simp only [codesAt, Nat.reduceAdd, f0, f1, f2, f3, f4, f5, f6, f7, hcs, wpOk_lift_ok, Nat.reduceMul, and_self]

/-- BDS 4,0 -/
def out40 (mv fv qv : Option Nat) (src : Nat) : SerFields :=
  .ok [
    fld (key! "bds") (.lit (key! "40")),
    skipNone (key! "selected_mcp") (mv.map jnat),
    skipNone (key! "selected_fms") (fv.map jnat),
    skipNone (key! "barometric_setting") (qv.map fun n => jrat n 10),
    skipNone (key! "target_source") (Bds40.targetSource src) ]

theorem hypo_bds40 (buf : List Nat) (sMcp mcp sFms fms sBaro baro sMode vnav ah app sSrc src : Nat)
    (mv fv qv : Option Nat)
    (hB : MBuf buf (mb40 sMcp mcp sFms fms sBaro baro sMode vnav ah app sSrc src))
    (hm : Bds40.selectedAlt (sMcp == 1) mcp = .ok mv) (hf : Bds40.selectedAlt (sFms == 1) fms = .ok fv)
    (hq : Bds40.qnhNum (sBaro == 1) baro = .ok qv) :
    Commb.hypo Bds40.read buf = .ok (some (out40 mv fv qv src)) := by
  have hlen := hB.len
  have g0 := hB.field 0 1 sMcp rfl
  have g1 := hB.field 1 12 mcp rfl
  have g2 := hB.field 13 1 sFms rfl
  have g3 := hB.field 14 12 fms rfl
  have g4 := hB.field 26 1 sBaro rfl
  have g5 := hB.field 27 12 baro rfl
  have g6 := hB.field 39 8 0 rfl
  have g7 := hB.field 51 2 0 rfl
  have g8 := hB.field 54 2 src rfl
  apply hypo_of_wpOk hlen
  unfold Bds40.read Bds40.readSelected Bds40.readQnh out40
  simp (disch := decide) only [wpOk_bind, wpOk_pure, wpOk_bits, wpOk_flag, wpOk_enumId, wpOk_lift_ok,
    g0, g1, g2, g3, g4, g5, g6, g7, g8, hm, hf, hq, hlen, ceilDiv8, bne_self_eq_false, Bool.false_eq_true, if_false,
    Nat.reduceAdd, Nat.reduceDiv, Nat.reduceLeDiff, true_and, and_self]

/-- BDS 5,0 -/
def out50 (rv tv : Option Int) (gv : Option Nat) (qv : Option Int) (av : Option Nat) : SerFields :=
  .ok [
    fld (key! "bds") (.lit (key! "50")),
    fldOpt (key! "roll") (rv.map fun n => jrat (n * 45) 256),
    fldOpt (key! "track") (tv.map fun n => jrat n 512),
    fldOpt (key! "groundspeed") (gv.map jnat),
    fldOpt (key! "track_rate") (qv.map fun n => jrat n 256),
    fldOpt (key! "TAS") (av.map jnat) ]

theorem hypo_bds50 (buf : List Nat) (sRoll : Nat) (roll : Int) (sTrk : Nat) (trk : Int) (sGs gs sRate : Nat)
    (rate : Int) (sTas tas : Nat) (rv tv : Option Int) (gv : Option Nat) (qv : Option Int) (av : Option Nat)
    (hB : MBuf buf (mb50 sRoll roll sTrk trk sGs gs sRate rate sTas tas))
    (h1 : Bds50.roll (sRoll == 1) (signBit roll) (twosMag 9 roll) = .ok rv)
    (h2 : Bds50.track (sTrk == 1) (signBit trk) (twosMag 10 trk) = .ok tv)
    (h3 : Bds50.groundspeed (sGs == 1) gs = .ok gv)
    (h4 : Bds50.rate rv (sRate == 1) (signBit rate) (twosMag 9 rate) = .ok qv)
    (h5 : Bds50.tas gv (sTas == 1) tas = .ok av) :
    Commb.hypo Bds50.read buf = .ok (some (out50 rv tv gv qv av)) := by
  have hlen := hB.len
  have g0 := hB.field 0 1 sRoll rfl
  have g1 := hB.field 1 1 (signBit roll) rfl
  have g2 := hB.field 2 9 (twosMag 9 roll) rfl
  have g3 := hB.field 11 1 sTrk rfl
  have g4 := hB.field 12 1 (signBit trk) rfl
  have g5 := hB.field 13 10 (twosMag 10 trk) rfl
  have g6 := hB.field 23 1 sGs rfl
  have g7 := hB.field 24 10 gs rfl
  have g8 := hB.field 34 1 sRate rfl
  have g9 := hB.field 35 1 (signBit rate) rfl
  have g10 := hB.field 36 9 (twosMag 9 rate) rfl
  have g11 := hB.field 45 1 sTas rfl
  have g12 := hB.field 46 10 tas rfl
  apply hypo_of_wpOk hlen
  unfold Bds50.read out50
  simp (disch := decide) only [wpOk_bind, wpOk_pure, wpOk_bits, wpOk_flag, wpOk_lift_ok,
    g0, g1, g2, g3, g4, g5, g6, g7, g8, g9, g10, g11, g12, h1, h2, h3, h4, h5, hlen, ceilDiv8,
    Nat.reduceAdd, Nat.reduceDiv, Nat.reduceLeDiff, true_and, and_self]

/-- BDS 6,0 -/
def out60 (hv : Option Int) (iv mv : Option Nat) (bv nv : Option Int) : SerFields :=
  .ok [
    fld (key! "bds") (.lit (key! "60")),
    skipNone (key! "heading") (hv.map fun n => jrat n 512),
    skipNone (key! "IAS") (iv.map jnat),
    skipNone (key! "Mach") (mv.map fun v => jrat (v * 2048) 512000),
    skipNone (key! "vrate_barometric") (bv.map jint),
    skipNone (key! "vrate_inertial") (nv.map jint) ]

theorem hypo_bds60 (buf : List Nat) (sHdg : Nat) (hdg : Int) (sIas ias sMach mach sBaro : Nat) (baro : Int)
    (sIn : Nat) (inert : Int) (hv : Option Int) (iv mv : Option Nat) (bv nv : Option Int)
    (hB : MBuf buf (mb60 sHdg hdg sIas ias sMach mach sBaro baro sIn inert))
    (h1 : Bds60.heading (sHdg == 1) (signBit hdg) (twosMag 10 hdg) = .ok hv)
    (h2 : Bds60.ias (sIas == 1) ias = .ok iv)
    (h3 : Bds60.mach iv (sMach == 1) mach = .ok mv)
    (h4 : Bds60.vertical (sBaro == 1) (signBit baro) (twosMag 9 baro) = .ok bv)
    (h5 : Bds60.vertical (sIn == 1) (signBit inert) (twosMag 9 inert) = .ok nv) :
    Commb.hypo Bds60.read buf = .ok (some (out60 hv iv mv bv nv)) := by
  have hlen := hB.len
  have g0 := hB.field 0 1 sHdg rfl
  have g1 := hB.field 1 1 (signBit hdg) rfl
  have g2 := hB.field 2 10 (twosMag 10 hdg) rfl
  have g3 := hB.field 12 1 sIas rfl
  have g4 := hB.field 13 10 ias rfl
  have g5 := hB.field 23 1 sMach rfl
  have g6 := hB.field 24 10 mach rfl
  have g7 := hB.field 34 1 sBaro rfl
  have g8 := hB.field 35 1 (signBit baro) rfl
  have g9 := hB.field 36 9 (twosMag 9 baro) rfl
  have g10 := hB.field 45 1 sIn rfl
  have g11 := hB.field 46 1 (signBit inert) rfl
  have g12 := hB.field 47 9 (twosMag 9 inert) rfl
  apply hypo_of_wpOk hlen
  unfold Bds60.read Bds60.readVertical out60
  simp (disch := decide) only [wpOk_bind, wpOk_pure, wpOk_bits, wpOk_flag, wpOk_lift_ok,
    g0, g1, g2, g3, g4, g5, g6, g7, g8, g9, g10, g11, g12, h1, h2, h3, h4, h5, hlen, ceilDiv8,
    Nat.reduceAdd, Nat.reduceDiv, Nat.reduceLeDiff, true_and, and_self]

end Rs1090.Proofs.C03
