/-
Helper lemmas for C10: the grouping rule as implemented (Spec/Dedup.lean: join, then close) against
the independent strict reading (Spec/DedupStrict.lean: close, join, close).  They agree on an arrival
unless it is a late joiner (`LateJoin`), and then they differ.
-/
import Rs1090.Proofs.DedupWindow
import Rs1090.Spec.DedupStrict
namespace Rs1090.Dedup
open Rs1090.Spec.Dedup (firstT closes join sortBy)
open Rs1090.Spec.DedupStrict (LateJoin NoLateJoin)

theorem closes_snoc {w t : Nat} {g : Group} (a : Arrival) (h : g.2 ≠ []) :
    closes w t (g.1, g.2 ++ [a]) = closes w t g := by
  obtain ⟨f, ms⟩ := g
  simp only [closes, firstT_snoc a h]

theorem join_nonempty (a : Arrival) : ∀ {o : List Group}, (∀ g ∈ o, g.2 ≠ []) →
    ∀ g ∈ join o a, g.2 ≠ []
  | [], _, g, hg => by
    simp only [join, List.mem_singleton] at hg
    subst hg; simp
  | x :: xs, h, g, hg => by
    simp only [join] at hg
    split at hg
    · simp only [List.mem_cons] at hg
      rcases hg with rfl | hg
      · simp
      · exact h g (by simp [hg])
    · simp only [List.mem_cons] at hg
      rcases hg with rfl | hg
      · exact h g (by simp)
      · exact join_nonempty a (fun y hy => h y (by simp [hy])) g hg

theorem filter_not_filter (p : Group → Bool) (l : List Group) :
    (l.filter (fun g => !p g)).filter p = [] := by
  rw [List.filter_filter]
  exact List.filter_eq_nil_iff.mpr (fun g _ => by cases p g <;> simp)

/-- the groups that stay open: closing first makes no difference when the arrival is no late joiner -/
theorem filter_join_open {w : Nat} {a : Arrival} : ∀ {o : List Group}, (∀ g ∈ o, g.2 ≠ []) →
    ¬ LateJoin w o a →
    (join o a).filter (fun g => !closes w a.t g)
      = (join (o.filter (fun g => !closes w a.t g)) a).filter (fun g => !closes w a.t g)
  | [], _, _ => rfl
  | x :: xs, hne, hl => by
    have hl' : ¬ LateJoin w xs a := fun ⟨g, hg, h⟩ => hl ⟨g, by simp [hg], h⟩
    have ih := filter_join_open (fun y hy => hne y (by simp [hy])) hl'
    by_cases hx : x.1 = a.frame
    · have hcx : closes w a.t x = false := by
        cases hc : closes w a.t x
        · rfl
        · exact absurd ⟨x, by simp, hx, by simpa [closes] using hc⟩ hl
      have hcx' := (closes_snoc (w := w) (t := a.t) a (hne x (by simp))).trans hcx
      simp only [join, if_pos hx, List.filter_cons, hcx, hcx', Bool.not_false, if_true]
      rw [List.filter_filter]
      simp
    · cases hc : closes w a.t x
      · simp only [join, if_neg hx, List.filter_cons, hc, Bool.not_false, if_true]
        rw [ih]
      · simp only [join, if_neg hx, List.filter_cons, hc, Bool.not_true]
        simpa using ih

/-- the groups that are closed: those already over before the arrival joined, then (for `w = 0`)
    possibly the group the arrival has just opened -/
theorem filter_join_over {w : Nat} {a : Arrival} : ∀ {o : List Group}, (∀ g ∈ o, g.2 ≠ []) →
    ¬ LateJoin w o a →
    (join o a).filter (closes w a.t)
      = o.filter (closes w a.t) ++ (join (o.filter (fun g => !closes w a.t g)) a).filter (closes w a.t)
  | [], _, _ => rfl
  | x :: xs, hne, hl => by
    have hl' : ¬ LateJoin w xs a := fun ⟨g, hg, h⟩ => hl ⟨g, by simp [hg], h⟩
    have ih := filter_join_over (fun y hy => hne y (by simp [hy])) hl'
    by_cases hx : x.1 = a.frame
    · have hcx : closes w a.t x = false := by
        cases hc : closes w a.t x
        · rfl
        · exact absurd ⟨x, by simp, hx, by simpa [closes] using hc⟩ hl
      have hcx' := (closes_snoc (w := w) (t := a.t) a (hne x (by simp))).trans hcx
      simp only [join, if_pos hx, List.filter_cons, hcx, hcx', Bool.not_false, if_true]
      rw [filter_not_filter]
      simp
    · cases hc : closes w a.t x
      · simp only [join, if_neg hx, List.filter_cons, hc, Bool.not_false, if_true]
        simpa using ih
      · simp only [join, if_neg hx, List.filter_cons, hc, Bool.not_true, if_true]
        simpa using ih

/-- one arrival that is no late joiner: both rules give the same open and closed groups -/
theorem strict_step_agrees {w : Nat} {o : List Group} {a : Arrival} (hne : ∀ g ∈ o, g.2 ≠ [])
    (hl : ¬ LateJoin w o a) : Spec.DedupStrict.stepG w o a = Spec.Dedup.stepG w o a := by
  simp only [Spec.DedupStrict.stepG, Spec.Dedup.stepG]
  rw [← filter_join_open hne hl, ← filter_join_over hne hl]

/-- a group of the arrival's frame is no longer in the list once the arrival has joined it -/
theorem not_mem_join {a : Arrival} : ∀ {o : List Group}, (keys o).Nodup → ∀ g ∈ o, g.1 = a.frame →
    g ∉ join o a
  | [], _, g, hg, _ => by cases hg
  | x :: xs, hnd, g, hg, hga => by
    have hnd' : x.1 ∉ keys xs ∧ (keys xs).Nodup := List.nodup_cons.mp hnd
    simp only [List.mem_cons] at hg
    by_cases hx : x.1 = a.frame
    · simp only [join, if_pos hx, List.mem_cons, not_or]
      have hgx : g = x := by
        rcases hg with h | h
        · exact h
        · exact absurd (List.mem_map.mpr ⟨g, h, hga.trans hx.symm⟩) hnd'.1
      subst hgx
      refine ⟨fun h => ?_, fun h => hnd'.1 (List.mem_map.mpr ⟨g, h, rfl⟩)⟩
      have := congrArg (fun y => y.2.length) h
      simp at this
    · simp only [join, if_neg hx, List.mem_cons, not_or]
      have hgx : g ≠ x := fun h => hx (h ▸ hga)
      rcases hg with h | h
      · exact absurd h hgx
      · exact ⟨hgx, not_mem_join hnd'.2 g h hga⟩

/-- one arrival that IS a late joiner: the rules differ — the strict rule closes the old group
    as it is, the implemented rule closes it with the arrival appended -/
theorem strict_step_differs {w : Nat} {o : List Group} {a : Arrival} (hnd : (keys o).Nodup)
    (hl : LateJoin w o a) : Spec.DedupStrict.stepG w o a ≠ Spec.Dedup.stepG w o a := by
  obtain ⟨g, hg, hga, hc⟩ := hl
  have hcl : closes w a.t g = true := by simpa [closes] using hc
  intro h
  have h2 := congrArg Prod.snd h
  simp only [Spec.DedupStrict.stepG, Spec.Dedup.stepG] at h2
  have hin : g ∈ sortBy (o.filter (closes w a.t) ++
      (join (o.filter (fun g => !closes w a.t g)) a).filter (closes w a.t)) :=
    (sortBy_perm _).symm.subset (List.mem_append_left _ (List.mem_filter.mpr ⟨hg, hcl⟩))
  rw [h2] at hin
  exact not_mem_join hnd g hg hga (List.mem_filter.mp ((sortBy_perm _).subset hin)).1

theorem strict_step_nonempty {w : Nat} {o : List Group} (a : Arrival) (hne : ∀ g ∈ o, g.2 ≠ []) :
    ∀ g ∈ (Spec.DedupStrict.stepG w o a).1, g.2 ≠ [] := by
  intro g hg
  simp only [Spec.DedupStrict.stepG] at hg
  exact join_nonempty a (fun y hy => hne y (List.mem_filter.mp hy).1) g (List.mem_filter.mp hg).1

/-- histories without late joiner (from any state): the two rules give the same result -/
theorem strict_runG_agrees {w : Nat} : ∀ (hist : List Arrival) {o : List Group}, (∀ g ∈ o, g.2 ≠ []) →
    (∀ pre a post, hist = pre ++ a :: post → ¬ LateJoin w (Spec.DedupStrict.runG w o pre).1 a) →
    Spec.DedupStrict.runG w o hist = Spec.Dedup.runG w o hist
  | [], _, _, _ => rfl
  | a :: as, o, hne, hl => by
    have h1 := strict_step_agrees hne (hl [] a as rfl)
    have h2 := strict_runG_agrees as (strict_step_nonempty a hne) (fun pre b post hp =>
      hl (a :: pre) b post (by rw [hp]; rfl))
    rw [h1] at h2
    simp only [Spec.DedupStrict.runG, Spec.Dedup.runG, h1, h2]

theorem strict_runG_snoc (w : Nat) : ∀ (hist : List Arrival) (o : List Group) (a : Arrival),
    Spec.DedupStrict.runG w o (hist ++ [a]) =
      ((Spec.DedupStrict.stepG w (Spec.DedupStrict.runG w o hist).1 a).1,
       (Spec.DedupStrict.runG w o hist).2 ++ (Spec.DedupStrict.stepG w (Spec.DedupStrict.runG w o hist).1 a).2)
  | [], o, a => by simp [Spec.DedupStrict.runG]
  | b :: bs, o, a => by
    simp [Spec.DedupStrict.runG, strict_runG_snoc w bs (Spec.DedupStrict.stepG w o b).1 a,
      List.append_assoc]

/-- the model's open and closed groups after a history -/
def groupsOf (w : Nat) (hist : List Arrival) : List Group × List Group :=
  ((runG w init hist).1.cache, (runG w init hist).2)

/-- if model and strict rule agree after `hist`, they agree after `hist ++ [a]` exactly when `a`
    is no late joiner -/
theorem strict_snoc_iff {w : Nat} {hist : List Arrival} {a : Arrival}
    (hagree : groupsOf w hist = Spec.DedupStrict.runG w [] hist) :
    groupsOf w (hist ++ [a]) = Spec.DedupStrict.runG w [] (hist ++ [a]) ↔
      ¬ LateJoin w (Spec.DedupStrict.runG w [] hist).1 a := by
  have hinv := inv_runG (w := w) hist (inv_init w)
  have hstep := stepG_refines a hinv
  have h1 : (Spec.DedupStrict.runG w [] hist).1 = (runG w init hist).1.cache := by rw [← hagree]; rfl
  have h2 : (Spec.DedupStrict.runG w [] hist).2 = (runG w init hist).2 := by rw [← hagree]; rfl
  have hsn : groupsOf w (hist ++ [a]) =
      ((Spec.Dedup.stepG w (runG w init hist).1.cache a).1,
       (runG w init hist).2 ++ (Spec.Dedup.stepG w (runG w init hist).1.cache a).2) := by
    simp only [groupsOf, runG_snoc, ← hstep]
  rw [hsn, strict_runG_snoc, h1, h2]
  constructor
  · intro heq hl
    have e1 : (Spec.Dedup.stepG w (runG w init hist).1.cache a).1 =
        (Spec.DedupStrict.stepG w (runG w init hist).1.cache a).1 := (Prod.mk.inj heq).1
    have e2 : (Spec.Dedup.stepG w (runG w init hist).1.cache a).2 =
        (Spec.DedupStrict.stepG w (runG w init hist).1.cache a).2 :=
      List.append_cancel_left (Prod.mk.inj heq).2
    exact strict_step_differs hinv.nodup hl (Prod.ext e1 e2).symm
  · intro hl
    rw [strict_step_agrees (fun g hg => (hinv.wf g hg).1) hl]

theorem noLateJoinFrom_iff {w : Nat} : ∀ (hist : List Arrival) (o : List Group),
    (∀ pre a post, hist = pre ++ a :: post → ¬ LateJoin w (Spec.DedupStrict.runG w o pre).1 a) ↔
      Spec.DedupStrict.noLateJoinFrom w o hist = true
  | [], o => by
    simp only [Spec.DedupStrict.noLateJoinFrom, iff_true]
    intro pre a post hp
    cases pre <;> cases hp
  | b :: bs, o => by
    simp only [Spec.DedupStrict.noLateJoinFrom, Bool.and_eq_true, Bool.not_eq_true',
      decide_eq_false_iff_not, ← noLateJoinFrom_iff bs]
    constructor
    · intro h
      exact ⟨h [] b bs rfl, fun pre a post hp => h (b :: pre) a post (by rw [hp]; rfl)⟩
    · intro ⟨h0, h1⟩ pre a post hp
      cases pre with
      | nil =>
        simp only [List.nil_append, List.cons.injEq] at hp
        rw [← hp.1]; exact h0
      | cons p pre =>
        simp only [List.cons_append, List.cons.injEq] at hp
        rw [← hp.1]
        exact h1 pre a post hp.2

theorem noLateJoin_iff {w : Nat} (hist : List Arrival) :
    NoLateJoin w hist ↔ Spec.DedupStrict.noLateJoinFrom w [] hist = true :=
  noLateJoinFrom_iff hist []

theorem noLateJoin_prefix {w : Nat} {pre suf : List Arrival} (h : NoLateJoin w (pre ++ suf)) :
    NoLateJoin w pre := fun p a q hp => h p a (q ++ suf) (by rw [hp]; simp)

end Rs1090.Dedup
