/-
Helper lemmas for C10, whole histories: conservation, the records sent, arrival order, and the
consequences of non-decreasing arrival times.
-/
import Rs1090.Proofs.Dedup
namespace Rs1090.Dedup
open Rs1090.Spec.Dedup (firstT closes WellFormed members recordOf records before Ordered Spaced
  StrictlyOrdered)

theorem members_append (a b : List Group) : members (a ++ b) = members a ++ members b := by
  simp [members]

theorem members_perm {a b : List Group} (h : a.Perm b) : (members a).Perm (members b) :=
  (h.map _).flatten

theorem members_push : ∀ (c : Cache) (a : Arrival), (members (push c a)).Perm (members c ++ [a])
  | [], a => by simp [push, members]
  | (f, ms) :: rest, a => by
    simp only [push]
    split
    · simp only [members, List.map_cons, List.flatten_cons, List.append_assoc]
      exact List.Perm.append_left _ List.perm_append_comm
    · have ih := members_push rest a
      simp only [members, List.map_cons, List.flatten_cons, List.append_assoc] at ih ⊢
      exact List.Perm.append_left _ ih

theorem pending_eq (s : State) : pending s = members s.cache := rfl

theorem stepG_wf {w : Nat} {s : State} (a : Arrival) (hinv : Inv w s) :
    ∀ g ∈ (stepG w s a).2, WellFormed g := by
  intro g hg
  have h := (stepG_spec a hinv).2.2.1
  exact (push_inv (w := w) a hinv).wf g (h.subset (List.mem_append_left _ hg))

/-- conservation for one arrival -/
theorem stepG_members {w : Nat} {s : State} (a : Arrival) (hinv : Inv w s) :
    (members (stepG w s a).2 ++ pending (stepG w s a).1).Perm (pending s ++ [a]) := by
  rw [pending_eq, pending_eq, ← members_append]
  exact (members_perm (stepG_spec a hinv).2.2.1).trans (members_push _ _)

theorem inv_runG {w : Nat} : ∀ (hist : List Arrival) {s : State}, Inv w s → Inv w (runG w s hist).1
  | [], _, h => h
  | a :: as, _, h => inv_runG as (stepG_spec a h).1

theorem runG_wf {w : Nat} : ∀ (hist : List Arrival) {s : State}, Inv w s →
    ∀ g ∈ (runG w s hist).2, WellFormed g
  | [], _, _ => by simp [runG]
  | a :: as, s, h => by
    intro g hg
    simp only [runG, List.mem_append] at hg
    rcases hg with hg | hg
    · exact stepG_wf a h g hg
    · exact runG_wf as (stepG_spec a h).1 g hg

/-- conservation for a whole history, from any state satisfying the invariant -/
theorem runG_members {w : Nat} : ∀ (hist : List Arrival) {s : State}, Inv w s →
    (members (runG w s hist).2 ++ pending (runG w s hist).1).Perm (pending s ++ hist)
  | [], _, _ => by simp [runG, members]
  | a :: as, s, h => by
    have h1 := stepG_members a h
    have h2 := runG_members as (stepG_spec a h).1
    simp only [runG, members_append]
    -- members c1 ++ members c2 ++ pending s2  ~ members c1 ++ (pending s1 ++ as) ~ (pending s ++ [a]) ++ as
    rw [List.append_assoc]
    refine (List.Perm.append_left _ h2).trans ?_
    rw [← List.append_assoc]
    refine (List.Perm.append_right _ h1).trans ?_
    simp

theorem emit_wf (dec : Frame → Bool) {g : Group} (h : WellFormed g) :
    emit dec g = if dec g.1 then [recordOf g] else [] := by
  obtain ⟨f, ms⟩ := g
  cases ms with
  | nil => exact absurd rfl h.1
  | cons m ms =>
    have : m.frame = f := h.2 m (by simp)
    simp [emit, recordOf, firstT, this]

theorem flatMap_emit (dec : Frame → Bool) : ∀ {gs : List Group}, (∀ g ∈ gs, WellFormed g) →
    gs.flatMap (emit dec) = records dec gs
  | [], _ => rfl
  | g :: gs, h => by
    have ih := flatMap_emit dec (gs := gs) (fun x hx => h x (by simp [hx]))
    simp only [List.flatMap_cons, ih, emit_wf dec (h g (by simp)), records, List.filter_cons]
    split <;> simp

theorem records_append (dec : Frame → Bool) (a b : List Group) :
    records dec (a ++ b) = records dec a ++ records dec b := by
  simp [records]

/-- the records sent are the records of the closed groups with a decodable frame -/
theorem run_eq {w : Nat} (dec : Frame → Bool) : ∀ (hist : List Arrival) {s : State}, Inv w s →
    run w dec s hist = ((runG w s hist).1, records dec (runG w s hist).2)
  | [], _, _ => rfl
  | a :: as, s, h => by
    have ih := run_eq dec as (stepG_spec a h).1
    simp only [run, runG, step, records_append, flatMap_emit dec (stepG_wf a h)] at ih ⊢
    rw [ih]



/-! ### arrival order -/

theorem push_sublist {past : List Arrival} (a : Arrival) : ∀ {c : Cache},
    (∀ g ∈ c, g.2.Sublist past) → ∀ g ∈ push c a, g.2.Sublist (past ++ [a])
  | [], _, g, hg => by
    simp only [push, List.mem_singleton] at hg
    subst hg
    exact List.sublist_append_right _ _
  | (f, ms) :: rest, h, g, hg => by
    simp only [push] at hg
    split at hg
    · simp only [List.mem_cons] at hg
      rcases hg with rfl | hg
      · exact List.Sublist.append (h (f, ms) (by simp)) (List.Sublist.refl _)
      · exact (h g (by simp [hg])).trans (List.sublist_append_left _ _)
    · simp only [List.mem_cons] at hg
      rcases hg with rfl | hg
      · exact (h (f, ms) (by simp)).trans (List.sublist_append_left _ _)
      · exact push_sublist a (fun x hx => h x (by simp [hx])) g hg

theorem stepG_subset {w : Nat} {s : State} (a : Arrival) (hinv : Inv w s) :
    (∀ g ∈ (stepG w s a).2, g ∈ push s.cache a) ∧ (∀ g ∈ (stepG w s a).1.cache, g ∈ push s.cache a) := by
  have h := (stepG_spec a hinv).2.2.1
  exact ⟨fun g hg => h.subset (List.mem_append_left _ hg), fun g hg => h.subset (List.mem_append_right _ hg)⟩

/-- the members of every closed group are a subsequence of the history (arrival order kept) -/
theorem runG_sublist {w : Nat} : ∀ (hist : List Arrival) {s : State} {past : List Arrival}, Inv w s →
    (∀ g ∈ s.cache, g.2.Sublist past) →
    (∀ g ∈ (runG w s hist).2, g.2.Sublist (past ++ hist)) ∧
    (∀ g ∈ (runG w s hist).1.cache, g.2.Sublist (past ++ hist))
  | [], s, past, _, h => by simpa [runG] using h
  | a :: as, s, past, hinv, h => by
    have hp := push_sublist a h
    have hs := stepG_subset a hinv
    have ih := runG_sublist as (past := past ++ [a]) (stepG_spec a hinv).1
      (fun g hg => hp g (hs.2 g hg))
    simp only [List.append_assoc, List.singleton_append] at ih
    refine ⟨?_, ih.2⟩
    intro g hg
    simp only [runG, List.mem_append] at hg
    rcases hg with hg | hg
    · have := hp g (hs.1 g hg)
      have h1 : [a].Sublist (a :: as) := List.Sublist.cons_cons a (List.nil_sublist as)
      exact this.trans (List.Sublist.append_left h1 past)
    · exact ih.1 g hg



/-! ### non-decreasing arrival times -/

theorem keyLt_keyOf (w : Nat) (g h : Group) : keyLt (keyOf w g) (keyOf w h) = before g h := by
  have : (firstT g + w == firstT h + w) = (firstT g == firstT h) := by
    rw [Bool.eq_iff_iff]; simp
  simp only [keyLt, keyOf, before, Nat.add_lt_add_iff_right, this]

/-- where the groups of the cache come from after an arrival joined -/
theorem push_mem (a : Arrival) : ∀ {c : Cache}, (∀ g ∈ c, g.2 ≠ []) → ∀ g ∈ push c a,
    (∃ g0 ∈ c, g0.1 = g.1 ∧ firstT g0 = firstT g) ∨ g = (a.frame, [a])
  | [], _, g, hg => by
    simp only [push, List.mem_singleton] at hg
    exact Or.inr hg
  | (f, ms) :: rest, h, g, hg => by
    simp only [push] at hg
    split at hg
    · simp only [List.mem_cons] at hg
      rcases hg with rfl | hg
      · exact Or.inl ⟨(f, ms), by simp, rfl, (firstT_snoc a (h (f, ms) (by simp))).symm⟩
      · exact Or.inl ⟨g, by simp [hg], rfl, rfl⟩
    · simp only [List.mem_cons] at hg
      rcases hg with rfl | hg
      · exact Or.inl ⟨(f, ms), by simp, rfl, rfl⟩
      · rcases push_mem a (fun x hx => h x (by simp [hx])) g hg with ⟨g0, h0, h1⟩ | h1
        · exact Or.inl ⟨g0, by simp [h0], h1⟩
        · exact Or.inr h1

/-- every open group was opened at or before `now` and its window is still open at `now` -/
def Bounded (w now : Nat) (s : State) : Prop :=
  ∀ g ∈ s.cache, firstT g ≤ now ∧ now < firstT g + w

/-- arrival times never decrease, starting from `now` -/
def MonoFrom (now : Nat) (hist : List Arrival) : Prop :=
  hist.Pairwise (fun a b => a.t ≤ b.t) ∧ ∀ a ∈ hist, now ≤ a.t

theorem stepG_bounded {w now : Nat} {s : State} (a : Arrival) (hinv : Inv w s)
    (hb : Bounded w now s) (ha : now ≤ a.t) : Bounded w a.t (stepG w s a).1 := by
  intro g hg
  have hsp := stepG_spec a hinv
  rw [hsp.2.1, List.mem_filter] at hg
  obtain ⟨hg, hcl⟩ := hg
  refine ⟨?_, by simpa [closes] using hcl⟩
  rcases push_mem a (fun x hx => (hinv.wf x hx).1) g hg with ⟨g0, h0, _, h2⟩ | rfl
  · have := (hb g0 h0).1; omega
  · exact Nat.le_refl _

/-- the groups closed by one arrival carry pairwise different frames, also different from the
    frames that stay open -/
theorem stepG_frames {w : Nat} {s : State} (a : Arrival) (hinv : Inv w s) :
    ((stepG w s a).2 ++ (stepG w s a).1.cache).Pairwise (fun g h => g.1 ≠ h.1) := by
  have hp := (stepG_spec a hinv).2.2.1
  have hn : (keys (push s.cache a)).Nodup := (push_inv (w := w) a hinv).nodup
  have : (((stepG w s a).2 ++ (stepG w s a).1.cache).map (·.1)).Nodup :=
    (hp.map _).nodup_iff.mpr hn
  exact (List.pairwise_map.mp this)

/-- A group closed during a monotone history was either open at the start (same frame, same first
    arrival) or opened by one of its arrivals. -/
theorem runG_origin {w : Nat} : ∀ (hist : List Arrival) {s : State} {now : Nat}, Inv w s →
    Bounded w now s → MonoFrom now hist →
    ∀ g ∈ (runG w s hist).2, (∃ g0 ∈ s.cache, g0.1 = g.1 ∧ firstT g0 = firstT g) ∨ now ≤ firstT g
  | [], _, _, _, _, _ => by simp [runG]
  | a :: as, s, now, hinv, hb, hm => by
    intro g hg
    have ha : now ≤ a.t := hm.2 a (by simp)
    have hm' : MonoFrom a.t as :=
      ⟨(List.pairwise_cons.mp hm.1).2, (List.pairwise_cons.mp hm.1).1⟩
    have hs := stepG_subset a hinv
    have origin : ∀ x ∈ push s.cache a,
        (∃ g0 ∈ s.cache, g0.1 = x.1 ∧ firstT g0 = firstT x) ∨ now ≤ firstT x := by
      intro x hx
      rcases push_mem a (fun x hx => (hinv.wf x hx).1) x hx with h | rfl
      · exact Or.inl h
      · exact Or.inr ha
    simp only [runG, List.mem_append] at hg
    rcases hg with hg | hg
    · exact origin g (hs.1 g hg)
    · rcases runG_origin as (stepG_spec a hinv).1 (stepG_bounded a hinv hb ha) hm' g hg with
        ⟨g0, h0, h1, h2⟩ | h
      · rcases origin g0 (hs.2 g0 h0) with ⟨g1, h3, h4, h5⟩ | h3
        · exact Or.inl ⟨g1, h3, h4.trans h1, h5.trans h2⟩
        · exact Or.inr (h2 ▸ h3)
      · exact Or.inr (Nat.le_trans ha h)

/-- Under non-decreasing arrival times: groups leave in order of first arrival, strictly so in
    (first arrival, frame) when `w > 0`, and groups of the same frame are at least `w` apart. -/
theorem runG_mono {w : Nat} : ∀ (hist : List Arrival) {s : State} {now : Nat}, Inv w s →
    Bounded w now s → MonoFrom now hist →
    Ordered (runG w s hist).2 ∧ Spaced w (runG w s hist).2 ∧
    (0 < w → StrictlyOrdered (runG w s hist).2)
  | [], _, _, _, _, _ => by simp [runG, Ordered, Spaced, StrictlyOrdered]
  | a :: as, s, now, hinv, hb, hm => by
    have ha : now ≤ a.t := hm.2 a (by simp)
    have hm' : MonoFrom a.t as :=
      ⟨(List.pairwise_cons.mp hm.1).2, (List.pairwise_cons.mp hm.1).1⟩
    have hsp := stepG_spec a hinv
    have hinv' := hsp.1
    have hb' := stepG_bounded a hinv hb ha
    obtain ⟨i1, i2, i3⟩ := runG_mono as hinv' hb' hm'
    have horig := runG_origin as hinv' hb' hm'
    have hfr := stepG_frames a hinv
    have hfr1 := (List.pairwise_append.mp hfr).1
    have hfr2 := (List.pairwise_append.mp hfr).2.2
    -- within the step
    have hstep : (stepG w s a).2.Pairwise (fun g h => before g h = true) :=
      hsp.2.2.2.2.imp (by intro g h hk; rwa [keyLt_keyOf] at hk)
    have hcl : ∀ g ∈ (stepG w s a).2, firstT g + w ≤ a.t := fun g hg => by
      simpa [closes] using hsp.2.2.2.1 g hg
    -- across: g closed now, h closed later
    have cross : ∀ g ∈ (stepG w s a).2, ∀ h ∈ (runG w (stepG w s a).1 as).2,
        firstT g ≤ firstT h ∧ (g.1 = h.1 → firstT g + w ≤ firstT h) ∧
        (0 < w → firstT g < firstT h) := by
      intro g hg h hh
      have h1 := hcl g hg
      rcases horig h hh with ⟨h0, hh0, e1, e2⟩ | hlate
      · have := (hb' h0 hh0).2
        refine ⟨by omega, ?_, by omega⟩
        intro e
        exact absurd (e.trans e1.symm) (hfr2 g hg h0 hh0)
      · exact ⟨by omega, fun _ => by omega, fun _ => by omega⟩
    have before_lt : ∀ {g h : Group}, firstT g < firstT h → before g h = true := by
      intro g h hlt; simp [before, hlt]
    have before_le : ∀ {g h : Group}, before g h = true → firstT g ≤ firstT h := by
      intro g h hb
      simp only [before, Bool.or_eq_true, Bool.and_eq_true, decide_eq_true_eq, beq_iff_eq] at hb
      omega
    simp only [runG]
    refine ⟨?_, ?_, ?_⟩
    · refine List.pairwise_append.mpr ⟨hstep.imp before_le, i1, ?_⟩
      intro g hg h hh; exact (cross g hg h hh).1
    · refine List.pairwise_append.mpr ⟨hfr1.imp (fun hne e => absurd e hne), i2, ?_⟩
      intro g hg h hh; exact (cross g hg h hh).2.1
    · intro hw
      refine List.pairwise_append.mpr ⟨hstep, i3 hw, ?_⟩
      intro g hg h hh; exact before_lt ((cross g hg h hh).2.2 hw)


/-! ### small facts used by Props/C10.lean -/

theorem runG_snoc (w : Nat) : ∀ (hist : List Arrival) (s : State) (a : Arrival),
    runG w s (hist ++ [a]) =
      ((stepG w (runG w s hist).1 a).1, (runG w s hist).2 ++ (stepG w (runG w s hist).1 a).2)
  | [], s, a => by simp [runG]
  | b :: bs, s, a => by simp [runG, runG_snoc w bs (stepG w s b).1 a, List.append_assoc]

/-- the empty de-duplicator and a monotone history meet the hypotheses of `runG_mono` -/
theorem mono_init (w : Nat) {hist : List Arrival} (hm : Spec.Dedup.Monotone hist) :
    Bounded w 0 init ∧ MonoFrom 0 hist :=
  ⟨fun _ h => by simp [init] at h, ⟨hm, fun _ _ => Nat.zero_le _⟩⟩

/-- a pairwise relation on closed groups carries over to the records sent -/
theorem pairwise_records {R : Group → Group → Prop} {Q : Record → Record → Prop}
    (dec : Frame → Bool) {gs : List Group} (h : gs.Pairwise R)
    (hq : ∀ g h, R g h → Q (recordOf g) (recordOf h)) : (records dec gs).Pairwise Q := by
  simp only [records]
  exact List.pairwise_map.mpr ((h.sublist List.filter_sublist).imp (hq _ _))

end Rs1090.Dedup
