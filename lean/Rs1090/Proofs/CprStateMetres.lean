/-
C06, the metre clause: a lattice point of a report (`IsLattice`, longitude on ANY turn) is within 9.629 m
(airborne) / 2.408 m (surface) great-circle distance of the true position, on the sphere of radius
6 399 594 m (largest radius of curvature of WGS-84).  Nothing new is computed here: `Proofs.Metres.air_dist`
/ `surf_dist` (C04/C05) already allow the recovered longitude to sit on any turn `k` (the chord depends on
the longitude difference through `sin²(Δλ/2)` only), and `recv17_err` / `recv19_err` give the half
quantisation step.
-/
import Rs1090.Proofs.CprStateSound
import Rs1090.Proofs.CprMetres
namespace Rs1090.Proofs.CprState
open Rs1090 Rs1090.Model.Cpr Rs1090.Spec.Cpr Rs1090.Proofs.Cpr Rs1090.Proofs.Metres Rs1090.Proofs.Geo

/-- the airborne bound in metres, as a real number -/
theorem chordMax_cast_le (n : Nat) : ((chordMax n : ℚ) : ℝ) ≤ 9628 / 1000 := by
  calc ((chordMax n : ℚ) : ℝ) ≤ ((9628 / 1000 : ℚ) : ℝ) := Rat.cast_le.mpr (chordMax_le n)
    _ = 9628 / 1000 := by norm_num

/-- … and the surface one (a quarter) -/
theorem chordMax4_cast_le (n : Nat) : ((chordMax n / 4 : ℚ) : ℝ) ≤ 2407 / 1000 := by
  have := chordMax_le n
  calc ((chordMax n / 4 : ℚ) : ℝ) ≤ ((2407 / 1000 : ℚ) : ℝ) := Rat.cast_le.mpr (by linarith)
    _ = 2407 / 1000 := by norm_num

/-- **airborne lattice point, any turn**: at most 9.629 m from the true point (6.251 m where NL ≥ 3) -/
theorem lattice_air_metres (i : Nat) (hi : i ≤ 1) (lat lon : ℚ) (hlat : -90 ≤ lat ∧ lat ≤ 90) (p : Pos)
    (h : IsLattice 17 i lat lon p) :
    gcDist 6399594 (rad lat) (rad lon) (rad p.lat) (rad p.lon) ≤ 9629 / 1000 ∧
    (3 ≤ NL (rlat 17 i lat) →
      gcDist 6399594 (rad lat) (rad lon) (rad p.lat) (rad p.lon) ≤ 6251 / 1000) := by
  obtain ⟨h1, k, h2⟩ := h
  have hB : |p.lon - (lon + 360 * k)| ≤ dlon i (rlat 17 i lat) / 262144 := by
    have e : p.lon - (lon + 360 * (k : ℚ)) = rlon 17 i (rlat 17 i lat) lon - lon := by rw [h2]; ring
    rw [e, rlon_eq_recv]; exact recv17_err _ _ (dlon_pos i _)
  obtain ⟨_, hg⟩ := air_dist i hi lat lon hlat p.lon k hB
  rw [h1]
  have hm := chordMax_cast_le (NL (rlat 17 i lat))
  refine ⟨by linarith, fun h3 => ?_⟩
  have : chordMax (NL (rlat 17 i lat)) = 625 / 100 := by unfold chordMax; rw [if_pos h3]
  rw [this] at hg
  exact le_trans hg (by norm_num)

/-- **surface lattice point, any turn**: at most 2.408 m from the true point -/
theorem lattice_surf_metres (i : Nat) (hi : i ≤ 1) (lat lon : ℚ) (hlat : -90 ≤ lat ∧ lat ≤ 90) (p : Pos)
    (h : IsLattice 19 i lat lon p) :
    gcDist 6399594 (rad lat) (rad lon) (rad p.lat) (rad p.lon) ≤ 2408 / 1000 := by
  obtain ⟨h1, k, h2⟩ := h
  have hB : |p.lon - (lon + 360 * k)| ≤ dlon i (rlat 19 i lat) / 1048576 := by
    have e : p.lon - (lon + 360 * (k : ℚ)) = rlon 19 i (rlat 19 i lat) lon - lon := by rw [h2]; ring
    rw [e, rlon_eq_recv]; exact recv19_err _ _ (dlon_pos i _)
  obtain ⟨_, hg⟩ := surf_dist i hi lat lon hlat p.lon k hB
  rw [h1]
  have hm := chordMax4_cast_le (NL (rlat 19 i lat))
  linarith

end Rs1090.Proofs.CprState
