import Rs1090.Proofs.CprLocal
/-!
C05, assembled: reports produced by the DO-260B encoder (`Spec.Cpr.encode`), decoded by the model's
`airborneWithRef` / `surfaceWithRef` against a reference.
-/
namespace Rs1090.Proofs.Cpr
open Rs1090 Rs1090.Model.Cpr Rs1090.Spec.Cpr

/-- the format-`i` report of `(lat, lon)`: `nb = 17` airborne (BDS 0,5), `nb = 19` surface (BDS 0,6) -/
def report (nb i : Nat) (lat lon : ℚ) : Msg :=
  ⟨if i = 0 then .even else .odd, (encode nb i lat lon).1, (encode nb i lat lon).2⟩

theorem frac17_add_mul (V k : ℤ) : frac17 (V + k * 131072) = frac17 V := by
  unfold frac17
  have : (V + k * 131072) % 131072 = V % 131072 := by omega
  rw [this]

theorem dLatOf_report_air (i : Nat) (hi : i ≤ 1) (lat lon : ℚ) :
    dLatOf 360 (report 17 i lat lon) = dlat i := by
  have : i = 0 ∨ i = 1 := by omega
  rcases this with h | h <;> subst h
  · simp [dLatOf, report, dlat0]; norm_num
  · simp [dLatOf, report, dlat1]

theorem dLatOf_report_surf (i : Nat) (hi : i ≤ 1) (lat lon : ℚ) :
    dLatOf 90 (report 19 i lat lon) = dlat i / 4 := by
  have : i = 0 ∨ i = 1 := by omega
  rcases this with h | h <;> subst h
  · simp [dLatOf, report, dlat0]; norm_num
  · simp [dLatOf, report, dlat1]; norm_num

theorem fmt_report (nb i : Nat) (hi : i ≤ 1) (lat lon : ℚ) : fmt (report nb i lat lon) = i := by
  have : i = 0 ∨ i = 1 := by omega
  rcases this with h | h <;> subst h <;> simp [fmt, report]

theorem niOf_eq (i : Nat) (x : ℚ) : niOf i x = max (NL x - i) 1 := by
  unfold niOf; rw [nl_eq_NL]

theorem dLonOf_report_air (i : Nat) (hi : i ≤ 1) (lat lon x : ℚ) :
    dLonOf 360 (report 17 i lat lon) x = dlon i x := by
  unfold dLonOf
  rw [fmt_report 17 i hi, niOf_eq, dlon_eq]

theorem dLonOf_report_surf (i : Nat) (hi : i ≤ 1) (lat lon x : ℚ) :
    dLonOf 90 (report 19 i lat lon) x = dlon i x / 4 := by
  unfold dLonOf
  rw [fmt_report 19 i hi, niOf_eq, dlon_eq]
  ring

/-! ### the recovered latitude stays on the globe -/

theorem rnd_neg15 : rnd (-15) = -1966080 := by
  have := rnd_lattice (-1966080); norm_num at this; exact this
theorem rnd_pos15 : rnd 15 = 1966080 := by
  have := rnd_lattice 1966080; norm_num at this; exact this

/-- generic: if `±90/d` are lattice points (index `±K`), the recovered value of any `v ∈ [-90, 90]` is in
    `[-90, 90]` -/
theorem recv_range (d : ℚ) (hd : 0 < d) (K : ℤ) (hK : (90 : ℚ) / d = (K : ℚ) / 131072) (v : ℚ)
    (hv : -90 ≤ v ∧ v ≤ 90) :
    -90 ≤ d * ((rnd (v / d) : ℚ) / 131072) ∧ d * ((rnd (v / d) : ℚ) / 131072) ≤ 90 := by
  have hup : rnd (v / d) ≤ K := by
    have : v / d ≤ (K : ℚ) / 131072 := by rw [← hK]; exact div_le_div_of_nonneg_right hv.2 (le_of_lt hd)
    calc rnd (v / d) ≤ rnd ((K : ℚ) / 131072) := rnd_mono this
      _ = K := rnd_lattice K
  have hlo : -K ≤ rnd (v / d) := by
    have : ((-K : ℤ) : ℚ) / 131072 ≤ v / d := by
      have e : ((-K : ℤ) : ℚ) / 131072 = -90 / d := by push_cast; rw [neg_div, ← hK, neg_div]
      rw [e]; exact div_le_div_of_nonneg_right hv.1 (le_of_lt hd)
    calc -K = rnd (((-K : ℤ) : ℚ) / 131072) := (rnd_lattice (-K)).symm
      _ ≤ rnd (v / d) := rnd_mono this
  have h90 : (90 : ℚ) = d * ((K : ℚ) / 131072) := by rw [← hK]; field_simp
  have hupq : (rnd (v / d) : ℚ) ≤ K := by exact_mod_cast hup
  have hloq : -(K : ℚ) ≤ (rnd (v / d) : ℚ) := by exact_mod_cast hlo
  constructor
  · have : d * ((-K : ℚ) / 131072) ≤ d * ((rnd (v / d) : ℚ) / 131072) := by
      apply mul_le_mul_of_nonneg_left _ (le_of_lt hd)
      exact div_le_div_of_nonneg_right hloq (by norm_num)
    have e : d * ((-K : ℚ) / 131072) = -90 := by rw [h90]; ring
    linarith
  · have : d * ((rnd (v / d) : ℚ) / 131072) ≤ d * ((K : ℚ) / 131072) := by
      apply mul_le_mul_of_nonneg_left _ (le_of_lt hd)
      exact div_le_div_of_nonneg_right hupq (by norm_num)
    linarith

/-- ±90° are lattice points of all four latitude grids -/
theorem rlat_range_air (i : Nat) (hi : i ≤ 1) (lat : ℚ) (h : -90 ≤ lat ∧ lat ≤ 90) :
    -90 ≤ rlat 17 i lat ∧ rlat 17 i lat ≤ 90 := by
  rw [rlat_eq_recv, recv17 _ _ (ne_of_gt (dlat_pos i hi))]
  have : i = 0 ∨ i = 1 := by omega
  rcases this with h' | h' <;> subst h'
  · exact recv_range _ (dlat_pos 0 hi) 1966080 (by rw [dlat0]; norm_num) lat h
  · exact recv_range _ (dlat_pos 1 hi) 1933312 (by rw [dlat1]; norm_num) lat h

theorem rlat_range_surf (i : Nat) (hi : i ≤ 1) (lat : ℚ) (h : -90 ≤ lat ∧ lat ≤ 90) :
    -90 ≤ rlat 19 i lat ∧ rlat 19 i lat ≤ 90 := by
  rw [rlat_eq_recv, recv19 _ _ (ne_of_gt (dlat_pos i hi))]
  have hd4 : 0 < dlat i / 4 := by have := dlat_pos i hi; positivity
  have : i = 0 ∨ i = 1 := by omega
  rcases this with h' | h' <;> subst h'
  · exact recv_range _ hd4 7864320 (by rw [dlat0]; norm_num) lat h
  · exact recv_range _ hd4 7733248 (by rw [dlat1]; norm_num) lat h

/-! ### exact local decoding of encoded reports -/

theorem local_exact_air (i : Nat) (hi : i ≤ 1) (lat lon latRef lonRef : ℚ) (k : ℤ)
    (hlat : -90 ≤ lat ∧ lat ≤ 90)
    (h1 : |rlat 17 i lat - latRef| < dlat i / 2)
    (h2 : |rlon 17 i (rlat 17 i lat) lon + 360 * k - lonRef| < dlon i (rlat 17 i lat) / 2) :
    airborneWithRef (report 17 i lat lon) latRef lonRef
      = .ok (some ⟨rlat 17 i lat, rlon 17 i (rlat 17 i lat) lon + 360 * k⟩) := by
  have hd := dlat_pos i hi
  have hdl := dlon_pos i (rlat 17 i lat)
  set rl := rlat 17 i lat with hrl
  set ni : ℕ := max (NL rl - i) 1 with hni
  have hniq : dlon i rl = 360 / (ni : ℚ) := dlon_eq i rl
  have hni0 : (0 : ℚ) < (ni : ℚ) := by
    have : 1 ≤ ni := le_max_right _ _
    exact_mod_cast this
  have eT : rl = dlat i * ((rnd (lat / dlat i) : ℚ) / 131072) := by
    rw [hrl, rlat_eq_recv, recv17 _ _ (ne_of_gt hd)]
  have eV : rlon 17 i rl lon + 360 * k
      = dlon i rl * (((rnd (lon / dlon i rl) + k * ni * 131072 : ℤ) : ℚ) / 131072) := by
    rw [rlon_eq_recv, recv17 _ _ (ne_of_gt hdl), hniq]
    push_cast
    field_simp
  have hr := rlat_range_air i hi lat hlat
  have key := withRef_exact 360 (by norm_num) (report 17 i lat lon) latRef lonRef
    (rnd (lat / dlat i)) (rnd (lon / dlon i rl) + k * ni * 131072)
    (by
      show (((yz 17 i lat % 131072).toNat : ℕ) : ℚ) / cprMax = _
      rw [yz_eq_fld]; exact field17 _ _ (ne_of_gt hd))
    (by
      show (((xz 17 i (rlat 17 i lat) lon % 131072).toNat : ℕ) : ℚ) / cprMax = _
      rw [xz_eq_fld, field17 _ _ (ne_of_gt hdl), frac17_add_mul])
  rw [dLatOf_report_air i hi, ← eT, dLonOf_report_air i hi, ← eV] at key
  exact key hr h1 h2

theorem local_exact_surf (i : Nat) (hi : i ≤ 1) (lat lon latRef lonRef : ℚ) (k : ℤ)
    (hlat : -90 ≤ lat ∧ lat ≤ 90)
    (h1 : |rlat 19 i lat - latRef| < dlat i / 4 / 2)
    (h2 : |rlon 19 i (rlat 19 i lat) lon + 360 * k - lonRef| < dlon i (rlat 19 i lat) / 4 / 2) :
    surfaceWithRef (report 19 i lat lon) latRef lonRef
      = .ok (some ⟨rlat 19 i lat, rlon 19 i (rlat 19 i lat) lon + 360 * k⟩) := by
  have hd := dlat_pos i hi
  have hdl := dlon_pos i (rlat 19 i lat)
  set rl := rlat 19 i lat with hrl
  set ni : ℕ := max (NL rl - i) 1 with hni
  have hniq : dlon i rl = 360 / (ni : ℚ) := dlon_eq i rl
  have hni0 : (0 : ℚ) < (ni : ℚ) := by
    have : 1 ≤ ni := le_max_right _ _
    exact_mod_cast this
  have eT : rl = dlat i / 4 * ((rnd (lat / (dlat i / 4)) : ℚ) / 131072) := by
    rw [hrl, rlat_eq_recv, recv19 _ _ (ne_of_gt hd)]
  have eV : rlon 19 i rl lon + 360 * k
      = dlon i rl / 4 * (((rnd (lon / (dlon i rl / 4)) + k * (4 * ni) * 131072 : ℤ) : ℚ) / 131072) := by
    rw [rlon_eq_recv, recv19 _ _ (ne_of_gt hdl), hniq]
    push_cast
    field_simp
  have hr := rlat_range_surf i hi lat hlat
  have key := withRef_exact 90 (by norm_num) (report 19 i lat lon) latRef lonRef
    (rnd (lat / (dlat i / 4))) (rnd (lon / (dlon i rl / 4)) + k * (4 * ni) * 131072)
    (by
      show (((yz 19 i lat % 131072).toNat : ℕ) : ℚ) / cprMax = _
      rw [yz_eq_fld]; exact field19 _ _ (ne_of_gt hd))
    (by
      show (((xz 19 i (rlat 19 i lat) lon % 131072).toNat : ℕ) : ℚ) / cprMax = _
      rw [xz_eq_fld, field19 _ _ (ne_of_gt hdl), frac17_add_mul])
  rw [dLatOf_report_surf i hi, ← eT, dLonOf_report_surf i hi, ← eV] at key
  exact key hr h1 h2

end Rs1090.Proofs.Cpr
