import Rs1090.Proofs.CprStateSound
import Mathlib.Data.List.Induction
/-!
The cache invariant of the trajectory decoder, by induction over the history — NO kinematics, NO assumption
on what the reports carry.

A history is a list of reports, each with an annotation of an arbitrary type `α` (the proofs of
`Props/C06.lean` put the true position there; nothing in this file looks at it).  `logOf` pairs every
annotated report with what the run attached to it.  After any history, from the empty cache:

* every parity slot of every entry holds an EARLIER report of the same address, airborne, of that parity,
  with its recorded time stamp in the slot's time stamp (`EntryInv.even`, `.odd`);
* `pos`, when present, is the position ATTACHED to an earlier report of the same address whose recorded time
  stamp is `timestamp` (`EntryInv.pos`);
* the receiver reference is the initial one or — only with an `update_reference` callback `f` — the position
  attached to an earlier airborne report (of any address) on which `f` answered `true` (`RefInv`).

`logOf_forall` is the induction principle over the history that `Props.C06.sound` uses: a property of
(report, attached position) holds for the whole log as soon as each step preserves it given all the earlier
ones.
-/
set_option linter.unusedVariables false
set_option linter.unusedSimpArgs false
namespace Rs1090.Proofs.CprState
open Rs1090 Rs1090.Model.Cpr Rs1090.Model.CprState

variable {α : Type}

/-- an annotated report with what was attached to it -/
abbrev LogItem (α : Type) := (Report × α) × Option Pos

/-- the log of a run from state `st`: every (annotated) report of the history with what was attached to it -/
def logOf (g : Gates) (dist : Pos → Pos → Rat) (upd : Option (Report → Bool)) (st : State)
    (H : List (Report × α)) : List (LogItem α) :=
  H.zip (run g dist upd st (H.map Prod.fst))

theorem runState_append (g : Gates) (dist : Pos → Pos → Rat) (upd : Option (Report → Bool)) :
    ∀ (pre : List Report) (st : State) (r : Report),
      runState g dist upd st (pre ++ [r]) = (decodePosition g dist upd (runState g dist upd st pre) r).1 := by
  intro pre
  induction pre with
  | nil => intro st r; rfl
  | cons a pre ih => intro st r; simp only [List.cons_append, runState]; rw [ih]

theorem logOf_snoc (g : Gates) (dist : Pos → Pos → Rat) (upd : Option (Report → Bool)) (st : State)
    (H : List (Report × α)) (x : Report × α) :
    logOf g dist upd st (H ++ [x]) = logOf g dist upd st H ++
      [(x, (decodePosition g dist upd (runState g dist upd st (H.map Prod.fst)) x.1).2)] := by
  unfold logOf
  rw [List.map_append, List.map_singleton, run_append]
  simp only [run]
  rw [List.zip_append (by rw [run_length, List.length_map])]
  rfl

/-! ### the invariant -/

/-- what an entry of the cache (address `A`) holds, in terms of the log so far -/
structure EntryInv (log : List (LogItem α)) (A : Address) (e : AircraftState) : Prop where
  /-- the even slot holds an earlier even airborne report of `A`, stamped `evenTs` -/
  even : ∀ o, e.evenMsg = some o → ∃ x ∈ log, x.1.1.addr = A ∧ x.1.1.kind = .airborne ∧ x.1.1.msg = o ∧
    o.parity = .even ∧ x.1.1.ts = e.evenTs
  /-- the odd slot holds an earlier odd airborne report of `A`, stamped `oddTs` -/
  odd : ∀ o, e.oddMsg = some o → ∃ x ∈ log, x.1.1.addr = A ∧ x.1.1.kind = .airborne ∧ x.1.1.msg = o ∧
    o.parity = .odd ∧ x.1.1.ts = e.oddTs
  /-- the last position was attached to an earlier report of `A`, stamped `timestamp` -/
  pos : ∀ lp, e.pos = some lp → ∃ x ∈ log, x.1.1.addr = A ∧ x.1.1.ts = e.timestamp ∧ x.2 = some lp

/-- every entry of the cache satisfies `EntryInv` -/
def CacheInv (log : List (LogItem α)) (c : Cache) : Prop := ∀ A e, c A = some e → EntryInv log A e

/-- the receiver reference: the initial one, or (callback `f` only) what was attached to an earlier airborne
    report on which `f` answered `true` -/
def RefInv (upd : Option (Report → Bool)) (ref0 : Option Pos) (log : List (LogItem α)) (ref : Option Pos) :
    Prop :=
  ref = ref0 ∨ ∃ x ∈ log, ∃ f p, upd = some f ∧ f x.1.1 = true ∧ x.1.1.kind = .airborne ∧ x.2 = some p ∧
    ref = some p

theorem EntryInv.mono {log : List (LogItem α)} {A : Address} {e : AircraftState} (h : EntryInv log A e)
    (y : LogItem α) : EntryInv (log ++ [y]) A e := by
  refine ⟨fun o ho => ?_, fun o ho => ?_, fun lp hlp => ?_⟩
  · obtain ⟨x, hx, r⟩ := h.even o ho; exact ⟨x, List.mem_append_left _ hx, r⟩
  · obtain ⟨x, hx, r⟩ := h.odd o ho; exact ⟨x, List.mem_append_left _ hx, r⟩
  · obtain ⟨x, hx, r⟩ := h.pos lp hlp; exact ⟨x, List.mem_append_left _ hx, r⟩

theorem EntryInv.fresh (log : List (LogItem α)) (A : Address) (ts : Rat) :
    EntryInv log A (AircraftState.fresh ts) := by
  refine ⟨?_, ?_, ?_⟩ <;> intro o ho <;> simp [AircraftState.fresh] at ho

/-- the entry a report finds (stored, or freshly inserted) satisfies the invariant -/
theorem EntryInv.getD {log : List (LogItem α)} {c : Cache} (h : CacheInv log c) (r : Report) :
    EntryInv log r.addr ((c r.addr).getD (AircraftState.fresh r.ts)) := by
  cases hc : c r.addr with
  | none => exact EntryInv.fresh log r.addr r.ts
  | some e => exact h r.addr e hc

/-- the slot of the OTHER parity, read through `otherMsg`/`otherTs` -/
theorem EntryInv.other {log : List (LogItem α)} {A : Address} {e : AircraftState} (h : EntryInv log A e)
    (par : Parity) (o : Msg) (ho : otherMsg e par = some o) :
    ∃ x ∈ log, x.1.1.addr = A ∧ x.1.1.kind = .airborne ∧ x.1.1.msg = o ∧ o.parity ≠ par ∧
      x.1.1.ts = otherTs e par := by
  cases par with
  | even =>
    obtain ⟨x, hx, a, b, c, d, f⟩ := h.odd o ho
    exact ⟨x, hx, a, b, c, by rw [d]; decide, f⟩
  | odd =>
    obtain ⟨x, hx, a, b, c, d, f⟩ := h.even o ho
    exact ⟨x, hx, a, b, c, by rw [d]; decide, f⟩

/-! ### one step preserves it -/

theorem mem_snoc_self (log : List (LogItem α)) (y : LogItem α) : y ∈ log ++ [y] :=
  List.mem_append_right _ (List.mem_singleton.2 rfl)

/-- the entry written back by one call satisfies the invariant of the log extended by that call -/
theorem entryInv_stepEntry (g : Gates) (hg : LiteralGates g) (dist : Pos → Pos → Rat)
    (upd : Option (Report → Bool)) (log : List (LogItem α)) (entry : Option AircraftState)
    (ref : Option Pos) (x : Report × α)
    (h0 : EntryInv log x.1.addr (entry.getD (AircraftState.fresh x.1.ts))) :
    EntryInv (log ++ [(x, (stepEntry g dist upd entry ref x.1).2.2)]) x.1.addr
      (stepEntry g dist upd entry ref x.1).1 := by
  cases hk : x.1.kind with
  | other =>
    rw [stepEntry_other g dist upd entry ref x.1 hk]
    exact h0.mono _
  | airborne =>
    rw [stepEntry_airborne g hg dist upd entry ref x.1 hk]
    generalize entry.getD (AircraftState.fresh x.1.ts) = e0 at h0 ⊢
    by_cases hguard : x.1.ts - otherTs e0 x.1.msg.parity < 0
    · simp only [hguard, if_true]
      exact h0.mono _
    · simp only [hguard, if_false]
      unfold airEntry storeSlot
      generalize hout : airOut dist e0 x.1.ts x.1.msg = out
      have hm := h0.mono (x, out)
      cases hpar : x.1.msg.parity <;> cases out <;> simp only <;>
        refine ⟨fun o ho => ?_, fun o ho => ?_, fun lp hlp => ?_⟩ <;>
        first
          | exact hm.even o ho
          | exact hm.odd o ho
          | exact hm.pos lp hlp
          | (cases hlp; done)
          | (cases ho; exact ⟨_, mem_snoc_self _ _, rfl, hk, rfl, hpar, rfl⟩)
          | (cases hlp; exact ⟨_, mem_snoc_self _ _, rfl, rfl, rfl⟩)
  | surface =>
    rw [stepEntry_surface g hg dist upd entry ref x.1 hk]
    generalize entry.getD (AircraftState.fresh x.1.ts) = e0 at h0 ⊢
    unfold surfEntry
    generalize hout : surfOut dist e0 ref x.1.ts x.1.msg = out
    have hm := h0.mono (x, out)
    cases out <;> simp only
    · exact hm
    · refine ⟨fun o ho => hm.even o ho, fun o ho => hm.odd o ho, fun lp hlp => ?_⟩
      cases hlp
      exact ⟨_, mem_snoc_self _ _, rfl, rfl, rfl⟩

theorem cacheInv_step (g : Gates) (hg : LiteralGates g) (dist : Pos → Pos → Rat)
    (upd : Option (Report → Bool)) (log : List (LogItem α)) (c : Cache) (ref : Option Pos) (x : Report × α)
    (h : CacheInv log c) :
    CacheInv (log ++ [(x, (decodePosition g dist upd (c, ref) x.1).2)])
      (decodePosition g dist upd (c, ref) x.1).1.1 := by
  intro A e hA
  by_cases ha : A = x.1.addr
  · subst ha
    have hs : (decodePosition g dist upd (c, ref) x.1).1.1 x.1.addr
        = some (stepEntry g dist upd (c x.1.addr) ref x.1).1 := set_same _ _ _
    rw [hs] at hA
    cases hA
    exact entryInv_stepEntry g hg dist upd log (c x.1.addr) ref x (EntryInv.getD h x.1)
  · rw [decodePosition_frame g dist upd (c, ref) x.1 A ha] at hA
    exact (h A e hA).mono _

theorem RefInv.mono {upd : Option (Report → Bool)} {ref0 ref : Option Pos} {log : List (LogItem α)}
    (h : RefInv upd ref0 log ref) (y : LogItem α) : RefInv upd ref0 (log ++ [y]) ref := by
  rcases h with h | ⟨x, hx, r⟩
  · exact Or.inl h
  · exact Or.inr ⟨x, List.mem_append_left _ hx, r⟩

theorem refInv_step (g : Gates) (hg : LiteralGates g) (dist : Pos → Pos → Rat)
    (upd : Option (Report → Bool)) (ref0 : Option Pos) (log : List (LogItem α)) (c : Cache) (ref : Option Pos)
    (x : Report × α) (h : RefInv upd ref0 log ref) :
    RefInv upd ref0 (log ++ [(x, (decodePosition g dist upd (c, ref) x.1).2)])
      (decodePosition g dist upd (c, ref) x.1).1.2 := by
  change RefInv upd ref0 (log ++ [(x, (stepEntry g dist upd (c x.1.addr) ref x.1).2.2)])
    (stepEntry g dist upd (c x.1.addr) ref x.1).2.1
  cases hk : x.1.kind with
  | other => rw [stepEntry_other g dist upd _ ref x.1 hk]; exact h.mono _
  | surface => rw [stepEntry_surface g hg dist upd _ ref x.1 hk]; exact h.mono _
  | airborne =>
    rw [stepEntry_airborne g hg dist upd _ ref x.1 hk]
    generalize (c x.1.addr).getD (AircraftState.fresh x.1.ts) = e0
    by_cases hguard : x.1.ts - otherTs e0 x.1.msg.parity < 0
    · simp only [hguard, if_true]; exact h.mono _
    · simp only [hguard, if_false]
      generalize airOut dist e0 x.1.ts x.1.msg = out
      unfold refAfter
      cases out with
      | none => exact h.mono _
      | some p =>
        cases upd with
        | none => exact h.mono _
        | some f =>
          simp only
          by_cases hf : f x.1 = true
          · rw [if_pos hf]
            exact Or.inr ⟨_, mem_snoc_self _ _, f, p, rfl, hf, hk, rfl, rfl⟩
          · rw [if_neg hf]; exact h.mono _

/-! ### whole histories -/

/-- **the cache invariant**, after any history from the empty cache -/
theorem inv_run (g : Gates) (hg : LiteralGates g) (dist : Pos → Pos → Rat) (upd : Option (Report → Bool))
    (ref0 : Option Pos) (H : List (Report × α)) :
    CacheInv (logOf g dist upd (Cache.empty, ref0) H)
      (runState g dist upd (Cache.empty, ref0) (H.map Prod.fst)).1 ∧
    RefInv upd ref0 (logOf g dist upd (Cache.empty, ref0) H)
      (runState g dist upd (Cache.empty, ref0) (H.map Prod.fst)).2 := by
  induction H using List.reverseRecOn with
  | nil =>
    refine ⟨fun A e hA => ?_, Or.inl rfl⟩
    cases hA
  | append_singleton H x ih =>
    rw [logOf_snoc, List.map_append, List.map_singleton, runState_append]
    generalize hst : runState g dist upd (Cache.empty, ref0) (H.map Prod.fst) = st at ih ⊢
    obtain ⟨c, ref⟩ := st
    exact ⟨cacheInv_step g hg dist upd _ c ref x ih.1, refInv_step g hg dist upd ref0 _ c ref x ih.2⟩

/-- **induction over the history**: a property of (report, attached position) that every step establishes,
    given that it holds for everything before, holds for the whole log -/
theorem logOf_forall (g : Gates) (dist : Pos → Pos → Rat) (upd : Option (Report → Bool)) (st : State)
    (P : LogItem α → Prop) (H : List (Report × α))
    (hstep : ∀ pre x post, H = pre ++ x :: post → (∀ y ∈ logOf g dist upd st pre, P y) →
      P (x, (decodePosition g dist upd (runState g dist upd st (pre.map Prod.fst)) x.1).2)) :
    ∀ y ∈ logOf g dist upd st H, P y := by
  suffices hs : ∀ pre post, H = pre ++ post → ∀ y ∈ logOf g dist upd st pre, P y from
    hs H [] (List.append_nil H).symm
  intro pre
  induction pre using List.reverseRecOn with
  | nil => intro post _ y hy; cases hy
  | append_singleton pre x ih =>
    intro post hH y hy
    have hH' : H = pre ++ x :: post := by rw [hH, List.append_assoc]; rfl
    have hpre := ih (x :: post) hH'
    rw [logOf_snoc, List.mem_append, List.mem_singleton] at hy
    rcases hy with hy | hy
    · exact hpre y hy
    · rw [hy]; exact hstep pre x post hH' hpre

/-- reading the log by index -/
theorem logOf_getElem? (g : Gates) (dist : Pos → Pos → Rat) (upd : Option (Report → Bool)) (st : State)
    (H : List (Report × α)) (k : ℕ) (x : Report × α) (o : Option Pos) (hx : H[k]? = some x)
    (ho : (run g dist upd st (H.map Prod.fst))[k]? = some o) :
    (x, o) ∈ logOf g dist upd st H := by
  unfold logOf
  apply List.mem_iff_getElem?.2
  exact ⟨k, by rw [List.getElem?_zip_eq_some]; exact ⟨hx, ho⟩⟩

end Rs1090.Proofs.CprState
