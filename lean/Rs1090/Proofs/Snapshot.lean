/-
Helper lemmas for C12 (Props/C12.lean): how `update_snapshot` acts on one entry of the table,
and the reduction of the table after a history to a fold over the aircraft's own records.
Core Lean only.
-/
import Rs1090.Spec.Snapshot
set_option linter.unusedSimpArgs false
namespace Rs1090.Proofs.Snapshot
open Rs1090.Model.Snapshot Rs1090.Spec.Snapshot

/-! ### the arms only write the value fields -/

theorem applyAdsb_meta (e : Entry) (me : MeView) :
    (applyAdsb e me).icao24 = e.icao24 ∧ (applyAdsb e me).firstseen = e.firstseen ∧
    (applyAdsb e me).lastseen = e.lastseen ∧ (applyAdsb e me).count = e.count := by
  unfold applyAdsb
  split <;> (try split) <;> (try split) <;> simp

theorem applyTisb_meta (e : Entry) (me : MeView) :
    (applyTisb e me).icao24 = e.icao24 ∧ (applyTisb e me).firstseen = e.firstseen ∧
    (applyTisb e me).lastseen = e.lastseen ∧ (applyTisb e me).count = e.count := by
  unfold applyTisb
  split <;> simp

theorem applyCommB_meta (e : Entry) (b : CommB) :
    (applyCommB e b).icao24 = e.icao24 ∧ (applyCommB e b).firstseen = e.firstseen ∧
    (applyCommB e b).lastseen = e.lastseen ∧ (applyCommB e b).count = e.count := by
  unfold applyCommB
  repeat' split
  all_goals simp

theorem applyBody_meta (e : Entry) (b : Body) :
    (applyBody e b).icao24 = e.icao24 ∧ (applyBody e b).firstseen = e.firstseen ∧
    (applyBody e b).lastseen = e.lastseen ∧ (applyBody e b).count = e.count := by
  cases b with
  | identity sq => simp [applyBody]
  | altitude a => simp [applyBody]
  | adsb me => exact applyAdsb_meta e me
  | tisb me => exact applyTisb_meta e me
  | commbAlt b => exact applyCommB_meta e b
  | commbId b => exact applyCommB_meta e b
  | other => simp [applyBody]

theorem touch_icao24 (r : Record) (e : Entry) : (touch r e).icao24 = e.icao24 := by
  unfold touch; rw [(applyBody_meta _ _).1]
theorem touch_firstseen (r : Record) (e : Entry) : (touch r e).firstseen = e.firstseen := by
  unfold touch; rw [(applyBody_meta _ _).2.1]
theorem touch_lastseen (r : Record) (e : Entry) : (touch r e).lastseen = r.ts := by
  unfold touch; rw [(applyBody_meta _ _).2.2.1]
theorem touch_count (r : Record) (e : Entry) : (touch r e).count = e.count + 1 := by
  unfold touch; rw [(applyBody_meta _ _).2.2.2]

/-! ### the arms write only values the record carries -/

/-- a field after an arm: unchanged, cleared, or a value the record carries for that quantity -/
def FieldOk (new old : Option Val) (c : List Val) : Prop :=
  new = old ∨ new = none ∨ ∃ v, v ∈ c ∧ new = some v

theorem fieldOk_opt (o old : Option Val) : FieldOk o old o.toList := by
  cases o with
  | none => exact .inr (.inl rfl)
  | some v => exact .inr (.inr ⟨v, by simp, rfl⟩)

theorem fieldOk_refl (old : Option Val) (c : List Val) : FieldOk old old c := .inl rfl
theorem fieldOk_none (old : Option Val) (c : List Val) : FieldOk none old c := .inr (.inl rfl)
theorem fieldOk_some (v : Val) (old : Option Val) (c : List Val) (h : v ∈ c) : FieldOk (some v) old c :=
  .inr (.inr ⟨v, h, rfl⟩)

theorem applyAdsb_field (e : Entry) (me : MeView) (f : Field) :
    FieldOk (entryField (applyAdsb e me) f) (entryField e f) (meCarried me f) := by
  cases me with
  | bds05 lat lon alt => cases f <;> simp [applyAdsb, entryField, meCarried, fieldOk_opt, fieldOk_refl]
  | bds06 lat lon trk gs => cases f <;> simp [applyAdsb, entryField, meCarried, fieldOk_opt, fieldOk_refl, fieldOk_none]
  | bds08 cs =>
    by_cases hh : hasHash cs = true
    · cases f <;> simp [applyAdsb, hh, entryField, meCarried, fieldOk_refl]
    · cases f <;> simp [applyAdsb, hh, entryField, meCarried, fieldOk_refl, fieldOk_some]
  | bds09 vr vel =>
    cases vel with
    | ground gs trk => cases f <;> simp [applyAdsb, entryField, meCarried, fieldOk_opt, fieldOk_refl, fieldOk_some]
    | airspeed isTas spd hdg =>
      cases isTas <;> cases f <;> simp [applyAdsb, entryField, meCarried, fieldOk_opt, fieldOk_refl, fieldOk_some]
    | other => cases f <;> simp [applyAdsb, entryField, meCarried, fieldOk_opt, fieldOk_refl, fieldOk_some]
  | bds61 sq => cases f <;> simp [applyAdsb, entryField, meCarried, fieldOk_opt, fieldOk_refl, fieldOk_some]
  | bds62 sel n => cases f <;> simp [applyAdsb, entryField, meCarried, fieldOk_opt, fieldOk_refl, fieldOk_some]
  | bds65 n =>
    cases n <;> cases f <;> simp [applyAdsb, entryField, meCarried, fieldOk_opt, fieldOk_refl, fieldOk_some]
  | other => cases f <;> simp [applyAdsb, entryField, meCarried, fieldOk_refl]


theorem applyTisb_field (e : Entry) (me : MeView) (f : Field) :
    FieldOk (entryField (applyTisb e me) f) (entryField e f) (bodyCarried (.tisb me) f) := by
  cases me with
  | bds05 lat lon alt => cases f <;> simp [applyTisb, entryField, bodyCarried, meCarried, fieldOk_opt, fieldOk_refl, fieldOk_some]
  | bds06 lat lon trk gs => cases f <;> simp [applyTisb, entryField, bodyCarried, meCarried, fieldOk_opt, fieldOk_refl, fieldOk_none, fieldOk_some]
  | bds08 cs => cases f <;> simp [applyTisb, entryField, bodyCarried, meCarried, fieldOk_refl, fieldOk_some]
  | bds09 vr vel => cases f <;> simp [applyTisb, entryField, bodyCarried, meCarried, fieldOk_refl, fieldOk_some]
  | bds61 sq => cases f <;> simp [applyTisb, entryField, bodyCarried, meCarried, fieldOk_refl, fieldOk_some]
  | bds62 sel n => cases f <;> simp [applyTisb, entryField, bodyCarried, meCarried, fieldOk_refl, fieldOk_some]
  | bds65 n => cases f <;> simp [applyTisb, entryField, bodyCarried, meCarried, fieldOk_refl, fieldOk_some]
  | other => cases f <;> simp [applyTisb, entryField, bodyCarried, meCarried, fieldOk_refl, fieldOk_some]

theorem applyCommB_field (e : Entry) (b : CommB) (f : Field) :
    FieldOk (entryField (applyCommB e b) f) (entryField e f) (commbCarried b f) := by
  obtain ⟨b20, b40, b50, b60⟩ := b
  cases b20 <;> cases b40 <;> cases b50 <;> cases b60 <;> cases f <;>
    simp [applyCommB, entryField, commbCarried, fieldOk_opt, fieldOk_refl, fieldOk_some] <;>
    (repeat' split) <;> simp [fieldOk_opt, fieldOk_refl, fieldOk_some]


theorem entryField_new (ts : Nat) (k : Addr) (f : Field) : entryField (Entry.new ts k) f = none := by
  cases f <;> rfl

theorem applyBody_field (e : Entry) (b : Body) (f : Field) :
    FieldOk (entryField (applyBody e b) f) (entryField e f) (bodyCarried b f) := by
  cases b with
  | identity sq => cases f <;> simp [applyBody, entryField, bodyCarried, fieldOk_refl, fieldOk_some]
  | altitude a => cases f <;> simp [applyBody, entryField, bodyCarried, fieldOk_refl, fieldOk_some]
  | adsb me =>
    have := applyAdsb_field e me f
    cases f <;> simpa [applyBody, bodyCarried] using this
  | tisb me => exact applyTisb_field e me f
  | commbAlt b =>
    have := applyCommB_field e b f
    cases f <;> simpa [applyBody, bodyCarried] using this
  | commbId b =>
    have := applyCommB_field e b f
    cases f <;> simpa [applyBody, bodyCarried] using this
  | other => cases f <;> simp [applyBody, entryField, bodyCarried, fieldOk_refl]

/-- **One record, one field**: after `update_snapshot` handled record `r`, each value field of the
    touched entry is what it was, or empty, or a value `r` itself carries for that quantity. -/
theorem touch_field (r : Record) (e : Entry) (f : Field) :
    FieldOk (entryField (touch r e) f) (entryField e f) (carried r f) := by
  have h := applyBody_field { e with lastseen := r.ts, count := e.count + 1 } r.body f
  have h' : entryField { e with lastseen := r.ts, count := e.count + 1 } f = entryField e f := by
    cases f <;> rfl
  rw [h'] at h
  exact h

/-! ### association-list facts -/

theorem get_icao24 {k : Addr} {t : Table} {e : Entry} (h : entryOf k t = some e) : e.icao24 = k := by
  induction t with
  | nil => simp [entryOf] at h
  | cons x t ih =>
    unfold entryOf at h
    split at h
    · cases h; assumption
    · exact ih h

theorem get_upsert_same (k : Addr) (ts : Nat) (f : Entry → Entry)
    (hf : ∀ e, (f e).icao24 = e.icao24) (t : Table) :
    entryOf k (upsert k ts f t) = some (f ((entryOf k t).getD (Entry.new ts k))) := by
  induction t with
  | nil => simp [upsert, entryOf, hf, Entry.new]
  | cons x t ih =>
    unfold upsert
    by_cases hx : x.icao24 = k
    · simp [hx, entryOf, hf]
    · simp [hx, entryOf, ih]

theorem get_upsert_other (k k' : Addr) (hk : k' ≠ k) (ts : Nat) (f : Entry → Entry)
    (hf : ∀ e, (f e).icao24 = e.icao24) (t : Table) :
    entryOf k' (upsert k ts f t) = entryOf k' t := by
  induction t with
  | nil => simp [upsert, entryOf, hf, Entry.new, Ne.symm hk]
  | cons x t ih =>
    unfold upsert
    by_cases hx : x.icao24 = k
    · rw [if_pos hx]
      have h1 : (f x).icao24 ≠ k' := by rw [hf, hx]; exact Ne.symm hk
      have h2 : x.icao24 ≠ k' := by rw [hx]; exact Ne.symm hk
      simp only [entryOf, h1, h2, if_false]
    · rw [if_neg hx]
      by_cases hx' : x.icao24 = k'
      · simp only [entryOf, hx', if_true]
      · simp only [entryOf, hx', if_false, ih]

/-- the keys of the table (in list order) -/
def keys (t : Table) : List Addr := t.map (·.icao24)

theorem mem_keys_iff_get (k : Addr) (t : Table) : k ∈ keys t ↔ (entryOf k t).isSome := by
  induction t with
  | nil => simp [keys, entryOf]
  | cons x t ih =>
    unfold entryOf
    by_cases hx : x.icao24 = k
    · simp [keys, hx]
    · have ih' : k ∈ List.map (fun e => e.icao24) t ↔ (entryOf k t).isSome := ih
      simp [keys, hx, ih', Ne.symm hx]

theorem keys_upsert (k : Addr) (ts : Nat) (f : Entry → Entry)
    (hf : ∀ e, (f e).icao24 = e.icao24) (t : Table) :
    keys (upsert k ts f t) = if k ∈ keys t then keys t else keys t ++ [k] := by
  induction t with
  | nil => simp [upsert, keys, hf, Entry.new]
  | cons x t ih =>
    unfold upsert
    by_cases hx : x.icao24 = k
    · simp [hx, keys, hf]
    · have ih' : List.map (fun e => e.icao24) (upsert k ts f t) =
          if k ∈ List.map (fun e => e.icao24) t then List.map (fun e => e.icao24) t
          else List.map (fun e => e.icao24) t ++ [k] := ih
      simp only [hx, if_false, keys, List.map_cons, ih', List.mem_cons]
      have hk : ¬ k = x.icao24 := Ne.symm hx
      simp only [hk, false_or]
      split <;> simp

/-! ### one record -/

theorem get_update_same (t : Table) (r : Record) (k : Addr) (h : r.addr = some k) :
    entryOf k (update t r) = some (touch r ((entryOf k t).getD (Entry.new r.ts k))) := by
  unfold update; rw [h]
  exact get_upsert_same k r.ts (touch r) (touch_icao24 r) t

theorem get_update_other (t : Table) (r : Record) (k : Addr) (h : r.addr ≠ some k) :
    entryOf k (update t r) = entryOf k t := by
  unfold update
  cases ha : r.addr with
  | none => rfl
  | some k' =>
    have : k ≠ k' := by intro hk; apply h; rw [ha, hk]
    exact get_upsert_other k' k this r.ts (touch r) (touch_icao24 r) t

/-- the effect of a record of aircraft `k` on `k`'s entry -/
def stepK (k : Addr) (oe : Option Entry) (r : Record) : Option Entry :=
  some (touch r (oe.getD (Entry.new r.ts k)))

/-- **Reduction.**  The entry of `k` after any history, from any table, is the fold of `k`'s own
    records over `k`'s initial entry. -/
theorem get_foldl (k : Addr) (h : List Record) : ∀ t : Table,
    entryOf k (h.foldl update t) = (own k h).foldl (stepK k) (entryOf k t) := by
  induction h with
  | nil => intro t; rfl
  | cons r h ih =>
    intro t
    rw [List.foldl_cons, ih]
    by_cases hr : r.addr = some k
    · have : own k (r :: h) = r :: own k h := by simp [own, List.filter, hr]
      rw [this, List.foldl_cons, get_update_same t r k hr]; rfl
    · have : own k (r :: h) = own k h := by simp [own, List.filter, hr]
      rw [this, get_update_other t r k hr]

theorem own_own (k : Addr) (h : List Record) : own k (own k h) = own k h := by
  simp [own, List.filter_filter]

theorem mem_own {k : Addr} {h : List Record} {r : Record} : r ∈ own k h ↔ r ∈ h ∧ r.addr = some k := by
  simp [own]

/-! ### folds over one aircraft's own records -/

theorem fold_isSome (k : Addr) (l : List Record) : ∀ oe : Option Entry,
    ((l.foldl (stepK k) oe).isSome ↔ (oe.isSome ∨ l ≠ [])) := by
  induction l with
  | nil => intro oe; simp
  | cons r l ih => intro oe; rw [List.foldl_cons, ih]; simp [stepK]

theorem keys_nodup_fold (h : List Record) : ∀ t : Table, (keys t).Nodup →
    (keys (h.foldl update t)).Nodup := by
  induction h with
  | nil => intro t ht; exact ht
  | cons r h ih =>
    intro t ht
    rw [List.foldl_cons]
    apply ih
    unfold update
    cases ha : r.addr with
    | none => exact ht
    | some k =>
      simp only []
      rw [keys_upsert k r.ts (touch r) (touch_icao24 r) t]
      split
      · exact ht
      · rename_i hk
        rw [List.nodup_append]
        refine ⟨ht, by simp, ?_⟩
        intro a hmem b hb
        simp at hb; subst hb
        intro hab; subst hab; exact hk hmem

def cnt (oe : Option Entry) : Nat := (oe.map (·.count)).getD 0

theorem fold_count (k : Addr) (l : List Record) : ∀ oe : Option Entry,
    cnt (l.foldl (stepK k) oe) = cnt oe + l.length := by
  induction l with
  | nil => intro oe; simp
  | cons r l ih =>
    intro oe
    rw [List.foldl_cons, ih]
    have : cnt (stepK k oe r) = cnt oe + 1 := by
      cases oe <;> simp [cnt, stepK, touch_count, Entry.new]
    rw [this, List.length_cons]; omega

theorem fold_firstseen (k : Addr) (l : List Record) : ∀ e : Entry,
    ∃ e', l.foldl (stepK k) (some e) = some e' ∧ e'.firstseen = e.firstseen := by
  induction l with
  | nil => intro e; exact ⟨e, rfl, rfl⟩
  | cons r l ih =>
    intro e
    rw [List.foldl_cons]
    obtain ⟨e', h1, h2⟩ := ih (touch r e)
    exact ⟨e', h1, by rw [h2, touch_firstseen]⟩

theorem fold_prov (k : Addr) (l : List Record) : ∀ (oe : Option Entry) (seen : List Record),
    (∀ e f v, oe = some e → entryField e f = some v → ∃ r, r ∈ seen ∧ v ∈ carried r f) →
    ∀ e f v, l.foldl (stepK k) oe = some e → entryField e f = some v →
      ∃ r, r ∈ seen ++ l ∧ v ∈ carried r f := by
  induction l with
  | nil =>
    intro oe seen hs e f v he hv
    obtain ⟨r, hr, hc⟩ := hs e f v he hv
    exact ⟨r, by simpa using hr, hc⟩
  | cons r l ih =>
    intro oe seen hs e f v he hv
    rw [List.foldl_cons] at he
    have := ih (stepK k oe r) (seen ++ [r]) ?_ e f v he hv
    · obtain ⟨r', hr', hc⟩ := this
      exact ⟨r', by simpa [List.append_assoc] using hr', hc⟩
    · intro e1 f1 v1 he1 hv1
      simp only [stepK, Option.some.injEq] at he1
      subst he1
      rcases touch_field r (oe.getD (Entry.new r.ts k)) f1 with hsame | hnone | ⟨v', hv', hnew⟩
      · rw [hsame] at hv1
        cases oe with
        | none => simp [entryField_new] at hv1
        | some e0 =>
          obtain ⟨r', hr', hc⟩ := hs e0 f1 v1 rfl hv1
          exact ⟨r', by simp [hr'], hc⟩
      · rw [hnone] at hv1; cases hv1
      · rw [hnew] at hv1; cases hv1
        exact ⟨r, by simp, hv'⟩

end Rs1090.Proofs.Snapshot
