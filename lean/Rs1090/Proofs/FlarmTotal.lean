/-
C15 helper lemmas: every stage of `fromRecord` returns a value or an error — never `.panic`.
-/
import Rs1090.Proofs.FlarmBtea
import Rs1090.Proofs.FlarmKey
namespace Rs1090.Proofs.Flarm
open Rs1090 Rs1090.Model.Flarm Rs1090.Gen.Flarm

/-! ### checked i32 arithmetic -/

theorem subS32_ok {a b : Int} (h1 : -2147483648 ≤ a - b) (h2 : a - b < 2147483648) :
    subS 32 a b = .ok (a - b) := by
  simp [subS, inS, h1, h2]

theorem addS32_ok {a b : Int} (h1 : -2147483648 ≤ a + b) (h2 : a + b < 2147483648) :
    addS 32 a b = .ok (a + b) := by
  simp [addS, inS, h1, h2]

theorem mulS32_ok {a b : Int} (h1 : -2147483648 ≤ a * b) (h2 : a * b < 2147483648) :
    mulS 32 a b = .ok (a * b) := by
  simp [mulS, inS, h1, h2]

theorem asI8_range (x : Nat) : -128 ≤ asI8 x ∧ asI8 x ≤ 127 := by
  unfold asI8; split <;> omega

theorem wrapS32_of_small {x : Int} (h1 : -2147483648 ≤ x) (h2 : x < 2147483648) : wrapS32 x = x := by
  unfold wrapS32; omega

theorem wrapS32_range (x : Int) : -2147483648 ≤ wrapS32 x ∧ wrapS32 x < 2147483648 := by
  unfold wrapS32; omega

theorem andS32_range (x : Int) (m : Nat) (hm : m < 2147483648) : 0 ≤ andS32 x m ∧ andS32 x m ≤ m := by
  unfold andS32
  have h : ((x % 4294967296).toNat &&& m) ≤ m := Nat.and_le_right
  rw [wrapS32_of_small (by omega) (by omega)]
  omega

/-- product of a signed byte with a multiplier in 0..3 never overflows i32 -/
theorem mul_i8_ok (x : Nat) (m : Int) (h0 : 0 ≤ m) (h3 : m ≤ 3) :
    mulS 32 (asI8 x) m = .ok (asI8 x * m) := by
  have ⟨h1, h2⟩ := asI8_range x
  apply mulS32_ok
  · have : -128 * m ≤ asI8 x * m := Int.mul_le_mul_of_nonneg_right h1 h0
    omega
  · have : asI8 x * m ≤ 127 * m := Int.mul_le_mul_of_nonneg_right h2 h0
    omega

/-! ### fields -/

theorem decodeMult_ok (d2 : Nat) : ∃ m, decodeMult d2 = .ok m ∧ 0 ≤ m ∧ m ≤ 3 := by
  unfold decodeMult shiftAmt
  have h : (d2 >>> MULT_SHR) &&& MULT_AND ≤ 30 := Nat.and_le_right
  rw [if_pos (by omega), Outcome.bind_ok]
  exact ⟨_, rfl, andS32_range _ 3 (by decide)⟩

theorem decodeActype_ok (d0 : Nat) : ∃ a, decodeActype d0 = .ok a ∧ a < 16 := by
  unfold decodeActype
  have h : (d0 >>> ACTYPE_SHR) &&& ACTYPE_MASK ≤ 15 := Nat.and_le_right
  have hl : ACTYPE_NAMES.length = 16 := rfl
  simp only [hl]
  rw [if_pos (by omega)]
  exact ⟨_, rfl, by omega⟩


/-- the signed residue of `x` modulo `2^19` in `[-2^18, 2^18)` -/
def fold19 (x : Int) : Int := if x % 524288 ≥ 262144 then x % 524288 - 524288 else x % 524288
/-- the signed residue of `x` modulo `2^20` in `[-2^19, 2^19)` -/
def fold20 (x : Int) : Int := if x % 1048576 ≥ 524288 then x % 1048576 - 1048576 else x % 1048576

/-- `(s << 7) + 0x40` never overflows: the low seven bits of the shifted value are zero -/
theorem shl7_add64_ok (s : Int) :
    addS 32 (wrapS32 (s * 128)) 64 = .ok (wrapS32 (s * 128) + 64) := by
  apply addS32_ok <;> unfold wrapS32 <;> omega

theorem fold19_range (x : Int) : -262144 ≤ fold19 x ∧ fold19 x < 262144 := by
  unfold fold19; split <;> omega
theorem fold20_range (x : Int) : -524288 ≤ fold20 x ∧ fold20 x < 524288 := by
  unfold fold20; split <;> omega

/-- closed form of `decode_latitude` (before the float scaling), for every `i32` reference -/
theorem decodeLat_eq (d1 : Nat) (rl : Int) (h1 : -2147483648 ≤ rl) (h2 : rl < 2147483648) :
    decodeLat d1 rl
      = .ok (wrapS32 ((fold19 (((d1 % 524288 : Nat) : Int) - rl / 128) + rl / 128) * 128) + 64) := by
  have hmask : d1 &&& 524287 = d1 % 524288 := Nat.and_two_pow_sub_one_eq_mod d1 19
  show decodeCoord 524287 7 524288 262144 524288 7 64 d1 rl = _
  unfold decodeCoord
  simp only [hmask, Int.reducePow, Nat.reduceEqDiff, if_false, Int.cast_ofNat_Int]
  rw [wrapS32_of_small (by omega) (by omega), subS32_ok (by omega) (by omega), Outcome.bind_ok]
  by_cases hc : (((d1 % 524288 : Nat) : Int) - rl / 128) % 524288 ≥ 262144
  · rw [if_pos hc, subS32_ok (by omega) (by omega), Outcome.bind_ok, addS32_ok (by omega) (by omega),
      Outcome.bind_ok, shl7_add64_ok, fold19, if_pos hc]
  · rw [if_neg hc, Outcome.bind_ok, addS32_ok (by omega) (by omega),
      Outcome.bind_ok, shl7_add64_ok, fold19, if_neg hc]

/-- closed form of `decode_longitude` -/
theorem decodeLon_eq (d2 : Nat) (rl : Int) (h1 : -2147483648 ≤ rl) (h2 : rl < 2147483648) :
    decodeLon d2 rl
      = .ok (wrapS32 ((fold20 (((d2 % 1048576 : Nat) : Int) - rl / 128) + rl / 128) * 128) + 64) := by
  have hmask : d2 &&& 1048575 = d2 % 1048576 := Nat.and_two_pow_sub_one_eq_mod d2 20
  show decodeCoord 1048575 7 1048576 524288 1048576 7 64 d2 rl = _
  unfold decodeCoord
  simp only [hmask, Int.reducePow, Nat.reduceEqDiff, if_false, Int.cast_ofNat_Int]
  rw [wrapS32_of_small (by omega) (by omega), subS32_ok (by omega) (by omega), Outcome.bind_ok]
  by_cases hc : (((d2 % 1048576 : Nat) : Int) - rl / 128) % 1048576 ≥ 524288
  · rw [if_pos hc, subS32_ok (by omega) (by omega), Outcome.bind_ok, addS32_ok (by omega) (by omega),
      Outcome.bind_ok, shl7_add64_ok, fold20, if_pos hc]
  · rw [if_neg hc, Outcome.bind_ok, addS32_ok (by omega) (by omega),
      Outcome.bind_ok, shl7_add64_ok, fold20, if_neg hc]


/-- the four velocity samples: shift amounts 0, 8, 16, 24 are in range and no product overflows -/
theorem velLoop_ok (d : Nat) (m : Int) (h0 : 0 ≤ m) (h3 : m ≤ 3) :
    velLoop 8 255 d m 4 0
      = .ok [asI8 ((d >>> 0) &&& 255) * m, asI8 ((d >>> 8) &&& 255) * m,
             asI8 ((d >>> 16) &&& 255) * m, asI8 ((d >>> 24) &&& 255) * m] := by
  have e0 : mulS 32 ((0 : Nat) : Int) ((8 : Nat) : Int) = .ok 0 := by decide
  have e1 : mulS 32 ((0 + 1 : Nat) : Int) ((8 : Nat) : Int) = .ok 8 := by decide
  have e2 : mulS 32 ((0 + 1 + 1 : Nat) : Int) ((8 : Nat) : Int) = .ok 16 := by decide
  have e3 : mulS 32 ((0 + 1 + 1 + 1 : Nat) : Int) ((8 : Nat) : Int) = .ok 24 := by decide
  have s0 : shiftAmt 0 = .ok 0 := by decide
  have s1 : shiftAmt 8 = .ok 8 := by decide
  have s2 : shiftAmt 16 = .ok 16 := by decide
  have s3 : shiftAmt 24 = .ok 24 := by decide
  simp only [velLoop, e0, e1, e2, e3, s0, s1, s2, s3, Outcome.bind_ok, mul_i8_ok _ _ h0 h3]

theorem decodeVs_ok (d0 : Nat) (m : Int) (h0 : 0 ≤ m) (h3 : m ≤ 3) :
    decodeVs d0 m = .ok (asI8 (d0 &&& VS_MASK) * m) := mul_i8_ok _ _ h0 h3

theorem decodeTrack_ok (F : FloatOps) (n0 n1 n2 n3 e0 e1 e2 e3 : Int) (v : Rat) :
    decodeTrack F [n0, n1, n2, n3] [e0, e1, e2, e3] v
      = .ok (wrapTrack (trackOf F v (n0 : Rat) (e0 : Rat)) (trackOf F v (n1 : Rat) (e1 : Rat))) := by
  simp only [decodeTrack, idx_cons_zero, idx_cons_succ, Outcome.bind_ok]


theorem decodeActype_eq (d0 : Nat) : decodeActype d0 = .ok ((d0 >>> ACTYPE_SHR) &&& ACTYPE_MASK) := by
  unfold decodeActype
  have h : (d0 >>> ACTYPE_SHR) &&& ACTYPE_MASK ≤ 15 := Nat.and_le_right
  have hl : ACTYPE_NAMES.length = 16 := rfl
  simp only [hl]
  rw [if_pos (by omega)]

/-- the record computed from five decrypted words (closed form of `fields`) -/
def recordOf (F : FloatOps) (icao24 : Nat) (isIcao : Bool) (roundLat roundLon : Int)
    (w0 w1 w2 w3 w4 : BitVec 32) (m : Int) : Record :=
  let ns := [asI8 ((w3.toNat >>> 0) &&& 255) * m, asI8 ((w3.toNat >>> 8) &&& 255) * m,
             asI8 ((w3.toNat >>> 16) &&& 255) * m, asI8 ((w3.toNat >>> 24) &&& 255) * m]
  let ew := [asI8 ((w4.toNat >>> 0) &&& 255) * m, asI8 ((w4.toNat >>> 8) &&& 255) * m,
             asI8 ((w4.toNat >>> 16) &&& 255) * m, asI8 ((w4.toNat >>> 24) &&& 255) * m]
  let gs := groundspeed F ns ew
  { icao24, isIcao, decoded := [w0, w1, w2, w3, w4], mult := m,
    actype := (w0.toNat >>> ACTYPE_SHR) &&& ACTYPE_MASK,
    latE7 := wrapS32 ((fold19 (((w1.toNat % 524288 : Nat) : Int) - roundLat / 128) + roundLat / 128) * 128) + 64,
    lonE7 := wrapS32 ((fold20 (((w2.toNat % 1048576 : Nat) : Int) - roundLon / 128) + roundLon / 128) * 128) + 64,
    geoaltitude := (w1.toNat >>> ALT_SHR) &&& ALT_MASK,
    vs10 := asI8 (w0.toNat &&& VS_MASK) * m, ns, ew, groundspeed := gs,
    track := wrapTrack (trackOf F gs ((asI8 ((w3.toNat >>> 0) &&& 255) * m : Int) : Rat)
                                      ((asI8 ((w4.toNat >>> 0) &&& 255) * m : Int) : Rat))
                       (trackOf F gs ((asI8 ((w3.toNat >>> 8) &&& 255) * m : Int) : Rat)
                                      ((asI8 ((w4.toNat >>> 8) &&& 255) * m : Int) : Rat)),
    noTrack := ((w0.toNat >>> NOTRACK_SHR) &&& NOTRACK_MASK) == NOTRACK_VAL,
    stealth := ((w0.toNat >>> STEALTH_SHR) &&& STEALTH_MASK) == STEALTH_VAL,
    gps := (w0.toNat >>> GPS_SHR) &&& GPS_MASK }

theorem fields_eq (F : FloatOps) (icao24 : Nat) (isIcao : Bool) (roundLat roundLon : Int)
    (hlat1 : -2147483648 ≤ roundLat) (hlat2 : roundLat < 2147483648)
    (hlon1 : -2147483648 ≤ roundLon) (hlon2 : roundLon < 2147483648)
    (w0 w1 w2 w3 w4 : BitVec 32) (tail : List Nat)
    (m : Int) (hm : decodeMult w2.toNat = .ok m) (h0 : 0 ≤ m) (h3 : m ≤ 3) :
    fields F icao24 isIcao roundLat roundLon [w0, w1, w2, w3, w4] tail
      = if tail.length < 1 then .err .incomplete else
        if tail.length < 2 then .err .incomplete else
        .ok (recordOf F icao24 isIcao roundLat roundLon w0 w1 w2 w3 w4 m) := by
  have hns : velLoop VEL_STEP_NS VEL_MASK_NS w3.toNat m VEL_COUNT_NS 0 = _ := velLoop_ok w3.toNat m h0 h3
  have hew : velLoop VEL_STEP_EW VEL_MASK_EW w4.toNat m VEL_COUNT_EW 0 = _ := velLoop_ok w4.toNat m h0 h3
  simp only [fields, idx_cons_zero, idx_cons_succ, Outcome.bind_ok, hm, decodeActype_eq,
    decodeLat_eq _ _ hlat1 hlat2, decodeLon_eq _ _ hlon1 hlon2, decodeVs_ok _ _ h0 h3, hns, hew,
    decodeTrack_ok, recordOf]


/-! ### `btea` on any five words -/

theorem round_ok5 (key : List (BitVec 32)) (hk : key.length = 4) (s a b c d e y : BitVec 32) :
    ∃ a' b' c' d' e' y', round key 4 s [a, b, c, d, e] y = .ok ([a', b', c', d', e'], y') := by
  simp only [round, inner, mx_ok key hk, idx_cons_zero, idx_cons_succ, Outcome.bind_ok,
    List.set_cons_zero, List.set_cons_succ]
  exact ⟨_, _, _, _, _, _, rfl⟩

theorem rounds_ok5 (key : List (BitVec 32)) (hk : key.length = 4) (ss : List (BitVec 32)) :
    ∀ a b c d e y, ∃ a' b' c' d' e', rounds key 4 ss [a, b, c, d, e] y = .ok [a', b', c', d', e'] := by
  induction ss with
  | nil => intro a b c d e y; exact ⟨a, b, c, d, e, rfl⟩
  | cons s ss ih =>
    intro a b c d e y
    obtain ⟨a', b', c', d', e', y', h⟩ := round_ok5 key hk s a b c d e y
    simp only [rounds, h, Outcome.bind_ok]
    exact ih a' b' c' d' e' y'

/-- decryption of any five words with any four-word key returns five words: no index is out of
    range, `length - 1` does not underflow, the loop ends. -/
theorem btea_ok5 (key : List (BitVec 32)) (hk : key.length = 4) (a b c d e : BitVec 32) :
    ∃ a' b' c' d' e', btea [a, b, c, d, e] key = .ok [a', b', c', d', e'] := by
  have hfix : fixk key = key := by
    simp only [fixk, hk, Nat.sub_self, List.replicate_zero, List.append_nil]
  simp only [btea, List.length_cons, List.length_nil, Nat.reduceAdd, Nat.reducePow, Nat.reduceMod,
    subU_ok (show 1 ≤ 5 by decide), Outcome.bind_ok, Nat.reduceSub, idx_cons_zero, hfix, sumSeq_eq]
  exact rounds_ok5 key hk _ a b c d e a

/-! ### the byte layout -/

theorem readWords_cases (n : Nat) : ∀ bs : List Nat,
    readWords n bs = .err .incomplete ∨
      ∃ ws tail, readWords n bs = .ok (ws, tail) ∧ ws.length = n := by
  induction n with
  | zero => intro bs; exact Or.inr ⟨[], bs, rfl, rfl⟩
  | succ n ih =>
    intro bs
    match bs with
    | [] | [_] | [_, _] | [_, _, _] => exact Or.inl rfl
    | b0 :: b1 :: b2 :: b3 :: rest =>
      rcases ih rest with h | ⟨ws, tail, h, hl⟩
      · left; simp only [readWords, h, Outcome.bind_err]
      · right
        refine ⟨BitVec.ofNat 32 (le32 b0 b1 b2 b3) :: ws, tail, ?_, ?_⟩
        · simp only [readWords, h, Outcome.bind_ok]
        · simp only [List.length_cons, hl]

theorem length_five {α} (l : List α) (h : l.length = 5) : ∃ a b c d e, l = [a, b, c, d, e] := by
  match l, h with
  | [a, b, c, d, e], _ => exact ⟨a, b, c, d, e, rfl⟩

/-- everything after the header byte -/
theorem body_ne_panic (F : FloatOps) (ts icao24 : Nat) (isIcao : Bool) (roundLat roundLon : Int)
    (hlat1 : -2147483648 ≤ roundLat) (hlat2 : roundLat < 2147483648)
    (hlon1 : -2147483648 ≤ roundLon) (hlon2 : roundLon < 2147483648)
    (body : List Nat) (s : Site) :
    (Outcome.bind (decodeBtea ts icao24 body) fun dt =>
      fields F icao24 isIcao roundLat roundLon dt.1 dt.2) ≠ .panic s := by
  unfold decodeBtea
  rcases readWords_cases 5 body with h | ⟨ws, tail, h, hl⟩
  · simp only [h, Outcome.bind_err]; intro hh; cases hh
  · obtain ⟨a, b, c, d, e, rfl⟩ := length_five ws hl
    obtain ⟨a', b', c', d', e', hb⟩ := btea_ok5 _ (makeKey_length ts
      (((icao24 <<< ADDR_SHL) % 2 ^ 32) &&& ADDR_MASK)) a b c d e
    obtain ⟨m, hm, h0, h3⟩ := decodeMult_ok c'.toNat
    simp only [h, Outcome.bind_ok, hb,
      fields_eq F icao24 isIcao roundLat roundLon hlat1 hlat2 hlon1 hlon2 a' b' c' d' e' tail m hm h0 h3]
    split
    · intro hh; cases hh
    · split <;> (intro hh; cases hh)

/-- **No stage of `from_record` panics**, whatever the bytes, the time stamp and the two
    `i32` results of the float conversions. -/
theorem fromRecord_ne_panic (F : FloatOps) (ts : Nat) (fin : Bool) (roundLat roundLon : Int)
    (hlat1 : -2147483648 ≤ roundLat) (hlat2 : roundLat < 2147483648)
    (hlon1 : -2147483648 ≤ roundLon) (hlon2 : roundLon < 2147483648)
    (msg : List Nat) (s : Site) :
    fromRecord F ts fin roundLat roundLon msg ≠ .panic s := by
  unfold fromRecord
  cases fin with
  | false => simp
  | true =>
    simp only [Bool.not_true, Bool.false_eq_true, if_false]
    match msg with
    | [] | [_] | [_, _] | [_, _, _] => simp
    | a0 :: a1 :: a2 :: m :: body =>
      simp only
      unfold magicValue
      split
      · rw [Outcome.bind_ok]
        exact body_ne_panic F ts _ _ roundLat roundLon hlat1 hlat2 hlon1 hlon2 body s
      · split
        · rw [Outcome.bind_ok]
          exact body_ne_panic F ts _ _ roundLat roundLon hlat1 hlat2 hlon1 hlon2 body s
        · simp [Outcome.bind_err]


/-! ### shape and bounds of every record -/

theorem readWords_length (n : Nat) : ∀ (bs : List Nat) ws tail,
    readWords n bs = .ok (ws, tail) → bs.length = 4 * n + tail.length := by
  induction n with
  | zero => intro bs ws tail h; simp only [readWords, Outcome.ok.injEq, Prod.mk.injEq] at h; rw [h.2]; omega
  | succ n ih =>
    intro bs ws tail h
    match bs with
    | [] | [_] | [_, _] | [_, _, _] => simp [readWords] at h
    | b0 :: b1 :: b2 :: b3 :: rest =>
      rcases readWords_cases n rest with h' | ⟨ws', tail', h', _⟩
      · simp [readWords, h', Outcome.bind_err] at h
      · simp only [readWords, h', Outcome.bind_ok, Outcome.ok.injEq, Prod.mk.injEq] at h
        have := ih rest ws' tail' h'
        simp only [List.length_cons]
        rw [← h.2]; omega

theorem body_ok_shape (F : FloatOps) (ts icao24 : Nat) (isIcao : Bool) (roundLat roundLon : Int)
    (hlat1 : -2147483648 ≤ roundLat) (hlat2 : roundLat < 2147483648)
    (hlon1 : -2147483648 ≤ roundLon) (hlon2 : roundLon < 2147483648)
    (body : List Nat) (r : Record)
    (h : (Outcome.bind (decodeBtea ts icao24 body) fun dt =>
      fields F icao24 isIcao roundLat roundLon dt.1 dt.2) = .ok r) :
    22 ≤ body.length ∧ ∃ w0 w1 w2 w3 w4 m, 0 ≤ m ∧ m ≤ 3 ∧
      r = recordOf F icao24 isIcao roundLat roundLon w0 w1 w2 w3 w4 m := by
  unfold decodeBtea at h
  rcases readWords_cases 5 body with hr | ⟨ws, tail, hr, hl⟩
  · simp [hr, Outcome.bind_err] at h
  · have hlen := readWords_length 5 body ws tail hr
    obtain ⟨a, b, c, d, e, rfl⟩ := length_five ws hl
    obtain ⟨a', b', c', d', e', hb⟩ := btea_ok5 _ (makeKey_length ts
      (((icao24 <<< ADDR_SHL) % 2 ^ 32) &&& ADDR_MASK)) a b c d e
    obtain ⟨m, hm, h0, h3⟩ := decodeMult_ok c'.toNat
    simp only [hr, Outcome.bind_ok, hb,
      fields_eq F icao24 isIcao roundLat roundLon hlat1 hlat2 hlon1 hlon2 a' b' c' d' e' tail m hm h0 h3] at h
    split at h
    · cases h
    · split at h
      · cases h
      · simp only [Outcome.ok.injEq] at h
        exact ⟨by omega, a', b', c', d', e', m, h0, h3, h.symm⟩

theorem fromRecord_ok_shape (F : FloatOps) (ts : Nat) (fin : Bool) (roundLat roundLon : Int)
    (hlat1 : -2147483648 ≤ roundLat) (hlat2 : roundLat < 2147483648)
    (hlon1 : -2147483648 ≤ roundLon) (hlon2 : roundLon < 2147483648)
    (msg : List Nat) (r : Record) (h : fromRecord F ts fin roundLat roundLon msg = .ok r) :
    26 ≤ msg.length ∧ fin = true ∧
    ∃ icao24 isIcao w0 w1 w2 w3 w4 m, 0 ≤ m ∧ m ≤ 3 ∧
      r = recordOf F icao24 isIcao roundLat roundLon w0 w1 w2 w3 w4 m := by
  unfold fromRecord at h
  cases fin with
  | false => simp at h
  | true =>
    simp only [Bool.not_true, Bool.false_eq_true, if_false] at h
    match msg with
    | [] | [_] | [_, _] | [_, _, _] => simp at h
    | a0 :: a1 :: a2 :: m :: body =>
      simp only at h
      unfold magicValue at h
      split at h
      · rw [Outcome.bind_ok] at h
        obtain ⟨hl, w0, w1, w2, w3, w4, mm, h0, h3, hr⟩ :=
          body_ok_shape F ts _ _ roundLat roundLon hlat1 hlat2 hlon1 hlon2 body r h
        exact ⟨by simp only [List.length_cons]; omega, rfl, _, _, w0, w1, w2, w3, w4, mm, h0, h3, hr⟩
      · split at h
        · rw [Outcome.bind_ok] at h
          obtain ⟨hl, w0, w1, w2, w3, w4, mm, h0, h3, hr⟩ :=
            body_ok_shape F ts _ _ roundLat roundLon hlat1 hlat2 hlon1 hlon2 body r h
          exact ⟨by simp only [List.length_cons]; omega, rfl, _, _, w0, w1, w2, w3, w4, mm, h0, h3, hr⟩
        · simp [Outcome.bind_err] at h

theorem mul_i8_range (x : Nat) (m : Int) (h0 : 0 ≤ m) (h3 : m ≤ 3) :
    -384 ≤ asI8 x * m ∧ asI8 x * m ≤ 381 := by
  have ⟨h1, h2⟩ := asI8_range x
  have a : -128 * m ≤ asI8 x * m := Int.mul_le_mul_of_nonneg_right h1 h0
  have b : asI8 x * m ≤ 127 * m := Int.mul_le_mul_of_nonneg_right h2 h0
  omega

theorem shl7_add64_range (s : Int) :
    -2147483648 ≤ wrapS32 (s * 128) + 64 ∧ wrapS32 (s * 128) + 64 < 2147483648 := by
  unfold wrapS32; omega

theorem fromRecord_ok_bounds (F : FloatOps) (ts : Nat) (fin : Bool) (roundLat roundLon : Int)
    (hlat1 : -2147483648 ≤ roundLat) (hlat2 : roundLat < 2147483648)
    (hlon1 : -2147483648 ≤ roundLon) (hlon2 : roundLon < 2147483648)
    (msg : List Nat) (r : Record) (h : fromRecord F ts fin roundLat roundLon msg = .ok r) :
    (-2147483648 ≤ r.latE7 ∧ r.latE7 < 2147483648) ∧ (-2147483648 ≤ r.lonE7 ∧ r.lonE7 < 2147483648) ∧
    r.geoaltitude < 8192 ∧ r.gps < 4096 ∧ r.actype < 16 ∧
    0 ≤ r.mult ∧ r.mult ≤ 3 ∧ -384 ≤ r.vs10 ∧ r.vs10 ≤ 381 ∧
    r.ns.length = 4 ∧ r.ew.length = 4 ∧ (∀ x ∈ r.ns ++ r.ew, -384 ≤ x ∧ x ≤ 381) := by
  obtain ⟨_, _, icao24, isIcao, w0, w1, w2, w3, w4, m, h0, h3, rfl⟩ :=
    fromRecord_ok_shape F ts fin roundLat roundLon hlat1 hlat2 hlon1 hlon2 msg r h
  have halt : (w1.toNat >>> ALT_SHR) &&& ALT_MASK ≤ 8191 := Nat.and_le_right
  have hgps : (w0.toNat >>> GPS_SHR) &&& GPS_MASK ≤ 4095 := Nat.and_le_right
  have hact : (w0.toNat >>> ACTYPE_SHR) &&& ACTYPE_MASK ≤ 15 := Nat.and_le_right
  have hvs := mul_i8_range (w0.toNat &&& VS_MASK) m h0 h3
  refine ⟨shl7_add64_range _, shl7_add64_range _, by simp only [recordOf]; omega,
    by simp only [recordOf]; omega, by simp only [recordOf]; omega, h0, h3, hvs.1, hvs.2, rfl, rfl, ?_⟩
  intro x hx
  simp only [recordOf, List.cons_append, List.nil_append, List.mem_cons, List.not_mem_nil, or_false] at hx
  rcases hx with rfl | rfl | rfl | rfl | rfl | rfl | rfl | rfl <;> exact mul_i8_range _ m h0 h3

end Rs1090.Proofs.Flarm
