import Mathlib.Data.Rat.Floor
import Mathlib.Tactic.Linarith
import Mathlib.Tactic.NormNum
import Rs1090.Model.Cpr
import Rs1090.Spec.Cpr
/-!
Lemmas about first-match ladders (`Model.Cpr.nlGo`): range, monotonicity, and agreement of the
model's `nl` with the standard's `Spec.Cpr.NL` once the generated ladder equals the standard's table.
-/
namespace Rs1090.Proofs.Cpr
open Rs1090 Rs1090.Model.Cpr

/-! ### generic ladders -/

/-- all values of a ladder (and its default) lie in `[lo, hi]` -/
def ladderIn (lo hi dflt : Nat) (l : List (Nat × Bool × Nat)) : Bool :=
  decide (lo ≤ dflt) && decide (dflt ≤ hi) && l.all fun r => decide (lo ≤ r.2.2) && decide (r.2.2 ≤ hi)

theorem nlGo_range (lo hi dflt : Nat) (a : ℚ) :
    ∀ l, ladderIn lo hi dflt l = true → lo ≤ nlGo a dflt l ∧ nlGo a dflt l ≤ hi := by
  intro l
  induction l with
  | nil =>
    intro h
    simp [ladderIn] at h
    simp [nlGo, h]
  | cons row rest ih =>
    intro h
    obtain ⟨t, s, r⟩ := row
    simp only [ladderIn, List.all_cons, Bool.and_eq_true, decide_eq_true_eq] at h
    unfold nlGo
    split
    · exact ⟨h.2.1.1, h.2.1.2⟩
    · apply ih
      simp only [ladderIn, Bool.and_eq_true, decide_eq_true_eq]
      exact ⟨h.1, h.2.2⟩

/-- the values of a ladder never increase along it, and the default is the smallest -/
def ladderDesc (dflt : Nat) : List (Nat × Bool × Nat) → Bool
  | [] => true
  | (_, _, r) :: rest => decide (dflt ≤ r) && (rest.all fun q => decide (q.2.2 ≤ r)) && ladderDesc dflt rest

theorem rowHit_down {a b : ℚ} (hab : a ≤ b) (t : Nat) (s : Bool) (h : rowHit b t s = true) :
    rowHit a t s = true := by
  unfold rowHit at *
  cases s <;> simp only [Bool.false_eq_true, if_false, if_true, decide_eq_true_eq] at * <;> linarith

theorem nlGo_le_of_all (a : ℚ) (dflt r : Nat) (hd : dflt ≤ r) :
    ∀ l : List (Nat × Bool × Nat), (l.all fun q => decide (q.2.2 ≤ r)) = true → nlGo a dflt l ≤ r := by
  intro l
  induction l with
  | nil => intro _; simpa [nlGo] using hd
  | cons row rest ih =>
    intro h
    obtain ⟨t, s, r'⟩ := row
    simp only [List.all_cons, Bool.and_eq_true, decide_eq_true_eq] at h
    unfold nlGo
    split
    · exact h.1
    · exact ih h.2

/-- **monotonicity**: a ladder with non-increasing values is antitone in its argument -/
theorem nlGo_antitone (dflt : Nat) {a b : ℚ} (hab : a ≤ b) :
    ∀ l, ladderDesc dflt l = true → nlGo b dflt l ≤ nlGo a dflt l := by
  intro l
  induction l with
  | nil => intro _; simp [nlGo]
  | cons row rest ih =>
    intro h
    obtain ⟨t, s, r⟩ := row
    simp only [ladderDesc, Bool.and_eq_true, decide_eq_true_eq] at h
    by_cases hb : rowHit b t s = true
    · have ha := rowHit_down hab t s hb
      simp [nlGo, ha, hb]
    · by_cases ha : rowHit a t s = true
      · simp only [nlGo, ha, hb, if_true]
        exact nlGo_le_of_all b dflt r h.1.1 rest h.1.2
      · simp only [nlGo, ha, hb]
        exact ih h.2

/-! ### the standard's table as a ladder -/

theorem absR_eq_abs (x : ℚ) : Spec.Cpr.absR x = |x| := by
  unfold Spec.Cpr.absR
  split
  · rw [abs_of_neg]; assumption
  · rw [abs_of_nonneg]; linarith

theorem fabs_eq_abs (x : ℚ) : fabs x = |x| := by
  unfold fabs
  split
  · rw [abs_of_neg]; assumption
  · rw [abs_of_nonneg]; linarith

theorem thr_eq (t : Nat) : thr t = (t : ℚ) / Spec.Cpr.nlUnit := by
  unfold thr Spec.Cpr.nlUnit Gen.Cpr.nlScale
  norm_num

/-- shape of the standard's table that the comparison uses: every transition latitude is at most 87°,
    and the row of NL = 2 is the one at exactly 87° -/
def tableOk (l : List (Nat × Nat)) : Bool :=
  l.all fun row => decide (row.1 ≤ 8700000000) && (row.2 != 2 || row.1 == 8700000000)

def asLadder (l : List (Nat × Nat)) : List (Nat × Bool × Nat) :=
  l.map fun row => (row.1, row.2 != 2, row.2)

def findNL (a : ℚ) (l : List (Nat × Nat)) : Nat :=
  match l.find? (fun row => decide (a < (row.1 : ℚ) / Spec.Cpr.nlUnit)) with
  | some row => row.2
  | none => 1

theorem thr87 : thr 8700000000 = 87 := by
  unfold thr Gen.Cpr.nlScale; norm_num

/-- off 87°, the ladder (with its inclusive 87° row) and the table (strict everywhere) agree -/
theorem nlGo_asLadder_ne87 (a : ℚ) (ha : a ≠ 87) :
    ∀ l, tableOk l = true → nlGo a 1 (asLadder l) = findNL a l := by
  intro l
  induction l with
  | nil => intro _; simp [asLadder, nlGo, findNL]
  | cons row rest ih =>
    intro h
    obtain ⟨t, n⟩ := row
    simp only [tableOk, List.all_cons, Bool.and_eq_true, decide_eq_true_eq, Bool.or_eq_true,
      bne_iff_ne, ne_eq, beq_iff_eq] at h
    have ih' := ih (by simpa [tableOk] using h.2)
    have key : rowHit a t (n != 2) = decide (a < (t : ℚ) / Spec.Cpr.nlUnit) := by
      unfold rowHit
      rw [← thr_eq]
      by_cases hn : n = 2
      · have ht : t = 8700000000 := by
          rcases h.1.2 with h' | h'
          · exact absurd hn h'
          · exact h'
        subst hn; subst ht
        simp only [bne_self_eq_false, Bool.false_eq_true, if_false, thr87]
        rw [decide_eq_decide]
        constructor
        · intro hle; exact lt_of_le_of_ne hle ha
        · intro hlt; exact le_of_lt hlt
      · simp [hn]
    simp only [asLadder, List.map_cons, nlGo, key]
    simp only [findNL, List.find?_cons]
    by_cases hh : a < (t : ℚ) / Spec.Cpr.nlUnit
    · simp [hh]
    · simp only [hh, decide_false, Bool.false_eq_true, if_false]
      exact ih'

theorem findNL_above (a : ℚ) (ha : 87 < a) :
    ∀ l, tableOk l = true → findNL a l = 1 := by
  intro l
  induction l with
  | nil => intro _; simp [findNL]
  | cons row rest ih =>
    intro h
    obtain ⟨t, n⟩ := row
    simp only [tableOk, List.all_cons, Bool.and_eq_true, decide_eq_true_eq] at h
    have ih' := ih (by simpa [tableOk] using h.2)
    have : ¬ a < (t : ℚ) / Spec.Cpr.nlUnit := by
      have ht : (t : ℚ) ≤ 8700000000 := by exact_mod_cast h.1.1
      unfold Spec.Cpr.nlUnit
      rw [not_lt, div_le_iff₀ (by norm_num)]
      linarith
    simp only [findNL, List.find?_cons, this, decide_false] at ih' ⊢
    exact ih'

/-- at exactly 87° the ladder's inclusive row answers 2 -/
theorem nlGo_asLadder_87 :
    ∀ l : List (Nat × Nat), tableOk l = true → (l.any fun row => row.2 == 2) = true →
      nlGo 87 1 (asLadder l) = 2 := by
  intro l
  induction l with
  | nil => intro _ h; simp at h
  | cons row rest ih =>
    intro h hex
    obtain ⟨t, n⟩ := row
    simp only [tableOk, List.all_cons, Bool.and_eq_true, decide_eq_true_eq, Bool.or_eq_true,
      bne_iff_ne, ne_eq, beq_iff_eq] at h
    simp only [List.any_cons, Bool.or_eq_true, beq_iff_eq] at hex
    simp only [asLadder, List.map_cons, nlGo]
    by_cases hn : n = 2
    · have ht : t = 8700000000 := by
        rcases h.1.2 with h' | h'
        · exact absurd hn h'
        · exact h'
      subst hn; subst ht
      simp [rowHit, thr87]
    · have hmiss : rowHit 87 t (n != 2) = false := by
        have ht : (t : ℚ) ≤ 8700000000 := by exact_mod_cast h.1.1
        have : thr t ≤ 87 := by
          unfold thr Gen.Cpr.nlScale
          rw [div_le_iff₀ (by norm_num)]
          norm_num
          linarith
        simp only [rowHit, bne_iff_ne, ne_eq, hn, not_false_eq_true, if_true,
          decide_eq_false_iff_not, not_lt]
        exact this
      simp only [hmiss, Bool.false_eq_true, if_false]
      apply ih (by simpa [tableOk] using h.2)
      rcases hex with h' | h'
      · exact absurd h' hn
      · exact h'

/-- **the model's `nl` is the standard's NL**, provided the generated ladder is the standard's table -/
theorem nl_eq_NL_of_table (htab : Gen.Cpr.nlLadder = Spec.Cpr.nlLadder) (hd : Gen.Cpr.nlDefault = 1)
    (x : ℚ) : nl x = Spec.Cpr.NL x := by
  have hok : tableOk Spec.Cpr.nlTable = true := by decide
  have hex : (Spec.Cpr.nlTable.any fun row => row.2 == 2) = true := by decide
  unfold nl Spec.Cpr.NL
  rw [htab, hd]
  show nlGo (Spec.Cpr.absR x) 1 (asLadder Spec.Cpr.nlTable) = _
  generalize Spec.Cpr.absR x = a
  by_cases h87 : a = 87
  · subst h87
    simp only [if_true]
    exact nlGo_asLadder_87 _ hok hex
  · rw [nlGo_asLadder_ne87 a h87 _ hok]
    simp only [h87, if_false]
    by_cases hgt : a > 87
    · simp only [hgt, if_true]
      exact findNL_above a hgt _ hok
    · simp only [hgt, if_false]
      rfl

/-- the ladder regenerated from `fn nl` is the standard's table (kernel evaluation of both lists) -/
theorem nl_table_eq : Gen.Cpr.nlLadder = Spec.Cpr.nlLadder := by decide

theorem nl_default_eq : Gen.Cpr.nlDefault = 1 := by decide

/-- the model's `nl` is the standard's NL, at every rational latitude -/
theorem nl_eq_NL (x : ℚ) : nl x = Spec.Cpr.NL x := nl_eq_NL_of_table nl_table_eq nl_default_eq x

end Rs1090.Proofs.Cpr
