/-
C03 helper lemmas, part 2: total-correctness calculus for the reader monad (`wpOk m Q s`: running
`m` from `s` *succeeds* and the result satisfies `Q`), the frame predicate tying a byte list to a
Spec field list, and the outer layers of `Message.tryFrom` (length, checksum gate, `DF` dispatch).
-/
import Rs1090.Proofs.C03Bits
import Rs1090.Proofs.Decode.Wp
import Rs1090.Model.Decode.Message
namespace Rs1090.Proofs.C03
open Rs1090 Rs1090.Model Rs1090.Spec.Encode
open Rs1090.Spec.Crc (pack encodeAP apField bitsN)

/-! ### `wpOk` -/

def wpOk {α} (m : R α) (Q : α → Rd → Prop) (s : Rd) : Prop :=
  match m s with
  | .ok (a, s') => Q a s'
  | _ => False

theorem wpOk_elim {α} {m : R α} {Q : α → Rd → Prop} {s : Rd} (h : wpOk m Q s) :
    ∃ a s', m s = .ok (a, s') ∧ Q a s' := by
  unfold wpOk at h
  cases hm : m s with
  | ok v => cases v with | mk a s' => rw [hm] at h; exact ⟨a, s', rfl, h⟩
  | err e => rw [hm] at h; exact h.elim
  | panic x => rw [hm] at h; exact h.elim

theorem wpOk_intro {α} {m : R α} {Q : α → Rd → Prop} {s : Rd} (a : α) (s' : Rd)
    (hm : m s = .ok (a, s')) (hq : Q a s') : wpOk m Q s := by
  unfold wpOk; rw [hm]; exact hq

theorem wpOk_mono {α} {m : R α} {Q Q' : α → Rd → Prop} {s : Rd}
    (h : wpOk m Q s) (hq : ∀ a s', Q a s' → Q' a s') : wpOk m Q' s := by
  obtain ⟨a, s', hm, hQ⟩ := wpOk_elim h
  exact wpOk_intro a s' hm (hq _ _ hQ)

theorem wpOk_pure {α} (a : α) (Q : α → Rd → Prop) (s : Rd) : wpOk (pure a : R α) Q s ↔ Q a s := by
  show wpOk (R.pure a) Q s ↔ _
  simp [wpOk, R.pure]

theorem wpOk_bind {α β} (m : R α) (f : α → R β) (Q : β → Rd → Prop) (s : Rd) :
    wpOk (m >>= f) Q s ↔ wpOk m (fun a s' => wpOk (f a) Q s') s := by
  show wpOk (R.bind m f) Q s ↔ _
  unfold wpOk R.bind
  cases m s with
  | ok v => cases v; simp
  | err e => simp
  | panic x => simp

theorem wpOk_fail {α} (e : ErrKind) (Q : α → Rd → Prop) (s : Rd) : wpOk (R.fail e : R α) Q s ↔ False := by
  simp [wpOk, R.fail]

theorem wpOk_lift {α} (o : Outcome α) (Q : α → Rd → Prop) (s : Rd) (a : α) (ho : o = .ok a) :
    wpOk (R.lift o) Q s ↔ Q a s := by
  subst ho; simp [wpOk, R.lift]

theorem wpOk_ite {α} (c : Prop) [Decidable c] (a b : R α) (Q : α → Rd → Prop) (s : Rd) :
    wpOk (if c then a else b) Q s ↔ (c → wpOk a Q s) ∧ (¬ c → wpOk b Q s) := by
  by_cases h : c <;> simp [h]

/-- explicit reader state -/
abbrev st (F : List Nat) (p last nread : Nat) : Rd := { bytes := F, p := p, last := last, nread := nread }

theorem wpOk_bits (n : Nat) (hn : n ≠ 0) (Q : Nat → Rd → Prop) (F : List Nat) (p l r : Nat) :
    wpOk (bits n) Q (st F p l r) ↔
      ceilDiv8 (p + n) ≤ F.length ∧ Q (bitsBE F p n) (st F (p + n) (l + n) (r + n)) := by
  unfold wpOk bits
  have : (n == 0) = false := by simp [hn]
  simp only [this]
  by_cases hl : ceilDiv8 (p + n) ≤ F.length <;> simp [hl]

theorem wpOk_enumId (n : Nat) (hn : n ≠ 0) (Q : Nat → Rd → Prop) (F : List Nat) (p l r : Nat) :
    wpOk (enumId n) Q (st F p l r) ↔
      ceilDiv8 (p + n) ≤ F.length ∧ Q (bitsBE F p n) (st F (p + n) n (r + n)) := by
  have : wpOk (enumId n) Q (st F p l r) ↔ wpOk (bits n) Q (st F p 0 r) := by
    unfold wpOk enumId; rfl
  rw [this, wpOk_bits n hn]
  simp

theorem wpOk_enumId0 (Q : Nat → Rd → Prop) (F : List Nat) (p l r : Nat) :
    wpOk (enumId 0) Q (st F p l r) ↔ Q 0 (st F p 0 r) := by
  unfold wpOk enumId bits; simp

theorem wpOk_flag (Q : Bool → Rd → Prop) (F : List Nat) (p l r : Nat) :
    wpOk flag Q (st F p l r) ↔
      ceilDiv8 (p + 1) ≤ F.length ∧ Q (bitsBE F p 1 == 1) (st F (p + 1) (l + 1) (r + 1)) := by
  unfold flag
  rw [wpOk_bind, wpOk_bits 1 (by decide)]
  simp only [wpOk_pure]

theorem wpOk_pad (n : Nat) (hn : n ≠ 0) (Q : Unit → Rd → Prop) (F : List Nat) (p l r : Nat) :
    wpOk (pad n) Q (st F p l r) ↔
      ceilDiv8 (p + n) ≤ F.length ∧ Q () (st F (p + n) (l + n) (r + n)) := by
  unfold pad
  rw [wpOk_bind, wpOk_bits n hn]
  simp only [wpOk_pure]

theorem wpOk_bitsLE (n : Nat) (hn : n ≠ 0) (Q : Nat → Rd → Prop) (F : List Nat) (p l r : Nat) :
    wpOk (bitsLE n) Q (st F p l r) ↔
      ceilDiv8 (p + n) ≤ F.length ∧ Q (leValue F p n) (st F (p + n) (l + n) (r + n)) := by
  unfold wpOk bitsLE
  have : (n == 0) = false := by simp [hn]
  simp only [this]
  by_cases hl : ceilDiv8 (p + n) ≤ F.length <;> simp [hl]

theorem wpOk_seekLast (Q : Unit → Rd → Prop) (F : List Nat) (p l r : Nat) :
    wpOk seekLast Q (st F p l r) ↔
      ceilDiv8 l ≤ ceilDiv8 p ∧ Q () (st F (8 * (ceilDiv8 p - ceilDiv8 l)) l (r - l)) := by
  unfold wpOk seekLast
  by_cases h : ceilDiv8 l ≤ ceilDiv8 p <;> simp [h]

/-! ### a byte list that carries a Spec field list -/

structure Frame (F : List Nat) (fs : List Field) : Prop where
  len : 8 * F.length = width fs + 24
  lt : ∀ b ∈ F, b < 256
  field : ∀ off w v, fieldAt fs off w = some v → bitsBE F off w = v

theorem apField_length' (data : List Nat) (a : Nat) : (apField data a).length = 3 := by
  have := pack_length' (bitsN 24 ((Spec.Crc.parity (Spec.Crc.bits data)).toNat ^^^ a))
    (by rw [Proofs.Crc.bitsN_length])
  rw [Proofs.Crc.bitsN_length] at this
  unfold apField; omega

/-- the Spec's frame builder yields a frame carrying its fields -/
theorem frame_encodeAP (fs : List Field) (addr : Nat) (h8 : width fs % 8 = 0) (hf : fits fs = true) :
    Frame (encodeAP (dataBytes fs) addr) fs := by
  refine ⟨?_, ?_, ?_⟩
  · have := pack_length' (layout fs) (by rw [layout_length]; exact h8)
    rw [layout_length] at this
    simp only [encodeAP, dataBytes, List.length_append, apField_length']
    omega
  · intro b hb
    simp only [encodeAP, dataBytes, List.mem_append] at hb
    rcases hb with hb | hb
    · exact pack_lt _ b hb
    · exact pack_lt _ b hb
  · intro off w v h
    exact bitsBE_layout fs _ off w v h8 hf h

end Rs1090.Proofs.C03
