import Rs1090.Proofs.CprState
import Rs1090.Proofs.CprStatePair
/-!
"Never a wrong position", one step of `decode_position` at a time: under the safe-box hypothesis of the
branch that produces it, an attached position IS the lattice point `(Rlat, Rlon + 360k)` that the DO-260B
encoder expects a receiver to recover from the report it is attached to.

Ingredients: the characterisation of the step (`Proofs/CprState.lean`), the two-point global theorem
(`Proofs/CprStatePair.lean`), C05's exact local decoding (`local_exact_air`, `local_exact_surf`).
-/
set_option linter.unusedVariables false
namespace Rs1090.Proofs.CprState
open Rs1090 Rs1090.Model.Cpr Rs1090.Model.CprState Rs1090.Spec.Cpr Rs1090.Proofs.Cpr

/-- `p` is the lattice point of the format-`i` report of `(lat, lon)` (`nb = 17` airborne, `19` surface),
    its longitude on some turn -/
def IsLattice (nb i : ℕ) (lat lon : ℚ) (p : Pos) : Prop :=
  p.lat = rlat nb i lat ∧ ∃ k : ℤ, p.lon = rlon nb i (rlat nb i lat) lon + 360 * k

/-- **pair box**: the stored report `o` of the other parity was encoded from a position `(lat', lon')` on the
    globe (longitude taken on the turn of `lon`) within 12/295 ° of latitude of `(lat, lon)` and, when the two
    recovered latitudes lie in the same band `NL`, within `144/(NL(NL−1))` ° of longitude -/
def PairBox (i : ℕ) (o : Msg) (lat lon : ℚ) : Prop :=
  ∃ lat' lon' : ℚ, (-90 ≤ lat' ∧ lat' ≤ 90) ∧ o = report 17 (1 - i) lat' lon' ∧ |lat' - lat| ≤ 12 / 295 ∧
    (NL (rlat 17 (1 - i) lat') = NL (rlat 17 i lat) →
      (NL (rlat 17 i lat) : ℚ) * ((NL (rlat 17 i lat) : ℚ) - 1) * |lon' - lon| ≤ 144)

/-- **reference box**: `ref` is strictly within half a zone (`z = 1` airborne, `z = 4` surface zones) of the
    report's lattice point in both coordinates, the longitude on a suitable turn -/
def NearBox (nb i : ℕ) (z : ℚ) (lat lon : ℚ) (ref : Pos) : Prop :=
  |rlat nb i lat - ref.lat| < dlat i / z / 2 ∧
  ∃ k : ℤ, |rlon nb i (rlat nb i lat) lon + 360 * k - ref.lon| < dlon i (rlat nb i lat) / z / 2

theorem flat_ok {x : Outcome (Option Pos)} {r : Option Pos} (h : x = .ok r) : flat x = r := by
  rw [h]; rfl

/-- global branch: a pair inside the pair box decodes to the lattice point of the current report, or is
    refused -/
theorem pair_sound (i : ℕ) (hi : i ≤ 1) (lat lon : ℚ) (hlat : -90 ≤ lat ∧ lat ≤ 90) (o : Msg)
    (hbox : PairBox i o lat lon) (p : Pos)
    (h : flat (airbornePosition o (report 17 i lat lon)) = some p) : IsLattice 17 i lat lon p := by
  obtain ⟨lat', lon', hlat', ho, hdl, hdn⟩ := hbox
  subst ho
  have hi' : i = 0 ∨ i = 1 := by omega
  rcases hi' with h0 | h1
  · subst h0
    -- current report even, stored report odd
    simp only [Nat.sub_zero] at hdn h hdl ⊢
    by_cases hnl : NL (rlat 17 0 lat) = NL (rlat 17 1 lat')
    · have hb := hdn hnl.symm
      have g := (global_correct2 lat lon lat' lon' hlat hlat' (by rw [abs_sub_comm]; exact hdl) hnl
        (by rw [abs_sub_comm]; exact hb)).2
      rw [flat_ok g] at h
      cases h
      obtain ⟨_, _, k, hk⟩ := norm180_spec (rlon 17 0 (rlat 17 0 lat) lon)
      exact ⟨rfl, k, hk⟩
    · have g := (global_refused2 lat lon lat' lon' hlat hlat' (by rw [abs_sub_comm]; exact hdl) hnl).2
      rw [flat_ok g] at h
      cases h
  · subst h1
    simp only [Nat.sub_self] at hdn h hdl ⊢
    by_cases hnl : NL (rlat 17 0 lat') = NL (rlat 17 1 lat)
    · have hb := hdn hnl
      rw [← hnl] at hb
      have g := (global_correct2 lat' lon' lat lon hlat' hlat hdl hnl hb).1
      rw [flat_ok g] at h
      cases h
      obtain ⟨_, _, k, hk⟩ := norm180_spec (rlon 17 1 (rlat 17 1 lat) lon)
      exact ⟨rfl, k, hk⟩
    · have g := (global_refused2 lat' lon' lat lon hlat' hlat hdl hnl).1
      rw [flat_ok g] at h
      cases h

/-- local branch, airborne -/
theorem ref_sound_air (i : ℕ) (hi : i ≤ 1) (lat lon : ℚ) (hlat : -90 ≤ lat ∧ lat ≤ 90) (ref : Pos)
    (hbox : NearBox 17 i 1 lat lon ref) (p : Pos)
    (h : flat (airborneWithRef (report 17 i lat lon) ref.lat ref.lon) = some p) : IsLattice 17 i lat lon p := by
  obtain ⟨h1, k, h2⟩ := hbox
  simp only [div_one] at h1 h2
  have g := local_exact_air i hi lat lon ref.lat ref.lon k hlat h1 h2
  rw [flat_ok g] at h
  cases h
  exact ⟨rfl, k, rfl⟩

/-- local branch, surface -/
theorem ref_sound_surf (i : ℕ) (hi : i ≤ 1) (lat lon : ℚ) (hlat : -90 ≤ lat ∧ lat ≤ 90) (ref : Pos)
    (hbox : NearBox 19 i 4 lat lon ref) (p : Pos)
    (h : flat (surfaceWithRef (report 19 i lat lon) ref.lat ref.lon) = some p) : IsLattice 19 i lat lon p := by
  obtain ⟨h1, k, h2⟩ := hbox
  have g := local_exact_surf i hi lat lon ref.lat ref.lon k hlat h1 h2
  rw [flat_ok g] at h
  cases h
  exact ⟨rfl, k, rfl⟩

theorem report_parity (nb i : ℕ) (lat lon : ℚ) :
    (report nb i lat lon).parity = if i = 0 then .even else .odd := rfl

/-- what is attached by the BDS 0,5 arm, under the boxes of the branches that can fire -/
theorem airOut_sound (dist : Pos → Pos → Rat) (e : AircraftState) (ts : ℚ) (i : ℕ) (hi : i ≤ 1) (lat lon : ℚ)
    (hlat : -90 ≤ lat ∧ lat ≤ 90)
    (hpair : ∀ o, otherMsg e (report 17 i lat lon).parity = some o →
      ts - otherTs e (report 17 i lat lon).parity < 10 → PairBox i o lat lon)
    (href : ∀ lp, e.pos = some lp → ts - e.timestamp < 180 → NearBox 17 i 1 lat lon lp)
    (p : Pos) (h : airOut dist e ts (report 17 i lat lon) = some p) : IsLattice 17 i lat lon p := by
  unfold airOut gate50 at h
  have hc : airCandidate e ts (report 17 i lat lon) = some p := by
    cases hcand : airCandidate e ts (report 17 i lat lon) with
    | none => rw [hcand] at h; cases hp : e.pos <;> simp [hp] at h
    | some q =>
      rw [hcand] at h
      cases hp : e.pos with
      | none => rw [hp] at h; exact h
      | some lp =>
        rw [hp] at h
        simp only at h
        split_ifs at h
        exact h
  unfold airCandidate at hc
  cases hpd : pairDecode e ts (report 17 i lat lon) with
  | some q =>
    rw [hpd] at hc
    cases hc
    unfold pairDecode at hpd
    split_ifs at hpd with h10
    cases hm : otherMsg e (report 17 i lat lon).parity with
    | none => rw [hm] at hpd; cases hpd
    | some o =>
      rw [hm] at hpd
      exact pair_sound i hi lat lon hlat o (hpair o hm h10) _ hpd
  | none =>
    rw [hpd] at hc
    unfold refDecode at hc
    split_ifs at hc with h180
    cases hp : e.pos with
    | none => rw [hp] at hc; cases hc
    | some lp =>
      rw [hp] at hc
      exact ref_sound_air i hi lat lon hlat lp (href lp hp h180) _ hc

/-- what is attached by the BDS 0,6 arm -/
theorem surfOut_sound (dist : Pos → Pos → Rat) (e : AircraftState) (reference : Option Pos) (ts : ℚ) (i : ℕ)
    (hi : i ≤ 1) (lat lon : ℚ) (hlat : -90 ≤ lat ∧ lat ≤ 90)
    (hlast : ∀ lp, e.pos = some lp → ts - e.timestamp < 180 → NearBox 19 i 4 lat lon lp)
    (href : ∀ rf, reference = some rf → NearBox 19 i 4 lat lon rf)
    (p : Pos) (h : surfOut dist e reference ts (report 19 i lat lon) = some p) : IsLattice 19 i lat lon p := by
  unfold surfOut at h
  cases hs : surfLast dist e ts (report 19 i lat lon) with
  | some q =>
    rw [hs] at h
    cases h
    unfold surfLast at hs
    split_ifs at hs with h180
    cases hp : e.pos with
    | none => rw [hp] at hs; cases hs
    | some lp =>
      rw [hp] at hs
      simp only at hs
      cases hf : flat (surfaceWithRef (report 19 i lat lon) lp.lat lp.lon) with
      | none => rw [hf] at hs; cases hs
      | some sp =>
        rw [hf] at hs
        simp only at hs
        split_ifs at hs
        cases hs
        exact ref_sound_surf i hi lat lon hlat lp (hlast lp hp h180) _ hf
  | none =>
    rw [hs] at h
    cases hr : reference with
    | none => rw [hr] at h; cases h
    | some rf =>
      rw [hr] at h
      exact ref_sound_surf i hi lat lon hlat rf (href rf hr) _ h

/-- none of the three decoding primitives can panic (`nl ≥ 1`: the `u64` subtractions never underflow), so
    `flat` never hides anything -/
theorem primitives_ne_panic (a b : Msg) (latRef lonRef : ℚ) (s : Site) :
    airbornePosition a b ≠ .panic s ∧ airborneWithRef a latRef lonRef ≠ .panic s ∧
    surfaceWithRef a latRef lonRef ≠ .panic s := by
  refine ⟨?_, withRef_ne_panic 360 a latRef lonRef s, withRef_ne_panic 90 a latRef lonRef s⟩
  unfold airbornePosition
  split
  · rw [globalCore_eq]; split_ifs <;> simp
  · rw [globalCore_eq]; split_ifs <;> simp
  · simp

end Rs1090.Proofs.CprState
