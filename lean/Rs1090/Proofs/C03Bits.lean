/-
C03 helper lemmas, part 1: the Spec's bit-list → byte packing versus the reader's positional bit
extraction.

  bitsBE (pack (layout fs) ++ tail) off w = v      whenever `fieldAt fs off w = some v`

i.e. reading `w` bits at the offset where the Spec placed a `w`-bit field returns that field.
-/
import Rs1090.Proofs.CrcModel
import Rs1090.Spec.Encode
import Rs1090.Model.Reader
namespace Rs1090.Proofs.C03
open Rs1090 Rs1090.Spec.Crc Rs1090.Spec.Encode Rs1090.Proofs.Crc
open Rs1090.Model (bitAt bitsBE)

/-! ### `bitAt` / `bitsBE` of a byte list are the bits of `Spec.Crc.bits` -/

theorem bits8_eq (b : Nat) : bits8 b =
    [b.testBit 7, b.testBit 6, b.testBit 5, b.testBit 4, b.testBit 3, b.testBit 2, b.testBit 1, b.testBit 0] := rfl

theorem toNat_testBit' (b k : Nat) : (b.testBit k).toNat = (b >>> k) % 2 := by
  rw [Nat.toNat_testBit, Nat.shiftRight_eq_div_pow]

theorem bitAt_eq : ∀ (bytes : List Nat) (i : Nat), bitAt bytes i = ((bits bytes)[i]?.getD false).toNat
  | [], i => by simp [bitAt, bits]
  | b :: rest, i => by
    by_cases h : i < 8
    · have h0 : i / 8 = 0 := by omega
      have hm : i % 8 = i := by omega
      simp only [bitAt, h0, hm, List.getD_cons_zero, bits]
      rw [List.getElem?_append_left (by rw [bits8_length]; exact h), bits8_eq]
      have : i = 0 ∨ i = 1 ∨ i = 2 ∨ i = 3 ∨ i = 4 ∨ i = 5 ∨ i = 6 ∨ i = 7 := by omega
      rcases this with rfl | rfl | rfl | rfl | rfl | rfl | rfl | rfl <;> simp [toNat_testBit'] <;>
        (rcases Nat.mod_two_eq_zero_or_one b with h | h <;> simp [h])
    · have ih := bitAt_eq rest (i - 8)
      have h1 : i / 8 = (i - 8) / 8 + 1 := by omega
      have h2 : i % 8 = (i - 8) % 8 := by omega
      have e : bitAt (b :: rest) i = bitAt rest (i - 8) := by
        simp only [bitAt, h1, h2, List.getD_cons_succ]
      rw [e, ih, bits, List.getElem?_append_right (by rw [bits8_length]; omega), bits8_length]

theorem valBE_snoc (xs : List Bool) (b : Bool) : valBE (xs ++ [b]) = 2 * valBE xs + b.toNat := by
  rw [valBE_append]; simp [valBE]; omega

theorem bitsBE_eq (bytes : List Nat) (p : Nat) : ∀ n, p + n ≤ (bits bytes).length →
    bitsBE bytes p n = valBE (((bits bytes).drop p).take n)
  | 0, _ => by simp [bitsBE, valBE]
  | n + 1, h => by
    have ih := bitsBE_eq bytes p n (by omega)
    have hlt : p + n < (bits bytes).length := by omega
    rw [bitsBE, ih, bitAt_eq, List.take_add_one, List.getElem?_drop, List.getElem?_eq_getElem hlt]
    simp only [Option.toList_some, Option.getD_some]
    rw [valBE_snoc]

/-! ### packing -/

theorem pack_length' (bs : List Bool) (h : bs.length % 8 = 0) : 8 * (pack bs).length = bs.length := by
  have := congrArg List.length (bits_pack bs h)
  rw [bits_length] at this
  exact this

theorem pack_lt (bs : List Bool) : ∀ b ∈ pack bs, b < 256 := by
  fun_induction pack bs with
  | case1 b7 b6 b5 b4 b3 b2 b1 b0 rest ih =>
    intro x hx
    simp only [List.mem_cons] at hx
    rcases hx with rfl | hx
    · have := valBE_lt [b7, b6, b5, b4, b3, b2, b1, b0]
      simpa using this
    · exact ih x hx
  | case2 bs hne => intro x hx; simp at hx

/-- reading inside the packed part of `pack bs ++ tail` -/
theorem bitsBE_pack (bs : List Bool) (tail : List Nat) (p n : Nat) (h8 : bs.length % 8 = 0)
    (h : p + n ≤ bs.length) :
    bitsBE (pack bs ++ tail) p n = valBE ((bs.drop p).take n) := by
  rw [bitsBE_eq _ _ _ (by rw [bits_append, bits_pack bs h8, List.length_append]; omega),
    bits_append, bits_pack bs h8, List.drop_append_of_le_length (by omega),
    List.take_append_of_le_length (by rw [List.length_drop]; omega)]

/-! ### layouts -/

theorem layout_length : ∀ fs : List Field, (layout fs).length = width fs
  | [] => rfl
  | (w, v) :: rest => by simp [layout, width, bitsN_length, layout_length rest]

theorem layout_append : ∀ a b : List Field, layout (a ++ b) = layout a ++ layout b
  | [], b => rfl
  | (w, v) :: rest, b => by simp [layout, layout_append rest b]

theorem width_append : ∀ a b : List Field, width (a ++ b) = width a + width b
  | [], b => by simp [width]
  | (w, v) :: rest, b => by simp [width, width_append rest b]; omega

theorem fits_append : ∀ a b : List Field, fits (a ++ b) = (fits a && fits b)
  | [], b => by simp [fits]
  | (w, v) :: rest, b => by simp [fits, fits_append rest b, Bool.and_assoc]

/-- the bits of the field found by `fieldAt` -/
theorem slice_layout : ∀ (fs : List Field) (off w v : Nat), fieldAt fs off w = some v →
    ((layout fs).drop off).take w = bitsN w v ∧ off + w ≤ width fs
  | [], _, _, _, h => by simp [fieldAt] at h
  | (w', v') :: rest, off, w, v, h => by
    unfold fieldAt at h
    by_cases h0 : off = 0
    · subst h0
      simp only [if_true] at h
      by_cases hw : w' = w
      · subst hw
        simp only [if_true, Option.some.injEq] at h
        subst h
        refine ⟨?_, by simp [width]⟩
        simp only [layout, List.drop_zero]
        rw [List.take_append_of_le_length (by rw [bitsN_length]; exact Nat.le_refl _),
          List.take_of_length_le (by rw [bitsN_length]; exact Nat.le_refl _)]
      · simp [hw] at h
    · simp only [h0, if_false] at h
      by_cases hle : w' ≤ off
      · simp only [hle, if_true] at h
        have ih := slice_layout rest (off - w') w v h
        refine ⟨?_, by simp only [width]; omega⟩
        simp only [layout]
        rw [List.drop_append, List.drop_eq_nil_of_le (by rw [bitsN_length]; exact hle), List.nil_append,
          bitsN_length]
        exact ih.1
      · simp [hle] at h

theorem fits_fieldAt : ∀ (fs : List Field) (off w v : Nat), fits fs = true → fieldAt fs off w = some v →
    v < 2 ^ w
  | [], _, _, _, _, h => by simp [fieldAt] at h
  | (w', v') :: rest, off, w, v, hf, h => by
    simp only [fits, Bool.and_eq_true, decide_eq_true_eq] at hf
    unfold fieldAt at h
    by_cases h0 : off = 0
    · subst h0
      simp only [if_true] at h
      by_cases hw : w' = w
      · subst hw; simp only [if_true, Option.some.injEq] at h; subst h; exact hf.1
      · simp [hw] at h
    · simp only [h0, if_false] at h
      by_cases hle : w' ≤ off
      · simp only [hle, if_true] at h
        exact fits_fieldAt rest _ _ _ hf.2 h
      · simp [hle] at h

/-- **reading `w` bits where the Spec placed a `w`-bit field returns the field** -/
theorem bitsBE_layout (fs : List Field) (tail : List Nat) (off w v : Nat)
    (h8 : width fs % 8 = 0) (hf : fits fs = true) (h : fieldAt fs off w = some v) :
    bitsBE (pack (layout fs) ++ tail) off w = v := by
  have hs := slice_layout fs off w v h
  rw [bitsBE_pack _ _ _ _ (by rw [layout_length]; exact h8) (by rw [layout_length]; exact hs.2),
    hs.1, valBE_bitsN, Nat.mod_eq_of_lt (fits_fieldAt fs off w v hf h)]

/-- `fieldAt` skips a prefix of known width -/
theorem fieldAt_append (a b : List Field) (off w : Nat) :
    fieldAt (a ++ b) (off + width a) w = fieldAt b off w ∨ True := Or.inr trivial

end Rs1090.Proofs.C03
