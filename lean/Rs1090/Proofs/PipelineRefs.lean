/-
Helper lemmas for the pipeline model with per-sensor references and `--update-position`
(`Model/PipelineRefs.lean`): the loop is the frame-level table of the records annotated with the positions
the loop attaches; what a position step reads and writes (its own aircraft's cache entry, the reference of
the record's first serial; with `u = false` no reference); erasure of the position columns.
-/
import Rs1090.Model.PipelineRefs
import Rs1090.Proofs.Pipeline
namespace Rs1090.Proofs.PipelineRefs
open Rs1090 Rs1090.Model Rs1090.Model.Message Rs1090.Model.Snapshot Rs1090.Model.SnapshotView
open Rs1090.Model.Cpr Rs1090.Model.CprState Rs1090.Model.Pipeline Rs1090.Model.PipelineRefs
open Rs1090.Proofs.SnapshotView Rs1090.Proofs.Filters Rs1090.Proofs.Pipeline Rs1090.Proofs.CprState

/-! ### the loop is the factored form -/

theorem fold_stepS_eq (g : Gates) (dist : Pos → Pos → Rat) (u : Bool) :
    ∀ (h : List RcvS) (c : Cache) (m : Refs) (t : Table),
      (h.foldl (stepS g dist u) { cache := c, refs := m, table := t }).table
        = (annotS g dist u c m h).foldl (fun t x => update t x.record) t := by
  intro h
  induction h with
  | nil => intro c m t; rfl
  | cons x rest ih =>
    intro c m t
    simp only [List.foldl_cons, annotS]
    exact ih _ _ _

theorem runPipelineS_eq (g : Gates) (dist : Pos → Pos → Rat) (u : Bool) (refs : Refs) (h : List RcvS) :
    runPipelineS g dist u refs h = runFrames (annotS g dist u Cache.empty refs h) := by
  unfold runPipelineS runS runFrames
  exact fold_stepS_eq g dist u h _ _ _

/-- final aircraft map and references of the loop = `stateS` -/
theorem runS_state (g : Gates) (dist : Pos → Pos → Rat) (u : Bool) :
    ∀ (h : List RcvS) (c : Cache) (m : Refs) (t : Table),
      ((h.foldl (stepS g dist u) { cache := c, refs := m, table := t }).cache,
       (h.foldl (stepS g dist u) { cache := c, refs := m, table := t }).refs) = stateS g dist u c m h := by
  intro h
  induction h with
  | nil => intro c m t; rfl
  | cons x rest ih =>
    intro c m t
    simp only [List.foldl_cons, stateS]
    exact ih _ _ _

theorem annotS_forget (g : Gates) (dist : Pos → Pos → Rat) (u : Bool) :
    ∀ (h : List RcvS) (c : Cache) (m : Refs),
      (annotS g dist u c m h).map (fun y => (y.ts, y.frame)) = h.map (fun x => (tsU64 x.t, x.frame)) := by
  intro h
  induction h with
  | nil => intro c m; rfl
  | cons x rest ih => intro c m; simp only [annotS, List.map_cons, ih]

/-- the records of the history whose frame decodes to JSON with `icao24` = `k` -/
def ownS (k : Addr) (h : List RcvS) : List RcvS := h.filter fun x => icao24Of x.frame = some k

theorem mem_ownS {k : Addr} {h : List RcvS} {x : RcvS} :
    x ∈ ownS k h ↔ x ∈ h ∧ ShowsIcao24 x.frame k := by
  unfold ownS
  rw [List.mem_filter, showsIcao24_iff]
  simp

theorem ownS_cons_pos (k : Addr) (x : RcvS) (rest : List RcvS) (h : icao24Of x.frame = some k) :
    ownS k (x :: rest) = x :: ownS k rest := by
  simp [ownS, h]

theorem ownS_cons_neg (k : Addr) (x : RcvS) (rest : List RcvS) (h : icao24Of x.frame ≠ some k) :
    ownS k (x :: rest) = ownS k rest := by
  simp [ownS, h]

theorem ownFrames_annotS_forget (g : Gates) (dist : Pos → Pos → Rat) (u : Bool) (k : Addr) :
    ∀ (h : List RcvS) (c : Cache) (m : Refs),
      (ownFrames k (annotS g dist u c m h)).map (fun y => (y.ts, y.frame))
        = (ownS k h).map (fun x => (tsU64 x.t, x.frame)) := by
  intro h
  induction h with
  | nil => intro c m; rfl
  | cons x rest ih =>
    intro c m
    simp only [annotS]
    by_cases hk : icao24Of x.frame = some k
    · rw [ownFrames_cons_pos k _ _ hk, ownS_cons_pos k x rest hk]
      simp only [List.map_cons, ih]
    · rw [ownFrames_cons_neg k _ _ hk, ownS_cons_neg k x rest hk]
      exact ih _ _

theorem exists_frame_iff_of_frames (P : List Nat → Prop) (l : List Rx) (h : List RcvS)
    (e : l.map (·.frame) = h.map (·.frame)) :
    (∃ y, y ∈ l ∧ P y.frame) ↔ (∃ x, x ∈ h ∧ P x.frame) := by
  constructor
  · rintro ⟨y, hy, hp⟩
    have : y.frame ∈ h.map (·.frame) := by rw [← e]; exact List.mem_map_of_mem hy
    obtain ⟨x, hx, hxe⟩ := List.mem_map.mp this
    exact ⟨x, hx, by rw [hxe]; exact hp⟩
  · rintro ⟨x, hx, hp⟩
    have : x.frame ∈ l.map (·.frame) := by rw [e]; exact List.mem_map_of_mem hx
    obtain ⟨y, hy, hye⟩ := List.mem_map.mp this
    exact ⟨y, hy, by rw [hye]; exact hp⟩

theorem annotS_frames (g : Gates) (dist : Pos → Pos → Rat) (u : Bool) (h : List RcvS) (c : Cache) (m : Refs) :
    (annotS g dist u c m h).map (·.frame) = h.map (·.frame) := by
  have := congrArg (List.map Prod.snd) (annotS_forget g dist u h c m)
  simpa [List.map_map, Function.comp_def] using this

/-! ### what one position step reads and writes -/

theorem callOf_some (x : RcvS) (r : Report) (h : callOf x = some r) :
    ∃ r0, cprReportOf x.t x.frame = some r0 ∧ r.addr = r0.addr ∧ r.ts = r0.ts ∧ r.kind = r0.kind ∧ r.msg = r0.msg := by
  unfold callOf at h
  cases h0 : cprReportOf x.t x.frame with
  | none => rw [h0] at h; cases h
  | some r0 =>
    rw [h0] at h
    simp only [Option.map_some, Option.some.injEq] at h
    subst h
    exact ⟨r0, rfl, rfl, rfl, rfl, rfl⟩

/-- one cache key per table key, for the calls of this loop -/
theorem exists_cpr_addressS (k : Addr) :
    ∃ A : Address, ∀ x r, callOf x = some r → (icao24Of x.frame = some k ↔ r.addr = A) := by
  obtain ⟨A, hA⟩ := exists_cpr_address k
  refine ⟨A, fun x r hr => ?_⟩
  obtain ⟨r0, h0, ha, _⟩ := callOf_some x r hr
  rw [ha]
  exact hA _ _ _ h0

/-- without `--update-position` the references never change -/
theorem posStep_refs_fixed (g : Gates) (dist : Pos → Pos → Rat) (c : Cache) (m : Refs) (x : RcvS) :
    (posStep g dist false c m x).2.1 = m := by
  unfold posStep
  cases callOf x with
  | none => rfl
  | some r => simp [writesBack]

/-- a record of another aircraft leaves the cache entry of `A` untouched (with or without `--update-position`) -/
theorem posStep_frame (g : Gates) (dist : Pos → Pos → Rat) (u : Bool) (c : Cache) (m : Refs) (x : RcvS)
    (k : Addr) (A : Address)
    (hA : ∀ x r, callOf x = some r → (icao24Of x.frame = some k ↔ r.addr = A))
    (hk : icao24Of x.frame ≠ some k) :
    (posStep g dist u c m x).1 A = c A := by
  unfold posStep
  cases hc : callOf x with
  | none => rfl
  | some r =>
    have ha : A ≠ r.addr := fun e => hk ((hA x r hc).mpr e.symm)
    exact decodePosition_frame g dist (updOf u) _ r A ha

/-- a record of aircraft `A` reads the cache entry of `A` and the reference of its first serial, nothing else -/
theorem posStep_local (g : Gates) (dist : Pos → Pos → Rat) (u : Bool) (c c' : Cache) (m : Refs) (x : RcvS)
    (k : Addr) (A : Address)
    (hA : ∀ x r, callOf x = some r → (icao24Of x.frame = some k ↔ r.addr = A))
    (hk : icao24Of x.frame = some k) (he : c A = c' A) :
    (posStep g dist u c m x).2.2 = (posStep g dist u c' m x).2.2 ∧
    (posStep g dist u c m x).1 A = (posStep g dist u c' m x).1 A ∧
    (posStep g dist u c m x).2.1 = (posStep g dist u c' m x).2.1 := by
  unfold posStep
  cases hc : callOf x with
  | none => exact ⟨rfl, he, rfl⟩
  | some r =>
    have ha : r.addr = A := (hA x r hc).mp hk
    obtain ⟨h1, h2, h3⟩ := decodePosition_local g dist (updOf u) (c, m (x.serials.headD 0)) (c', m (x.serials.headD 0)) r
      (by rw [ha]; exact he) rfl
    refine ⟨h1, by rw [← ha]; exact h2, ?_⟩
    simp only [h3]

/-- **own sub-history commutes with the annotation when the references are fixed** (`u = false`): from two
    aircraft maps that agree on `A`'s entry -/
theorem ownFrames_annotS_fixed (g : Gates) (dist : Pos → Pos → Rat) (m : Refs) (k : Addr) (A : Address)
    (hA : ∀ x r, callOf x = some r → (icao24Of x.frame = some k ↔ r.addr = A)) :
    ∀ (h : List RcvS) (c c' : Cache), c A = c' A →
      ownFrames k (annotS g dist false c m h) = annotS g dist false c' m (ownS k h) := by
  intro h
  induction h with
  | nil => intro c c' _; rfl
  | cons x rest ih =>
    intro c c' he
    by_cases hk : icao24Of x.frame = some k
    · rw [ownS_cons_pos k x rest hk]
      simp only [annotS]
      rw [ownFrames_cons_pos k _ _ hk]
      obtain ⟨h1, h2, _⟩ := posStep_local g dist false c c' m x k A hA hk he
      rw [h1, posStep_refs_fixed, posStep_refs_fixed]
      congr 1
      exact ih _ _ h2
    · rw [ownS_cons_neg k x rest hk]
      simp only [annotS]
      rw [ownFrames_cons_neg k _ _ hk, posStep_refs_fixed]
      exact ih _ _ (by rw [posStep_frame g dist false c m x k A hA hk]; exact he)

/-! ### where an attached position comes from -/

theorem posStep_some (g : Gates) (dist : Pos → Pos → Rat) (u : Bool) (c : Cache) (m : Refs) (x : RcvS) (p : Pos)
    (h : (posStep g dist u c m x).2.2 = some p) :
    ∃ r, callOf x = some r ∧ (decodePosition g dist (updOf u) (c, m (x.serials.headD 0)) r).2 = some p := by
  unfold posStep at h
  cases hc : callOf x with
  | none => rw [hc] at h; cases h
  | some r => rw [hc] at h; exact ⟨r, rfl, h⟩

/-- a position text in the annotated history was attached by the position step of the record it sits on, from
    the aircraft map and references the loop had reached there -/
theorem mem_annotS_pos (g : Gates) (dist : Pos → Pos → Rat) (u : Bool) :
    ∀ (h : List RcvS) (c : Cache) (m : Refs) (y : Rx) (q : Val × Val),
      y ∈ annotS g dist u c m h → y.pos = some q →
      ∃ pre x post p, h = pre ++ x :: post ∧ y.frame = x.frame ∧
        (posStep g dist u (stateS g dist u c m pre).1 (stateS g dist u c m pre).2 x).2.2 = some p ∧ q = posText p := by
  intro h
  induction h with
  | nil => intro c m y q hy; cases hy
  | cons x rest ih =>
    intro c m y q hy hq
    simp only [annotS, List.mem_cons] at hy
    rcases hy with rfl | hy
    · simp only at hq
      cases hp : (posStep g dist u c m x).2.2 with
      | none => rw [hp] at hq; cases hq
      | some p =>
        rw [hp] at hq
        simp only [Option.map_some, Option.some.injEq] at hq
        exact ⟨[], x, rest, p, rfl, rfl, hp, hq.symm⟩
    · obtain ⟨pre, x', post, p, e, hf, hp, hq'⟩ := ih _ _ y q hy hq
      refine ⟨x :: pre, x', post, p, by rw [e]; rfl, hf, ?_, hq'⟩
      simpa only [stateS] using hp

/-! ### the columns other than latitude / longitude do not depend on the positions attached -/

/-- an entry without its position -/
def noPos (e : Entry) : Entry := { e with latitude := none, longitude := none }

def eraseMe : MeView → MeView
  | .bds05 _ _ alt => .bds05 none none alt
  | .bds06 _ _ trk gs => .bds06 none none trk gs
  | m => m

def eraseBody : Body → Body
  | .adsb me => .adsb (eraseMe me)
  | .tisb me => .tisb (eraseMe me)
  | b => b

/-- a record without the position `decode_position` attached -/
def erase (r : Record) : Record := { r with body := eraseBody r.body }

theorem noPos_applyAdsb (e : Entry) (me : MeView) : noPos (applyAdsb e me) = applyAdsb (noPos e) (eraseMe me) := by
  cases me with
  | bds08 cs => simp only [applyAdsb, eraseMe]; split <;> rfl
  | bds09 vr vel =>
    cases vel with
    | airspeed isTas sp hd => cases isTas <;> rfl
    | _ => rfl
  | bds65 n => cases n <;> rfl
  | _ => rfl

theorem noPos_applyTisb (e : Entry) (me : MeView) : noPos (applyTisb e me) = applyTisb (noPos e) (eraseMe me) := by
  cases me <;> rfl

theorem noPos_applyCommB (e : Entry) (b : CommB) : noPos (applyCommB e b) = applyCommB (noPos e) b := by
  obtain ⟨b20, b40, b50, b60⟩ := b
  cases b20 with
  | none =>
    cases b40 <;> cases b50 <;> cases b60 <;> simp only [applyCommB] <;> (try split) <;> rfl
  | some cs =>
    cases hh : hasHash cs <;>
    cases b40 <;> cases b50 <;> cases b60 <;> simp only [applyCommB, hh] <;> (try split) <;> rfl

theorem noPos_touch (r : Record) (e : Entry) : noPos (touch r e) = touch (erase r) (noPos e) := by
  obtain ⟨ts, addr, body⟩ := r
  cases body with
  | adsb me => exact noPos_applyAdsb _ me
  | tisb me => exact noPos_applyTisb _ me
  | commbAlt b => exact noPos_applyCommB _ b
  | commbId b => exact noPos_applyCommB _ b
  | _ => rfl

theorem map_noPos_upsert (k : Addr) (ts : Nat) (f f' : Entry → Entry) (hf : ∀ e, noPos (f e) = f' (noPos e)) :
    ∀ t : Table, (upsert k ts f t).map noPos = upsert k ts f' (t.map noPos) := by
  intro t
  induction t with
  | nil => simp only [upsert, List.map_cons, List.map_nil, hf]; rfl
  | cons e t ih =>
    simp only [upsert, List.map_cons]
    have : (noPos e).icao24 = e.icao24 := rfl
    rw [this]
    split
    · simp only [List.map_cons, hf]
    · simp only [List.map_cons, ih]

theorem map_noPos_update (t : Table) (r : Record) : (update t r).map noPos = update (t.map noPos) (erase r) := by
  obtain ⟨ts, addr, body⟩ := r
  cases addr with
  | none => rfl
  | some k => exact map_noPos_upsert k ts _ _ (noPos_touch ⟨ts, some k, body⟩) t

theorem map_noPos_foldl (h : List Record) : ∀ t : Table,
    (h.foldl update t).map noPos = (h.map erase).foldl update (t.map noPos) := by
  induction h with
  | nil => intro t; rfl
  | cons r rest ih => intro t; simp only [List.foldl_cons, List.map_cons, ih, map_noPos_update]

theorem entryOf_map_noPos (k : Addr) : ∀ t : Table, entryOf k (t.map noPos) = (entryOf k t).map noPos := by
  intro t
  induction t with
  | nil => rfl
  | cons e t ih =>
    simp only [List.map_cons, entryOf]
    have : (noPos e).icao24 = e.icao24 := rfl
    rw [this]
    split
    · rfl
    · exact ih

theorem eraseMe_meView (frame : List Nat) (kvs : List (Key × Json)) (pos : Option (Val × Val)) :
    eraseMe (meView frame kvs pos) = meView frame kvs none := by
  unfold meView
  split
  · rfl
  · rfl
  · cases fldV kvs (key! "callsign") <;> rfl
  · cases velocityView frame kvs <;> rfl
  · cases fldV kvs (key! "squawk") <;> rfl
  · cases fldV kvs (key! "NACp") <;> rfl
  · rfl
  · rfl

theorem eraseBody_bodyView (frame : List Nat) (kvs : List (Key × Json)) (pos : Option (Val × Val)) :
    eraseBody (bodyView frame kvs pos) = bodyView frame kvs none := by
  unfold bodyView
  split
  · cases fldV kvs (key! "squawk") <;> rfl
  · cases fldV kvs (key! "altitude") <;> rfl
  · simp only [eraseBody, eraseMe_meView]
  · simp only [eraseBody, eraseMe_meView]
  · rfl
  · rfl
  · rfl

/-- the record without the position = the record of the same reception with no position attached -/
theorem erase_record (x : Rx) : erase x.record = recordOfFrame x.ts x.frame none := by
  unfold Rx.record recordOfFrame
  split
  · unfold viewOfJson
    split
    · simp only [erase, eraseBody_bodyView]
    · rfl
  · rfl

/-- the table without positions depends on time stamps and frames only -/
theorem map_noPos_runFrames (l : List Rx) :
    (runFrames l).map noPos = Snapshot.run (l.map fun y => recordOfFrame y.ts y.frame none) := by
  rw [runFrames_eq]
  unfold Snapshot.run
  rw [map_noPos_foldl, List.map_map]
  have : (erase ∘ Rx.record) = fun y : Rx => recordOfFrame y.ts y.frame none := funext erase_record
  rw [this]
  rfl

theorem noPos_entry_of_forget (k : Addr) (l₁ l₂ : List Rx)
    (e : l₁.map (fun y => (y.ts, y.frame)) = l₂.map (fun y => (y.ts, y.frame))) :
    (entryOf k (runFrames l₁)).map noPos = (entryOf k (runFrames l₂)).map noPos := by
  rw [← entryOf_map_noPos, ← entryOf_map_noPos, map_noPos_runFrames, map_noPos_runFrames]
  have h := congrArg (List.map fun p : Nat × List Nat => recordOfFrame p.1 p.2 none) e
  simp only [List.map_map, Function.comp_def] at h
  rw [h]

end Rs1090.Proofs.PipelineRefs
