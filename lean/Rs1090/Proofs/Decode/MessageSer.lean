/-
C07/C08 composition at message level: if every payload reader's result serialises well and is in
range, then whatever `Message.tryFrom` accepts is one well-formed JSON object (no serde error, no
duplicate key at any level, finite numbers), every constrained quantity is in its physical range, and
its `df` / `icao24` entries are those of the frame.
-/
import Rs1090.Proofs.Decode.CommbSer
import Rs1090.Model.Decode.Message
import Rs1090.Props.C13
namespace Rs1090.Model
open Rs1090

/-- both facts about a payload flattened into the message (`avoid` = keys it must not repeat) -/
def PayGood (avoid : List Nat) (r : SerFields) : Prop := SerGood avoid r ∧ RangeGood r

namespace Message

/-- per-reader facts for the ADS-B payloads (instantiated in Props/C07, C08) -/
structure AdsbGood : Prop where
  b05 : ∀ s, post Bds05.read (fun r _ => PayGood outerKeys r) s
  b06 : ∀ s, post Bds06.read (fun r _ => PayGood outerKeys r) s
  b08 : ∀ s, post Bds08.read (fun r _ => PayGood outerKeys r) s
  b09 : ∀ s, post Bds09.read (fun r _ => PayGood outerKeys r) s
  b61 : ∀ s, post Bds61.read (fun r _ => PayGood outerKeys r) s
  b62 : ∀ s, post Bds62.read (fun r _ => PayGood outerKeys r) s
  b65 : ∀ s, post Bds65.read (fun r _ => PayGood outerKeys r) s

/-- keys of the DF17/18 envelope -/
def envKeys : List Nat := [(key! "df").id, (key! "icao24").id, (key! "tisb").id] ++ timedKeys

theorem envKeys_sub_outer : ∀ k ∈ envKeys, k ∈ outerKeys := by decide
theorem timed_sub_env : ∀ k ∈ timedKeys, k ∈ envKeys := by decide
theorem timed_sub_commb : ∀ k ∈ timedKeys, k ∈ Commb.commbAvoid := by decide

theorem specFor_bds : specFor (key! "bds").id = none := by decide

/-- tagging with `bds` keeps a payload good, now avoiding only the envelope keys -/
theorem tagged_good {name : Key} {inner : SerFields} (h : PayGood outerKeys inner) :
    PayGood envKeys (tagged (key! "bds") name inner) := by
  obtain ⟨⟨fs, rfl, hnd, hav, hwf⟩, hr⟩ := h
  have hobj : Fields.toObj (fld (key! "bds") (.lit name) :: fs) = (key! "bds", Json.lit name) :: fs.toObj := by
    simp [Fields.toObj, fld]
  refine ⟨⟨fld (key! "bds") (.lit name) :: fs, rfl, ?_, ?_, ?_⟩, ?_⟩
  · rw [hobj]
    simp only [keyIds, List.map_cons, List.nodup_cons]
    refine ⟨?_, hnd⟩
    intro hm
    exact hav _ hm (by simp [outerKeys])
  · rw [hobj]
    intro k hk
    simp only [keyIds, List.map_cons, List.mem_cons] at hk
    rcases hk with rfl | hk
    · decide
    · intro hin
      exact hav k hk (envKeys_sub_outer k hin)
  · rw [hobj]; simp only [Json.wfObj, Bool.and_eq_true]; exact ⟨rfl, hwf⟩
  · intro fs' e
    cases e
    rw [hobj]
    simp only [Json.inRangeObj, Bool.and_eq_true]
    refine ⟨?_, hr fs rfl⟩
    spec_eval
    simp [Json.inRange]

theorem unused_good (s : Rd) : post unused (fun r _ => PayGood outerKeys r) s := by
  unfold unused
  post_run
  exact ⟨serGood_of _ [] (by simp) (by simp) (by simp), rangeGood_of [] (by simp)⟩

theorem meBody_good (H : AdsbGood) (tc : Nat) (s : Rd) : post (meBody tc) (fun r _ => PayGood envKeys r) s := by
  unfold meBody
  have tg : ∀ {α} (m : R α) (rd : R SerFields) (name : Key) (s : Rd),
      (∀ s, post rd (fun r _ => PayGood outerKeys r) s) →
      post (m >>= fun _ => rd >>= fun v => pure (tagged (key! "bds") name v)) (fun r _ => PayGood envKeys r) s := by
    intro α m rd name s h
    apply post_bind; apply post_any; intro _ s1
    apply post_bind; refine post_mono (h s1) ?_
    intro v s2 hv
    exact post_pure _ _ _ (tagged_good hv)
  have tg0 : ∀ (rd : R SerFields) (name : Key) (s : Rd),
      (∀ s, post rd (fun r _ => PayGood outerKeys r) s) →
      post (rd >>= fun v => pure (tagged (key! "bds") name v)) (fun r _ => PayGood envKeys r) s := by
    intro rd name s h
    apply post_bind; refine post_mono (h s) ?_
    intro v s2 hv
    exact post_pure _ _ _ (tagged_good hv)
  apply post_ite; · intro _; exact tg0 _ _ _ unused_good
  intro _; apply post_ite; · intro _; exact tg _ _ _ _ H.b08
  intro _; apply post_ite; · intro _; exact tg _ _ _ _ H.b06
  intro _; apply post_ite; · intro _; exact tg _ _ _ _ H.b05
  intro _; apply post_ite; · intro _; exact tg0 _ _ _ H.b09
  intro _; apply post_ite; · intro _; exact tg0 _ _ _ unused_good
  intro _; apply post_ite; · intro _; exact tg0 _ _ _ unused_good
  intro _; apply post_ite
  · intro _
    post_run
    apply tagged_good
    refine ⟨serGood_of _ _ (by keys_decide) (by keys_decide) (by fields_cases), ?_⟩
    apply rangeGood_of; range_cases
  intro _; apply post_ite; · intro _; exact tg0 _ _ _ H.b61
  intro _; apply post_ite; · intro _; exact tg0 _ _ _ H.b62
  intro _; apply post_ite; · intro _; exact tg0 _ _ _ unused_good
  intro _; exact tg0 _ _ _ H.b65

theorem me_good (H : AdsbGood) (s : Rd) : post me (fun r _ => PayGood envKeys r) s := by
  unfold me
  apply post_bind; apply post_any; intro tc s1
  exact meBody_good H tc s1

/-- the whole message object: serialises, no duplicate key, well-formed values, ranges respected -/
def MsgGood (r : SerFields) : Prop := SerGood timedKeys r ∧ RangeGood r

/-- `pre ++ inner ++ post` for a good flattened payload and literal envelope fields -/
theorem withFields_good {avoid : List Nat} {pre post : Fields} {inner : SerFields}
    (hi : PayGood avoid inner)
    (hpre : ∀ kv ∈ pre ++ post, ∃ j, kv.2 = some j ∧ j.wf = true ∧
        (match specFor kv.1.id with | some c => c.holds j | none => j.inRange) = true)
    (hnd : ((pre ++ post).map (·.1.id)).Nodup)
    (hav : ∀ k ∈ (pre ++ post).map (·.1.id), k ∈ avoid)
    (htm : ∀ k ∈ timedKeys, k ∈ avoid)
    (hpt : ∀ k ∈ (pre ++ post).map (·.1.id), k ∉ timedKeys) :
    MsgGood (withFields pre inner post) := by
  obtain ⟨⟨fs, rfl, hn, ha, hw⟩, hr⟩ := hi
  have hobj : Fields.toObj (pre ++ fs ++ post) = pre.toObj ++ fs.toObj ++ post.toObj := by
    simp [Fields.toObj, List.filterMap_append]
  have hlit : ∀ (l : Fields), (∀ kv ∈ l, ∃ j, kv.2 = some j ∧ j.wf = true ∧
        (match specFor kv.1.id with | some c => c.holds j | none => j.inRange) = true) →
      keyIds l.toObj = l.map (·.1.id) ∧ Json.wfObj l.toObj = true ∧ Json.inRangeObj l.toObj = true := by
    intro l
    induction l with
    | nil => intro _; simp [Fields.toObj, keyIds, Json.wfObj, Json.inRangeObj]
    | cons kv r ih =>
      intro h
      obtain ⟨k, v⟩ := kv
      obtain ⟨j, hj, hwf, hrg⟩ := h (k, v) (by simp)
      simp only at hj; subst hj
      obtain ⟨i1, i2, i3⟩ := ih (fun kv hkv => h kv (by simp [hkv]))
      have e : Fields.toObj ((k, some j) :: r) = (k, j) :: Fields.toObj r := by simp [Fields.toObj]
      rw [e]
      refine ⟨by simp [keyIds] at i1 ⊢; exact i1, by simp [Json.wfObj, hwf, i2], ?_⟩
      simp only [Json.inRangeObj, Bool.and_eq_true]; exact ⟨hrg, i3⟩
  obtain ⟨p1, p2, p3⟩ := hlit pre (fun kv hkv => hpre kv (by simp [hkv]))
  obtain ⟨q1, q2, q3⟩ := hlit post (fun kv hkv => hpre kv (by simp [hkv]))
  have wfapp : ∀ a b : List (Key × Json), Json.wfObj (a ++ b) = (Json.wfObj a && Json.wfObj b) := by
    intro a b; induction a with
    | nil => simp [Json.wfObj]
    | cons x r ih => obtain ⟨k, v⟩ := x; simp [Json.wfObj, ih, Bool.and_assoc]
  have rgapp : ∀ a b : List (Key × Json), Json.inRangeObj (a ++ b) = (Json.inRangeObj a && Json.inRangeObj b) := by
    intro a b; induction a with
    | nil => simp [Json.inRangeObj]
    | cons x r ih => obtain ⟨k, v⟩ := x; simp [Json.inRangeObj, ih, Bool.and_assoc]
  refine ⟨⟨pre ++ fs ++ post, rfl, ?_, ?_, ?_⟩, ?_⟩
  rotate_left
  · rw [hobj]
    intro k hk
    simp only [keyIds, List.map_append, List.mem_append] at hk p1 q1
    have p1' : List.map (fun x => x.1.id) pre.toObj = pre.map (·.1.id) := p1
    have q1' : List.map (fun x => x.1.id) post.toObj = post.map (·.1.id) := q1
    rcases hk with (hk | hk) | hk
    · exact hpt k (by rw [List.map_append, List.mem_append]; left; rw [← p1']; exact hk)
    · intro ht; exact ha k hk (htm k ht)
    · exact hpt k (by rw [List.map_append, List.mem_append]; right; rw [← q1']; exact hk)
  · rw [hobj, wfapp, wfapp, p2, hw, q2]; rfl
  · intro fs' e
    cases e
    rw [hobj, rgapp, rgapp, p3, hr fs rfl, q3]; rfl
  · rw [hobj]
    simp only [keyIds, List.map_append] at p1 q1 ⊢
    have p1' : List.map (fun x => x.1.id) pre.toObj = pre.map (·.1.id) := p1
    have q1' : List.map (fun x => x.1.id) post.toObj = post.map (·.1.id) := q1
    rw [p1', q1']
    simp only [List.map_append] at hnd hav
    have hdisj : ∀ k ∈ keyIds fs.toObj, k ∉ pre.map (·.1.id) ∧ k ∉ post.map (·.1.id) := by
      intro k hk
      exact ⟨fun h => ha k hk (hav k (by simp [h])), fun h => ha k hk (hav k (by simp [h]))⟩
    rw [List.nodup_append] at hnd ⊢
    obtain ⟨n1, n2, n3⟩ := hnd
    refine ⟨?_, n2, ?_⟩
    · rw [List.nodup_append]
      refine ⟨n1, hn, ?_⟩
      intro a ha' b hb' hab; subst hab
      exact (hdisj a hb').1 ha'
    · intro a ha' b hb' hab; subst hab
      rcases List.mem_append.mp ha' with h | h
      · exact n3 a h a hb' rfl
      · exact (hdisj a h).2 hb'

macro "env_keys" : tactic =>
  `(tactic| (simp only [dfTag, fld, List.cons_append, List.nil_append, List.append_nil, List.map_cons, List.map_nil]; decide))

theorem wf_arr_jnat (xs : List Nat) : (Json.arr (xs.map jnat)).wf = true := by
  simp only [Json.wf]
  induction xs with
  | nil => rfl
  | cons x r ih => simp [Json.wfList, ih]

theorem inRange_arr_jnat (xs : List Nat) : (Json.arr (xs.map jnat)).inRange = true := by
  simp only [Json.inRange]
  induction xs with
  | nil => rfl
  | cons x r ih => simp [Json.inRangeList, ih]

/-- a literal envelope (no flattened payload) -/
theorem lit_good (fs : Fields)
    (hnd : (fs.map (·.1.id)).Nodup)
    (hav : ∀ k ∈ fs.map (·.1.id), k ∉ timedKeys)
    (h3 : ∀ kv ∈ fs, ∀ v, kv.2 = some v → v.wf = true)
    (h4 : ∀ kv ∈ fs, ∀ v, kv.2 = some v →
      (match specFor kv.1.id with | some c => c.holds v | none => v.inRange) = true) :
    MsgGood (.ok fs) :=
  ⟨serGood_of timedKeys fs hnd hav h3, rangeGood_of fs h4⟩

theorem squawk_octal (f : Nat) (hf : f < 2 ^ 13) :
    Constraint.holds .octal4 (jhex4 (decodeId13 f)) = true :=
  Rs1090.Props.C13.enum 13 (P := fun f => Constraint.holds .octal4 (jhex4 (decodeId13 f)) = true)
    (by decide +kernel) f hf

theorem identityCode_post (Q : Nat → Rd → Prop) (s : Rd)
    (h : ∀ f s', f < 2 ^ 13 → Q (decodeId13 f) s') : post identityCode Q s := by
  unfold identityCode
  post_run
  exact h _ _ (by assumption)

structure AllGood : Prop where
  adsb : AdsbGood
  regs : Commb.RegsGood

theorem dfBody_good (H : AllGood) (crc id : Nat) (s : Rd) : post (dfBody crc id) (fun r _ => MsgGood r) s := by
  unfold dfBody
  split
  · -- DF0
    apply post_bind; apply post_any; intro _ _
    apply post_bind; apply post_any; intro ac _
    apply post_bind; apply post_any; intro _ _
    apply post_pure
    apply lit_good _ (by simp only [dfTag]; keys_decide) (by simp only [dfTag]; keys_decide) (by simp only [dfTag]; fields_cases)
    simp only [dfTag]; range_cases
  · -- DF4
    apply post_bind; apply post_any; intro _ _
    apply post_bind; apply post_any; intro ac _
    apply post_bind; apply post_any; intro _ _
    apply post_pure
    apply lit_good _ (by simp only [dfTag]; keys_decide) (by simp only [dfTag]; keys_decide) (by simp only [dfTag]; fields_cases)
    simp only [dfTag]; range_cases
  · -- DF5
    apply post_bind; apply post_any; intro _ _
    apply post_bind; apply identityCode_post; intro f _ hf
    apply post_bind; apply post_any; intro _ _
    apply post_pure
    apply lit_good _ (by simp only [dfTag]; keys_decide) (by simp only [dfTag]; keys_decide) (by simp only [dfTag]; fields_cases)
    simp only [dfTag]; range_cases
    exact squawk_octal f hf
  · -- DF11
    post_run
    apply lit_good _ (by simp only [dfTag]; keys_decide) (by simp only [dfTag]; keys_decide) (by simp only [dfTag]; fields_cases)
    simp only [dfTag]; range_cases
  · -- DF16
    post_run
    apply post_any; intro ac _
    apply post_bind; apply post_any; intro _ _
    post_run
    apply lit_good _ (by simp only [dfTag]; keys_decide) (by simp only [dfTag]; keys_decide) (by simp only [dfTag]; fields_cases)
    simp only [dfTag]; range_cases
  · -- DF17
    post_run
    refine post_mono (me_good H.adsb _) ?_
    intro m _ hm
    post_run
    refine withFields_good (post := []) hm ?_ (by env_keys) (by env_keys) timed_sub_env (by env_keys)
    intro kv hkv
    simp only [List.append_nil, List.mem_cons, List.mem_nil_iff, or_false, dfTag, fld] at hkv
    rcases hkv with rfl | rfl
    · exact ⟨_, rfl, rfl, by spec_eval; simp⟩
    · exact ⟨_, rfl, rfl, by spec_eval; simp⟩
  · -- DF18
    post_run
    refine post_mono (me_good H.adsb _) ?_
    intro m _ hm
    post_run
    refine withFields_good (post := []) hm ?_ (by env_keys) (by env_keys) timed_sub_env (by env_keys)
    intro kv hkv
    simp only [List.append_nil, List.mem_cons, List.mem_nil_iff, or_false, dfTag, fld] at hkv
    rcases hkv with rfl | rfl | rfl
    · exact ⟨_, rfl, rfl, by spec_eval; simp⟩
    · exact ⟨_, rfl, rfl, by spec_eval; simp⟩
    · exact ⟨_, rfl, rfl, by spec_eval; simp⟩
  · -- DF19
    post_run
    apply lit_good _ (by simp only [dfTag]; keys_decide) (by simp only [dfTag]; keys_decide) (by simp only [dfTag]; fields_cases)
    simp only [dfTag]; range_cases
  · -- DF20
    apply post_bind; apply post_any; intro _ _
    apply post_bind; apply post_any; intro ac _
    apply post_bind; refine post_mono (Commb.df20_good H.regs ac _) ?_
    intro b _ hb
    post_run
    refine withFields_good hb ?_ (by env_keys) (by env_keys) timed_sub_commb (by env_keys)
    intro kv hkv
    simp only [List.cons_append, List.nil_append, List.mem_cons, List.mem_nil_iff, or_false, dfTag, fld] at hkv
    rcases hkv with rfl | rfl | rfl
    · exact ⟨_, rfl, rfl, by spec_eval; simp⟩
    · exact ⟨_, rfl, rfl, by spec_eval; simp⟩
    · exact ⟨_, rfl, rfl, by spec_eval; simp⟩
  · -- DF21
    apply post_bind; apply post_any; intro _ _
    apply post_bind; apply identityCode_post; intro f _ hf
    apply post_bind; refine post_mono (Commb.df21_good H.regs _) ?_
    intro b _ hb
    post_run
    refine withFields_good hb ?_ (by env_keys) (by env_keys) timed_sub_commb (by env_keys)
    intro kv hkv
    simp only [List.cons_append, List.nil_append, List.mem_cons, List.mem_nil_iff, or_false, dfTag, fld] at hkv
    rcases hkv with rfl | rfl | rfl
    · exact ⟨_, rfl, rfl, by spec_eval; simp⟩
    · exact ⟨_, rfl, rfl, by spec_eval; exact squawk_octal f hf⟩
    · exact ⟨_, rfl, rfl, by spec_eval; simp⟩
  · -- DF24..31 / unknown
    apply post_ite
    · intro _
      post_run
      apply post_any; intro md _
      post_run
      apply lit_good _ (by simp only [dfTag]; keys_decide) (by simp only [dfTag]; keys_decide)
      · simp only [dfTag]; fields_cases
        exact wf_arr_jnat _
      · simp only [dfTag]; range_cases
        exact inRange_arr_jnat _
    · intro _; intro a s' e; unfold R.fail at e; cases e

end Message
end Rs1090.Model
