/-
C07/C08 composition at message level: if every payload reader's result serialises well and is in
range, then whatever `Message.tryFrom` accepts is one well-formed JSON object (no serde error, no
duplicate key at any level, finite numbers), every constrained quantity is in its physical range, and
its `df` / `icao24` entries are those of the frame.
-/
import Rs1090.Proofs.Decode.CommbSer
import Rs1090.Model.Decode.Message
namespace Rs1090.Model
open Rs1090

/-- both facts about a payload flattened into the message (`avoid` = keys it must not repeat) -/
def PayGood (avoid : List Nat) (r : SerFields) : Prop := SerGood avoid r ∧ RangeGood r

namespace Message

/-- per-reader facts for the ADS-B payloads (instantiated in Props/C07, C08) -/
structure AdsbGood : Prop where
  b05 : ∀ s, post Bds05.read (fun r _ => PayGood outerKeys r) s
  b06 : ∀ s, post Bds06.read (fun r _ => PayGood outerKeys r) s
  b08 : ∀ s, post Bds08.read (fun r _ => PayGood outerKeys r) s
  b09 : ∀ s, post Bds09.read (fun r _ => PayGood outerKeys r) s
  b61 : ∀ s, post Bds61.read (fun r _ => PayGood outerKeys r) s
  b62 : ∀ s, post Bds62.read (fun r _ => PayGood outerKeys r) s
  b65 : ∀ s, post Bds65.read (fun r _ => PayGood outerKeys r) s

/-- keys of the DF17/18 envelope -/
def envKeys : List Nat := [(key! "df").id, (key! "icao24").id, (key! "tisb").id]

theorem specFor_bds : specFor (key! "bds").id = none := by decide

/-- tagging with `bds` keeps a payload good, now avoiding only the envelope keys -/
theorem tagged_good {name : Key} {inner : SerFields} (h : PayGood outerKeys inner) :
    PayGood envKeys (tagged (key! "bds") name inner) := by
  obtain ⟨⟨fs, rfl, hnd, hav, hwf⟩, hr⟩ := h
  have hobj : Fields.toObj (fld (key! "bds") (.lit name) :: fs) = (key! "bds", Json.lit name) :: fs.toObj := by
    simp [Fields.toObj, fld]
  refine ⟨⟨fld (key! "bds") (.lit name) :: fs, rfl, ?_, ?_, ?_⟩, ?_⟩
  · rw [hobj]
    simp only [keyIds, List.map_cons, List.nodup_cons]
    refine ⟨?_, hnd⟩
    intro hm
    exact hav _ hm (by simp [outerKeys])
  · rw [hobj]
    intro k hk
    simp only [keyIds, List.map_cons, List.mem_cons] at hk
    rcases hk with rfl | hk
    · decide
    · intro hin
      exact hav k hk (by simp only [envKeys, List.mem_cons, List.mem_nil_iff, or_false] at hin
                         simp only [outerKeys, List.mem_cons, List.mem_nil_iff, or_false]
                         rcases hin with h | h | h <;> simp [h])
  · rw [hobj]; simp only [Json.wfObj, Bool.and_eq_true]; exact ⟨rfl, hwf⟩
  · intro fs' e
    cases e
    rw [hobj]
    simp only [Json.inRangeObj, specFor_bds, Bool.and_eq_true]
    exact ⟨by simp [Json.inRange], hr fs rfl⟩

theorem unused_good (s : Rd) : post unused (fun r _ => PayGood outerKeys r) s := by
  unfold unused
  post_run
  exact ⟨serGood_of _ [] (by simp) (by simp) (by simp), rangeGood_of [] (by simp)⟩

theorem meBody_good (H : AdsbGood) (tc : Nat) (s : Rd) : post (meBody tc) (fun r _ => PayGood envKeys r) s := by
  unfold meBody
  have tg : ∀ {α} (m : R α) (rd : R SerFields) (name : Key) (s : Rd),
      (∀ s, post rd (fun r _ => PayGood outerKeys r) s) →
      post (m >>= fun _ => rd >>= fun v => pure (tagged (key! "bds") name v)) (fun r _ => PayGood envKeys r) s := by
    intro α m rd name s h
    apply post_bind; apply post_any; intro _ s1
    apply post_bind; refine post_mono (h s1) ?_
    intro v s2 hv
    exact post_pure _ _ _ (tagged_good hv)
  have tg0 : ∀ (rd : R SerFields) (name : Key) (s : Rd),
      (∀ s, post rd (fun r _ => PayGood outerKeys r) s) →
      post (rd >>= fun v => pure (tagged (key! "bds") name v)) (fun r _ => PayGood envKeys r) s := by
    intro rd name s h
    apply post_bind; refine post_mono (h s) ?_
    intro v s2 hv
    exact post_pure _ _ _ (tagged_good hv)
  apply post_ite; · intro _; exact tg0 _ _ _ unused_good
  intro _; apply post_ite; · intro _; exact tg _ _ _ _ H.b08
  intro _; apply post_ite; · intro _; exact tg _ _ _ _ H.b06
  intro _; apply post_ite; · intro _; exact tg _ _ _ _ H.b05
  intro _; apply post_ite; · intro _; exact tg0 _ _ _ H.b09
  intro _; apply post_ite; · intro _; exact tg0 _ _ _ unused_good
  intro _; apply post_ite; · intro _; exact tg0 _ _ _ unused_good
  intro _; apply post_ite
  · intro _
    post_run
    apply tagged_good
    refine ⟨serGood_of _ _ (by keys_decide) (by keys_decide) (by fields_cases), ?_⟩
    apply rangeGood_of; range_cases
  intro _; apply post_ite; · intro _; exact tg0 _ _ _ H.b61
  intro _; apply post_ite; · intro _; exact tg0 _ _ _ H.b62
  intro _; apply post_ite; · intro _; exact tg0 _ _ _ unused_good
  intro _; exact tg0 _ _ _ H.b65

end Message
end Rs1090.Model
