/-
BDS 6,2 target state and status — lemmas on `Model/Decode/Bds62.lean`:
panic-freedom (C01), serialisability (C07) and ranges (C08), for every reader state.
-/
import Rs1090.Proofs.Decode.FieldsLemmas
import Rs1090.Model.Decode.Bds62
import Rs1090.Props.C13
namespace Rs1090.Model.Bds62
open Rs1090 Rs1090.Model

/-! ### per-field lemmas over the full code spaces -/

/-- selected altitude: `None` for codes 0/1, else a multiple of 100 ft in [0, 65400] -/
def altOk : Option Nat → Bool
  | none => true
  | some a => decide (a % 100 = 0) && decide (a ≤ 65400)

/-- all 2^11 codes: the `u16` arithmetic `((a-1)*32+16)/100*100` never overflows -/
theorem selectedAltitude_spec : ∀ v, v < 2 ^ 11 →
    Outcome.check altOk (selectedAltitude v) = true :=
  Rs1090.Props.C13.enum 11 (by decide +kernel)

/-- barometric setting: a finite number (denominator `2^24`) within [800, 1208.0001] mbar, and within
    1e-4 mbar of the real-number value `800 + 0.8 (qnh - 1)` -/
def baroOk (qnh : Nat) : Option (Nat × Nat) → Bool
  | none => qnh == 0
  | some (n, d) => d != 0 && decide (800 * d ≤ n) && decide (n * 10000 ≤ 12080001 * d) &&
      decide (((n : Int) * 10 - (qnhIdealTenths qnh : Int) * d).natAbs * 10000 < 10 * d)

/-- all 2^9 codes -/
theorem barometricSetting_spec : ∀ q, q < 2 ^ 9 →
    Outcome.check (baroOk q) (barometricSetting q) = true :=
  Rs1090.Props.C13.enum 9 (by decide +kernel)

/-- `heading * 180 / 256` lies in [0, 360) for every 9-bit code -/
theorem heading_range (h : Nat) (hh : h < 2 ^ 9) :
    Constraint.holds (.range 0 360 false) (jrat (headingNum h) headingDen) = true := by
  simp [Constraint.holds, jrat, ratIn, headingNum, headingDen]
  omega

theorem selectedAltitude_noPanic (v : Nat) (h : v < 2 ^ 11) : (selectedAltitude v).isPanic = false :=
  (Outcome.of_check (selectedAltitude_spec v h)).1

theorem barometricSetting_noPanic (q : Nat) (h : q < 2 ^ 9) : (barometricSetting q).isPanic = false :=
  (Outcome.of_check (barometricSetting_spec q h)).1

/-! ### keys -/

theorem sf_source : specFor (key! "source").id = none := rfl
theorem sf_selalt : specFor (key! "selected_altitude").id = none := rfl
theorem sf_baro : specFor (key! "barometric_setting").id = none := rfl
theorem sf_selhdg : specFor (key! "selected_heading").id = some (.range 0 360 false) := rfl
theorem sf_nacp : specFor (key! "NACp").id = none := rfl
theorem sf_autopilot : specFor (key! "autopilot").id = none := rfl
theorem sf_vnav : specFor (key! "vnav_mode").id = none := rfl
theorem sf_althold : specFor (key! "alt_hold").id = none := rfl
theorem sf_approach : specFor (key! "approach_mode").id = none := rfl
theorem sf_tcas : specFor (key! "tcas_operational").id = none := rfl
theorem sf_lnav : specFor (key! "lnav_mode").id = none := rfl

theorem modeFlag_wf (k : Key) (ms v : Bool) : entryWf (skipNone k (modeFlag ms v)) = true := by
  cases ms <;> simp [modeFlag]

theorem modeFlag_inRange (k : Key) (ms v : Bool) (hk : specFor k.id = none) :
    entryInRange (skipNone k (modeFlag ms v)) = true := by
  cases ms
  · rfl
  · exact entryInRange_free k _ hk (by simp)

/-- everything at once: no panic; the result serialises and is in range -/
theorem read_spec (s : Rd) : wp read (fun r _ => SerGood outerKeys r ∧ RangeGood r) s := by
  unfold read
  wp_run
  have halt := Outcome.of_check (selectedAltitude_spec _ (by assumption))
  apply wp_lift_of halt.1; intro alt ealt
  have halt' := halt.2 alt ealt
  wp_run
  have hq := Outcome.of_check (barometricSetting_spec _ (by assumption))
  apply wp_lift_of hq.1; intro qnh eqnh
  have hq' := hq.2 qnh eqnh
  wp_run
  rename_i hdgStatus _ hdgRaw _ hhdg _ _ _ _ _ _ _ _ modeStatus _ _ _ _ _ _ _ _ _ _ _ _ _ _ _ _
  have hqwf : entryWf (skipNone (key! "barometric_setting") (qnh.map fun (n, d) => jrat n d)) = true := by
    cases qnh with
    | none => rfl
    | some nd =>
      obtain ⟨n, d⟩ := nd
      simp only [baroOk, Bool.and_eq_true] at hq'
      simpa using hq'.1.1.1
  refine ⟨?_, ?_⟩
  · refine serGood_of_fields _ _ (by ids_tac) (by ids_tac) ?_
    simp only [List.all_cons, List.all_nil, Bool.and_true, Bool.and_eq_true]
    refine ⟨by simp, entryWf_skipNone_map _ _ _ (by simp), hqwf, ?_, by simp, modeFlag_wf _ _ _, modeFlag_wf _ _ _,
      modeFlag_wf _ _ _, modeFlag_wf _ _ _, by simp, modeFlag_wf _ _ _⟩
    cases hdgStatus <;> simp [headingDen]
  · apply rangeGood_of_fields
    simp only [List.all_cons, List.all_nil, Bool.and_true, Bool.and_eq_true]
    refine ⟨entryInRange_free _ _ sf_source (by simp), ?_, ?_, ?_, entryInRange_free _ _ sf_nacp (by simp),
      modeFlag_inRange _ _ _ sf_autopilot, modeFlag_inRange _ _ _ sf_vnav, modeFlag_inRange _ _ _ sf_althold,
      modeFlag_inRange _ _ _ sf_approach, entryInRange_free _ _ sf_tcas (by simp), modeFlag_inRange _ _ _ sf_lnav⟩
    · exact entryInRange_free_opt _ _ sf_selalt (by intro v hv; cases alt <;> simp at hv; subst hv; simp)
    · exact entryInRange_free_opt _ _ sf_baro (by
        intro v hv; cases qnh with
        | none => simp at hv
        | some nd => obtain ⟨n, d⟩ := nd; simp at hv; subst hv; simp)
    · cases hdgStatus
      · rfl
      · exact entryInRange_spec _ _ _ sf_selhdg (heading_range hdgRaw hhdg)

theorem read_noPanic : NoPanic read := fun s => wp_mono (read_spec s) (fun _ _ _ => trivial)

/-- C07 -/
theorem read_serGood : ∀ s, wp read (fun r _ => SerGood outerKeys r) s :=
  fun s => wp_mono (read_spec s) (fun _ _ h => h.1)

/-- C08: `selected_heading` ∈ [0, 360) -/
theorem read_rangeGood : ∀ s, wp read (fun r _ => RangeGood r) s :=
  fun s => wp_mono (read_spec s) (fun _ _ h => h.2)

end Rs1090.Model.Bds62
