import Rs1090.Proofs.Decode.Commb
import Rs1090.Model.Decode.Checksum
namespace Rs1090.Model
open Rs1090

theorem crcTable_len : Gen.Crc.crcTable.length = 256 := by decide +kernel

theorem idx_noPanic {α} (xs : List α) (i : Nat) (h : i < xs.length) : (idx xs i).isPanic = false := by
  unfold idx; rw [List.getElem?_eq_getElem h]; rfl

theorem crcIndex_lt (b rem : Nat) (hb : b < 256) : b ^^^ ((rem &&& 0xff0000) >>> 16) < 256 := by
  have h1 : (rem &&& 0xff0000) >>> 16 < 2 ^ 8 := by
    rw [Nat.shiftRight_eq_div_pow]
    have : rem &&& 0xff0000 ≤ 0xff0000 := Nat.and_le_right
    omega
  exact Nat.xor_lt_two_pow (n := 8) hb h1

theorem crcLoop_noPanic : ∀ (bs : List Nat) (rem : Nat), (∀ b ∈ bs, b < 256) →
    (crcLoop bs rem).isPanic = false
  | [], _, _ => rfl
  | b :: rest, rem, h => by
    unfold crcLoop
    apply Outcome.bind_noPanic
    · exact idx_noPanic _ _ (by rw [crcTable_len]; exact crcIndex_lt b rem (h b (by simp)))
    · intro t; exact crcLoop_noPanic rest _ (fun x hx => h x (by simp [hx]))

/-- `modes_checksum` never indexes outside the table or the message -/
theorem modesChecksum_noPanic (msg : List Nat) (bits : Nat) (h : ∀ b ∈ msg, b < 256) :
    (modesChecksum msg bits).isPanic = false := by
  unfold modesChecksum
  simp only []
  split
  · rfl
  · rename_i hc
    simp only [Bool.or_eq_true, decide_eq_true_eq, not_or, Nat.not_lt] at hc
    apply Outcome.bind_noPanic (crcLoop_noPanic _ _ (fun b hb => h b (List.mem_of_mem_take hb))); intro _
    apply Outcome.bind_noPanic (idx_noPanic _ _ (by omega)); intro _
    apply Outcome.bind_noPanic (idx_noPanic _ _ (by omega)); intro _
    apply Outcome.bind_noPanic (idx_noPanic _ _ (by omega)); intro _
    rfl

end Rs1090.Model
