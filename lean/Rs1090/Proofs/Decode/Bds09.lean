/-
BDS 0,9 airborne velocity — lemmas on `Model/Decode/Bds09.lean`:
panic-freedom (C01), serialisability (C07) and ranges (C08), for every reader state
(all subtypes, including the reserved ones 0, 5, 6, 7).
-/
import Rs1090.Proofs.Decode.FieldsLemmas
import Rs1090.Model.Decode.Bds09
import Rs1090.Props.C13
namespace Rs1090.Model.Bds09
open Rs1090 Rs1090.Model

/-! ### per-field lemmas over the full code spaces (kernel enumeration) -/

/-- a velocity component is an integer in [-1022, 1022] LSBs (1 kt; 4 kt for subtype 2: [-4088, 4088]) -/
def velOk (subtype : Nat) (r : Int) : Bool :=
  decide (-1022 * velLsb subtype ≤ r) && decide (r ≤ 1022 * velLsb subtype)

/-- all 2 × 2 × 2^10 (subtype 1 or 2, sign, code) triples: `(val as i16 - 1) * sign * lsb` never overflows -/
theorem velComponent_enum : ∀ x, x < 2 ^ 12 →
    Outcome.check (velOk (1 + x / 2048)) (velComponent (1 + x / 2048) (x / 1024 % 2) (x % 1024)) = true :=
  Rs1090.Props.C13.enum 12 (by decide +kernel)

/-- only `subtype == 2` matters -/
theorem velLsb_canon (subtype : Nat) : velLsb subtype = velLsb (if subtype = 2 then 2 else 1) := by
  unfold velLsb; split <;> simp_all

theorem velComponent_spec (subtype sign val : Nat) (hs : sign < 2 ^ 1) (hv : val < 2 ^ 10) :
    Outcome.check (velOk subtype) (velComponent subtype sign val) = true := by
  have hc : velComponent subtype sign val = velComponent (if subtype = 2 then 2 else 1) sign val := by
    unfold velComponent; rw [velLsb_canon]
  have ho : velOk subtype = velOk (if subtype = 2 then 2 else 1) := by
    funext r; unfold velOk; rw [velLsb_canon]
  rw [hc, ho]
  by_cases h2 : subtype = 2
  · have h := velComponent_enum (2048 + sign * 1024 + val) (by omega)
    have e0 : 1 + (2048 + sign * 1024 + val) / 2048 = 2 := by omega
    have e1 : (2048 + sign * 1024 + val) / 1024 % 2 = sign := by omega
    have e2 : (2048 + sign * 1024 + val) % 1024 = val := by omega
    rw [e0, e1, e2] at h; simpa [h2] using h
  · have h := velComponent_enum (sign * 1024 + val) (by omega)
    have e0 : 1 + (sign * 1024 + val) / 2048 = 1 := by omega
    have e1 : (sign * 1024 + val) / 1024 % 2 = sign := by omega
    have e2 : (sign * 1024 + val) % 1024 = val := by omega
    rw [e0, e1, e2] at h; simpa [h2] using h

/-- vertical rate: absent, or a multiple of 64 ft/min within ±32640 -/
def vrateOk : Option Int → Bool
  | none => true
  | some r => Constraint.holds (.multiple 64 (-32640) 32640) (jint r)

/-- all 2 × 2^9 (sign, code) pairs: `sign * (v as i16 - 1) * 64` never overflows an `i16` -/
theorem vrate_enum : ∀ x, x < 2 ^ 10 → Outcome.check vrateOk (vrate (x / 512) (x % 512)) = true :=
  Rs1090.Props.C13.enum 10 (by decide +kernel)

theorem vrate_spec (sign v : Nat) (hs : sign < 2 ^ 1) (hv : v < 2 ^ 9) :
    Outcome.check vrateOk (vrate sign v) = true := by
  have h := vrate_enum (sign * 512 + v) (by omega)
  have e1 : (sign * 512 + v) / 512 = sign := by omega
  have e2 : (sign * 512 + v) % 512 = v := by omega
  rwa [e1, e2] at h

/-- GNSS-baro difference: absent, or a multiple of 25 ft within ±3150 -/
def geoOk : Option Int → Bool
  | none => true
  | some r => decide (r % 25 = 0) && decide (-3150 ≤ r) && decide (r ≤ 3150)

/-- all 2 × 2^7 (sign, code) pairs -/
theorem geoBaro_enum : ∀ x, x < 2 ^ 8 → Outcome.check geoOk (geoBaro (x / 128) (x % 128)) = true :=
  Rs1090.Props.C13.enum 8 (by decide +kernel)

theorem geoBaro_spec (sign v : Nat) (hs : sign < 2 ^ 1) (hv : v < 2 ^ 7) :
    Outcome.check geoOk (geoBaro sign v) = true := by
  have h := geoBaro_enum (sign * 128 + v) (by omega)
  have e1 : (sign * 128 + v) / 128 = sign := by omega
  have e2 : (sign * 128 + v) % 128 = v := by omega
  rwa [e1, e2] at h

/-- subsonic airspeed: absent or ≤ 1022 kt -/
def speedOk (hi : Nat) : Option Nat → Bool
  | none => true
  | some a => decide (a ≤ hi)

theorem airspeedSub_spec : ∀ v, v < 2 ^ 10 → Outcome.check (speedOk 1022) (airspeedSub v) = true :=
  Rs1090.Props.C13.enum 10 (by decide +kernel)

/-- supersonic airspeed `4 * (v - 1)` (u16): absent or ≤ 4088 kt -/
theorem airspeedSuper_spec : ∀ v, v < 2 ^ 10 → Outcome.check (speedOk 4088) (airspeedSuper v) = true :=
  Rs1090.Props.C13.enum 10 (by decide +kernel)

/-- `val * 360 / 1024` lies in [0, 360) for every 10-bit code -/
theorem heading_range (h : Nat) (hh : h < 2 ^ 10) :
    Constraint.holds (.range 0 360 false) (jrat (headingNum h) headingDen) = true := by
  simp [Constraint.holds, jrat, ratIn, headingNum, headingDen]
  omega

/-! ### keys -/

theorem sf_nacv : specFor (key! "NACv").id = none := rfl
theorem sf_gs : specFor (key! "groundspeed").id = some .nonneg := rfl
theorem sf_track : specFor (key! "track").id = some (.range 0 360 false) := rfl
theorem sf_heading : specFor (key! "heading").id = some (.range 0 360 false) := rfl
theorem sf_ias : specFor (key! "IAS").id = some .nonneg := rfl
theorem sf_tas : specFor (key! "TAS").id = some .nonneg := rfl
theorem sf_vsrc : specFor (key! "vrate_src").id = none := rfl
theorem sf_vrate : specFor (key! "vertical_rate").id = some (.multiple 64 (-32640) 32640) := rfl
theorem sf_geo : specFor (key! "geo_minus_baro").id = none := rfl

/-! ### the flattened velocity block -/

/-- what `readVelocity` may return: one of four key shapes, all values well formed and in range -/
def VelGood (vel : Fields) : Prop :=
  (vel.ids = [] ∨ vel.ids = [(key! "groundspeed").id, (key! "track").id] ∨
   vel.ids = [(key! "heading").id, (key! "IAS").id] ∨ vel.ids = [(key! "heading").id, (key! "TAS").id]) ∧
  vel.all entryWf = true ∧ vel.all entryInRange = true

theorem velGood_nil : VelGood [] := ⟨Or.inl rfl, rfl, rfl⟩

theorem holds_nonneg_jnat (n : Nat) : Constraint.holds .nonneg (jnat n) = true := by
  simp [Constraint.holds, jnat]

theorem airspeedFields_good (status : Bool) (hdg asType : Nat) (speed : Option Nat) (hh : hdg < 2 ^ 10) :
    VelGood (airspeedFields (if status then some (jrat (headingNum hdg) headingDen) else none) asType speed) := by
  unfold airspeedFields
  have hw1 : entryWf (skipNone (key! "heading")
      (if status then some (jrat (headingNum hdg) headingDen) else none)) = true := by
    cases status <;> simp [headingDen]
  have hr1 : entryInRange (skipNone (key! "heading")
      (if status then some (jrat (headingNum hdg) headingDen) else none)) = true := by
    cases status
    · rfl
    · exact entryInRange_spec _ _ _ sf_heading (heading_range hdg hh)
  by_cases ht : (asType == 0) = true
  · simp only [ht, if_true]
    refine ⟨Or.inr (Or.inr (Or.inl rfl)), ?_, ?_⟩
    · simp only [List.all_cons, List.all_nil, Bool.and_true, Bool.and_eq_true]
      exact ⟨hw1, entryWf_skipNone_map _ _ _ (by simp)⟩
    · simp only [List.all_cons, List.all_nil, Bool.and_true, Bool.and_eq_true]
      refine ⟨hr1, entryInRange_spec_opt _ _ _ sf_ias ?_⟩
      intro v hv; cases speed <;> simp at hv; subst hv; exact holds_nonneg_jnat _
  · simp only [ht]
    refine ⟨Or.inr (Or.inr (Or.inr rfl)), ?_, ?_⟩
    · simp only [List.all_cons, List.all_nil, Bool.and_true, Bool.and_eq_true]
      exact ⟨hw1, entryWf_skipNone_map _ _ _ (by simp)⟩
    · simp only [List.all_cons, List.all_nil, Bool.and_true, Bool.and_eq_true]
      refine ⟨hr1, entryInRange_spec_opt _ _ _ sf_tas ?_⟩
      intro v hv; cases speed <;> simp at hv; subst hv; exact holds_nonneg_jnat _

theorem readGroundSpeed_spec (subtype : Nat) (s : Rd) : wp (readGroundSpeed subtype) (fun vel _ => VelGood vel) s := by
  unfold readGroundSpeed
  wp_run
  apply wp_lift_of (Outcome.of_check (velComponent_spec _ _ _ (by assumption) (by assumption))).1; intro ew _
  wp_run
  apply wp_lift_of (Outcome.of_check (velComponent_spec _ _ _ (by assumption) (by assumption))).1; intro ns _
  wp_run
  refine ⟨Or.inr (Or.inl rfl), ?_, ?_⟩
  · simp [groundspeedJ, trackJ]
  · simp only [List.all_cons, List.all_nil, Bool.and_true, Bool.and_eq_true]
    exact ⟨entryInRange_spec _ _ _ sf_gs rfl, entryInRange_spec _ _ _ sf_track rfl⟩

theorem readAirspeedSub_spec (s : Rd) : wp readAirspeedSub (fun vel _ => VelGood vel) s := by
  unfold readAirspeedSub
  wp_run
  apply wp_lift_of (Outcome.of_check (airspeedSub_spec _ (by assumption))).1; intro speed _
  wp_run
  exact airspeedFields_good _ _ _ _ (by assumption)

theorem readAirspeedSuper_spec (s : Rd) : wp readAirspeedSuper (fun vel _ => VelGood vel) s := by
  unfold readAirspeedSuper
  wp_run
  apply wp_lift_of (Outcome.of_check (airspeedSuper_spec _ (by assumption))).1; intro speed _
  wp_run
  exact airspeedFields_good _ _ _ _ (by assumption)

theorem readVelocity_spec (subtype : Nat) (s : Rd) : wp (readVelocity subtype) (fun vel _ => VelGood vel) s := by
  unfold readVelocity
  wp_run
  wp_if h
  · wp_run; exact velGood_nil
  wp_if h
  · exact readGroundSpeed_spec _ _
  wp_if h
  · exact readAirspeedSub_spec _
  wp_if h
  · exact readAirspeedSuper_spec _
  · wp_run; exact velGood_nil

/-! ### the register -/

/-- everything at once: no panic; the result serialises and is in range -/
theorem read_spec (s : Rd) : wp read (fun r _ => SerGood outerKeys r ∧ RangeGood r) s := by
  unfold read
  wp_run
  refine wp_mono (readVelocity_spec _ _) ?_
  intro vel s1 hvel
  wp_run
  have hvr := Outcome.of_check (vrate_spec _ _ (by assumption) (by assumption))
  apply wp_lift_of hvr.1; intro vr evr
  have hvr' := hvr.2 vr evr
  wp_run
  have hgb := Outcome.of_check (geoBaro_spec _ _ (by assumption) (by assumption))
  apply wp_lift_of hgb.1; intro gb _
  wp_run
  obtain ⟨hids, hwf, hrg⟩ := hvel
  refine ⟨?_, ?_⟩
  · refine serGood_of_fields _ _ ?_ ?_ ?_
    · rcases hids with h | h | h | h <;>
        (simp only [Fields.ids_append, Fields.ids_cons, Fields.ids_nil, fld_fst, skipNone_fst, fldOpt_fst, h]; decide)
    · rcases hids with h | h | h | h <;>
        (simp only [Fields.ids_append, Fields.ids_cons, Fields.ids_nil, fld_fst, skipNone_fst, fldOpt_fst, h]; decide)
    · simp only [List.all_append, List.all_cons, List.all_nil, Bool.and_true, Bool.and_eq_true]
      exact ⟨⟨by simp, hwf⟩, by simp, entryWf_skipNone_map _ _ _ (by simp), entryWf_fldOpt_map _ _ _ (by simp)⟩
  · apply rangeGood_of_fields
    simp only [List.all_append, List.all_cons, List.all_nil, Bool.and_true, Bool.and_eq_true]
    refine ⟨⟨entryInRange_free _ _ sf_nacv (by simp), hrg⟩, entryInRange_free _ _ sf_vsrc (by simp), ?_, ?_⟩
    · refine entryInRange_spec_opt _ _ _ sf_vrate ?_
      intro v hv; cases vr <;> simp at hv; subst hv; exact hvr'
    · refine entryInRange_free _ _ sf_geo ?_
      cases gb <;> simp

theorem read_noPanic : NoPanic read := fun s => wp_mono (read_spec s) (fun _ _ _ => trivial)

/-- C07: every subtype (reserved ones included, after fix d0d10b1) serialises; keys distinct -/
theorem read_serGood : ∀ s, wp read (fun r _ => SerGood outerKeys r) s :=
  fun s => wp_mono (read_spec s) (fun _ _ h => h.1)

/-- C08: `groundspeed` ≥ 0, `track`/`heading` ∈ [0, 360), `IAS`/`TAS` ≥ 0,
    `vertical_rate` ∈ 64·ℤ ∩ [−32640, 32640] -/
theorem read_rangeGood : ∀ s, wp read (fun r _ => RangeGood r) s :=
  fun s => wp_mono (read_spec s) (fun _ _ h => h.2)

end Rs1090.Model.Bds09
