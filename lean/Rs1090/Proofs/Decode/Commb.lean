import Rs1090.Proofs.Decode.Wp
import Rs1090.Proofs.Decode.Bds05
import Rs1090.Proofs.Decode.Bds10
import Rs1090.Proofs.Decode.Bds17
import Rs1090.Proofs.Decode.Bds18
import Rs1090.Proofs.Decode.Bds19
import Rs1090.Proofs.Decode.Bds20
import Rs1090.Proofs.Decode.Bds21
import Rs1090.Proofs.Decode.Bds30
import Rs1090.Proofs.Decode.Bds40
import Rs1090.Proofs.Decode.Bds44
import Rs1090.Proofs.Decode.Bds45
import Rs1090.Proofs.Decode.Bds50
import Rs1090.Proofs.Decode.Bds60
import Rs1090.Proofs.Decode.Bds65
import Rs1090.Model.Decode.Commb
namespace Rs1090.Model
open Rs1090

theorem Outcome.bind_noPanic {α β} {x : Outcome α} {f : α → Outcome β}
    (hx : x.isPanic = false) (hf : ∀ a, (f a).isPanic = false) : (x >>= f).isPanic = false := by
  show (Outcome.bind x f).isPanic = false
  cases x with
  | ok a => rw [Outcome.bind_ok]; exact hf a
  | err e => rw [Outcome.bind_err]; rfl
  | panic s => simp [Outcome.isPanic] at hx

theorem tryFromBytes_noPanic {α} {r : R α} (h : NoPanic r) (buf : List Nat) :
    (tryFromBytes r buf).isPanic = false := by
  have := (noPanicAt_iff r (Rd.init buf)).mp (h _)
  unfold tryFromBytes R.run
  cases hr : r (Rd.init buf) with
  | ok v => cases v; simp only []; split <;> rfl
  | err e => rfl
  | panic x => rw [hr] at this; simp [Outcome.isPanic] at this

namespace Commb

theorem hypo_noPanic {r : R SerFields} (h : NoPanic r) (buf : List Nat) :
    (hypo r buf).isPanic = false := by
  have := tryFromBytes_noPanic h buf
  unfold hypo
  cases hr : tryFromBytes r buf with
  | ok v => rfl
  | err e => rfl
  | panic x => rw [hr] at this; simp [Outcome.isPanic] at this

/-- the thirteen speculative register decoders never abort, whatever the 56 payload bits -/
theorem common_noPanic (buf : List Nat) (b05 : Option SerFields) :
    (common buf b05).isPanic = false := by
  unfold common
  apply Outcome.bind_noPanic (hypo_noPanic Bds10.read_noPanic buf); intro _
  apply Outcome.bind_noPanic (hypo_noPanic Bds17.read_noPanic buf); intro _
  apply Outcome.bind_noPanic (hypo_noPanic Bds18.read_noPanic buf); intro _
  apply Outcome.bind_noPanic (hypo_noPanic Bds19.read_noPanic buf); intro _
  apply Outcome.bind_noPanic (hypo_noPanic Bds20.read_noPanic buf); intro _
  apply Outcome.bind_noPanic (hypo_noPanic Bds21.read_noPanic buf); intro _
  apply Outcome.bind_noPanic (hypo_noPanic Bds30.read_noPanic buf); intro _
  apply Outcome.bind_noPanic (hypo_noPanic Bds40.read_noPanic buf); intro _
  apply Outcome.bind_noPanic (hypo_noPanic Bds44.read_noPanic buf); intro _
  apply Outcome.bind_noPanic (hypo_noPanic Bds45.read_noPanic buf); intro _
  apply Outcome.bind_noPanic (hypo_noPanic Bds50.read_noPanic buf); intro _
  apply Outcome.bind_noPanic (hypo_noPanic Bds60.read_noPanic buf); intro _
  simp only []
  split
  · apply Outcome.bind_noPanic (hypo_noPanic Bds65.readEnum_noPanic buf); intro _; rfl
  · rfl

theorem b05_noPanic (ac : Nat) (buf : List Nat) (c : Bool) :
    (if c then
      match tryFromBytes Bds05.read buf with
      | .ok (.ok fs) =>
        (match fs.get? (key! "altitude") with
         | some (.int a) => if a == (ac : Int) then Outcome.ok (some (Except.ok fs)) else .ok none
         | _ => .ok none)
      | .ok (.error e) => .ok (some (.error e))
      | .err _ => .ok none
      | .panic x => .panic x
    else Outcome.ok (none : Option SerFields)).isPanic = false := by
  have := tryFromBytes_noPanic Bds05.read_noPanic buf
  cases c
  · rfl
  · simp only [if_true]
    cases hr : tryFromBytes Bds05.read buf with
    | ok v =>
      cases v with
      | ok fs => simp only []; split <;> (try split) <;> rfl
      | error e => rfl
    | err e => rfl
    | panic x => rw [hr] at this; simp [Outcome.isPanic] at this

theorem df20_noPanic (ac : Nat) : NoPanic (df20 ac) := by
  intro s
  unfold NoPanicAt df20
  rw [wp_bind]; apply wp_of_noPanic (noPanic_bytesN 7); intro buf s1
  split
  · wp_run
  · rw [wp_bind]
    apply wp_lift_of (b05_noPanic ac buf _); intro b05 _
    exact wp_lift_of (common_noPanic buf b05) (fun _ _ => trivial)

theorem df21_noPanic : NoPanic df21 := by
  intro s
  unfold NoPanicAt df21
  rw [wp_bind]; apply wp_of_noPanic (noPanic_bytesN 7); intro buf s1
  split
  · wp_run
  · exact wp_lift_of (common_noPanic buf none) (fun _ _ => trivial)

end Commb
end Rs1090.Model
