import Rs1090.Proofs.Decode.Wp
import Rs1090.Model.Decode.Bds08
namespace Rs1090.Model.Bds08
open Rs1090 Rs1090.Model

/-- the 64-entry table: every 6-bit code is a valid index (obligation on the GENERATED table) -/
theorem charLookup_len : Gen.Chars.charLookup08.length = 64 := by decide

theorem callsignChars_wp (k : Nat) (Q : List Nat → Rd → Prop) (s : Rd)
    (h : ∀ cs s', (∀ c ∈ cs, c < 64) → Q cs s') : wp (callsignChars k) Q s := by
  induction k generalizing Q s with
  | zero => unfold callsignChars; rw [wp_pure]; exact h _ _ (by simp)
  | succ k ih =>
    unfold callsignChars
    rw [wp_bind]; apply wp_bits_any; intro c s1 hc
    rw [wp_bind]; apply ih; intro cs s2 hcs
    rw [wp_pure]; apply h
    intro x hx
    split at hx
    · rcases List.mem_cons.mp hx with rfl | hx
      · simpa using hc
      · exact hcs x hx
    · exact hcs x hx

theorem go_noPanic : ∀ cs : List Nat, (∀ c ∈ cs, c < 64) → (callsign.go cs).isPanic = false
  | [], _ => rfl
  | c :: rest, h => by
    have hc : c < 64 := h c (by simp)
    have ih := go_noPanic rest (fun x hx => h x (by simp [hx]))
    unfold callsign.go
    have : idx Gen.Chars.charLookup08 c = .ok (Gen.Chars.charLookup08[c]'(by rw [charLookup_len]; exact hc)) := by
      unfold idx
      rw [List.getElem?_eq_getElem (by rw [charLookup_len]; exact hc)]
    show (Outcome.bind _ _).isPanic = false
    rw [this, Outcome.bind_ok]
    show (Outcome.bind _ _).isPanic = false
    cases hr : callsign.go rest with
    | ok r => rw [Outcome.bind_ok]; rfl
    | err e => rw [Outcome.bind_err]; rfl
    | panic x => rw [hr] at ih; simp [Outcome.isPanic] at ih

theorem callsign_noPanic : NoPanic callsign := by
  intro s
  unfold NoPanicAt callsign
  rw [wp_bind]; apply callsignChars_wp; intro cs s' hcs
  exact wp_lift_of (go_noPanic cs hcs) (fun _ _ => trivial)

theorem read_noPanic : NoPanic read := by
  intro s
  unfold NoPanicAt read
  wp_run
  split
  · wp_run
  · wp_run
    apply wp_of_noPanic callsign_noPanic; intro cs s'
    wp_run

end Rs1090.Model.Bds08
