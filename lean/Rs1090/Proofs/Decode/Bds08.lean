import Rs1090.Proofs.Decode.Wp
import Rs1090.Proofs.Decode.Ser
import Rs1090.Model.Decode.Bds08
namespace Rs1090.Model.Bds08
open Rs1090 Rs1090.Model

/-- the 64-entry table: every 6-bit code is a valid index (obligation on the GENERATED table) -/
theorem charLookup_len : Gen.Chars.charLookup08.length = 64 := by decide

theorem callsignChars_wp (k : Nat) (Q : List Nat → Rd → Prop) (s : Rd)
    (h : ∀ cs s', (∀ c ∈ cs, c < 64) → Q cs s') : wp (callsignChars k) Q s := by
  induction k generalizing Q s with
  | zero => unfold callsignChars; rw [wp_pure]; exact h _ _ (by simp)
  | succ k ih =>
    unfold callsignChars
    rw [wp_bind]; apply wp_bits_any; intro c s1 hc
    rw [wp_bind]; apply ih; intro cs s2 hcs
    rw [wp_pure]; apply h
    intro x hx
    split at hx
    · rcases List.mem_cons.mp hx with rfl | hx
      · simpa using hc
      · exact hcs x hx
    · exact hcs x hx

theorem go_noPanic : ∀ cs : List Nat, (∀ c ∈ cs, c < 64) → (callsign.go cs).isPanic = false
  | [], _ => rfl
  | c :: rest, h => by
    have hc : c < 64 := h c (by simp)
    have ih := go_noPanic rest (fun x hx => h x (by simp [hx]))
    unfold callsign.go
    have : idx Gen.Chars.charLookup08 c = .ok (Gen.Chars.charLookup08[c]'(by rw [charLookup_len]; exact hc)) := by
      unfold idx
      rw [List.getElem?_eq_getElem (by rw [charLookup_len]; exact hc)]
    show (Outcome.bind _ _).isPanic = false
    rw [this, Outcome.bind_ok]
    show (Outcome.bind _ _).isPanic = false
    cases hr : callsign.go rest with
    | ok r => rw [Outcome.bind_ok]; rfl
    | err e => rw [Outcome.bind_err]; rfl
    | panic x => rw [hr] at ih; simp [Outcome.isPanic] at ih

theorem callsign_noPanic : NoPanic callsign := by
  intro s
  unfold NoPanicAt callsign
  rw [wp_bind]; apply callsignChars_wp; intro cs s' hcs
  exact wp_lift_of (go_noPanic cs hcs) (fun _ _ => trivial)

theorem read_noPanic : NoPanic read := by
  intro s
  unfold NoPanicAt read
  wp_run
  split
  · wp_run
  · wp_run
    apply wp_of_noPanic callsign_noPanic; intro cs s'
    wp_run

end Rs1090.Model.Bds08

namespace Rs1090.Model.Bds08
open Rs1090 Rs1090.Model

/-- every entry of the GENERATED 6-bit table is a character of the call-sign alphabet
    (`A–Z`, `0–9`, space, `#` for unassigned codes) — an obligation on the table in /repo -/
theorem charLookup_charset :
    Gen.Chars.charLookup08.all (fun b => callsignAlphabet.contains (Char.ofNat b)) = true := by
  decide +kernel

theorem go_chars : ∀ (cs : List Nat) (out : List Char), callsign.go cs = .ok out →
    out.all (fun c => callsignAlphabet.contains c) = true
  | [], out, h => by
    unfold callsign.go at h; cases h; rfl
  | c :: rest, out, h => by
    unfold callsign.go at h
    change Outcome.bind (idx Gen.Chars.charLookup08 c) _ = _ at h
    cases hi : idx Gen.Chars.charLookup08 c with
    | err e => rw [hi, Outcome.bind_err] at h; cases h
    | panic x => rw [hi, Outcome.bind_panic] at h; cases h
    | ok b =>
      rw [hi, Outcome.bind_ok] at h
      change Outcome.bind (callsign.go rest) _ = _ at h
      cases hr : callsign.go rest with
      | err e => rw [hr, Outcome.bind_err] at h; cases h
      | panic x => rw [hr, Outcome.bind_panic] at h; cases h
      | ok r =>
        rw [hr, Outcome.bind_ok] at h
        cases h
        have hb : callsignAlphabet.contains (Char.ofNat b) = true := by
          unfold idx at hi
          cases hg : Gen.Chars.charLookup08[c]? with
          | none => rw [hg] at hi; cases hi
          | some b' =>
            rw [hg] at hi; cases hi
            have hm : b ∈ Gen.Chars.charLookup08 := List.mem_of_getElem? hg
            exact (List.all_eq_true.mp charLookup_charset) b hm
        simp only [List.all_cons, hb, Bool.true_and]
        exact go_chars rest r hr

/-- the call sign is a string over the 6-bit alphabet -/
theorem callsign_wp (Q : List Char → Rd → Prop) (s : Rd)
    (h : ∀ cs s', cs.all (fun c => callsignAlphabet.contains c) = true → Q cs s') : wp callsign Q s := by
  unfold callsign
  rw [wp_bind]; apply callsignChars_wp; intro cs s' hcs
  apply wp_lift_of (go_noPanic cs hcs)
  intro out hout
  exact h out s' (go_chars cs out hout)

theorem read_serGood (s : Rd) : wp read (fun r _ => SerGood outerKeys r) s := by
  unfold read
  wp_run
  wp_if h
  · wp_run
  · wp_run
    apply callsign_wp; intro cs s' _
    wp_run
    apply serGood_of
    · keys_decide
    · keys_decide
    · fields_cases

theorem read_rangeGood (s : Rd) : wp read (fun r _ => RangeGood r) s := by
  unfold read
  wp_run
  wp_if h
  · wp_run
  · wp_run
    apply callsign_wp; intro cs s' hcs
    wp_run
    apply rangeGood_of
    range_cases
    simpa [Constraint.holds] using hcs

end Rs1090.Model.Bds08
