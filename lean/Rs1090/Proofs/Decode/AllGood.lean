/-
Instantiation of the C07/C08 composition with the per-reader lemmas of all 23 readers.
-/
import Rs1090.Proofs.Decode.MessageSer
import Rs1090.Proofs.Decode.Message
namespace Rs1090.Model
open Rs1090

theorem wp_and {α} {m : R α} {Q1 Q2 : α → Rd → Prop} {s : Rd}
    (h1 : wp m Q1 s) (h2 : wp m Q2 s) : wp m (fun a s' => Q1 a s' ∧ Q2 a s') s := by
  unfold wp at *
  cases h : m s with
  | ok v => obtain ⟨a, s'⟩ := v; rw [h] at h1 h2; exact ⟨h1, h2⟩
  | err e => trivial
  | panic x => rw [h] at h1; exact h1

theorem SerGood.weaken {avoid : List Nat} {r : SerFields} (h : SerGood avoid r) : SerGood [] r := by
  obtain ⟨fs, e, hn, _, hw⟩ := h
  exact ⟨fs, e, hn, by simp, hw⟩

/-- combine the two separately stated lemmas of a register reader -/
theorem regGood_of {rd : R SerFields} {avoid : List Nat}
    (h1 : ∀ s, wp rd (fun r _ => SerGood avoid r) s) (h2 : ∀ s, wp rd (fun r _ => RangeGood r) s) :
    ∀ s, wp rd (fun a _ => Commb.RegGood a) s :=
  fun s => wp_mono (wp_and (h1 s) (h2 s)) (fun _ _ h => ⟨h.1.weaken, h.2⟩)

theorem payGood_of {rd : R SerFields}
    (h1 : ∀ s, wp rd (fun r _ => SerGood outerKeys r) s) (h2 : ∀ s, wp rd (fun r _ => RangeGood r) s) :
    ∀ s, post rd (fun r _ => PayGood outerKeys r) s :=
  fun s => post_of_wp (wp_and (h1 s) (h2 s))

theorem regsGood : Commb.RegsGood where
  b05 := regGood_of Bds05.read_serGood Bds05.read_rangeGood
  b10 := regGood_of Bds10.read_serGood Bds10.read_rangeGood
  b17 := regGood_of Bds17.read_serGood Bds17.read_rangeGood
  b18 := regGood_of Bds18.read_serGood Bds18.read_rangeGood
  b19 := regGood_of Bds19.read_serGood Bds19.read_rangeGood
  b20 := regGood_of Bds20.read_serGood Bds20.read_rangeGood
  b21 := regGood_of Bds21.read_serGood Bds21.read_rangeGood
  b30 := regGood_of Bds30.read_serGood Bds30.read_rangeGood
  b40 := regGood_of Bds40.read_serGood Bds40.read_rangeGood
  b44 := regGood_of Bds44.read_serGood Bds44.read_rangeGood
  b45 := regGood_of Bds45.read_serGood Bds45.read_rangeGood
  b50 := regGood_of Bds50.read_serGood Bds50.read_rangeGood
  b60 := regGood_of Bds60.read_serGood Bds60.read_rangeGood
  b65 := regGood_of Bds65.readEnum_serGood Bds65.readEnum_rangeGood

theorem adsbGood : Message.AdsbGood where
  b05 := payGood_of Bds05.read_serGood Bds05.read_rangeGood
  b06 := Bds06.read_good
  b08 := payGood_of Bds08.read_serGood Bds08.read_rangeGood
  b09 := payGood_of Bds09.read_serGood Bds09.read_rangeGood
  b61 := payGood_of Bds61.read_serGood Bds61.read_rangeGood
  b62 := payGood_of Bds62.read_serGood Bds62.read_rangeGood
  b65 := payGood_of Bds65.read_serGood Bds65.read_rangeGood

theorem allGood : Message.AllGood := ⟨adsbGood, regsGood⟩

namespace Message

theorem df_good (crc : Nat) (s : Rd) : post (df crc) (fun r _ => MsgGood r) s := by
  unfold df
  apply post_bind; apply post_any; intro id s1
  exact dfBody_good allGood crc id s1

theorem decodeBuf_good (b0 : Nat) (buf : List Nat) (v : SerFields) (h : decodeBuf b0 buf = .ok v) :
    MsgGood v := by
  unfold decodeBuf at h
  cases hm : modesChecksum buf (frameBits b0) with
  | err e => rw [hm] at h; cases h
  | panic x => rw [hm] at h; cases h
  | ok crc =>
    rw [hm] at h
    simp only [] at h
    split at h
    · cases h
    · unfold R.run at h
      cases hr : df crc (Rd.init buf) with
      | ok r =>
        obtain ⟨a, s'⟩ := r
        rw [hr] at h
        simp only [Outcome.ok.injEq] at h
        subst h
        exact df_good crc (Rd.init buf) a s' hr
      | err e => rw [hr] at h; cases h
      | panic x => rw [hr] at h; cases h

/-- everything `Message.tryFrom` accepts is one JSON object: it serialises (no serde error), no
    object at any depth repeats a key, every number is finite, and every quantity of the C08 table
    is inside its physical range -/
theorem tryFrom_good (bs : List Nat) (d : Decoded) (h : tryFrom bs = .ok d) :
    ∃ kvs, d = .json (.obj kvs) ∧ (keyIds kvs).Nodup ∧ Json.wfObj kvs = true ∧ Json.inRangeObj kvs = true ∧
      ∀ k ∈ keyIds kvs, k ∉ timedKeys := by
  unfold tryFrom at h
  cases bs with
  | nil => cases h
  | cons b0 rest =>
    simp only [] at h
    split at h
    · cases h
    · cases hd : decodeBuf b0 ((b0 :: rest).take (frameBits b0 / 8)) with
      | err e => rw [hd] at h; cases h
      | panic x => rw [hd] at h; cases h
      | ok v =>
        rw [hd] at h
        simp only [] at h
        split at h
        · cases h
        · cases h
          obtain ⟨⟨fs, rfl, hn, ha, hw⟩, hr⟩ := decodeBuf_good _ _ v hd
          exact ⟨fs.toObj, rfl, hn, hw, hr fs rfl, ha⟩

end Message
end Rs1090.Model
