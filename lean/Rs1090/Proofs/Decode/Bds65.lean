/-
BDS 6,5 aircraft operation status — lemmas on `Model/Decode/Bds65.lean`:
panic-freedom (C01), serialisability (C07) and ranges (C08), for every reader state: every
subtype (airborne, surface, reserved 2..7) and every version (0, 1, 2, reserved 3..7), and the
Comm-B entry point `readEnum`.
-/
import Rs1090.Proofs.Decode.FieldsLemmas
import Rs1090.Model.Decode.Bds65
namespace Rs1090.Model.Bds65
open Rs1090 Rs1090.Model

/-! ### the parts that are read and not printed: panic-freedom only -/

theorem reserved2_noPanic : NoPanic reserved2 := by
  intro s; unfold NoPanicAt reserved2
  wp_run
  wp_if h <;> wp_run

theorem capabilityClassAirborne_noPanic : NoPanic capabilityClassAirborne := by
  intro s; unfold NoPanicAt capabilityClassAirborne
  rw [wp_bind]; apply wp_of_noPanic reserved2_noPanic; intro _ _
  wp_run
  apply wp_of_noPanic reserved2_noPanic; intro _ _
  wp_run

theorem capabilityClassSurface_noPanic : NoPanic capabilityClassSurface := by
  intro s; unfold NoPanicAt capabilityClassSurface
  rw [wp_bind]; apply wp_of_noPanic reserved2_noPanic; intro _ _
  wp_run

theorem operationalMode_noPanic : NoPanic operationalMode := by
  intro s; unfold NoPanicAt operationalMode
  rw [wp_bind]; apply wp_of_noPanic reserved2_noPanic; intro _ _
  wp_run

/-! ### the printed part -/

/-- post-condition of every sub-reader that produces the printed fields: key ids pairwise distinct
    and none of `df`/`icao24`/`tisb`/`bds`; all values well formed; all in range (no BDS 6,5 key is in
    the C08 table: the values are small unsigned integers and literal tags) -/
def Good (fs : Fields) : Prop :=
  idsOk outerKeys fs.ids = true ∧ fs.all entryWf = true ∧ fs.all entryInRange = true

/-- closes `Good [fld k₁ v₁, …]` for literal keys outside the C08 table and atomic values -/
macro "good_tac" : tactic =>
  `(tactic| (refine ⟨rfl, by simp, ?_⟩
             simp only [List.all_cons, List.all_nil, Bool.and_true, Bool.and_eq_true]
             and_intros <;> exact entryInRange_free _ _ rfl (by simp)))

theorem good_nil : Good [] := ⟨rfl, rfl, rfl⟩

theorem versionEmpty_good : Good versionEmpty := by unfold versionEmpty; good_tac

theorem versionReserved_spec (s : Rd) : wp versionReserved (fun fs _ => Good fs) s := by
  unfold versionReserved; wp_run; good_tac

theorem airborneV1_spec (s : Rd) : wp airborneV1 (fun fs _ => Good fs) s := by
  unfold airborneV1; wp_run; good_tac

theorem airborneV2_spec (s : Rd) : wp airborneV2 (fun fs _ => Good fs) s := by
  unfold airborneV2; wp_run; good_tac

theorem surfaceV1_spec (s : Rd) : wp surfaceV1 (fun fs _ => Good fs) s := by
  unfold surfaceV1; wp_run; good_tac

theorem surfaceV2_spec (s : Rd) : wp surfaceV2 (fun fs _ => Good fs) s := by
  unfold surfaceV2; wp_run; good_tac

theorem versionAirborne_spec (s : Rd) : wp versionAirborne (fun fs _ => Good fs) s := by
  unfold versionAirborne
  wp_run
  wp_if h
  · wp_run; exact versionEmpty_good
  wp_if h
  · exact airborneV1_spec _
  wp_if h
  · exact airborneV2_spec _
  · exact versionReserved_spec _

theorem versionSurface_spec (s : Rd) : wp versionSurface (fun fs _ => Good fs) s := by
  unfold versionSurface
  wp_run
  wp_if h
  · wp_run; exact versionEmpty_good
  wp_if h
  · exact surfaceV1_spec _
  wp_if h
  · exact surfaceV2_spec _
  · exact versionReserved_spec _

theorem airborne_spec (s : Rd) : wp airborne (fun fs _ => Good fs) s := by
  unfold airborne
  rw [wp_bind]; apply wp_of_noPanic capabilityClassAirborne_noPanic; intro _ _
  rw [wp_bind]; apply wp_of_noPanic operationalMode_noPanic; intro _ _
  wp_run
  exact versionAirborne_spec _

theorem surface_spec (s : Rd) : wp surface (fun fs _ => Good fs) s := by
  unfold surface
  rw [wp_bind]; apply wp_of_noPanic capabilityClassSurface_noPanic; intro _ _
  wp_run
  apply wp_of_noPanic operationalMode_noPanic; intro _ _
  wp_run
  exact versionSurface_spec _

theorem bytesN_wp (k : Nat) (Q : List Nat → Rd → Prop) (s : Rd) (h : ∀ bs s', Q bs s') :
    wp (bytesN k) Q s :=
  wp_of_noPanic (noPanic_bytesN k) Q s h

theorem reservedSubtype_spec (s : Rd) : wp reservedSubtype (fun fs _ => Good fs) s := by
  unfold reservedSubtype
  wp_run
  apply bytesN_wp; intro _ _
  wp_run
  exact good_nil

/-- everything at once: no panic; the result serialises and is in range -/
theorem read_spec (s : Rd) : wp read (fun r _ => SerGood outerKeys r ∧ RangeGood r) s := by
  unfold read
  wp_run
  refine wp_mono (Q := fun fs _ => Good fs) ?_ ?_
  case refine_2 =>
    intro fs s' hfs
    rw [wp_pure]
    obtain ⟨hids, hwf, hrg⟩ := hfs
    have hk := idsOk_spec hids
    exact ⟨serGood_of_fields _ _ hk.1 hk.2 hwf, rangeGood_of_fields _ hrg⟩
  wp_if h
  · exact airborne_spec _
  wp_if h
  · exact surface_spec _
  · exact reservedSubtype_spec _

theorem read_noPanic : NoPanic read := fun s => wp_mono (read_spec s) (fun _ _ _ => trivial)

/-- the Comm-B entry point is the same reader -/
theorem readEnum_noPanic : NoPanic readEnum := read_noPanic

/-- C07: every subtype × version serialises (reserved subtypes as an empty map, after fix d0d10b1) -/
theorem read_serGood : ∀ s, wp read (fun r _ => SerGood outerKeys r) s :=
  fun s => wp_mono (read_spec s) (fun _ _ h => h.1)

/-- C08: no BDS 6,5 key is constrained; the statement holds for the table as it is -/
theorem read_rangeGood : ∀ s, wp read (fun r _ => RangeGood r) s :=
  fun s => wp_mono (read_spec s) (fun _ _ h => h.2)

/-- in a Comm-B register slot (nested object, nothing to avoid) the same holds -/
theorem readEnum_serGood : ∀ s, wp readEnum (fun r _ => SerGood [] r) s := by
  intro s
  refine wp_mono (read_serGood s) ?_
  intro r _ ⟨fs, e, hn, _, hw⟩
  exact ⟨fs, e, hn, fun _ _ h => (by cases h), hw⟩

theorem readEnum_rangeGood : ∀ s, wp readEnum (fun r _ => RangeGood r) s := read_rangeGood

end Rs1090.Model.Bds65
