/-
BDS 2,1 reader: panic-freedom (C01), serialisation (C07), ranges (C08) — for every reader state.
-/
import Rs1090.Proofs.Decode.Bds10
import Rs1090.Model.Decode.Bds21
namespace Rs1090.Model.Bds21
open Rs1090 Rs1090.Model Rs1090.Model.CommbA
open Rs1090.Gen.Chars21 (charLookup21 regLen airlineLen)

/-- obligation on the GENERATED table: every 6-bit code is a valid index -/
theorem charLookup_len : charLookup21.length = 64 := by decide

/-- the character loop: no panic, every collected code is a 6-bit value -/
theorem readCodes_wp (k : Nat) (Q : List Nat → Rd → Prop) (s : Rd)
    (h : ∀ cs s', (∀ c ∈ cs, c < 64) → Q cs s') : wp (readCodes k) Q s := by
  induction k generalizing Q s with
  | zero => unfold readCodes; rw [wp_pure]; exact h _ _ (by simp)
  | succ k ih =>
    unfold readCodes
    rw [wp_bind]; apply wp_bits_any; intro c s1 hc
    rw [wp_bind]; apply ih; intro cs s2 hcs
    rw [wp_pure]; apply h
    intro x hx
    split at hx
    · rcases List.mem_cons.mp hx with rfl | hx
      · simpa using hc
      · exact hcs x hx
    · exact hcs x hx

/-- `CHAR_LOOKUP[b as usize]` is in bounds for 6-bit codes -/
theorem encode_noPanic : ∀ cs : List Nat, (∀ c ∈ cs, c < 64) → (encode cs).isPanic = false
  | [], _ => rfl
  | c :: rest, h => by
    have hc : c < 64 := h c (by simp)
    have ih := encode_noPanic rest (fun x hx => h x (by simp [hx]))
    unfold encode
    have : idx charLookup21 c = .ok (charLookup21[c]'(by rw [charLookup_len]; exact hc)) := by
      unfold idx
      rw [List.getElem?_eq_getElem (by rw [charLookup_len]; exact hc)]
    show (Outcome.bind _ _).isPanic = false
    rw [this, Outcome.bind_ok]
    show (Outcome.bind _ _).isPanic = false
    cases hr : encode rest with
    | ok r => rw [Outcome.bind_ok]; rfl
    | err e => rw [Outcome.bind_err]; rfl
    | panic x => rw [hr] at ih; simp [Outcome.isPanic] at ih

theorem aircraftRegistration_noPanic (status : Bool) (codes : List Nat) (h : ∀ c ∈ codes, c < 64) :
    (aircraftRegistration status codes).isPanic = false := by
  have he := encode_noPanic codes h
  unfold aircraftRegistration
  show (Outcome.bind _ _).isPanic = false
  cases hr : encode codes with
  | ok enc =>
    rw [Outcome.bind_ok]
    cases status
    · simp only [Bool.false_eq_true, if_false]; split <;> rfl
    · simp only [if_true]; split <;> rfl
  | err e => rw [Outcome.bind_err]; rfl
  | panic x => rw [hr] at he; simp [Outcome.isPanic] at he

theorem airlineRegistration_noPanic (status : Bool) (codes : List Nat) (h : ∀ c ∈ codes, c < 64) :
    (airlineRegistration status codes).isPanic = false := by
  have he := encode_noPanic codes h
  unfold airlineRegistration
  show (Outcome.bind _ _).isPanic = false
  cases hr : encode codes with
  | ok enc =>
    rw [Outcome.bind_ok]
    cases status
    · simp only [Bool.false_eq_true, if_false]; split <;> rfl
    · rfl
  | err e => rw [Outcome.bind_err]; rfl
  | panic x => rw [hr] at he; simp [Outcome.isPanic] at he

/-- C01 -/
theorem read_noPanic : NoPanic read := by
  intro s
  unfold NoPanicAt read
  wp_run
  apply readCodes_wp; intro codes s1 hcodes
  rw [wp_bind]; apply wp_lift_of (aircraftRegistration_noPanic _ codes hcodes); intro reg _
  wp_run
  apply readCodes_wp; intro acodes s2 hacodes
  rw [wp_bind]; apply wp_lift_of (airlineRegistration_noPanic _ acodes hacodes); intro airline _
  wp_run

/-- C07: `registration` is a string or `null`, `airline` a string or absent -/
theorem read_serGood : ∀ s, wp read (fun r _ => SerGood [] r) s := by
  intro s
  unfold read
  wp_run
  apply readCodes_wp; intro codes s1 hcodes
  rw [wp_bind]; apply wp_lift_of (aircraftRegistration_noPanic _ codes hcodes); intro reg _
  wp_run
  apply readCodes_wp; intro acodes s2 hacodes
  rw [wp_bind]; apply wp_lift_of (airlineRegistration_noPanic _ acodes hacodes); intro airline _
  wp_run
  cases reg <;> cases airline <;> exact serGood_tagged _ _ _ rfl rfl

/-- C08: neither key names a constrained quantity -/
theorem read_rangeGood : ∀ s, wp read (fun r _ => RangeGood r) s := by
  intro s
  unfold read
  wp_run
  apply readCodes_wp; intro codes s1 hcodes
  rw [wp_bind]; apply wp_lift_of (aircraftRegistration_noPanic _ codes hcodes); intro reg _
  wp_run
  apply readCodes_wp; intro acodes s2 hacodes
  rw [wp_bind]; apply wp_lift_of (airlineRegistration_noPanic _ acodes hacodes); intro airline _
  wp_run
  cases reg <;> cases airline <;> exact rangeGood_tagged _ _ _ rfl

end Rs1090.Model.Bds21
