/-
Shared vocabulary for the serialisation (C07) and physical-range (C08) theorems about the decoder
model: what it means for the JSON of a decoded message to be well formed, and which constraint each
reported quantity has to satisfy.  Per-reader lemmas are stated as `wp` post-conditions with these
predicates; `Proofs/Decode/{Commb,Message}Ser.lean` compose them.
-/
import Rs1090.Proofs.Decode.Wp
import Rs1090.Model.Decode.Common
namespace Rs1090.Model
open Rs1090

/-! ### well-formed JSON: finite numbers, no duplicate key in any object -/

def keyIds (kvs : List (Key × Json)) : List Nat := kvs.map (·.1.id)

mutual
/-- every number is finite (`num n d` has `d ≠ 0`; the symbolic `hypot`/`atan2deg` nodes are finite by
    the assumption on libm recorded in DESIGN §4) and no object has two entries with the same key -/
def Json.wf : Json → Bool
  | .num _ d => d != 0
  | .arr xs => Json.wfList xs
  | .obj kvs => Json.wfObj kvs && decide (keyIds kvs).Nodup
  | _ => true
def Json.wfList : List Json → Bool
  | [] => true
  | x :: xs => x.wf && Json.wfList xs
def Json.wfObj : List (Key × Json) → Bool
  | [] => true
  | (_, v) :: r => v.wf && Json.wfObj r
end

theorem Json.wfObj_iff (kvs : List (Key × Json)) : Json.wfObj kvs = true ↔ ∀ kv ∈ kvs, kv.2.wf = true := by
  induction kvs with
  | nil => simp [Json.wfObj]
  | cons kv r ih => cases kv; simp [Json.wfObj, ih]

/-- keys of the enclosing message object that a flattened ADS-B payload must not repeat -/
def outerKeys : List Nat := [(key! "df").id, (key! "icao24").id, (key! "tisb").id, (key! "bds").id]

/-- A reader's result serialises (no serde error), its visible keys are pairwise distinct and none of
    them is in `avoid`, and every value is well formed.  For a Comm-B register (nested object) use
    `avoid := []`; for an ADS-B payload flattened into the message use `avoid := outerKeys`. -/
def SerGood (avoid : List Nat) (r : SerFields) : Prop :=
  ∃ fs, r = .ok fs ∧ (keyIds fs.toObj).Nodup ∧ (∀ k ∈ keyIds fs.toObj, k ∉ avoid) ∧
    Json.wfObj fs.toObj = true

/-! ### physical ranges (C08) -/

/-- constraint on one reported quantity -/
inductive Constraint where
  /-- rational in `[lo, hi)` or `[lo, hi]` (degrees, knots, …); integers count as rationals -/
  | range (lo hi : Int) (hiIncl : Bool)
  /-- rational in `(lo, hi]` -/
  | rangeOpenLo (lo hi : Int)
  /-- finite and ≥ 0 -/
  | nonneg
  /-- integer multiple of `m` with `lo ≤ v ≤ hi` -/
  | multiple (m : Nat) (lo hi : Int)
  /-- natural number `< n` -/
  | below (n : Nat)
  /-- a string of exactly four octal digits -/
  | octal4
  /-- a string whose characters all come from `allowed` -/
  | charset (allowed : List Char)
  deriving Inhabited

def ratIn (lo hi : Int) (loIncl hiIncl : Bool) (n : Int) (d : Nat) : Bool :=
  d != 0 && (if loIncl then decide (lo * d ≤ n) else decide (lo * d < n)) &&
    (if hiIncl then decide (n ≤ hi * d) else decide (n < hi * d))

/-- `null` (quantity not available) always satisfies a constraint -/
def Constraint.holds : Constraint → Json → Bool
  | _, .null => true
  | .range lo hi hiIncl, .num n d => ratIn lo hi true hiIncl n d
  | .range lo hi hiIncl, .int i => ratIn lo hi true hiIncl i 1
  /- `atan2deg` is by definition the angle wrapped into [0, 360) -/
  | .range lo hi _, .atan2deg _ _ => decide (lo ≤ 0) && decide (360 ≤ hi)
  | .rangeOpenLo lo hi, .num n d => ratIn lo hi false true n d
  | .rangeOpenLo lo hi, .int i => ratIn lo hi false true i 1
  | .nonneg, .num n d => d != 0 && decide (0 ≤ n)
  | .nonneg, .int i => decide (0 ≤ i)
  | .nonneg, .hypot _ _ => true
  | .multiple m lo hi, .int i => decide (i % (m : Int) = 0) && decide (lo ≤ i) && decide (i ≤ hi)
  | .below n, .int i => decide (0 ≤ i) && decide (i < (n : Int))
  | .octal4, .chars cs => cs.length == 4 && cs.all (fun c => '0' ≤ c && c ≤ '7')
  | .charset allowed, .chars cs => cs.all (fun c => allowed.contains c)
  | _, _ => false

/-- the 6-bit character set of Annex 10 as the decoder can print it (`#` marks unassigned codes) -/
def callsignChars : List Char := "ABCDEFGHIJKLMNOPQRSTUVWXYZ0123456789 #".toList

/-- **The C08 table**: key name ↦ constraint, for every quantity the property lists.  A key not in
    the table is unconstrained.  The same key means the same quantity in every register. -/
def rangeSpec : List (Nat × Constraint) := [
  ((key! "track").id, .range 0 360 false),
  ((key! "heading").id, .range 0 360 false),
  ((key! "track_angle").id, .range 0 360 false),
  ((key! "true_track").id, .range 0 360 false),
  ((key! "magnetic_heading").id, .range 0 360 false),
  ((key! "wind_direction").id, .range 0 360 false),
  ((key! "selected_heading").id, .range 0 360 false),
  ((key! "threat_bearing").id, .range 0 360 false),
  ((key! "roll").id, .range (-90) 90 true),
  ((key! "lat_cpr").id, .below (2 ^ 17)),
  ((key! "lon_cpr").id, .below (2 ^ 17)),
  ((key! "vertical_rate").id, .multiple 64 (-32640) 32640),
  ((key! "vrate_barometric").id, .multiple 32 (-16352) 16352),
  ((key! "vrate_inertial").id, .multiple 32 (-16352) 16352),
  ((key! "groundspeed").id, .nonneg),
  ((key! "IAS").id, .nonneg),
  ((key! "TAS").id, .nonneg),
  ((key! "wind_speed").id, .nonneg),
  ((key! "Mach").id, .rangeOpenLo 0 1),
  ((key! "squawk").id, .octal4),
  ((key! "humidity").id, .range 0 100 true),
  ((key! "temperature").id, .range (-80) 60 true),
  ((key! "static_air_temperature").id, .range (-80) 60 true),
  ((key! "callsign").id, .charset callsignChars) ]

def specFor (k : Nat) : Option Constraint :=
  (rangeSpec.find? (·.1 == k)).map (·.2)

mutual
/-- every constrained quantity anywhere in the value satisfies its constraint -/
def Json.inRange : Json → Bool
  | .arr xs => Json.inRangeList xs
  | .obj kvs => Json.inRangeObj kvs
  | _ => true
def Json.inRangeList : List Json → Bool
  | [] => true
  | x :: xs => x.inRange && Json.inRangeList xs
def Json.inRangeObj : List (Key × Json) → Bool
  | [] => true
  | (k, v) :: r =>
    (match specFor k.id with
     | some c => c.holds v
     | none => v.inRange) && Json.inRangeObj r
end

/-- range post-condition of a reader: whatever it returns obeys the table -/
def RangeGood (r : SerFields) : Prop := ∀ fs, r = .ok fs → Json.inRangeObj fs.toObj = true

end Rs1090.Model
