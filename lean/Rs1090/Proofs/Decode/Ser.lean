/-
Shared vocabulary for the serialisation (C07) and physical-range (C08) theorems about the decoder
model: what it means for the JSON of a decoded message to be well formed, and which constraint each
reported quantity has to satisfy.  Per-reader lemmas are stated as `wp` post-conditions with these
predicates; `Proofs/Decode/{Commb,Message}Ser.lean` compose them.
-/
import Rs1090.Proofs.Decode.Wp
import Rs1090.Model.Decode.Common
namespace Rs1090.Model
open Rs1090

/-! ### well-formed JSON: finite numbers, no duplicate key in any object -/

def keyIds (kvs : List (Key × Json)) : List Nat := kvs.map (·.1.id)

mutual
/-- every number is finite (`num n d` has `d ≠ 0`; the symbolic `hypot`/`atan2deg` nodes are finite by
    the assumption on libm recorded in DESIGN §4) and no object has two entries with the same key -/
def Json.wf : Json → Bool
  | .num _ d => d != 0
  | .arr xs => Json.wfList xs
  | .obj kvs => Json.wfObj kvs && decide (keyIds kvs).Nodup
  | _ => true
def Json.wfList : List Json → Bool
  | [] => true
  | x :: xs => x.wf && Json.wfList xs
def Json.wfObj : List (Key × Json) → Bool
  | [] => true
  | (_, v) :: r => v.wf && Json.wfObj r
end

theorem Json.wfObj_iff (kvs : List (Key × Json)) : Json.wfObj kvs = true ↔ ∀ kv ∈ kvs, kv.2.wf = true := by
  induction kvs with
  | nil => simp [Json.wfObj]
  | cons kv r ih => cases kv; simp [Json.wfObj, ih]

/-- keys of the `TimedMessage` record into which the message is flattened (jet1090 / decode1090 output) -/
def timedKeys : List Nat :=
  [(key! "timestamp").id, (key! "frame").id, (key! "metadata").id, (key! "decode_time").id]

/-- keys of the enclosing message object (and of the timed record around it) that a flattened ADS-B
    payload must not repeat -/
def outerKeys : List Nat :=
  [(key! "df").id, (key! "icao24").id, (key! "tisb").id, (key! "bds").id] ++ timedKeys

/-- A reader's result serialises (no serde error), its visible keys are pairwise distinct and none of
    them is in `avoid`, and every value is well formed.  For a Comm-B register (nested object) use
    `avoid := []`; for an ADS-B payload flattened into the message use `avoid := outerKeys`. -/
def SerGood (avoid : List Nat) (r : SerFields) : Prop :=
  ∃ fs, r = .ok fs ∧ (keyIds fs.toObj).Nodup ∧ (∀ k ∈ keyIds fs.toObj, k ∉ avoid) ∧
    Json.wfObj fs.toObj = true

/-! ### physical ranges (C08) -/

/-- constraint on one reported quantity -/
inductive Constraint where
  /-- rational in `[lo, hi)` or `[lo, hi]` (degrees, knots, …); integers count as rationals -/
  | range (lo hi : Int) (hiIncl : Bool)
  /-- rational in `(lo, hi]` -/
  | rangeOpenLo (lo hi : Int)
  /-- finite and ≥ 0 -/
  | nonneg
  /-- integer multiple of `m` with `lo ≤ v ≤ hi` -/
  | multiple (m : Nat) (lo hi : Int)
  /-- natural number `< n` -/
  | below (n : Nat)
  /-- a string of exactly four octal digits -/
  | octal4
  /-- a string whose characters all come from `allowed` -/
  | charset (allowed : List Char)
  deriving Inhabited

def ratIn (lo hi : Int) (loIncl hiIncl : Bool) (n : Int) (d : Nat) : Bool :=
  d != 0 && (if loIncl then decide (lo * d ≤ n) else decide (lo * d < n)) &&
    (if hiIncl then decide (n ≤ hi * d) else decide (n < hi * d))

/-- `null` (quantity not available) always satisfies a constraint -/
def Constraint.holds : Constraint → Json → Bool
  | _, .null => true
  | .range lo hi hiIncl, .num n d => ratIn lo hi true hiIncl n d
  | .range lo hi hiIncl, .int i => ratIn lo hi true hiIncl i 1
  /- `atan2deg` is by definition the angle wrapped into [0, 360) -/
  | .range lo hi _, .atan2deg _ _ => decide (lo ≤ 0) && decide (360 ≤ hi)
  | .rangeOpenLo lo hi, .num n d => ratIn lo hi false true n d
  | .rangeOpenLo lo hi, .int i => ratIn lo hi false true i 1
  | .nonneg, .num n d => d != 0 && decide (0 ≤ n)
  | .nonneg, .int i => decide (0 ≤ i)
  | .nonneg, .hypot _ _ => true
  | .multiple m lo hi, .int i => decide (i % (m : Int) = 0) && decide (lo ≤ i) && decide (i ≤ hi)
  | .below n, .int i => decide (0 ≤ i) && decide (i < (n : Int))
  | .octal4, .chars cs => cs.length == 4 && cs.all (fun c => '0' ≤ c && c ≤ '7')
  | .charset allowed, .chars cs => cs.all (fun c => allowed.contains c)
  | _, _ => false

/-- the 6-bit character set of Annex 10 as the decoder can print it (`#` marks unassigned codes) -/
def callsignAlphabet : List Char := "ABCDEFGHIJKLMNOPQRSTUVWXYZ0123456789 #".toList

/-- **The C08 table**: key name ↦ constraint, for every quantity the property lists.  A key not in
    the table is unconstrained.  The same key means the same quantity in every register. -/
def rangeSpec : List (Nat × Constraint) := [
  ((key! "track").id, .range 0 360 false),
  ((key! "heading").id, .range 0 360 false),
  ((key! "wind_direction").id, .range 0 360 false),
  ((key! "selected_heading").id, .range 0 360 false),
  ((key! "threat_bearing").id, .range 0 360 false),
  ((key! "roll").id, .range (-90) 90 true),
  ((key! "lat_cpr").id, .below (2 ^ 17)),
  ((key! "lon_cpr").id, .below (2 ^ 17)),
  ((key! "vertical_rate").id, .multiple 64 (-32640) 32640),
  ((key! "vrate_barometric").id, .multiple 32 (-16352) 16352),
  ((key! "vrate_inertial").id, .multiple 32 (-16352) 16352),
  ((key! "groundspeed").id, .nonneg),
  ((key! "IAS").id, .nonneg),
  ((key! "TAS").id, .nonneg),
  ((key! "wind_speed").id, .nonneg),
  ((key! "Mach").id, .rangeOpenLo 0 1),
  ((key! "squawk").id, .octal4),
  ((key! "humidity").id, .range 0 100 true),
  ((key! "temperature").id, .range (-80) 60 true),
  ((key! "static_temperature").id, .range (-80) 60 true),
  ((key! "callsign").id, .charset callsignAlphabet) ]

def specFor (k : Nat) : Option Constraint :=
  (rangeSpec.find? (·.1 == k)).map (·.2)

mutual
/-- every constrained quantity anywhere in the value satisfies its constraint -/
def Json.inRange : Json → Bool
  | .arr xs => Json.inRangeList xs
  | .obj kvs => Json.inRangeObj kvs
  | _ => true
def Json.inRangeList : List Json → Bool
  | [] => true
  | x :: xs => x.inRange && Json.inRangeList xs
def Json.inRangeObj : List (Key × Json) → Bool
  | [] => true
  | (k, v) :: r =>
    (match specFor k.id with
     | some c => c.holds v
     | none => v.inRange) && Json.inRangeObj r
end

/-- range post-condition of a reader: whatever it returns obeys the table -/
def RangeGood (r : SerFields) : Prop := ∀ fs, r = .ok fs → Json.inRangeObj fs.toObj = true

end Rs1090.Model

namespace Rs1090.Model
open Rs1090

/-! ### how per-reader lemmas are proved -/

theorem keyIds_toObj_sublist (fs : Fields) : (keyIds fs.toObj).Sublist (fs.map (·.1.id)) := by
  induction fs with
  | nil => simp [Fields.toObj, keyIds]
  | cons kv r ih =>
    obtain ⟨k, v⟩ := kv
    cases v with
    | none => simpa [Fields.toObj, keyIds, List.filterMap_cons] using List.Sublist.cons _ (by simpa [Fields.toObj, keyIds] using ih)
    | some j => simpa [Fields.toObj, keyIds, List.filterMap_cons] using (by simpa [Fields.toObj, keyIds] using ih)

theorem mem_toObj {fs : Fields} {k : Key} {j : Json} (h : (k, j) ∈ fs.toObj) : (k, some j) ∈ fs := by
  simp only [Fields.toObj, List.mem_filterMap] at h
  obtain ⟨⟨k', v'⟩, hm, hv⟩ := h
  cases v' with
  | none => simp at hv
  | some j' => simp at hv; obtain ⟨rfl, rfl⟩ := hv; exact hm

/-- A literal field list serialises well when its static key list is duplicate-free and avoids the
    outer keys (both closed by `decide`), and every value that can be present is well formed. -/
theorem serGood_of (avoid : List Nat) (fs : Fields)
    (h1 : (fs.map (·.1.id)).Nodup) (h2 : ∀ k ∈ fs.map (·.1.id), k ∉ avoid)
    (h3 : ∀ kv ∈ fs, ∀ v, kv.2 = some v → v.wf = true) : SerGood avoid (.ok fs) := by
  refine ⟨fs, rfl, (keyIds_toObj_sublist fs).nodup h1, ?_, ?_⟩
  · intro k hk; exact h2 k ((keyIds_toObj_sublist fs).subset hk)
  · rw [Json.wfObj_iff]
    intro kv hkv
    obtain ⟨k, j⟩ := kv
    exact h3 _ (mem_toObj hkv) j rfl

theorem inRangeObj_iff (kvs : List (Key × Json)) :
    Json.inRangeObj kvs = true ↔
      ∀ kv ∈ kvs, (match specFor kv.1.id with | some c => c.holds kv.2 | none => kv.2.inRange) = true := by
  induction kvs with
  | nil => simp [Json.inRangeObj]
  | cons kv r ih => obtain ⟨k, v⟩ := kv; simp [Json.inRangeObj, ih]

/-- range check of a literal field list, field by field -/
theorem rangeGood_of (fs : Fields)
    (h : ∀ kv ∈ fs, ∀ v, kv.2 = some v →
      (match specFor kv.1.id with | some c => c.holds v | none => v.inRange) = true) :
    RangeGood (.ok fs) := by
  intro fs' e
  cases e
  rw [inRangeObj_iff]
  intro kv hkv
  obtain ⟨k, j⟩ := kv
  exact h _ (mem_toObj hkv) j rfl

/-- closes the two key-list side conditions of `serGood_of` for a literal field list -/
macro "keys_decide" : tactic =>
  `(tactic| (simp only [List.map_cons, List.map_nil, fld, skipNone, fldOpt]; decide))

theorem wf_getD_map {α} (f : α → Json) (o : Option α) (h : ∀ a, (f a).wf = true) :
    ((o.map f).getD Json.null).wf = true := by
  cases o <;> simp [h, Json.wf]

set_option hygiene false in
/-- third side condition of `serGood_of` / `rangeGood_of`: splits the literal field list into one goal
    per field, simplifies `kv.2 = some v`, substitutes and tries the obvious closers; what remains
    (conditional or computed values) is left to the caller, one goal per field, with the
    equation for `v` substituted where possible. -/
macro "fields_cases" : tactic =>
  `(tactic| (
    intro kv hkv v hv
    simp only [List.mem_cons, List.mem_nil_iff, or_false] at hkv
    repeat' (first | (rcases hkv with rfl | hkv) | subst hkv)
    all_goals (try (simp only [fld, fldOpt, skipNone, Option.some.injEq, reduceCtorEq, Option.ite_none_right_eq_some, Option.ite_none_left_eq_some] at hv))
    all_goals (try (first | subst hv | (obtain ⟨_, hv⟩ := hv; subst hv)))
    all_goals (try (first | rfl | (simp; done) | (apply wf_getD_map; intro _; rfl)))))

@[simp] theorem inRange_jnat (n : Nat) : (jnat n).inRange = true := by simp [jnat, Json.inRange]
@[simp] theorem inRange_jint (i : Int) : (jint i).inRange = true := by simp [jint, Json.inRange]
@[simp] theorem inRange_jbool (b : Bool) : (jbool b).inRange = true := by simp [jbool, Json.inRange]
@[simp] theorem inRange_lit (k : Key) : (Json.lit k).inRange = true := by simp [Json.inRange]
@[simp] theorem inRange_chars (cs : List Char) : (Json.chars cs).inRange = true := by simp [Json.inRange]
@[simp] theorem inRange_null : Json.null.inRange = true := by simp [Json.inRange]
@[simp] theorem inRange_jhex6 (v : Nat) : (jhex6 v).inRange = true := by simp [jhex6, Json.inRange]
@[simp] theorem inRange_jhex4 (v : Nat) : (jhex4 v).inRange = true := by simp [jhex4, Json.inRange]
@[simp] theorem inRange_jrat (n : Int) (d : Nat) : (jrat n d).inRange = true := by simp [jrat, Json.inRange]
@[simp] theorem inRange_CPRFormat (v : Nat) : (CPRFormat v).inRange = true := by simp [CPRFormat, Json.inRange]
@[simp] theorem inRange_getD_map_jnat (o : Option Nat) : ((o.map jnat).getD Json.null).inRange = true := by
  cases o <;> simp

theorem holds_below (n v : Nat) (h : v < n) : (Constraint.below n).holds (jnat v) = true := by
  simp [Constraint.holds, jnat]; omega

theorem holds_null (c : Constraint) : c.holds Json.null = true := by
  cases c <;> rfl

/-- `specFor` evaluated on a literal key id -/
macro "spec_eval" : tactic =>
  `(tactic| simp only [specFor, rangeSpec, List.find?_cons, List.find?_nil, Option.map_some, Option.map_none,
      Nat.reduceBEq, Nat.reduceEqDiff, beq_self_eq_true, Bool.false_eq_true, if_false, if_true, reduceCtorEq])

set_option hygiene false in
/-- side condition of `rangeGood_of`: one goal per field; unconstrained fields with scalar values are
    closed; a constrained field is left as `c.holds v = true` with `specFor` already evaluated. -/
macro "range_cases" : tactic =>
  `(tactic| (
    intro kv hkv v hv
    simp only [List.mem_cons, List.mem_nil_iff, or_false] at hkv
    repeat' (first | (rcases hkv with rfl | hkv) | subst hkv)
    all_goals (try (simp only [fld, fldOpt, skipNone, Option.some.injEq, reduceCtorEq, Option.ite_none_right_eq_some, Option.ite_none_left_eq_some] at hv))
    all_goals (try (first | subst hv | (obtain ⟨_, hv⟩ := hv; subst hv)))
    all_goals (try simp only [fld, fldOpt, skipNone])
    all_goals (try spec_eval)
    all_goals (try (first
      | (simp only [inRange_jnat, inRange_jint, inRange_jbool, inRange_lit, inRange_chars, inRange_null, inRange_jhex6,
           inRange_jhex4, inRange_CPRFormat, inRange_getD_map_jnat, inRange_jrat]; done)))))

@[simp] theorem wf_jnat (n : Nat) : (jnat n).wf = true := rfl
@[simp] theorem wf_jint (i : Int) : (jint i).wf = true := rfl
@[simp] theorem wf_jbool (b : Bool) : (jbool b).wf = true := rfl
@[simp] theorem wf_lit (k : Key) : (Json.lit k).wf = true := rfl
@[simp] theorem wf_chars (cs : List Char) : (Json.chars cs).wf = true := rfl
@[simp] theorem wf_null : Json.null.wf = true := rfl
@[simp] theorem wf_jhex6 (v : Nat) : (jhex6 v).wf = true := rfl
@[simp] theorem wf_jhex4 (v : Nat) : (jhex4 v).wf = true := rfl
@[simp] theorem wf_hypot (a b : Int) : (Json.hypot a b).wf = true := rfl
@[simp] theorem wf_atan2deg (a b : Int) : (Json.atan2deg a b).wf = true := rfl
theorem wf_jrat (n : Int) (d : Nat) (h : d ≠ 0) : (jrat n d).wf = true := by
  simp [jrat, Json.wf, h]
@[simp] theorem wf_CPRFormat (v : Nat) : (CPRFormat v).wf = true := rfl

end Rs1090.Model
