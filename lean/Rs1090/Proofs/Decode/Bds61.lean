/-
BDS 6,1 aircraft status — lemmas on `Model/Decode/Bds61.lean`:
panic-freedom (C01), serialisability (C07) and the squawk range (C08), for every reader state.
-/
import Rs1090.Proofs.Decode.FieldsLemmas
import Rs1090.Model.Decode.Bds61
import Rs1090.Props.C13
namespace Rs1090.Model.Bds61
open Rs1090 Rs1090.Model

/-- every 13-bit identity field prints as four octal digits (complete enumeration) -/
theorem squawk_octal : ∀ raw, raw < 2 ^ 13 →
    Constraint.holds .octal4 (jhex4 (squawk raw)) = true :=
  Rs1090.Props.C13.enum 13 (by decide +kernel)

theorem specFor_subtype : specFor (key! "subtype").id = none := rfl
theorem specFor_emergency : specFor (key! "emergency_state").id = none := rfl
theorem specFor_squawk : specFor (key! "squawk").id = some .octal4 := rfl

/-- everything at once: the reader does not panic, and what it returns serialises and is in range -/
theorem read_spec (s : Rd) : wp read (fun r _ => SerGood outerKeys r ∧ RangeGood r) s := by
  unfold read
  wp_run
  rename_i st _ _ es _ _ raw _ hraw
  refine ⟨?_, ?_⟩
  · have hk := idsOk_spec (avoid := outerKeys)
      (ids := Fields.ids [fld (key! "subtype") (.lit (subtypeName st)),
        fld (key! "emergency_state") (.lit (emergencyName es)), fld (key! "squawk") (jhex4 (squawk raw))]) rfl
    exact serGood_of_fields _ _ hk.1 hk.2 (by simp)
  · apply rangeGood_of_fields
    simp only [List.all_cons, List.all_nil, Bool.and_true, Bool.and_eq_true]
    exact ⟨entryInRange_free _ _ specFor_subtype (by simp),
           entryInRange_free _ _ specFor_emergency (by simp),
           entryInRange_spec _ _ _ specFor_squawk (squawk_octal raw hraw)⟩

theorem read_noPanic : NoPanic read := fun s => wp_mono (read_spec s) (fun _ _ _ => trivial)

/-- C07: the result serialises, keys distinct and disjoint from the enclosing message's, values well formed -/
theorem read_serGood : ∀ s, wp read (fun r _ => SerGood outerKeys r) s :=
  fun s => wp_mono (read_spec s) (fun _ _ h => h.1)

/-- C08: `squawk` is four octal digits -/
theorem read_rangeGood : ∀ s, wp read (fun r _ => RangeGood r) s :=
  fun s => wp_mono (read_spec s) (fun _ _ h => h.2)

end Rs1090.Model.Bds61
