/-
BDS 1,0 reader: panic-freedom (C01), serialisation (C07), ranges (C08) — for every reader state.
The first section holds the small list/JSON lemmas shared by the proofs of the seven registers
BDS 1,0 / 1,7 / 1,8 / 1,9 / 2,0 / 2,1 / 3,0 (namespace `CommbA`, imported by the other six files).
-/
import Rs1090.Proofs.Decode.Wp
import Rs1090.Proofs.Decode.Ser
import Rs1090.Model.Decode.Bds10

namespace Rs1090.Model.CommbA
open Rs1090 Rs1090.Model

/-- an explicit field list serialises well: distinct visible keys, well-formed values.
    Both side conditions are closed terms up to leaf values, so `rfl` proves them. -/
theorem serGood_ok (fs : Fields)
    (h1 : decide (keyIds fs.toObj).Nodup = true) (h2 : Json.wfObj fs.toObj = true) :
    SerGood [] (.ok fs) :=
  ⟨fs, rfl, of_decide_eq_true h1, fun _ _ => List.not_mem_nil, h2⟩

/-- `#[serde(tag = "bds", rename = "NN")]` struct: the tag entry is the first field -/
theorem serGood_tagged (tag name : Key) (fs : Fields)
    (h1 : decide (keyIds (Fields.toObj (fld tag (.lit name) :: fs))).Nodup = true)
    (h2 : Json.wfObj (Fields.toObj (fld tag (.lit name) :: fs)) = true) :
    SerGood [] (tagged tag name (.ok fs)) :=
  serGood_ok (fld tag (.lit name) :: fs) h1 h2

theorem rangeGood_ok (fs : Fields) (h : Json.inRangeObj fs.toObj = true) : RangeGood (.ok fs) := by
  intro fs' h'
  cases h'
  exact h

theorem rangeGood_tagged (tag name : Key) (fs : Fields)
    (h : Json.inRangeObj (Fields.toObj (fld tag (.lit name) :: fs)) = true) :
    RangeGood (tagged tag name (.ok fs)) :=
  rangeGood_ok (fld tag (.lit name) :: fs) h

/-! ### visible entries of a field list -/

theorem toObj_cons_none (k : Key) (r : Fields) : Fields.toObj ((k, none) :: r) = Fields.toObj r := by
  simp [Fields.toObj]

theorem toObj_cons_some (k : Key) (j : Json) (r : Fields) :
    Fields.toObj ((k, some j) :: r) = (k, j) :: Fields.toObj r := by
  simp [Fields.toObj]

theorem toObj_append (a b : Fields) : Fields.toObj (a ++ b) = Fields.toObj a ++ Fields.toObj b := by
  simp [Fields.toObj]

/-- skipping fields (`skip_serializing_if`) leaves a sub-list of the declared keys -/
theorem keyIds_toObj_sublist (fs : Fields) :
    (keyIds (Fields.toObj fs)).Sublist (fs.map (·.1.id)) := by
  induction fs with
  | nil => simp [Fields.toObj, keyIds]
  | cons f r ih =>
    rcases f with ⟨k, v⟩
    cases v with
    | none => rw [toObj_cons_none]; exact List.Sublist.cons _ ih
    | some j => rw [toObj_cons_some]; exact List.Sublist.cons_cons _ ih

theorem nodup_toObj (fs : Fields) (h : (fs.map (·.1.id)).Nodup) : (keyIds (Fields.toObj fs)).Nodup :=
  List.Nodup.sublist (keyIds_toObj_sublist fs) h

theorem mem_toObj {fs : Fields} {kv : Key × Json} (h : kv ∈ Fields.toObj fs) :
    (kv.1, some kv.2) ∈ fs := by
  induction fs with
  | nil => simp [Fields.toObj] at h
  | cons f r ih =>
    rcases f with ⟨k, v⟩
    cases v with
    | none => rw [toObj_cons_none] at h; exact List.mem_cons_of_mem _ (ih h)
    | some j =>
      rw [toObj_cons_some] at h
      rcases List.mem_cons.mp h with rfl | h
      · exact List.mem_cons_self
      · exact List.mem_cons_of_mem _ (ih h)

theorem inRangeObj_of (kvs : List (Key × Json))
    (h : ∀ kv ∈ kvs, specFor kv.1.id = none ∧ kv.2.inRange = true) : Json.inRangeObj kvs = true := by
  induction kvs with
  | nil => rfl
  | cons kv r ih =>
    rcases kv with ⟨k, v⟩
    have hk := h (k, v) List.mem_cons_self
    have hr := ih (fun x hx => h x (List.mem_cons_of_mem _ hx))
    simp only [Json.inRangeObj, hk.1, hk.2, hr, Bool.and_self]

/-- one entry whose key is in the C08 table -/
theorem inRangeObj_cons_some (k : Key) (v : Json) (r : List (Key × Json)) (c : Constraint)
    (h : specFor k.id = some c) : Json.inRangeObj ((k, v) :: r) = (c.holds v && Json.inRangeObj r) := by
  simp only [Json.inRangeObj, h]

/-- one entry whose key is not in the C08 table -/
theorem inRangeObj_cons_none (k : Key) (v : Json) (r : List (Key × Json))
    (h : specFor k.id = none) : Json.inRangeObj ((k, v) :: r) = (v.inRange && Json.inRangeObj r) := by
  simp only [Json.inRangeObj, h]

theorem inRangeObj_append (a b : List (Key × Json)) :
    Json.inRangeObj (a ++ b) = (Json.inRangeObj a && Json.inRangeObj b) := by
  induction a with
  | nil => simp [Json.inRangeObj]
  | cons kv r ih =>
    rcases kv with ⟨k, v⟩
    simp only [List.cons_append, Json.inRangeObj, ih, Bool.and_assoc]

theorem wfObj_append (a b : List (Key × Json)) :
    Json.wfObj (a ++ b) = (Json.wfObj a && Json.wfObj b) := by
  induction a with
  | nil => simp [Json.wfObj]
  | cons kv r ih =>
    rcases kv with ⟨k, v⟩
    simp only [List.cons_append, Json.wfObj, ih, Bool.and_assoc]

end Rs1090.Model.CommbA

namespace Rs1090.Model.Bds10
open Rs1090 Rs1090.Model Rs1090.Model.CommbA

theorem failIfNot10_noPanic (v : Nat) : (failIfNot10 v).isPanic = false := by
  unfold failIfNot10; split <;> rfl

theorem failIfNot0_noPanic (v : Nat) : (failIfNot0 v).isPanic = false := by
  unfold failIfNot0; split <;> rfl

/-- C01: the BDS 1,0 reader never panics, whatever the payload bits -/
theorem read_noPanic : NoPanic read := by
  intro s
  unfold NoPanicAt read
  wp_run
  apply wp_lift_of (failIfNot10_noPanic _); intro _ _
  wp_run
  apply wp_lift_of (failIfNot0_noPanic _); intro _ _
  wp_run

/-- C07: an accepted BDS 1,0 register serialises to an object with 14 distinct keys -/
theorem read_serGood : ∀ s, wp read (fun r _ => SerGood [] r) s := by
  intro s
  unfold read
  wp_run
  apply wp_lift_of (failIfNot10_noPanic _); intro _ _
  wp_run
  apply wp_lift_of (failIfNot0_noPanic _); intro _ _
  wp_run
  exact serGood_tagged _ _ _ rfl rfl

/-- C08: no BDS 1,0 field is a constrained physical quantity (flags, version number, DTE bits) -/
theorem read_rangeGood : ∀ s, wp read (fun r _ => RangeGood r) s := by
  intro s
  unfold read
  wp_run
  apply wp_lift_of (failIfNot10_noPanic _); intro _ _
  wp_run
  apply wp_lift_of (failIfNot0_noPanic _); intro _ _
  wp_run
  exact rangeGood_tagged _ _ _ rfl

end Rs1090.Model.Bds10
