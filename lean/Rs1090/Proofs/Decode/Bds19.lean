/-
BDS 1,9 reader: panic-freedom (C01), serialisation (C07), ranges (C08) — for every reader state.
The register is a row of 56 one-bit flags; the generic facts are in Proofs/Decode/Bds17.lean.
-/
import Rs1090.Proofs.Decode.Bds17
import Rs1090.Model.Decode.Bds19
namespace Rs1090.Model.Bds19
open Rs1090 Rs1090.Model Rs1090.Model.CommbA Rs1090.Model.Gicb

/-- C01 -/
theorem read_noPanic : NoPanic read := by
  intro s
  unfold NoPanicAt read
  rw [wp_bind]; apply readFlags_wp; intro fs s1 _
  wp_run

/-- the 57 keys of the serialised register (`bds` + 56 flags) are pairwise distinct -/
theorem keys_nodup : decide (((key! "bds").id :: flags.map (·.1.id)).Nodup) = true := by decide +kernel

/-- none of them is a key of the C08 table -/
theorem keys_unconstrained :
    ((key! "bds").id :: flags.map (·.1.id)).all (fun k => (specFor k).isNone) = true := by decide +kernel

/-- C07: whatever subset of the flags is set, the printed keys are distinct and every value is `true` -/
theorem read_serGood : ∀ s, wp read (fun r _ => SerGood [] r) s := by
  intro s
  unfold read
  rw [wp_bind]; apply readFlags_wp; intro fs s1 hfs
  wp_run
  exact flags_serGood _ _ flags fs hfs keys_nodup

/-- C08 -/
theorem read_rangeGood : ∀ s, wp read (fun r _ => RangeGood r) s := by
  intro s
  unfold read
  rw [wp_bind]; apply readFlags_wp; intro fs s1 hfs
  wp_run
  exact flags_rangeGood _ _ flags fs hfs keys_unconstrained

end Rs1090.Model.Bds19
