/-
Obligations `Gen = Model` for the per-register field readers.

`Gen/BdsFns.lean` is TRANSLATED from `fn read_*` of crates/rs1090/src/decode/bds/bds50.rs, bds60.rs on every
run (gen/extractors/bdsfns.py: checked integer arithmetic, f64 as exact rationals).  The hand-written model
(`Model/Decode/BdsNN.lean`) returns integers (numerators of a documented scale).  Here, for EVERY value of
the bits read, the translated function is the hand model composed with that scale — by kernel enumeration
(`allBits`, domains ≤ 2^12).  A behavioural edit of a reader changes the generated definition and the
enumeration fails at the offending code; a harmless rewrite (renamed local, reordered independent `let`s,
`2 * x` for `x * 2`) gives a different term with the same values and everything here still checks.

`disagreements` lists the offending codes (`#eval Rs1090.Proofs.GenBds.disagreements`).
-/
import Rs1090.Gen.BdsFns
import Rs1090.Model.Decode.Bds50
import Rs1090.Model.Decode.Bds60
import Rs1090.Model.Decode.Bds40
import Rs1090.Model.Decode.Bds44
import Mathlib.Tactic.Linarith
namespace Rs1090.Proofs.GenBds
open Rs1090 Rs1090.Model

/-- a modelled value `n` stands for the rational `n · num / den` -/
def scaled (num den : Int) : Outcome (Option Int) → Outcome (Option Rat)
  | .ok (some n) => .ok (some ((n : Rat) * (num : Rat) / (den : Rat)))
  | .ok none => .ok none
  | .err e => .err e
  | .panic s => .panic s

/-- the same for a modelled natural code -/
def scaledN (num den : Int) : Outcome (Option Nat) → Outcome (Option Rat)
  | .ok (some n) => .ok (some (((n : Int) : Rat) * (num : Rat) / (den : Rat)))
  | .ok none => .ok none
  | .err e => .err e
  | .panic s => .panic s

/-! ### enumeration over (status, sign, value) and (status, value) -/

theorem enum3 (P : Bool → Nat → Nat → Bool) (dg dv : Nat)
    (h : allBits (fun g => allBits (fun v => P true g v && P false g v) dv 0) dg 0 = true) :
    ∀ s g v, g < 2 ^ dg → v < 2 ^ dv → P s g v = true := by
  intro s g v hg hv
  have h1 := forall_lt_of_allBits _ dg h g hg
  have h2 := forall_lt_of_allBits _ dv h1 v hv
  simp only [Bool.and_eq_true] at h2
  cases s
  · exact h2.2
  · exact h2.1

theorem enum2 (P : Bool → Nat → Bool) (dv : Nat)
    (h : allBits (fun v => P true v && P false v) dv 0 = true) :
    ∀ s v, v < 2 ^ dv → P s v = true := by
  intro s v hv
  have h2 := forall_lt_of_allBits _ dv h v hv
  simp only [Bool.and_eq_true] at h2
  cases s
  · exact h2.2
  · exact h2.1

/-! ### the layouts (type and width of every read) the model's `read` uses: `flag`, `bits 1`, `bits 9`, … -/

theorem bds50_layouts :
    Gen.BdsFns.Bds50.read_roll_layout = [("bool", 1), ("u8", 1), ("u16", 9)] ∧
    Gen.BdsFns.Bds50.read_track_layout = [("bool", 1), ("u8", 1), ("u16", 10)] ∧
    Gen.BdsFns.Bds50.read_groundspeed_layout = [("bool", 1), ("u16", 10)] ∧
    Gen.BdsFns.Bds50.read_rate_layout = [("bool", 1), ("u8", 1), ("u16", 9)] ∧
    Gen.BdsFns.Bds50.read_tas_layout = [("bool", 1), ("u16", 10)] := by decide

theorem bds60_layouts :
    Gen.BdsFns.Bds60.read_heading_layout = [("bool", 1), ("u8", 1), ("u16", 10)] ∧
    Gen.BdsFns.Bds60.read_ias_layout = [("bool", 1), ("u16", 10)] ∧
    Gen.BdsFns.Bds60.read_mach_layout = [("bool", 1), ("u16", 10)] ∧
    Gen.BdsFns.Bds60.read_vertical_layout = [("bool", 1), ("u8", 1), ("u16", 9)] := by decide

/-! ### BDS 5,0 -/

def rollOk (s : Bool) (g v : Nat) : Bool :=
  decide (Gen.BdsFns.Bds50.read_roll s g v = scaled 45 256 (Model.Bds50.roll s g v))
def trackOk (s : Bool) (g v : Nat) : Bool :=
  decide (Gen.BdsFns.Bds50.read_track s g v = scaled 1 512 (Model.Bds50.track s g v))
def gsOk (s : Bool) (v : Nat) : Bool :=
  decide (Gen.BdsFns.Bds50.read_groundspeed s v = Model.Bds50.groundspeed s v)
/-- the roll angle the model holds as `n` is `n · 45/256` degrees -/
def rollVal (n : Int) : Rat := (n : Rat) * 45 / 256
def rateOk (n : Option Int) (s : Bool) (g v : Nat) : Bool :=
  decide (Gen.BdsFns.Bds50.read_rate (n.map rollVal) s g v = scaled 1 256 (Model.Bds50.rate n s g v))
def tasOk (gs : Option Nat) (s : Bool) (v : Nat) : Bool :=
  decide (Gen.BdsFns.Bds50.read_tas gs s v = Model.Bds50.tas gs s v)

/-- `read_roll`, all 2^11 codes: the translated reader is the model's `roll` in units of 45/256 degree -/
theorem bds50_roll : ∀ s g v, g < 2 ^ 1 → v < 2 ^ 9 → rollOk s g v = true := enum3 _ 1 9 (by decide +kernel)
/-- `read_track`, all 2^12 codes: numerator over 512 -/
theorem bds50_track : ∀ s g v, g < 2 ^ 1 → v < 2 ^ 10 → trackOk s g v = true := enum3 _ 1 10 (by decide +kernel)
/-- `read_groundspeed`, all 2^11 codes -/
theorem bds50_groundspeed : ∀ s v, v < 2 ^ 10 → gsOk s v = true := enum2 _ 10 (by decide +kernel)

/-- `read_rate` with the roll angle absent / negative / zero / positive (representatives −1, 0, 1), all 2^11 codes each -/
theorem bds50_rate_rep : ∀ s g v, g < 2 ^ 1 → v < 2 ^ 9 →
    (rateOk none s g v && rateOk (some (-1)) s g v && rateOk (some 0) s g v && rateOk (some 1) s g v) = true :=
  enum3 _ 1 9 (by decide +kernel)

set_option linter.unusedSimpArgs false in
/-- the translated `read_rate` depends on the roll angle only through its sign (it enters in `roll * rate < 0.`;
    `gt_iff_lt` is there for the spelling `0. > roll * rate`) -/
theorem gen_rate_sign (r r' : Rat) (h1 : r < 0 ↔ r' < 0) (h2 : 0 < r ↔ 0 < r') (s : Bool) (g v : Nat) :
    Gen.BdsFns.Bds50.read_rate (some r) s g v = Gen.BdsFns.Bds50.read_rate (some r') s g v := by
  simp only [Gen.BdsFns.Bds50.read_rate, mul_neg_iff, gt_iff_lt, h1, h2]

/-- so does the model's `rate` -/
theorem model_rate_sign (n n' : Int) (h1 : n < 0 ↔ n' < 0) (h2 : 0 < n ↔ 0 < n') (s : Bool) (g v : Nat) :
    Model.Bds50.rate (some n) s g v = Model.Bds50.rate (some n') s g v := by
  have key : ∀ x : Int, (n * 45 * (x * 8) < 0) = (n' * 45 * (x * 8) < 0) := by
    intro x
    have e : ∀ m : Int, m * 45 * (x * 8) < 0 ↔ m * x < 0 := by
      intro m; constructor <;> intro h <;> linarith
    apply propext
    rw [e, e, mul_neg_iff, mul_neg_iff, h1, h2]
  simp only [Model.Bds50.rate, key]

theorem rollVal_neg (n : Int) : rollVal n < 0 ↔ n < 0 := by
  unfold rollVal
  have : ((n : Rat) < 0) ↔ n < 0 := Int.cast_lt_zero
  rw [← this]; constructor <;> intro h <;> linarith
theorem rollVal_pos (n : Int) : 0 < rollVal n ↔ 0 < n := by
  unfold rollVal
  have : (0 < (n : Rat)) ↔ 0 < n := Int.cast_pos
  rw [← this]; constructor <;> intro h <;> linarith

/-- **`read_rate`, every roll angle `n · 45/256` (any integer `n`) or none, all 2^11 codes**: numerator over 256 -/
theorem bds50_rate (n : Option Int) : ∀ s g v, g < 2 ^ 1 → v < 2 ^ 9 → rateOk n s g v = true := by
  intro s g v hg hv
  have h := bds50_rate_rep s g v hg hv
  simp only [Bool.and_eq_true] at h
  obtain ⟨⟨⟨h0, hm⟩, hz⟩, hp⟩ := h
  cases n with
  | none => exact h0
  | some n =>
    have transfer : ∀ k : Int, (n < 0 ↔ k < 0) → (0 < n ↔ 0 < k) → rateOk (some k) s g v = true →
        rateOk (some n) s g v = true := by
      intro k a b hk
      simp only [rateOk, Option.map_some, decide_eq_true_eq] at hk ⊢
      rw [gen_rate_sign (rollVal n) (rollVal k) (by rw [rollVal_neg, rollVal_neg, a]) (by rw [rollVal_pos, rollVal_pos, b]),
        model_rate_sign n k a b, hk]
    rcases lt_trichotomy n 0 with hn | hn | hn
    · exact transfer (-1) (by omega) (by omega) hm
    · exact transfer 0 (by omega) (by omega) hz
    · exact transfer 1 (by omega) (by omega) hp

/-- ground speeds `read_tas` is checked against here: absent, and values around every threshold of the cross-check
    (`80 ≤ tas ≤ 500`, `|gs − tas| ≤ 200`) -/
def tasGs : List (Option Nat) := [none, some 0, some 2, some 80, some 200, some 280, some 300, some 302, some 500, some 600]

/-- `read_tas` for the ground speeds of `tasGs`, all 2^11 codes each -/
theorem bds50_tas_partial : ∀ s v, v < 2 ^ 10 → (tasGs.all fun gs => tasOk gs s v) = true :=
  enum2 _ 10 (by decide +kernel)

/-! ### BDS 6,0 -/

def headingOk (s : Bool) (g v : Nat) : Bool :=
  decide (Gen.BdsFns.Bds60.read_heading s g v = scaled 1 512 (Model.Bds60.heading s g v))
def iasOk (s : Bool) (v : Nat) : Bool :=
  decide (Gen.BdsFns.Bds60.read_ias s v = Model.Bds60.ias s v)
/-- the model holds the accepted 10-bit code; Mach = code · 2.048 / 512 = code / 250 -/
def machOk (ias : Option Nat) (s : Bool) (v : Nat) : Bool :=
  decide (Gen.BdsFns.Bds60.read_mach ias s v = scaledN 1 250 (Model.Bds60.mach ias s v))
def verticalOk (s : Bool) (g v : Nat) : Bool :=
  decide (Gen.BdsFns.Bds60.read_vertical s g v = Model.Bds60.vertical s g v)

/-- `read_heading`, all 2^12 codes: numerator over 512 -/
theorem bds60_heading : ∀ s g v, g < 2 ^ 1 → v < 2 ^ 10 → headingOk s g v = true := enum3 _ 1 10 (by decide +kernel)
/-- `read_ias`, all 2^11 codes -/
theorem bds60_ias : ∀ s v, v < 2 ^ 10 → iasOk s v = true := enum2 _ 10 (by decide +kernel)
/-- `read_vertical`, all 2^11 codes -/
theorem bds60_vertical : ∀ s g v, g < 2 ^ 1 → v < 2 ^ 9 → verticalOk s g v = true := enum3 _ 1 9 (by decide +kernel)

/-- `read_mach` with the airspeed absent / below 150 / in 150..250 / above 250 (representatives 1, 150, 251), all 2^11
    codes each (exact-rational reading of the f64 arithmetic: `2.048` is the decimal; see
    `Model.Bds60.F64.thresholds_agree` for the IEEE comparisons) -/
theorem bds60_mach_rep : ∀ s v, v < 2 ^ 10 →
    (machOk none s v && machOk (some 1) s v && machOk (some 150) s v && machOk (some 251) s v) = true :=
  enum2 _ 10 (by decide +kernel)

set_option linter.unusedSimpArgs false in
/-- the translated `read_mach` depends on the airspeed only through `ias > 250` and `ias < 150` -/
theorem gen_mach_class (i i' : Nat) (h1 : i > 250 ↔ i' > 250) (h2 : i < 150 ↔ i' < 150) (s : Bool) (v : Nat) :
    Gen.BdsFns.Bds60.read_mach (some i) s v = Gen.BdsFns.Bds60.read_mach (some i') s v := by
  have h1' : 250 < i ↔ 250 < i' := h1
  simp only [Gen.BdsFns.Bds60.read_mach, gt_iff_lt, h1', h2]

/-- so does the model's `mach` -/
theorem model_mach_class (i i' : Nat) (h1 : i > 250 ↔ i' > 250) (h2 : i < 150 ↔ i' < 150) (s : Bool) (v : Nat) :
    Model.Bds60.mach (some i) s v = Model.Bds60.mach (some i') s v := by
  have h1' : 250 < i ↔ 250 < i' := h1
  simp only [Model.Bds60.mach, gt_iff_lt, h1', h2]

/-- **`read_mach`, every airspeed (any `u16`, in fact any natural) or none, all 2^11 codes**: Mach = code / 250 -/
theorem bds60_mach (i : Option Nat) : ∀ s v, v < 2 ^ 10 → machOk i s v = true := by
  intro s v hv
  have h := bds60_mach_rep s v hv
  simp only [Bool.and_eq_true] at h
  obtain ⟨⟨⟨h0, ha⟩, hb⟩, hc⟩ := h
  cases i with
  | none => exact h0
  | some i =>
    have transfer : ∀ k : Nat, (i > 250 ↔ k > 250) → (i < 150 ↔ k < 150) → machOk (some k) s v = true →
        machOk (some i) s v = true := by
      intro k a b hk
      simp only [machOk, decide_eq_true_eq] at hk ⊢
      rw [gen_mach_class i k a b, model_mach_class i k a b, hk]
    by_cases c1 : i < 150
    · exact transfer 1 (by omega) (by omega) ha
    · by_cases c2 : i > 250
      · exact transfer 251 (by omega) (by omega) hc
      · exact transfer 150 (by omega) (by omega) hb

/-! ### the obligations as stated in Props/C03.lean, Props/C08.lean -/

/-- BDS 5,0: four of the five translated readers are the model's conversion functions composed with their scale, on
    every code (and, for the track rate, for every roll angle the model can hold) -/
theorem bds50_readers :
    (∀ s g v, g < 2 ^ 1 → v < 2 ^ 9 →
      Gen.BdsFns.Bds50.read_roll s g v = scaled 45 256 (Model.Bds50.roll s g v)) ∧
    (∀ s g v, g < 2 ^ 1 → v < 2 ^ 10 →
      Gen.BdsFns.Bds50.read_track s g v = scaled 1 512 (Model.Bds50.track s g v)) ∧
    (∀ s v, v < 2 ^ 10 →
      Gen.BdsFns.Bds50.read_groundspeed s v = Model.Bds50.groundspeed s v) ∧
    (∀ (n : Option Int) s g v, g < 2 ^ 1 → v < 2 ^ 9 →
      Gen.BdsFns.Bds50.read_rate (n.map rollVal) s g v = scaled 1 256 (Model.Bds50.rate n s g v)) := by
  refine ⟨fun s g v hg hv => ?_, fun s g v hg hv => ?_, fun s v hv => ?_, fun n s g v hg hv => ?_⟩
  · simpa [rollOk] using bds50_roll s g v hg hv
  · simpa [trackOk] using bds50_track s g v hg hv
  · simpa [gsOk] using bds50_groundspeed s v hv
  · simpa [rateOk] using bds50_rate n s g v hg hv

theorem bds50_tas_sampled : ∀ gs ∈ tasGs, ∀ s v, v < 2 ^ 10 →
    Gen.BdsFns.Bds50.read_tas gs s v = Model.Bds50.tas gs s v := by
  intro gs hgs s v hv
  have h := bds50_tas_partial s v hv
  rw [List.all_eq_true] at h
  simpa [tasOk] using h gs hgs

/-- BDS 6,0: heading, IAS, Mach (for every airspeed) and both vertical rates -/
theorem bds60_readers :
    (∀ s g v, g < 2 ^ 1 → v < 2 ^ 10 →
      Gen.BdsFns.Bds60.read_heading s g v = scaled 1 512 (Model.Bds60.heading s g v)) ∧
    (∀ s v, v < 2 ^ 10 →
      Gen.BdsFns.Bds60.read_ias s v = Model.Bds60.ias s v) ∧
    (∀ (i : Option Nat) s v, v < 2 ^ 10 →
      Gen.BdsFns.Bds60.read_mach i s v = scaledN 1 250 (Model.Bds60.mach i s v)) ∧
    (∀ s g v, g < 2 ^ 1 → v < 2 ^ 9 →
      Gen.BdsFns.Bds60.read_vertical s g v = Model.Bds60.vertical s g v) := by
  refine ⟨fun s g v hg hv => ?_, fun s v hv => ?_, fun i s v hv => ?_, fun s g v hg hv => ?_⟩
  · simpa [headingOk] using bds60_heading s g v hg hv
  · simpa [iasOk] using bds60_ias s v hv
  · simpa [machOk] using bds60_mach i s v hv
  · simpa [verticalOk] using bds60_vertical s g v hg hv

/-! ### BDS 4,0 (selected altitudes, QNH) and BDS 4,4 (pressure, humidity) -/

def selectedOk (s : Bool) (v : Nat) : Bool :=
  decide (Gen.BdsFns.Bds40.read_selected s v = Model.Bds40.selectedAlt s v)
/-- the model holds tenths of hPa: `value as f64 * 0.1 + 800.` read exactly is `(value + 8000) / 10` -/
def qnhOk (s : Bool) (v : Nat) : Bool :=
  decide (Gen.BdsFns.Bds40.read_qnh s v = scaledN 1 10 (Model.Bds40.qnhNum s v))
def pressure44Ok (s : Bool) (v : Nat) : Bool :=
  decide (Gen.BdsFns.Bds44.read_pressure s v = Model.Bds44.pressure s v)
/-- the model holds `value · 100`, numerator over 64 of the percentage -/
def humidityOk (s : Bool) (v : Nat) : Bool :=
  decide (Gen.BdsFns.Bds44.read_humidity s v = scaledN 1 64 (Model.Bds44.humidity s v))

/-- `read_selected`, all 2^13 codes -/
theorem bds40_selected : ∀ s v, v < 2 ^ 12 → selectedOk s v = true := enum2 _ 12 (by decide +kernel)
/-- `read_qnh`, all 2^13 codes -/
theorem bds40_qnh : ∀ s v, v < 2 ^ 12 → qnhOk s v = true := enum2 _ 12 (by decide +kernel)
/-- `read_pressure` of BDS 4,4, all 2^12 codes -/
theorem bds44_pressure : ∀ s v, v < 2 ^ 11 → pressure44Ok s v = true := enum2 _ 11 (by decide +kernel)
/-- `read_humidity`, all 2^7 codes -/
theorem bds44_humidity : ∀ s v, v < 2 ^ 6 → humidityOk s v = true := enum2 _ 6 (by decide +kernel)

theorem bds40_44_layouts :
    Gen.BdsFns.Bds40.read_selected_layout = [("bool", 1), ("u16", 12)] ∧
    Gen.BdsFns.Bds40.read_qnh_layout = [("bool", 1), ("u16", 12)] ∧
    Gen.BdsFns.Bds44.read_pressure_layout = [("bool", 1), ("u16", 11)] ∧
    Gen.BdsFns.Bds44.read_humidity_layout = [("bool", 1), ("u8", 6)] := by decide

theorem bds40_readers :
    (∀ s v, v < 2 ^ 12 → Gen.BdsFns.Bds40.read_selected s v = Model.Bds40.selectedAlt s v) ∧
    (∀ s v, v < 2 ^ 12 → Gen.BdsFns.Bds40.read_qnh s v = scaledN 1 10 (Model.Bds40.qnhNum s v)) := by
  refine ⟨fun s v hv => ?_, fun s v hv => ?_⟩
  · simpa [selectedOk] using bds40_selected s v hv
  · simpa [qnhOk] using bds40_qnh s v hv

theorem bds44_readers :
    (∀ s v, v < 2 ^ 11 → Gen.BdsFns.Bds44.read_pressure s v = Model.Bds44.pressure s v) ∧
    (∀ s v, v < 2 ^ 6 → Gen.BdsFns.Bds44.read_humidity s v = scaledN 1 64 (Model.Bds44.humidity s v)) := by
  refine ⟨fun s v hv => ?_, fun s v hv => ?_⟩
  · simpa [pressure44Ok] using bds44_pressure s v hv
  · simpa [humidityOk] using bds44_humidity s v hv

/-! ### counterexample listing (not part of the check; `#eval Rs1090.Proofs.GenBds.disagreements`) -/

def codes3 (dg dv : Nat) : List (Bool × Nat × Nat) :=
  [true, false].flatMap fun s => (List.range (2 ^ dg)).flatMap fun g => (List.range (2 ^ dv)).map fun v => (s, g, v)

/-- (reader, status, sign, value) of every code on which a translated reader and the model disagree -/
def disagreements : List (String × Bool × Nat × Nat) :=
  ((codes3 1 9).filter fun (s, g, v) => !rollOk s g v).map (fun c => ("bds50.read_roll", c)) ++
  ((codes3 1 10).filter fun (s, g, v) => !trackOk s g v).map (fun c => ("bds50.read_track", c)) ++
  ((codes3 0 10).filter fun (s, _, v) => !gsOk s v).map (fun c => ("bds50.read_groundspeed", c)) ++
  ((codes3 1 9).filter fun (s, g, v) => !(rateOk none s g v && rateOk (some (-1)) s g v && rateOk (some 0) s g v && rateOk (some 1) s g v)).map (fun c => ("bds50.read_rate", c)) ++
  ((codes3 0 10).filter fun (s, _, v) => !(tasGs.all fun gs => tasOk gs s v)).map (fun c => ("bds50.read_tas", c)) ++
  ((codes3 1 10).filter fun (s, g, v) => !headingOk s g v).map (fun c => ("bds60.read_heading", c)) ++
  ((codes3 0 10).filter fun (s, _, v) => !iasOk s v).map (fun c => ("bds60.read_ias", c)) ++
  ((codes3 0 10).filter fun (s, _, v) => !(machOk none s v && machOk (some 1) s v && machOk (some 150) s v && machOk (some 251) s v)).map (fun c => ("bds60.read_mach", c)) ++
  ((codes3 1 9).filter fun (s, g, v) => !verticalOk s g v).map (fun c => ("bds60.read_vertical", c)) ++
  ((codes3 0 12).filter fun (s, _, v) => !selectedOk s v).map (fun c => ("bds40.read_selected", c)) ++
  ((codes3 0 12).filter fun (s, _, v) => !qnhOk s v).map (fun c => ("bds40.read_qnh", c)) ++
  ((codes3 0 11).filter fun (s, _, v) => !pressure44Ok s v).map (fun c => ("bds44.read_pressure", c)) ++
  ((codes3 0 6).filter fun (s, _, v) => !humidityOk s v).map (fun c => ("bds44.read_humidity", c))

end Rs1090.Proofs.GenBds
