/-
BDS 4,0 selected vertical intention: panic-freedom (C01), serialisation (C07) and physical
ranges (C08) of `Bds40.read`, for every reader state (= every payload).
Per-field facts are complete kernel enumerations of the 12-bit code space (the u16 operations
`value * 16`, `+ 8`, `/ 100`, `* 100` never overflow).  None of the register's keys is in the C08
table; the accepted selected altitudes are nevertheless shown to be multiples of 100 ft ≤ 45000.
-/
import Rs1090.Proofs.Decode.Wp
import Rs1090.Proofs.Decode.Ser
import Rs1090.Proofs.Decode.OkAnd
import Rs1090.Model.Decode.Bds40
namespace Rs1090.Model.Bds40
open Rs1090 Rs1090.Model Rs1090.Props.C13

/-! ### per-field facts -/

/-- `read_selected`: no u16 overflow; an accepted altitude is a multiple of 100 ft, at most 45000 -/
theorem selectedAlt_spec : ∀ st v, v < 2 ^ 12 →
    (selectedAlt st v).okAnd (optAll fun a => decide (a % 100 = 0) && decide (a ≤ 45000)) = true := by
  intro st
  cases st <;> (refine enum 12 ?_; decide +kernel)

/-- `read_qnh`: an accepted setting is within 800 … 1209.5 hPa (tenths) -/
theorem qnhNum_spec : ∀ st v, v < 2 ^ 12 →
    (qnhNum st v).okAnd (optAll fun n => decide (8000 ≤ n) && decide (n ≤ 12095)) = true := by
  intro st
  cases st <;> (refine enum 12 ?_; decide +kernel)

theorem readSelected_wp (Q : Option Nat → Rd → Prop) (s : Rd) (h : ∀ o s', Q o s') :
    wp readSelected Q s := by
  unfold readSelected
  wp_run
  apply wp_lift_okAnd (selectedAlt_spec _ _ (by assumption)); intro o _
  exact h _ _

theorem readQnh_wp (Q : Option Nat → Rd → Prop) (s : Rd) (h : ∀ o s', Q o s') :
    wp readQnh Q s := by
  unfold readQnh
  wp_run
  apply wp_lift_okAnd (qnhNum_spec _ _ (by assumption)); intro o _
  exact h _ _

theorem targetSource_good (id : Nat) : optAll (fun j => j.wf && j.inRange) (targetSource id) = true := by
  unfold targetSource
  split <;> rfl

/-! ### the reader -/

theorem read_good (s : Rd) : wp read (fun r _ => SerGood [] r ∧ RangeGood r) s := by
  unfold read
  wp_run
  apply readSelected_wp; intro mcp s1
  wp_run
  apply readSelected_wp; intro fms s2
  wp_run
  apply readQnh_wp; intro qnh s3
  wp_run
  wp_if hres
  · wp_run
  · wp_run
    wp_if hres1
    · wp_run
    · wp_run
      constructor
      · apply serGood_of
        · keys_decide
        · keys_decide
        · fields_cases
          · exact wf_of_map_some hv (fun _ => rfl)
          · exact wf_of_map_some hv (fun _ => rfl)
          · exact wf_of_map_some hv (fun _ => rfl)
          · exact wf_of_good (targetSource_good _) hv
      · apply rangeGood_of
        range_cases
        · exact inRange_of_map_some hv (fun _ => rfl)
        · exact inRange_of_map_some hv (fun _ => rfl)
        · exact inRange_of_map_some hv (fun _ => rfl)
        · exact inRange_of_good (targetSource_good _) hv

theorem read_noPanic : NoPanic read :=
  fun s => wp_mono (read_good s) (fun _ _ _ => trivial)

theorem read_serGood (s : Rd) : wp read (fun r _ => SerGood [] r) s :=
  wp_mono (read_good s) (fun _ _ h => h.1)

theorem read_rangeGood (s : Rd) : wp read (fun r _ => RangeGood r) s :=
  wp_mono (read_good s) (fun _ _ h => h.2)

end Rs1090.Model.Bds40
