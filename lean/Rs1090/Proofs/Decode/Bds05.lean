import Rs1090.Proofs.Decode.Wp
import Rs1090.Proofs.Decode.Ser
import Rs1090.Model.Decode.Bds05
import Rs1090.Props.C13
namespace Rs1090.Model.Bds05
open Rs1090 Rs1090.Model

theorem nuc_noPanic (tc : Nat) :
    (if tc < 19 then subU 18 tc else if (tc == 20 || tc == 21) = true then subU 29 tc else Outcome.ok 0).isPanic = false := by
  unfold subU
  split
  · rw [if_pos (by omega)]; rfl
  · split
    · rename_i h; simp at h; rw [if_pos (by omega)]; rfl
    · rfl

theorem read_noPanic : NoPanic read := by
  intro s
  unfold NoPanicAt read
  wp_run
  apply wp_lift_of (nuc_noPanic _); intro nuc _
  wp_run
  apply wp_lift_of (Rs1090.Props.C13.ac12_ne_panic _ (by assumption)); intro alt _
  wp_run

end Rs1090.Model.Bds05

namespace Rs1090.Model.Bds05
open Rs1090 Rs1090.Model

theorem read_serGood (s : Rd) : wp read (fun r _ => SerGood outerKeys r) s := by
  unfold read
  wp_run
  apply wp_lift_of (nuc_noPanic _); intro nuc _
  wp_run
  apply wp_lift_of (Rs1090.Props.C13.ac12_ne_panic _ (by assumption)); intro alt _
  wp_run
  apply serGood_of
  · keys_decide
  · keys_decide
  · fields_cases

theorem read_rangeGood (s : Rd) : wp read (fun r _ => RangeGood r) s := by
  unfold read
  wp_run
  apply wp_lift_of (nuc_noPanic _); intro nuc _
  wp_run
  apply wp_lift_of (Rs1090.Props.C13.ac12_ne_panic _ (by assumption)); intro alt _
  wp_run
  apply rangeGood_of
  range_cases
  · exact holds_below _ _ (by assumption)
  · exact holds_below _ _ (by assumption)

end Rs1090.Model.Bds05
