/-
BDS 6,0 heading and speed report: panic-freedom (C01), serialisation (C07) and physical ranges
(C08) of `Bds60.read`, for every reader state (= every payload).
Single-field facts are complete kernel enumerations of the field's code space (the i16 operations
`value as i16 - 1024`, `(value as i16 - 512) * 32`, `value as i16 * 32`, `i16::abs` never overflow);
`mach` given the IAS has no arithmetic and is proved by case analysis for every IAS.
-/
import Rs1090.Proofs.Decode.Wp
import Rs1090.Proofs.Decode.Ser
import Rs1090.Proofs.Decode.OkAnd
import Rs1090.Model.Decode.Bds60
namespace Rs1090.Model.Bds60
open Rs1090 Rs1090.Model Rs1090.Props.C13

/-! ### per-field facts -/

/-- accepted heading: `0 ≤ n/512 < 360`; `value as i16 - 1024` does not overflow -/
theorem heading_spec : ∀ st sg v, sg < 2 ^ 1 → v < 2 ^ 10 →
    (heading st sg v).okAnd (optAll fun n => decide (0 ≤ n) && decide (n < 360 * 512)) = true := by
  intro st sg v hsg
  cases st <;> rcases bit_cases hsg with rfl | rfl <;> revert v <;> (refine enum 10 ?_; decide +kernel)

/-- accepted IAS: 1 … 500 kt -/
theorem ias_spec : ∀ st v, v < 2 ^ 10 →
    (ias st v).okAnd (optAll fun i => decide (1 ≤ i) && decide (i ≤ 500)) = true := by
  intro st
  cases st <;> (refine enum 10 ?_; decide +kernel)

/-- accepted Mach code: 1 … 250, i.e. `0 < Mach ≤ 1`, whatever the IAS -/
theorem mach_spec (iasV : Option Nat) (st : Bool) (v : Nat) :
    (mach iasV st v).okAnd (optAll fun m => decide (1 ≤ m) && decide (m ≤ 250)) = true := by
  unfold mach
  split
  · split <;> rfl
  · split
    · rfl
    · rename_i h
      have hb : 1 ≤ v ∧ v ≤ 250 := by
        simp only [machEq0, machGt1, Bool.or_eq_true, beq_iff_eq, decide_eq_true_eq, not_or] at h
        omega
      have hok : (Outcome.ok (some v)).okAnd (optAll fun m => decide (1 ≤ m) && decide (m ≤ 250)) = true := by
        simp only [Outcome.okAnd, optAll, Bool.and_eq_true, decide_eq_true_eq]; exact hb
      cases iasV with
      | none => exact hok
      | some i =>
        simp only []
        split
        · rfl
        · split
          · rfl
          · exact hok

/-- accepted vertical rate: a multiple of 32 ft/min within ±6000 -/
theorem vertical_spec : ∀ st sg v, sg < 2 ^ 1 → v < 2 ^ 9 →
    (vertical st sg v).okAnd
      (optAll fun x => decide (x % 32 = 0) && decide (-6000 ≤ x) && decide (x ≤ 6000)) = true := by
  intro st sg v hsg
  cases st <;> rcases bit_cases hsg with rfl | rfl <;> revert v <;> (refine enum 9 ?_; decide +kernel)

theorem readVertical_wp (Q : Option Int → Rd → Prop) (s : Rd)
    (h : ∀ o s', optAll (fun x => decide (x % 32 = 0) && decide (-6000 ≤ x) && decide (x ≤ 6000)) o = true → Q o s') :
    wp readVertical Q s := by
  unfold readVertical
  wp_run
  apply wp_lift_okAnd (vertical_spec _ _ _ (by assumption) (by assumption)); intro o ho
  exact h _ _ ho

/-! ### the reader -/

theorem read_good (s : Rd) : wp read (fun r _ => SerGood [] r ∧ RangeGood r) s := by
  unfold read
  wp_run
  apply wp_lift_okAnd (heading_spec _ _ _ (by assumption) (by assumption)); intro hdg hhdg
  wp_run
  apply wp_lift_okAnd (ias_spec _ _ (by assumption)); intro iasV _
  wp_run
  apply wp_lift_okAnd (mach_spec iasV _ _); intro m hm
  wp_run
  apply readVertical_wp; intro baro s1 hbaro
  wp_run
  apply readVertical_wp; intro inertial s2 hinertial
  wp_run
  constructor
  · apply serGood_of
    · keys_decide
    · keys_decide
    · fields_cases
      · exact wf_of_map_some hv (fun _ => rfl)
      · exact wf_of_map_some hv (fun _ => rfl)
      · exact wf_of_map_some hv (fun _ => rfl)
      · exact wf_of_map_some hv (fun _ => rfl)
      · exact wf_of_map_some hv (fun _ => rfl)
  · apply rangeGood_of
    range_cases
    · exact holds_of_map_some _ hhdg hv (fun n hn => by
        simp only [Bool.and_eq_true, decide_eq_true_eq] at hn
        exact holds_range_jrat _ _ _ _ _ (by decide) (by omega) (by simp; omega))
    · obtain ⟨a, _, rfl⟩ := map_eq_some hv
      exact holds_nonneg_jnat a
    · cases m with
      | none => cases hv
      | some a =>
        simp only [optAll, Bool.and_eq_true, decide_eq_true_eq] at hm
        injection hv with hv
        subst hv
        simp [Constraint.holds, jrat, ratIn]
        omega
    · exact holds_of_map_some _ hbaro hv (fun x hx => by
        simp only [Bool.and_eq_true, decide_eq_true_eq] at hx
        exact holds_multiple_jint _ _ _ _ hx.1.1 (by omega) (by omega))
    · exact holds_of_map_some _ hinertial hv (fun x hx => by
        simp only [Bool.and_eq_true, decide_eq_true_eq] at hx
        exact holds_multiple_jint _ _ _ _ hx.1.1 (by omega) (by omega))

theorem read_noPanic : NoPanic read :=
  fun s => wp_mono (read_good s) (fun _ _ _ => trivial)

theorem read_serGood (s : Rd) : wp read (fun r _ => SerGood [] r) s :=
  wp_mono (read_good s) (fun _ _ h => h.1)

theorem read_rangeGood (s : Rd) : wp read (fun r _ => RangeGood r) s :=
  wp_mono (read_good s) (fun _ _ h => h.2)

end Rs1090.Model.Bds60
