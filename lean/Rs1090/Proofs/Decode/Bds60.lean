import Rs1090.Proofs.Decode.Wp
import Rs1090.Model.Decode.Bds60
namespace Rs1090.Model.Bds60
open Rs1090 Rs1090.Model

/-- STUB proof for the STUB reader (replaced together with the model) -/
theorem read_noPanic : NoPanic read := by unfold read; exact noPanic_fail _

end Rs1090.Model.Bds60
