/-
Generic lemmas for the serialisation (C07) and range (C08) post-conditions of register readers:
`SerGood` / `RangeGood` of a field list follow from *per-entry* facts, so that a reader proof never
has to case-split on which optional fields are present.

  serGood_of_fields   : key ids (present or not) pairwise distinct and outside `avoid`, every present
                        value well formed  ⟹  `SerGood avoid (.ok fs)`
  rangeGood_of_fields : every present entry obeys the `rangeSpec` table  ⟹  `RangeGood (.ok fs)`

plus `@[simp]` evaluation rules for `entryWf` / `entryInRange` on the constructors the models use
(`fld`, `skipNone`, `fldOpt`, `jnat`, `jint`, `jbool`, `jrat`, `jhex4`, `.lit`, `.hypot`, `.atan2deg`).
-/
import Rs1090.Proofs.Decode.Ser
namespace Rs1090.Model
open Rs1090

/-- key ids of all entries of a field list, skipped or not -/
def Fields.ids (fs : Fields) : List Nat := fs.map (·.1.id)

/-- a present value is well-formed JSON -/
def entryWf : Key × Option Json → Bool
  | (_, some j) => j.wf
  | (_, none) => true

/-- a present value obeys the constraint the C08 table gives for its key -/
def entryInRange : Key × Option Json → Bool
  | (k, some v) => (match specFor k.id with | some c => c.holds v | none => v.inRange)
  | (_, none) => true

/-! ### from entries to the object -/

theorem keyIds_toObj_sublist_ids (fs : Fields) : (keyIds fs.toObj).Sublist fs.ids := by
  induction fs with
  | nil => exact List.Sublist.slnil
  | cons e r ih =>
    obtain ⟨k, v⟩ := e
    cases v with
    | none =>
      have : Fields.toObj ((k, none) :: r) = Fields.toObj r := by simp [Fields.toObj]
      rw [this]; exact List.Sublist.cons _ ih
    | some j =>
      have : Fields.toObj ((k, some j) :: r) = (k, j) :: Fields.toObj r := by
        simp [Fields.toObj]
      rw [this]; exact List.Sublist.cons_cons _ ih

theorem wfObj_toObj (fs : Fields) (h : fs.all entryWf = true) : Json.wfObj fs.toObj = true := by
  induction fs with
  | nil => simp [Fields.toObj, Json.wfObj]
  | cons e r ih =>
    obtain ⟨k, v⟩ := e
    rw [List.all_cons, Bool.and_eq_true] at h
    cases v with
    | none =>
      have : Fields.toObj ((k, none) :: r) = Fields.toObj r := by simp [Fields.toObj]
      rw [this]; exact ih h.2
    | some j =>
      have : Fields.toObj ((k, some j) :: r) = (k, j) :: Fields.toObj r := by
        simp [Fields.toObj]
      rw [this]
      simp only [Json.wfObj, Bool.and_eq_true]
      exact ⟨h.1, ih h.2⟩

theorem inRangeObj_toObj (fs : Fields) (h : fs.all entryInRange = true) : Json.inRangeObj fs.toObj = true := by
  induction fs with
  | nil => simp [Fields.toObj, Json.inRangeObj]
  | cons e r ih =>
    obtain ⟨k, v⟩ := e
    rw [List.all_cons, Bool.and_eq_true] at h
    cases v with
    | none =>
      have : Fields.toObj ((k, none) :: r) = Fields.toObj r := by simp [Fields.toObj]
      rw [this]; exact ih h.2
    | some j =>
      have : Fields.toObj ((k, some j) :: r) = (k, j) :: Fields.toObj r := by
        simp [Fields.toObj]
      rw [this]
      simp only [Json.inRangeObj, Bool.and_eq_true]
      exact ⟨h.1, ih h.2⟩

/-- C07 for a field list from per-entry facts -/
theorem serGood_of_fields (avoid : List Nat) (fs : Fields)
    (hn : fs.ids.Nodup) (ha : ∀ k ∈ fs.ids, k ∉ avoid) (hw : fs.all entryWf = true) :
    SerGood avoid (.ok fs) :=
  ⟨fs, rfl, (keyIds_toObj_sublist_ids fs).nodup hn,
    fun k hk => ha k ((keyIds_toObj_sublist_ids fs).subset hk), wfObj_toObj fs hw⟩

/-- C08 for a field list from per-entry facts -/
theorem rangeGood_of_fields (fs : Fields) (h : fs.all entryInRange = true) : RangeGood (.ok fs) := by
  intro fs' e
  cases e
  exact inRangeObj_toObj fs h

/-- decidable form of the two key conditions, for `decide` on closed id lists -/
def idsOk (avoid ids : List Nat) : Bool := decide ids.Nodup && ids.all (fun k => !avoid.contains k)

theorem idsOk_spec {avoid ids : List Nat} (h : idsOk avoid ids = true) :
    ids.Nodup ∧ ∀ k ∈ ids, k ∉ avoid := by
  unfold idsOk at h
  rw [Bool.and_eq_true] at h
  refine ⟨of_decide_eq_true h.1, fun k hk hmem => ?_⟩
  have := List.all_eq_true.mp h.2 k hk
  simp [hmem] at this

/-! ### evaluation rules -/

@[simp] theorem Fields.ids_nil : Fields.ids [] = [] := rfl
@[simp] theorem Fields.ids_cons (e : Key × Option Json) (r : Fields) :
    Fields.ids (e :: r) = e.1.id :: Fields.ids r := rfl
@[simp] theorem Fields.ids_append (a b : Fields) : Fields.ids (a ++ b) = Fields.ids a ++ Fields.ids b := by
  simp [Fields.ids]
@[simp] theorem fld_fst (k : Key) (v : Json) : (fld k v).1 = k := rfl
@[simp] theorem skipNone_fst (k : Key) (v : Option Json) : (skipNone k v).1 = k := rfl
@[simp] theorem fldOpt_fst (k : Key) (v : Option Json) : (fldOpt k v).1 = k := rfl

@[simp] theorem entryWf_fld (k : Key) (v : Json) : entryWf (fld k v) = v.wf := rfl
@[simp] theorem entryWf_skipNone_none (k : Key) : entryWf (skipNone k none) = true := rfl
@[simp] theorem entryWf_skipNone_some (k : Key) (v : Json) : entryWf (skipNone k (some v)) = v.wf := rfl
theorem entryWf_skipNone_map {α} (k : Key) (o : Option α) (f : α → Json) (h : ∀ a, (f a).wf = true) :
    entryWf (skipNone k (o.map f)) = true := by
  cases o with
  | none => rfl
  | some a => exact h a
theorem entryWf_fldOpt_map {α} (k : Key) (o : Option α) (f : α → Json) (h : ∀ a, (f a).wf = true) :
    entryWf (fldOpt k (o.map f)) = true := by
  cases o with
  | none => simp [fldOpt, entryWf, Json.wf]
  | some a => simpa [fldOpt, entryWf] using h a

@[simp] theorem wf_int (i : Int) : Json.wf (.int i) = true := by simp [Json.wf]
@[simp] theorem wf_bool (b : Bool) : Json.wf (.bool b) = true := by simp [Json.wf]
@[simp] theorem wf_num (n : Int) (d : Nat) : Json.wf (.num n d) = (d != 0) := by simp [Json.wf]
@[simp] theorem wf_jrat_eq (n : Int) (d : Nat) : (jrat n d).wf = (d != 0) := wf_num _ _

@[simp] theorem inRange_int (i : Int) : Json.inRange (.int i) = true := by simp [Json.inRange]
@[simp] theorem inRange_bool (b : Bool) : Json.inRange (.bool b) = true := by simp [Json.inRange]
@[simp] theorem inRange_num (n : Int) (d : Nat) : Json.inRange (.num n d) = true := by simp [Json.inRange]
@[simp] theorem inRange_hypot (a b : Int) : Json.inRange (.hypot a b) = true := by simp [Json.inRange]
@[simp] theorem inRange_atan2deg (a b : Int) : Json.inRange (.atan2deg a b) = true := by simp [Json.inRange]

/-- an entry whose key is not in the C08 table: the value only has to be range-clean inside -/
theorem entryInRange_free (k : Key) (v : Json) (hk : specFor k.id = none) (hv : v.inRange = true) :
    entryInRange (k, some v) = true := by
  simp only [entryInRange, hk]; exact hv

/-- an entry whose key is in the C08 table -/
theorem entryInRange_spec (k : Key) (v : Json) (c : Constraint) (hk : specFor k.id = some c)
    (hv : c.holds v = true) : entryInRange (k, some v) = true := by
  simp only [entryInRange, hk]; exact hv

@[simp] theorem entryInRange_none (k : Key) : entryInRange (k, none) = true := rfl
@[simp] theorem entryInRange_skipNone_none (k : Key) : entryInRange (skipNone k none) = true := rfl

/-- optional field of an unconstrained key -/
theorem entryInRange_free_opt (k : Key) (o : Option Json) (hk : specFor k.id = none)
    (hv : ∀ v, o = some v → v.inRange = true) : entryInRange (k, o) = true := by
  cases o with
  | none => rfl
  | some v => exact entryInRange_free k v hk (hv v rfl)

/-- optional field of a constrained key -/
theorem entryInRange_spec_opt (k : Key) (o : Option Json) (c : Constraint) (hk : specFor k.id = some c)
    (hv : ∀ v, o = some v → c.holds v = true) : entryInRange (k, o) = true := by
  cases o with
  | none => rfl
  | some v => exact entryInRange_spec k v c hk (hv v rfl)


end Rs1090.Model

namespace Rs1090.Model
open Rs1090

/-- a Boolean post-condition checked on an `Outcome` (the shape kernel enumerations produce) gives
    panic-freedom and the post-condition -/
def Outcome.check {α} (P : α → Bool) : Outcome α → Bool
  | .ok a => P a
  | _ => false

theorem Outcome.of_check {α} {o : Outcome α} {P : α → Bool} (h : Outcome.check P o = true) :
    o.isPanic = false ∧ ∀ a, o = .ok a → P a = true := by
  cases o with
  | ok a => exact ⟨rfl, fun b hb => by cases hb; exact h⟩
  | err e => simp [Outcome.check] at h
  | panic x => simp [Outcome.check] at h

/-- key-id side conditions of `serGood_of_fields` on a field list with literal keys -/
macro "ids_tac" : tactic =>
  `(tactic| (simp only [Fields.ids_cons, Fields.ids_nil, Fields.ids_append, fld_fst, skipNone_fst, fldOpt_fst,
               List.cons_append, List.nil_append]; decide))

end Rs1090.Model
