/-
BDS 1,7 reader (and the flag-list reader shared with BDS 1,8 / 1,9): panic-freedom (C01),
serialisation (C07), ranges (C08) — for every reader state.
-/
import Rs1090.Proofs.Decode.Bds10
import Rs1090.Model.Decode.Bds17

namespace Rs1090.Model.Gicb
open Rs1090 Rs1090.Model Rs1090.Model.CommbA

theorem applyRule_noPanic (r : Rule) (v : Bool) : (applyRule r v).isPanic = false := by
  cases r <;> cases v <;> rfl

/-- what `readFlags l` returns: the keys of `l` in order, each either skipped or `true` -/
def FlagFields (l : List (Key × Rule)) (fs : Fields) : Prop :=
  fs.map (·.1) = l.map (·.1) ∧ ∀ f ∈ fs, f.2 = none ∨ f.2 = some (.bool true)

theorem flagField_snd (k : Key) (v : Bool) :
    (flagField k v).2 = none ∨ (flagField k v).2 = some (.bool true) := by
  cases v
  · left; rfl
  · right; rfl

/-- symbolic execution of the flag-list reader: no panic, and the result has the shape above -/
theorem readFlags_wp (l : List (Key × Rule)) (Q : Fields → Rd → Prop) (s : Rd)
    (h : ∀ fs s', FlagFields l fs → Q fs s') : wp (readFlags l) Q s := by
  induction l generalizing Q s with
  | nil =>
    unfold readFlags; rw [wp_pure]
    exact h _ _ ⟨rfl, fun f hf => by cases hf⟩
  | cons kr rest ih =>
    rcases kr with ⟨k, r⟩
    unfold readFlags
    rw [wp_bind]; apply wp_flag_any; intro v s1
    rw [wp_bind]; apply wp_lift_of (applyRule_noPanic r v); intro v' _
    rw [wp_bind]; apply ih; intro fs s2 hfs
    rw [wp_pure]; apply h
    refine ⟨?_, ?_⟩
    · simp only [List.map_cons, hfs.1]; rfl
    · intro f hf
      rcases List.mem_cons.mp hf with rfl | hf
      · exact flagField_snd k v'
      · exact hfs.2 f hf

theorem readFlags_noPanic (l : List (Key × Rule)) : NoPanic (readFlags l) :=
  fun s => readFlags_wp l _ s (fun _ _ _ => trivial)

theorem map_id_of_flagFields {l : List (Key × Rule)} {fs : Fields} (h : FlagFields l fs) :
    fs.map (·.1.id) = l.map (·.1.id) := by
  have := congrArg (List.map Key.id) h.1
  simp only [List.map_map] at this
  exact this

/-- C07 for a flag register: the static key list (tag included) has no duplicate, so whatever
    subset of the flags is printed has none either; the values are the literal `true`. -/
theorem flags_serGood (tag name : Key) (l : List (Key × Rule)) (fs : Fields) (h : FlagFields l fs)
    (hnd : decide ((tag.id :: l.map (·.1.id)).Nodup) = true) :
    SerGood [] (tagged tag name (.ok fs)) := by
  refine ⟨fld tag (.lit name) :: fs, rfl, ?_, fun _ _ => List.not_mem_nil, ?_⟩
  · apply nodup_toObj
    have : (fld tag (Json.lit name) :: fs).map (·.1.id) = tag.id :: l.map (·.1.id) := by
      simp only [List.map_cons, map_id_of_flagFields h]; rfl
    rw [this]; exact of_decide_eq_true hnd
  · rw [Json.wfObj_iff]
    intro kv hkv
    rcases kv with ⟨k, v⟩
    have hm := mem_toObj hkv
    rcases List.mem_cons.mp hm with heq | hm
    · have : some v = some (Json.lit name) := congrArg Prod.snd heq
      cases this; rfl
    · rcases h.2 _ hm with h0 | h1
      · cases h0
      · have : some v = some (Json.bool true) := h1
        cases this; rfl

/-- C08 for a flag register: none of the keys names a constrained quantity -/
theorem flags_rangeGood (tag name : Key) (l : List (Key × Rule)) (fs : Fields) (h : FlagFields l fs)
    (hsp : (tag.id :: l.map (·.1.id)).all (fun k => (specFor k).isNone) = true) :
    RangeGood (tagged tag name (.ok fs)) := by
  apply rangeGood_tagged
  apply inRangeObj_of
  intro kv hkv
  rcases kv with ⟨k, v⟩
  have hm := mem_toObj hkv
  have hid : k.id ∈ tag.id :: l.map (·.1.id) := by
    have : k.id ∈ (fld tag (Json.lit name) :: fs).map (·.1.id) :=
      List.mem_map.mpr ⟨_, hm, rfl⟩
    rw [List.map_cons, map_id_of_flagFields h] at this
    exact this
  have hs := List.all_eq_true.mp hsp _ hid
  refine ⟨by simpa [Option.isNone_iff_eq_none] using hs, ?_⟩
  rcases List.mem_cons.mp hm with heq | hm
  · have : some v = some (Json.lit name) := congrArg Prod.snd heq
    cases this; rfl
  · rcases h.2 _ hm with h0 | h1
    · cases h0
    · have : some v = some (Json.bool true) := h1
      cases this; rfl

end Rs1090.Model.Gicb

namespace Rs1090.Model.Bds17
open Rs1090 Rs1090.Model Rs1090.Model.CommbA Rs1090.Model.Gicb

theorem checkZeros_wp (l : List Nat) (Q : Bool → Rd → Prop) (s : Rd)
    (h : ∀ b s', Q b s') : wp (checkZeros l) Q s := by
  induction l generalizing s with
  | nil => unfold checkZeros; rw [wp_pure]; exact h _ _
  | cons n rest ih =>
    unfold checkZeros
    rw [wp_bind]; apply wp_bits_any; intro v s1 _
    wp_if hv
    · rw [wp_fail]; trivial
    · exact ih s1

/-- C01 -/
theorem read_noPanic : NoPanic read := by
  intro s
  unfold NoPanicAt read
  rw [wp_bind]; apply readFlags_wp; intro fs s1 _
  wp_run
  apply checkZeros_wp; intro _ _
  wp_run

/-- the 25 keys of the serialised register (`bds` + 24 flags) are pairwise distinct -/
theorem keys_nodup : decide (((key! "bds").id :: flags.map (·.1.id)).Nodup) = true := by decide

/-- none of them is a key of the C08 table -/
theorem keys_unconstrained :
    ((key! "bds").id :: flags.map (·.1.id)).all (fun k => (specFor k).isNone) = true := by decide

/-- C07 -/
theorem read_serGood : ∀ s, wp read (fun r _ => SerGood [] r) s := by
  intro s
  unfold read
  rw [wp_bind]; apply readFlags_wp; intro fs s1 hfs
  wp_run
  apply checkZeros_wp; intro _ _
  wp_run
  exact flags_serGood _ _ flags fs hfs keys_nodup

/-- C08 -/
theorem read_rangeGood : ∀ s, wp read (fun r _ => RangeGood r) s := by
  intro s
  unfold read
  rw [wp_bind]; apply readFlags_wp; intro fs s1 hfs
  wp_run
  apply checkZeros_wp; intro _ _
  wp_run
  exact flags_rangeGood _ _ flags fs hfs keys_unconstrained

end Rs1090.Model.Bds17
