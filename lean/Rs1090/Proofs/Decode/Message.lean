import Rs1090.Proofs.Decode.Commb
import Rs1090.Proofs.Decode.Bds06
import Rs1090.Proofs.Decode.Bds08
import Rs1090.Proofs.Decode.Bds09
import Rs1090.Proofs.Decode.Bds61
import Rs1090.Proofs.Decode.Bds62
import Rs1090.Model.Decode.Message
import Rs1090.Props.C13
namespace Rs1090.Model.Message
open Rs1090 Rs1090.Model

theorem unused_noPanic : NoPanic unused := by
  intro s; unfold NoPanicAt unused; wp_run

/-- The payload readers of `id_pat` variants re-read the type code after `seek_last_read`.
    When the 5-bit code was read from a byte boundary (`p0 % 8 = 0`), the seek returns to `p0`, so
    they see the *same* type code as the dispatch — which is what bounds `14 - tc` in BDS 0,6. -/
theorem meBody_noPanicAt (bytes : List Nat) (p0 nread : Nat) (hp : p0 % 8 = 0) :
    NoPanicAt (meBody (bitsBE bytes p0 5)) { bytes := bytes, p := p0 + 5, last := 5, nread := nread } := by
  unfold NoPanicAt
  delta meBody
  generalize htc : bitsBE bytes p0 5 = tc
  wp_if h
  · rw [wp_bind]; apply wp_of_noPanic unused_noPanic; intro _ _; wp_run
  wp_if h
  · wp_run; apply wp_of_noPanic Bds08.read_noPanic; intro _ _; wp_run
  wp_if h5
  · rw [wp_bind, wp_seekLast]; intro _
    rw [wp_bind]
    refine wp_mono (Q := fun _ _ => True) ?_ (fun _ _ _ => by wp_run)
    apply Bds06.read_noPanicAt
    simp only [ceilDiv8]
    have e : 8 * ((p0 + 5 + 7) / 8 - (5 + 7) / 8) = p0 := by omega
    rw [e, htc]
    simp at h5; omega
  wp_if h
  · wp_run; apply wp_of_noPanic Bds05.read_noPanic; intro _ _; wp_run
  wp_if h
  · rw [wp_bind]; apply wp_of_noPanic Bds09.read_noPanic; intro _ _; wp_run
  wp_if h
  · rw [wp_bind]; apply wp_of_noPanic unused_noPanic; intro _ _; wp_run
  wp_if h
  · rw [wp_bind]; apply wp_of_noPanic unused_noPanic; intro _ _; wp_run
  wp_if h
  · wp_run
  wp_if h
  · rw [wp_bind]; apply wp_of_noPanic Bds61.read_noPanic; intro _ _; wp_run
  wp_if h
  · rw [wp_bind]; apply wp_of_noPanic Bds62.read_noPanic; intro _ _; wp_run
  wp_if h
  · rw [wp_bind]; apply wp_of_noPanic unused_noPanic; intro _ _; wp_run
  · rw [wp_bind]; apply wp_of_noPanic Bds65.read_noPanic; intro _ _; wp_run

theorem me_noPanicAt (s : Rd) (hp : s.p % 8 = 0) : NoPanicAt me s := by
  unfold NoPanicAt me
  rw [wp_bind, wp_enumId_pos 5 (by decide)]
  intro _
  exact meBody_noPanicAt s.bytes s.p _ hp

theorem surveillanceHeader_noPanic : NoPanic surveillanceHeader := by
  intro s; unfold NoPanicAt surveillanceHeader; wp_run

theorem ac13Field_noPanic : NoPanic ac13Field := by
  intro s; unfold NoPanicAt ac13Field
  wp_run
  exact wp_lift_of (Rs1090.Props.C13.ac13_ne_panic _ (by assumption)) (fun _ _ => trivial)

theorem identityCode_noPanic : NoPanic identityCode := by
  intro s; unfold NoPanicAt identityCode; wp_run

theorem dfBody_noPanicAt (crc id : Nat) (s : Rd) (hp : s.p = 5) : NoPanicAt (dfBody crc id) s := by
  unfold NoPanicAt
  delta dfBody
  split
  · wp_run; apply wp_of_noPanic ac13Field_noPanic; intro _ _; wp_run
  · rw [wp_bind]; apply wp_of_noPanic surveillanceHeader_noPanic; intro _ _
    rw [wp_bind]; apply wp_of_noPanic ac13Field_noPanic; intro _ _; wp_run
  · rw [wp_bind]; apply wp_of_noPanic surveillanceHeader_noPanic; intro _ _
    rw [wp_bind]; apply wp_of_noPanic identityCode_noPanic; intro _ _; wp_run
  · wp_run
  · wp_run; apply wp_of_noPanic ac13Field_noPanic; intro _ _
    rw [wp_bind]; apply wp_of_noPanic (noPanic_bytesN 7); intro _ _; wp_run
  · -- DF17: 5 + 3 + 24 bits, then the ME field at bit 32
    rw [wp_bind, wp_enumId_pos 3 (by decide)]; intro _
    rw [wp_bind, wp_bits_pos 24 (by decide)]; intro _
    rw [wp_bind]
    refine wp_mono (Q := fun _ _ => True) (me_noPanicAt _ (by simp [Rd.adv, hp])) (fun _ _ _ => by wp_run)
  · rw [wp_bind, wp_enumId_pos 3 (by decide)]; intro _
    rw [wp_bind, wp_bits_pos 24 (by decide)]; intro _
    rw [wp_bind]
    refine wp_mono (Q := fun _ _ => True) (me_noPanicAt _ (by simp [Rd.adv, hp])) (fun _ _ _ => by wp_run)
  · wp_run
  · rw [wp_bind]; apply wp_of_noPanic surveillanceHeader_noPanic; intro _ _
    rw [wp_bind]; apply wp_of_noPanic ac13Field_noPanic; intro ac _
    rw [wp_bind]; apply wp_of_noPanic (Commb.df20_noPanic ac); intro _ _; wp_run
  · rw [wp_bind]; apply wp_of_noPanic surveillanceHeader_noPanic; intro _ _
    rw [wp_bind]; apply wp_of_noPanic identityCode_noPanic; intro _ _
    rw [wp_bind]; apply wp_of_noPanic Commb.df21_noPanic; intro _ _; wp_run
  · split
    · wp_run; apply wp_of_noPanic (noPanic_bytesN 10); intro _ _; wp_run
    · wp_run

/-- `DF::from_reader_with_ctx` never panics when started at the beginning of a buffer -/
theorem df_noPanicAt (crc : Nat) (bytes : List Nat) : NoPanicAt (df crc) (Rd.init bytes) := by
  unfold NoPanicAt df
  rw [wp_bind, wp_enumId_pos 5 (by decide)]
  intro _
  exact dfBody_noPanicAt crc _ _ (by simp [Rd.init])

end Rs1090.Model.Message
