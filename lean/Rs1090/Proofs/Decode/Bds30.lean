/-
BDS 3,0 reader: panic-freedom (C01), serialisation (C07: the flattened untagged `ThreatType` in all
four shapes), ranges (C08: `threat_bearing` ∈ [0, 360)) — for every reader state.
-/
import Rs1090.Proofs.Decode.Bds10
import Rs1090.Model.Decode.Bds30
import Rs1090.Props.C13
namespace Rs1090.Model.Bds30
open Rs1090 Rs1090.Model Rs1090.Model.CommbA

theorem failIfNot30_noPanic (v : Nat) : (failIfNot30 v).isPanic = false := by
  unfold failIfNot30; split <;> rfl

/-! ### the bearing conversion, over all 64 codes -/

/-- Boolean form of "no panic, no error, and a reported bearing is below 360" -/
def bearingOk (n : Nat) : Bool :=
  match threatBearing n with
  | .ok (some c) => decide (c < 360)
  | .ok none => true
  | _ => false

theorem bearingOk_all : ∀ n, n < 2 ^ 6 → bearingOk n = true :=
  Rs1090.Props.C13.enum 6 (by decide +kernel)

/-- `6 * (n - 1) + 3` never overflows `u16` for a 6-bit code -/
theorem threatBearing_noPanic (n : Nat) (h : n < 2 ^ 6) : (threatBearing n).isPanic = false := by
  have := bearingOk_all n h
  unfold bearingOk at this
  cases hb : threatBearing n with
  | ok o => rfl
  | err e => rfl
  | panic x => rw [hb] at this; cases this

/-- C08 for the bearing: every reported value is in [0, 360) (after the repair of /repo; the
    original code gave 363, 369, 375 for the codes 61..63) -/
theorem threatBearing_lt (n : Nat) (h : n < 2 ^ 6) (c : Nat) (hc : threatBearing n = .ok (some c)) :
    c < 360 := by
  have := bearingOk_all n h
  unfold bearingOk at this
  rw [hc] at this
  exact of_decide_eq_true this

theorem threatRange_shape (n : Nat) (j : Json) (h : threatRange n = some j) :
    ∃ m : Int, j = jrat m 10 := by
  unfold threatRange at h
  split at h
  · cases h
  · cases h; exact ⟨_, rfl⟩

/-! ### the flattened threat type -/

/-- the three serialised shapes of `ThreatType` -/
def TTGood (r : SerFields) : Prop :=
  r = .ok [] ∨
  (∃ icao, r = .ok [fld (key! "threat_identity") (jhex6 icao)]) ∨
  (∃ (alt : Nat) (orng : Option Json) (ob : Option Nat),
    r = .ok [fld (key! "threat_altitude") (jnat alt), fldOpt (key! "threat_range") orng,
             fldOpt (key! "threat_bearing") (ob.map jnat)] ∧
    (∀ j, orng = some j → ∃ m : Int, j = jrat m 10) ∧ (∀ c, ob = some c → c < 360))

theorem threatType_wp (Q : SerFields → Rd → Prop) (s : Rd)
    (h : ∀ r s', TTGood r → Q r s') : wp threatType Q s := by
  unfold threatType
  rw [wp_bind]; apply wp_enumId_any; intro id s1 _
  wp_if h1
  · wp_run
    apply h; right; left; exact ⟨_, rfl⟩
  · wp_if h2
    · wp_run
      apply wp_lift_of (Rs1090.Props.C13.ac13_ne_panic _ (by assumption)); intro alt _
      wp_run
      rename_i rng _ _ b _ hb
      apply wp_lift_of (threatBearing_noPanic b hb); intro ob hob
      wp_run
      apply h; right; right
      exact ⟨alt, threatRange rng, ob, rfl, threatRange_shape rng, fun c hc => threatBearing_lt b hb c (hc ▸ hob)⟩
    · wp_run
      apply h; left; rfl

theorem araBit_wp (issued : Bool) (Q : Option Bool → Rd → Prop) (s : Rd)
    (h : ∀ v s', Q (ifIssued issued v) s') : wp (araBit issued) Q s := by
  unfold araBit
  rw [wp_bind]; apply wp_flag_any; intro v s'
  rw [wp_pure]; exact h v s'

/-- `wp_run` extended with the two sub-readers of this register -/
macro "wp_run30" : tactic =>
  `(tactic| repeat (first | wp_step | (apply araBit_wp; intro _ _)))

/-- C01 -/
theorem read_noPanic : NoPanic read := by
  intro s
  unfold NoPanicAt read
  wp_run
  apply wp_lift_of (failIfNot30_noPanic _); intro _ _
  wp_run30
  apply threatType_wp; intro tt s' _
  wp_run

/-! ### serialisation and ranges of the assembled object -/

theorem serGood_split (tag name : Key) (own B : Fields)
    (h1 : decide (keyIds (Fields.toObj (fld tag (.lit name) :: (own ++ B)))).Nodup = true)
    (h2 : Json.wfObj (Fields.toObj (fld tag (.lit name) :: (own ++ B))) = true) :
    SerGood [] (tagged tag name ((Except.ok B : SerFields).map fun fs => own ++ fs)) :=
  serGood_ok (fld tag (.lit name) :: (own ++ B)) h1 h2

theorem rangeGood_split (tag name : Key) (own B : Fields)
    (h1 : Json.inRangeObj (Fields.toObj (fld tag (.lit name) :: own)) = true)
    (h2 : Json.inRangeObj (Fields.toObj B) = true) :
    RangeGood (tagged tag name ((Except.ok B : SerFields).map fun fs => own ++ fs)) := by
  apply rangeGood_ok (fld tag (.lit name) :: (own ++ B))
  rw [← List.cons_append, toObj_append, inRangeObj_append, h1, h2]
  rfl

/-- C07: all 2 (RA issued or not) × 6 (threat shapes × `null`s) serialised forms have distinct keys
    and finite numbers; flattening the threat type never fails -/
theorem read_serGood : ∀ s, wp read (fun r _ => SerGood [] r) s := by
  intro s
  unfold read
  wp_run
  apply wp_lift_of (failIfNot30_noPanic _); intro _ _
  rw [wp_bind]; apply wp_flag_any; intro issued s1
  wp_run30
  apply threatType_wp; intro tt s' htt
  wp_run
  rcases htt with rfl | ⟨icao, rfl⟩ | ⟨alt, orng, ob, rfl, hr, _⟩
  · cases issued <;> exact serGood_split _ _ _ _ rfl rfl
  · cases issued <;> exact serGood_split _ _ _ _ rfl rfl
  · cases orng with
    | none => cases ob <;> cases issued <;> exact serGood_split _ _ _ _ rfl rfl
    | some j =>
      obtain ⟨m, rfl⟩ := hr j rfl
      cases ob <;> cases issued <;> exact serGood_split _ _ _ _ rfl rfl

/-- C08: `threat_bearing` is in [0, 360); no other key of this register is in the table -/
theorem read_rangeGood : ∀ s, wp read (fun r _ => RangeGood r) s := by
  intro s
  unfold read
  wp_run
  apply wp_lift_of (failIfNot30_noPanic _); intro _ _
  rw [wp_bind]; apply wp_flag_any; intro issued s1
  wp_run30
  apply threatType_wp; intro tt s' htt
  wp_run
  rcases htt with rfl | ⟨icao, rfl⟩ | ⟨alt, orng, ob, rfl, hr, hb⟩
  · cases issued <;> exact rangeGood_split _ _ _ _ rfl rfl
  · cases issued <;> exact rangeGood_split _ _ _ _ rfl rfl
  · have hB : Json.inRangeObj (Fields.toObj [fld (key! "threat_altitude") (jnat alt),
        fldOpt (key! "threat_range") orng, fldOpt (key! "threat_bearing") (ob.map jnat)]) = true := by
      cases ob with
      | none =>
        cases orng with
        | none => rfl
        | some j => obtain ⟨m, rfl⟩ := hr j rfl; rfl
      | some c =>
        have hc : c < 360 := hb c rfl
        show Json.inRangeObj [(key! "threat_altitude", Json.int (alt : Int)),
          (key! "threat_range", orng.getD .null), (key! "threat_bearing", Json.int (c : Int))] = true
        rw [inRangeObj_cons_none _ _ _ (by rfl), inRangeObj_cons_none _ _ _ (by rfl),
            inRangeObj_cons_some _ _ _ (.range 0 360 false) (by rfl)]
        have h2 : (orng.getD Json.null).inRange = true := by
          cases orng with
          | none => rfl
          | some j => obtain ⟨m, rfl⟩ := hr j rfl; rfl
        rw [h2]
        simp only [Json.inRange, Constraint.holds, ratIn, Json.inRangeObj, Bool.true_and, Bool.and_true,
          Bool.false_eq_true, if_true, if_false, decide_eq_true_eq, Bool.and_eq_true, bne_iff_ne]
        omega
    cases issued <;> exact rangeGood_split _ _ _ _ rfl hB

end Rs1090.Model.Bds30
