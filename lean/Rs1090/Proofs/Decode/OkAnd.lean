/-
Helper for the per-register proofs of BDS 4,0 / 4,4 / 4,5 / 5,0 / 6,0: a Boolean
"does not panic, and an accepted value satisfies `p`" on `Outcome`, so that facts about the pure
field conversions can be established by complete kernel enumeration of the field's code space and
then consumed at the `R.lift` sites of the readers.
-/
import Rs1090.Proofs.Decode.Wp
import Rs1090.Proofs.Decode.Ser
import Rs1090.Props.C13
namespace Rs1090

/-- the computation does not panic and, when it returns a value, the value satisfies `p`
    (an `Err(_)` is an acceptable outcome: the register hypothesis is dropped) -/
def Outcome.okAnd {α} (o : Outcome α) (p : α → Bool) : Bool :=
  match o with
  | .ok a => p a
  | .err _ => true
  | .panic _ => false

theorem Outcome.okAnd_noPanic {α} {o : Outcome α} {p : α → Bool} (h : o.okAnd p = true) :
    o.isPanic = false := by
  cases o <;> simp [Outcome.okAnd, Outcome.isPanic] at h ⊢

theorem Outcome.okAnd_ok {α} {o : Outcome α} {p : α → Bool} {a : α} (h : o.okAnd p = true)
    (e : o = .ok a) : p a = true := by
  subst e; exact h

end Rs1090

namespace Rs1090.Model
open Rs1090

/-- consume an `okAnd` fact at an `R.lift` site -/
theorem wp_lift_okAnd {α} {o : Outcome α} {p : α → Bool} {Q : α → Rd → Prop} {s : Rd}
    (h : o.okAnd p = true) (hq : ∀ a, p a = true → Q a s) : wp (R.lift o) Q s :=
  wp_lift_of (Outcome.okAnd_noPanic h) (fun a e => hq a (Outcome.okAnd_ok h e))

/-- a one-bit field is 0 or 1 -/
theorem bit_cases {v : Nat} (h : v < 2 ^ 1) : v = 0 ∨ v = 1 := by omega

/-- post-condition on an optional value -/
def optAll {α} (p : α → Bool) : Option α → Bool
  | some a => p a
  | none => true

theorem optAll_some {α} {p : α → Bool} {o : Option α} {a : α} (h : optAll p o = true) (e : o = some a) :
    p a = true := by subst e; exact h

/-! ### constraints on optional fields (`fldOpt`: `null` when absent; `skipNone`: omitted) -/

theorem holds_getD_map {α} (c : Constraint) (f : α → Json) (p : α → Bool) (o : Option α)
    (ho : optAll p o = true) (h : ∀ a, p a = true → c.holds (f a) = true) :
    c.holds ((o.map f).getD Json.null) = true := by
  cases o with
  | none => exact holds_null c
  | some a => exact h a ho

theorem holds_nonneg_jnat (n : Nat) : Constraint.nonneg.holds (jnat n) = true := by
  simp [Constraint.holds, jnat]

theorem holds_nonneg_getD_map_jnat (o : Option Nat) :
    Constraint.nonneg.holds ((o.map jnat).getD Json.null) = true := by
  cases o with
  | none => rfl
  | some a => exact holds_nonneg_jnat a

theorem inRange_getD_map {α} (f : α → Json) (o : Option α) (h : ∀ a, (f a).inRange = true) :
    ((o.map f).getD Json.null).inRange = true := by
  cases o <;> simp [h]

theorem wf_getD_of (o : Option Json) (h : optAll (fun j => j.wf && j.inRange) o = true) :
    (o.getD Json.null).wf = true := by
  cases o with
  | none => rfl
  | some j => simp only [optAll, Bool.and_eq_true] at h; exact h.1

theorem inRange_getD_of (o : Option Json) (h : optAll (fun j => j.wf && j.inRange) o = true) :
    (o.getD Json.null).inRange = true := by
  cases o with
  | none => rfl
  | some j => simp only [optAll, Bool.and_eq_true] at h; exact h.2

/-- `skipNone k (o.map f)`: a present value is `f a` for the `a` the conversion returned -/
theorem map_eq_some {α} {f : α → Json} {o : Option α} {v : Json} (h : o.map f = some v) :
    ∃ a, o = some a ∧ v = f a := by
  cases o with
  | none => cases h
  | some a => exact ⟨a, rfl, by simpa using h.symm⟩

theorem wf_of_map_some {α} {f : α → Json} {o : Option α} {v : Json} (hv : o.map f = some v)
    (h : ∀ a, (f a).wf = true) : v.wf = true := by
  obtain ⟨a, _, rfl⟩ := map_eq_some hv; exact h a

theorem inRange_of_map_some {α} {f : α → Json} {o : Option α} {v : Json} (hv : o.map f = some v)
    (h : ∀ a, (f a).inRange = true) : v.inRange = true := by
  obtain ⟨a, _, rfl⟩ := map_eq_some hv; exact h a

theorem holds_of_map_some {α} (c : Constraint) {f : α → Json} {p : α → Bool} {o : Option α} {v : Json}
    (ho : optAll p o = true) (hv : o.map f = some v) (h : ∀ a, p a = true → c.holds (f a) = true) :
    c.holds v = true := by
  obtain ⟨a, rfl, rfl⟩ := map_eq_some hv; exact h a ho

theorem wf_of_good {o : Option Json} {v : Json} (h : optAll (fun j => j.wf && j.inRange) o = true)
    (hv : o = some v) : v.wf = true := by
  have := optAll_some h hv; simp only [Bool.and_eq_true] at this; exact this.1

theorem inRange_of_good {o : Option Json} {v : Json} (h : optAll (fun j => j.wf && j.inRange) o = true)
    (hv : o = some v) : v.inRange = true := by
  have := optAll_some h hv; simp only [Bool.and_eq_true] at this; exact this.2

theorem holds_multiple_jint (m : Nat) (lo hi x : Int) (h1 : x % (m : Int) = 0) (h2 : lo ≤ x) (h3 : x ≤ hi) :
    (Constraint.multiple m lo hi).holds (jint x) = true := by
  simp [Constraint.holds, jint, h1, h2, h3]

/-- rational range check, unfolded to two integer inequalities -/
theorem holds_range_jrat (lo hi : Int) (incl : Bool) (n : Int) (d : Nat) (hd : d ≠ 0)
    (h1 : lo * d ≤ n) (h2 : if incl then n ≤ hi * d else n < hi * d) :
    (Constraint.range lo hi incl).holds (jrat n d) = true := by
  cases incl <;> simp_all [Constraint.holds, jrat, ratIn]

end Rs1090.Model
