/-
BDS 2,0 reader: panic-freedom (C01), serialisation (C07), ranges (C08: the call sign only contains
characters of the 6-bit set) — for every reader state.
-/
import Rs1090.Proofs.Decode.Bds10
import Rs1090.Proofs.Decode.Bds08
import Rs1090.Model.Decode.Bds20
namespace Rs1090.Model.Bds20
open Rs1090 Rs1090.Model Rs1090.Model.CommbA

theorem failIfNot20_noPanic (v : Nat) : (failIfNot20 v).isPanic = false := by
  unfold failIfNot20; split <;> rfl

/-- obligation on the GENERATED table: every entry prints as a character of the C08 character set -/
theorem table_charset :
    Gen.Chars.charLookup08.all (fun b => callsignAlphabet.contains (Char.ofNat b)) = true := by decide

/-- whatever `callsign_read`'s mapping step returns only contains characters of the table -/
theorem go_charset : ∀ (cs : List Nat) (r : List Char), Bds08.callsign.go cs = .ok r →
    r.all (fun c => callsignAlphabet.contains c) = true
  | [], r, h => by
    unfold Bds08.callsign.go at h
    cases h; rfl
  | c :: rest, r, h => by
    unfold Bds08.callsign.go at h
    unfold idx at h
    cases hc : Gen.Chars.charLookup08[c]? with
    | none => rw [hc] at h; cases h
    | some b =>
      rw [hc] at h
      have hb : callsignAlphabet.contains (Char.ofNat b) = true :=
        List.all_eq_true.mp table_charset b (List.mem_of_getElem? hc)
      change (Outcome.bind (Outcome.ok b) _) = _ at h
      rw [Outcome.bind_ok] at h
      cases hr : Bds08.callsign.go rest with
      | ok r' =>
        rw [hr] at h
        change (Outcome.bind (Outcome.ok r') _) = _ at h
        rw [Outcome.bind_ok] at h
        cases h
        simp only [List.all_cons, hb, go_charset rest r' hr, Bool.and_self]
      | err e => rw [hr] at h; change (Outcome.bind (Outcome.err e) _) = _ at h; rw [Outcome.bind_err] at h; cases h
      | panic x => rw [hr] at h; change (Outcome.bind (Outcome.panic x) _) = _ at h; rw [Outcome.bind_panic] at h; cases h

/-- `bds08::callsign_read`: no panic, and the string is over the 6-bit character set -/
theorem callsign_wp (Q : List Char → Rd → Prop) (s : Rd)
    (h : ∀ cs s', cs.all (fun c => callsignAlphabet.contains c) = true → Q cs s') :
    wp Bds08.callsign Q s := by
  unfold Bds08.callsign
  rw [wp_bind]; apply Bds08.callsignChars_wp; intro cs s' hcs
  exact wp_lift_of (Bds08.go_noPanic cs hcs) (fun r hr => h r s' (go_charset cs r hr))

/-- C01 -/
theorem read_noPanic : NoPanic read := by
  intro s
  unfold NoPanicAt read
  wp_run
  apply wp_lift_of (failIfNot20_noPanic _); intro _ _
  rw [wp_bind]; apply callsign_wp; intro cs s' _
  wp_run

/-- C07 -/
theorem read_serGood : ∀ s, wp read (fun r _ => SerGood [] r) s := by
  intro s
  unfold read
  wp_run
  apply wp_lift_of (failIfNot20_noPanic _); intro _ _
  rw [wp_bind]; apply callsign_wp; intro cs s' _
  wp_run
  exact serGood_tagged _ _ _ rfl rfl

/-- C08: `callsign` is a string over `A–Z 0–9 space #` -/
theorem read_rangeGood : ∀ s, wp read (fun r _ => RangeGood r) s := by
  intro s
  unfold read
  wp_run
  apply wp_lift_of (failIfNot20_noPanic _); intro _ _
  rw [wp_bind]; apply callsign_wp; intro cs s' hcs
  wp_run
  apply rangeGood_tagged
  show Json.inRangeObj [(key! "bds", Json.lit (key! "20")), (key! "callsign", Json.chars cs)] = true
  rw [inRangeObj_cons_none _ _ _ (by rfl),
      inRangeObj_cons_some _ _ _ (.charset callsignAlphabet) (by rfl)]
  show (true && ((cs.all fun c => callsignAlphabet.contains c) && true)) = true
  rw [hcs]; rfl

end Rs1090.Model.Bds20
