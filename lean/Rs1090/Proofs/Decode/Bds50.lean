/-
BDS 5,0 track and turn report: panic-freedom (C01), serialisation (C07) and physical ranges (C08)
of `Bds50.read`, for every reader state (= every payload).
Single-field facts are complete kernel enumerations of the field's code space; the two
cross-field conversions (`rate` given the roll, `tas` given the ground speed) are proved by
unfolding the checked i16/u16 operations (`value as i16 - 512`, `value * 2`,
`gs as i16 - tas as i16`, `i16::abs`) and `omega`, using that an accepted ground speed is ≤ 600 kt.
-/
import Rs1090.Proofs.Decode.Wp
import Rs1090.Proofs.Decode.Ser
import Rs1090.Proofs.Decode.OkAnd
import Rs1090.Model.Decode.Bds50
namespace Rs1090.Model.Bds50
open Rs1090 Rs1090.Model Rs1090.Props.C13

/-! ### per-field facts -/

/-- accepted roll: `|n·45/256| ≤ 50` (hence within ±90) -/
theorem roll_spec : ∀ st sg v, sg < 2 ^ 1 → v < 2 ^ 9 →
    (roll st sg v).okAnd (optAll fun n => decide (-50 * 256 ≤ n * 45) && decide (n * 45 ≤ 50 * 256)) = true := by
  intro st sg v hsg
  cases st <;> rcases bit_cases hsg with rfl | rfl <;> revert v <;> (refine enum 9 ?_; decide +kernel)

/-- accepted track: `0 ≤ n/512 < 360`; `value as i16 - 1024` does not overflow -/
theorem track_spec : ∀ st sg v, sg < 2 ^ 1 → v < 2 ^ 10 →
    (track st sg v).okAnd (optAll fun n => decide (0 ≤ n) && decide (n < 360 * 512)) = true := by
  intro st sg v hsg
  cases st <;> rcases bit_cases hsg with rfl | rfl <;> revert v <;> (refine enum 10 ?_; decide +kernel)

/-- accepted ground speed: at most 600 kt; `value * 2` does not overflow u16 -/
theorem groundspeed_spec : ∀ st v, v < 2 ^ 10 →
    (groundspeed st v).okAnd (optAll fun g => decide (g ≤ 600)) = true := by
  intro st
  cases st <;> (refine enum 10 ?_; decide +kernel)

theorem signed_ok (half : Int) (sg v : Nat) (hh : 0 ≤ half ∧ half ≤ 32768) (hv : v < 2 ^ 15) :
    ∃ x, signed half sg v = .ok x ∧ -32768 ≤ x ∧ x < 32768 := by
  unfold signed
  split
  · refine ⟨(v : Int) - half, ?_, by omega, by omega⟩
    unfold subS inS
    rw [if_pos (by simp; omega)]
  · exact ⟨v, rfl, by omega, by omega⟩

theorem rate_spec (rollN : Option Int) : ∀ st sg v, sg < 2 ^ 1 → v < 2 ^ 9 →
    (rate rollN st sg v).okAnd (fun _ => true) = true := by
  intro st sg v hsg hv
  obtain ⟨x, hx, _⟩ := signed_ok 512 sg v (by omega) (by omega)
  unfold rate
  split
  · split <;> rfl
  · split
    · rfl
    · rw [hx]
      show (Outcome.bind (.ok x) _).okAnd _ = true
      rw [Outcome.bind_ok]
      cases rollN with
      | none => rfl
      | some n => simp only []; split <;> rfl

theorem tas_spec (gs : Option Nat) (hgs : optAll (fun g => decide (g ≤ 600)) gs = true) : ∀ st v, v < 2 ^ 10 →
    (tas gs st v).okAnd (fun _ => true) = true := by
  intro st v hv
  unfold tas
  split
  · split <;> rfl
  · rw [mulU_ok (by omega)]
    show (Outcome.bind (.ok _) _).okAnd _ = true
    rw [Outcome.bind_ok]
    cases gs with
    | none => rfl
    | some g =>
      simp only [optAll, decide_eq_true_eq] at hgs
      simp only []
      have h1 : subS 16 (g : Int) ((v * 2 : Nat) : Int) = .ok ((g : Int) - ((v * 2 : Nat) : Int)) := by
        unfold subS inS; rw [if_pos (by simp; omega)]
      rw [h1]
      show (Outcome.bind (.ok _) _).okAnd _ = true
      rw [Outcome.bind_ok]
      have h2 : absS16 ((g : Int) - ((v * 2 : Nat) : Int)) = .ok (Int.ofNat ((g : Int) - ((v * 2 : Nat) : Int)).natAbs) := by
        unfold absS16; rw [if_neg (by simp; omega)]
      rw [h2]
      show (Outcome.bind (.ok _) _).okAnd _ = true
      rw [Outcome.bind_ok]
      split <;> rfl

/-! ### the reader -/

theorem read_good (s : Rd) : wp read (fun r _ => SerGood [] r ∧ RangeGood r) s := by
  unfold read
  wp_run
  apply wp_lift_okAnd (roll_spec _ _ _ (by assumption) (by assumption)); intro rollN hroll
  wp_run
  apply wp_lift_okAnd (track_spec _ _ _ (by assumption) (by assumption)); intro trk htrk
  wp_run
  apply wp_lift_okAnd (groundspeed_spec _ _ (by assumption)); intro gs hgs
  wp_run
  apply wp_lift_okAnd (rate_spec rollN _ _ _ (by assumption) (by assumption)); intro rt _
  wp_run
  apply wp_lift_okAnd (tas_spec gs hgs _ _ (by assumption)); intro ta _
  wp_run
  constructor
  · apply serGood_of
    · keys_decide
    · keys_decide
    · fields_cases
  · apply rangeGood_of
    range_cases
    · exact holds_getD_map _ _ _ _ hroll (fun n hn => by
        simp only [Bool.and_eq_true, decide_eq_true_eq] at hn
        exact holds_range_jrat _ _ _ _ _ (by decide) (by omega) (by simp; omega))
    · exact holds_getD_map _ _ _ _ htrk (fun n hn => by
        simp only [Bool.and_eq_true, decide_eq_true_eq] at hn
        exact holds_range_jrat _ _ _ _ _ (by decide) (by omega) (by simp; omega))
    · exact holds_nonneg_getD_map_jnat _
    · exact inRange_getD_map _ _ (fun _ => rfl)
    · exact holds_nonneg_getD_map_jnat _

theorem read_noPanic : NoPanic read :=
  fun s => wp_mono (read_good s) (fun _ _ _ => trivial)

theorem read_serGood (s : Rd) : wp read (fun r _ => SerGood [] r) s :=
  wp_mono (read_good s) (fun _ _ h => h.1)

theorem read_rangeGood (s : Rd) : wp read (fun r _ => RangeGood r) s :=
  wp_mono (read_good s) (fun _ _ h => h.2)

end Rs1090.Model.Bds50
