/-
BDS 4,5 meteorological hazard report: panic-freedom (C01), serialisation (C07) and physical
ranges (C08) of `Bds45.read`, for every reader state (= every payload).
Per-field facts are complete kernel enumerations of the field's code space; in particular the
`unreachable!()` arm of `read_level` is not reachable with a 2-bit value.
-/
import Rs1090.Proofs.Decode.Wp
import Rs1090.Proofs.Decode.Ser
import Rs1090.Proofs.Decode.OkAnd
import Rs1090.Model.Decode.Bds45
namespace Rs1090.Model.Bds45
open Rs1090 Rs1090.Model Rs1090.Props.C13

/-! ### per-field facts -/

/-- `read_level` never reaches `unreachable!()`; what it returns is a plain string -/
theorem level_spec : ∀ st v, v < 2 ^ 2 →
    (level st v).okAnd (optAll fun j => j.wf && j.inRange) = true := by
  intro st
  cases st <;> (refine enum 2 ?_; decide +kernel)

/-- accepted temperature: `-80 ≤ q/4 ≤ 60` -/
theorem temperature_spec : ∀ st sg v, v < 2 ^ 9 →
    (temperature st sg v).okAnd (optAll fun q => decide (-80 * 4 ≤ q) && decide (q ≤ 60 * 4)) = true := by
  intro st sg
  cases st <;> cases sg <;> (refine enum 9 ?_; decide +kernel)

theorem pressure_spec : ∀ st v, v < 2 ^ 11 → (pressure st v).okAnd (fun _ => true) = true := by
  intro st
  cases st <;> (refine enum 11 ?_; decide +kernel)

/-- `value * 16` on u32 cannot overflow for a 12-bit value -/
theorem height_spec : ∀ st v, v < 2 ^ 12 → (height st v).okAnd (fun _ => true) = true := by
  intro st
  cases st <;> (refine enum 12 ?_; decide +kernel)

theorem readLevel_wp (Q : Option Json → Rd → Prop) (s : Rd)
    (h : ∀ o s', optAll (fun j => j.wf && j.inRange) o = true → Q o s') : wp readLevel Q s := by
  unfold readLevel
  wp_run
  apply wp_lift_okAnd (level_spec _ _ (by assumption)); intro o ho
  exact h _ _ ho

/-! ### the reader -/

theorem read_good (s : Rd) : wp read (fun r _ => SerGood [] r ∧ RangeGood r) s := by
  unfold read
  wp_run
  apply readLevel_wp; intro turb s1 hturb
  wp_run
  apply readLevel_wp; intro shear s2 hshear
  wp_run
  apply readLevel_wp; intro burst s3 hburst
  wp_run
  apply readLevel_wp; intro icing s4 hicing
  wp_run
  apply readLevel_wp; intro wake s5 hwake
  wp_run
  apply wp_lift_okAnd (temperature_spec _ _ _ (by assumption)); intro temp htemp
  wp_run
  apply wp_lift_okAnd (pressure_spec _ _ (by assumption)); intro pres _
  wp_run
  apply wp_lift_okAnd (height_spec _ _ (by assumption)); intro hgt _
  wp_run
  wp_if hres
  · wp_run
  · wp_run
    constructor
    · apply serGood_of
      · keys_decide
      · keys_decide
      · fields_cases
        · exact wf_getD_of _ hturb
        · exact wf_getD_of _ hshear
        · exact wf_getD_of _ hburst
        · exact wf_getD_of _ hicing
        · exact wf_getD_of _ hwake
    · apply rangeGood_of
      range_cases
      · exact inRange_getD_of _ hturb
      · exact inRange_getD_of _ hshear
      · exact inRange_getD_of _ hburst
      · exact inRange_getD_of _ hicing
      · exact inRange_getD_of _ hwake
      · exact holds_getD_map _ _ _ _ htemp (fun q hq => by
          simp only [Bool.and_eq_true, decide_eq_true_eq] at hq
          exact holds_range_jrat _ _ _ _ _ (by decide) (by omega) (by simp; omega))

theorem read_noPanic : NoPanic read :=
  fun s => wp_mono (read_good s) (fun _ _ _ => trivial)

theorem read_serGood (s : Rd) : wp read (fun r _ => SerGood [] r) s :=
  wp_mono (read_good s) (fun _ _ h => h.1)

theorem read_rangeGood (s : Rd) : wp read (fun r _ => RangeGood r) s :=
  wp_mono (read_good s) (fun _ _ h => h.2)

end Rs1090.Model.Bds45
