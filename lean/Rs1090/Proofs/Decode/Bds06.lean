import Rs1090.Proofs.Decode.Wp
import Rs1090.Proofs.Decode.Ser
import Rs1090.Model.Decode.Bds06
namespace Rs1090.Model.Bds06
open Rs1090 Rs1090.Model

/-- BDS 0,6 computes `14 - tc` on a `u8`: panic-free exactly when the type code it reads is ≤ 14
    (the `ME` dispatch only sends type codes 5..8 here). -/
theorem read_noPanicAt (s : Rd) (h : bitsBE s.bytes s.p 5 ≤ 14) : NoPanicAt read s := by
  unfold NoPanicAt read
  rw [wp_bind, wp_bits_pos 5 (by decide)]; intro _
  rw [wp_bind]
  apply wp_lift_of (by rw [subU_ok h]; rfl); intro nuc _
  wp_run


theorem groundspeed_good (mov : Nat) :
    ((groundspeed mov).getD Json.null).wf = true ∧
    Constraint.nonneg.holds ((groundspeed mov).getD Json.null) = true := by
  unfold groundspeed
  repeat' split
  all_goals simp [jrat, Json.wf, Constraint.holds]
  all_goals (simp only [beq_iff_eq] at *; omega)

/-- serialisation and ranges do not depend on the type code: stated for every state, given that the
    `14 - tc` subtraction succeeded (otherwise the reader has no result at all) -/
theorem read_serGood (s : Rd) (h : bitsBE s.bytes s.p 5 ≤ 14) : wp read (fun r _ => SerGood outerKeys r) s := by
  unfold read
  rw [wp_bind, wp_bits_pos 5 (by decide)]; intro _
  rw [wp_bind]
  apply wp_lift_of (by rw [subU_ok h]; rfl); intro nuc _
  wp_run
  apply serGood_of
  · keys_decide
  · keys_decide
  · fields_cases
    · exact (groundspeed_good _).1
    · split <;> simp [jrat, Json.wf]

theorem read_rangeGood (s : Rd) (h : bitsBE s.bytes s.p 5 ≤ 14) : wp read (fun r _ => RangeGood r) s := by
  unfold read
  rw [wp_bind, wp_bits_pos 5 (by decide)]; intro _
  rw [wp_bind]
  apply wp_lift_of (by rw [subU_ok h]; rfl); intro nuc _
  wp_run
  apply rangeGood_of
  range_cases
  · exact (groundspeed_good _).2
  · rename_i trk _ htrk _ _ _ _ _ _ _ _ _ _
    split
    · simp [jrat, Constraint.holds, ratIn]; omega
    · rfl
  · exact holds_below _ _ (by assumption)
  · exact holds_below _ _ (by assumption)

/-- partial-correctness form, for every state: whenever the reader returns at all (so `14 - tc` did not
    overflow), its result serialises well and is in range -/
theorem read_good (s : Rd) : post read (fun r _ => SerGood outerKeys r ∧ RangeGood r) s := by
  unfold read
  post_run
  apply post_lift; intro nuc _
  post_run
  refine ⟨?_, ?_⟩
  · apply serGood_of
    · keys_decide
    · keys_decide
    · fields_cases
      · exact (groundspeed_good _).1
      · split <;> simp [jrat, Json.wf]
  · apply rangeGood_of
    range_cases
    · exact (groundspeed_good _).2
    · split
      · simp [jrat, Constraint.holds, ratIn]; omega
      · rfl
    · exact holds_below _ _ (by assumption)
    · exact holds_below _ _ (by assumption)

end Rs1090.Model.Bds06
