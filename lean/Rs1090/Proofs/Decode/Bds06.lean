import Rs1090.Proofs.Decode.Wp
import Rs1090.Model.Decode.Bds06
namespace Rs1090.Model.Bds06
open Rs1090 Rs1090.Model

/-- BDS 0,6 computes `14 - tc` on a `u8`: panic-free exactly when the type code it reads is ≤ 14
    (the `ME` dispatch only sends type codes 5..8 here). -/
theorem read_noPanicAt (s : Rd) (h : bitsBE s.bytes s.p 5 ≤ 14) : NoPanicAt read s := by
  unfold NoPanicAt read
  rw [wp_bind, wp_bits_pos 5 (by decide)]; intro _
  rw [wp_bind]
  apply wp_lift_of (by rw [subU_ok h]; rfl); intro nuc _
  wp_run

end Rs1090.Model.Bds06
