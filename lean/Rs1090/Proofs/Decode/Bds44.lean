/-
BDS 4,4 meteorological routine air report: panic-freedom (C01), serialisation (C07) and physical
ranges (C08) of `Bds44.read`, for every reader state (= every payload).
Per-field facts are complete kernel enumerations of the field's code space.
-/
import Rs1090.Proofs.Decode.Wp
import Rs1090.Proofs.Decode.Ser
import Rs1090.Proofs.Decode.OkAnd
import Rs1090.Model.Decode.Bds44
namespace Rs1090.Model.Bds44
open Rs1090 Rs1090.Model Rs1090.Props.C13

/-! ### per-field facts -/

theorem windSpeed_spec : ∀ st v, v < 2 ^ 9 → (windSpeed st v).okAnd (fun _ => true) = true := by
  intro st
  cases st <;> (refine enum 9 ?_; decide +kernel)

/-- accepted wind direction: `n/256 < 360` -/
theorem windDirection_spec (speed : Option Nat) : ∀ v, v < 2 ^ 9 →
    (windDirection speed v).okAnd (optAll fun n => decide (n < 360 * 256)) = true := by
  cases speed with
  | none => refine enum 9 ?_; decide +kernel
  | some x =>
    intro v hv
    simp only [windDirection, Option.isNone, Bool.false_eq_true, if_false, Outcome.okAnd, optAll, decide_eq_true_eq]
    omega

/-- accepted temperature: `-80 ≤ q/4 ≤ 60` -/
theorem temperature_spec : ∀ sg v, sg < 2 ^ 1 → v < 2 ^ 10 →
    (temperature sg v).okAnd (fun q => decide (-80 * 4 ≤ q) && decide (q ≤ 60 * 4)) = true := by
  intro sg v hsg
  rcases bit_cases hsg with rfl | rfl <;> revert v <;> (refine enum 10 ?_; decide +kernel)

theorem pressure_spec : ∀ st v, v < 2 ^ 11 → (pressure st v).okAnd (fun _ => true) = true := by
  intro st
  cases st <;> (refine enum 11 ?_; decide +kernel)

theorem turbulence_spec : ∀ st v, v < 2 ^ 2 →
    (turbulence st v).okAnd (optAll fun j => j.wf && j.inRange) = true := by
  intro st
  cases st <;> (refine enum 2 ?_; decide +kernel)

/-- accepted humidity: `n/64 ≤ 100` -/
theorem humidity_spec : ∀ st v, v < 2 ^ 6 →
    (humidity st v).okAnd (optAll fun n => decide (n ≤ 100 * 64)) = true := by
  intro st
  cases st <;> (refine enum 6 ?_; decide +kernel)

/-! ### the reader -/

/-- symbolic execution of `read` up to the final field list, keeping the per-field facts -/
theorem read_good (s : Rd) : wp read (fun r _ => SerGood [] r ∧ RangeGood r) s := by
  unfold read
  wp_run
  apply wp_lift_okAnd (windSpeed_spec _ _ (by assumption)); intro ws _
  wp_run
  apply wp_lift_okAnd (windDirection_spec ws _ (by assumption)); intro wd hwd
  wp_run
  apply wp_lift_okAnd (temperature_spec _ _ (by assumption) (by assumption)); intro temp htemp
  wp_run
  apply wp_lift_okAnd (pressure_spec _ _ (by assumption)); intro pres _
  wp_run
  apply wp_lift_okAnd (turbulence_spec _ _ (by assumption)); intro turb hturb
  wp_run
  apply wp_lift_okAnd (humidity_spec _ _ (by assumption)); intro hum hhum
  wp_run
  simp only [Bool.and_eq_true, decide_eq_true_eq] at htemp
  constructor
  · apply serGood_of
    · keys_decide
    · keys_decide
    · fields_cases
      exact wf_getD_of _ hturb
  · apply rangeGood_of
    range_cases
    · exact holds_nonneg_getD_map_jnat _
    · cases wd with
      | none => exact holds_null _
      | some n =>
        simp only [optAll, decide_eq_true_eq] at hwd
        exact holds_range_jrat 0 360 false n 256 (by decide) (by omega) (by simp; omega)
    · exact holds_range_jrat _ _ _ _ _ (by decide) (by omega) (by simp; omega)
    · exact inRange_getD_of _ hturb
    · cases hum with
      | none => exact holds_null _
      | some n =>
        simp only [optAll, decide_eq_true_eq] at hhum
        exact holds_range_jrat 0 100 true n 64 (by decide) (by omega) (by simp; omega)

theorem read_noPanic : NoPanic read :=
  fun s => wp_mono (read_good s) (fun _ _ _ => trivial)

theorem read_serGood (s : Rd) : wp read (fun r _ => SerGood [] r) s :=
  wp_mono (read_good s) (fun _ _ h => h.1)

theorem read_rangeGood (s : Rd) : wp read (fun r _ => RangeGood r) s :=
  wp_mono (read_good s) (fun _ _ h => h.2)

end Rs1090.Model.Bds44
