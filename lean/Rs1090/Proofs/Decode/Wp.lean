/-
Panic-freedom calculus for the deku-style reader monad `R` (Model/Reader.lean).

`wp m Q s`  : running `m` from state `s` does not panic, and if it returns `(a, s')` then `Q a s'`
              (errors are acceptable outcomes: they are `Err(_)` values of the Rust code).
`NoPanicAt m s := wp m (fun _ _ => True) s`.

The lemmas below are the rewriting rules used by every per-reader proof: they push `wp`
through `bind`, `pure`, `bits`, `enumId`, `seekLast`, `R.lift`, … so that what remains are the
arithmetic side conditions of the checked operations.
-/
import Rs1090.Model.Reader
namespace Rs1090.Model
open Rs1090

def wp {α} (m : R α) (Q : α → Rd → Prop) (s : Rd) : Prop :=
  match m s with
  | .ok (a, s') => Q a s'
  | .err _ => True
  | .panic _ => False

/-- `m` does not panic when started in state `s` -/
def NoPanicAt {α} (m : R α) (s : Rd) : Prop := wp m (fun _ _ => True) s

/-- `m` never panics -/
def NoPanic {α} (m : R α) : Prop := ∀ s, NoPanicAt m s

theorem noPanicAt_iff {α} (m : R α) (s : Rd) : NoPanicAt m s ↔ (m s).isPanic = false := by
  unfold NoPanicAt wp
  cases h : m s with
  | ok v => cases v; simp [Outcome.isPanic]
  | err e => simp [Outcome.isPanic]
  | panic x => simp [Outcome.isPanic]

theorem wp_mono {α} {m : R α} {Q Q' : α → Rd → Prop} {s : Rd}
    (h : wp m Q s) (hq : ∀ a s', Q a s' → Q' a s') : wp m Q' s := by
  unfold wp at *
  cases hm : m s with
  | ok v => cases v; rw [hm] at h; exact hq _ _ h
  | err e => trivial
  | panic x => rw [hm] at h; exact h

@[simp] theorem wp_pure {α} (a : α) (Q : α → Rd → Prop) (s : Rd) :
    wp (pure a : R α) Q s ↔ Q a s := by
  show wp (R.pure a) Q s ↔ _
  simp [wp, R.pure]

@[simp] theorem wp_Rpure {α} (a : α) (Q : α → Rd → Prop) (s : Rd) :
    wp (R.pure a : R α) Q s ↔ Q a s := by
  simp [wp, R.pure]

@[simp] theorem wp_bind {α β} (m : R α) (f : α → R β) (Q : β → Rd → Prop) (s : Rd) :
    wp (m >>= f) Q s ↔ wp m (fun a s' => wp (f a) Q s') s := by
  show wp (R.bind m f) Q s ↔ _
  unfold wp R.bind
  cases m s with
  | ok v => cases v; simp
  | err e => simp
  | panic x => simp

@[simp] theorem wp_fail {α} (e : ErrKind) (Q : α → Rd → Prop) (s : Rd) :
    wp (R.fail e : R α) Q s ↔ True := by
  simp [wp, R.fail]

@[simp] theorem wp_abort {α} (x : Site) (Q : α → Rd → Prop) (s : Rd) :
    wp (R.abort x : R α) Q s ↔ False := by
  simp [wp, R.abort]

/-- lifting a pure checked computation -/
theorem wp_lift {α} (o : Outcome α) (Q : α → Rd → Prop) (s : Rd) :
    wp (R.lift o) Q s ↔ (match o with | .ok a => Q a s | .err _ => True | .panic _ => False) := by
  cases o <;> simp [wp, R.lift]

theorem wp_lift_of {α} {o : Outcome α} {Q : α → Rd → Prop} {s : Rd}
    (hp : o.isPanic = false) (hq : ∀ a, o = .ok a → Q a s) : wp (R.lift o) Q s := by
  rw [wp_lift]
  cases o with
  | ok a => exact hq a rfl
  | err e => trivial
  | panic x => simp [Outcome.isPanic] at hp

theorem wp_ite {α} (c : Prop) [Decidable c] (a b : R α) (Q : α → Rd → Prop) (s : Rd) :
    wp (if c then a else b) Q s ↔ (c → wp a Q s) ∧ (¬ c → wp b Q s) := by
  by_cases h : c <;> simp [h]

/-! ### the primitive reads -/

theorem bitAt_lt (bytes : List Nat) (i : Nat) : bitAt bytes i < 2 := by
  unfold bitAt; omega

theorem bitsBE_lt (bytes : List Nat) (p : Nat) : ∀ n, bitsBE bytes p n < 2 ^ n
  | 0 => by simp [bitsBE]
  | n + 1 => by
    have ih := bitsBE_lt bytes p n
    have hb := bitAt_lt bytes (p + n)
    simp only [bitsBE, Nat.pow_succ]
    omega

/-- state after a successful `n`-bit read -/
def Rd.adv (s : Rd) (n : Nat) : Rd := { s with p := s.p + n, last := s.last + n, nread := s.nread + n }

@[simp] theorem Rd.adv_bytes (s : Rd) (n : Nat) : (s.adv n).bytes = s.bytes := rfl
@[simp] theorem Rd.adv_p (s : Rd) (n : Nat) : (s.adv n).p = s.p + n := rfl
@[simp] theorem Rd.adv_last (s : Rd) (n : Nat) : (s.adv n).last = s.last + n := rfl

/-- exact rule: the value read is `bitsBE s.bytes s.p n` -/
theorem wp_bits (n : Nat) (Q : Nat → Rd → Prop) (s : Rd) :
    wp (bits n) Q s ↔
      (if n = 0 then Q 0 s
       else (ceilDiv8 (s.p + n) ≤ s.bytes.length → Q (bitsBE s.bytes s.p n) (s.adv n))) := by
  unfold wp bits
  by_cases h0 : n = 0
  · simp [h0]
  · have : (n == 0) = false := by simp [h0]
    simp only [this, h0, if_false]
    by_cases hl : ceilDiv8 (s.p + n) ≤ s.bytes.length
    · simp [hl, Rd.adv]
    · simp [hl]

/-- abstract rule: only the bound on the value is kept -/
theorem wp_bits_of (n : Nat) (Q : Nat → Rd → Prop) (s : Rd)
    (h : ∀ v, v < 2 ^ n → v = bitsBE s.bytes s.p n → Q v (if n = 0 then s else s.adv n)) :
    wp (bits n) Q s := by
  rw [wp_bits]
  by_cases h0 : n = 0
  · subst h0
    simpa using h 0 (by simp) (by simp [bitsBE])
  · simp only [h0, if_false]
    intro _
    have := h _ (bitsBE_lt s.bytes s.p n) rfl
    simpa [h0] using this

/-- weakest rule: the value is any `v < 2^n`, the next state is arbitrary -/
theorem wp_bits_any (n : Nat) (Q : Nat → Rd → Prop) (s : Rd)
    (h : ∀ v s', v < 2 ^ n → Q v s') : wp (bits n) Q s :=
  wp_bits_of n Q s (fun v hv _ => h v _ hv)

/-- exact rule for a non-empty read -/
theorem wp_bits_pos (n : Nat) (hn : n ≠ 0) (Q : Nat → Rd → Prop) (s : Rd) :
    wp (bits n) Q s ↔ (ceilDiv8 (s.p + n) ≤ s.bytes.length → Q (bitsBE s.bytes s.p n) (s.adv n)) := by
  rw [wp_bits, if_neg hn]

theorem wp_enumId_any (n : Nat) (Q : Nat → Rd → Prop) (s : Rd)
    (h : ∀ v s', v < 2 ^ n → Q v s') : wp (enumId n) Q s := by
  unfold wp enumId; exact wp_bits_any n Q _ h

theorem wp_flag_any (Q : Bool → Rd → Prop) (s : Rd) (h : ∀ b s', Q b s') : wp flag Q s := by
  unfold flag
  show wp (bits 1 >>= fun v => pure (v == 1)) Q s
  rw [wp_bind]; apply wp_bits_any; intro v s' _; rw [wp_pure]; exact h _ _

theorem wp_pad_any (n : Nat) (Q : Unit → Rd → Prop) (s : Rd) (h : ∀ s', Q () s') : wp (pad n) Q s := by
  unfold pad
  show wp (bits n >>= fun _ => pure ()) Q s
  rw [wp_bind]; apply wp_bits_any; intro v s' _; rw [wp_pure]; exact h _

theorem wp_bitsLE_any (n : Nat) (Q : Nat → Rd → Prop) (s : Rd)
    (h : ∀ v s', Q v s') : wp (bitsLE n) Q s := by
  unfold wp bitsLE
  by_cases h0 : (n == 0) = true
  · simp only [h0, if_true]; exact h _ _
  · simp only [h0]
    by_cases hl : ceilDiv8 (s.p + n) ≤ s.bytes.length
    · simp only [hl, if_true, Bool.false_eq_true, if_false]; exact h _ _
    · simp [hl]

theorem wp_of_noPanic {α} {m : R α} (hm : NoPanic m) (Q : α → Rd → Prop) (s : Rd)
    (h : ∀ a s', Q a s') : wp m Q s :=
  wp_mono (hm s) (fun a s' _ => h a s')

theorem wp_bitsLE_of (n : Nat) (Q : Nat → Rd → Prop) (s : Rd)
    (h : ∀ v, Q v (if n = 0 then s else s.adv n)) : wp (bitsLE n) Q s := by
  unfold wp bitsLE
  by_cases h0 : n = 0
  · subst h0; simpa using h 0
  · have : (n == 0) = false := by simp [h0]
    simp only [this]
    by_cases hl : ceilDiv8 (s.p + n) ≤ s.bytes.length
    · have := h (leValue s.bytes s.p n); simp [h0] at this; simp [hl]; exact this
    · simp [hl]

theorem wp_enumId (n : Nat) (Q : Nat → Rd → Prop) (s : Rd) :
    wp (enumId n) Q s ↔ wp (bits n) Q { s with last := 0 } := by
  unfold wp enumId; rfl

/-- exact rule for an enum discriminant of `n > 0` bits -/
theorem wp_enumId_pos (n : Nat) (hn : n ≠ 0) (Q : Nat → Rd → Prop) (s : Rd) :
    wp (enumId n) Q s ↔ (ceilDiv8 (s.p + n) ≤ s.bytes.length →
      Q (bitsBE s.bytes s.p n) { bytes := s.bytes, p := s.p + n, last := n, nread := s.nread + n }) := by
  rw [wp_enumId, wp_bits_pos n hn]
  simp [Rd.adv]

theorem wp_seekLast (Q : Unit → Rd → Prop) (s : Rd) :
    wp seekLast Q s ↔
      (ceilDiv8 s.last ≤ ceilDiv8 s.p →
        Q () { s with p := 8 * (ceilDiv8 s.p - ceilDiv8 s.last), nread := s.nread - s.last }) := by
  unfold wp seekLast
  by_cases h : ceilDiv8 s.last ≤ ceilDiv8 s.p <;> simp [h]

theorem wp_seekLast_any (Q : Unit → Rd → Prop) (s : Rd) (h : ∀ s', Q () s') : wp seekLast Q s := by
  rw [wp_seekLast]; intro _; exact h _

theorem wp_getPos (Q : Nat → Rd → Prop) (s : Rd) : wp getPos Q s ↔ Q s.p s := by
  simp [wp, getPos]
theorem wp_getRead (Q : Nat → Rd → Prop) (s : Rd) : wp getRead Q s ↔ Q s.nread s := by
  simp [wp, getRead]

/-! ### compositional `NoPanic` facts (no value tracking) -/

theorem noPanic_bits (n : Nat) : NoPanic (bits n) := by
  intro s; exact wp_bits_of n _ s (fun _ _ _ => trivial)

theorem noPanic_bitsLE (n : Nat) : NoPanic (bitsLE n) := by
  intro s; exact wp_bitsLE_of n _ s (fun _ => trivial)

theorem noPanic_enumId (n : Nat) : NoPanic (enumId n) := by
  intro s; unfold NoPanicAt; rw [wp_enumId]; exact noPanic_bits n _

theorem noPanic_seekLast : NoPanic seekLast := by
  intro s; unfold NoPanicAt; rw [wp_seekLast]; intro _; trivial

theorem noPanic_pure {α} (a : α) : NoPanic (pure a : R α) := by
  intro s; unfold NoPanicAt; simp

theorem noPanic_fail {α} (e : ErrKind) : NoPanic (R.fail e : R α) := by
  intro s; unfold NoPanicAt; simp

theorem noPanicAt_bind {α β} {m : R α} {f : α → R β} {s : Rd}
    (hm : NoPanicAt m s) (hf : ∀ a, NoPanic (f a)) : NoPanicAt (m >>= f) s := by
  unfold NoPanicAt at *
  rw [wp_bind]
  exact wp_mono hm (fun a s' _ => hf a s')

theorem noPanic_bind {α β} {m : R α} {f : α → R β}
    (hm : NoPanic m) (hf : ∀ a, NoPanic (f a)) : NoPanic (m >>= f) :=
  fun s => noPanicAt_bind (hm s) hf

theorem noPanic_flag : NoPanic flag := by
  unfold flag; exact noPanic_bind (noPanic_bits 1) (fun _ => noPanic_pure _)

theorem noPanic_pad (n : Nat) : NoPanic (pad n) := by
  unfold pad; exact noPanic_bind (noPanic_bits n) (fun _ => noPanic_pure _)

theorem noPanic_bytesN : ∀ k, NoPanic (bytesN k)
  | 0 => by unfold bytesN; exact noPanic_pure _
  | k + 1 => by
    unfold bytesN
    exact noPanic_bind (noPanic_bits 8) (fun _ => noPanic_bind (noPanic_bytesN k) (fun _ => noPanic_pure _))

theorem noPanic_lift {α} {o : Outcome α} (h : o.isPanic = false) : NoPanic (R.lift o) := by
  intro s; unfold NoPanicAt; exact wp_lift_of h (fun _ _ => trivial)

theorem noPanic_ite {α} (c : Prop) [Decidable c] {a b : R α} (ha : NoPanic a) (hb : NoPanic b) :
    NoPanic (if c then a else b) := by
  by_cases h : c <;> simp [h, ha, hb]

theorem noPanic_cond {α} (c : Bool) {a b : R α} (ha : NoPanic a) (hb : NoPanic b) :
    NoPanic (if c then a else b) := by
  cases c <;> simp [ha, hb]


/-! ### partial correctness (used by the C07/C08 compositions, which only speak about accepted frames) -/

/-- if `m` returns a value from `s`, the value satisfies `Q` (errors and panics are not excluded) -/
def post {α} (m : R α) (Q : α → Rd → Prop) (s : Rd) : Prop :=
  ∀ a s', m s = .ok (a, s') → Q a s'

theorem post_of_wp {α} {m : R α} {Q : α → Rd → Prop} {s : Rd} (h : wp m Q s) : post m Q s := by
  intro a s' e; unfold wp at h; rw [e] at h; exact h

theorem post_mono {α} {m : R α} {Q Q' : α → Rd → Prop} {s : Rd}
    (h : post m Q s) (hq : ∀ a s', Q a s' → Q' a s') : post m Q' s :=
  fun a s' e => hq a s' (h a s' e)

theorem post_bind {α β} (m : R α) (f : α → R β) (Q : β → Rd → Prop) (s : Rd)
    (h : post m (fun a s' => post (f a) Q s') s) : post (m >>= f) Q s := by
  intro b s2 e
  change R.bind m f s = _ at e
  unfold R.bind at e
  cases hm : m s with
  | ok v => obtain ⟨a, s1⟩ := v; rw [hm] at e; exact h a s1 hm b s2 e
  | err x => rw [hm] at e; cases e
  | panic x => rw [hm] at e; cases e

theorem post_pure {α} (a : α) (Q : α → Rd → Prop) (s : Rd) (h : Q a s) : post (pure a : R α) Q s := by
  intro a' s' e
  change R.pure a s = _ at e
  unfold R.pure at e; cases e; exact h

theorem post_lift {α} (o : Outcome α) (Q : α → Rd → Prop) (s : Rd)
    (h : ∀ a, o = .ok a → Q a s) : post (R.lift o) Q s := by
  intro a s' e
  unfold R.lift at e
  cases o with
  | ok a0 => simp only [Outcome.ok.injEq, Prod.mk.injEq] at e; obtain ⟨rfl, rfl⟩ := e; exact h _ rfl
  | err x => cases e
  | panic x => cases e

theorem post_ite {α} (c : Prop) [Decidable c] (a b : R α) (Q : α → Rd → Prop) (s : Rd)
    (ha : c → post a Q s) (hb : ¬ c → post b Q s) : post (if c then a else b) Q s := by
  by_cases h : c <;> simp [h, ha, hb]

/-- anything is a post-condition of a reader whose result we do not look at -/
theorem post_any {α} (m : R α) (Q : α → Rd → Prop) (s : Rd) (h : ∀ a s', Q a s') : post m Q s :=
  fun a s' _ => h a s'

/-- one step of symbolic execution under `post` (analogue of `wp_step`) -/
syntax "post_step" : tactic
macro_rules
  | `(tactic| post_step) => `(tactic| first
      | with_reducible apply post_bind
      | with_reducible apply post_pure
      | (with_reducible apply post_of_wp; with_reducible apply wp_bits_any; intro _ _ _)
      | (with_reducible apply post_of_wp; with_reducible apply wp_enumId_any; intro _ _ _)
      | (with_reducible apply post_of_wp; with_reducible apply wp_flag_any; intro _ _)
      | (with_reducible apply post_of_wp; with_reducible apply wp_pad_any; intro _)
      | (with_reducible apply post_of_wp; with_reducible apply wp_bitsLE_any; intro _ _)
      | (with_reducible apply post_of_wp; with_reducible apply wp_seekLast_any; intro _)
      | with_reducible exact True.intro)

macro "post_run" : tactic => `(tactic| repeat post_step)

/-- one step of symbolic execution of a reader under `wp`, forgetting positions: peels a bind,
    a primitive read (the value is introduced with its bound), `pure`, `fail`. Stops at `R.lift`
    and at conditionals, which the caller handles (`wp_lift_of`, `split`).
    Everything runs `with_reducible`: at default transparency `rw [wp_pure]` on a goal
    `wp (bitsLE 24) …` tries to unify `pure ?a` with the unfolded body of `bitsLE` (deep recursion). -/
syntax "wp_step" : tactic
macro_rules
  | `(tactic| wp_step) => `(tactic| first
      | with_reducible rw [wp_bind]
      | with_reducible rw [wp_pure]
      | with_reducible rw [wp_Rpure]
      | with_reducible rw [wp_fail]
      | (with_reducible apply wp_bits_any; intro _ _ _)
      | (with_reducible apply wp_enumId_any; intro _ _ _)
      | (with_reducible apply wp_flag_any; intro _ _)
      | (with_reducible apply wp_pad_any; intro _)
      | (with_reducible apply wp_bitsLE_any; intro _ _)
      | (with_reducible apply wp_seekLast_any; intro _)
      | with_reducible exact True.intro)

/-- case split on a reader of the form `if c then a else b` under `wp` (cheaper and more robust than
    `split`, whose internal `simp` can time out on long `else if` chains): two goals, each with the
    (negated) condition as hypothesis `h`. -/
macro "wp_if" h:ident : tactic =>
  `(tactic| (rw [wp_ite]; refine ⟨fun $h => ?_, fun $h => ?_⟩))

/-- run `wp_step` as long as it applies -/
macro "wp_run" : tactic => `(tactic| repeat wp_step)

end Rs1090.Model
