/-
C07/C08 composition through the Comm-B glue: given that every register reader's result serialises
well (`SerGood []`) and is in range (`RangeGood`), so does the `DF20/DF21DataSelector`.
-/
import Rs1090.Proofs.Decode.Ser
import Rs1090.Model.Decode.Commb
namespace Rs1090.Model
open Rs1090

theorem Outcome.bind_eq_ok {α β} {x : Outcome α} {f : α → Outcome β} {b : β}
    (h : (x >>= f) = .ok b) : ∃ a, x = .ok a ∧ f a = .ok b := by
  change Outcome.bind x f = _ at h
  cases x with
  | ok a => rw [Outcome.bind_ok] at h; exact ⟨a, rfl, h⟩
  | err e => rw [Outcome.bind_err] at h; cases h
  | panic s => rw [Outcome.bind_panic] at h; cases h

/-- what is known about the result of a reader whose every outcome satisfies `P` -/
theorem tryFromBytes_post {α} {r : R α} {P : α → Prop} (hr : ∀ s, wp r (fun a _ => P a) s)
    {buf : List Nat} {a : α} (h : tryFromBytes r buf = .ok a) : P a := by
  have := hr (Rd.init buf)
  unfold wp at this
  unfold tryFromBytes R.run at h
  cases hm : r (Rd.init buf) with
  | ok v =>
    obtain ⟨a', s'⟩ := v
    rw [hm] at h this
    simp only [] at h this
    split at h
    · cases h
    · cases h; exact this
  | err e => rw [hm] at h; cases h
  | panic x => rw [hm] at h; cases h

namespace Commb

/-- both C07 and C08 facts about one register value -/
def RegGood (v : SerFields) : Prop := SerGood [] v ∧ RangeGood v

def OptGood (o : Option SerFields) : Prop := ∀ v, o = some v → RegGood v

theorem hypo_post {r : R SerFields} (hr : ∀ s, wp r (fun a _ => RegGood a) s)
    {buf : List Nat} {o : Option SerFields} (h : hypo r buf = .ok o) : OptGood o := by
  unfold hypo at h
  cases ht : tryFromBytes r buf with
  | ok v => rw [ht] at h; cases h; intro v' e; cases e; exact tryFromBytes_post hr ht
  | err e => rw [ht] at h; cases h; intro v' e; cases e
  | panic x => rw [ht] at h; cases h

/-- `collect` over `nest`ed registers: keys are the static keys, every present value is a
    well-formed, in-range nested object -/
theorem collect_nest : ∀ (xs : List (Key × Option SerFields)), (∀ kv ∈ xs, OptGood kv.2) →
    ∃ fs, collect (xs.map fun kv => nest kv.1 kv.2) = .ok fs ∧ fs.map (·.1) = xs.map (·.1) ∧
      ∀ kv ∈ fs, ∀ j, kv.2 = some j → j.wf = true ∧ j.inRange = true
  | [], _ => ⟨[], rfl, rfl, by simp⟩
  | (k, o) :: rest, h => by
    obtain ⟨fs, hfs, hk, hv⟩ := collect_nest rest (fun kv hkv => h kv (by simp [hkv]))
    have ho : OptGood o := h (k, o) (by simp)
    cases o with
    | none =>
      refine ⟨(k, none) :: fs, ?_, by simp [hk], ?_⟩
      · simp only [List.map_cons, collect, nest]
        change Except.bind (Except.ok (k, none)) _ = _
        simp only [Except.bind]
        change Except.bind (collect _) _ = _
        rw [hfs]; rfl
      · intro kv hkv j hj
        rcases List.mem_cons.mp hkv with rfl | hkv
        · cases hj
        · exact hv kv hkv j hj
    | some v =>
      obtain ⟨⟨fv, rfl, hnd, _, hwf⟩, hrange⟩ := ho v rfl
      refine ⟨(k, some (.obj fv.toObj)) :: fs, ?_, by simp [hk], ?_⟩
      · simp only [List.map_cons, collect, nest]
        change Except.bind (Except.ok (k, some (Json.obj fv.toObj))) _ = _
        simp only [Except.bind]
        change Except.bind (collect _) _ = _
        rw [hfs]; rfl
      · intro kv hkv j hj
        rcases List.mem_cons.mp hkv with rfl | hkv
        · cases hj
          refine ⟨?_, ?_⟩
          · simp only [Json.wf, Bool.and_eq_true, decide_eq_true_eq]; exact ⟨hwf, hnd⟩
          · simp only [Json.inRange]; exact hrange fv rfl
        · exact hv kv hkv j hj

end Commb
end Rs1090.Model
