/-
C07/C08 composition through the Comm-B glue: given that every register reader's result serialises
well (`SerGood []`) and is in range (`RangeGood`), so does the `DF20/DF21DataSelector`.
-/
import Rs1090.Proofs.Decode.Ser
import Rs1090.Model.Decode.Commb
namespace Rs1090.Model
open Rs1090

theorem Outcome.bind_eq_ok {α β} {x : Outcome α} {f : α → Outcome β} {b : β}
    (h : (x >>= f) = .ok b) : ∃ a, x = .ok a ∧ f a = .ok b := by
  change Outcome.bind x f = _ at h
  cases x with
  | ok a => rw [Outcome.bind_ok] at h; exact ⟨a, rfl, h⟩
  | err e => rw [Outcome.bind_err] at h; cases h
  | panic s => rw [Outcome.bind_panic] at h; cases h

/-- what is known about the result of a reader whose every outcome satisfies `P` -/
theorem tryFromBytes_post {α} {r : R α} {P : α → Prop} (hr : ∀ s, wp r (fun a _ => P a) s)
    {buf : List Nat} {a : α} (h : tryFromBytes r buf = .ok a) : P a := by
  have := hr (Rd.init buf)
  unfold wp at this
  unfold tryFromBytes R.run at h
  cases hm : r (Rd.init buf) with
  | ok v =>
    obtain ⟨a', s'⟩ := v
    rw [hm] at h this
    simp only [] at h this
    split at h
    · cases h
    · cases h; exact this
  | err e => rw [hm] at h; cases h
  | panic x => rw [hm] at h; cases h

namespace Commb

/-- both C07 and C08 facts about one register value -/
def RegGood (v : SerFields) : Prop := SerGood [] v ∧ RangeGood v

def OptGood (o : Option SerFields) : Prop := ∀ v, o = some v → RegGood v

theorem hypo_post {r : R SerFields} (hr : ∀ s, wp r (fun a _ => RegGood a) s)
    {buf : List Nat} {o : Option SerFields} (h : hypo r buf = .ok o) : OptGood o := by
  unfold hypo at h
  cases ht : tryFromBytes r buf with
  | ok v => rw [ht] at h; cases h; intro v' e; cases e; exact tryFromBytes_post hr ht
  | err e => rw [ht] at h; cases h; intro v' e; cases e
  | panic x => rw [ht] at h; cases h

/-- `collect` over `nest`ed registers: keys are the static keys, every present value is a
    well-formed, in-range nested object -/
theorem collect_nest : ∀ (xs : List (Key × Option SerFields)), (∀ kv ∈ xs, OptGood kv.2) →
    ∃ fs, collect (xs.map fun kv => nest kv.1 kv.2) = .ok fs ∧ fs.map (·.1) = xs.map (·.1) ∧
      ∀ kv ∈ fs, ∀ j, kv.2 = some j → j.wf = true ∧ j.inRange = true
  | [], _ => ⟨[], rfl, rfl, by simp⟩
  | (k, o) :: rest, h => by
    obtain ⟨fs, hfs, hk, hv⟩ := collect_nest rest (fun kv hkv => h kv (by simp [hkv]))
    have ho : OptGood o := h (k, o) (by simp)
    cases o with
    | none =>
      refine ⟨(k, none) :: fs, ?_, by simp [hk], ?_⟩
      · have e1 : nest k (none : Option SerFields) = Except.ok (k, none) := rfl
        simp only [List.map_cons]
        rw [collect, e1, hfs]; rfl
      · intro kv hkv j hj
        rcases List.mem_cons.mp hkv with rfl | hkv
        · cases hj
        · exact hv kv hkv j hj
    | some v =>
      obtain ⟨⟨fv, rfl, hnd, _, hwf⟩, hrange⟩ := ho v rfl
      refine ⟨(k, some (.obj fv.toObj)) :: fs, ?_, by simp [hk], ?_⟩
      · have e1 : nest k (some (Except.ok fv : SerFields)) = Except.ok (k, some (Json.obj fv.toObj)) := rfl
        simp only [List.map_cons]
        rw [collect, e1, hfs]; rfl
      · intro kv hkv j hj
        rcases List.mem_cons.mp hkv with rfl | hkv
        · cases hj
          refine ⟨?_, ?_⟩
          · simp only [Json.wf, Bool.and_eq_true, decide_eq_true_eq]; exact ⟨hwf, hnd⟩
          · simp only [Json.inRange]; exact hrange fv rfl
        · exact hv kv hkv j hj

/-- the per-register facts the composition needs (instantiated in Props/C07, C08) -/
structure RegsGood : Prop where
  b05 : ∀ s, wp Bds05.read (fun a _ => RegGood a) s
  b10 : ∀ s, wp Bds10.read (fun a _ => RegGood a) s
  b17 : ∀ s, wp Bds17.read (fun a _ => RegGood a) s
  b18 : ∀ s, wp Bds18.read (fun a _ => RegGood a) s
  b19 : ∀ s, wp Bds19.read (fun a _ => RegGood a) s
  b20 : ∀ s, wp Bds20.read (fun a _ => RegGood a) s
  b21 : ∀ s, wp Bds21.read (fun a _ => RegGood a) s
  b30 : ∀ s, wp Bds30.read (fun a _ => RegGood a) s
  b40 : ∀ s, wp Bds40.read (fun a _ => RegGood a) s
  b44 : ∀ s, wp Bds44.read (fun a _ => RegGood a) s
  b45 : ∀ s, wp Bds45.read (fun a _ => RegGood a) s
  b50 : ∀ s, wp Bds50.read (fun a _ => RegGood a) s
  b60 : ∀ s, wp Bds60.read (fun a _ => RegGood a) s
  b65 : ∀ s, wp Bds65.readEnum (fun a _ => RegGood a) s

/-- keys of the surveillance reply that the flattened Comm-B selector must not repeat -/
def commbAvoid : List Nat :=
  [(key! "df").id, (key! "altitude").id, (key! "squawk").id, (key! "icao24").id] ++ timedKeys

/-- what the selector contributes to the message object: distinct `bdsXX` keys, none clashing with the
    reply's own keys, each present register a well-formed in-range object -/
def SelGood (r : SerFields) : Prop := SerGood commbAvoid r ∧ RangeGood r

theorem selGood_of_collect {xs : List (Key × Option SerFields)} (hx : ∀ kv ∈ xs, OptGood kv.2)
    (hnd : (xs.map (·.1.id)).Nodup) (hav : ∀ k ∈ xs.map (·.1.id), k ∉ commbAvoid)
    (hns : ∀ k ∈ xs.map (·.1.id), specFor k = none) :
    SelGood (collect (xs.map fun kv => nest kv.1 kv.2)) := by
  obtain ⟨fs, hfs, hk, hv⟩ := collect_nest xs hx
  have hkeys : fs.map (·.1.id) = xs.map (·.1.id) := by
    have := congrArg (List.map Key.id) hk
    simpa [List.map_map, Function.comp_def] using this
  rw [hfs]
  refine ⟨serGood_of _ fs (hkeys ▸ hnd) (hkeys ▸ hav) (fun kv hkv v hvv => (hv kv hkv v hvv).1), ?_⟩
  apply rangeGood_of
  intro kv hkv v hvv
  have : specFor kv.1.id = none := hns _ (hkeys ▸ List.mem_map_of_mem (f := fun x => x.1.id) hkv)
  rw [this]
  exact (hv kv hkv v hvv).2

theorem common_good (H : RegsGood) (buf : List Nat) (b05 : Option SerFields) (h05 : OptGood b05)
    (out : SerFields) (h : common buf b05 = .ok out) : SelGood out := by
  unfold common at h
  obtain ⟨b10, h10, h⟩ := Outcome.bind_eq_ok h
  obtain ⟨b17, h17, h⟩ := Outcome.bind_eq_ok h
  obtain ⟨b18, h18, h⟩ := Outcome.bind_eq_ok h
  obtain ⟨b19, h19, h⟩ := Outcome.bind_eq_ok h
  obtain ⟨b20, h20, h⟩ := Outcome.bind_eq_ok h
  obtain ⟨b21, h21, h⟩ := Outcome.bind_eq_ok h
  obtain ⟨b30, h30, h⟩ := Outcome.bind_eq_ok h
  obtain ⟨b40, h40, h⟩ := Outcome.bind_eq_ok h
  obtain ⟨b44, h44, h⟩ := Outcome.bind_eq_ok h
  obtain ⟨b45, h45, h⟩ := Outcome.bind_eq_ok h
  obtain ⟨b50, h50, h⟩ := Outcome.bind_eq_ok h
  obtain ⟨b60, h60, h⟩ := Outcome.bind_eq_ok h
  simp only [] at h
  have key : ∀ b65, OptGood b65 → SelGood (collect [
      nest (key! "bds05") b05, nest (key! "bds10") b10, nest (key! "bds17") b17, nest (key! "bds18") b18,
      nest (key! "bds19") b19, nest (key! "bds20") b20, nest (key! "bds21") b21, nest (key! "bds30") b30,
      nest (key! "bds40") b40, nest (key! "bds44") b44, nest (key! "bds45") b45, nest (key! "bds50") b50,
      nest (key! "bds60") b60, nest (key! "bds65") b65 ]) := by
    intro b65 h65
    have := selGood_of_collect (xs := [
      (key! "bds05", b05), (key! "bds10", b10), (key! "bds17", b17), (key! "bds18", b18),
      (key! "bds19", b19), (key! "bds20", b20), (key! "bds21", b21), (key! "bds30", b30),
      (key! "bds40", b40), (key! "bds44", b44), (key! "bds45", b45), (key! "bds50", b50),
      (key! "bds60", b60), (key! "bds65", b65)])
      (by
        intro kv hkv
        simp only [List.mem_cons, List.mem_nil_iff, or_false] at hkv
        rcases hkv with rfl | rfl | rfl | rfl | rfl | rfl | rfl | rfl | rfl | rfl | rfl | rfl | rfl | rfl
        · exact h05
        · exact hypo_post H.b10 h10
        · exact hypo_post H.b17 h17
        · exact hypo_post H.b18 h18
        · exact hypo_post H.b19 h19
        · exact hypo_post H.b20 h20
        · exact hypo_post H.b21 h21
        · exact hypo_post H.b30 h30
        · exact hypo_post H.b40 h40
        · exact hypo_post H.b44 h44
        · exact hypo_post H.b45 h45
        · exact hypo_post H.b50 h50
        · exact hypo_post H.b60 h60
        · exact h65)
      (by simp only [List.map_cons, List.map_nil]; decide)
      (by simp only [List.map_cons, List.map_nil]; decide)
      (by simp only [List.map_cons, List.map_nil]; decide)
    simpa using this
  split at h
  · obtain ⟨b65, h65, h⟩ := Outcome.bind_eq_ok h
    cases h
    exact key b65 (hypo_post H.b65 h65)
  · cases h
    exact key none (fun v e => by cases e)

theorem selGood_empty : SelGood empty := by
  refine ⟨serGood_of _ [] (by simp) (by simp) (by simp), ?_⟩
  exact rangeGood_of [] (by simp)

theorem df20_good (H : RegsGood) (ac : Nat) (s : Rd) : post (df20 ac) (fun r _ => SelGood r) s := by
  unfold df20
  apply post_bind; apply post_any; intro buf s1
  apply post_ite
  · intro _; exact post_pure _ _ _ selGood_empty
  · intro _
    apply post_bind; apply post_lift; intro b05 hb
    apply post_lift; intro out ho
    refine common_good H buf b05 ?_ out ho
    split at hb
    · cases ht : tryFromBytes Bds05.read buf with
      | ok v =>
        rw [ht] at hb
        have hv : RegGood v := tryFromBytes_post H.b05 ht
        cases v with
        | ok fs =>
          simp only [] at hb
          split at hb
          · split at hb
            · cases hb; intro v' e; cases e; exact hv
            · cases hb; intro v' e; cases e
          · cases hb; intro v' e; cases e
        | error e => cases hb; intro v' e'; cases e'; exact hv
      | err e => rw [ht] at hb; cases hb; intro v' e'; cases e'
      | panic x => rw [ht] at hb; cases hb
    · cases hb; intro v' e; cases e

theorem df21_good (H : RegsGood) (s : Rd) : post df21 (fun r _ => SelGood r) s := by
  unfold df21
  apply post_bind; apply post_any; intro buf s1
  apply post_ite
  · intro _; exact post_pure _ _ _ selGood_empty
  · intro _
    apply post_lift; intro out ho
    exact common_good H buf none (fun v e => by cases e) out ho

end Commb
end Rs1090.Model
