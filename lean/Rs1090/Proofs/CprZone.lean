import Mathlib.Data.Rat.Floor
import Mathlib.Algebra.Order.Floor.Ring
import Mathlib.Tactic.Linarith
import Mathlib.Tactic.Ring
import Mathlib.Tactic.FieldSimp
import Mathlib.Tactic.NormNum
import Mathlib.Tactic.LinearCombination
/-!
Pure arithmetic behind CPR (no model, no spec): rounding to the 2^17 lattice, the transmitted
fraction, the zone identity and the recovery of the zone index — over `ℚ`, exact.

Notation.  `N = 131072 = 2^17`.  For a zone coordinate `z` (position divided by the zone size)
`rnd z = ⌊N z + 1/2⌋` is the index of the nearest lattice point, `rnd z / N` (integer division) the
zone it falls in — possibly the *next* zone when the fraction rounds up to 1, the "wrap" — and
`frac17 (rnd z) = (rnd z mod N) / N` the transmitted 17-bit field as a fraction.
-/
namespace Rs1090.Proofs.Cpr

/-- index of the nearest point of the `1/2^17` lattice -/
def rnd (z : ℚ) : ℤ := ⌊131072 * z + 1 / 2⌋

/-- the 17 transmitted bits of a lattice index, as a fraction of a zone -/
def frac17 (T : ℤ) : ℚ := ((T % 131072 : ℤ) : ℚ) / 131072

theorem rnd_le (z : ℚ) : (rnd z : ℚ) ≤ 131072 * z + 1 / 2 := Int.floor_le _
theorem lt_rnd (z : ℚ) : 131072 * z + 1 / 2 < (rnd z : ℚ) + 1 := Int.lt_floor_add_one _

/-- rounding error: at most half a lattice step -/
theorem rnd_err (z : ℚ) : |(rnd z : ℚ) / 131072 - z| ≤ 1 / 262144 := by
  have h1 := rnd_le z
  have h2 := lt_rnd z
  rw [abs_le]
  constructor <;> linarith

theorem rnd_mono {a b : ℚ} (h : a ≤ b) : rnd a ≤ rnd b := by
  unfold rnd
  apply Int.floor_le_floor
  linarith

/-- a lattice point is its own nearest lattice point -/
theorem rnd_lattice (k : ℤ) : rnd ((k : ℚ) / 131072) = k := by
  unfold rnd
  rw [Int.floor_eq_iff]
  constructor <;> (field_simp; linarith)

theorem frac17_eq (T : ℤ) : frac17 T = (T : ℚ) / 131072 - ((T / 131072 : ℤ) : ℚ) := by
  unfold frac17
  have h : T % 131072 = T - 131072 * (T / 131072) := by omega
  rw [h]
  push_cast
  field_simp

theorem frac17_nonneg (T : ℤ) : 0 ≤ frac17 T := by
  unfold frac17
  have : 0 ≤ T % 131072 := by omega
  have : (0 : ℚ) ≤ ((T % 131072 : ℤ) : ℚ) := by exact_mod_cast this
  positivity

theorem frac17_lt_one (T : ℤ) : frac17 T < 1 := by
  unfold frac17
  have : T % 131072 < 131072 := by omega
  have : ((T % 131072 : ℤ) : ℚ) < 131072 := by exact_mod_cast this
  rw [div_lt_one (by norm_num)]
  exact this

/-- zone + fraction = lattice coordinate -/
theorem zone_add_frac17 (T : ℤ) : ((T / 131072 : ℤ) : ℚ) + frac17 T = (T : ℚ) / 131072 := by
  rw [frac17_eq]; ring

/-- **zone identity** (`59·fract(60x) − 60·fract(59x) ∈ ℤ`, generic):
    if `(n−1)·za = n·zb` (both are `n(n−1)x`), then
    `(n−1)·fract za − n·fract zb = n·⌊zb⌋ − (n−1)·⌊za⌋`. -/
theorem zone_int (n : ℤ) (za zb : ℚ) (h : ((n : ℚ) - 1) * za = n * zb) :
    ((n : ℚ) - 1) * Int.fract za - n * Int.fract zb = ((n * ⌊zb⌋ - (n - 1) * ⌊za⌋ : ℤ) : ℚ) := by
  unfold Int.fract
  push_cast
  linear_combination h

/-- **zone index recovery**: with the two 17-bit roundings (error ≤ 2⁻¹⁸ each) the combination
    `(n−1)·a − n·b + 1/2` still floors to the integer of the zone identity, for every `2 ≤ n ≤ 60`
    (all that is needed is `(2n−1)/2^18 < 1/2`). -/
theorem zone_floor (n : ℤ) (hn : 2 ≤ n) (hn' : n ≤ 60) (za zb : ℚ)
    (h : ((n : ℚ) - 1) * za = n * zb) :
    ⌊((n : ℚ) - 1) * frac17 (rnd za) - n * frac17 (rnd zb) + 1 / 2⌋
      = n * (rnd zb / 131072) - (n - 1) * (rnd za / 131072) := by
  rw [frac17_eq, frac17_eq, Int.floor_eq_iff]
  have a1 := rnd_le za
  have a2 := lt_rnd za
  have b1 := rnd_le zb
  have b2 := lt_rnd zb
  have hn1 : (0 : ℚ) ≤ (n : ℚ) - 1 := by
    have : (2 : ℚ) ≤ n := by exact_mod_cast hn
    linarith
  have hn0 : (0 : ℚ) ≤ (n : ℚ) := by linarith
  have hn60 : (n : ℚ) ≤ 60 := by exact_mod_cast hn'
  have e1 := mul_le_mul_of_nonneg_left a1 hn1
  have e2 := mul_le_mul_of_nonneg_left (le_of_lt a2) hn1
  have e3 := mul_le_mul_of_nonneg_left b1 hn0
  have e4 := mul_le_mul_of_nonneg_left (le_of_lt b2) hn0
  push_cast
  constructor
  · -- lower bound
    have : ((n : ℚ) - 1) * (rnd za : ℚ) - n * (rnd zb : ℚ) ≥ -((2 * (n : ℚ) - 1) / 2) - ((n : ℚ) - 1) := by
      nlinarith
    have hN : (0 : ℚ) < 131072 := by norm_num
    have key : ((n : ℚ) - 1) * ((rnd za : ℚ) / 131072) - n * ((rnd zb : ℚ) / 131072) ≥ -(1 / 2) := by
      have : ((n : ℚ) - 1) * ((rnd za : ℚ) / 131072) - n * ((rnd zb : ℚ) / 131072)
          = (((n : ℚ) - 1) * (rnd za : ℚ) - n * (rnd zb : ℚ)) / 131072 := by ring
      rw [this, ge_iff_le, le_div_iff₀ hN]
      nlinarith
    linarith
  · have hN : (0 : ℚ) < 131072 := by norm_num
    have key : ((n : ℚ) - 1) * ((rnd za : ℚ) / 131072) - n * ((rnd zb : ℚ) / 131072) < 1 / 2 := by
      have : ((n : ℚ) - 1) * ((rnd za : ℚ) / 131072) - n * ((rnd zb : ℚ) / 131072)
          = (((n : ℚ) - 1) * (rnd za : ℚ) - n * (rnd zb : ℚ)) / 131072 := by ring
      rw [this, div_lt_iff₀ hN]
      nlinarith
    linarith

/-- 17-bit rounding-with-wrap of a fraction `f ∈ [0,1)`: the transmitted field … -/
def q17 (f : ℚ) : ℚ := ((⌊131072 * f + 1 / 2⌋ % 131072 : ℤ) : ℚ) / 131072
/-- … and the wrap (1 when the fraction rounds up to a full zone, else 0) -/
def w17 (f : ℚ) : ℤ := ⌊131072 * f + 1 / 2⌋ / 131072

theorem rnd_fract (z : ℚ) : rnd z = ⌊131072 * Int.fract z + 1 / 2⌋ + 131072 * ⌊z⌋ := by
  unfold rnd Int.fract
  have : 131072 * z + 1 / 2 = (131072 * (z - (⌊z⌋ : ℚ)) + 1 / 2) + ((131072 * ⌊z⌋ : ℤ) : ℚ) := by
    push_cast; ring
  rw [this, Int.floor_add_intCast]

theorem q17_fract (z : ℚ) : q17 (Int.fract z) = frac17 (rnd z) := by
  unfold q17 frac17
  rw [rnd_fract z]
  congr 2
  omega

theorem w17_fract (z : ℚ) : ⌊z⌋ + w17 (Int.fract z) = rnd z / 131072 := by
  unfold w17
  rw [rnd_fract z]
  omega

/-- **zone_pair** (generic, `2 ≤ n ≤ 60` zones): for `x ∈ ℚ`, with `a = q(fract(n·x))`,
    `b = q(fract((n−1)·x))` (17-bit rounding with wrap), the decoder's
    `⌊(n−1)·a − n·b + 1/2⌋` is congruent to the (wrapped) zone index `⌊n·x⌋ + w_a` modulo `n` and to
    `⌊(n−1)·x⌋ + w_b` modulo `n − 1`. -/
theorem zone_pair (n : ℤ) (hn : 2 ≤ n) (hn' : n ≤ 60) (x : ℚ) :
    ⌊((n : ℚ) - 1) * q17 (Int.fract (n * x)) - n * q17 (Int.fract (((n : ℚ) - 1) * x)) + 1 / 2⌋ % n
        = (⌊(n : ℚ) * x⌋ + w17 (Int.fract (n * x))) % n ∧
    ⌊((n : ℚ) - 1) * q17 (Int.fract (n * x)) - n * q17 (Int.fract (((n : ℚ) - 1) * x)) + 1 / 2⌋ % (n - 1)
        = (⌊((n : ℚ) - 1) * x⌋ + w17 (Int.fract (((n : ℚ) - 1) * x))) % (n - 1) := by
  rw [q17_fract, q17_fract, w17_fract, w17_fract,
    zone_floor n hn hn' (n * x) (((n : ℚ) - 1) * x) (by ring)]
  set Za := rnd ((n : ℚ) * x) / 131072
  set Zb := rnd (((n : ℚ) - 1) * x) / 131072
  constructor
  · have : n * Zb - (n - 1) * Za = Za + n * (Zb - Za) := by ring
    rw [this, Int.add_mul_emod_self_left]
  · have : n * Zb - (n - 1) * Za = Zb + (n - 1) * (Zb - Za) := by ring
    rw [this, Int.add_mul_emod_self_left]

/-- `fn modulo` on an integer and a positive integer modulus is the integer `emod`. -/
theorem floor_int_div (k : ℤ) (n : ℕ) : ⌊(k : ℚ) / (n : ℚ)⌋ = k / (n : ℤ) :=
  Rat.floor_intCast_div_natCast k n

/-- **local decoding**: if the lattice point `d·T/N` is strictly within half a zone of the reference,
    then `floor(1/2 + ref/d − frac)` is the missing zone index and the point is recovered exactly. -/
theorem local_zone (d : ℚ) (hd : 0 < d) (T : ℤ) (ref : ℚ)
    (h : |d * ((T : ℚ) / 131072) - ref| < d / 2) :
    ⌊1 / 2 + ref / d - frac17 T⌋ = T / 131072 := by
  rw [frac17_eq, Int.floor_eq_iff]
  rw [abs_lt] at h
  have h1 : ref / d - (T : ℚ) / 131072 < 1 / 2 := by
    rw [div_sub' (hc := ne_of_gt hd), div_lt_iff₀ hd]; linarith
  have h2 : -(1 / 2) < ref / d - (T : ℚ) / 131072 := by
    rw [div_sub' (hc := ne_of_gt hd), lt_div_iff₀ hd]; linarith
  constructor <;> linarith

/-- whatever the reference, `floor(1/2 + ref/d − c)` picks a point within half a zone of it -/
theorem local_near (d : ℚ) (hd : 0 < d) (c ref : ℚ) :
    |d * ((⌊1 / 2 + ref / d - c⌋ : ℚ) + c) - ref| ≤ d / 2 := by
  have h1 := Int.floor_le (1 / 2 + ref / d - c)
  have h2 := Int.lt_floor_add_one (1 / 2 + ref / d - c)
  set j : ℚ := (⌊1 / 2 + ref / d - c⌋ : ℚ)
  have e : d * (j + c) - ref = d * (j + c - ref / d) := by field_simp
  rw [e, abs_mul, abs_of_pos hd]
  have : |j + c - ref / d| ≤ 1 / 2 := by rw [abs_le]; constructor <;> linarith
  calc d * |j + c - ref / d| ≤ d * (1 / 2) := mul_le_mul_of_nonneg_left this (le_of_lt hd)
    _ = d / 2 := by ring

end Rs1090.Proofs.Cpr
