/-
C14 — the three table-driven schemes (`hl_reg`, `numeric_reg`, `stride_reg`): first-match search over a table of
rows.  Each row is checked once by the kernel (`…RowOk`, a Boolean over the generated rows); the search lemmas are
generic inductions over the table.
-/
import Rs1090.Proofs.TailDefs
namespace Rs1090.Proofs.Tail
open Rs1090 Rs1090.Model.Tail Rs1090.Gen.Tail

theorem drop_cons_inv {α} [Inhabited α] {T : List α} {k : Nat} {r : α} {rs : List α}
    (h : T.drop k = r :: rs) : k < T.length ∧ T.getD k default = r ∧ T.drop (k + 1) = rs := by
  have hk : k < T.length := by
    apply Nat.lt_of_not_le
    intro hle
    rw [List.drop_eq_nil_of_le hle] at h
    cases h
  rw [List.drop_eq_getElem_cons hk] at h
  simp only [List.cons.injEq] at h
  refine ⟨hk, ?_, h.2⟩
  simp only [List.getD_eq_getElem?_getD, List.getElem?_eq_getElem hk, Option.getD_some]
  exact h.1

/-! ### Republic of Korea -/

def hlRowOk (r : HlRow) : Bool :=
  decide (r.sub ≤ r.lo) && decide (r.hi - r.sub + r.add < 2 ^ 32) && countryOkB r.lo r.hi ['H', 'L']

theorem hl_rows_ok : hlRows.all hlRowOk = true := by decide +kernel

theorem hlGo_good (h : Nat) : ∀ (rs : List HlRow) (k : Nat), hlRows.drop k = rs → Good h (hlGo h rs k) := by
  intro rs
  induction rs with
  | nil => intro k _; exact ⟨none, rfl, by intro r hr; cases hr⟩
  | cons r rs ih =>
    intro k hk
    obtain ⟨hlt, hget, hdrop⟩ := drop_cons_inv hk
    have hok : hlRowOk r = true := by
      have := List.all_eq_true.mp hl_rows_ok r (by rw [← hget, List.getD_eq_getElem?_getD, List.getElem?_eq_getElem hlt]; simp)
      exact this
    simp only [hlRowOk, Bool.and_eq_true, decide_eq_true_eq] at hok
    obtain ⟨⟨h1, h2⟩, h3⟩ := hok
    unfold hlGo
    split
    · rename_i hc
      rw [subU_ok (by omega), Outcome.bind_ok, addU_ok (by omega), Outcome.bind_ok]
      refine ⟨_, rfl, ?_⟩
      intro x hx
      cases hx
      refine ⟨⟨hlt, ?_, ?_⟩, ?_, ?_⟩
      · rw [hget]; unfold hlVLo; omega
      · rw [hget]; unfold hlVHi; omega
      · simp only [inv, hget]; omega
      · exact countryFact_of (r := .hl k _) h3 hc.1 hc.2
    · exact ih (k + 1) hdrop

theorem hlReg_good (h : Nat) : Good h (hlReg h) := hlGo_good h hlRows 0 (by simp)

/-! ### numeric mappings -/

def numRowOk (m : NumRow) : Bool :=
  decide (numVMax m < 2 ^ 32) && decide (numVMax m < 10 ^ numW m) && decide (0 < numW m) &&
    (m.template == numKey m ++ List.replicate (numW m) '0') && countryOkB m.start m.end_ (numKey m)

theorem numericTable_isOk : numericTable.isOk = true := by decide +kernel

theorem numericTable_eq : numericTable = .ok numericRows := by
  have h := numericTable_isOk
  unfold numericRows
  cases hx : numericTable <;> rw [hx] at h <;> first | rfl | cases h

theorem num_rows_ok : numericRows.all numRowOk = true := by decide +kernel

theorem numW_le (m : NumRow) : numW m ≤ m.template.length := by unfold numW; omega

theorem numGo_good (h : Nat) : ∀ (rs : List NumRow) (k : Nat), numericRows.drop k = rs → Good h (numGo h rs k) := by
  intro rs
  induction rs with
  | nil => intro k _; exact ⟨none, rfl, by intro r hr; cases hr⟩
  | cons m ms ih =>
    intro k hk
    obtain ⟨hlt, hget, hdrop⟩ := drop_cons_inv hk
    have hok : numRowOk m = true :=
      List.all_eq_true.mp num_rows_ok m (by rw [← hget, List.getD_eq_getElem?_getD, List.getElem?_eq_getElem hlt]; simp)
    simp only [numRowOk, Bool.and_eq_true, decide_eq_true_eq] at hok
    obtain ⟨⟨⟨⟨h1, h2⟩, h3⟩, _⟩, h5⟩ := hok
    unfold numVMax at h1 h2
    unfold numGo
    split
    · rename_i hc
      have hv : h - m.start + m.first < 10 ^ numW m := by omega
      have hlen := digits_length_le 10 (by omega) _ _ hv h3
      have hW := numW_le m
      rw [subU_ok (by omega), Outcome.bind_ok, addU_ok (by omega), Outcome.bind_ok,
        subU_ok (by unfold dec; rw [List.length_map]; omega), Outcome.bind_ok]
      refine ⟨_, rfl, ?_⟩
      intro x hx
      cases hx
      refine ⟨⟨hlt, ?_⟩, ?_, ?_⟩
      · rw [hget]; unfold numVMax; omega
      · simp only [inv, hget]; omega
      · exact countryFact_of (r := .num k _) (by simpa only [key, hget] using h5) hc.1 hc.2
    · exact ih (k + 1) hdrop

theorem numericReg_good (h : Nat) : Good h (numericReg h) := by
  unfold numericReg
  rw [numericTable_eq, Outcome.bind_ok]
  exact numGo_good h numericRows 0 (by simp)

/-! ### stride mappings -/

def strideRowOk (m : StrideRow) : Bool :=
  decide (0 < m.s1) && decide (0 < m.s2) && decide (m.offset ≤ m.start) &&
    decide (m.end_ - m.start + m.offset < 2 ^ 32) && countryOkB m.start m.end_ m.pre

theorem strideTable_isOk : strideTable.isOk = true := by decide +kernel

theorem strideTable_eq : strideTable = .ok strideRows := by
  have h := strideTable_isOk
  unfold strideRows
  cases hx : strideTable <;> rw [hx] at h <;> first | rfl | cases h

theorem stride_rows_ok : strideRows.all strideRowOk = true := by decide +kernel

theorem strideGo_good (h : Nat) :
    ∀ (rs : List StrideRow) (k : Nat), strideRows.drop k = rs → Good h (strideGo h rs k) := by
  intro rs
  induction rs with
  | nil => intro k _; exact ⟨none, rfl, by intro r hr; cases hr⟩
  | cons m ms ih =>
    intro k hk
    obtain ⟨hlt, hget, hdrop⟩ := drop_cons_inv hk
    have hok : strideRowOk m = true :=
      List.all_eq_true.mp stride_rows_ok m (by rw [← hget, List.getD_eq_getElem?_getD, List.getElem?_eq_getElem hlt]; simp)
    simp only [strideRowOk, Bool.and_eq_true, decide_eq_true_eq] at hok
    obtain ⟨⟨⟨⟨h1, h2⟩, h3⟩, h4⟩, h5⟩ := hok
    unfold strideGo
    split
    · rename_i hc
      rw [subU_ok (by omega), Outcome.bind_ok, addU_ok (by omega), Outcome.bind_ok,
        divU_ok (by omega), Outcome.bind_ok, modU_ok (by omega), Outcome.bind_ok,
        divU_ok (by omega), Outcome.bind_ok, modU_ok (by omega), Outcome.bind_ok]
      split
      · rename_i hi
        rw [nthU_ok hi.1, Outcome.bind_ok, nthU_ok hi.2.1, Outcome.bind_ok, nthU_ok hi.2.2, Outcome.bind_ok]
        refine ⟨_, rfl, ?_⟩
        intro x hx
        cases hx
        generalize hoff : h - m.start + m.offset = off at hi ⊢
        refine ⟨⟨hlt, ?_⟩, ?_, ?_⟩
        · rw [hget]
          refine ⟨hi.1, hi.2.1, hi.2.2, ?_, ?_⟩
          · unfold strideLo; exact Nat.div_le_div_right (by omega)
          · unfold strideHi; exact Nat.div_le_div_right (by omega)
        · simp only [inv, hget]
          have e1 := Nat.div_add_mod off m.s1
          have e2 := Nat.div_add_mod (off % m.s1) m.s2
          rw [Nat.mul_comm] at e1 e2
          generalize off / m.s1 * m.s1 = a at e1 ⊢
          generalize off % m.s1 / m.s2 * m.s2 = b at e2 ⊢
          omega
        · exact countryFact_of (r := .stride k _ _ _) (by simpa only [key, hget] using h5) hc.1 hc.2
      · exact ih (k + 1) hdrop
    · exact ih (k + 1) hdrop

theorem strideReg_good (h : Nat) : Good h (strideReg h) := by
  unfold strideReg
  rw [strideTable_eq, Outcome.bind_ok]
  exact strideGo_good h strideRows 0 (by simp)

end Rs1090.Proofs.Tail
