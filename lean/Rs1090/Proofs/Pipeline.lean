/-
Helper lemmas for the composed pipeline model (`Model/Pipeline.lean`): the loop
"decode → decode_position → update_snapshot" equals "positions by C06's batch model, then C12's
frame-level table"; the address the CPR cache is keyed by and the address the table is keyed by are the
same address of the frame; own sub-histories commute with the attachment of positions.
-/
import Rs1090.Model.Pipeline
import Rs1090.Proofs.SnapshotView
import Rs1090.Proofs.CprState
namespace Rs1090.Proofs.Pipeline
open Rs1090 Rs1090.Model Rs1090.Model.Message Rs1090.Model.Snapshot Rs1090.Model.SnapshotView
open Rs1090.Model.Cpr Rs1090.Model.CprState Rs1090.Model.Pipeline
open Rs1090.Proofs.SnapshotView Rs1090.Proofs.Filters

/-! ### `Message::from_bytes` (the driver, `dedup.rs`) vs `Message::try_from` (the model's decoder) -/

/-- on a frame of exactly the announced length (7 / 14 bytes — what receivers deliver) the two entry
    points of the decoder are the same function -/
theorem fromBytes_eq_tryFrom (bs : List Nat) (h : bs.length = frameBits (bs.headD 0) / 8) :
    fromBytes bs = tryFrom bs := by
  cases bs with
  | nil => rfl
  | cons b0 rest =>
    simp only [List.headD_cons] at h
    unfold fromBytes tryFrom
    simp only []
    split
    · rfl
    · cases decodeBuf b0 ((b0 :: rest).take (frameBits b0 / 8)) with
      | err e => rfl
      | panic x => rfl
      | ok v => simp [h]

/-! ### the loop is the factored form -/

theorem reportsOf_cons_none (x : Rcv) (rest : List Rcv) (h : cprReportOf x.t x.frame = none) :
    reportsOf (x :: rest) = reportsOf rest := by
  simp [reportsOf, h]

theorem reportsOf_cons_some (x : Rcv) (rest : List Rcv) (r : Report) (h : cprReportOf x.t x.frame = some r) :
    reportsOf (x :: rest) = r :: reportsOf rest := by
  simp [reportsOf, h]

theorem attach_cons_none (x : Rcv) (rest : List Rcv) (outs : List (Option Pos))
    (h : cprReportOf x.t x.frame = none) :
    attach (x :: rest) outs = ⟨tsU64 x.t, x.frame, none⟩ :: attach rest outs := by
  simp [attach, h]

theorem attach_cons_some (x : Rcv) (rest : List Rcv) (r : Report) (o : Option Pos) (outs : List (Option Pos))
    (h : cprReportOf x.t x.frame = some r) :
    attach (x :: rest) (o :: outs) = ⟨tsU64 x.t, x.frame, o.map posText⟩ :: attach rest outs := by
  simp [attach, h]

theorem attach_cons_some_nil (x : Rcv) (rest : List Rcv) (r : Report)
    (h : cprReportOf x.t x.frame = some r) :
    attach (x :: rest) [] = ⟨tsU64 x.t, x.frame, none⟩ :: attach rest [] := by
  simp [attach, h]

/-- the loop from any state = the table fold over the receptions annotated by `CprState.run` from that state -/
theorem fold_step_eq (g : Gates) (dist : Pos → Pos → Rat) :
    ∀ (h : List Rcv) (st : CprState.State) (t : Table),
      (h.foldl (step g dist) { cpr := st, table := t }).table
        = (attach h (CprState.run g dist none st (reportsOf h))).foldl (fun t x => update t x.record) t := by
  intro h
  induction h with
  | nil => intro st t; rfl
  | cons x rest ih =>
    intro st t
    cases hx : cprReportOf x.t x.frame with
    | none =>
      rw [reportsOf_cons_none x rest hx, attach_cons_none x rest _ hx, List.foldl_cons, List.foldl_cons]
      have : step g dist { cpr := st, table := t } x
          = { cpr := st, table := update t (recordOfFrame (tsU64 x.t) x.frame none) } := by
        simp [step, hx]
      rw [this, ih]
      rfl
    | some r =>
      rw [reportsOf_cons_some x rest r hx]
      simp only [CprState.run]
      rw [attach_cons_some x rest r _ _ hx, List.foldl_cons, List.foldl_cons]
      have : step g dist { cpr := st, table := t } x
          = { cpr := (decodePosition g dist none st r).1,
              table := update t (recordOfFrame (tsU64 x.t) x.frame ((decodePosition g dist none st r).2.map posText)) } := by
        simp [step, hx]
      rw [this, ih]
      rfl

theorem runPipeline_eq (g : Gates) (dist : Pos → Pos → Rat) (reference : Option Pos) (h : List Rcv) :
    runPipeline g dist reference h = runFrames (annotate g dist reference h) := by
  unfold runPipeline annotate decodePositions runFrames
  exact fold_step_eq g dist h _ _

/-! ### the two models key by the same address of the frame

`decode_position` is called with `&adsb.icao24` / `&cf.aa` (the CPR cache key: `Report.addr`, a number);
`update_snapshot` files the message under `icao24(msg)` (the table key: the text of the JSON member
`icao24`).  Both are the AA field of the frame, bits 8..32. -/

/-- **address-extraction compatibility.**  When the loop calls `decode_position` for a reception, the
    report carries the reception's time stamp, its cache key is the 24-bit AA field of the frame, and the
    address the table model displays for the same frame (`icao24Of`: the `icao24` member of the decoded JSON)
    is that very number as six hex digits. -/
theorem cprReportOf_addr (t : Rat) (f : List Nat) (r : Report) (h : cprReportOf t f = some r) :
    r.ts = t ∧ r.addr = bitsBE f 8 24 ∧ r.addr < 2 ^ 24 ∧ icao24Of f = some (hex6 r.addr) := by
  unfold cprReportOf at h
  simp only [] at h
  split at h
  · rename_i hdf
    split at h
    · rename_i kvs hok
      cases hm : cprMsgOf kvs with
      | none => rw [hm] at h; cases h
      | some km =>
        rw [hm] at h
        simp only [Option.map_some, Option.some.injEq] at h
        subst h
        have hdf9 : [0, 4, 5, 11, 16, 17, 18, 20, 21].contains (bitsBE f 0 5) = true := by
          generalize bitsBE f 0 5 = d at hdf
          simp only [Bool.or_eq_true, beq_iff_eq] at hdf
          rcases hdf with rfl | rfl <;> decide
        have hdf3 : [11, 17, 18].contains (bitsBE f 0 5) = true := by
          generalize bitsBE f 0 5 = d at hdf
          simp only [Bool.or_eq_true, beq_iff_eq] at hdf
          rcases hdf with rfl | rfl <;> decide
        obtain ⟨a, ha, h1, _⟩ := icao24Of_frame f _ hok hdf9
        refine ⟨rfl, rfl, Rs1090.Proofs.Filters.bitsBE_lt f 8 24, ?_⟩
        rw [ha, h1 hdf3]
    · cases h
  · cases h

theorem hexDigit_inj : ∀ m, m < 16 → ∀ n, n < 16 → hexDigit m = hexDigit n → m = n := by decide

/-- six hex digits determine a 24-bit address -/
theorem hex6_inj (a b : Nat) (ha : a < 2 ^ 24) (hb : b < 2 ^ 24) (h : hex6 a = hex6 b) : a = b := by
  unfold hex6 at h
  have h' := congrArg String.toList h
  simp only [String.toList_ofList] at h'
  have e : ∀ v, hexChars 6 v = [hexDigit (v / 1048576 % 16), hexDigit (v / 65536 % 16), hexDigit (v / 4096 % 16),
      hexDigit (v / 256 % 16), hexDigit (v / 16 % 16), hexDigit (v / 1 % 16)] := fun v => rfl
  rw [e a, e b] at h'
  simp only [List.cons.injEq, and_true] at h'
  obtain ⟨h5, h4, h3, h2, h1, h0⟩ := h'
  have d5 := hexDigit_inj _ (Nat.mod_lt _ (by decide)) _ (Nat.mod_lt _ (by decide)) h5
  have d4 := hexDigit_inj _ (Nat.mod_lt _ (by decide)) _ (Nat.mod_lt _ (by decide)) h4
  have d3 := hexDigit_inj _ (Nat.mod_lt _ (by decide)) _ (Nat.mod_lt _ (by decide)) h3
  have d2 := hexDigit_inj _ (Nat.mod_lt _ (by decide)) _ (Nat.mod_lt _ (by decide)) h2
  have d1 := hexDigit_inj _ (Nat.mod_lt _ (by decide)) _ (Nat.mod_lt _ (by decide)) h1
  have d0 := hexDigit_inj _ (Nat.mod_lt _ (by decide)) _ (Nat.mod_lt _ (by decide)) h0
  omega

/-- **same aircraft in both models**: two receptions for which the loop calls `decode_position` use the same
    cache entry iff the table files them under the same key -/
theorem same_address_iff (t₁ t₂ : Rat) (f₁ f₂ : List Nat) (r₁ r₂ : Report)
    (h₁ : cprReportOf t₁ f₁ = some r₁) (h₂ : cprReportOf t₂ f₂ = some r₂) :
    r₁.addr = r₂.addr ↔ icao24Of f₁ = icao24Of f₂ := by
  obtain ⟨_, _, b₁, e₁⟩ := cprReportOf_addr t₁ f₁ r₁ h₁
  obtain ⟨_, _, b₂, e₂⟩ := cprReportOf_addr t₂ f₂ r₂ h₂
  rw [e₁, e₂]
  constructor
  · intro h; rw [h]
  · intro h; exact hex6_inj _ _ b₁ b₂ (Option.some.inj h)

/-- for every table key `k` there is ONE cache key `A` such that, among the receptions that reach
    `decode_position`, those the table files under `k` are exactly those that use the cache entry `A`
    (`A` = the address whose six hex digits are `k`; an impossible address when `k` is no such text) -/
theorem exists_cpr_address (k : Addr) :
    ∃ A : Address, ∀ t f r, cprReportOf t f = some r → (icao24Of f = some k ↔ r.addr = A) := by
  by_cases h : ∃ a, a < 2 ^ 24 ∧ hex6 a = k
  · obtain ⟨a, ha, rfl⟩ := h
    refine ⟨a, fun t f r hr => ?_⟩
    obtain ⟨_, _, b, e⟩ := cprReportOf_addr t f r hr
    rw [e]
    constructor
    · intro h; exact hex6_inj _ _ b ha (Option.some.inj h)
    · intro h; rw [h]
  · refine ⟨2 ^ 24, fun t f r hr => ?_⟩
    obtain ⟨_, _, b, e⟩ := cprReportOf_addr t f r hr
    rw [e]
    constructor
    · intro hk; exact absurd ⟨r.addr, b, Option.some.inj hk⟩ h
    · intro hk; rw [hk] at b; exact absurd b (Nat.lt_irrefl _)

/-! ### own sub-histories -/

/-- the receptions of the history whose frame decodes to JSON with `icao24` = `k` (the `Rcv` twin of `ownFrames`) -/
def ownRcv (k : Addr) (h : List Rcv) : List Rcv := h.filter fun x => icao24Of x.frame = some k

theorem mem_ownRcv {k : Addr} {h : List Rcv} {x : Rcv} :
    x ∈ ownRcv k h ↔ x ∈ h ∧ ShowsIcao24 x.frame k := by
  unfold ownRcv
  rw [List.mem_filter, showsIcao24_iff]
  simp

theorem ownRcv_cons_pos (k : Addr) (x : Rcv) (rest : List Rcv) (h : icao24Of x.frame = some k) :
    ownRcv k (x :: rest) = x :: ownRcv k rest := by
  simp [ownRcv, h]

theorem ownRcv_cons_neg (k : Addr) (x : Rcv) (rest : List Rcv) (h : icao24Of x.frame ≠ some k) :
    ownRcv k (x :: rest) = ownRcv k rest := by
  simp [ownRcv, h]

theorem ownFrames_cons_pos (k : Addr) (y : Rx) (l : List Rx) (h : icao24Of y.frame = some k) :
    ownFrames k (y :: l) = y :: ownFrames k l := by
  simp [ownFrames, h]

theorem ownFrames_cons_neg (k : Addr) (y : Rx) (l : List Rx) (h : icao24Of y.frame ≠ some k) :
    ownFrames k (y :: l) = ownFrames k l := by
  simp [ownFrames, h]

/-- forgetting the positions: the attachment changes neither frames nor time stamps, nor the order -/
theorem attach_forget : ∀ (h : List Rcv) (outs : List (Option Pos)),
    (attach h outs).map (fun y => (y.ts, y.frame)) = h.map (fun x => (tsU64 x.t, x.frame)) := by
  intro h
  induction h with
  | nil => intro outs; rfl
  | cons x rest ih =>
    intro outs
    cases hx : cprReportOf x.t x.frame with
    | none => rw [attach_cons_none x rest outs hx]; simp [ih]
    | some r =>
      cases outs with
      | nil => rw [attach_cons_some_nil x rest r hx]; simp [ih]
      | cons o outs' => rw [attach_cons_some x rest r o outs' hx]; simp [ih]

/-- the calls of `decode_position` made for `k`'s receptions are the calls that use the cache entry `A` -/
theorem reportsOf_own (k : Addr) (A : Address)
    (hA : ∀ t f r, cprReportOf t f = some r → (icao24Of f = some k ↔ r.addr = A)) :
    ∀ h : List Rcv, reportsOf (ownRcv k h) = Rs1090.Proofs.CprState.own A (reportsOf h) := by
  intro h
  induction h with
  | nil => rfl
  | cons x rest ih =>
    cases hx : cprReportOf x.t x.frame with
    | none =>
      rw [reportsOf_cons_none x rest hx]
      by_cases hk : icao24Of x.frame = some k
      · rw [ownRcv_cons_pos k x rest hk, reportsOf_cons_none x _ hx, ih]
      · rw [ownRcv_cons_neg k x rest hk, ih]
    | some r =>
      rw [reportsOf_cons_some x rest r hx]
      by_cases hk : icao24Of x.frame = some k
      · have ha : r.addr = A := (hA _ _ _ hx).mp hk
        rw [ownRcv_cons_pos k x rest hk, reportsOf_cons_some x _ r hx, ih]
        simp [Rs1090.Proofs.CprState.own, ha]
      · have ha : r.addr ≠ A := fun e => hk ((hA _ _ _ hx).mpr e)
        rw [ownRcv_cons_neg k x rest hk, ih]
        simp [Rs1090.Proofs.CprState.own, ha]

theorem outputsOf_nil (A : Address) (R : List Report) : Rs1090.Proofs.CprState.outputsOf A R [] = [] := by
  simp [Rs1090.Proofs.CprState.outputsOf]

/-- **own sub-history commutes with the attachment of positions**: `k`'s receptions of the annotated history
    are `k`'s receptions annotated with the outputs that belong to the cache entry `A` -/
theorem ownFrames_attach (k : Addr) (A : Address)
    (hA : ∀ t f r, cprReportOf t f = some r → (icao24Of f = some k ↔ r.addr = A)) :
    ∀ (h : List Rcv) (outs : List (Option Pos)),
      ownFrames k (attach h outs)
        = attach (ownRcv k h) (Rs1090.Proofs.CprState.outputsOf A (reportsOf h) outs) := by
  intro h
  induction h with
  | nil => intro outs; rfl
  | cons x rest ih =>
    intro outs
    cases hx : cprReportOf x.t x.frame with
    | none =>
      rw [attach_cons_none x rest outs hx, reportsOf_cons_none x rest hx]
      by_cases hk : icao24Of x.frame = some k
      · rw [ownFrames_cons_pos k _ _ hk, ownRcv_cons_pos k x rest hk, attach_cons_none x _ _ hx, ih]
      · rw [ownFrames_cons_neg k _ _ hk, ownRcv_cons_neg k x rest hk, ih]
    | some r =>
      rw [reportsOf_cons_some x rest r hx]
      cases outs with
      | nil =>
        rw [attach_cons_some_nil x rest r hx, outputsOf_nil]
        by_cases hk : icao24Of x.frame = some k
        · rw [ownFrames_cons_pos k _ _ hk, ownRcv_cons_pos k x rest hk, attach_cons_some_nil x _ r hx, ih,
            outputsOf_nil]
        · rw [ownFrames_cons_neg k _ _ hk, ownRcv_cons_neg k x rest hk, ih, outputsOf_nil]
      | cons o outs' =>
        rw [attach_cons_some x rest r o outs' hx]
        by_cases hk : icao24Of x.frame = some k
        · have ha : r.addr = A := (hA _ _ _ hx).mp hk
          rw [ownFrames_cons_pos k _ _ hk, ownRcv_cons_pos k x rest hk,
            Rs1090.Proofs.CprState.outputsOf_cons_same A r _ o outs' ha, attach_cons_some x _ r o _ hx, ih]
        · have ha : r.addr ≠ A := fun e => hk ((hA _ _ _ hx).mpr e)
          rw [ownFrames_cons_neg k _ _ hk, ownRcv_cons_neg k x rest hk,
            Rs1090.Proofs.CprState.outputsOf_cons_other A r _ o outs' ha, ih]

/-- … hence, GIVEN that the position decoder does not let aircraft interfere (`hni`: C06's
    `noninterference`, for the cache entry `A`), `k`'s receptions of the annotated history are the annotated
    history of `k`'s receptions -/
theorem ownFrames_annotate (g : Gates) (dist : Pos → Pos → Rat) (reference : Option Pos) (k : Addr) (A : Address)
    (hA : ∀ t f r, cprReportOf t f = some r → (icao24Of f = some k ↔ r.addr = A)) (h : List Rcv)
    (hni : Rs1090.Proofs.CprState.outputsOf A (reportsOf h) (decodePositions g dist none reference (reportsOf h))
      = decodePositions g dist none reference (Rs1090.Proofs.CprState.own A (reportsOf h))) :
    ownFrames k (annotate g dist reference h) = annotate g dist reference (ownRcv k h) := by
  unfold annotate
  rw [ownFrames_attach k A hA, hni, reportsOf_own k A hA]

/-! ### forgetting positions (for the clauses that do not mention them) -/

theorem attach_frames (h : List Rcv) (outs : List (Option Pos)) :
    (attach h outs).map (·.frame) = h.map (·.frame) := by
  have := congrArg (List.map Prod.snd) (attach_forget h outs)
  simpa [List.map_map, Function.comp_def] using this

theorem exists_frame_iff (P : List Nat → Prop) (h : List Rcv) (outs : List (Option Pos)) :
    (∃ y, y ∈ attach h outs ∧ P y.frame) ↔ (∃ x, x ∈ h ∧ P x.frame) := by
  have e := attach_frames h outs
  constructor
  · rintro ⟨y, hy, hp⟩
    have : y.frame ∈ h.map (·.frame) := by rw [← e]; exact List.mem_map_of_mem hy
    obtain ⟨x, hx, hxe⟩ := List.mem_map.mp this
    exact ⟨x, hx, by rw [hxe]; exact hp⟩
  · rintro ⟨x, hx, hp⟩
    have : x.frame ∈ (attach h outs).map (·.frame) := by rw [e]; exact List.mem_map_of_mem hx
    obtain ⟨y, hy, hye⟩ := List.mem_map.mp this
    exact ⟨y, hy, by rw [hye]; exact hp⟩

/-- `k`'s receptions of an annotated history are `k`'s receptions, as far as time stamps and frames go -/
theorem ownFrames_attach_forget (k : Addr) (h : List Rcv) (outs : List (Option Pos)) :
    (ownFrames k (attach h outs)).map (fun y => (y.ts, y.frame))
      = (ownRcv k h).map (fun x => (tsU64 x.t, x.frame)) := by
  obtain ⟨A, hA⟩ := exists_cpr_address k
  rw [ownFrames_attach k A hA, attach_forget]

/-! ### where a held position comes from -/
section Carried
open Rs1090.Spec.Snapshot

theorem meView_lat (frame : List Nat) (kvs : List (Key × Json)) (pos : Option (Val × Val)) (v : Val)
    (hv : v ∈ meCarried (meView frame kvs pos) .latitude) : pos.map (·.1) = some v := by
  unfold meView at hv
  split at hv
  · simpa [meCarried] using hv
  · simpa [meCarried] using hv
  · cases h : fldV kvs (key! "callsign") <;> simp [h, meCarried] at hv
  · cases h : velocityView frame kvs <;> simp [h, meCarried] at hv
  · cases h : fldV kvs (key! "squawk") <;> simp [h, meCarried] at hv
  · cases h : fldV kvs (key! "NACp") <;> simp [h, meCarried] at hv
  · simp [meCarried] at hv
  · simp [meCarried] at hv

theorem meView_lon (frame : List Nat) (kvs : List (Key × Json)) (pos : Option (Val × Val)) (v : Val)
    (hv : v ∈ meCarried (meView frame kvs pos) .longitude) : pos.map (·.2) = some v := by
  unfold meView at hv
  split at hv
  · simpa [meCarried] using hv
  · simpa [meCarried] using hv
  · cases h : fldV kvs (key! "callsign") <;> simp [h, meCarried] at hv
  · cases h : velocityView frame kvs <;> simp [h, meCarried] at hv
  · cases h : fldV kvs (key! "squawk") <;> simp [h, meCarried] at hv
  · cases h : fldV kvs (key! "NACp") <;> simp [h, meCarried] at hv
  · simp [meCarried] at hv
  · simp [meCarried] at hv

theorem bodyView_lat (frame : List Nat) (kvs : List (Key × Json)) (pos : Option (Val × Val)) (v : Val)
    (hv : v ∈ bodyCarried (bodyView frame kvs pos) .latitude) : pos.map (·.1) = some v := by
  unfold bodyView at hv
  split at hv
  · cases h : fldV kvs (key! "squawk") <;> simp [h, bodyCarried] at hv
  · cases h : fldV kvs (key! "altitude") <;> simp [h, bodyCarried] at hv
  · exact meView_lat frame kvs pos v (by simpa [bodyCarried] using hv)
  · exact meView_lat frame kvs pos v (by simpa [bodyCarried] using hv)
  · simp [bodyCarried, commbCarried] at hv
  · simp [bodyCarried, commbCarried] at hv
  · simp [bodyCarried] at hv

theorem record_lat (x : Rx) (v : Val) (hv : v ∈ carried x.record .latitude) : x.pos.map (·.1) = some v := by
  unfold carried Rx.record recordOfFrame at hv
  split at hv
  · unfold viewOfJson at hv
    split at hv
    · exact bodyView_lat _ _ _ _ hv
    · simp [undecoded, bodyCarried] at hv
  · simp [undecoded, bodyCarried] at hv

theorem bodyView_lon (frame : List Nat) (kvs : List (Key × Json)) (pos : Option (Val × Val)) (v : Val)
    (hv : v ∈ bodyCarried (bodyView frame kvs pos) .longitude) : pos.map (·.2) = some v := by
  unfold bodyView at hv
  split at hv
  · cases h : fldV kvs (key! "squawk") <;> simp [h, bodyCarried] at hv
  · cases h : fldV kvs (key! "altitude") <;> simp [h, bodyCarried] at hv
  · exact meView_lon frame kvs pos v (by simpa [bodyCarried] using hv)
  · exact meView_lon frame kvs pos v (by simpa [bodyCarried] using hv)
  · simp [bodyCarried, commbCarried] at hv
  · simp [bodyCarried, commbCarried] at hv
  · simp [bodyCarried] at hv

theorem record_lon (x : Rx) (v : Val) (hv : v ∈ carried x.record .longitude) : x.pos.map (·.2) = some v := by
  unfold carried Rx.record recordOfFrame at hv
  split at hv
  · unfold viewOfJson at hv
    split at hv
    · exact bodyView_lon _ _ _ _ hv
    · simp [undecoded, bodyCarried] at hv
  · simp [undecoded, bodyCarried] at hv

end Carried

/-- a position text in an annotated history is the text of one of the decoder outputs handed to `attach` -/
theorem mem_attach_pos : ∀ (h : List Rcv) (outs : List (Option Pos)) (y : Rx) (q : Val × Val),
    y ∈ attach h outs → y.pos = some q → ∃ p, some p ∈ outs ∧ q = posText p := by
  intro h
  induction h with
  | nil => intro outs y q hy; cases hy
  | cons x rest ih =>
    intro outs y q hy hq
    cases hx : cprReportOf x.t x.frame with
    | none =>
      rw [attach_cons_none x rest outs hx, List.mem_cons] at hy
      rcases hy with rfl | hy
      · cases hq
      · exact ih outs y q hy hq
    | some r =>
      cases outs with
      | nil =>
        rw [attach_cons_some_nil x rest r hx, List.mem_cons] at hy
        rcases hy with rfl | hy
        · cases hq
        · exact ih [] y q hy hq
      | cons o outs' =>
        rw [attach_cons_some x rest r o outs' hx, List.mem_cons] at hy
        rcases hy with rfl | hy
        · cases o with
          | none => cases hq
          | some p =>
            simp only [Option.map_some, Option.some.injEq] at hq
            exact ⟨p, List.mem_cons_self, hq.symm⟩
        · obtain ⟨p, hp, e⟩ := ih outs' y q hy hq
          exact ⟨p, List.mem_cons_of_mem _ hp, e⟩

end Rs1090.Proofs.Pipeline
