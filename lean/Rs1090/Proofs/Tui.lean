/-
Helper lemmas for C17 (Props/C17.lean): what `next/previous/home` and the key dispatch of
`update()` return, as equations on the model (Model/Tui.lean).  Core Lean only.
-/
import Rs1090.Model.Tui
namespace Rs1090.Proofs.Tui
open Rs1090 Rs1090.Model.Tui

/-! ### the three navigation functions -/

theorem next_ok (ui : Ui) (hn : ui.n < 2 ^ 64) :
    ∃ j, next true ui = .ok { ui with selected := some j } ∧ (ui.n = 0 → j = 0) ∧
      ((∀ i, ui.selected = some i → i < ui.n) → 0 < ui.n → j < ui.n) := by
  unfold next lenMinus1
  cases hs : ui.selected with
  | none => exact ⟨0, by simp, by simp, by intros; omega⟩
  | some i =>
    simp only [if_true, Outcome.bind_ok]
    by_cases hi : i ≥ ui.n - 1
    · exact ⟨0, by simp [hi], by simp, by intros; omega⟩
    · have hlt : i + 1 < 2 ^ 64 := by omega
      refine ⟨i + 1, ?_, by omega, by intros; omega⟩
      simp only [hi, if_false, addU_ok hlt, Outcome.bind_ok]

theorem previous_ok (ui : Ui) :
    ∃ j, previous true ui = .ok { ui with selected := some j } ∧ (ui.n = 0 → ui.selected = some 0 ∨ ui.selected = none → j = 0) ∧
      ((∀ i, ui.selected = some i → i < ui.n) → 0 < ui.n → j < ui.n) := by
  unfold previous lenMinus1
  cases hs : ui.selected with
  | none => exact ⟨0, by simp, by simp, by intros; omega⟩
  | some i =>
    by_cases hi : i = 0
    · subst hi
      refine ⟨ui.n - 1, by simp [Outcome.bind_ok], by intros; omega, by intros; omega⟩
    · have hle : 1 ≤ i := by omega
      refine ⟨i - 1, ?_, ?_, ?_⟩
      · simp only [hi, if_false, subU_ok hle, Outcome.bind_ok]
      · intro _ h; rcases h with h | h <;> simp_all
      · intro h _; have := h i rfl; omega

/-- What any key does to the state: it never panics and either leaves the selection alone
    or sets it to an index `j` that is 0 on an empty table and in range when the old one was. -/
theorem updateKey_sel (ui : Ui) (k : Key) (hn : ui.n < 2 ^ 64) :
    ∃ ui', updateKey true ui k = .ok ui' ∧ ui'.n = ui.n ∧
      (ui'.selected = ui.selected ∨
        ∃ j, ui'.selected = some j ∧
          (ui.n = 0 → ui.selected = some 0 ∨ ui.selected = none → j = 0) ∧
          ((∀ i, ui.selected = some i → i < ui.n) → 0 < ui.n → j < ui.n)) := by
  have hnext : ∃ ui', next true ui = .ok ui' ∧ ui'.n = ui.n ∧
      (ui'.selected = ui.selected ∨
        ∃ j, ui'.selected = some j ∧
          (ui.n = 0 → ui.selected = some 0 ∨ ui.selected = none → j = 0) ∧
          ((∀ i, ui.selected = some i → i < ui.n) → 0 < ui.n → j < ui.n)) := by
    obtain ⟨j, h, h0, h1⟩ := next_ok ui hn
    exact ⟨_, h, rfl, .inr ⟨j, rfl, fun a _ => h0 a, h1⟩⟩
  have hprev : ∃ ui', previous true ui = .ok ui' ∧ ui'.n = ui.n ∧
      (ui'.selected = ui.selected ∨
        ∃ j, ui'.selected = some j ∧
          (ui.n = 0 → ui.selected = some 0 ∨ ui.selected = none → j = 0) ∧
          ((∀ i, ui.selected = some i → i < ui.n) → 0 < ui.n → j < ui.n)) := by
    obtain ⟨j, h, h0, h1⟩ := previous_ok ui
    exact ⟨_, h, rfl, .inr ⟨j, rfl, h0, h1⟩⟩
  have hhome : ∃ ui', home ui = .ok ui' ∧ ui'.n = ui.n ∧
      (ui'.selected = ui.selected ∨
        ∃ j, ui'.selected = some j ∧
          (ui.n = 0 → ui.selected = some 0 ∨ ui.selected = none → j = 0) ∧
          ((∀ i, ui.selected = some i → i < ui.n) → 0 < ui.n → j < ui.n)) :=
    ⟨_, rfl, rfl, .inr ⟨0, rfl, fun _ _ => rfl, fun _ h => h⟩⟩
  unfold updateKey
  split <;> first
    | exact hnext
    | exact hprev
    | exact hhome
    | exact ⟨_, rfl, rfl, .inl rfl⟩

theorem bind_eq_ok {α β} {x : Outcome α} {f : α → Outcome β} {b : β} (h : x.bind f = .ok b) :
    ∃ a, x = .ok a ∧ f a = .ok b := by
  cases x with
  | ok a => exact ⟨a, rfl, by rwa [Outcome.bind_ok] at h⟩
  | err e => rw [Outcome.bind_err] at h; cases h
  | panic s => rw [Outcome.bind_panic] at h; cases h

theorem next_shape (g : Bool) (ui ui' : Ui) (h : next g ui = .ok ui') :
    ∃ j, ui' = { ui with selected := some j } := by
  unfold next at h
  split at h
  · obtain ⟨last, _, h⟩ := bind_eq_ok h
    split at h
    · cases h; exact ⟨_, rfl⟩
    · obtain ⟨j, _, h⟩ := bind_eq_ok h
      cases h; exact ⟨_, rfl⟩
  · cases h; exact ⟨_, rfl⟩

theorem previous_shape (g : Bool) (ui ui' : Ui) (h : previous g ui = .ok ui') :
    ∃ j, ui' = { ui with selected := some j } := by
  unfold previous at h
  split at h
  · split at h
    · obtain ⟨last, _, h⟩ := bind_eq_ok h
      cases h; exact ⟨_, rfl⟩
    · obtain ⟨j, _, h⟩ := bind_eq_ok h
      cases h; exact ⟨_, rfl⟩
  · cases h; exact ⟨_, rfl⟩

theorem home_shape (ui ui' : Ui) (h : home ui = .ok ui') :
    ∃ j, ui' = { ui with selected := some j } := by
  cases h; exact ⟨_, rfl⟩

end Rs1090.Proofs.Tui
