/-
The address/parity formats (DF 0, 4, 5, 16, 20, 21) report the context handed to the `DF`
parser — the checksum — as `icao24`, the last field of the serialised message.
(Kept apart from CrcGate.lean: this is the only file that unfolds `Message.dfBody`.)
-/
import Rs1090.Proofs.CrcGate
namespace Rs1090.Proofs.Crc
open Rs1090 Rs1090.Spec.Crc Rs1090.Model Rs1090.Model.Message

/-! ### the `DF` parser reports its context as `icao24` for the address/parity formats -/

theorem bitsBE_df (b0 : Nat) (rest : List Nat) (h : b0 < 256) : bitsBE (b0 :: rest) 0 5 = b0 >>> 3 := by
  simp only [bitsBE, bitAt, Nat.zero_add, Nat.shiftRight_eq_div_pow]
  simp
  omega

theorem enumId5 (b0 : Nat) (rest : List Nat) (h : b0 < 256) :
    enumId 5 (Rd.init (b0 :: rest)) = .ok (b0 >>> 3, { bytes := b0 :: rest, p := 5, last := 5, nread := 5 }) := by
  simp [enumId, Model.bits, Rd.init, ceilDiv8, bitsBE_df b0 rest h]

/-- every successful run of `m` ends in a value satisfying `P` -/
def Ends {α} (P : α → Prop) (m : R α) : Prop := ∀ s v s', m s = .ok (v, s') → P v

theorem Ends_bind {α β} (P : β → Prop) (m : R α) (f : α → R β) (h : ∀ a, Ends P (f a)) :
    Ends P (m.bind f) := by
  intro s v s' hr
  simp only [R.bind] at hr
  split at hr
  · exact h _ _ _ _ hr
  · cases hr
  · cases hr

theorem Ends_pure {α} (P : α → Prop) (a : α) (h : P a) : Ends P (R.pure a) := by
  intro s v s' hr
  simp only [R.pure] at hr
  cases hr; exact h

/-- the serialised object, if there is one, ends with the field `icao24 = hex6(crc)` -/
def LastIcao (crc : Nat) (v : SerFields) : Prop :=
  ∀ fs, v = .ok fs → fs.getLast? = some (fld (key! "icao24") (jhex6 crc))

theorem lastIcao_withFields (crc : Nat) (pre : Fields) (b : SerFields) :
    LastIcao crc (withFields pre b [fld (key! "icao24") (jhex6 crc)]) := by
  intro fs h
  cases b with
  | error e => simp [withFields, Except.map] at h
  | ok x =>
    simp only [withFields, Except.map] at h
    cases h
    simp

/-- every address/parity variant of `DF` ends with `icao24 = hex6(context)` -/
theorem dfBody_last_icao (crc id : Nat)
    (hid : id = 0 ∨ id = 4 ∨ id = 5 ∨ id = 16 ∨ id = 20 ∨ id = 21) :
    Ends (LastIcao crc) (dfBody crc id) := by
  rcases hid with e | e | e | e | e | e <;> subst e <;> unfold dfBody <;>
    simp only [bind, pure]
  · iterate 3 (apply Ends_bind; intro _)
    apply Ends_pure; intro fs hfs
    injection hfs with hfs; subst hfs; simp
  · iterate 3 (apply Ends_bind; intro _)
    apply Ends_pure; intro fs hfs
    injection hfs with hfs; subst hfs; simp
  · iterate 3 (apply Ends_bind; intro _)
    apply Ends_pure; intro fs hfs
    injection hfs with hfs; subst hfs; simp
  · iterate 9 (apply Ends_bind; intro _)
    apply Ends_pure; intro fs hfs
    injection hfs with hfs; subst hfs; simp
  · iterate 4 (apply Ends_bind; intro _)
    apply Ends_pure
    exact lastIcao_withFields crc _ _
  · iterate 4 (apply Ends_bind; intro _)
    apply Ends_pure
    exact lastIcao_withFields crc _ _

theorem df_last_icao (crc b0 : Nat) (rest : List Nat) (h : b0 < 256)
    (hdf : b0 >>> 3 = 0 ∨ b0 >>> 3 = 4 ∨ b0 >>> 3 = 5 ∨ b0 >>> 3 = 16 ∨ b0 >>> 3 = 20 ∨ b0 >>> 3 = 21)
    (v : SerFields) (s : Rd) (hr : (df crc).run (b0 :: rest) = .ok (v, s)) : LastIcao crc v := by
  unfold df R.run at hr
  simp only [bind, R.bind] at hr
  rw [enumId5 b0 rest h] at hr
  exact dfBody_last_icao crc _ hdf _ _ _ hr

end Rs1090.Proofs.Crc
