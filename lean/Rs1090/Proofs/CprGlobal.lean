import Rs1090.Proofs.CprLocalSpec
/-!
Globally unambiguous decoding (`Model.Cpr.globalCore` / `airbornePosition`): a normal form without the
`Outcome` plumbing, then its evaluation on the two reports that the DO-260B encoder produces for one point.
-/
namespace Rs1090.Proofs.Cpr
open Rs1090 Rs1090.Model.Cpr Rs1090.Spec.Cpr

/-! ### normal form -/

def gJ (e o : Msg) : ℤ := ⌊59 * ((e.lat : ℚ) / cprMax) - 60 * ((o.lat : ℚ) / cprMax) + 1 / 2⌋

def wrap270 (x : ℚ) : ℚ := if x ≥ 270 then x - 360 else x
def wrap180 (x : ℚ) : ℚ := if x ≥ 180 then x - 360 else x

def gLatE (e o : Msg) : ℚ := wrap270 (dLatEven * (modulo (gJ e o : ℚ) 60 + (e.lat : ℚ) / cprMax))
def gLatO (e o : Msg) : ℚ := wrap270 (dLatOdd * (modulo (gJ e o : ℚ) 59 + (o.lat : ℚ) / cprMax))

def gM (e o : Msg) (lat : ℚ) : ℤ :=
  ⌊(e.lon : ℚ) / cprMax * ((nl lat - 1 : ℕ) : ℚ) - (o.lon : ℚ) / cprMax * (nl lat : ℚ) + 1 / 2⌋

def gLon (e o : Msg) (lat : ℚ) (p : ℕ) (c : ℚ) : ℚ :=
  wrap180 (360 / ((max (nl lat - p) 1 : ℕ) : ℚ) * (modulo (gM e o lat : ℚ) ((max (nl lat - p) 1 : ℕ) : ℚ) + c))

theorem globalCore_eq (e o l : Msg) :
    globalCore e o l =
      if (!(inLatRange (gLatE e o)) || !(inLatRange (gLatO e o))) = true then .ok none
      else if nl (gLatE e o) ≠ nl (gLatO e o) then .ok none
      else .ok (some ⟨if l = e then gLatE e o else gLatO e o,
        gLon e o (if l = e then gLatE e o else gLatO e o) (if l.parity = .even then 0 else 1)
          (if l.parity = .even then (e.lon : ℚ) / cprMax else (o.lon : ℚ) / cprMax)⟩) := by
  unfold globalCore
  simp only [ratFloor]
  have hp : ∀ x : ℚ, (if l.parity = Parity.even then 0 else 1) ≤ nl x := by
    intro x; have := nl_pos x; split <;> omega
  simp only [subU_ok (hp _), subU_ok (nl_pos _), Outcome.bind_ok]
  rfl

/-- `airborne_position`: the `match` on the two parities -/
theorem airbornePosition_eo (e o : Msg) (he : e.parity = .even) (ho : o.parity = .odd) :
    airbornePosition e o = globalCore e o o ∧ airbornePosition o e = globalCore e o e := by
  unfold airbornePosition
  simp [he, ho]

/-! ### arithmetic of the decoder's steps -/

theorem modulo_int (j : ℤ) (n : ℕ) : modulo (j : ℚ) (n : ℚ) = ((j % (n : ℤ) : ℤ) : ℚ) := by
  unfold modulo
  rw [ratFloor, floor_int_div]
  have : j % (n : ℤ) = j - (n : ℤ) * (j / (n : ℤ)) := by
    have := Int.emod_add_mul_ediv j (n : ℤ); linarith
  rw [this]
  push_cast
  ring

theorem modulo_60 (j : ℤ) : modulo (j : ℚ) 60 = ((j % 60 : ℤ) : ℚ) := by
  have := modulo_int j 60; simpa using this
theorem modulo_59 (j : ℤ) : modulo (j : ℚ) 59 = ((j % 59 : ℤ) : ℚ) := by
  have := modulo_int j 59; simpa using this

theorem dLatEven_eq : dLatEven = 6 := by
  unfold dLatEven Gen.Cpr.D_LAT_NUM Gen.Cpr.D_LAT_EVEN_DEN Gen.Cpr.NZ; norm_num
theorem dLatOdd_eq : dLatOdd = 360 / 59 := by
  unfold dLatOdd Gen.Cpr.D_LAT_NUM Gen.Cpr.D_LAT_ODD_DEN Gen.Cpr.NZ; norm_num

/-- bounds of the lattice index of a latitude in [-90, 90] -/
theorem rnd_bounds (d : ℚ) (hd : 0 < d) (K : ℤ) (hK : (90 : ℚ) / d = (K : ℚ) / 131072) (v : ℚ)
    (hv : -90 ≤ v ∧ v ≤ 90) : -K ≤ rnd (v / d) ∧ rnd (v / d) ≤ K := by
  constructor
  · have : ((-K : ℤ) : ℚ) / 131072 ≤ v / d := by
      have e : ((-K : ℤ) : ℚ) / 131072 = -90 / d := by push_cast; rw [neg_div, ← hK, neg_div]
      rw [e]; exact div_le_div_of_nonneg_right hv.1 (le_of_lt hd)
    calc -K = rnd (((-K : ℤ) : ℚ) / 131072) := (rnd_lattice (-K)).symm
      _ ≤ rnd (v / d) := rnd_mono this
  · have : v / d ≤ (K : ℚ) / 131072 := by rw [← hK]; exact div_le_div_of_nonneg_right hv.2 (le_of_lt hd)
    calc rnd (v / d) ≤ rnd ((K : ℚ) / 131072) := rnd_mono this
      _ = K := rnd_lattice K

/-- even latitude: `6·(j mod 60 + frac)` with the `≥ 270` wrap is the lattice latitude -/
theorem latE_wrap (T j : ℤ) (hT : -1966080 ≤ T ∧ T ≤ 1966080) (hj : j % 60 = (T / 131072) % 60) :
    wrap270 (6 * (((j % 60 : ℤ) : ℚ) + frac17 T)) = 6 * ((T : ℚ) / 131072) := by
  have hf0 := frac17_nonneg T
  have hf1 := frac17_lt_one T
  have hz := zone_add_frac17 T
  rw [hj]
  have hZ : -15 ≤ T / 131072 ∧ T / 131072 ≤ 15 := by omega
  by_cases h0 : 0 ≤ T / 131072
  · have : (T / 131072) % 60 = T / 131072 := by omega
    rw [this, hz]
    have hq : (T : ℚ) ≤ 1966080 := by exact_mod_cast hT.2
    unfold wrap270
    rw [if_neg]
    intro hge
    linarith
  · have : (T / 131072) % 60 = T / 131072 + 60 := by omega
    rw [this]
    push_cast
    have e : 6 * ((((T / 131072 : ℤ) : ℚ) + 60) + frac17 T) = 6 * ((T : ℚ) / 131072) + 360 := by
      rw [← hz]; ring
    rw [e]
    have hq : (-1966080 : ℚ) ≤ (T : ℚ) := by exact_mod_cast hT.1
    unfold wrap270
    rw [if_pos]
    · ring
    · linarith

/-- odd latitude: `(360/59)·(j mod 59 + frac)` with the `≥ 270` wrap is the lattice latitude -/
theorem latO_wrap (T j : ℤ) (hT : -1933312 ≤ T ∧ T ≤ 1933312) (hj : j % 59 = (T / 131072) % 59) :
    wrap270 (360 / 59 * (((j % 59 : ℤ) : ℚ) + frac17 T)) = 360 / 59 * ((T : ℚ) / 131072) := by
  have hf0 := frac17_nonneg T
  have hf1 := frac17_lt_one T
  have hz := zone_add_frac17 T
  rw [hj]
  have hZ : -15 ≤ T / 131072 ∧ T / 131072 ≤ 14 := by omega
  by_cases h0 : 0 ≤ T / 131072
  · have : (T / 131072) % 59 = T / 131072 := by omega
    rw [this, hz]
    have hq : (T : ℚ) ≤ 1933312 := by exact_mod_cast hT.2
    unfold wrap270
    rw [if_neg]
    intro hge
    linarith
  · have : (T / 131072) % 59 = T / 131072 + 59 := by omega
    rw [this]
    push_cast
    have e : 360 / 59 * ((((T / 131072 : ℤ) : ℚ) + 59) + frac17 T) = 360 / 59 * ((T : ℚ) / 131072) + 360 := by
      rw [← hz]; ring
    rw [e]
    have hq : (-1933312 : ℚ) ≤ (T : ℚ) := by exact_mod_cast hT.1
    unfold wrap270
    rw [if_pos]
    · ring
    · linarith

/-- longitude: `(360/k)·(zone mod k + frac)` with the `≥ 180` wrap is the lattice longitude reduced to
    [-180, 180) -/
theorem lon_wrap (W : ℤ) (k : ℕ) (hk : 0 < k) :
    wrap180 (360 / (k : ℚ) * ((((W / 131072) % (k : ℤ) : ℤ) : ℚ) + frac17 W))
      = norm180 (360 / (k : ℚ) * ((W : ℚ) / 131072)) := by
  have hf0 := frac17_nonneg W
  have hf1 := frac17_lt_one W
  have hz := zone_add_frac17 W
  have hkq : (0 : ℚ) < (k : ℚ) := by exact_mod_cast hk
  have hkz : (0 : ℤ) < (k : ℤ) := by exact_mod_cast hk
  set Z := W / 131072 with hZ
  have hr0 : 0 ≤ Z % (k : ℤ) := Int.emod_nonneg _ (ne_of_gt hkz)
  have hr1 : Z % (k : ℤ) < (k : ℤ) := Int.emod_lt_of_pos _ hkz
  have hdiv : Z = (k : ℤ) * (Z / (k : ℤ)) + Z % (k : ℤ) := (Int.mul_ediv_add_emod Z k).symm
  have hr0q : (0 : ℚ) ≤ ((Z % (k : ℤ) : ℤ) : ℚ) := by exact_mod_cast hr0
  have hr1q : ((Z % (k : ℤ) : ℤ) : ℚ) ≤ (k : ℚ) - 1 := by
    have : Z % (k : ℤ) ≤ (k : ℤ) - 1 := by omega
    exact_mod_cast this
  have hdivq : (Z : ℚ) = (k : ℚ) * ((Z / (k : ℤ) : ℤ) : ℚ) + ((Z % (k : ℤ) : ℤ) : ℚ) := by
    exact_mod_cast congrArg (Int.cast (R := ℚ)) hdiv
  set r : ℚ := ((Z % (k : ℤ) : ℤ) : ℚ) with hr
  set q : ℤ := Z / (k : ℤ) with hq
  set f := frac17 W with hf
  set lon0 : ℚ := 360 / (k : ℚ) * (r + f) with hlon0
  have hR : 360 / (k : ℚ) * ((W : ℚ) / 131072) = lon0 + 360 * (q : ℚ) := by
    rw [← hz, hdivq, hlon0]; field_simp; ring
  have hl0 : 0 ≤ lon0 := by rw [hlon0]; positivity
  have hl1 : lon0 < 360 := by
    rw [hlon0, div_mul_eq_mul_div, div_lt_iff₀ hkq]
    nlinarith
  unfold wrap180 norm180
  rw [ratFloor, hR]
  by_cases hge : lon0 ≥ 180
  · rw [if_pos hge]
    have : ⌊(lon0 + 360 * (q : ℚ) + 180) / 360⌋ = q + 1 := by
      rw [Int.floor_eq_iff]; push_cast
      constructor
      · rw [le_div_iff₀ (by norm_num)]; linarith
      · rw [div_lt_iff₀ (by norm_num)]; linarith
    rw [this]; push_cast; ring
  · rw [if_neg hge]
    have : ⌊(lon0 + 360 * (q : ℚ) + 180) / 360⌋ = q := by
      rw [Int.floor_eq_iff]
      constructor
      · rw [le_div_iff₀ (by norm_num)]; linarith
      · rw [div_lt_iff₀ (by norm_num)]; have := not_le.mp hge; linarith
    rw [this]; ring

/-! ### the longitude step on encoded reports -/

theorem zone_floor_model (n : ℕ) (hn : 2 ≤ n) (hn' : n ≤ 60) (za zb : ℚ)
    (h : ((n : ℚ) - 1) * za = n * zb) :
    ⌊frac17 (rnd za) * ((n - 1 : ℕ) : ℚ) - frac17 (rnd zb) * (n : ℚ) + 1 / 2⌋
      = (n : ℤ) * (rnd zb / 131072) - ((n : ℤ) - 1) * (rnd za / 131072) := by
  have hz := zone_floor (n : ℤ) (by exact_mod_cast hn) (by exact_mod_cast hn') za zb (by exact_mod_cast h)
  have hc : ((n - 1 : ℕ) : ℚ) = (n : ℚ) - 1 := by
    have : 1 ≤ n := by omega
    rw [Nat.cast_sub this]; simp
  rw [hc]
  rw [← hz]
  congr 1
  push_cast
  ring

theorem gLon_enc (e o : Msg) (lon latp : ℚ) (p : ℕ) (hp : p = 0 ∨ p = 1)
    (he : (e.lon : ℚ) / cprMax = frac17 (rnd (lon / (360 / ((max (nl latp - 0) 1 : ℕ) : ℚ)))))
    (ho : (o.lon : ℚ) / cprMax = frac17 (rnd (lon / (360 / ((max (nl latp - 1) 1 : ℕ) : ℚ))))) :
    gLon e o latp p (if p = 0 then (e.lon : ℚ) / cprMax else (o.lon : ℚ) / cprMax)
      = norm180 (360 / ((max (nl latp - p) 1 : ℕ) : ℚ)
          * ((rnd (lon / (360 / ((max (nl latp - p) 1 : ℕ) : ℚ))) : ℚ) / 131072)) := by
  obtain ⟨hn1, hn59⟩ := nl_range latp
  set n := nl latp with hn
  unfold gLon
  by_cases h1 : n = 1
  · -- one zone: the zone index is irrelevant
    have e0 : max (n - 0) 1 = 1 := by omega
    have e1 : max (n - 1) 1 = 1 := by omega
    have ep : max (n - p) 1 = 1 := by rcases hp with h | h <;> subst h <;> omega
    rw [e0] at he; rw [e1] at ho; rw [ep]
    have hm : modulo ((gM e o latp : ℤ) : ℚ) ((1 : ℕ) : ℚ) = 0 := by
      rw [modulo_int]; simp
    rw [hm]
    have hc : (if p = 0 then (e.lon : ℚ) / cprMax else (o.lon : ℚ) / cprMax)
        = frac17 (rnd (lon / (360 / ((1 : ℕ) : ℚ)))) := by
      rcases hp with h | h <;> subst h <;> simp [he, ho]
    rw [hc]
    have := lon_wrap (rnd (lon / (360 / ((1 : ℕ) : ℚ)))) 1 (by norm_num)
    simp only [Nat.cast_one, Int.emod_one, Int.cast_zero] at this ⊢
    exact this
  · have h2 : 2 ≤ n := by omega
    have e0 : max (n - 0) 1 = n := by omega
    have e1 : max (n - 1) 1 = n - 1 := by omega
    rw [e0] at he; rw [e1] at ho
    have hnq : (0 : ℚ) < (n : ℚ) := by exact_mod_cast (by omega : 0 < n)
    have hc1 : ((n - 1 : ℕ) : ℚ) = (n : ℚ) - 1 := by
      rw [Nat.cast_sub hn1]; simp
    have hn1q : (0 : ℚ) < (n : ℚ) - 1 := by
      have : (2 : ℚ) ≤ (n : ℚ) := by exact_mod_cast h2
      linarith
    set V0 := rnd (lon / (360 / (n : ℚ))) with hV0
    set V1 := rnd (lon / (360 / ((n - 1 : ℕ) : ℚ))) with hV1
    have hM : gM e o latp = (n : ℤ) * (V1 / 131072) - ((n : ℤ) - 1) * (V0 / 131072) := by
      unfold gM
      rw [← hn, he, ho]
      apply zone_floor_model n h2 (by omega)
      rw [hc1]
      field_simp
    rcases hp with h | h <;> subst h
    · -- latest report even: n zones
      rw [e0]
      simp only [if_true]
      rw [modulo_int, he]
      have : (gM e o latp) % (n : ℤ) = (V0 / 131072) % (n : ℤ) := by
        rw [hM]
        have : (n : ℤ) * (V1 / 131072) - ((n : ℤ) - 1) * (V0 / 131072)
            = V0 / 131072 + (n : ℤ) * (V1 / 131072 - V0 / 131072) := by ring
        rw [this, Int.add_mul_emod_self_left]
      rw [this]
      exact lon_wrap V0 n (by omega)
    · -- latest report odd: n − 1 zones
      rw [e1]
      simp only [one_ne_zero, if_false]
      rw [modulo_int, ho]
      have hcz : ((n - 1 : ℕ) : ℤ) = (n : ℤ) - 1 := by omega
      have : (gM e o latp) % ((n - 1 : ℕ) : ℤ) = (V1 / 131072) % ((n - 1 : ℕ) : ℤ) := by
        rw [hM, hcz]
        have : (n : ℤ) * (V1 / 131072) - ((n : ℤ) - 1) * (V0 / 131072)
            = V1 / 131072 + ((n : ℤ) - 1) * (V1 / 131072 - V0 / 131072) := by ring
        rw [this, Int.add_mul_emod_self_left]
      rw [this]
      exact lon_wrap V1 (n - 1) (by omega)

end Rs1090.Proofs.Cpr
