import Rs1090.Proofs.CprGlobal
/-!
C04, assembled: the even and the odd report that the DO-260B encoder produces for one point, decoded by the
model's `airbornePosition` in both orders.
-/
namespace Rs1090.Proofs.Cpr
open Rs1090 Rs1090.Model.Cpr Rs1090.Spec.Cpr

theorem report_lat17 (i : Nat) (hi : i ≤ 1) (lat lon : ℚ) :
    ((report 17 i lat lon).lat : ℚ) / cprMax = frac17 (rnd (lat / dlat i)) := by
  show (((yz 17 i lat % 131072).toNat : ℕ) : ℚ) / cprMax = _
  rw [yz_eq_fld]; exact field17 _ _ (ne_of_gt (dlat_pos i hi))

theorem report_lon17 (i : Nat) (lat lon : ℚ) :
    ((report 17 i lat lon).lon : ℚ) / cprMax
      = frac17 (rnd (lon / dlon i (rlat 17 i lat))) := by
  show (((xz 17 i (rlat 17 i lat) lon % 131072).toNat : ℕ) : ℚ) / cprMax = _
  rw [xz_eq_fld]; exact field17 _ _ (ne_of_gt (dlon_pos i _))

/-- the zone-index step `j` on the two reports of one point -/
theorem gJ_enc (lat lon : ℚ) :
    gJ (report 17 0 lat lon) (report 17 1 lat lon)
      = 60 * (rnd (lat / dlat 1) / 131072) - 59 * (rnd (lat / dlat 0) / 131072) := by
  unfold gJ
  rw [report_lat17 0 (by norm_num), report_lat17 1 (by norm_num)]
  have h := zone_floor 60 (by norm_num) (by norm_num) (lat / dlat 0) (lat / dlat 1)
    (by rw [dlat0, dlat1]; push_cast; field_simp; ring)
  norm_num at h
  exact h

/-- **latitude recovery**: for every latitude on the globe the decoder's `lat_even` / `lat_odd` (after the
    `≥ 270` wraps) are the encoder's `Rlat₀` / `Rlat₁`, and both lie in [-90, 90] -/
theorem lat_recovered (lat lon : ℚ) (hlat : -90 ≤ lat ∧ lat ≤ 90) :
    gLatE (report 17 0 lat lon) (report 17 1 lat lon) = rlat 17 0 lat ∧
    gLatO (report 17 0 lat lon) (report 17 1 lat lon) = rlat 17 1 lat ∧
    (-90 ≤ rlat 17 0 lat ∧ rlat 17 0 lat ≤ 90) ∧ (-90 ≤ rlat 17 1 lat ∧ rlat 17 1 lat ≤ 90) := by
  have hj := gJ_enc lat lon
  have b0 := rnd_bounds (dlat 0) (dlat_pos 0 (by norm_num)) 1966080 (by rw [dlat0]; norm_num) lat hlat
  have b1 := rnd_bounds (dlat 1) (dlat_pos 1 (by norm_num)) 1933312 (by rw [dlat1]; norm_num) lat hlat
  refine ⟨?_, ?_, rlat_range_air 0 (by norm_num) lat hlat, rlat_range_air 1 (by norm_num) lat hlat⟩
  · unfold gLatE
    rw [modulo_60, report_lat17 0 (by norm_num), dLatEven_eq,
      latE_wrap _ _ ⟨by omega, by omega⟩ (by rw [hj]; omega),
      rlat_eq_recv, recv17 _ _ (ne_of_gt (dlat_pos 0 (by norm_num))), dlat0]
  · unfold gLatO
    rw [modulo_59, report_lat17 1 (by norm_num), dLatOdd_eq,
      latO_wrap _ _ ⟨by omega, by omega⟩ (by rw [hj]; omega),
      rlat_eq_recv, recv17 _ _ (ne_of_gt (dlat_pos 1 (by norm_num))), dlat1]

theorem report_parity0 (nb : Nat) (lat lon : ℚ) : (report nb 0 lat lon).parity = .even := by simp [report]
theorem report_parity1 (nb : Nat) (lat lon : ℚ) : (report nb 1 lat lon).parity = .odd := by simp [report]

theorem report_ne (lat lon : ℚ) : report 17 1 lat lon ≠ report 17 0 lat lon := by
  intro h
  have := congrArg Msg.parity h
  rw [report_parity0, report_parity1] at this
  cases this

/-- normal form of the two decodings of an encoded pair -/
theorem airborne_enc (lat lon : ℚ) (hlat : -90 ≤ lat ∧ lat ≤ 90) :
    let e := report 17 0 lat lon
    let o := report 17 1 lat lon
    (airbornePosition e o =
      if NL (rlat 17 0 lat) ≠ NL (rlat 17 1 lat) then .ok none
      else .ok (some ⟨rlat 17 1 lat, gLon e o (rlat 17 1 lat) 1 ((o.lon : ℚ) / cprMax)⟩)) ∧
    (airbornePosition o e =
      if NL (rlat 17 0 lat) ≠ NL (rlat 17 1 lat) then .ok none
      else .ok (some ⟨rlat 17 0 lat, gLon e o (rlat 17 0 lat) 0 ((e.lon : ℚ) / cprMax)⟩)) := by
  intro e o
  obtain ⟨hE, hO, r0, r1⟩ := lat_recovered lat lon hlat
  have hpe : e.parity = .even := report_parity0 17 lat lon
  have hpo : o.parity = .odd := report_parity1 17 lat lon
  obtain ⟨a1, a2⟩ := airbornePosition_eo e o hpe hpo
  have i0 : inLatRange (rlat 17 0 lat) = true := (inLatRange_iff _).2 r0
  have i1 : inLatRange (rlat 17 1 lat) = true := (inLatRange_iff _).2 r1
  constructor
  · rw [a1, globalCore_eq, hE, hO, i0, i1, nl_eq_NL, nl_eq_NL]
    have : ¬ (o = e) := report_ne lat lon
    simp only [Bool.not_true, Bool.or_self, Bool.false_eq_true, if_false, this, hpo, reduceCtorEq]
  · rw [a2, globalCore_eq, hE, hO, i0, i1, nl_eq_NL, nl_eq_NL]
    simp only [Bool.not_true, Bool.or_self, Bool.false_eq_true, if_false, hpe, if_true]

/-- **global decoding is correct**: when the two recovered latitudes lie in the same NL band, both orders of
    the pair return the encoder's recovered position of the *later* report, longitude reduced to [-180, 180) -/
theorem global_correct (lat lon : ℚ) (hlat : -90 ≤ lat ∧ lat ≤ 90)
    (hnl : NL (rlat 17 0 lat) = NL (rlat 17 1 lat)) :
    airbornePosition (report 17 0 lat lon) (report 17 1 lat lon)
      = .ok (some ⟨rlat 17 1 lat, norm180 (rlon 17 1 (rlat 17 1 lat) lon)⟩) ∧
    airbornePosition (report 17 1 lat lon) (report 17 0 lat lon)
      = .ok (some ⟨rlat 17 0 lat, norm180 (rlon 17 0 (rlat 17 0 lat) lon)⟩) := by
  obtain ⟨h1, h2⟩ := airborne_enc lat lon hlat
  simp only [hnl, ne_eq, not_true_eq_false, if_false] at h1 h2
  have hn0 : nl (rlat 17 0 lat) = NL (rlat 17 0 lat) := nl_eq_NL _
  have hn1 : nl (rlat 17 1 lat) = NL (rlat 17 1 lat) := nl_eq_NL _
  -- the two longitude fields, in the form `gLon_enc` expects (at either recovered latitude)
  have le0 : ∀ latp, nl latp = NL (rlat 17 0 lat) →
      ((report 17 0 lat lon).lon : ℚ) / cprMax
        = frac17 (rnd (lon / (360 / ((max (nl latp - 0) 1 : ℕ) : ℚ)))) := by
    intro latp h; rw [report_lon17, dlon_eq, h]
  have lo1 : ∀ latp, nl latp = NL (rlat 17 1 lat) →
      ((report 17 1 lat lon).lon : ℚ) / cprMax
        = frac17 (rnd (lon / (360 / ((max (nl latp - 1) 1 : ℕ) : ℚ)))) := by
    intro latp h; rw [report_lon17, dlon_eq, h]
  constructor
  · rw [h1]
    have g := gLon_enc (report 17 0 lat lon) (report 17 1 lat lon) lon (rlat 17 1 lat) 1 (Or.inr rfl)
      (le0 _ (by rw [hn1, hnl])) (lo1 _ hn1)
    simp only [one_ne_zero, if_false] at g
    rw [g, rlon_eq_recv, recv17 _ _ (ne_of_gt (dlon_pos 1 _)), dlon_eq, hn1]
  · rw [h2]
    have g := gLon_enc (report 17 0 lat lon) (report 17 1 lat lon) lon (rlat 17 0 lat) 0 (Or.inl rfl)
      (le0 _ hn0) (lo1 _ (by rw [hn0, hnl]))
    simp only [if_true] at g
    rw [g, rlon_eq_recv, recv17 _ _ (ne_of_gt (dlon_pos 0 _)), dlon_eq, hn0]

/-- no position is returned exactly when the two recovered latitudes fall in different NL bands -/
theorem global_none_iff (lat lon : ℚ) (hlat : -90 ≤ lat ∧ lat ≤ 90) :
    (airbornePosition (report 17 0 lat lon) (report 17 1 lat lon) = .ok none
        ↔ NL (rlat 17 0 lat) ≠ NL (rlat 17 1 lat)) ∧
    (airbornePosition (report 17 1 lat lon) (report 17 0 lat lon) = .ok none
        ↔ NL (rlat 17 0 lat) ≠ NL (rlat 17 1 lat)) := by
  obtain ⟨h1, h2⟩ := airborne_enc lat lon hlat
  constructor
  · rw [h1]; split_ifs with h <;> simp [h]
  · rw [h2]; split_ifs with h <;> simp [h]

/-- `norm180` is a representative in [-180, 180) of the same meridian -/
theorem norm180_spec (x : ℚ) :
    -180 ≤ norm180 x ∧ norm180 x < 180 ∧ ∃ k : ℤ, norm180 x = x + 360 * k := by
  unfold norm180
  rw [ratFloor]
  have h1 := Int.floor_le ((x + 180) / 360)
  have h2 := Int.lt_floor_add_one ((x + 180) / 360)
  rw [le_div_iff₀ (by norm_num)] at h1
  rw [div_lt_iff₀ (by norm_num)] at h2
  refine ⟨by linarith, by linarith, -⌊(x + 180) / 360⌋, by push_cast; ring⟩

end Rs1090.Proofs.Cpr
