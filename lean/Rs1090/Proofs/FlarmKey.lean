/-
C15 helper lemmas: the key schedule of the model (i64 / u64 / u32 mixing of the Rust code, on ℕ)
is the `uint32_t` reference key schedule of the Spec.
-/
import Rs1090.Model.Flarm
import Rs1090.Spec.Flarm
namespace Rs1090.Proofs.Flarm
open Rs1090 Rs1090.Model.Flarm Rs1090.Gen.Flarm

theorem xorshift_lt (x n : Nat) (h : x < 2 ^ 32) : x ^^^ (x >>> n) < 2 ^ 32 := by
  apply Nat.xor_lt_two_pow h
  exact Nat.lt_of_le_of_lt (Nat.shiftRight_le x n) h

theorem obscure_spec (key seed : Nat) (hk : key < 2 ^ 32) (hs : seed < 2 ^ 32) :
    BitVec.ofNat 32 (obscure key seed)
      = Spec.Flarm.obscure (BitVec.ofNat 32 key) (BitVec.ofNat 32 seed) := by
  have e1 : ∀ x, (seed * x % 2 ^ 64) % 2 ^ 32 = seed * x % 2 ^ 32 :=
    fun x => Nat.mod_mod_of_dvd _ (by decide)
  have hm : ∀ x, seed * x % 2 ^ 32 < 2 ^ 32 := fun x => Nat.mod_lt _ (by decide)
  apply BitVec.eq_of_toNat_eq
  simp only [obscure, Spec.Flarm.obscure, OBS_SHR1, OBS_SHR2, OBS_SHR3, e1,
    BitVec.toNat_xor, BitVec.toNat_ushiftRight, BitVec.toNat_mul, BitVec.toNat_ofNat,
    Nat.mod_eq_of_lt hk, Nat.mod_eq_of_lt hs, Nat.mod_eq_of_lt (xorshift_lt _ 16 (hm _))]


theorem ofNat_shr (x n : Nat) (h : x < 2 ^ 32) :
    BitVec.ofNat 32 (x >>> n) = BitVec.ofNat 32 x >>> n := by
  apply BitVec.eq_of_toNat_eq
  simp only [BitVec.toNat_ushiftRight, BitVec.toNat_ofNat, Nat.mod_eq_of_lt h,
    Nat.mod_eq_of_lt (Nat.lt_of_le_of_lt (Nat.shiftRight_le x n) h)]

theorem keyWord_spec (time address tab : Nat) (ht : time < 2 ^ 32) (ha : address < 2 ^ 32)
    (htab : tab < 2 ^ 32) :
    keyWord time address tab
      = Spec.Flarm.obscure (BitVec.ofNat 32 tab ^^^ ((BitVec.ofNat 32 time >>> 6) ^^^ BitVec.ofNat 32 address))
          0x045D9F3B#32 ^^^ 0x87B562F4#32 := by
  have hsh : time >>> TIME_SHR < 2 ^ 32 := Nat.lt_of_le_of_lt (Nat.shiftRight_le _ _) ht
  have hK : tab ^^^ ((time >>> TIME_SHR) ^^^ address) < 2 ^ 32 :=
    Nat.xor_lt_two_pow htab (Nat.xor_lt_two_pow hsh ha)
  unfold keyWord
  rw [BitVec.ofNat_xor, obscure_spec _ _ hK (by decide), BitVec.ofNat_xor, BitVec.ofNat_xor,
    show TIME_SHR = 6 from rfl, ofNat_shr _ _ ht]
  rfl

/-- **`make_key` of flarm.rs is the reference key schedule** (time stamp `u32`, address `u32`). -/
theorem makeKey_spec (time address : Nat) (ht : time < 2 ^ 32) (ha : address < 2 ^ 32) :
    makeKey time address = Spec.Flarm.makeKey (BitVec.ofNat 32 time) (BitVec.ofNat 32 address) := by
  have hb : ((time >>> TABLE_SHR) &&& TABLE_MASK1) &&& TABLE_MASK2 = (time >>> 23) % 2 := by
    show ((time >>> 23) &&& 255) &&& 1 = _
    rw [Nat.and_assoc, show (255 &&& 1 : Nat) = 1 from rfl, Nat.and_one_is_mod]
  have hs : (BitVec.ofNat 32 time >>> 23) &&& 1#32 = BitVec.ofNat 32 ((time >>> 23) % 2) := by
    apply BitVec.eq_of_toNat_eq
    simp only [BitVec.toNat_and, BitVec.toNat_ushiftRight, BitVec.toNat_ofNat, Nat.mod_eq_of_lt ht,
      Nat.reducePow, Nat.reduceMod, Nat.and_one_is_mod]
    omega
  unfold makeKey Spec.Flarm.makeKey
  rw [hb, hs]
  rcases Nat.mod_two_eq_zero_or_one (time >>> 23) with h | h <;> rw [h]
  · simp only [bne_self_eq_false, Bool.false_eq_true, if_false,
      show ¬ (BitVec.ofNat 32 0 = 1#32) by decide, KEY1, Spec.Flarm.table0, List.map_cons, List.map_nil,
      keyWord_spec time address _ ht ha (by decide : (3828512479 : Nat) < 2 ^ 32),
      keyWord_spec time address _ ht ha (by decide : (3702011737 : Nat) < 2 ^ 32),
      keyWord_spec time address _ ht ha (by decide : (2550315180 : Nat) < 2 ^ 32),
      keyWord_spec time address _ ht ha (by decide : (1182115179 : Nat) < 2 ^ 32)]
  · simp only [show ((1 : Nat) != 0) = true from rfl, if_true, KEY1B, Spec.Flarm.table1, List.map_cons, List.map_nil,
      keyWord_spec time address _ ht ha (by decide : (4235782757 : Nat) < 2 ^ 32),
      keyWord_spec time address _ ht ha (by decide : (2152435946 : Nat) < 2 ^ 32),
      keyWord_spec time address _ ht ha (by decide : (3076866765 : Nat) < 2 ^ 32),
      keyWord_spec time address _ ht ha (by decide : (849214002 : Nat) < 2 ^ 32)]

theorem makeKey_length (time address : Nat) : (makeKey time address).length = 4 := by
  unfold makeKey
  split <;> simp only [List.length_map, KEY1, KEY1B, List.length_cons, List.length_nil]

end Rs1090.Proofs.Flarm
