import Rs1090.Proofs.CprEnc
/-!
Single-report decoding against a reference (`Model.Cpr.withRef`): a normal form without the `Outcome`
plumbing (the checked `nl(lat) − 1` never underflows because `nl ≥ 1`), the "near the reference" clause
for arbitrary inputs, and exact recovery of an encoded position.
-/
namespace Rs1090.Proofs.Cpr
open Rs1090 Rs1090.Model.Cpr

theorem nl_range (x : ℚ) : 1 ≤ nl x ∧ nl x ≤ 59 := by
  unfold nl
  exact nlGo_range 1 59 _ _ _ (by decide)

theorem nl_pos (x : ℚ) : 1 ≤ nl x := (nl_range x).1

/-- format index of a report: 0 even, 1 odd -/
def fmt (m : Msg) : ℕ := if m.parity = .even then 0 else 1

/-- latitude zone size used by `withRef full` for this report -/
def dLatOf (full : ℚ) (m : Msg) : ℚ := if m.parity = .even then full / 60 else full / 59

/-- number of longitude zones at latitude `lat` for format `i`: `max(nl(lat) − i, 1)` -/
def niOf (i : ℕ) (lat : ℚ) : ℕ := max (nl lat - i) 1

def latOf (full : ℚ) (m : Msg) (latRef : ℚ) : ℚ :=
  dLatOf full m * ((⌊1 / 2 + latRef / dLatOf full m - (m.lat : ℚ) / cprMax⌋ : ℚ) + (m.lat : ℚ) / cprMax)

def dLonOf (full : ℚ) (m : Msg) (lat : ℚ) : ℚ := full / (niOf (fmt m) lat : ℚ)

def lonOf (full : ℚ) (m : Msg) (lat lonRef : ℚ) : ℚ :=
  dLonOf full m lat *
    ((⌊1 / 2 + lonRef / dLonOf full m lat - (m.lon : ℚ) / cprMax⌋ : ℚ) + (m.lon : ℚ) / cprMax)

theorem niOf_pos (i : ℕ) (lat : ℚ) : (0 : ℚ) < (niOf i lat : ℚ) := by
  have : 1 ≤ niOf i lat := le_max_right _ _
  exact_mod_cast this

/-- **normal form of `withRef`** — in particular it never panics and never divides by zero -/
theorem withRef_eq (full : ℚ) (m : Msg) (latRef lonRef : ℚ) :
    withRef full m latRef lonRef =
      if inLatRange (latOf full m latRef) = false then .ok none
      else if |latOf full m latRef - latRef| > dLatOf full m / 2 then .ok none
      else if |lonOf full m (latOf full m latRef) lonRef - lonRef|
                > dLonOf full m (latOf full m latRef) / 2 then .ok none
      else .ok (some ⟨latOf full m latRef, lonOf full m (latOf full m latRef) lonRef⟩) := by
  have hnl := nl_pos (latOf full m latRef)
  unfold withRef
  simp only [fabs_eq_abs, ratFloor]
  rcases hp : m.parity with _ | _
  · -- even: ni = nl(lat) > 0
    have hd : dLatOf full m = full / 60 := by simp [dLatOf, hp]
    have hni : niOf (fmt m) (latOf full m latRef) = nl (latOf full m latRef) := by
      simp only [niOf, fmt, hp, if_true, Nat.sub_zero]; omega
    have hlat : latOf full m latRef
        = full / 60 * ((⌊1 / 2 + latRef / (full / 60) - (m.lat : ℚ) / cprMax⌋ : ℚ) + (m.lat : ℚ) / cprMax) := by
      simp only [latOf, hd]
    simp only [if_true, Outcome.bind_ok, ← hlat]
    have hgt : nl (latOf full m latRef) > 0 := hnl
    simp only [hgt, if_true]
    simp only [lonOf, dLonOf, hni, hd]
    cases inLatRange (latOf full m latRef) <;> simp
  · -- odd: ni = nl(lat) − 1, checked
    have hd : dLatOf full m = full / 59 := by simp [dLatOf, hp]
    have hlat : latOf full m latRef
        = full / 59 * ((⌊1 / 2 + latRef / (full / 59) - (m.lat : ℚ) / cprMax⌋ : ℚ) + (m.lat : ℚ) / cprMax) := by
      simp only [latOf, hd]
    simp only [reduceCtorEq, if_false, ← hlat]
    rw [subU_ok hnl]
    simp only [Outcome.bind_ok]
    have hdl : (if nl (latOf full m latRef) - 1 > 0 then full / ((nl (latOf full m latRef) - 1 : ℕ) : ℚ) else full)
        = dLonOf full m (latOf full m latRef) := by
      simp only [dLonOf, niOf, fmt, hp, reduceCtorEq, if_false]
      by_cases h : nl (latOf full m latRef) - 1 > 0
      · have : max (nl (latOf full m latRef) - 1) 1 = nl (latOf full m latRef) - 1 := by omega
        rw [if_pos h, this]
      · have : max (nl (latOf full m latRef) - 1) 1 = 1 := by omega
        rw [if_neg h, this]; simp
    simp only [hdl]
    simp only [lonOf, hd]
    cases inLatRange (latOf full m latRef) <;> simp

theorem dLatOf_pos (full : ℚ) (hf : 0 < full) (m : Msg) : 0 < dLatOf full m := by
  unfold dLatOf; split <;> positivity

theorem dLonOf_pos (full : ℚ) (hf : 0 < full) (m : Msg) (lat : ℚ) : 0 < dLonOf full m lat := by
  unfold dLonOf
  have := niOf_pos (fmt m) lat
  positivity

/-- never a panic, for any field values and any reference -/
theorem withRef_ne_panic (full : ℚ) (m : Msg) (latRef lonRef : ℚ) (s : Site) :
    withRef full m latRef lonRef ≠ .panic s := by
  rw [withRef_eq]
  split_ifs <;> simp

theorem inLatRange_iff (x : ℚ) : inLatRange x = true ↔ -90 ≤ x ∧ x ≤ 90 := by
  simp [inLatRange]

/-- **near the reference**: whatever the report and the reference, a returned position has its latitude
    in [-90, 90] and is within half a zone of the reference in both coordinates. -/
theorem withRef_near (full : ℚ) (m : Msg) (latRef lonRef : ℚ) (p : Pos)
    (h : withRef full m latRef lonRef = .ok (some p)) :
    -90 ≤ p.lat ∧ p.lat ≤ 90 ∧ |p.lat - latRef| ≤ dLatOf full m / 2 ∧
      |p.lon - lonRef| ≤ dLonOf full m p.lat / 2 := by
  rw [withRef_eq] at h
  split_ifs at h with h1 h2 h3
  · simp at h
  · simp at h
  · simp at h
  simp only [Outcome.ok.injEq, Option.some.injEq] at h
  subst h
  have h1' : inLatRange (latOf full m latRef) = true := by simpa using h1
  rw [inLatRange_iff] at h1'
  exact ⟨h1'.1, h1'.2, not_lt.mp h2, not_lt.mp h3⟩

/-- **exact recovery**: if the report carries the lattice indices `T` (latitude, zone size `dLat`) and `V`
    (longitude, zone size `dLon` at the lattice latitude) of a position whose lattice point is strictly
    within half a zone of the reference in both coordinates and lies in [-90, 90], `withRef` returns exactly
    that lattice point. -/
theorem withRef_exact (full : ℚ) (hf : 0 < full) (m : Msg) (latRef lonRef : ℚ) (T V : ℤ)
    (hlatf : (m.lat : ℚ) / cprMax = frac17 T) (hlonf : (m.lon : ℚ) / cprMax = frac17 V)
    (hrange : -90 ≤ dLatOf full m * ((T : ℚ) / 131072) ∧ dLatOf full m * ((T : ℚ) / 131072) ≤ 90)
    (hlat : |dLatOf full m * ((T : ℚ) / 131072) - latRef| < dLatOf full m / 2)
    (hlon : |dLonOf full m (dLatOf full m * ((T : ℚ) / 131072)) * ((V : ℚ) / 131072) - lonRef|
              < dLonOf full m (dLatOf full m * ((T : ℚ) / 131072)) / 2) :
    withRef full m latRef lonRef =
      .ok (some ⟨dLatOf full m * ((T : ℚ) / 131072),
                 dLonOf full m (dLatOf full m * ((T : ℚ) / 131072)) * ((V : ℚ) / 131072)⟩) := by
  have hd := dLatOf_pos full hf m
  have e1 : latOf full m latRef = dLatOf full m * ((T : ℚ) / 131072) := by
    unfold latOf
    rw [hlatf, local_zone _ hd T latRef hlat, zone_add_frac17]
  have hdl := dLonOf_pos full hf m (dLatOf full m * ((T : ℚ) / 131072))
  have e2 : lonOf full m (dLatOf full m * ((T : ℚ) / 131072)) lonRef
      = dLonOf full m (dLatOf full m * ((T : ℚ) / 131072)) * ((V : ℚ) / 131072) := by
    unfold lonOf
    rw [hlonf, local_zone _ hdl V lonRef hlon, zone_add_frac17]
  rw [withRef_eq, e1, e2]
  have r : inLatRange (dLatOf full m * ((T : ℚ) / 131072)) = true := (inLatRange_iff _).2 hrange
  rw [if_neg (by simp [r]), if_neg (not_lt.mpr (le_of_lt hlat)), if_neg (not_lt.mpr (le_of_lt hlon))]

end Rs1090.Proofs.Cpr
