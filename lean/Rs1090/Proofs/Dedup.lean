/-
Helper lemmas for C10 (Props/C10.lean): the byte order of frames, the heap minimum, the cache
operations, and the expiry loop.
-/
import Rs1090.Model.Dedup
import Rs1090.Spec.Dedup
namespace Rs1090.Dedup
open Rs1090.Spec.Dedup (firstT closes WellFormed)

/-! ### What the proofs need of the operators generated from dedup.rs (`Gen/Dedup.lean`)

These three lemmas are where a changed operator or constant of `deduplicate_messages` stops the proofs
(they are restated as `Props/C10.lean: jet_loop_as_modelled`). -/

theorem notExpired_eq (curtime t : Nat) : Gen.Dedup.Jet.notExpired curtime t = decide (t < curtime) := by
  simp [Gen.Dedup.Jet.notExpired]

theorem expiry_eq (t w : Nat) : Gen.Dedup.Jet.expiry t w = t + w := rfl

theorem isFirst_eq (len : Nat) : Gen.Dedup.Jet.isFirst len = decide (len = 1) := rfl

/-! ### `frameLt` / `keyLt` are strict total orders -/

theorem frameLt_irrefl : ∀ a : Frame, frameLt a a = false
  | [] => rfl
  | x :: xs => by simp [frameLt, frameLt_irrefl xs]

theorem frameLt_trans : ∀ a b c : Frame, frameLt a b = true → frameLt b c = true → frameLt a c = true
  | [], [], _ => by simp [frameLt]
  | [], _ :: _, [] => by simp [frameLt]
  | [], _ :: _, _ :: _ => by simp [frameLt]
  | _ :: _, [], _ => by simp [frameLt]
  | _ :: _, _ :: _, [] => by simp [frameLt]
  | x :: xs, y :: ys, z :: zs => by
    simp only [frameLt, Bool.or_eq_true, Bool.and_eq_true, decide_eq_true_eq, beq_iff_eq]
    intro h1 h2
    rcases h1 with h1 | ⟨rfl, h1⟩ <;> rcases h2 with h2 | ⟨rfl, h2⟩
    · left; omega
    · left; exact h1
    · left; exact h2
    · right; exact ⟨rfl, frameLt_trans xs ys zs h1 h2⟩

theorem frameLt_tri : ∀ a b : Frame, frameLt a b = false → frameLt b a = false → a = b
  | [], [] => by simp
  | [], _ :: _ => by simp [frameLt]
  | _ :: _, [] => by simp [frameLt]
  | x :: xs, y :: ys => by
    simp only [frameLt, Bool.or_eq_false_iff, Bool.and_eq_false_imp, decide_eq_false_iff_not,
      beq_iff_eq]
    intro ⟨h1, h2⟩ ⟨h3, h4⟩
    have : x = y := by omega
    subst this
    rw [frameLt_tri xs ys (h2 rfl) (h4 rfl)]

theorem keyLt_irrefl (a : Key) : keyLt a a = false := by
  simp [keyLt, frameLt_irrefl]

theorem keyLt_trans {a b c : Key} (h1 : keyLt a b = true) (h2 : keyLt b c = true) :
    keyLt a c = true := by
  simp only [keyLt, Bool.or_eq_true, Bool.and_eq_true, decide_eq_true_eq, beq_iff_eq] at *
  rcases h1 with h1 | ⟨e1, h1⟩ <;> rcases h2 with h2 | ⟨e2, h2⟩
  · left; omega
  · left; omega
  · left; omega
  · right; exact ⟨by omega, frameLt_trans _ _ _ h1 h2⟩

theorem keyLt_tri {a b : Key} (h1 : keyLt a b = false) (h2 : keyLt b a = false) : a = b := by
  simp only [keyLt, Bool.or_eq_false_iff, Bool.and_eq_false_imp, decide_eq_false_iff_not,
    beq_iff_eq] at *
  have e : a.1 = b.1 := by omega
  exact Prod.ext e (frameLt_tri _ _ (h1.2 e) (h2.2 e.symm))

theorem keyLt_asymm {a b : Key} (h : keyLt a b = true) : keyLt b a = false := by
  cases h' : keyLt b a
  · rfl
  · have := keyLt_trans h h'; rw [keyLt_irrefl] at this; cases this

/-- `a < b` and `¬ c < b` (i.e. `b ≤ c`) give `a < c` -/
theorem keyLt_of_lt_of_not_lt {a b c : Key} (h1 : keyLt a b = true) (h2 : keyLt c b = false) :
    keyLt a c = true := by
  cases h3 : keyLt b c
  · have := keyLt_tri h3 h2; subst this; exact h1
  · exact keyLt_trans h1 h3

theorem keyLt_fst_le {a b : Key} (h : keyLt a b = false) : b.1 ≤ a.1 := by
  simp only [keyLt, Bool.or_eq_false_iff, decide_eq_false_iff_not] at h
  omega

/-! ### the heap: `pop()` removes a least element -/

theorem minKey_spec : ∀ (xs : List Key) (m : Key),
    minKey m xs ∈ m :: xs ∧ ∀ x ∈ m :: xs, keyLt x (minKey m xs) = false
  | [], m => by simp [minKey, keyLt_irrefl]
  | x :: xs, m => by
    simp only [minKey]
    have ih := minKey_spec xs (if keyLt x m = true then x else m)
    generalize hr : minKey (if keyLt x m = true then x else m) xs = r at ih
    obtain ⟨hmem, hmin⟩ := ih
    by_cases hx : keyLt x m = true
    · simp only [hx, if_true] at hmem hmin
      refine ⟨?_, ?_⟩
      · simp only [List.mem_cons] at hmem ⊢; rcases hmem with h | h <;> simp [h]
      · intro y hy
        simp only [List.mem_cons] at hy
        rcases hy with rfl | rfl | hy
        · -- y = m: if m < r then x < m < r
          cases h : keyLt y r
          · rfl
          · have := keyLt_trans hx h
            rw [hmin x (by simp)] at this; cases this
        · exact hmin _ (by simp)
        · exact hmin y (by simp [hy])
    · simp only [hx] at hmem hmin
      have hx' : keyLt x m = false := by simpa using hx
      refine ⟨?_, ?_⟩
      · simp only [List.mem_cons] at hmem ⊢; rcases hmem with h | h <;> simp [h]
      · intro y hy
        simp only [List.mem_cons] at hy
        rcases hy with rfl | rfl | hy
        · exact hmin _ (by simp)
        · -- y = x: if x < r then (r ≤ m) x < m
          cases h : keyLt y r
          · rfl
          · have := keyLt_of_lt_of_not_lt h (hmin m (by simp))
            rw [hx'] at this; cases this
        · exact hmin y (by simp [hy])

theorem popMin_none {h : Heap} : popMin h = none ↔ h = [] := by
  cases h <;> simp [popMin]

theorem popMin_some {h h' : Heap} {k : Key} (e : popMin h = some (k, h')) :
    k ∈ h ∧ h' = h.erase k ∧ ∀ x ∈ h, keyLt x k = false := by
  cases h with
  | nil => simp [popMin] at e
  | cons x xs =>
    simp only [popMin, Option.some.injEq, Prod.mk.injEq] at e
    obtain ⟨rfl, rfl⟩ := e
    exact ⟨(minKey_spec xs x).1, rfl, (minKey_spec xs x).2⟩

/-! ### the cache as an association list -/

/-- the frames that have an open group -/
def keys (c : Cache) : List Frame := c.map (·.1)

theorem push_eq_join : ∀ (c : Cache) (a : Arrival), push c a = Spec.Dedup.join c a
  | [], a => rfl
  | (f, ms) :: rest, a => by
    simp only [push, Spec.Dedup.join]
    split
    · rfl
    · rw [push_eq_join rest a]

theorem split_first {c : Cache} {k : Frame} (h : k ∈ keys c) :
    ∃ l ms r, c = l ++ (k, ms) :: r ∧ k ∉ keys l := by
  induction c with
  | nil => simp [keys] at h
  | cons g c ih =>
    obtain ⟨f, ms⟩ := g
    by_cases e : f = k
    · subst e; exact ⟨[], ms, c, rfl, by simp [keys]⟩
    · have : k ∈ keys c := by
        simp only [keys, List.map_cons, List.mem_cons] at h
        rcases h with h | h
        · exact absurd h.symm e
        · exact h
      obtain ⟨l, ms', r, rfl, hl⟩ := ih this
      refine ⟨(f, ms) :: l, ms', r, rfl, ?_⟩
      simp only [keys, List.map_cons, List.mem_cons, not_or]
      exact ⟨fun h => e h.symm, hl⟩

theorem get_split : ∀ (l : Cache) {k : Frame} {ms : List Arrival} {r : Cache}, k ∉ keys l →
    get (l ++ (k, ms) :: r) k = some ms
  | [], k, ms, r, _ => by simp [get]
  | (f, m) :: l, k, ms, r, h => by
    simp only [keys, List.map_cons, List.mem_cons, not_or] at h
    have : ¬ f = k := fun e => h.1 e.symm
    simp only [List.cons_append, get, this, if_false]
    exact get_split l h.2

theorem get_none : ∀ (c : Cache) {k : Frame}, k ∉ keys c → get c k = none
  | [], _, _ => rfl
  | (f, m) :: c, k, h => by
    simp only [keys, List.map_cons, List.mem_cons, not_or] at h
    have : ¬ f = k := fun e => h.1 e.symm
    simp only [get, this, if_false]
    exact get_none c h.2

theorem remove_split : ∀ (l : Cache) {k : Frame} {ms : List Arrival} {r : Cache}, k ∉ keys l →
    remove (l ++ (k, ms) :: r) k = some (ms, l ++ r)
  | [], k, ms, r, _ => by simp [remove]
  | (f, m) :: l, k, ms, r, h => by
    simp only [keys, List.map_cons, List.mem_cons, not_or] at h
    have : ¬ f = k := fun e => h.1 e.symm
    simp only [List.cons_append, remove, this, if_false, remove_split l h.2]

theorem remove_none : ∀ (c : Cache) {k : Frame}, k ∉ keys c → remove c k = none
  | [], _, _ => rfl
  | (f, m) :: c, k, h => by
    simp only [keys, List.map_cons, List.mem_cons, not_or] at h
    have : ¬ f = k := fun e => h.1 e.symm
    simp only [remove, this, if_false, remove_none c h.2]

theorem push_new : ∀ (c : Cache) {a : Arrival}, a.frame ∉ keys c →
    push c a = c ++ [(a.frame, [a])]
  | [], _, _ => rfl
  | (f, m) :: c, a, h => by
    simp only [keys, List.map_cons, List.mem_cons, not_or] at h
    have : ¬ f = a.frame := fun e => h.1 e.symm
    simp only [push, this, if_false, List.cons_append, push_new c h.2]

theorem push_split : ∀ (l : Cache) {a : Arrival} {ms : List Arrival} {r : Cache}, a.frame ∉ keys l →
    push (l ++ (a.frame, ms) :: r) a = l ++ (a.frame, ms ++ [a]) :: r
  | [], a, ms, r, _ => by simp [push]
  | (f, m) :: l, a, ms, r, h => by
    simp only [keys, List.map_cons, List.mem_cons, not_or] at h
    have : ¬ f = a.frame := fun e => h.1 e.symm
    simp only [List.cons_append, push, this, if_false, push_split l h.2]

theorem eq_of_key_eq : ∀ {c : Cache}, (keys c).Nodup → ∀ {g h : Group}, g ∈ c → h ∈ c → g.1 = h.1 → g = h
  | [], _, _, _, hg, _, _ => by cases hg
  | x :: c, hn, g, h, hg, hh, e => by
    simp only [keys, List.map_cons, List.nodup_cons] at hn
    simp only [List.mem_cons] at hg hh
    rcases hg with rfl | hg <;> rcases hh with rfl | hh
    · rfl
    · exact absurd (List.mem_map.mpr ⟨h, hh, e.symm⟩) hn.1
    · exact absurd (List.mem_map.mpr ⟨g, hg, e⟩) hn.1
    · exact eq_of_key_eq (c := c) hn.2 hg hh e

/-! ### the invariant -/

/-- the heap entry of an open group: expiry = time of its first member + w -/
def keyOf (w : Nat) (g : Group) : Key := (firstT g + w, g.1)

/-- Heap entries and open groups correspond one to one (`heap` is a permutation of the keys of the
    cache entries, expiry = first member's time + w); there is one open group per frame; every
    group is non-empty and its members carry the frame it is filed under. -/
structure Inv (w : Nat) (s : State) : Prop where
  heap : s.heap.Perm (s.cache.map (keyOf w))
  nodup : (keys s.cache).Nodup
  wf : ∀ g ∈ s.cache, WellFormed g

theorem inv_init (w : Nat) : Inv w init :=
  ⟨List.Perm.nil, List.nodup_nil, fun _ h => by cases h⟩

/-! ### the expiry loop -/

theorem closes_iff {w t : Nat} {g : Group} : closes w t g = true ↔ (keyOf w g).1 ≤ t := by
  simp [closes, keyOf]

theorem closes_false_iff {w t : Nat} {g : Group} : closes w t g = false ↔ t < (keyOf w g).1 := by
  simp [closes, keyOf]

theorem expire_spec (w t : Nat) : ∀ (n : Nat) (s : State), Inv w s → s.heap.length < n →
    Inv w (expire t n s).1 ∧
    (expire t n s).1.cache = s.cache.filter (fun g => !closes w t g) ∧
    ((expire t n s).2 ++ (expire t n s).1.cache).Perm s.cache ∧
    (∀ g ∈ (expire t n s).2, closes w t g = true) ∧
    (expire t n s).2.Pairwise (fun g h => keyLt (keyOf w g) (keyOf w h) = true) := by
  intro n
  induction n with
  | zero => intro s _ h; omega
  | succ n ih =>
    intro s hinv hlen
    obtain ⟨c, h⟩ := s
    simp only [expire, notExpired_eq, decide_eq_true_eq]
    cases hp : popMin h with
    | none =>
      have hh : h = [] := popMin_none.mp hp
      have hc : c = [] := by
        have := hinv.heap; simp only [hh] at this
        simpa using this.symm.eq_nil
      subst hh hc
      simp [hinv]
    | some kh =>
      obtain ⟨k, h'⟩ := kh
      obtain ⟨hk, rfl, hmin⟩ := popMin_some hp
      simp only
      by_cases ht : t < k.1
      · simp only [ht, if_true]
        have hall : ∀ g ∈ c, closes w t g = false := by
          intro g hg
          have : keyOf w g ∈ h := hinv.heap.mem_iff.mpr (List.mem_map.mpr ⟨g, hg, rfl⟩)
          have := keyLt_fst_le (hmin _ this)
          exact closes_false_iff.mpr (by omega)
        refine ⟨⟨?_, hinv.nodup, hinv.wf⟩, ?_, ?_, ?_, ?_⟩
        · exact (List.perm_cons_erase hk).symm.trans hinv.heap
        · rw [List.filter_eq_self.mpr]
          intro g hg; simp [hall g hg]
        · simp
        · simp
        · simp
      · simp only [ht, if_false]
        have hkm : k ∈ c.map (keyOf w) := hinv.heap.mem_iff.mp hk
        obtain ⟨g, hg, hgk⟩ := List.mem_map.mp hkm
        have hkeys : k.2 ∈ keys c := List.mem_map.mpr ⟨g, hg, by rw [← hgk]; rfl⟩
        obtain ⟨l, ms, r, hc, hl⟩ := split_first hkeys
        have hg' : g = (k.2, ms) :=
          eq_of_key_eq hinv.nodup hg (by rw [hc]; simp) (by rw [← hgk]; rfl)
        subst hc
        rw [remove_split l hl]
        simp only
        have hkey : keyOf w (k.2, ms) = k := by rw [← hg']; exact hgk
        -- the state after removing the group
        have hinv' : Inv w ⟨l ++ r, h.erase k⟩ := by
          refine ⟨?_, ?_, ?_⟩
          · have h1 : (k :: h.erase k).Perm (k :: (l ++ r).map (keyOf w)) := by
              refine (List.perm_cons_erase hk).symm.trans (hinv.heap.trans ?_)
              simp only [List.map_append, List.map_cons, hkey]
              exact List.perm_middle
            exact h1.cons_inv
          · have := hinv.nodup
            simp only [keys, List.map_append, List.map_cons] at this ⊢
            exact this.sublist (List.Sublist.append_left (List.sublist_cons_self _ _) _)
          · intro x hx
            apply hinv.wf
            simp only [List.mem_append, List.mem_cons] at hx ⊢
            rcases hx with hx | hx <;> simp [hx]
        have hlen' : (h.erase k).length < n := by
          have h1 : h.length < n + 1 := hlen
          have h2 : 0 < h.length := List.length_pos_of_mem hk
          show (h.erase k).length < n
          rw [List.length_erase_of_mem hk]; omega
        obtain ⟨i1, i2, i3, i4, i5⟩ := ih ⟨l ++ r, h.erase k⟩ hinv' hlen'
        have hcl : closes w t (k.2, ms) = true := closes_iff.mpr (by rw [hkey]; omega)
        refine ⟨i1, ?_, ?_, ?_, ?_⟩
        · rw [i2]; simp [List.filter_append, hcl]
        · simp only [List.cons_append]
          exact (List.Perm.cons _ i3).trans List.perm_middle.symm
        · intro x hx
          simp only [List.mem_cons] at hx
          rcases hx with rfl | hx
          · exact hcl
          · exact i4 x hx
        · refine List.pairwise_cons.mpr ⟨?_, i5⟩
          intro x hx
          have hxc : x ∈ l ++ r := i3.subset (List.mem_append_left _ hx)
          have hxh : keyOf w x ∈ h := hinv.heap.mem_iff.mpr (List.mem_map.mpr ⟨x, by
            simp only [List.mem_append, List.mem_cons] at hxc ⊢
            rcases hxc with hxc | hxc <;> simp [hxc], rfl⟩)
          rw [hkey]
          cases hlt : keyLt k (keyOf w x)
          · exfalso
            have e := keyLt_tri hlt (hmin _ hxh)
            -- same key: same frame, contradicting nodup
            have hn := hinv.nodup
            simp only [keys, List.map_append, List.map_cons] at hn
            have hx2 : k.2 ∈ (l ++ r).map (·.1) := List.mem_map.mpr ⟨x, hxc, by rw [e]; rfl⟩
            have hr : k.2 ∉ r.map (·.1) := (List.nodup_cons.mp (List.nodup_append.mp hn).2.1).1
            simp only [List.map_append, List.mem_append] at hx2
            rcases hx2 with hx2 | hx2
            · exact hl hx2
            · exact hr hx2
          · rfl

/-! ### one arrival -/

theorem firstT_snoc {f : Frame} {ms : List Arrival} (a : Arrival) (h : ms ≠ []) :
    firstT (f, ms ++ [a]) = firstT (f, ms) := by
  cases ms with
  | nil => exact absurd rfl h
  | cons m ms => rfl

/-- lines 32-40 of dedup.rs keep the invariant -/
theorem push_inv {w : Nat} {s : State} (a : Arrival) (hinv : Inv w s) :
    Inv w ⟨push s.cache a,
      if ((get (push s.cache a) a.frame).getD []).length = 1 then (a.t + w, a.frame) :: s.heap
      else s.heap⟩ := by
  obtain ⟨c, h⟩ := s
  simp only
  by_cases hk : a.frame ∈ keys c
  · obtain ⟨l, ms, r, rfl, hl⟩ := split_first hk
    have hwf : WellFormed (a.frame, ms) := hinv.wf _ (by simp)
    have hne : ms ≠ [] := hwf.1
    rw [push_split l hl, get_split l hl]
    have hlen : ¬ (ms ++ [a]).length = 1 := by
      have : 0 < ms.length := List.length_pos_iff.mpr hne
      simp only [List.length_append, List.length_cons, List.length_nil]; omega
    simp only [Option.getD_some, hlen, if_false]
    refine ⟨?_, ?_, ?_⟩
    · have : keyOf w (a.frame, ms ++ [a]) = keyOf w (a.frame, ms) := by
        simp only [keyOf, firstT_snoc a hne]
      have h0 := hinv.heap
      simp only [List.map_append, List.map_cons, this] at h0 ⊢
      exact h0
    · have := hinv.nodup
      simp only [keys, List.map_append, List.map_cons] at this ⊢
      exact this
    · intro g hg
      simp only [List.mem_append, List.mem_cons] at hg
      rcases hg with hg | rfl | hg
      · exact hinv.wf g (by simp [hg])
      · refine ⟨by simp, ?_⟩
        intro m hm
        simp only [List.mem_append, List.mem_singleton] at hm
        rcases hm with hm | rfl
        · exact hwf.2 m hm
        · rfl
      · exact hinv.wf g (by simp [hg])
  · rw [push_new c hk, get_split c hk]
    simp only [Option.getD_some, List.length_cons, List.length_nil, if_true]
    refine ⟨?_, ?_, ?_⟩
    · simp only [List.map_append, List.map_cons, List.map_nil]
      have : keyOf w (a.frame, [a]) = (a.t + w, a.frame) := rfl
      rw [this]
      exact ((List.perm_append_singleton _ _).trans (List.Perm.cons _ hinv.heap.symm)).symm
    · have := hinv.nodup
      simp only [keys, List.map_append, List.map_cons, List.map_nil] at this ⊢
      refine List.nodup_append.mpr ⟨this, by simp, ?_⟩
      intro x hx y hy
      simp only [List.mem_singleton] at hy
      subst hy
      intro e; subst e; exact hk hx
    · intro g hg
      simp only [List.mem_append, List.mem_singleton] at hg
      rcases hg with hg | rfl
      · exact hinv.wf g hg
      · exact ⟨by simp, by intro m hm; simp only [List.mem_singleton] at hm; subst hm; rfl⟩

/-- One arrival, everything the later theorems need: the invariant is kept; the groups that stay
    are exactly the open groups (after the arrival joined) that the arrival does not close, in
    their order; the groups that leave are exactly those it closes, and they leave in strictly
    increasing (expiry, frame) order. -/
theorem stepG_spec {w : Nat} {s : State} (a : Arrival) (hinv : Inv w s) :
    Inv w (stepG w s a).1 ∧
    (stepG w s a).1.cache = (push s.cache a).filter (fun g => !closes w a.t g) ∧
    ((stepG w s a).2 ++ (stepG w s a).1.cache).Perm (push s.cache a) ∧
    (∀ g ∈ (stepG w s a).2, closes w a.t g = true) ∧
    (stepG w s a).2.Pairwise (fun g h => keyLt (keyOf w g) (keyOf w h) = true) := by
  simp only [stepG, isFirst_eq, expiry_eq, decide_eq_true_eq]
  exact expire_spec w a.t _ _ (push_inv a hinv) (Nat.lt_succ_self _)


end Rs1090.Dedup
