import Rs1090.Proofs.IeeeRound
/-!
The f64 wrap `h + 360.` of a negative angle, for IEEE-754 binary64 round-to-nearest-even (`fl64` of
`Proofs/IeeeRound.lean`).  Used by C08 (BDS 0,9 ground track; BDS 5,0 / 6,0 / 0,6 / 0,9 dyadic angles) and by
C15 (the `rem_euclid(360.)` of the FLARM track, whose only rounded operation is the same addition).

`360 = 45·2³` lies in the binade `[256, 512)`, where binary64 values are `2⁻⁴⁴` apart.  Its predecessor is
`360 − 2⁻⁴⁴`; the midpoint `360 − 2⁻⁴⁵` is a tie which goes to the EVEN significand, and that is 360's
(`360·2⁴⁴` is even).  Hence, for every rational `x`

    fl64 x < 360  ↔  x < 360 − 2⁻⁴⁵                                   (`fl64_lt_360_iff`)

and for the wrap of a negative angle `h`

    fl64 (h + 360) = 360  ↔  −2⁻⁴⁵ ≤ h      (`wrap360_eq_iff`, `h ≤ 0`) — the sharp threshold, 2.8·10⁻¹⁴ degrees;
    −360 ≤ h < −2⁻⁴⁵  →  0 ≤ fl64 (h + 360) ≤ 360 − 2⁻⁴⁴ < 360        (`wrap360_range`).
-/
namespace Rs1090.Proofs.F64Wrap
open Rs1090.Proofs.CprFloat Rs1090.Proofs.IeeeRound

/-- `m / 2^n` with `|m| < 2^53`, `n ≤ 1074` is a binary64 value -/
theorem f64exact_int_div_pow2 (m : ℤ) (n : ℕ) (hm : |m| < 2 ^ 53) (hn : n ≤ 1074) :
    F64Exact ((m : ℚ) / 2 ^ n) :=
  ⟨m, -(n : ℤ), by rw [zpow_neg, zpow_natCast, div_eq_mul_inv], hm, by omega, by omega⟩

/-- an integer below `2^53` in magnitude is a binary64 value -/
theorem f64exact_int (m : ℤ) (hm : |m| < 2 ^ 53) : F64Exact (m : ℚ) := by
  have := f64exact_int_div_pow2 m 0 hm (by norm_num)
  simpa using this

theorem f64exact_360 : F64Exact 360 := by
  have := f64exact_int 360 (by norm_num)
  simpa using this

theorem fl64_360 : fl64 360 = 360 := fl64_exact _ f64exact_360

/-- `y < N − 1/2` rounds to an integer below `N` -/
theorem rne_lt_of_lt {y : ℚ} {N : ℤ} (h : y < (N : ℚ) - 1 / 2) : rne y < N := by
  have h1 := abs_le.mp (abs_rne_sub_le y)
  have : ((rne y : ℤ) : ℚ) < (N : ℚ) := by linarith [h1.2]
  exact_mod_cast this

/-- the spacing of the binary64 values in `[256, 512)` is `2⁻⁴⁴` -/
theorem ulp_binade8 {x : ℚ} (h1 : 256 ≤ x) (h2 : x < 512) : ulp x = 1 / 2 ^ 44 := by
  have hx : |x| = x := abs_of_nonneg (by linarith)
  have : expo x = 8 :=
    expo_eq_of_normal (k := 8) (by norm_num) (by rw [hx]; norm_num; exact h1) (by rw [hx]; norm_num; exact h2)
  unfold ulp; rw [this]
  rw [show (8 - 52 : ℤ) = -((44 : ℕ) : ℤ) by norm_num, zpow_neg, zpow_natCast, one_div]

/-- below the midpoint `360 − 2⁻⁴⁵` the rounded value is at most the predecessor `360 − 2⁻⁴⁴` of 360 -/
theorem fl64_le_pred360 {x : ℚ} (h : x < 360 - 1 / 2 ^ 45) : fl64 x ≤ 360 - 1 / 2 ^ 44 := by
  rcases le_or_gt x 256 with hx | hx
  · have := fl64_mono hx
    rw [fl64_exact 256 (by have := f64exact_int 256 (by norm_num); simpa using this)] at this
    norm_num at this ⊢; linarith
  · have hu := ulp_binade8 (le_of_lt hx) (by norm_num at h ⊢; linarith)
    have hlt : rne (x / ulp x) < 6333186975989760 := by
      apply rne_lt_of_lt
      rw [hu]; norm_num at h ⊢; linarith
    have hle : ((rne (x / ulp x) : ℤ) : ℚ) ≤ ((6333186975989759 : ℤ) : ℚ) := by
      exact_mod_cast (by omega : rne (x / ulp x) ≤ 6333186975989759)
    unfold fl64
    have := mul_le_mul_of_nonneg_right hle (le_of_lt (ulp_pos x))
    rw [hu] at this ⊢
    norm_num at this ⊢; linarith

/-- the midpoint itself is a tie and goes to the even significand: 360 -/
theorem fl64_midpoint_360 : fl64 (360 - 1 / 2 ^ 45) = 360 := by
  rw [fl64_eq_of_normal (k := 8) (n := 6333186975989760) (by norm_num) (by norm_num [abs_of_pos])
    (by norm_num [abs_of_pos])
    (Or.inr ⟨by norm_num [abs_of_neg], ⟨3166593487994880, by norm_num⟩⟩)]
  norm_num

/-- **`fl64 x < 360` exactly when `x` is below the midpoint `360 − 2⁻⁴⁵`** (every rational `x`) -/
theorem fl64_lt_360_iff (x : ℚ) : fl64 x < 360 ↔ x < 360 - 1 / 2 ^ 45 := by
  constructor
  · intro h
    by_contra hc
    have := fl64_mono (not_lt.mp hc)
    rw [fl64_midpoint_360] at this
    linarith
  · intro h
    have := fl64_le_pred360 h
    norm_num at this ⊢; linarith

/-- for `x ≤ 360`: the rounded value IS 360 exactly from the midpoint on -/
theorem fl64_eq_360_iff {x : ℚ} (hx : x ≤ 360) : fl64 x = 360 ↔ 360 - 1 / 2 ^ 45 ≤ x := by
  have hle : fl64 x ≤ 360 := by have := fl64_mono hx; rwa [fl64_360] at this
  constructor
  · intro h; by_contra hc
    have := (fl64_lt_360_iff x).mpr (not_le.mp hc); linarith
  · intro h
    have := fl64_mono h
    rw [fl64_midpoint_360] at this
    linarith

/-! ### the wrap `h + 360.` -/

/-- **sharp threshold**: a non-positive angle wraps to exactly 360.0 iff its magnitude is at most `2⁻⁴⁵` degrees -/
theorem wrap360_eq_iff {h : ℚ} (h0 : h ≤ 0) : fl64 (h + 360) = 360 ↔ -(1 / 2 ^ 45) ≤ h := by
  rw [fl64_eq_360_iff (by linarith)]
  constructor <;> intro h1 <;> linarith

/-- **the wrap of an angle in `[−360, −2⁻⁴⁵)` lies in `[0, 360)`**, at least one ulp below 360 -/
theorem wrap360_range {h : ℚ} (h1 : -360 ≤ h) (h2 : h < -(1 / 2 ^ 45)) :
    0 ≤ fl64 (h + 360) ∧ fl64 (h + 360) < 360 ∧ fl64 (h + 360) ≤ 360 - 1 / 2 ^ 44 :=
  ⟨fl64_nonneg (by linarith), (fl64_lt_360_iff _).mpr (by linarith), fl64_le_pred360 (by linarith)⟩

/-- with a margin that is a binary64 value (`360 − b` exact) the wrapped angle keeps the margin:
    `lo ≤ h ≤ −b  →  lo + 360 ≤ fl64 (h + 360) ≤ 360 − b` -/
theorem wrap360_margin {h lo b : ℚ} (hlo : F64Exact (lo + 360)) (hb : F64Exact (360 - b))
    (h1 : lo ≤ h) (h2 : h ≤ -b) : lo + 360 ≤ fl64 (h + 360) ∧ fl64 (h + 360) ≤ 360 - b := by
  constructor
  · have := fl64_mono (show lo + 360 ≤ h + 360 by linarith); rwa [fl64_exact _ hlo] at this
  · have := fl64_mono (show h + 360 ≤ 360 - b by linarith); rwa [fl64_exact _ hb] at this

/-! ### BDS 0,9 ground track: `let h = atan2(ew, ns) * (360 / 2π); if h < 0. { h + 360. } else { h }` -/

/-- the last statement of the `track` expression of bds09.rs on the computed angle `h`, with the addition
    rounded by `fl` -/
def track09 (fl : ℚ → ℚ) (h : ℚ) : ℚ := if h < 0 then fl (h + 360) else h

/-- **The libm hypothesis of the BDS 0,9 track**, on the binary64 value `h` the code computes as
    `libm::atan2(ew, ns) * (360.0 / (2.0 * PI))`: it lies in `[−181, 181]` (the exact angle is in `(−180, 180]`;
    one degree of slack for libm and the rounded conversion factor), and WHEN NEGATIVE it is at most `−b`.
    For integer components `|ew|, |ns| ≤ 4·1022` the exact angle, when negative, is below `−0.013°`
    (`Props/C03.track_negative_margin`; `−0.056°` for `≤ 1022`), so any `b < 0.013` holds for a libm whose
    atan2 is negative only when its first argument is and whose error is below `0.013° − b`
    (`Proofs/F64Track09.angleOk_of_libm` proves exactly that, over Mathlib's reals). -/
structure AngleOk (b h : ℚ) : Prop where
  lo : -181 ≤ h
  hi : h ≤ 181
  neg : h < 0 → h ≤ -b

/-- **BDS 0,9 track in `[0, 360)` in binary64**, for every margin above the sharp threshold `2⁻⁴⁵`° -/
theorem track09_range {b h : ℚ} (hb : 1 / 2 ^ 45 < b) (H : AngleOk b h) :
    0 ≤ track09 fl64 h ∧ track09 fl64 h < 360 := by
  unfold track09
  split
  · rename_i hneg
    have := wrap360_range (h := h) (by linarith [H.lo]) (by linarith [H.neg hneg])
    exact ⟨this.1, this.2.1⟩
  · rename_i hpos
    exact ⟨not_lt.mp hpos, by linarith [H.hi]⟩

/-- with the margin `b = 1/128` degree (a binary64 value below `atan(1/4088)·180/π = 0.01401…`) the track is at
    most `360 − 1/128`: 2.7·10¹¹ ulps below 360.0 -/
theorem track09_margin {h : ℚ} (H : AngleOk (1 / 128) h) :
    0 ≤ track09 fl64 h ∧ track09 fl64 h ≤ 360 - 1 / 128 := by
  unfold track09
  split
  · rename_i hneg
    have hlo : F64Exact ((-181 : ℚ) + 360) := by
      have := f64exact_int 179 (by norm_num); norm_num at this ⊢; exact this
    have hhi : F64Exact ((360 : ℚ) - 1 / 128) := by
      have := f64exact_int_div_pow2 46079 7 (by norm_num) (by norm_num); norm_num at this ⊢; exact this
    have := wrap360_margin hlo hhi H.lo (H.neg hneg)
    exact ⟨by linarith [this.1], this.2⟩
  · rename_i hpos
    exact ⟨not_lt.mp hpos, by linarith [H.hi]⟩

/-- the hypothesis is satisfiable, on both arms -/
example : AngleOk (1 / 128) (-45) ∧ AngleOk (1 / 128) 90 ∧ AngleOk (1 / 128) 0 ∧ AngleOk (1 / 128) (-180) := by
  refine ⟨⟨?_, ?_, ?_⟩, ⟨?_, ?_, ?_⟩, ⟨?_, ?_, ?_⟩, ⟨?_, ?_, ?_⟩⟩ <;> norm_num

/-- … and it cannot be dropped: a negative angle of magnitude `2⁻⁴⁶`° wraps to exactly 360.0 -/
theorem track09_needs_margin : track09 fl64 (-(1 / 2 ^ 46)) = 360 := by
  unfold track09
  rw [if_pos (by norm_num)]
  exact (wrap360_eq_iff (by norm_num)).mpr (by norm_num)

/-! ### dyadic angles: `value as f64 * 90. / 512.` (+ 360.), `value as f64 * 360. / 128.`, `… / 1024.` -/

/-- `read_track` (bds50.rs) / `read_heading` (bds60.rs): `let mut t = k as f64 * 90. / 512.; if t < 0. { t += 360. }`
    for the signed 11-bit `k`, every operation rounded by `fl` -/
def angle11 (fl : ℚ → ℚ) (k : ℤ) : ℚ :=
  let t := fl (fl ((k : ℚ) * 90) / 512)
  if t < 0 then fl (t + 360) else t

/-- **BDS 5,0 track / BDS 6,0 heading: every f64 operation is exact** (all 2048 codes): the binary64 result is
    the rational `((k·90) mod (360·512)) / 512` of the model, in `[0, 360 − 90/512]` -/
theorem angle11_exact (k : ℤ) (h1 : -1024 ≤ k) (h2 : k < 1024) :
    angle11 fl64 k = (((k * 90) % (360 * 512) : ℤ) : ℚ) / 512 ∧
      0 ≤ angle11 fl64 k ∧ angle11 fl64 k ≤ 360 - 90 / 512 := by
  have e1 : fl64 ((k : ℚ) * 90) = (k : ℚ) * 90 := by
    apply fl64_exact
    have := f64exact_int (k * 90) (abs_lt.mpr ⟨by omega, by omega⟩)
    push_cast at this; exact this
  have e2 : fl64 ((k : ℚ) * 90 / 512) = (k : ℚ) * 90 / 512 := by
    apply fl64_exact
    have := f64exact_int_div_pow2 (k * 90) 9 (abs_lt.mpr ⟨by omega, by omega⟩) (by norm_num)
    push_cast at this; norm_num at this ⊢; exact this
  have e3 : fl64 ((k : ℚ) * 90 / 512 + 360) = (k : ℚ) * 90 / 512 + 360 := by
    apply fl64_exact
    have := f64exact_int_div_pow2 (k * 90 + 184320) 9 (abs_lt.mpr ⟨by omega, by omega⟩) (by norm_num)
    push_cast at this; norm_num at this ⊢
    convert this using 1; ring
  have hk1 : (-1024 : ℚ) ≤ (k : ℚ) := by exact_mod_cast h1
  have hk2 : (k : ℚ) ≤ 1023 := by exact_mod_cast (by omega : k ≤ 1023)
  unfold angle11
  simp only [e1, e2]
  split
  · rename_i hneg
    have hk : k < 0 := by
      by_contra hc
      have : (0 : ℚ) ≤ (k : ℚ) := by exact_mod_cast (not_lt.mp hc)
      linarith
    have hk' : (k : ℚ) ≤ -1 := by exact_mod_cast (by omega : k ≤ -1)
    have hm : (k * 90) % (360 * 512) = k * 90 + 184320 := by omega
    rw [e3, hm]
    refine ⟨by push_cast; ring, by linarith, by linarith⟩
  · rename_i hpos
    have hk : 0 ≤ k := by
      by_contra hc
      have : (k : ℚ) ≤ -1 := by exact_mod_cast (by omega : k ≤ -1)
      apply hpos; linarith
    have hm : (k * 90) % (360 * 512) = k * 90 := by omega
    rw [hm]
    refine ⟨by push_cast; ring, not_lt.mp hpos, by linarith⟩

/-- `value as f64 * 360. / 2^n` for an unsigned code `v < 2^n` (BDS 0,6 track `n = 7`, BDS 0,9 heading `n = 10`):
    no wrap in the code -/
def angleU (fl : ℚ → ℚ) (n : ℕ) (v : ℕ) : ℚ := fl (fl ((v : ℚ) * 360) / 2 ^ n)

/-- **BDS 0,6 track / BDS 0,9 heading: both f64 operations are exact**, the result is `v·360/2^n ∈ [0, 360)` -/
theorem angleU_exact (n v : ℕ) (hn : n ≤ 40) (hv : v < 2 ^ n) :
    angleU fl64 n v = (v : ℚ) * 360 / 2 ^ n ∧ 0 ≤ angleU fl64 n v ∧ angleU fl64 n v < 360 := by
  have hp : (2 : ℕ) ^ n ≤ 2 ^ 40 := Nat.pow_le_pow_right (by norm_num) hn
  have hb : |((v : ℤ) * 360)| < 2 ^ 53 := by
    rw [abs_of_nonneg (by positivity)]
    have : (v : ℤ) < 2 ^ 40 := by exact_mod_cast lt_of_lt_of_le hv hp
    omega
  have e1 : fl64 ((v : ℚ) * 360) = (v : ℚ) * 360 := by
    apply fl64_exact
    have := f64exact_int ((v : ℤ) * 360) hb
    push_cast at this; exact this
  have e2 : fl64 ((v : ℚ) * 360 / 2 ^ n) = (v : ℚ) * 360 / 2 ^ n := by
    apply fl64_exact
    have := f64exact_int_div_pow2 ((v : ℤ) * 360) n hb (by omega)
    push_cast at this; exact this
  have hpos : (0 : ℚ) < 2 ^ n := by positivity
  have hvq : (v : ℚ) < 2 ^ n := by exact_mod_cast hv
  unfold angleU
  rw [e1, e2]
  refine ⟨rfl, by positivity, ?_⟩
  rw [div_lt_iff₀ hpos]; linarith

end Rs1090.Proofs.F64Wrap
