/-
Helper lemmas for C09, second part: the loop on the wire form of well-formed frames
(relates the pure view of the model, Proofs/Beast.lean, to Spec/Beast.lean).
-/
import Rs1090.Proofs.Beast
import Rs1090.Spec.Beast
namespace Rs1090.Proofs.Beast
open Rs1090 Rs1090.Model.Beast Rs1090.Spec.Beast

/-- the un-escape loop inverts `escape`: it returns exactly the body and has consumed exactly
    the escaped bytes, whatever follows -/
theorem scan_escape (sz : Nat) (rest : Bytes) : ∀ (body msg : Bytes) (i : Nat),
    msg.length + body.length = sz →
    scan sz (escape body ++ rest) msg i = (msg ++ body, i + (escape body).length) := by
  intro body
  induction body with
  | nil =>
    intro msg i h
    simp only [escape, List.nil_append, List.append_nil, List.length_nil, Nat.add_zero] at h ⊢
    exact scan_full _ _ (by omega)
  | cons b body ih =>
    intro msg i h
    have hlt : msg.length < sz := by simp at h; omega
    by_cases hb : b = 26
    · subst hb
      rw [escape, if_pos (by rfl)]
      simp only [ESC, List.cons_append]
      rw [scan_esc_esc _ _ hlt, ih _ _ (by simp at h ⊢; omega)]
      simp [List.append_assoc]; omega
    · rw [escape, if_neg (by simpa [ESC] using hb)]
      simp only [List.cons_append]
      rw [scan_plain _ _ hlt hb, ih _ _ (by simp at h ⊢; omega)]
      simp [List.append_assoc]; omega

theorem WF_cases {f : Frame} (h : f.WF) :
    (f.ty = 49 ∧ f.body.length = 9) ∨ (f.ty = 50 ∧ f.body.length = 14) ∨
    (f.ty = 51 ∧ f.body.length = 21) ∨ (f.ty = 52 ∧ f.body.length = 21) := by
  unfold Frame.WF bodyLen at h
  split at h
  · rename_i h1; injection h with h; exact .inl ⟨h1, by omega⟩
  · split at h
    · rename_i h1; injection h with h; exact .inr (.inl ⟨h1, by omega⟩)
    · split at h
      · rename_i h1; injection h with h; exact .inr (.inr (.inl ⟨h1, by omega⟩))
      · split at h
        · rename_i h1; injection h with h; exact .inr (.inr (.inr ⟨h1, by omega⟩))
        · cases h

/-- one iteration on a buffer that starts with a complete well-formed frame: the frame is
    consumed, handed on un-escaped (unless it is a status message), the rest is untouched -/
theorem iterTail_wire {f : Frame} (h : f.WF) (rest : Bytes) :
    iterTail (f.wire ++ rest) = .cont rest (if f.isMode then some f.raw else none) := by
  obtain ⟨ty, body⟩ := f
  have key : ∀ sz, valid ty = true → size ty = sz → body.length + 2 = sz →
      iterTail (Frame.wire ⟨ty, body⟩ ++ rest)
        = .cont rest (if ty ≠ 52 then some (Frame.raw ⟨ty, body⟩) else none) := by
    intro sz hv hs hl
    unfold iterTail Frame.wire Frame.raw
    simp only [ESC, List.cons_append, List.getD_cons_succ, List.getD_cons_zero, List.drop_succ_cons,
      List.drop_zero, List.take_succ_cons, List.take_zero]
    rw [if_pos hv, hs, scan_escape sz rest body [26, ty] 2 (by simp; omega)]
    simp only [List.cons_append, List.nil_append, List.length_cons]
    rw [if_neg (by omega)]
    congr 1
    rw [show 2 + (escape body).length = (escape body).length + 1 + 1 by omega]
    simp
  rcases WF_cases h with ⟨h1, h2⟩ | ⟨h1, h2⟩ | ⟨h1, h2⟩ | ⟨h1, h2⟩ <;> simp only at h1 h2 <;> subst h1
  · rw [key 11 (by decide) (by decide) (by omega)]; rfl
  · rw [key 16 (by decide) (by decide) (by omega)]; rfl
  · rw [key 23 (by decide) (by decide) (by omega)]; rfl
  · rw [key 23 (by decide) (by decide) (by omega)]; rfl

theorem expected_cons (f : Frame) (fs : List Frame) :
    expected (f :: fs) = (if f.isMode then some f.raw else none).toList ++ expected fs := by
  unfold expected
  rw [List.filter_cons]
  cases f.isMode <;> simp

theorem F_wire {f : Frame} (h : f.WF) (rest : Bytes) (h23 : 23 ≤ (f.wire ++ rest).length) :
    F (f.wire ++ rest) = ((F rest).1, (if f.isMode then some f.raw else none).toList ++ (F rest).2) := by
  have hw : f.wire ++ rest = 26 :: (f.ty :: escape f.body ++ rest) := rfl
  rw [F_unfold, if_neg (by omega)]
  have : iter (f.wire ++ rest) = iterTail (f.wire ++ rest) := by
    rw [hw]; exact iter_of_head (by rw [← hw]; exact h23)
  rw [this, iterTail_wire h]

/-- **One piece.**  On the wire form of a well-formed frame sequence the loop hands on exactly the
    Mode-AC/short/long frames of a prefix and leaves the wire form of the remaining frames, which
    is shorter than the look-ahead; and it leaves no more than that (the prefix is maximal). -/
theorem F_encode : ∀ (fs : List Frame), (∀ f ∈ fs, f.WF) →
    ∃ fs₁ fs₂, fs = fs₁ ++ fs₂ ∧ F (encode fs) = (encode fs₂, expected fs₁) ∧
      (encode fs₂).length < 23 ∧ ∀ p g, fs₁ = p ++ [g] → 23 ≤ (encode (g :: fs₂)).length := by
  intro fs
  induction fs with
  | nil => intro _; exact ⟨[], [], rfl, F_nil, by simp [encode], by simp⟩
  | cons f fs ih =>
    intro hwf
    by_cases h : (encode (f :: fs)).length < 23
    · exact ⟨[], f :: fs, rfl, F_short h, h, by simp⟩
    · obtain ⟨a, b, hab, hF, hlen, hmax⟩ := ih (fun g hg => hwf g (List.mem_cons_of_mem _ hg))
      refine ⟨f :: a, b, by rw [hab]; rfl, ?_, hlen, ?_⟩
      · rw [encode, F_wire (hwf f (List.mem_cons_self ..)) _ (by rw [encode] at h; omega), hF,
          expected_cons]
      · intro p g hp
        cases p with
        | nil =>
          simp only [List.nil_append, List.cons.injEq] at hp
          obtain ⟨rfl, rfl⟩ := hp
          simp only [List.nil_append] at hab
          subst hab
          omega
        | cons p0 p' =>
          simp only [List.cons_append, List.cons.injEq] at hp
          exact hmax p' g hp.2

/-- the frame on which the unrepaired reader failed (two adjacent 0x1A data bytes, i.e. four on
    the wire) followed by a short frame -/
def witness : List Frame :=
  [⟨0x33, [0x1A, 0x1A, 0x42, 0x43, 0x44, 0x45, 0x46, 0x47, 0x48, 0x49, 0x4a, 0x4b, 0x4c, 0x4d, 0x4e, 0x4f,
           0x50, 0x51, 0x52, 0x53, 0x54]⟩,
   ⟨0x32, [1, 2, 3, 4, 5, 6, 7, 8, 9, 10, 11, 12, 13, 14]⟩,
   ⟨0x32, [1, 2, 3, 4, 5, 6, 7, 8, 9, 10, 11, 12, 13, 14]⟩]

end Rs1090.Proofs.Beast
