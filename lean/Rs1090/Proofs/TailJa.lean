/-
C14 — Japan (`ja_reg`): never panics; what it returns is well formed, comes from exactly one address, and lies in a
block whose national pattern matches `JA`.
-/
import Rs1090.Proofs.TailN
namespace Rs1090.Proofs.Tail
open Rs1090 Rs1090.Model.Tail Rs1090.Gen.Tail

def jaRegP (h : Nat) : Option Reg :=
  let off := wsub32 h JA_BASE
  if JA_COUNT ≤ off then none else
  let d1 := off / JA_D1_DIV
  if JA_D1_MAX < d1 then none else
  let off := off % JA_D1_MOD
  let d2 := off / JA_D2_DIV
  if JA_D2_MAX < d2 then none else
  let off := off % JA_D2_MOD
  if off < JA_SPLIT then
    let d3 := off / JA_D3_DIV
    let off := off % JA_D3_MOD
    if off < JA_D4_LIM then some (.ja [d1, d2, d3, off] [])
    else some (.ja [d1, d2, d3] [off - JA_D4_SUB])
  else
    let off := off - JA_L_SUB
    some (.ja [d1, d2] [off / JA_L3_DIV, off % JA_L4_MOD])

theorem jaReg_eq (h : Nat) : jaReg h = .ok (jaRegP h) := by
  unfold jaReg jaRegP
  simp only [JA_COUNT, JA_D1_DIV, JA_D1_MAX, JA_D1_MOD, JA_D2_DIV, JA_D2_MAX, JA_D2_MOD, JA_SPLIT, JA_D3_DIV,
    JA_D3_MOD, JA_D4_LIM, JA_D4_SUB, JA_L_SUB, JA_L3_DIV, JA_L4_MOD]
  generalize wsub32 h JA_BASE = off
  split
  · rfl
  · rw [divU_ok (by omega), Outcome.bind_ok]
    split
    · rfl
    · rw [modU_ok (by omega), Outcome.bind_ok, divU_ok (by omega), Outcome.bind_ok]
      split
      · rfl
      · rw [modU_ok (by omega), Outcome.bind_ok]
        split
        · rw [divU_ok (by omega), Outcome.bind_ok, modU_ok (by omega), Outcome.bind_ok]
          split
          · rfl
          · rw [subU_ok (by omega), Outcome.bind_ok, nthU_ok (by rw [limited_len]; omega), Outcome.bind_ok]
        · rw [subU_ok (by omega), Outcome.bind_ok, divU_ok (by omega), Outcome.bind_ok,
            nthU_ok (by rw [limited_len]; omega), Outcome.bind_ok, modU_ok (by omega), Outcome.bind_ok,
            nthU_ok (by rw [limited_len]; omega), Outcome.bind_ok]

set_option maxRecDepth 20000 in
theorem jaRegP_spec (h : Nat) (hh : h < 2 ^ 32) (r : Reg) (hr : jaRegP h = some r) :
    wf r ∧ inv r = h ∧ key r = ['J', 'A'] ∧ JA_BASE ≤ h ∧ h ≤ JA_BASE + JA_COUNT - 1 := by
  unfold jaRegP at hr
  simp only [JA_COUNT, JA_D1_DIV, JA_D1_MAX, JA_D1_MOD, JA_D2_DIV, JA_D2_MAX, JA_D2_MOD, JA_SPLIT, JA_D3_DIV,
    JA_D3_MOD, JA_D4_LIM, JA_D4_SUB, JA_L_SUB, JA_L3_DIV, JA_L4_MOD] at hr
  split at hr
  · cases hr
  · rename_i hc
    have hw : JA_BASE ≤ h ∧ wsub32 h JA_BASE = h - JA_BASE := by
      unfold wsub32 at hc ⊢
      simp only [JA_BASE, Nat.reducePow] at hc hh ⊢
      omega
    obtain ⟨hb, hoff⟩ := hw
    rw [hoff] at hr hc
    generalize hoffdef : h - JA_BASE = off at hr hc
    simp only [JA_BASE] at hb hoffdef
    have hrange : JA_BASE ≤ h ∧ h ≤ JA_BASE + JA_COUNT - 1 := by simp only [JA_BASE, JA_COUNT]; omega
    refine (fun (x : wf r ∧ inv r = h ∧ key r = ['J', 'A']) => ⟨x.1, x.2.1, x.2.2, hrange⟩) ?_
    split at hr
    · cases hr
    · split at hr
      · cases hr
      · split at hr
        · split at hr
          · cases hr
            refine ⟨⟨by simp; omega, by simp⟩, ?_, rfl⟩
            simp only [inv, jaInv, JA_BASE, JA_D1_DIV, JA_D2_DIV, JA_D3_DIV]; omega
          · cases hr
            refine ⟨⟨by simp; omega, by simp [limited_len]; omega⟩, ?_, rfl⟩
            simp only [inv, jaInv, JA_BASE, JA_D1_DIV, JA_D2_DIV, JA_D3_DIV, JA_D4_SUB]; omega
        · cases hr
          refine ⟨⟨by simp; omega, by simp [limited_len]; omega⟩, ?_, rfl⟩
          simp only [inv, jaInv, JA_BASE, JA_D1_DIV, JA_D2_DIV, JA_L_SUB, JA_L3_DIV]; omega

theorem ja_country : countryOkB JA_BASE (JA_BASE + JA_COUNT - 1) ['J', 'A'] = true := by decide +kernel

theorem jaReg_good (h : Nat) (hh : h < 2 ^ 32) : Good h (jaReg h) := by
  refine ⟨jaRegP h, jaReg_eq h, ?_⟩
  intro r hr
  obtain ⟨h1, h2, hk, h3, h4⟩ := jaRegP_spec h hh r hr
  refine ⟨h1, h2, ?_⟩
  apply countryFact_of (lo := JA_BASE) (hi := JA_BASE + JA_COUNT - 1) _ h3 h4
  rw [hk]; exact ja_country

end Rs1090.Proofs.Tail
