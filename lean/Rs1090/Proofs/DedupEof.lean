/-
Helper lemmas for C10: decode1090's copy of the loop (`expireD`/`stepGD`/`runD`, the operators extracted from
crates/decode1090/src/main.rs) is the loop of dedup.rs; what the end-of-file flush writes.
-/
import Rs1090.Proofs.DedupSpec
namespace Rs1090.Dedup
open Rs1090.Spec.Dedup (firstT closes WellFormed members recordOf records sortBy)

/-! ### The two copies carry the same operators

`CopiesAgree` is what the lemmas on decode1090's copy need of the operators extracted from it; it is proved,
by name, in `Props/C10.lean: copies_agree_ops` — that is where a changed operator, constant or a removed
flush of decode1090's copy stops the proofs. -/

structure CopiesAgree : Prop where
  notExpired : ∀ curtime t, Gen.Dedup.Decode1090.notExpired curtime t = Gen.Dedup.Jet.notExpired curtime t
  expiry : ∀ t w, Gen.Dedup.Decode1090.expiry t w = Gen.Dedup.Jet.expiry t w
  isFirst : ∀ len, Gen.Dedup.Decode1090.isFirst len = Gen.Dedup.Jet.isFirst len
  flushD : Gen.Dedup.Decode1090.flushAtEof = true
  flushJ : Gen.Dedup.Jet.flushAtEof = false

theorem expireD_eq (ha : CopiesAgree) (t : Nat) : ∀ (n : Nat) (s : State), expireD t n s = expire t n s
  | 0, _ => rfl
  | n + 1, s => by
    simp only [expireD, expire, ha.notExpired]
    cases popMin s.heap with
    | none => rfl
    | some kh =>
      simp only
      cases remove s.cache kh.1.2 with
      | none => simp only [expireD_eq ha t n]
      | some v => simp only [expireD_eq ha t n]

theorem stepGD_eq (ha : CopiesAgree) (w : Nat) (s : State) (a : Arrival) : stepGD w s a = stepG w s a := by
  simp only [stepGD, stepG, expireD_eq ha, ha.isFirst, ha.expiry]

theorem runD_eq (ha : CopiesAgree) (w : Nat) (dec : Frame → Bool) : ∀ (hist : List Arrival) (s : State),
    runD w dec s hist = run w dec s hist
  | [], _ => rfl
  | a :: as, s => by
    simp only [runD, run, step, stepGD_eq ha, runD_eq ha w dec as]

/-- decode1090: the records of the loop, then the flush -/
theorem runFlush_eq (ha : CopiesAgree) (w : Nat) (dec : Frame → Bool) (hist : List Arrival) :
    runFlush w dec hist = (run w dec init hist).2 ++
      (flush (run w dec init hist).1.heap.length (run w dec init hist).1).flatMap (emit dec) := by
  simp [runFlush, runD_eq ha, ha.flushD]

/-- jet1090: the records of the loop, and nothing when the channel closes -/
theorem runClose_eq (ha : CopiesAgree) (w : Nat) (dec : Frame → Bool) (hist : List Arrival) :
    runClose w dec hist = (run w dec init hist).2 := by
  simp [runClose, ha.flushJ]

/-! ### The groups a file is cut into -/

/-- the groups taken out of the cache while the lines are read, then those the flush takes out -/
def fileGroups (w : Nat) (hist : List Arrival) : List Group :=
  (runG w init hist).2 ++ sortBy (runG w init hist).1.cache

theorem fileGroups_wf (w : Nat) (hist : List Arrival) : ∀ g ∈ fileGroups w hist, WellFormed g := by
  intro g hg
  simp only [fileGroups, List.mem_append] at hg
  rcases hg with hg | hg
  · exact runG_wf hist (inv_init w) g hg
  · exact (inv_runG hist (inv_init w)).wf g ((sortBy_perm _).subset hg)

theorem fileGroups_sublist (w : Nat) (hist : List Arrival) : ∀ g ∈ fileGroups w hist, g.2.Sublist hist := by
  intro g hg
  have h := runG_sublist (w := w) hist (past := []) (inv_init w) (by intro g hg; cases hg)
  simp only [fileGroups, List.mem_append] at hg
  rcases hg with hg | hg
  · simpa using h.1 g hg
  · simpa using h.2 g ((sortBy_perm _).subset hg)

theorem fileGroups_members (w : Nat) (hist : List Arrival) : hist.Perm (members (fileGroups w hist)) := by
  have h := runG_members (w := w) hist (inv_init w)
  simp only [pending, init, List.map_nil, List.flatten_nil, List.nil_append] at h
  simp only [fileGroups, members_append]
  exact ((List.Perm.append_left _ (members_perm (sortBy_perm _))).trans h).symm

theorem runFlush_groups (ha : CopiesAgree) (w : Nat) (dec : Frame → Bool) (hist : List Arrival) :
    runFlush w dec hist = records dec (fileGroups w hist) := by
  have hinv := inv_runG (w := w) hist (inv_init w)
  have hwf : ∀ g ∈ sortBy (runG w init hist).1.cache, WellFormed g := fun g hg =>
    hinv.wf g ((sortBy_perm _).subset hg)
  rw [runFlush_eq ha, run_eq dec hist (inv_init w)]
  simp only [fileGroups, flush_eq_sortBy hinv, flatMap_emit dec hwf, records_append]

/-- the members of well-formed groups whose own frame decodes = the members of the groups whose frame decodes -/
theorem members_filter (dec : Frame → Bool) : ∀ (gs : List Group), (∀ g ∈ gs, WellFormed g) →
    (members gs).filter (fun a => dec a.frame) = members (gs.filter (fun g => dec g.1))
  | [], _ => rfl
  | g :: gs, h => by
    have ih := members_filter dec gs (fun x hx => h x (by simp [hx]))
    have hg : ∀ m ∈ g.2, dec m.frame = dec g.1 := fun m hm => by rw [(h g (by simp)).2 m hm]
    simp only [members, List.map_cons, List.flatten_cons, List.filter_append] at ih ⊢
    rw [ih]
    cases hd : dec g.1
    · have : g.2.filter (fun a => dec a.frame) = [] := by
        simp only [List.filter_eq_nil_iff]
        intro m hm; simp [hg m hm, hd]
      simp [this, hd]
    · have : g.2.filter (fun a => dec a.frame) = g.2 := by
        simp only [List.filter_eq_self]
        intro m hm; simp [hg m hm, hd]
      simp [this, hd]

/-- the receptions carried by the records of a list of groups -/
theorem records_rx (dec : Frame → Bool) (gs : List Group) :
    (records dec gs).flatMap (·.rx) = (members (gs.filter (fun g => dec g.1))).flatMap (·.rx) := by
  simp only [records, members]
  induction gs.filter (fun g => dec g.1) with
  | nil => rfl
  | cons g gs ih => simp [List.flatMap_cons, List.flatMap_append, ih, recordOf]

theorem flatMap_filter_sublist {α β : Type} (p : α → Bool) (f : α → List β) :
    ∀ l : List α, ((l.filter p).flatMap f).Sublist (l.flatMap f)
  | [] => List.Sublist.refl _
  | a :: l => by
    have ih := flatMap_filter_sublist p f l
    cases h : p a
    · simp only [List.filter_cons, h, List.flatMap_cons]
      exact List.sublist_append_of_sublist_right ih
    · simp only [List.filter_cons, h, List.flatMap_cons, if_true]
      exact ih.append_left _

theorem count_eq_one_of_nodup {l : List Nat} (h : l.Nodup) {a : Nat} (ha : a ∈ l) : l.count a = 1 := by
  rw [h.count, if_pos ha]

end Rs1090.Dedup
