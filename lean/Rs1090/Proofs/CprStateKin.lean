import Rs1090.Proofs.CprStateSound
import Mathlib.Tactic.FieldSimp
import Mathlib.Tactic.Ring
import Mathlib.Tactic.Positivity
/-!
From bounds in degrees on two TRUE positions to the safe boxes of `Proofs/CprStateSound.lean`.

* `report_lon_shift`: the encoder does not see on which turn a longitude is given;
* `nearBox_of_isLattice`: the near box does not see on which turn the reference's longitude is given;
* `nearBox_air_of_deg`, `nearBox_surf_of_deg`: a point `q` within a quantisation step of a true position
  `(lat', lon')` that is within 2.99° / 0.74° of latitude and 0.49 (half-)zone of longitude of the true position
  `(lat, lon)` of a report lies in the near box of that report (the margins 0.01°, 0.01 zone absorb the
  quantisation of both reports: ≤ 360/59/2^18 ° of latitude, ≤ 360/2^18 ° of longitude each).
-/
set_option linter.unusedVariables false
namespace Rs1090.Proofs.CprState
open Rs1090 Rs1090.Model.Cpr Rs1090.Model.CprState Rs1090.Spec.Cpr Rs1090.Proofs.Cpr

theorem fmod_add_mul (x d : ℚ) (m : ℤ) (hd : d ≠ 0) : fmod (x + d * m) d = fmod x d := by
  unfold fmod
  rw [ratFloor, ratFloor]
  have e : (x + d * m) / d = x / d + m := by field_simp
  rw [e, Int.floor_add_intCast]
  push_cast
  ring

theorem xz_lon_shift (nb i : ℕ) (rl lon : ℚ) (k : ℤ) : xz nb i rl (lon + 360 * k) = xz nb i rl lon := by
  unfold xz
  have hd := dlon_pos i rl
  have hn : (1 : ℚ) ≤ ((max (NL rl - i) 1 : ℕ) : ℚ) := by exact_mod_cast le_max_right _ _
  have e : (360 : ℚ) * k = dlon i rl * (((max (NL rl - i) 1 : ℕ) : ℤ) * k : ℤ) := by
    rw [dlon_eq]; push_cast; field_simp
  rw [e, fmod_add_mul _ _ _ (ne_of_gt hd)]

/-- a report is the same whichever turn the longitude is given on -/
theorem report_lon_shift (nb i : ℕ) (lat lon : ℚ) (k : ℤ) :
    report nb i lat (lon + 360 * k) = report nb i lat lon := by
  unfold report encode
  rw [xz_lon_shift]

/-- the near box holds for every point of the lattice class (longitude on any turn) -/
theorem nearBox_of_isLattice {nb i : ℕ} {z lat lon : ℚ} {nb' i' : ℕ} {lat' lon' : ℚ} {lp : Pos}
    (h : NearBox nb i z lat lon ⟨rlat nb' i' lat', rlon nb' i' (rlat nb' i' lat') lon'⟩)
    (hl : IsLattice nb' i' lat' lon' lp) : NearBox nb i z lat lon lp := by
  obtain ⟨h1, k, h2⟩ := h
  obtain ⟨e1, k', e2⟩ := hl
  refine ⟨by rw [e1]; exact h1, k + k', ?_⟩
  rw [e2]
  push_cast
  have e : rlon nb i (rlat nb i lat) lon + 360 * ((k : ℚ) + k')
      - (rlon nb' i' (rlat nb' i' lat') lon' + 360 * k')
      = rlon nb i (rlat nb i lat) lon + 360 * k - rlon nb' i' (rlat nb' i' lat') lon' := by ring
  rw [e]
  exact h2

/-- triangle inequality behind the degree bounds: quantisation of the report (`e1`, `f1`), distance of the
    two true positions (`D`, `E`, longitude on a suitable turn), distance of `q` from the second one
    (`e2`, `f2`) -/
theorem nearBox_of_close (nb i : ℕ) (z lat lon : ℚ) (q : Pos) (lat' lon' e1 e2 D f1 f2 E : ℚ) (k : ℤ)
    (a1 : |rlat nb i lat - lat| ≤ e1) (a2 : |lat' - lat| ≤ D) (a3 : |q.lat - lat'| ≤ e2)
    (a4 : e1 + D + e2 < dlat i / z / 2)
    (b1 : |rlon nb i (rlat nb i lat) lon - lon| ≤ f1) (b2 : |lon' + 360 * k - lon| ≤ E)
    (b3 : |q.lon - lon'| ≤ f2) (b4 : f1 + E + f2 < dlon i (rlat nb i lat) / z / 2) :
    NearBox nb i z lat lon q := by
  rw [abs_le] at a1 a2 a3 b1 b2 b3
  refine ⟨?_, -k, ?_⟩
  · rw [abs_lt]; constructor <;> linarith [a1.1, a1.2, a2.1, a2.2, a3.1, a3.2]
  · push_cast
    rw [abs_lt]; constructor <;> linarith [b1.1, b1.2, b2.1, b2.2, b3.1, b3.2]

theorem NL_le_59 (x : ℚ) : NL x ≤ 59 := by rw [← nl_eq_NL]; exact (nl_range x).2

theorem NL_ge_1 (x : ℚ) : 1 ≤ NL x := by rw [← nl_eq_NL]; exact (nl_range x).1

/-- `Dlon ≥ 360/59`, the narrowest longitude zone -/
theorem dlon_ge (i : ℕ) (rl : ℚ) : 360 / 59 ≤ dlon i rl := by
  rw [dlon_eq]
  have h1 : (1 : ℚ) ≤ ((max (NL rl - i) 1 : ℕ) : ℚ) := by exact_mod_cast le_max_right _ _
  have h2 : ((max (NL rl - i) 1 : ℕ) : ℚ) ≤ 59 := by
    have := NL_le_59 rl
    have : max (NL rl - i) 1 ≤ 59 := by omega
    exact_mod_cast this
  exact div_le_div_of_nonneg_left (by norm_num) (by linarith) h2

theorem dlat_bounds (i : ℕ) (hi : i ≤ 1) : 6 ≤ dlat i ∧ dlat i ≤ 360 / 59 := by
  have : i = 0 ∨ i = 1 := by omega
  rcases this with h | h <;> subst h
  · rw [dlat0]; norm_num
  · rw [dlat1]; norm_num

theorem dlon_le (i : ℕ) (rl : ℚ) : dlon i rl ≤ 360 := by
  rw [dlon_eq]
  have h1 : (1 : ℚ) ≤ ((max (NL rl - i) 1 : ℕ) : ℚ) := by exact_mod_cast le_max_right _ _
  rw [div_le_iff₀ (by linarith)]
  nlinarith

/-- the lattice point of a report (airborne or surface) is within 1/40000 ° of latitude and 1/700 ° of
    longitude of the position it was encoded from -/
theorem lattice_close (nb i : ℕ) (hnb : nb = 17 ∨ nb = 19) (hi : i ≤ 1) (lat lon : ℚ) :
    |rlat nb i lat - lat| ≤ 1 / 40000 ∧ |rlon nb i (rlat nb i lat) lon - lon| ≤ 1 / 700 := by
  have hd := dlat_pos i hi
  have hb := (dlat_bounds i hi).2
  have hl := dlon_pos i (rlat nb i lat)
  have hl' := dlon_le i (rlat nb i lat)
  rw [rlat_eq_recv, rlon_eq_recv]
  rcases hnb with h | h <;> subst h
  · exact ⟨le_trans (recv17_err _ _ hd) (by linarith),
      le_trans (recv17_err _ _ (dlon_pos i _)) (by linarith [dlon_le i (recv 17 (dlat i) lat)])⟩
  · exact ⟨le_trans (recv19_err _ _ hd) (by linarith),
      le_trans (recv19_err _ _ (dlon_pos i _)) (by linarith [dlon_le i (recv 19 (dlat i) lat)])⟩

/-- **airborne near box from degrees**: `q` within (1/40000 °, 1/700 °) of a true position `(lat', lon')`
    which is within 2.99 ° of latitude and 0.49 zone of longitude (on a suitable turn) of `(lat, lon)` -/
theorem nearBox_air_of_deg (i : ℕ) (hi : i ≤ 1) (lat lon : ℚ) (q : Pos) (lat' lon' : ℚ) (k : ℤ)
    (hq1 : |q.lat - lat'| ≤ 1 / 40000) (hq2 : |q.lon - lon'| ≤ 1 / 700)
    (hlat : |lat' - lat| ≤ 299 / 100)
    (hlon : |lon' + 360 * k - lon| ≤ 49 / 100 * dlon i (rlat 17 i lat)) :
    NearBox 17 i 1 lat lon q := by
  have hd := dlat_pos i hi
  have hb := dlat_bounds i hi
  have hl := dlon_ge i (rlat 17 i lat)
  refine nearBox_of_close 17 i 1 lat lon q lat' lon' (dlat i / 262144) (1 / 40000) (299 / 100)
    (dlon i (rlat 17 i lat) / 262144) (1 / 700) (49 / 100 * dlon i (rlat 17 i lat)) k
    ?_ hlat hq1 ?_ ?_ hlon hq2 ?_
  · rw [rlat_eq_recv]; exact recv17_err _ _ hd
  · simp only [div_one]; linarith [hb.1, hb.2]
  · rw [rlon_eq_recv]; exact recv17_err _ _ (dlon_pos i _)
  · simp only [div_one]; linarith

/-- **surface near box from degrees**: … within 0.74 ° of latitude and 0.49 quarter-zone of longitude -/
theorem nearBox_surf_of_deg (i : ℕ) (hi : i ≤ 1) (lat lon : ℚ) (q : Pos) (lat' lon' : ℚ) (k : ℤ)
    (hq1 : |q.lat - lat'| ≤ 1 / 40000) (hq2 : |q.lon - lon'| ≤ 1 / 700)
    (hlat : |lat' - lat| ≤ 74 / 100)
    (hlon : |lon' + 360 * k - lon| ≤ 49 / 100 * (dlon i (rlat 19 i lat) / 4)) :
    NearBox 19 i 4 lat lon q := by
  have hd := dlat_pos i hi
  have hb := dlat_bounds i hi
  have hl := dlon_ge i (rlat 19 i lat)
  refine nearBox_of_close 19 i 4 lat lon q lat' lon' (dlat i / 1048576) (1 / 40000) (74 / 100)
    (dlon i (rlat 19 i lat) / 1048576) (1 / 700) (49 / 100 * (dlon i (rlat 19 i lat) / 4)) k
    ?_ hlat hq1 ?_ ?_ hlon hq2 ?_
  · rw [rlat_eq_recv]; exact recv19_err _ _ hd
  · linarith [hb.1, hb.2]
  · rw [rlon_eq_recv]; exact recv19_err _ _ (dlon_pos i _)
  · linarith

/-- **pair box from degrees**: the stored report is the format-`i'` report (`i' = 1 − i`) of a position on
    the globe within 12/295 ° of latitude and, when the bands agree, `144/(NL(NL−1))` ° of longitude (on a
    suitable turn) of `(lat, lon)` -/
theorem pairBox_of_deg (i i' : ℕ) (hi' : i' = 1 - i) (lat lon lat' lon' : ℚ) (hr : -90 ≤ lat' ∧ lat' ≤ 90)
    (h1 : |lat' - lat| ≤ 12 / 295)
    (h2 : NL (rlat 17 i' lat') = NL (rlat 17 i lat) → ∃ k : ℤ,
      (NL (rlat 17 i lat) : ℚ) * ((NL (rlat 17 i lat) : ℚ) - 1) * |lon' + 360 * k - lon| ≤ 144) :
    PairBox i (report 17 i' lat' lon') lat lon := by
  subst hi'
  by_cases hn : NL (rlat 17 (1 - i) lat') = NL (rlat 17 i lat)
  · obtain ⟨k, hk⟩ := h2 hn
    exact ⟨lat', lon' + 360 * k, hr, (report_lon_shift 17 (1 - i) lat' lon' k).symm, h1, fun _ => hk⟩
  · exact ⟨lat', lon', hr, rfl, h1, fun h => absurd h hn⟩

end Rs1090.Proofs.CprState
