import Rs1090.Proofs.CprFloat
import Mathlib.Data.Int.Log
import Mathlib.Algebra.Group.Int.Even
import Mathlib.Algebra.Order.Floor.Ring
import Mathlib.Tactic.Linarith
import Mathlib.Tactic.Ring
import Mathlib.Tactic.NormNum
/-!
IEEE-754 binary64 round-to-nearest, ties-to-even, as a function `fl64 : ℚ → ℚ`, and the proof that it is an
instance of the rounding hypothesis `Rounding` of `Proofs/CprFloat.lean` (C04 / C05).

`Proofs/CprFloat.lean` proves the f64 argument of the CPR decoders for an ABSTRACT `fl : ℚ → ℚ` satisfying
`Rounding fl` (identity on binary64 values, `|fl x − x| ≤ |x|·2⁻⁵³ + 2⁻¹⁰⁷⁵`, monotone).  This file removes the
gap "the IEEE instance is trusted": the rounding function itself is DEFINED here

* `rne x`  — the integer nearest to `x`, ties to the even one (`IsRne x n` is its specification, `rne_eq`
  its uniqueness);
* `expo q = max (Int.log 2 |q|) (-1022)` — the binade of `q`, clamped at the subnormal range
  (`2^(expo q) ≤ |q| < 2^(expo q + 1)` above it, `pow_expo_le_abs` / `abs_lt_pow_expo_succ`);
* `ulp q = 2^(expo q − 52)` — the spacing of the binary64 values in that binade (`2⁻¹⁰⁷⁴` for subnormals);
* `fl64 q = rne (q / ulp q) · ulp q`

and `rounding_fl64 : Rounding fl64` is PROVED, together with `fl64_f64exact` (the result IS a finite binary64
value when `|q| ≤ 2^1023`), `fl64_nearest` (no finite binary64 value is closer to `q` than `fl64 q`),
`fl64_tie_even` (in a tie the even significand is chosen) — these three characterise round-to-nearest-even, so
that `fl64` need not be trusted by inspection of its definition —, `fl64_neg`, `fl64_idem`, and evaluation rules with the well known doubles of `0.1`
and `1/3` and the subnormal tie `2⁻¹⁰⁷⁵ ↦ 0` as non-vacuity examples.

**What `fl64` does not model: overflow.**  The exponent is unbounded above, so `fl64` never returns an
infinity.  It coincides with IEEE-754 round-to-nearest-even wherever the IEEE result is finite, i.e. wherever
`|fl64 q| ≤ (2^53 − 1)·2^971` (the largest finite binary64 value).  That covers every use in
`Proofs/CprFloat.lean`: `Rounding.err` is only asked for `|q| ≤ 2^1023`, and every intermediate value of the
CPR decoders is below `2^40` in magnitude.  NaN, infinities and the sign of zero have no counterpart in `ℚ`
(`fl64 0 = 0`; `expo 0 = 0` is an artefact of `Int.log 2 0 = 0` without consequence, since `rne 0 = 0`).

What remains outside Lean after this file: that the machine operations the Rust code uses (`+ − × ÷`,
`libm::floor`, `u32/i32 → f64` conversion, decimal literal parsing) return `fl64` of the exact result —
IEEE-754 conformance of the hardware / LLVM / libm.
-/
namespace Rs1090.Proofs.IeeeRound
open Rs1090.Proofs.CprFloat

/-! ### round to nearest integer, ties to even -/

/-- the integer nearest to `x`; when `x` is half way between two integers, the even one -/
def rne (x : ℚ) : ℤ :=
  if x - ⌊x⌋ < 1 / 2 then ⌊x⌋
  else if 1 / 2 < x - ⌊x⌋ then ⌊x⌋ + 1
  else if Even ⌊x⌋ then ⌊x⌋ else ⌊x⌋ + 1

/-- specification of `rne`: `n` is strictly nearest, or a tie and `n` is even -/
def IsRne (x : ℚ) (n : ℤ) : Prop := |x - n| < 1 / 2 ∨ (|x - n| = 1 / 2 ∧ Even n)

theorem rne_spec (x : ℚ) : IsRne x (rne x) := by
  have h1 : (⌊x⌋ : ℚ) ≤ x := Int.floor_le x
  have h2 : x < (⌊x⌋ : ℚ) + 1 := Int.lt_floor_add_one x
  unfold IsRne rne
  split_ifs with c1 c2 c3
  · left; rw [abs_lt]; constructor <;> linarith
  · left; push_cast; rw [abs_lt]; constructor <;> linarith
  · right
    have e : x - ⌊x⌋ = 1 / 2 := le_antisymm (not_lt.mp c2) (not_lt.mp c1)
    exact ⟨by rw [e]; norm_num, c3⟩
  · right
    have e : x - ⌊x⌋ = 1 / 2 := le_antisymm (not_lt.mp c2) (not_lt.mp c1)
    refine ⟨?_, ?_⟩
    · push_cast
      have : x - ((⌊x⌋ : ℚ) + 1) = -(1 / 2) := by linarith
      rw [this]; norm_num
    · rw [Int.even_iff] at c3 ⊢; omega

theorem IsRne.dist_le {x : ℚ} {n : ℤ} (h : IsRne x n) : |x - n| ≤ 1 / 2 := by
  rcases h with h | ⟨h, _⟩
  · exact le_of_lt h
  · exact le_of_eq h

theorem IsRne.unique {x : ℚ} {m n : ℤ} (hm : IsRne x m) (hn : IsRne x n) : m = n := by
  have am := abs_le.mp hm.dist_le
  have an := abs_le.mp hn.dist_le
  have h1 : ((m - n : ℤ) : ℚ) ≤ 1 := by push_cast; linarith
  have h2 : (-1 : ℚ) ≤ ((m - n : ℤ) : ℚ) := by push_cast; linarith
  have h1' : m - n ≤ 1 := by exact_mod_cast h1
  have h2' : -1 ≤ m - n := by exact_mod_cast h2
  by_contra hne
  have hcase : m = n + 1 ∨ n = m + 1 := by omega
  rcases hcase with e | e
  · have hx : x = (n : ℚ) + 1 / 2 := by
      have : (m : ℚ) = n + 1 := by rw [e]; push_cast; ring
      linarith
    have em : ¬ |x - m| < 1 / 2 := by
      rw [hx, e]; push_cast; norm_num
    have en : ¬ |x - n| < 1 / 2 := by
      rw [hx]; norm_num
    have evm : Even m := by rcases hm with h | h; exact absurd h em; exact h.2
    have evn : Even n := by rcases hn with h | h; exact absurd h en; exact h.2
    rw [Int.even_iff] at evm evn; omega
  · have hx : x = (m : ℚ) + 1 / 2 := by
      have : (n : ℚ) = m + 1 := by rw [e]; push_cast; ring
      linarith
    have em : ¬ |x - m| < 1 / 2 := by
      rw [hx]; norm_num
    have en : ¬ |x - n| < 1 / 2 := by
      rw [hx, e]; push_cast; norm_num
    have evm : Even m := by rcases hm with h | h; exact absurd h em; exact h.2
    have evn : Even n := by rcases hn with h | h; exact absurd h en; exact h.2
    rw [Int.even_iff] at evm evn; omega

/-- the specification determines the value -/
theorem rne_eq {x : ℚ} {n : ℤ} (h : IsRne x n) : rne x = n := (rne_spec x).unique h

theorem rne_intCast (n : ℤ) : rne (n : ℚ) = n := rne_eq (Or.inl (by simp))

theorem abs_rne_sub_le (x : ℚ) : |(rne x : ℚ) - x| ≤ 1 / 2 := by
  rw [abs_sub_comm]; exact (rne_spec x).dist_le

theorem rne_mono {a b : ℚ} (h : a ≤ b) : rne a ≤ rne b := by
  by_contra hc
  have hc' : rne b + 1 ≤ rne a := by omega
  have hq : ((rne b : ℤ) : ℚ) + 1 ≤ (rne a : ℚ) := by exact_mod_cast hc'
  have ha := abs_le.mp (abs_rne_sub_le a)
  have hb := abs_le.mp (abs_rne_sub_le b)
  have : a = b := by linarith
  subst this; omega

theorem rne_neg (x : ℚ) : rne (-x) = -rne x := by
  apply rne_eq
  have e : -x - ((-rne x : ℤ) : ℚ) = -(x - rne x) := by push_cast; ring
  rcases rne_spec x with h | ⟨h, ev⟩
  · left; rw [e, abs_neg]; exact h
  · right; rw [e, abs_neg]; exact ⟨h, ev.neg⟩

/-! ### exponent, unit in the last place, rounding -/

/-- the binary exponent of `q`, clamped below at the exponent `-1022` of the smallest normal number
    (`Int.log 2 r` = the greatest `k` with `2^k ≤ r`, for `r > 0`) -/
def expo (q : ℚ) : ℤ := max (Int.log 2 |q|) (-1022)
/-- unit in the last place: the spacing of the binary64 values around `q` (53-bit significand) -/
def ulp (q : ℚ) : ℚ := (2 : ℚ) ^ (expo q - 52)
/-- **IEEE-754 binary64 round-to-nearest, ties-to-even**, with gradual underflow and WITHOUT overflow to
    infinity (the exponent is unbounded above): it coincides with IEEE-754 wherever
    `|result| ≤ (2^53 − 1)·2^971`, the largest finite binary64 value. -/
def fl64 (q : ℚ) : ℚ := (rne (q / ulp q) : ℚ) * ulp q

theorem ulp_pos (q : ℚ) : 0 < ulp q := zpow_pos (by norm_num) _

theorem expo_neg (q : ℚ) : expo (-q) = expo q := by unfold expo; rw [abs_neg]
theorem ulp_neg (q : ℚ) : ulp (-q) = ulp q := by unfold ulp; rw [expo_neg]

theorem fl64_neg (q : ℚ) : fl64 (-q) = -fl64 q := by
  unfold fl64; rw [ulp_neg, neg_div, rne_neg]; push_cast; ring

theorem fl64_zero : fl64 0 = 0 := by
  unfold fl64; rw [zero_div]
  have : rne 0 = 0 := by exact_mod_cast rne_intCast 0
  rw [this]; simp

theorem expo_ge (q : ℚ) : -1022 ≤ expo q := le_max_right _ _

theorem log_le_expo (q : ℚ) : Int.log 2 |q| ≤ expo q := le_max_left _ _

/-- `2^k ≤ r < 2^(k+1)` determines `Int.log 2 r` -/
theorem log2_eq {r : ℚ} {k : ℤ} (h1 : (2 : ℚ) ^ k ≤ r) (h2 : r < (2 : ℚ) ^ (k + 1)) : Int.log 2 r = k := by
  have h0 : 0 < r := lt_of_lt_of_le (zpow_pos (by norm_num) _) h1
  have a : k ≤ Int.log 2 r := (Int.zpow_le_iff_le_log (by norm_num) h0).mp (by exact_mod_cast h1)
  have b : Int.log 2 r < k + 1 := (Int.lt_zpow_iff_log_lt (by norm_num) h0).mp (by exact_mod_cast h2)
  omega

theorem pow_log_le {r : ℚ} (h0 : 0 < r) : (2 : ℚ) ^ Int.log 2 r ≤ r := by
  have := Int.zpow_log_le_self (b := 2) (by norm_num) h0
  exact_mod_cast this

theorem lt_pow_log_succ (r : ℚ) : r < (2 : ℚ) ^ (Int.log 2 r + 1) := by
  have := Int.lt_zpow_succ_log_self (b := 2) (by norm_num) r
  exact_mod_cast this

/-- `|q| < 2^(expo q + 1)` -/
theorem abs_lt_pow_expo_succ (q : ℚ) : |q| < (2 : ℚ) ^ (expo q + 1) :=
  lt_of_lt_of_le (lt_pow_log_succ |q|)
    (zpow_le_zpow_right₀ (by norm_num) (by have := log_le_expo q; omega))

/-- above the subnormal range, `2^(expo q) ≤ |q|` -/
theorem pow_expo_le_abs {q : ℚ} (hq : q ≠ 0) (h : -1022 < expo q) : (2 : ℚ) ^ expo q ≤ |q| := by
  have e : expo q = Int.log 2 |q| := by
    unfold expo at h ⊢
    rcases max_cases (Int.log 2 |q|) (-1022) with ⟨h1, _⟩ | ⟨h1, _⟩
    · exact h1
    · rw [h1] at h; omega
  rw [e]; exact pow_log_le (abs_pos.mpr hq)

theorem expo_mono {a b : ℚ} (ha : a ≠ 0) (h : |a| ≤ |b|) : expo a ≤ expo b := by
  unfold expo
  exact max_le_max (Int.log_mono_right (abs_pos.mpr ha) h) le_rfl

/-! ### grid points -/

theorem fl64_sub (q : ℚ) : fl64 q - q = ((rne (q / ulp q) : ℚ) - q / ulp q) * ulp q := by
  unfold fl64
  have := ne_of_gt (ulp_pos q)
  field_simp

/-- the rounding error is at most half an ulp -/
theorem abs_fl64_sub_le (q : ℚ) : |fl64 q - q| ≤ ulp q / 2 := by
  rw [fl64_sub, abs_mul, abs_of_pos (ulp_pos q)]
  have := abs_rne_sub_le (q / ulp q)
  have := mul_le_mul_of_nonneg_right this (le_of_lt (ulp_pos q))
  linarith

/-- a multiple of `ulp q` above `q` is above `fl64 q` -/
theorem fl64_le_grid (q : ℚ) (n : ℤ) (h : q ≤ n * ulp q) : fl64 q ≤ n * ulp q := by
  unfold fl64
  have h1 : q / ulp q ≤ (n : ℚ) := by rw [div_le_iff₀ (ulp_pos q)]; exact h
  have h2 := rne_mono h1
  rw [rne_intCast] at h2
  have h3 : ((rne (q / ulp q) : ℤ) : ℚ) ≤ (n : ℚ) := by exact_mod_cast h2
  exact mul_le_mul_of_nonneg_right h3 (le_of_lt (ulp_pos q))

/-- a multiple of `ulp q` below `q` is below `fl64 q` -/
theorem grid_le_fl64 (q : ℚ) (n : ℤ) (h : n * ulp q ≤ q) : n * ulp q ≤ fl64 q := by
  unfold fl64
  have h1 : (n : ℚ) ≤ q / ulp q := by rw [le_div_iff₀ (ulp_pos q)]; exact h
  have h2 := rne_mono h1
  rw [rne_intCast] at h2
  have h3 : (n : ℚ) ≤ ((rne (q / ulp q) : ℤ) : ℚ) := by exact_mod_cast h2
  exact mul_le_mul_of_nonneg_right h3 (le_of_lt (ulp_pos q))

theorem fl64_nonneg {q : ℚ} (h : 0 ≤ q) : 0 ≤ fl64 q := by
  have := grid_le_fl64 q 0 (by simpa using h); simpa using this

theorem fl64_nonpos {q : ℚ} (h : q ≤ 0) : fl64 q ≤ 0 := by
  have := fl64_le_grid q 0 (by simpa using h); simpa using this

/-- `2^(expo q + 1) = 2^53 · ulp q` -/
theorem pow_expo_succ (q : ℚ) : (2 : ℚ) ^ (expo q + 1) = ((2 ^ 53 : ℤ) : ℚ) * ulp q := by
  unfold ulp
  rw [show expo q + 1 = 53 + (expo q - 52) by ring, zpow_add₀ (by norm_num)]
  norm_num

/-- `2^(expo q) = 2^52 · ulp q` -/
theorem pow_expo (q : ℚ) : (2 : ℚ) ^ (expo q) = ((2 ^ 52 : ℤ) : ℚ) * ulp q := by
  unfold ulp
  rw [show expo q = 52 + (expo q - 52) by ring, zpow_add₀ (by norm_num)]
  norm_num

/-- monotone on the positive half line: same binade — `rne_mono`; different binades — the power of two
    between them is a grid point of both -/
theorem fl64_mono_pos {a b : ℚ} (ha : 0 < a) (h : a ≤ b) : fl64 a ≤ fl64 b := by
  have hb : 0 < b := lt_of_lt_of_le ha h
  have hexp : expo a ≤ expo b := expo_mono (ne_of_gt ha) (by rwa [abs_of_pos ha, abs_of_pos hb])
  rcases eq_or_lt_of_le hexp with e | lt
  · have hu : ulp a = ulp b := by unfold ulp; rw [e]
    unfold fl64
    rw [hu]
    have h1 : a / ulp b ≤ b / ulp b := div_le_div_of_nonneg_right h (le_of_lt (ulp_pos b))
    have h2 : ((rne (a / ulp b) : ℤ) : ℚ) ≤ ((rne (b / ulp b) : ℤ) : ℚ) := by exact_mod_cast rne_mono h1
    exact mul_le_mul_of_nonneg_right h2 (le_of_lt (ulp_pos b))
  · have h1 : fl64 a ≤ (2 : ℚ) ^ (expo a + 1) := by
      rw [pow_expo_succ]
      apply fl64_le_grid
      rw [← pow_expo_succ]
      have := abs_lt_pow_expo_succ a
      rw [abs_of_pos ha] at this
      exact le_of_lt this
    have h2 : (2 : ℚ) ^ (expo a + 1) ≤ (2 : ℚ) ^ (expo b) :=
      zpow_le_zpow_right₀ (by norm_num) (by omega)
    have h3 : (2 : ℚ) ^ (expo b) ≤ fl64 b := by
      have h4 : (2 : ℚ) ^ (expo b) ≤ |b| :=
        pow_expo_le_abs (ne_of_gt hb) (by have := expo_ge a; omega)
      rw [abs_of_pos hb] at h4
      rw [pow_expo] at h4 ⊢
      exact grid_le_fl64 b _ h4
    linarith

/-- `fl64` is monotone (odd function + monotone on the positive half line) -/
theorem fl64_mono {a b : ℚ} (h : a ≤ b) : fl64 a ≤ fl64 b := by
  rcases lt_trichotomy a 0 with ha | ha | ha
  · rcases le_or_gt 0 b with hb | hb
    · exact le_trans (fl64_nonpos (le_of_lt ha)) (fl64_nonneg hb)
    · have := fl64_mono_pos (a := -b) (b := -a) (by linarith) (by linarith)
      rw [fl64_neg, fl64_neg] at this
      linarith
  · subst ha; rw [fl64_zero]; exact fl64_nonneg h
  · exact fl64_mono_pos ha h

/-! ### the three fields of `Rounding` -/

/-- binary64 values are fixed points -/
theorem fl64_exact (q : ℚ) (h : F64Exact q) : fl64 q = q := by
  obtain ⟨m, e, hq, hm, he, _⟩ := h
  by_cases hq0 : q = 0
  · rw [hq0, fl64_zero]
  -- `|q| < 2^(53+e)`, hence `expo q ≤ 52 + e`
  have hpos : (0 : ℚ) < (2 : ℚ) ^ e := zpow_pos (by norm_num) _
  have habs : |q| < (2 : ℚ) ^ (53 + e) := by
    rw [hq, abs_mul, abs_of_pos hpos, zpow_add₀ (by norm_num)]
    have : |(m : ℚ)| < (2 : ℚ) ^ (53 : ℤ) := by
      have : ((|m| : ℤ) : ℚ) < ((2 ^ 53 : ℤ) : ℚ) := by exact_mod_cast hm
      rw [Int.cast_abs] at this
      norm_num at this ⊢; exact this
    exact mul_lt_mul_of_pos_right this hpos
  have hlog : Int.log 2 |q| < 53 + e :=
    (Int.lt_zpow_iff_log_lt (by norm_num) (abs_pos.mpr hq0)).mp (by exact_mod_cast habs)
  have hexpo : expo q - 52 ≤ e := by
    unfold expo
    rcases max_cases (Int.log 2 |q|) (-1022) with ⟨h1, _⟩ | ⟨h1, _⟩ <;> rw [h1] <;> omega
  -- `q / ulp q` is the integer `m · 2^k`
  obtain ⟨k, hk⟩ : ∃ k : ℕ, e = (expo q - 52) + k := ⟨(e - (expo q - 52)).toNat, by omega⟩
  have hdiv : q / ulp q = ((m * 2 ^ k : ℤ) : ℚ) := by
    rw [div_eq_iff (ne_of_gt (ulp_pos q))]
    unfold ulp
    generalize expo q = E at hk ⊢
    rw [hq, hk, zpow_add₀ (by norm_num), zpow_natCast]
    push_cast; ring
  unfold fl64
  rw [hdiv, rne_intCast, ← hdiv]
  exact div_mul_cancel₀ _ (ne_of_gt (ulp_pos q))

/-- half an ulp is within the standard-model bound -/
theorem half_ulp_le {q : ℚ} (hq : q ≠ 0) : ulp q / 2 ≤ |q| * u + eta := by
  have h0 : (0 : ℚ) ≤ |q| * u := mul_nonneg (abs_nonneg _) (le_of_lt u_pos)
  have hu : ulp q / 2 = (2 : ℚ) ^ (expo q) * u := by
    unfold ulp u
    rw [zpow_sub₀ (by norm_num)]
    norm_num; ring
  rcases eq_or_lt_of_le (expo_ge q) with e | lt
  · -- subnormal range: `ulp q / 2 = eta`
    have : ulp q / 2 = eta := by
      unfold ulp eta
      rw [← e, show (-1022 - 52 : ℤ) = -((1074 : ℕ) : ℤ) by norm_num, zpow_neg, zpow_natCast,
        show (2 : ℚ) ^ 1075 = 2 ^ 1074 * 2 from pow_succ 2 1074]
      generalize (2 : ℚ) ^ 1074 = X
      rw [one_div, mul_inv, div_eq_mul_inv]
    rw [this]; linarith
  · rw [hu]
    have := mul_le_mul_of_nonneg_right (pow_expo_le_abs hq lt) (le_of_lt u_pos)
    linarith [eta_pos]

/-- the standard-model error bound, for every `q` (no overflow in `fl64`) -/
theorem fl64_err (q : ℚ) : |fl64 q - q| ≤ |q| * u + eta := by
  by_cases hq : q = 0
  · rw [hq, fl64_zero]; simp [le_of_lt eta_pos]
  · exact le_trans (abs_fl64_sub_le q) (half_ulp_le hq)

/-- **IEEE-754 binary64 round-to-nearest-even satisfies the rounding hypothesis of `CprFloat`.** -/
theorem rounding_fl64 : Rounding fl64 :=
  ⟨fl64_exact, fun q _ => fl64_err q, fun _ _ h => fl64_mono h⟩

/-! ### the rounded value is a binary64 value -/

theorem f64exact_neg {x : ℚ} (h : F64Exact x) : F64Exact (-x) := by
  obtain ⟨m, e, hx, hm, h1, h2⟩ := h
  exact ⟨-m, e, by rw [hx]; push_cast; ring, by rwa [abs_neg], h1, h2⟩

theorem pow1023_lt : (2 : ℚ) ^ 1023 < (2 : ℚ) ^ (1024 : ℤ) := by
  rw [show (1024 : ℤ) = ((1024 : ℕ) : ℤ) from rfl, zpow_natCast]
  exact pow_lt_pow_right₀ (by norm_num) (by norm_num)

theorem fl64_f64exact_pos {q : ℚ} (h0 : 0 < q) (h : q ≤ 2 ^ 1023) : F64Exact (fl64 q) := by
  have hE1 : expo q ≤ 1023 := by
    have h1 : Int.log 2 |q| < 1024 :=
      (Int.lt_zpow_iff_log_lt (by norm_num) (abs_pos.mpr (ne_of_gt h0))).mp (by
        rw [abs_of_pos h0, Nat.cast_ofNat]; exact lt_of_le_of_lt h pow1023_lt)
    unfold expo
    rcases max_cases (Int.log 2 |q|) (-1022) with ⟨h2, _⟩ | ⟨h2, _⟩ <;> rw [h2] <;> omega
  have hE0 := expo_ge q
  obtain ⟨m, hm⟩ : ∃ m, rne (q / ulp q) = m := ⟨_, rfl⟩
  have hfl : fl64 q = (m : ℚ) * (2 : ℚ) ^ (expo q - 52) := by unfold fl64; rw [hm]; rfl
  have hm0 : 0 ≤ m := by
    have h1 : ((0 : ℤ) : ℚ) ≤ q / ulp q := by
      rw [Int.cast_zero]; exact div_nonneg (le_of_lt h0) (le_of_lt (ulp_pos q))
    have := rne_mono h1
    rwa [rne_intCast, hm] at this
  have hm1 : m ≤ 2 ^ 53 := by
    have h1 : q / ulp q ≤ ((2 ^ 53 : ℤ) : ℚ) := by
      rw [div_le_iff₀ (ulp_pos q), ← pow_expo_succ]
      have := abs_lt_pow_expo_succ q
      rw [abs_of_pos h0] at this
      exact le_of_lt this
    have := rne_mono h1
    rwa [rne_intCast, hm] at this
  rcases eq_or_lt_of_le hm1 with e | lt
  · have hE2 : expo q ≤ 1022 := by
      by_contra hc
      have hE : expo q = 1023 := by omega
      have h1 : (2 : ℚ) ^ expo q ≤ |q| := pow_expo_le_abs (ne_of_gt h0) (by omega)
      rw [abs_of_pos h0] at h1
      have h2 : q ≤ (2 : ℚ) ^ expo q := by
        rw [hE, show (1023 : ℤ) = ((1023 : ℕ) : ℤ) from rfl, zpow_natCast]; exact h
      have hq : q = (2 : ℚ) ^ expo q := le_antisymm h2 h1
      have h3 : q / ulp q = ((2 ^ 52 : ℤ) : ℚ) := by
        rw [div_eq_iff (ne_of_gt (ulp_pos q)), ← pow_expo]; exact hq
      rw [h3, rne_intCast] at hm
      omega
    refine ⟨2 ^ 52, expo q - 51, ?_, by norm_num, by omega, by omega⟩
    rw [hfl, e, show expo q - 51 = 1 + (expo q - 52) by ring, zpow_add₀ (by norm_num)]
    push_cast; ring
  · exact ⟨m, expo q - 52, hfl, by rw [abs_of_nonneg hm0]; exact lt, by omega, by omega⟩

/-- **The rounded value is a finite binary64 value** (`|q| ≤ 2^1023`; beyond the largest finite value IEEE-754
    overflows to infinity, which `fl64` does not model) -/
theorem fl64_f64exact (q : ℚ) (h : |q| ≤ 2 ^ 1023) : F64Exact (fl64 q) := by
  rcases lt_trichotomy q 0 with hq | hq | hq
  · have := fl64_f64exact_pos (q := -q) (by linarith) (le_trans (neg_le_abs q) h)
    rw [fl64_neg] at this
    simpa using f64exact_neg this
  · rw [hq, fl64_zero]; exact ⟨0, 0, by simp, by norm_num, by norm_num, by norm_num⟩
  · exact fl64_f64exact_pos hq (le_trans (le_abs_self q) h)

/-- rounding is idempotent -/
theorem fl64_idem (q : ℚ) (h : |q| ≤ 2 ^ 1023) : fl64 (fl64 q) = fl64 q :=
  fl64_exact _ (fl64_f64exact q h)

/-! ### `fl64 q` is a nearest binary64 value -/

/-- no integer is nearer to `x` than `rne x` -/
theorem rne_nearest (x : ℚ) (n : ℤ) : |x - rne x| ≤ |x - n| := by
  by_cases h : n = rne x
  · rw [h]
  · have h1 := (rne_spec x).dist_le
    have h2 : (1 : ℚ) ≤ |((n - rne x : ℤ) : ℚ)| := by
      rw [← Int.cast_abs]
      have : 1 ≤ |n - rne x| := Int.one_le_abs (sub_ne_zero.mpr h)
      exact_mod_cast this
    have h3 : ((n - rne x : ℤ) : ℚ) = (x - rne x) - (x - n) := by push_cast; ring
    rw [h3] at h2
    have h4 := abs_sub (x - rne x) (x - n)
    linarith

/-- a binary64 value at least as large in magnitude as `2^(expo q)`, or any binary64 value when `q` is in the
    subnormal range, is a multiple of `ulp q` -/
theorem f64exact_grid {q y : ℚ} (hy : F64Exact y) (h : expo q = -1022 ∨ (2 : ℚ) ^ expo q ≤ |y|) :
    ∃ k : ℤ, y = (k : ℚ) * ulp q := by
  obtain ⟨m, e, hy, hm, he, _⟩ := hy
  have hexp : expo q - 52 ≤ e := by
    rcases h with h | h
    · omega
    · have hpos : (0 : ℚ) < (2 : ℚ) ^ e := zpow_pos (by norm_num) _
      have habs : |y| < (2 : ℚ) ^ (53 + e) := by
        rw [hy, abs_mul, abs_of_pos hpos, zpow_add₀ (by norm_num)]
        have : |(m : ℚ)| < (2 : ℚ) ^ (53 : ℤ) := by
          have : ((|m| : ℤ) : ℚ) < ((2 ^ 53 : ℤ) : ℚ) := by exact_mod_cast hm
          rw [Int.cast_abs] at this
          norm_num at this ⊢; exact this
        exact mul_lt_mul_of_pos_right this hpos
      have := (zpow_lt_zpow_iff_right₀ (a := (2 : ℚ)) (by norm_num)).mp (lt_of_le_of_lt h habs)
      omega
  obtain ⟨k, hk⟩ : ∃ k : ℕ, e = (expo q - 52) + k := ⟨(e - (expo q - 52)).toNat, by omega⟩
  refine ⟨m * 2 ^ k, ?_⟩
  unfold ulp
  generalize expo q = E at hk ⊢
  rw [hy, hk, zpow_add₀ (by norm_num), zpow_natCast]
  push_cast; ring

/-- the case of `fl64_nearest` that is not a consequence of monotonicity: `q` was rounded down and `y` is above -/
theorem fl64_nearest_aux {q y : ℚ} (hy : F64Exact y) (h1 : q ≤ y) (h2 : fl64 q < q) :
    q - fl64 q ≤ y - q := by
  have hU := ulp_pos q
  obtain ⟨n, hn⟩ : ∃ n, rne (q / ulp q) = n := ⟨_, rfl⟩
  have hfl : fl64 q = (n : ℚ) * ulp q := by unfold fl64; rw [hn]
  have hq : q = q / ulp q * ulp q := (div_mul_cancel₀ _ (ne_of_gt hU)).symm
  have hnx : (n : ℚ) < q / ulp q := by
    rw [lt_div_iff₀ hU, ← hfl]; exact h2
  -- the next grid point is at most `y`
  have key : ((n + 1 : ℤ) : ℚ) * ulp q ≤ y := by
    by_cases hg : expo q = -1022 ∨ (2 : ℚ) ^ expo q ≤ |y|
    · obtain ⟨k, hk⟩ := f64exact_grid hy hg
      have : (n : ℚ) < (k : ℚ) := by
        have : q / ulp q ≤ (k : ℚ) := by rw [div_le_iff₀ hU, ← hk]; exact h1
        linarith
      have : n + 1 ≤ k := by have : n < k := by exact_mod_cast this
                             omega
      rw [hk]
      exact mul_le_mul_of_nonneg_right (by exact_mod_cast this) (le_of_lt hU)
    · rw [not_or, not_le] at hg
      obtain ⟨hg1, hg2⟩ := hg
      have hlt : -1022 < expo q := lt_of_le_of_ne (expo_ge q) (Ne.symm hg1)
      have hq0 : q ≠ 0 := by
        rintro rfl; rw [fl64_zero] at h2; exact lt_irrefl _ h2
      have hqabs := pow_expo_le_abs hq0 hlt
      have hyabs := abs_lt.mp hg2
      rcases lt_or_gt_of_ne hq0 with hneg | hpos
      · -- `q ≤ -2^(expo q) = -2^52·ulp q`, so `n + 1 ≤ -2^52`
        rw [abs_of_neg hneg] at hqabs
        have hp := pow_expo q
        have hx : q / ulp q ≤ ((-(2 ^ 52) : ℤ) : ℚ) := by
          rw [div_le_iff₀ hU, Int.cast_neg, neg_mul, ← hp]; linarith
        have : n + 1 ≤ -(2 ^ 52) := by
          have : (n : ℚ) < ((-(2 ^ 52) : ℤ) : ℚ) := lt_of_lt_of_le hnx hx
          have : n < -(2 ^ 52) := by exact_mod_cast this
          omega
        have h3 : ((n + 1 : ℤ) : ℚ) * ulp q ≤ ((-(2 ^ 52) : ℤ) : ℚ) * ulp q :=
          mul_le_mul_of_nonneg_right (by exact_mod_cast this) (le_of_lt hU)
        rw [Int.cast_neg, neg_mul, ← hp] at h3
        linarith [hyabs.1]
      · rw [abs_of_pos hpos] at hqabs
        linarith
  have hnear := rne_nearest (q / ulp q) (n + 1)
  rw [hn, abs_of_pos (by linarith), abs_of_neg (by
    have : q / ulp q - ((n + 1 : ℤ) : ℚ) ≤ 0 := by
      have := (rne_spec (q / ulp q)).dist_le
      rw [hn, abs_of_pos (by linarith)] at this
      push_cast; linarith
    rcases eq_or_lt_of_le this with e | l
    · exfalso
      -- x = n + 1 is an integer, so rne x = x, contradiction with n < x
      have : q / ulp q = ((n + 1 : ℤ) : ℚ) := by linarith
      rw [this, rne_intCast] at hn; omega
    · exact l)] at hnear
  have h5 := mul_le_mul_of_nonneg_right hnear (le_of_lt hU)
  have h6 : (q / ulp q - n) * ulp q = q - fl64 q := by rw [sub_mul, ← hq, hfl]
  have h7 : -(q / ulp q - ((n + 1 : ℤ) : ℚ)) * ulp q = ((n + 1 : ℤ) : ℚ) * ulp q - q := by
    rw [neg_mul, sub_mul, ← hq]; ring
  rw [h6, h7] at h5
  linarith

/-- **`fl64 q` is a nearest binary64 value**: no finite binary64 value is closer to `q` -/
theorem fl64_nearest (q y : ℚ) (hy : F64Exact y) : |fl64 q - q| ≤ |y - q| := by
  rcases le_total q y with h | h
  · rcases le_or_gt q (fl64 q) with h2 | h2
    · have := fl64_mono h
      rw [fl64_exact y hy] at this
      rw [abs_of_nonneg (by linarith), abs_of_nonneg (by linarith)]; linarith
    · have := fl64_nearest_aux hy h h2
      rw [abs_of_neg (by linarith), abs_of_nonneg (by linarith)]; linarith
  · rcases le_or_gt (fl64 q) q with h2 | h2
    · have := fl64_mono h
      rw [fl64_exact y hy] at this
      rw [abs_of_nonpos (by linarith), abs_of_nonpos (by linarith)]; linarith
    · have := fl64_nearest_aux (q := -q) (y := -y) (f64exact_neg hy) (by linarith)
        (by rw [fl64_neg]; linarith)
      rw [fl64_neg] at this
      rw [abs_of_pos (by linarith), abs_of_nonpos (by linarith)]; linarith

/-- in a tie (`q` half way between two neighbouring values of its binade) the significand chosen is even -/
theorem fl64_tie_even (q : ℚ) (h : |fl64 q - q| = ulp q / 2) : Even (rne (q / ulp q)) := by
  rw [fl64_sub, abs_mul, abs_of_pos (ulp_pos q)] at h
  have h1 : |(rne (q / ulp q) : ℚ) - q / ulp q| = 1 / 2 := by
    have := ne_of_gt (ulp_pos q)
    field_simp at h ⊢; linarith
  rcases rne_spec (q / ulp q) with h2 | h2
  · rw [abs_sub_comm] at h1; rw [h1] at h2; exact absurd h2 (lt_irrefl _)
  · exact h2.2

/-! ### evaluation rules and non-vacuity -/

theorem expo_eq_of_normal {q : ℚ} {k : ℤ} (hk : -1022 ≤ k) (h1 : (2 : ℚ) ^ k ≤ |q|)
    (h2 : |q| < (2 : ℚ) ^ (k + 1)) : expo q = k := by
  unfold expo; rw [log2_eq h1 h2]; exact max_eq_left hk

theorem expo_eq_of_subnormal {q : ℚ} (h0 : q ≠ 0) (h : |q| < (2 : ℚ) ^ (-1022 : ℤ)) : expo q = -1022 := by
  have : Int.log 2 |q| < -1022 :=
    (Int.lt_zpow_iff_log_lt (by norm_num) (abs_pos.mpr h0)).mp (by exact_mod_cast h)
  unfold expo; exact max_eq_right (le_of_lt this)

/-- normal range: `2^k ≤ |q| < 2^(k+1)`, `k ≥ -1022`: `fl64 q = n·2^(k-52)`, `n` the nearest integer (ties to
    even) to `q / 2^(k-52)` -/
theorem fl64_eq_of_normal {q : ℚ} {k n : ℤ} (hk : -1022 ≤ k) (h1 : (2 : ℚ) ^ k ≤ |q|)
    (h2 : |q| < (2 : ℚ) ^ (k + 1)) (hn : IsRne (q / (2 : ℚ) ^ (k - 52)) n) :
    fl64 q = (n : ℚ) * (2 : ℚ) ^ (k - 52) := by
  unfold fl64 ulp; rw [expo_eq_of_normal hk h1 h2, rne_eq hn]

/-- subnormal range: `0 < |q| < 2^-1022`: `fl64 q = n·2^-1074` -/
theorem fl64_eq_of_subnormal {q : ℚ} {n : ℤ} (h0 : q ≠ 0) (h : |q| < (2 : ℚ) ^ (-1022 : ℤ))
    (hn : IsRne (q / (2 : ℚ) ^ (-1074 : ℤ)) n) : fl64 q = (n : ℚ) * (2 : ℚ) ^ (-1074 : ℤ) := by
  unfold fl64 ulp; rw [expo_eq_of_subnormal h0 h]
  rw [show (-1022 - 52 : ℤ) = -1074 by norm_num, rne_eq hn]

/-- `0.1` rounds to the well known double `0x3FB999999999999A = 3602879701896397 / 2^55` -/
theorem fl64_one_tenth : fl64 (1 / 10) = 3602879701896397 / 2 ^ 55 := by
  rw [fl64_eq_of_normal (k := -4) (n := 7205759403792794) (by norm_num) (by norm_num [abs_of_pos])
    (by norm_num [abs_of_pos]) (Or.inl (by norm_num [abs_lt]))]
  norm_num

/-- `1/3` is not a binary64 value: it rounds to `0x3FD5555555555555 = 6004799503160661 / 2^54` -/
theorem fl64_one_third : fl64 (1 / 3) = 6004799503160661 / 2 ^ 54 ∧ fl64 (1 / 3) ≠ 1 / 3 := by
  have h : fl64 (1 / 3) = 6004799503160661 / 2 ^ 54 := by
    rw [fl64_eq_of_normal (k := -2) (n := 6004799503160661) (by norm_num) (by norm_num [abs_of_pos])
      (by norm_num [abs_of_pos]) (Or.inl (by norm_num [abs_lt]))]
    norm_num
  exact ⟨h, by rw [h]; norm_num⟩

theorem zpow_lt_2 {a b : ℤ} (h : a < b) : (2 : ℚ) ^ a < (2 : ℚ) ^ b :=
  zpow_lt_zpow_right₀ (by norm_num) h

/-- half the smallest subnormal is a tie between `0` and `2^-1074`: it rounds to the even one, `0` -/
example : fl64 ((2 : ℚ) ^ (-1075 : ℤ)) = 0 := by
  have hp : (0 : ℚ) < (2 : ℚ) ^ (-1075 : ℤ) := zpow_pos (by norm_num) _
  rw [fl64_eq_of_subnormal (n := 0) (ne_of_gt hp) (by rw [abs_of_pos hp]; exact zpow_lt_2 (by norm_num))]
  · simp
  · right
    rw [← zpow_sub₀ (by norm_num)]
    norm_num

/-- the smallest subnormal `2^-1074` is a binary64 value -/
example : fl64 ((2 : ℚ) ^ (-1074 : ℤ)) = (2 : ℚ) ^ (-1074 : ℤ) := by
  have hp : (0 : ℚ) < (2 : ℚ) ^ (-1074 : ℤ) := zpow_pos (by norm_num) _
  rw [fl64_eq_of_subnormal (n := 1) (ne_of_gt hp) (by rw [abs_of_pos hp]; exact zpow_lt_2 (by norm_num))]
  · simp
  · left
    rw [div_self (ne_of_gt hp)]; norm_num

/-- … and so is every value `F64Exact` describes, e.g. the largest finite one, `(2^53 − 1)·2^971` -/
example : fl64 ((2 ^ 53 - 1) * (2 : ℚ) ^ (971 : ℤ)) = (2 ^ 53 - 1) * (2 : ℚ) ^ (971 : ℤ) :=
  fl64_exact _ ⟨2 ^ 53 - 1, 971, by congr 1; norm_num, by norm_num, by norm_num, by norm_num⟩

end Rs1090.Proofs.IeeeRound
