/-
C14 helper lemmas (audit-c M5): the checked form of `aircraft_information` (`infoChecked`: JSON load,
`&start[2..]` + `from_str_radix(..).unwrap()`, `Regex::new(..).unwrap()` as checked operations on the
generated texts) never reaches one of its panic sites on the generated data, and is the lookup `info`.
-/
import Rs1090.Proofs.TailDefs
namespace Rs1090.Proofs.Tail
open Rs1090 Rs1090.Model.Tail Rs1090.Gen.Tail

/-- the text `s` passes `&s[2..]` and `from_str_radix(.., 16).unwrap()` and means `v` -/
def boundOk (s : String) (v : Nat) : Bool :=
  match parseBound s with
  | .ok w => w == v
  | _ => false

/-- every `start` / `end` text parses, to the bound the block table holds -/
def boundsOk : List (String × String) → List Block → Bool
  | [], [] => true
  | (s, e) :: rs, b :: bs => boundOk s b.start && boundOk e b.end_ && boundsOk rs bs
  | _, _ => false

/-- every category pattern of every block was compiled by the extractor -/
def catsCompiled (cs : List Category) : Bool := cs.all (fun c => c.compiled.isSome)

theorem boundOk_parse {s : String} {v : Nat} (h : boundOk s v = true) : parseBound s = .ok v := by
  unfold boundOk at h
  split at h
  · rename_i w hw; rw [hw]; simp at h; rw [h]
  · cases h

theorem blockFindChecked_eq (h : Nat) : ∀ (raws : List (String × String)) (bs : List Block),
    boundsOk raws bs = true → blockFindChecked h raws bs = .ok (blockFind h bs) := by
  intro raws
  induction raws with
  | nil =>
    intro bs hb
    cases bs with
    | nil => rfl
    | cons b bs => simp [boundsOk] at hb
  | cons r rs ih =>
    intro bs hb
    obtain ⟨s, e⟩ := r
    cases bs with
    | nil => simp [boundsOk] at hb
    | cons b bs =>
      simp only [boundsOk, Bool.and_eq_true] at hb
      obtain ⟨⟨h1, h2⟩, h3⟩ := hb
      unfold blockFindChecked blockFind
      rw [boundOk_parse h1, Outcome.bind_ok, boundOk_parse h2, Outcome.bind_ok]
      split
      · rfl
      · exact ih bs h3

theorem catFindChecked_eq (t : List Char) : ∀ cs : List Category, catsCompiled cs = true →
    catFindChecked t cs = .ok (catFind t cs) := by
  intro cs
  induction cs with
  | nil => intro _; rfl
  | cons c cs ih =>
    intro hc
    simp only [catsCompiled, List.all_cons, Bool.and_eq_true] at hc
    obtain ⟨h1, h2⟩ := hc
    unfold catFindChecked catFind
    cases hcc : c.compiled with
    | none => rw [hcc] at h1; cases h1
    | some r =>
      have hre : c.re = r := by unfold Category.re; rw [hcc]; rfl
      simp only [hre]
      split
      · rfl
      · exact ih h2

theorem blockFind_mem (h : Nat) : ∀ (bs : List Block) (b : Block), blockFind h bs = some b → b ∈ bs := by
  intro bs
  induction bs with
  | nil => intro b hb; cases hb
  | cons x xs ih =>
    intro b hb
    unfold blockFind at hb
    split at hb
    · cases hb; exact List.mem_cons_self ..
    · exact List.mem_cons_of_mem _ (ih b hb)

set_option maxRecDepth 100000 in
/-- GENERATED FACT, checked in the kernel: every `start`/`end` text of patterns.json begins with two
    one-byte characters, the rest parses as a hexadecimal `u32`, and gives the bound of `Gen.Tail.blocks`. -/
theorem bounds_ok : boundsOk blockBounds blocks = true := by decide +kernel

set_option maxRecDepth 100000 in
/-- GENERATED FACT: every category pattern is in the regex subset the extractor accepts (was compiled). -/
theorem cats_compiled : blocks.all (fun b => catsCompiled b.cats) = true := by decide +kernel

/-- GENERATED FACT: patterns.json has the shape serde needs. -/
theorem patterns_load : loadPatterns = .ok () := by decide

/-- on the generated data the checked function is the plain lookup -/
theorem infoChecked_eq (h : Nat) : infoChecked h = info h := by
  unfold infoChecked info
  cases ht : tailStr h with
  | err e => rfl
  | panic s => rfl
  | ok reg =>
    simp only [Outcome.bind_ok]
    rw [patterns_load, Outcome.bind_ok, blockFindChecked_eq h _ _ bounds_ok, Outcome.bind_ok]
    unfold infoOf blockOf
    cases hb : blockFind h blocks with
    | none => rfl
    | some b =>
      cases reg with
      | none => rfl
      | some t =>
        have hmem := blockFind_mem h _ _ hb
        have hc : catsCompiled b.cats = true := (List.all_eq_true.mp cats_compiled) b hmem
        simp only [catFindChecked_eq t _ hc, Outcome.bind_ok, Option.bind_some]
        cases catFind t b.cats <;> rfl

end Rs1090.Proofs.Tail
