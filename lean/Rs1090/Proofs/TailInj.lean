/-
C14 — formatting is injective on the registrations the model produces:
`wf r₁ → wf r₂ → render r₁ = render r₂ → r₁ = r₂`.

Ingredients, all checked by the kernel on the generated tables:
 * the digit characters and the two alphabets are duplicate free, digits and letters are disjoint;
 * every formatted registration starts with the constant national prefix `key r` of its scheme / row;
 * prefixes of different schemes / rows are incomparable (neither is a prefix of the other), except
   - the arms of `hl_reg` (all `HL`): their value ranges are pairwise disjoint,
   - stride rows with the same prefix: same alphabet and disjoint first-letter ranges.
-/
import Rs1090.Proofs.TailRows
import Rs1090.Proofs.TailN
namespace Rs1090.Proofs.Tail
open Rs1090 Rs1090.Model.Tail Rs1090.Gen.Tail

/-! ### characters -/

theorem dch_inj : ∀ a, a < 16 → ∀ b, b < 16 → dch a = dch b → a = b := by decide
theorem dch_ne_symL : ∀ a, a < 10 → ∀ b, b < 24 → dch a ≠ symL b := by decide
theorem limited_nodup : LIMITED_ALPHABET.Nodup := by decide
theorem dch_zero : dch 0 = '0' := by decide

theorem symL_inj (a b : Nat) (ha : a < LIMITED_ALPHABET.length) (hb : b < LIMITED_ALPHABET.length)
    (h : symL a = symL b) : a = b :=
  getD_inj_of_nodup limited_nodup ha hb h

theorem flatMap_dec (ds : List Nat) (h : ∀ d ∈ ds, d < 10) : ds.flatMap dec = ds.map dch := by
  induction ds with
  | nil => rfl
  | cons d ds ih =>
    have hd : d < 10 := h d (by simp)
    simp only [List.flatMap_cons, List.map_cons]
    rw [ih (fun x hx => h x (by simp [hx]))]
    unfold dec
    rw [digits_of_lt hd]
    rfl

/-- digits-then-letters bodies of the N and JA schemes -/
theorem dl_inj (ds ds' ls ls' : List Nat) (h1 : ∀ d ∈ ds, d < 10) (h1' : ∀ d ∈ ds', d < 10)
    (h2 : ∀ l ∈ ls, l < LIMITED_ALPHABET.length) (h2' : ∀ l ∈ ls', l < LIMITED_ALPHABET.length)
    (h : ds.flatMap dec ++ ls.map symL = ds'.flatMap dec ++ ls'.map symL) : ds = ds' ∧ ls = ls' := by
  rw [flatMap_dec ds h1, flatMap_dec ds' h1'] at h
  exact split_inj dch symL (· < 10) (· < LIMITED_ALPHABET.length)
    (fun a b ha hb e => dch_inj a (by omega) b (by omega) e) symL_inj
    (fun a b ha hb => dch_ne_symL a ha b (by rw [limited_len] at hb; exact hb)) ds ds' ls ls' h1 h1' h2 h2' h

/-! ### incomparable prefixes -/

def comparableB (a b : List Char) : Bool := a.isPrefixOf b || b.isPrefixOf a

theorem comparableB_of {a b : List Char} (h : a <+: b ∨ b <+: a) : comparableB a b = true := by
  unfold comparableB
  rcases h with h | h
  · rw [List.isPrefixOf_iff_prefix.mpr h]; rfl
  · rw [List.isPrefixOf_iff_prefix.mpr h]; simp

theorem comparableB_comm (a b : List Char) : comparableB a b = comparableB b a := by
  unfold comparableB; exact Bool.or_comm _ _

def fixedKeys : List (List Char) := [['N'], ['J', 'A'], ['H', 'L']]

theorem fixed_fixed : pairwiseB (fun a b => !comparableB a b) fixedKeys = true := by decide
theorem fixed_num : numericRows.all (fun m => fixedKeys.all fun f => !comparableB f (numKey m)) = true := by
  decide +kernel
theorem fixed_stride : strideRows.all (fun m => fixedKeys.all fun f => !comparableB f m.pre) = true := by
  decide +kernel
theorem num_stride : numericRows.all (fun m => strideRows.all fun s => !comparableB (numKey m) s.pre) = true := by
  decide +kernel
theorem num_num : pairwiseB (fun a b => !comparableB (numKey a) (numKey b)) numericRows = true := by
  decide +kernel

/-- two stride rows never produce the same string: incomparable prefixes, or the same alphabet and disjoint
    ranges of first letters -/
def strideCompat (a b : StrideRow) : Bool :=
  !comparableB a.pre b.pre ||
    (a.pre == b.pre && a.alphabet == b.alphabet && (decide (strideHi a < strideLo b) || decide (strideHi b < strideLo a)))

theorem stride_stride : pairwiseB strideCompat strideRows = true := by decide +kernel
theorem stride_nodup : strideRows.all (fun m => decide m.alphabet.Nodup) = true := by decide +kernel

/-- the value ranges of the `hl_reg` arms are pairwise disjoint -/
theorem hl_hl : pairwiseB (fun a b => decide (hlVHi a < hlVLo b) || decide (hlVHi b < hlVLo a)) hlRows = true := by
  decide +kernel

theorem getD_mem {α} [Inhabited α] {T : List α} {k : Nat} (h : k < T.length) : T.getD k default ∈ T := by
  simp only [List.getD_eq_getElem?_getD, List.getElem?_eq_getElem h, Option.getD_some]
  exact List.getElem_mem h

theorem getD_eq {α} [Inhabited α] {T : List α} {k : Nat} (h : k < T.length) : T.getD k default = T[k] := by
  simp only [List.getD_eq_getElem?_getD, List.getElem?_eq_getElem h, Option.getD_some]

/-! ### every formatted registration starts with its national prefix -/

theorem num_template (m : NumRow) (hm : m ∈ numericRows) :
    m.template = numKey m ++ List.replicate (numW m) '0' ∧ numVMax m < 10 ^ numW m ∧ 0 < numW m := by
  have hok := List.all_eq_true.mp num_rows_ok m hm
  simp only [numRowOk, Bool.and_eq_true, decide_eq_true_eq, beq_iff_eq] at hok
  exact ⟨hok.1.2, hok.1.1.1.2, hok.1.1.2⟩

/-- a numeric registration is its row's prefix followed by the zero-padded number -/
theorem render_num (k v : Nat) (hk : k < numericRows.length) (hv : v ≤ numVMax (numericRows.getD k default)) :
    render (.num k v) = numKey (numericRows.getD k default) ++
      (List.replicate (numW (numericRows.getD k default) - (digits 10 v).length) 0 ++ digits 10 v).map dch := by
  generalize hm : numericRows.getD k default = m at hv ⊢
  have hmem : m ∈ numericRows := hm ▸ getD_mem hk
  obtain ⟨ht, hmax, hW⟩ := num_template m hmem
  have hlen := digits_length_le 10 (by omega) v (numW m) (by omega) hW
  simp only [render, hm]
  have hdl : (dec v).length = (digits 10 v).length := by unfold dec; rw [List.length_map]
  rw [hdl]
  have hL : m.template.length = (numKey m).length + numW m := by
    conv => lhs; rw [ht]
    simp
  rw [hL]
  have : (numKey m).length + numW m - (digits 10 v).length = (numKey m).length + (numW m - (digits 10 v).length) := by
    omega
  rw [this]
  conv => lhs; rw [ht]
  rw [List.take_length_add_append, List.take_replicate, List.append_assoc]
  congr 1
  rw [List.map_append, List.map_replicate, dch_zero]
  congr 1
  congr 1
  omega

theorem key_prefix (r : Reg) (hr : wf r) : key r <+: render r := by
  cases r with
  | n ds ls => exact ⟨_, rfl⟩
  | ja ds ls => exact ⟨_, rfl⟩
  | hl k v => exact ⟨_, rfl⟩
  | num k v => rw [render_num k v hr.1 hr.2]; exact ⟨_, rfl⟩
  | stride k i1 i2 i3 => exact ⟨_, rfl⟩

theorem comparable_of_render_eq (r₁ r₂ : Reg) (h₁ : wf r₁) (h₂ : wf r₂) (h : render r₁ = render r₂) :
    comparableB (key r₁) (key r₂) = true :=
  comparableB_of (List.prefix_or_prefix_of_prefix (key_prefix r₁ h₁) (h ▸ key_prefix r₂ h₂))

/-! ### same scheme -/

theorem hl_inj (k v k' v' : Nat) (h₁ : wf (.hl k v)) (h₂ : wf (.hl k' v'))
    (h : render (.hl k v) = render (.hl k' v')) : Reg.hl k v = Reg.hl k' v' := by
  obtain ⟨hk, hlo, hhi⟩ := h₁
  obtain ⟨hk', hlo', hhi'⟩ := h₂
  have hb : ∀ j, j < hlRows.length → hlVHi (hlRows.getD j default) < 2 ^ 32 := by
    intro j hj
    have := List.all_eq_true.mp hl_rows_ok _ (getD_mem hj)
    simp only [hlRowOk, Bool.and_eq_true, decide_eq_true_eq] at this
    unfold hlVHi; exact this.1.2
  have hv : v < 16 ^ 33 := by have := hb k hk; simp only [Nat.reducePow] at this ⊢; omega
  have hv' : v' < 16 ^ 33 := by have := hb k' hk'; simp only [Nat.reducePow] at this ⊢; omega
  simp only [render, hex, List.cons.injEq, true_and] at h
  have hd := map_inj_on dch (· < 16) (fun a b ha hb e => dch_inj a ha b hb e) _ _
    (digits_lt_base 16 (by omega) v) (digits_lt_base 16 (by omega) v') h
  have hvv := digits_inj 16 (by omega) hv hv' hd
  subst hvv
  have hkk : k = k' := by
    apply Classical.byContradiction
    intro hne
    rw [getD_eq hk] at hlo hhi
    rw [getD_eq hk'] at hlo' hhi'
    rcases Nat.lt_or_gt_of_ne hne with hlt | hlt
    · have := pairwiseB_get _ _ hl_hl k k' hk hk' hlt
      simp only [Bool.or_eq_true, decide_eq_true_eq] at this
      omega
    · have := pairwiseB_get _ _ hl_hl k' k hk' hk hlt
      simp only [Bool.or_eq_true, decide_eq_true_eq] at this
      omega
  rw [hkk]

theorem num_inj (k v k' v' : Nat) (h₁ : wf (.num k v)) (h₂ : wf (.num k' v'))
    (h : render (.num k v) = render (.num k' v')) : Reg.num k v = Reg.num k' v' := by
  have hcmp := comparable_of_render_eq _ _ h₁ h₂ h
  obtain ⟨hk, hv⟩ := h₁
  obtain ⟨hk', hv'⟩ := h₂
  have hkk : k = k' := by
    apply Classical.byContradiction
    intro hne
    simp only [key, getD_eq hk, getD_eq hk'] at hcmp
    rcases Nat.lt_or_gt_of_ne hne with hlt | hlt
    · have := pairwiseB_get _ _ num_num k k' hk hk' hlt
      rw [hcmp] at this; cases this
    · have := pairwiseB_get _ _ num_num k' k hk' hk hlt
      rw [comparableB_comm, hcmp] at this; cases this
  subst hkk
  rw [render_num k v hk hv, render_num k v' hk hv'] at h
  have h := List.append_cancel_left h
  generalize hm : numericRows.getD k default = m at h hv hv'
  have hmem : m ∈ numericRows := hm ▸ getD_mem hk
  obtain ⟨_, hmax, hW⟩ := num_template m hmem
  have hall : ∀ w, ∀ d ∈ List.replicate (numW m - (digits 10 w).length) 0 ++ digits 10 w, d < 10 := by
    intro w d hd
    rcases List.mem_append.mp hd with hd | hd
    · rw [List.mem_replicate] at hd; omega
    · exact digits_lt_base 10 (by omega) w d hd
  have hd := map_inj_on dch (· < 10) (fun a b ha hb e => dch_inj a (by omega) b (by omega) e) _ _
    (hall v) (hall v') h
  have hval := congrArg (val 10 0) hd
  rw [val_replicate_zero, val_replicate_zero] at hval
  have hlt : 10 ^ numW m ≤ 10 ^ 33 ∨ True := Or.inr trivial
  have hb : ∀ w, w ≤ numVMax m → w < 10 ^ 33 := by
    intro w hw
    have hok := List.all_eq_true.mp num_rows_ok m hmem
    simp only [numRowOk, Bool.and_eq_true, decide_eq_true_eq] at hok
    have := hok.1.1.1.1
    simp only [Nat.reducePow] at this ⊢
    omega
  rw [val_digits 10 (by omega) v (hb v hv), val_digits 10 (by omega) v' (hb v' hv')] at hval
  rw [hval]

theorem stride_inj (k i1 i2 i3 k' j1 j2 j3 : Nat) (h₁ : wf (.stride k i1 i2 i3)) (h₂ : wf (.stride k' j1 j2 j3))
    (h : render (.stride k i1 i2 i3) = render (.stride k' j1 j2 j3)) :
    Reg.stride k i1 i2 i3 = Reg.stride k' j1 j2 j3 := by
  have hcmp := comparable_of_render_eq _ _ h₁ h₂ h
  obtain ⟨hk, a1, a2, a3, alo, ahi⟩ := h₁
  obtain ⟨hk', b1, b2, b3, blo, bhi⟩ := h₂
  simp only [key] at hcmp
  simp only [render] at h
  have hnd : ∀ j, j < strideRows.length → (strideRows.getD j default).alphabet.Nodup := by
    intro j hj
    have := List.all_eq_true.mp stride_nodup _ (getD_mem hj)
    simpa using this
  -- rows with comparable prefixes: equal prefix, same alphabet, disjoint first letters
  have hrow : k ≠ k' → (strideRows.getD k default).pre = (strideRows.getD k' default).pre ∧
      (strideRows.getD k default).alphabet = (strideRows.getD k' default).alphabet ∧
      (strideHi (strideRows.getD k default) < strideLo (strideRows.getD k' default) ∨
       strideHi (strideRows.getD k' default) < strideLo (strideRows.getD k default)) := by
    intro hne
    rcases Nat.lt_or_gt_of_ne hne with hlt | hlt
    · have := pairwiseB_get _ _ stride_stride k k' hk hk' hlt
      rw [← getD_eq hk, ← getD_eq hk'] at this
      simp only [strideCompat, hcmp, Bool.not_true, Bool.false_or, Bool.and_eq_true, beq_iff_eq, Bool.or_eq_true,
        decide_eq_true_eq] at this
      exact ⟨this.1.1, this.1.2, this.2⟩
    · have := pairwiseB_get _ _ stride_stride k' k hk' hk hlt
      rw [← getD_eq hk, ← getD_eq hk'] at this
      rw [comparableB_comm] at hcmp
      simp only [strideCompat, hcmp, Bool.not_true, Bool.false_or, Bool.and_eq_true, beq_iff_eq, Bool.or_eq_true,
        decide_eq_true_eq] at this
      exact ⟨this.1.1.symm, this.1.2.symm, this.2.symm⟩
  by_cases hkk : k = k'
  · subst hkk
    have h := List.append_cancel_left h
    simp only [List.cons.injEq, and_true] at h
    have nd := hnd k hk
    rw [getD_inj_of_nodup nd a1 b1 h.1, getD_inj_of_nodup nd a2 b2 h.2.1, getD_inj_of_nodup nd a3 b3 h.2.2]
  · exfalso
    obtain ⟨hpre, halph, hdis⟩ := hrow hkk
    rw [hpre] at h
    have h := List.append_cancel_left h
    simp only [List.cons.injEq, and_true] at h
    rw [halph] at h a1
    have := getD_inj_of_nodup (hnd k' hk') a1 b1 h.1
    omega

/-! ### different schemes -/

theorem not_cmp_fixed_num (f : List Char) (hf : f ∈ fixedKeys) (k : Nat) (hk : k < numericRows.length) :
    comparableB f (numKey (numericRows.getD k default)) = false := by
  have := List.all_eq_true.mp (List.all_eq_true.mp fixed_num _ (getD_mem hk)) f hf
  simpa using this

theorem not_cmp_fixed_stride (f : List Char) (hf : f ∈ fixedKeys) (k : Nat) (hk : k < strideRows.length) :
    comparableB f (strideRows.getD k default).pre = false := by
  have := List.all_eq_true.mp (List.all_eq_true.mp fixed_stride _ (getD_mem hk)) f hf
  simpa using this

theorem not_cmp_num_stride (k : Nat) (hk : k < numericRows.length) (j : Nat) (hj : j < strideRows.length) :
    comparableB (numKey (numericRows.getD k default)) (strideRows.getD j default).pre = false := by
  have := List.all_eq_true.mp (List.all_eq_true.mp num_stride _ (getD_mem hk)) _ (getD_mem hj)
  simpa using this

/-- **formatting is injective** on well-formed registrations -/
theorem render_inj (r₁ r₂ : Reg) (h₁ : wf r₁) (h₂ : wf r₂) (h : render r₁ = render r₂) : r₁ = r₂ := by
  have hcmp := comparable_of_render_eq r₁ r₂ h₁ h₂ h
  have hN : ['N'] ∈ fixedKeys := by decide
  have hJ : ['J', 'A'] ∈ fixedKeys := by decide
  have hH : ['H', 'L'] ∈ fixedKeys := by decide
  cases r₁ with
  | n ds ls =>
    cases r₂ with
    | n ds' ls' =>
      simp only [render, List.cons.injEq, true_and] at h
      obtain ⟨e1, e2⟩ := dl_inj ds ds' ls ls' h₁.1 h₂.1 h₁.2 h₂.2 h
      rw [e1, e2]
    | ja ds' ls' => simp only [key] at hcmp; exact absurd hcmp (by decide)
    | hl k' v' => simp only [key] at hcmp; exact absurd hcmp (by decide)
    | num k' v' => simp only [key] at hcmp; rw [not_cmp_fixed_num _ hN k' h₂.1] at hcmp; cases hcmp
    | stride k' j1 j2 j3 => simp only [key] at hcmp; rw [not_cmp_fixed_stride _ hN k' h₂.1] at hcmp; cases hcmp
  | ja ds ls =>
    cases r₂ with
    | n ds' ls' => simp only [key] at hcmp; exact absurd hcmp (by decide)
    | ja ds' ls' =>
      simp only [render, List.cons.injEq, true_and] at h
      obtain ⟨e1, e2⟩ := dl_inj ds ds' ls ls' h₁.1 h₂.1 h₁.2 h₂.2 h
      rw [e1, e2]
    | hl k' v' => simp only [key] at hcmp; exact absurd hcmp (by decide)
    | num k' v' => simp only [key] at hcmp; rw [not_cmp_fixed_num _ hJ k' h₂.1] at hcmp; cases hcmp
    | stride k' j1 j2 j3 => simp only [key] at hcmp; rw [not_cmp_fixed_stride _ hJ k' h₂.1] at hcmp; cases hcmp
  | hl k v =>
    cases r₂ with
    | n ds' ls' => simp only [key] at hcmp; exact absurd hcmp (by decide)
    | ja ds' ls' => simp only [key] at hcmp; exact absurd hcmp (by decide)
    | hl k' v' => exact hl_inj k v k' v' h₁ h₂ h
    | num k' v' => simp only [key] at hcmp; rw [not_cmp_fixed_num _ hH k' h₂.1] at hcmp; cases hcmp
    | stride k' j1 j2 j3 => simp only [key] at hcmp; rw [not_cmp_fixed_stride _ hH k' h₂.1] at hcmp; cases hcmp
  | num k v =>
    cases r₂ with
    | n ds' ls' =>
      simp only [key] at hcmp; rw [comparableB_comm, not_cmp_fixed_num _ hN k h₁.1] at hcmp; cases hcmp
    | ja ds' ls' =>
      simp only [key] at hcmp; rw [comparableB_comm, not_cmp_fixed_num _ hJ k h₁.1] at hcmp; cases hcmp
    | hl k' v' =>
      simp only [key] at hcmp; rw [comparableB_comm, not_cmp_fixed_num _ hH k h₁.1] at hcmp; cases hcmp
    | num k' v' => exact num_inj k v k' v' h₁ h₂ h
    | stride k' j1 j2 j3 => simp only [key] at hcmp; rw [not_cmp_num_stride k h₁.1 k' h₂.1] at hcmp; cases hcmp
  | stride k i1 i2 i3 =>
    cases r₂ with
    | n ds' ls' =>
      simp only [key] at hcmp; rw [comparableB_comm, not_cmp_fixed_stride _ hN k h₁.1] at hcmp; cases hcmp
    | ja ds' ls' =>
      simp only [key] at hcmp; rw [comparableB_comm, not_cmp_fixed_stride _ hJ k h₁.1] at hcmp; cases hcmp
    | hl k' v' =>
      simp only [key] at hcmp; rw [comparableB_comm, not_cmp_fixed_stride _ hH k h₁.1] at hcmp; cases hcmp
    | num k' v' =>
      simp only [key] at hcmp; rw [comparableB_comm, not_cmp_num_stride k' h₂.1 k h₁.1] at hcmp; cases hcmp
    | stride k' j1 j2 j3 => exact stride_inj k i1 i2 i3 k' j1 j2 j3 h₁ h₂ h

end Rs1090.Proofs.Tail
