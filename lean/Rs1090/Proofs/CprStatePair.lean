import Rs1090.Proofs.CprGlobalSpec
/-!
Globally unambiguous decoding of a pair whose two reports were encoded from TWO DIFFERENT positions — the
situation of a trajectory: the stored report of the other parity was encoded up to 10 s earlier, from where
the aircraft was then.

C04's `global_correct` is the special case of one point.  The zone arithmetic has slack: the decoder's
`⌊(n−1)·a − n·b + ½⌋` recovers the zone indices as long as `(n−1)·za − n·zb` — zero for one point — stays
within 2/5 (any bound below `½ − (2n−1)/2^18` works; `n ≤ 60`).  In degrees:

    |lat_e − lat_o| ≤ 12/295 °  (≈ 0.0407°, 4.5 km)        n = 60 latitude zones
    NL·(NL−1)·|lon_e − lon_o| ≤ 144 °                       (≈ 4.7 km at the equator, more elsewhere)

with `NL` the common number of longitude zones of the two recovered latitudes (the decoder refuses the pair
when they differ).  Under these two conditions the decoder returns exactly the encoder's lattice point of
the LATER report (`global_correct2`).
-/
namespace Rs1090.Proofs.Cpr
open Rs1090 Rs1090.Model.Cpr Rs1090.Spec.Cpr

/-- **zone index recovery for two nearby points**: `zone_floor` with the identity `(n−1)·za = n·zb`
    relaxed to `|(n−1)·za − n·zb| ≤ 2/5`. -/
theorem zone_floor2 (n : ℤ) (hn : 2 ≤ n) (hn' : n ≤ 60) (za zb : ℚ)
    (h : |((n : ℚ) - 1) * za - n * zb| ≤ 2 / 5) :
    ⌊((n : ℚ) - 1) * frac17 (rnd za) - n * frac17 (rnd zb) + 1 / 2⌋
      = n * (rnd zb / 131072) - (n - 1) * (rnd za / 131072) := by
  rw [frac17_eq, frac17_eq, Int.floor_eq_iff]
  have a1 := rnd_le za
  have a2 := lt_rnd za
  have b1 := rnd_le zb
  have b2 := lt_rnd zb
  obtain ⟨hl, hu⟩ := abs_le.mp h
  have hn1 : (0 : ℚ) ≤ (n : ℚ) - 1 := by
    have : (2 : ℚ) ≤ n := by exact_mod_cast hn
    linarith
  have hn0 : (0 : ℚ) ≤ (n : ℚ) := by linarith
  have hn60 : (n : ℚ) ≤ 60 := by exact_mod_cast hn'
  have e1 := mul_le_mul_of_nonneg_left a1 hn1
  have e2 := mul_le_mul_of_nonneg_left (le_of_lt a2) hn1
  have e3 := mul_le_mul_of_nonneg_left b1 hn0
  have e4 := mul_le_mul_of_nonneg_left (le_of_lt b2) hn0
  have hN : (0 : ℚ) < 131072 := by norm_num
  have eq : ((n : ℚ) - 1) * ((rnd za : ℚ) / 131072) - n * ((rnd zb : ℚ) / 131072)
      = (((n : ℚ) - 1) * (rnd za : ℚ) - n * (rnd zb : ℚ)) / 131072 := by ring
  push_cast
  constructor
  · have key : ((n : ℚ) - 1) * ((rnd za : ℚ) / 131072) - n * ((rnd zb : ℚ) / 131072) ≥ -(1 / 2) := by
      rw [eq, ge_iff_le, le_div_iff₀ hN]
      nlinarith
    linarith
  · have key : ((n : ℚ) - 1) * ((rnd za : ℚ) / 131072) - n * ((rnd zb : ℚ) / 131072) < 1 / 2 := by
      rw [eq, div_lt_iff₀ hN]
      nlinarith
    linarith

theorem zone_floor_model2 (n : ℕ) (hn : 2 ≤ n) (hn' : n ≤ 60) (za zb : ℚ)
    (h : |((n : ℚ) - 1) * za - n * zb| ≤ 2 / 5) :
    ⌊frac17 (rnd za) * ((n - 1 : ℕ) : ℚ) - frac17 (rnd zb) * (n : ℚ) + 1 / 2⌋
      = (n : ℤ) * (rnd zb / 131072) - ((n : ℤ) - 1) * (rnd za / 131072) := by
  have hz := zone_floor2 (n : ℤ) (by exact_mod_cast hn) (by exact_mod_cast hn') za zb (by exact_mod_cast h)
  have hc : ((n - 1 : ℕ) : ℚ) = (n : ℚ) - 1 := by
    have : 1 ≤ n := by omega
    rw [Nat.cast_sub this]; simp
  rw [hc]
  rw [← hz]
  congr 1
  push_cast
  ring

/-- the zone-index step `j` on an even report of one point and an odd report of another, at most
    12/295 ° apart in latitude -/
theorem gJ_enc2 (late lone lato lono : ℚ) (hbox : |late - lato| ≤ 12 / 295) :
    gJ (report 17 0 late lone) (report 17 1 lato lono)
      = 60 * (rnd (lato / dlat 1) / 131072) - 59 * (rnd (late / dlat 0) / 131072) := by
  unfold gJ
  rw [report_lat17 0 (by norm_num), report_lat17 1 (by norm_num)]
  have hb : |(((60 : ℤ) : ℚ) - 1) * (late / dlat 0) - ((60 : ℤ) : ℚ) * (lato / dlat 1)| ≤ 2 / 5 := by
    rw [dlat0, dlat1]
    have e : (((60 : ℤ) : ℚ) - 1) * (late / 6) - ((60 : ℤ) : ℚ) * (lato / (360 / 59))
        = 59 / 6 * (late - lato) := by push_cast; field_simp; ring
    rw [e, abs_mul, abs_of_pos (by norm_num : (0 : ℚ) < 59 / 6)]
    calc 59 / 6 * |late - lato| ≤ 59 / 6 * (12 / 295) := by
          apply mul_le_mul_of_nonneg_left hbox; norm_num
      _ = 2 / 5 := by norm_num
  have h := zone_floor2 60 (by norm_num) (by norm_num) (late / dlat 0) (lato / dlat 1) hb
  norm_num at h
  exact h

/-- **latitude recovery, two points** -/
theorem lat_recovered2 (late lone lato lono : ℚ) (he : -90 ≤ late ∧ late ≤ 90) (ho : -90 ≤ lato ∧ lato ≤ 90)
    (hbox : |late - lato| ≤ 12 / 295) :
    gLatE (report 17 0 late lone) (report 17 1 lato lono) = rlat 17 0 late ∧
    gLatO (report 17 0 late lone) (report 17 1 lato lono) = rlat 17 1 lato := by
  have hj := gJ_enc2 late lone lato lono hbox
  have b0 := rnd_bounds (dlat 0) (dlat_pos 0 (by norm_num)) 1966080 (by rw [dlat0]; norm_num) late he
  have b1 := rnd_bounds (dlat 1) (dlat_pos 1 (by norm_num)) 1933312 (by rw [dlat1]; norm_num) lato ho
  constructor
  · unfold gLatE
    rw [modulo_60, report_lat17 0 (by norm_num), dLatEven_eq,
      latE_wrap _ _ ⟨by omega, by omega⟩ (by rw [hj]; omega),
      rlat_eq_recv, recv17 _ _ (ne_of_gt (dlat_pos 0 (by norm_num))), dlat0]
  · unfold gLatO
    rw [modulo_59, report_lat17 1 (by norm_num), dLatOdd_eq,
      latO_wrap _ _ ⟨by omega, by omega⟩ (by rw [hj]; omega),
      rlat_eq_recv, recv17 _ _ (ne_of_gt (dlat_pos 1 (by norm_num))), dlat1]

theorem report_ne2 (late lone lato lono : ℚ) : report 17 1 lato lono ≠ report 17 0 late lone := by
  intro h
  have := congrArg Msg.parity h
  rw [report_parity0, report_parity1] at this
  cases this

/-- normal form of the two decodings of a pair encoded from two points -/
theorem airborne_enc2 (late lone lato lono : ℚ) (he : -90 ≤ late ∧ late ≤ 90) (ho : -90 ≤ lato ∧ lato ≤ 90)
    (hbox : |late - lato| ≤ 12 / 295) :
    let e := report 17 0 late lone
    let o := report 17 1 lato lono
    (airbornePosition e o =
      if NL (rlat 17 0 late) ≠ NL (rlat 17 1 lato) then .ok none
      else .ok (some ⟨rlat 17 1 lato, gLon e o (rlat 17 1 lato) 1 ((o.lon : ℚ) / cprMax)⟩)) ∧
    (airbornePosition o e =
      if NL (rlat 17 0 late) ≠ NL (rlat 17 1 lato) then .ok none
      else .ok (some ⟨rlat 17 0 late, gLon e o (rlat 17 0 late) 0 ((e.lon : ℚ) / cprMax)⟩)) := by
  intro e o
  obtain ⟨hE, hO⟩ := lat_recovered2 late lone lato lono he ho hbox
  have r0 := rlat_range_air 0 (by norm_num) late he
  have r1 := rlat_range_air 1 (by norm_num) lato ho
  have hpe : e.parity = .even := report_parity0 17 late lone
  have hpo : o.parity = .odd := report_parity1 17 lato lono
  obtain ⟨a1, a2⟩ := airbornePosition_eo e o hpe hpo
  have i0 : inLatRange (rlat 17 0 late) = true := (inLatRange_iff _).2 r0
  have i1 : inLatRange (rlat 17 1 lato) = true := (inLatRange_iff _).2 r1
  constructor
  · rw [a1, globalCore_eq, hE, hO, i0, i1, nl_eq_NL, nl_eq_NL]
    have : ¬ (o = e) := report_ne2 late lone lato lono
    simp only [Bool.not_true, Bool.or_self, Bool.false_eq_true, if_false, this, hpo, reduceCtorEq]
  · rw [a2, globalCore_eq, hE, hO, i0, i1, nl_eq_NL, nl_eq_NL]
    simp only [Bool.not_true, Bool.or_self, Bool.false_eq_true, if_false, hpe, if_true]

/-- the longitude step on an even field encoded from `lone` and an odd field encoded from `lono`, both with
    `n = nl latp` zones (`n − 1` for the odd one), `n·(n−1)·|lone − lono| ≤ 144` -/
theorem gLon_enc2 (e o : Msg) (lone lono latp : ℚ) (p : ℕ) (hp : p = 0 ∨ p = 1)
    (hbox : (nl latp : ℚ) * ((nl latp : ℚ) - 1) * |lone - lono| ≤ 144)
    (he : (e.lon : ℚ) / cprMax = frac17 (rnd (lone / (360 / ((max (nl latp - 0) 1 : ℕ) : ℚ)))))
    (ho : (o.lon : ℚ) / cprMax = frac17 (rnd (lono / (360 / ((max (nl latp - 1) 1 : ℕ) : ℚ))))) :
    gLon e o latp p (if p = 0 then (e.lon : ℚ) / cprMax else (o.lon : ℚ) / cprMax)
      = norm180 (360 / ((max (nl latp - p) 1 : ℕ) : ℚ)
          * ((rnd ((if p = 0 then lone else lono) / (360 / ((max (nl latp - p) 1 : ℕ) : ℚ))) : ℚ) / 131072)) := by
  obtain ⟨hn1, hn59⟩ := nl_range latp
  set n := nl latp with hn
  unfold gLon
  by_cases h1 : n = 1
  · -- one zone: the zone index is irrelevant
    have e0 : max (n - 0) 1 = 1 := by omega
    have e1 : max (n - 1) 1 = 1 := by omega
    have ep : max (n - p) 1 = 1 := by rcases hp with h | h <;> subst h <;> omega
    rw [e0] at he; rw [e1] at ho; rw [ep]
    have hm : modulo ((gM e o latp : ℤ) : ℚ) ((1 : ℕ) : ℚ) = 0 := by
      rw [modulo_int]; simp
    rw [hm]
    have hc : (if p = 0 then (e.lon : ℚ) / cprMax else (o.lon : ℚ) / cprMax)
        = frac17 (rnd ((if p = 0 then lone else lono) / (360 / ((1 : ℕ) : ℚ)))) := by
      rcases hp with h | h <;> subst h <;> simp [he, ho]
    rw [hc]
    have := lon_wrap (rnd ((if p = 0 then lone else lono) / (360 / ((1 : ℕ) : ℚ)))) 1 (by norm_num)
    simp only [Nat.cast_one, Int.emod_one, Int.cast_zero] at this ⊢
    exact this
  · have h2 : 2 ≤ n := by omega
    have e0 : max (n - 0) 1 = n := by omega
    have e1 : max (n - 1) 1 = n - 1 := by omega
    rw [e0] at he; rw [e1] at ho
    have hnq : (0 : ℚ) < (n : ℚ) := by exact_mod_cast (by omega : 0 < n)
    have hc1 : ((n - 1 : ℕ) : ℚ) = (n : ℚ) - 1 := by
      rw [Nat.cast_sub hn1]; simp
    have hn1q : (0 : ℚ) < (n : ℚ) - 1 := by
      have : (2 : ℚ) ≤ (n : ℚ) := by exact_mod_cast h2
      linarith
    set V0 := rnd (lone / (360 / (n : ℚ))) with hV0
    set V1 := rnd (lono / (360 / ((n - 1 : ℕ) : ℚ))) with hV1
    have hM : gM e o latp = (n : ℤ) * (V1 / 131072) - ((n : ℤ) - 1) * (V0 / 131072) := by
      unfold gM
      rw [← hn, he, ho]
      apply zone_floor_model2 n h2 (by omega)
      rw [hc1]
      have e : ((n : ℚ) - 1) * (lone / (360 / (n : ℚ))) - (n : ℚ) * (lono / (360 / ((n : ℚ) - 1)))
          = (n : ℚ) * ((n : ℚ) - 1) * (lone - lono) / 360 := by
        field_simp
      rw [e, abs_div, abs_mul, abs_mul, abs_of_pos hnq, abs_of_pos hn1q,
        abs_of_pos (by norm_num : (0 : ℚ) < 360), div_le_iff₀ (by norm_num)]
      calc (n : ℚ) * ((n : ℚ) - 1) * |lone - lono| ≤ 144 := hbox
        _ = 2 / 5 * 360 := by norm_num
    rcases hp with h | h <;> subst h
    · -- latest report even: n zones
      rw [e0]
      simp only [if_true]
      rw [modulo_int, he]
      have : (gM e o latp) % (n : ℤ) = (V0 / 131072) % (n : ℤ) := by
        rw [hM]
        have : (n : ℤ) * (V1 / 131072) - ((n : ℤ) - 1) * (V0 / 131072)
            = V0 / 131072 + (n : ℤ) * (V1 / 131072 - V0 / 131072) := by ring
        rw [this, Int.add_mul_emod_self_left]
      rw [this]
      exact lon_wrap V0 n (by omega)
    · -- latest report odd: n − 1 zones
      rw [e1]
      simp only [one_ne_zero, if_false]
      rw [modulo_int, ho]
      have hcz : ((n - 1 : ℕ) : ℤ) = (n : ℤ) - 1 := by omega
      have : (gM e o latp) % ((n - 1 : ℕ) : ℤ) = (V1 / 131072) % ((n - 1 : ℕ) : ℤ) := by
        rw [hM, hcz]
        have : (n : ℤ) * (V1 / 131072) - ((n : ℤ) - 1) * (V0 / 131072)
            = V1 / 131072 + ((n : ℤ) - 1) * (V1 / 131072 - V0 / 131072) := by ring
        rw [this, Int.add_mul_emod_self_left]
      rw [this]
      exact lon_wrap V1 (n - 1) (by omega)

/-- **Global decoding of a pair encoded from two nearby points.**  The even report was encoded from
    `(late, lone)`, the odd one from `(lato, lono)`, both latitudes on the globe, at most 12/295 ° apart in
    latitude; their recovered latitudes lie in the same band `NL`, and `NL·(NL−1)·|lone − lono| ≤ 144`.  Then
    decoding (even, odd) returns the lattice point `(Rlat₁, Rlon₁)` of the odd report's own position and
    decoding (odd, even) the lattice point `(Rlat₀, Rlon₀)` of the even report's own position — the position
    of the LATER report in both orders —, longitude reduced to [-180, 180). -/
theorem global_correct2 (late lone lato lono : ℚ) (he : -90 ≤ late ∧ late ≤ 90) (ho : -90 ≤ lato ∧ lato ≤ 90)
    (hlat : |late - lato| ≤ 12 / 295)
    (hnl : NL (rlat 17 0 late) = NL (rlat 17 1 lato))
    (hlon : (NL (rlat 17 0 late) : ℚ) * ((NL (rlat 17 0 late) : ℚ) - 1) * |lone - lono| ≤ 144) :
    airbornePosition (report 17 0 late lone) (report 17 1 lato lono)
      = .ok (some ⟨rlat 17 1 lato, norm180 (rlon 17 1 (rlat 17 1 lato) lono)⟩) ∧
    airbornePosition (report 17 1 lato lono) (report 17 0 late lone)
      = .ok (some ⟨rlat 17 0 late, norm180 (rlon 17 0 (rlat 17 0 late) lone)⟩) := by
  obtain ⟨h1, h2⟩ := airborne_enc2 late lone lato lono he ho hlat
  simp only [hnl, ne_eq, not_true_eq_false, if_false] at h1 h2
  have hn0 : nl (rlat 17 0 late) = NL (rlat 17 0 late) := nl_eq_NL _
  have hn1 : nl (rlat 17 1 lato) = NL (rlat 17 1 lato) := nl_eq_NL _
  have le0 : ∀ latp, nl latp = NL (rlat 17 0 late) →
      ((report 17 0 late lone).lon : ℚ) / cprMax
        = frac17 (rnd (lone / (360 / ((max (nl latp - 0) 1 : ℕ) : ℚ)))) := by
    intro latp h; rw [report_lon17, dlon_eq, h]
  have lo1 : ∀ latp, nl latp = NL (rlat 17 1 lato) →
      ((report 17 1 lato lono).lon : ℚ) / cprMax
        = frac17 (rnd (lono / (360 / ((max (nl latp - 1) 1 : ℕ) : ℚ)))) := by
    intro latp h; rw [report_lon17, dlon_eq, h]
  constructor
  · rw [h1]
    have g := gLon_enc2 (report 17 0 late lone) (report 17 1 lato lono) lone lono (rlat 17 1 lato) 1
      (Or.inr rfl) (by rw [hn1, ← hnl]; exact hlon) (le0 _ (by rw [hn1, hnl])) (lo1 _ hn1)
    simp only [one_ne_zero, if_false] at g
    rw [g, rlon_eq_recv, recv17 _ _ (ne_of_gt (dlon_pos 1 _)), dlon_eq, hn1]
  · rw [h2]
    have g := gLon_enc2 (report 17 0 late lone) (report 17 1 lato lono) lone lono (rlat 17 0 late) 0
      (Or.inl rfl) (by rw [hn0]; exact hlon) (le0 _ hn0) (lo1 _ (by rw [hn0, hnl]))
    simp only [if_true] at g
    rw [g, rlon_eq_recv, recv17 _ _ (ne_of_gt (dlon_pos 0 _)), dlon_eq, hn0]

/-- when the two recovered latitudes fall in different bands the pair is refused (both orders) -/
theorem global_refused2 (late lone lato lono : ℚ) (he : -90 ≤ late ∧ late ≤ 90) (ho : -90 ≤ lato ∧ lato ≤ 90)
    (hlat : |late - lato| ≤ 12 / 295) (hnl : NL (rlat 17 0 late) ≠ NL (rlat 17 1 lato)) :
    airbornePosition (report 17 0 late lone) (report 17 1 lato lono) = .ok none ∧
    airbornePosition (report 17 1 lato lono) (report 17 0 late lone) = .ok none := by
  obtain ⟨h1, h2⟩ := airborne_enc2 late lone lato lono he ho hlat
  simp only [hnl, ne_eq, not_false_eq_true, if_true] at h1 h2
  exact ⟨h1, h2⟩

end Rs1090.Proofs.Cpr
