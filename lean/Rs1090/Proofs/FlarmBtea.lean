/-
C15 helper lemmas: the XXTEA decryption of the model inverts the reference encryption of the Spec.
-/
import Rs1090.Model.Flarm
import Rs1090.Spec.Flarm
namespace Rs1090.Proofs.Flarm
open Rs1090 Rs1090.Model.Flarm Rs1090.Gen.Flarm

theorem idx_eq_getD {α} (xs : List α) (i : Nat) (d : α) (h : i < xs.length) :
    idx xs i = .ok (xs.getD i d) := by
  unfold idx
  rw [List.getD_eq_getElem?_getD, List.getElem?_eq_getElem h]
  rfl

/-- the key index is always one of 0..3 -/
theorem keyIdx_lt (p : Nat) (s : BitVec 32) :
    keyIdx p ((s >>> E_SHR) &&& BitVec.ofNat 32 E_MASK) < 4 := by
  unfold keyIdx MX_P_MASK E_MASK
  have h1 : p &&& 3 < 2 ^ 2 := Nat.lt_succ_of_le Nat.and_le_right
  have h2 : ((s >>> E_SHR) &&& BitVec.ofNat 32 3).toNat < 2 ^ 2 := by
    rw [BitVec.toNat_and]
    exact Nat.lt_succ_of_le Nat.and_le_right
  exact Nat.xor_lt_two_pow h1 h2

theorem mx_ok (key : List (BitVec 32)) (hk : key.length = 4) (sum y z : BitVec 32) (p : Nat) :
    mx sum y z p ((sum >>> E_SHR) &&& BitVec.ofNat 32 E_MASK) key
      = .ok (mxVal sum y z (key.getD (keyIdx p ((sum >>> E_SHR) &&& BitVec.ofNat 32 E_MASK)) 0)) := by
  unfold mx
  rw [idx_eq_getD key _ 0 (by rw [hk]; exact keyIdx_lt p sum), Outcome.bind_ok]

/-- the model's `mx` value is the reference `MX` -/
theorem mxVal_eq_MX (key : List (BitVec 32)) (sum y z : BitVec 32) (p : Nat) :
    mxVal sum y z (key.getD (keyIdx p ((sum >>> E_SHR) &&& BitVec.ofNat 32 E_MASK)) 0)
      = Spec.Flarm.MX sum y z p ((sum >>> 2) &&& 3#32).toNat key := by
  rfl


theorem idx_cons_zero {α} (x : α) (xs : List α) : idx (x :: xs) 0 = .ok x := rfl
theorem idx_cons_succ {α} (x : α) (xs : List α) (n : Nat) : idx (x :: xs) (n + 1) = idx xs n := rfl

/-- One decryption round of the model undoes one encryption round of the reference, on a
    5-word block (`z` entering the encryption round is the last word, `y` entering the
    decryption round is the first word). -/
theorem round_encRound (key : List (BitVec 32)) (hk : key.length = 4) (s a b c d e : BitVec 32) :
    round key 4 s (Spec.Flarm.encRound key s [a, b, c, d, e] e).1
        ((Spec.Flarm.encRound key s [a, b, c, d, e] e).1.getD 0 0)
      = .ok ([a, b, c, d, e], a) := by
  simp only [Spec.Flarm.encRound, Spec.Flarm.encLoop, List.length_cons, List.length_nil,
    List.getD_cons_zero, List.getD_cons_succ, List.set_cons_zero, List.set_cons_succ,
    Nat.reduceAdd, Nat.reduceSub, Nat.zero_add]
  simp only [round, inner, mx_ok key hk, mxVal_eq_MX, idx_cons_zero, idx_cons_succ, Outcome.bind_ok,
    List.set_cons_zero, List.set_cons_succ, BitVec.add_sub_cancel, Nat.reduceAdd]


/-- an encryption round maps a 5-block to a 5-block and hands on its last word as `z` -/
theorem encRound_shape (key : List (BitVec 32)) (s a b c d e : BitVec 32) :
    ∃ a' b' c' d' e', Spec.Flarm.encRound key s [a, b, c, d, e] e = ([a', b', c', d', e'], e') := by
  simp only [Spec.Flarm.encRound, Spec.Flarm.encLoop, List.length_cons, List.length_nil,
    List.getD_cons_zero, List.getD_cons_succ, List.set_cons_zero, List.set_cons_succ,
    Nat.reduceAdd, Nat.reduceSub, Nat.zero_add]
  exact ⟨_, _, _, _, _, rfl⟩

theorem encRounds_shape (key : List (BitVec 32)) (r : Nat) :
    ∀ (s a b c d e : BitVec 32),
      ∃ a' b' c' d' e', Spec.Flarm.encRounds key r s [a, b, c, d, e] e = [a', b', c', d', e'] := by
  induction r with
  | zero => intro s a b c d e; exact ⟨a, b, c, d, e, rfl⟩
  | succ r ih =>
    intro s a b c d e
    obtain ⟨a', b', c', d', e', h⟩ := encRound_shape key (s + Spec.Flarm.delta) a b c d e
    simp only [Spec.Flarm.encRounds, h]
    exact ih _ a' b' c' d' e'

/-- `rounds` that also returns the running `y` -/
def roundsY (k : List (BitVec 32)) (n : Nat) :
    List (BitVec 32) → List (BitVec 32) → BitVec 32 → Outcome (List (BitVec 32) × BitVec 32)
  | [], v, y => .ok (v, y)
  | s :: ss, v, y => Outcome.bind (round k n s v y) fun vy => roundsY k n ss vy.1 vy.2

theorem rounds_eq_roundsY (k : List (BitVec 32)) (n : Nat) (ss : List (BitVec 32)) :
    ∀ v y, rounds k n ss v y = Outcome.bind (roundsY k n ss v y) fun vy => .ok vy.1 := by
  induction ss with
  | nil => intro v y; simp only [rounds, roundsY, Outcome.bind_ok]
  | cons s ss ih =>
    intro v y
    simp only [rounds, roundsY]
    cases h : round k n s v y with
    | ok vy => simp only [Outcome.bind_ok, ih]
    | err e => simp only [Outcome.bind_err]
    | panic x => simp only [Outcome.bind_panic]

theorem roundsY_append (k : List (BitVec 32)) (n : Nat) (xs ys : List (BitVec 32)) :
    ∀ v y, roundsY k n (xs ++ ys) v y
      = Outcome.bind (roundsY k n xs v y) fun vy => roundsY k n ys vy.1 vy.2 := by
  induction xs with
  | nil => intro v y; simp only [List.nil_append, roundsY, Outcome.bind_ok]
  | cons s xs ih =>
    intro v y
    simp only [List.cons_append, roundsY]
    cases h : round k n s v y with
    | ok vy => simp only [Outcome.bind_ok, ih]
    | err e => simp only [Outcome.bind_err]
    | panic x => simp only [Outcome.bind_panic]

/-- the values of `sum` used by `r` encryption rounds starting after `s` -/
def encSums : Nat → BitVec 32 → List (BitVec 32)
  | 0, _ => []
  | r + 1, s => (s + Spec.Flarm.delta) :: encSums r (s + Spec.Flarm.delta)

/-- Decryption rounds run over the encryption sums in reverse order undo `r` encryption rounds. -/
theorem roundsY_encRounds (key : List (BitVec 32)) (hk : key.length = 4) (r : Nat) :
    ∀ (s a b c d e : BitVec 32),
      roundsY key 4 (encSums r s).reverse (Spec.Flarm.encRounds key r s [a, b, c, d, e] e)
          ((Spec.Flarm.encRounds key r s [a, b, c, d, e] e).getD 0 0)
        = .ok ([a, b, c, d, e], a) := by
  induction r with
  | zero => intro s a b c d e; rfl
  | succ r ih =>
    intro s a b c d e
    obtain ⟨a', b', c', d', e', h⟩ := encRound_shape key (s + Spec.Flarm.delta) a b c d e
    have hr := round_encRound key hk (s + Spec.Flarm.delta) a b c d e
    rw [h] at hr
    simp only [List.getD_cons_zero] at hr
    simp only [Spec.Flarm.encRounds, encSums, List.reverse_cons, h, roundsY_append,
      ih (s + Spec.Flarm.delta) a' b' c' d' e', Outcome.bind_ok, roundsY, hr]

/-- the loop `while sum != 0` of the model runs over exactly the six encryption sums, reversed -/
theorem sumSeq_eq :
    sumSeq FUEL (BitVec.ofNat 32 ROUNDS * BitVec.ofNat 32 DELTA)
      = some (encSums Spec.Flarm.nRounds 0#32).reverse := by
  decide +kernel

/-- **XXTEA as implemented inverts the reference encryption**, for every 5-word block and
    every 4-word key. -/
theorem btea_bteaEnc (v key : List (BitVec 32)) (hv : v.length = 5) (hk : key.length = 4) :
    btea (Spec.Flarm.bteaEnc v key) key = .ok v := by
  match v, hv with
  | [a, b, c, d, e], _ =>
    obtain ⟨a', b', c', d', e', h⟩ := encRounds_shape key Spec.Flarm.nRounds 0#32 a b c d e
    have hinv := roundsY_encRounds key hk Spec.Flarm.nRounds 0#32 a b c d e
    have henc : Spec.Flarm.bteaEnc [a, b, c, d, e] key = [a', b', c', d', e'] := by
      simp only [Spec.Flarm.bteaEnc, List.length_cons, List.length_nil, Nat.reduceAdd, Nat.reduceLT,
        if_false, Nat.reduceSub, List.getD_cons_succ, List.getD_cons_zero, h]
    have hfix : fixk key = key := by
      simp only [fixk, hk, Nat.sub_self, List.replicate_zero, List.append_nil]
    rw [h] at hinv
    simp only [List.getD_cons_zero] at hinv
    rw [henc]
    simp only [btea, List.length_cons, List.length_nil, Nat.reduceAdd, Nat.reducePow, Nat.reduceMod,
      subU_ok (show 1 ≤ 5 by decide), Outcome.bind_ok, Nat.reduceSub, idx_cons_zero, hfix, sumSeq_eq,
      rounds_eq_roundsY, hinv]

end Rs1090.Proofs.Flarm
