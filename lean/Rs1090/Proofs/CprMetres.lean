/-
"Within 10 m" for CPR decoding (C04, C05): from the half-quantisation-step bounds in degrees
(`recv17_err`, `recv19_err`) to metres on the sphere of radius `R_MAX = 6 399 594 m` (the largest radius of
curvature of the WGS-84 ellipsoid, a²/b at the poles, rounded up — the radius the harness oracle uses).

  A. `lowThr_le`   ℚ: a latitude whose NL is n lies at or above the lower edge `lowThr n` of the band
  B. `cos_band`    ℝ: hence `cos(latitude) ≤ cosUB (NL latitude)` (59 cosine bounds of `CprMetresCos`)
  C. `budget_air`  ℚ: per band n and format i, `NS² + EW² ≤ 9.628²` with
                      NS = mPerDeg·Dlat_i/2^18, EW = mPerDeg·cosUB n·Dlon/2^18 (and the per-axis / taxicab sums)
  D. `close_sphere` ℝ: the chord and great-circle distance of the true and the recovered point
-/
import Mathlib.Tactic.IntervalCases
import Rs1090.Proofs.CprMetresCos
import Rs1090.Proofs.CprMetresGeo
import Rs1090.Proofs.CprGlobalSpec
namespace Rs1090.Proofs.Metres
open Rs1090 Rs1090.Spec.Cpr Rs1090.Proofs.Cpr

/-! ### A. the lower edge of an NL band (ℚ) -/

/-- a row of the table whose transition latitude is above `a` bounds `findNL a` from below (values descend) -/
theorem findNL_ge (a : ℚ) : ∀ l : List (Nat × Nat), l.Pairwise (fun r s => s.2 ≤ r.2) →
    ∀ row ∈ l, a < (row.1 : ℚ) / nlUnit → row.2 ≤ findNL a l := by
  intro l
  induction l with
  | nil => intro _ row hm; simp at hm
  | cons r rest ih =>
    intro hp row hm hlt
    rw [List.pairwise_cons] at hp
    by_cases hh : a < (r.1 : ℚ) / nlUnit
    · have e : findNL a (r :: rest) = r.2 := by simp [findNL, hh]
      rw [e]
      rcases List.mem_cons.mp hm with h | h
      · rw [h]
      · exact hp.1 row h
    · have e : findNL a (r :: rest) = findNL a rest := by simp [findNL, hh]
      rw [e]
      rcases List.mem_cons.mp hm with h | h
      · rw [h] at hlt; exact absurd hlt hh
      · exact ih hp.2 row h hlt

theorem nlTable_desc : nlTable.Pairwise (fun r s => s.2 ≤ r.2) := by decide

theorem nlTable_le87 : ∀ row ∈ nlTable, row.1 ≤ 8700000000 := by decide

/-- below 87° the standard's NL is the table lookup -/
theorem NL_eq_findNL (rl : ℚ) (h : |rl| < 87) : NL rl = findNL |rl| nlTable := by
  unfold NL
  rw [absR_eq_abs]
  simp only [ne_of_lt h, not_lt.mpr (le_of_lt h), if_false]
  rfl

/-- if `NL rl` is smaller than the value of a row, `|rl|` is at or above that row's transition latitude -/
theorem NL_low (rl : ℚ) (row : Nat × Nat) (hm : row ∈ nlTable) (h : NL rl < row.2) :
    (row.1 : ℚ) / nlUnit ≤ |rl| := by
  by_contra hlt
  rw [not_le] at hlt
  have h87 : (row.1 : ℚ) / nlUnit ≤ 87 := by
    have : (row.1 : ℚ) ≤ 8700000000 := by exact_mod_cast nlTable_le87 row hm
    unfold nlUnit
    rw [div_le_iff₀ (by norm_num)]
    linarith
  have e := NL_eq_findNL rl (lt_of_lt_of_le hlt h87)
  have := findNL_ge |rl| nlTable nlTable_desc row hm hlt
  omega

theorem NL_range (rl : ℚ) : 1 ≤ NL rl ∧ NL rl ≤ 59 := by
  rw [← nl_eq_NL]; exact nl_range rl

/-- every band 1 … 58 has the row n+1 of the table above it -/
theorem row_above : ∀ n, n < 58 → ∃ row ∈ nlTable, row.2 = n + 2 := by decide

/-- **A latitude lies at or above the lower edge of its NL band**: `lowThr (NL rl) ≤ |rl|`. -/
theorem lowThr_le (rl : ℚ) : lowThr (NL rl) ≤ |rl| := by
  obtain ⟨h1, h59⟩ := NL_range rl
  by_cases h : NL rl = 59
  · rw [h, lowThr_59]; exact abs_nonneg _
  · obtain ⟨row, hm, hr⟩ := row_above (NL rl - 1) (by omega)
    have ht := List.all_eq_true.mp lowThr_table row hm
    rw [decide_eq_true_eq] at ht
    have e : row.2 - 1 = NL rl := by omega
    rw [e] at ht
    rw [ht]
    exact NL_low rl row hm (by omega)

theorem lowThr_nonneg (n : Nat) (h1 : 1 ≤ n) (h59 : n ≤ 59) : 0 ≤ lowThr n := by
  interval_cases n <;> norm_num [lowThr]

/-! ### B. the cosine on an NL band (ℝ) -/

open Real Rs1090.Proofs.Geo in
/-- **The cosine of a latitude is at most the cosine bound of its NL band.** -/
theorem cos_band (rl : ℚ) (h90 : |rl| ≤ 90) : cos (rad (rl : ℝ)) ≤ ((cosUB (NL rl) : ℚ) : ℝ) := by
  obtain ⟨h1, h59⟩ := NL_range rl
  have hlow : ((lowThr (NL rl) : ℚ) : ℝ) ≤ |(rl : ℝ)| := by exact_mod_cast lowThr_le rl
  have h0 : (0 : ℝ) ≤ ((lowThr (NL rl) : ℚ) : ℝ) := by exact_mod_cast lowThr_nonneg _ h1 h59
  have h90' : |(rl : ℝ)| ≤ 90 := by exact_mod_cast h90
  have e : cos (rad (rl : ℝ)) = cos (|(rl : ℝ)| * π / 180) := by
    unfold rad
    rcases abs_cases (rl : ℝ) with ⟨ha, _⟩ | ⟨ha, _⟩
    · rw [ha]
    · rw [ha, ← cos_neg]; congr 1; ring
  rw [e]
  refine le_trans ?_ (cos_lowThr _ h1 h59)
  have hp := pi_pos
  apply cos_le_cos_of_nonneg_of_le_pi
  · positivity
  · nlinarith
  · nlinarith

open Real Rs1090.Proofs.Geo in
/-- latitudes in [-90°, 90°] have a non-negative cosine -/
theorem cos_rad_nonneg (x : ℚ) (h90 : |x| ≤ 90) : 0 ≤ cos (rad (x : ℝ)) := by
  have h90' : |(x : ℝ)| ≤ 90 := by exact_mod_cast h90
  obtain ⟨hl, hu⟩ := abs_le.mp h90'
  have hp := pi_pos
  unfold rad
  apply cos_nonneg_of_neg_pi_div_two_le_of_le <;> nlinarith

/-! ### C. the error budget per band (ℚ) -/

/-- metres per degree of arc on the sphere of radius `R_MAX = 6 399 594 m`, rounded up:
    `R_MAX · 3.141593 / 180 ≥ R_MAX · π / 180` (≈ 111 694.0 m) -/
def mPerDeg : ℚ := 6399594 * 3141593 / 1000000 / 180

/-- north-south distance in metres of `d` degrees of latitude (along a meridian) -/
def nsM (d : ℚ) : ℚ := mPerDeg * |d|

/-- upper bound of the east-west distance in metres of `d` degrees of longitude along the parallel of a
    latitude in the band NL = n (`cosUB n ≥` the cosine of every latitude of the band) -/
def ewM (n : Nat) (d : ℚ) : ℚ := mPerDeg * cosUB n * |d|

/-- zone width in longitude for band `n`, format `i` -/
def dlonOf (n i : Nat) : ℚ := 360 / ((max (n - i) 1 : ℕ) : ℚ)

/-- the quantity that bounds `R²·chord²` (see `close_sphere`): `NS² + (1 + a/c)·EW²` for half a step of
    `1/s` of a zone on each axis; the factor `cosUB + 1/2000000` accounts for the cosine of the TRUE latitude
    (`cos` is 1-Lipschitz and half a latitude step is < 1/2000000 rad) -/
def budget (n i : Nat) (s : ℚ) : ℚ :=
  (mPerDeg * (dlat i / s)) ^ 2 + (cosUB n + 1 / 2000000) * cosUB n * (mPerDeg * (dlonOf n i / s)) ^ 2

/-- bound of the chord (and, + 1 mm, of the great-circle distance) in metres: 9.628 m in the two polar bands
    (NL ≤ 2, |lat| ≥ 86.535°, a single or two longitude zones), 6.25 m elsewhere -/
def chordMax (n : Nat) : ℚ := if 3 ≤ n then 625 / 100 else 9628 / 1000

theorem budget_air0 (n : Nat) (h1 : 1 ≤ n) (h59 : n ≤ 59) : budget n 0 262144 ≤ chordMax n ^ 2 := by
  unfold budget dlonOf mPerDeg
  rw [dlat0]; interval_cases n <;> norm_num [cosUB, chordMax]

theorem budget_air1 (n : Nat) (h1 : 1 ≤ n) (h59 : n ≤ 59) : budget n 1 262144 ≤ chordMax n ^ 2 := by
  unfold budget dlonOf mPerDeg
  rw [dlat1]; interval_cases n <;> norm_num [cosUB, chordMax]

theorem budget_air (n : Nat) (h1 : 1 ≤ n) (h59 : n ≤ 59) (i : Nat) (hi : i ≤ 1) :
    budget n i 262144 ≤ chordMax n ^ 2 := by
  interval_cases i
  · exact budget_air0 n h1 h59
  · exact budget_air1 n h1 h59

theorem chordMax_le (n : Nat) : chordMax n ≤ 9628 / 1000 := by
  unfold chordMax; split <;> norm_num

theorem chordMax_pos (n : Nat) : 0 < chordMax n := by
  unfold chordMax; split <;> norm_num

/-- per-axis east-west budget: 9.27 m in the two polar bands (NL ≤ 2, |lat| ≥ 86.535°), 5.68 m elsewhere -/
def ewMax (n : Nat) : ℚ := if 3 ≤ n then 568 / 100 else 927 / 100

theorem ns_air (i : Nat) (hi : i ≤ 1) : mPerDeg * (dlat i / 262144) ≤ 26 / 10 := by
  unfold mPerDeg
  interval_cases i
  · rw [dlat0]; norm_num
  · rw [dlat1]; norm_num

theorem ew_air0 (n : Nat) (h1 : 1 ≤ n) (h59 : n ≤ 59) :
    mPerDeg * cosUB n * (dlonOf n 0 / 262144) ≤ ewMax n := by
  unfold dlonOf mPerDeg
  interval_cases n <;> norm_num [cosUB, ewMax]

theorem ew_air1 (n : Nat) (h1 : 1 ≤ n) (h59 : n ≤ 59) :
    mPerDeg * cosUB n * (dlonOf n 1 / 262144) ≤ ewMax n := by
  unfold dlonOf mPerDeg
  interval_cases n <;> norm_num [cosUB, ewMax]

theorem ew_air (n : Nat) (h1 : 1 ≤ n) (h59 : n ≤ 59) (i : Nat) (hi : i ≤ 1) :
    mPerDeg * cosUB n * (dlonOf n i / 262144) ≤ ewMax n := by
  interval_cases i
  · exact ew_air0 n h1 h59
  · exact ew_air1 n h1 h59

theorem cosUB_nonneg (n : Nat) (h1 : 1 ≤ n) (h59 : n ≤ 59) : 0 ≤ cosUB n := by
  interval_cases n <;> norm_num [cosUB]

/-- surface (half a step = 1/2^20 of the airborne zone): a quarter of the airborne lengths -/
theorem budget_surf (n i : Nat) : budget n i 1048576 = budget n i 262144 / 16 := by
  unfold budget; ring

theorem dlon_eq_dlonOf (i : Nat) (rl : ℚ) : dlon i rl = dlonOf (NL rl) i := by
  rw [dlon_eq]; rfl

theorem dlonOf_pos (n i : Nat) : 0 < dlonOf n i := by
  unfold dlonOf
  have : (1 : ℚ) ≤ ((max (n - i) 1 : ℕ) : ℚ) := by exact_mod_cast le_max_right _ _
  positivity

/-! ### D. the distance on the sphere (ℝ) -/

open Real Rs1090.Proofs.Geo in
/-- **From degrees to the sphere.**  `(lat, lon)` the true point, `(rl, ro)` the recovered one, all in
    degrees; `rl` within `Dlat_i/s` of `lat`, `ro` within `Dlon/s` of `lon` up to `k` turns, `s ≥ 2^18`.  Then
    `R_MAX² · chord² ≤ budget (NL rl) i s`, the chord taken on the unit sphere between the two points. -/
theorem close_sphere (i : Nat) (hi : i ≤ 1) (s : ℚ) (hs : 262144 ≤ s) (lat lon rl ro : ℚ) (k : ℤ)
    (hlat : |lat| ≤ 90) (hrl : |rl| ≤ 90) (hA : |rl - lat| ≤ dlat i / s)
    (hB : |ro - (lon + 360 * k)| ≤ dlonOf (NL rl) i / s) :
    (6399594 : ℝ) ^ 2 * chordSq (rad lat) (rad lon) (rad rl) (rad ro)
      ≤ ((budget (NL rl) i s : ℚ) : ℝ) := by
  obtain ⟨h1, h59⟩ := NL_range rl
  have hs0 : (0 : ℚ) < s := by linarith
  set n := NL rl with hn
  -- the rational half steps, cast to ℝ
  have hA' : |(lat : ℝ) - rl| ≤ ((dlat i / s : ℚ) : ℝ) := by
    rw [abs_sub_comm]; exact_mod_cast hA
  have hB' : |(lon : ℝ) + 360 * k - ro| ≤ ((dlonOf n i / s : ℚ) : ℝ) := by
    rw [abs_sub_comm]; exact_mod_cast hB
  have hA0 : (0 : ℝ) ≤ ((dlat i / s : ℚ) : ℝ) := le_trans (abs_nonneg _) hA'
  have hB0 : (0 : ℝ) ≤ ((dlonOf n i / s : ℚ) : ℝ) := le_trans (abs_nonneg _) hB'
  have hAs : ((dlat i / s : ℚ) : ℝ) ≤ 611 / 100 / 262144 := by
    have : dlat i / s ≤ 611 / 100 / 262144 := by
      have hd : dlat i ≤ 611 / 100 := by
        interval_cases i
        · rw [dlat0]; norm_num
        · rw [dlat1]; norm_num
      have hd0 := dlat_pos i hi
      calc dlat i / s ≤ dlat i / 262144 := div_le_div_of_nonneg_left hd0.le (by norm_num) hs
        _ ≤ 611 / 100 / 262144 := div_le_div_of_nonneg_right hd (by norm_num)
    calc ((dlat i / s : ℚ) : ℝ) ≤ ((611 / 100 / 262144 : ℚ) : ℝ) := Rat.cast_le.mpr this
      _ = 611 / 100 / 262144 := by norm_num
  have hp := pi_pos
  have hpu := pi_lt_d6
  set A : ℝ := ((dlat i / s : ℚ) : ℝ) with hAdef
  set B : ℝ := ((dlonOf n i / s : ℚ) : ℝ) with hBdef
  set c : ℝ := ((cosUB n : ℚ) : ℝ) with hcdef
  have hc0 : 0 ≤ c := by rw [hcdef]; exact_mod_cast cosUB_nonneg n h1 h59
  have hcb : cos (rad (rl : ℝ)) ≤ c := cos_band rl hrl
  have ha : |rad (lat : ℝ) - rad rl| ≤ A * (π / 180) := by
    have e : rad (lat : ℝ) - rad rl = ((lat : ℝ) - rl) * (π / 180) := by unfold rad; ring
    rw [e, abs_mul, abs_of_pos (by positivity : (0 : ℝ) < π / 180)]
    exact mul_le_mul_of_nonneg_right hA' (by positivity)
  have hb : |rad (lon : ℝ) + 2 * π * k - rad ro| ≤ B * (π / 180) := by
    have e : rad (lon : ℝ) + 2 * π * k - rad ro = ((lon : ℝ) + 360 * k - ro) * (π / 180) := by
      unfold rad; ring
    rw [e, abs_mul, abs_of_pos (by positivity : (0 : ℝ) < π / 180)]
    exact mul_le_mul_of_nonneg_right hB' (by positivity)
  have key := chordSq_le_of_bounds (rad lat) (rad lon) (rad rl) (rad ro) (A * (π / 180)) (B * (π / 180))
    c k (cos_rad_nonneg lat hlat) (cos_rad_nonneg rl hrl) ha hb hcb
  -- constants
  have hK : (6399594 : ℝ) * (π / 180) ≤ ((mPerDeg : ℚ) : ℝ) := by
    unfold mPerDeg; push_cast; nlinarith
  have hK0 : (0 : ℝ) ≤ 6399594 * (π / 180) := by positivity
  have ham : A * (π / 180) ≤ 1 / 2000000 := by
    have : A * (π / 180) ≤ 611 / 100 / 262144 * (3.141593 / 180) :=
      mul_le_mul hAs (by linarith) (by positivity) (by norm_num)
    refine le_trans this (by norm_num)
  have e : ((budget n i s : ℚ) : ℝ)
      = ((mPerDeg : ℚ) : ℝ) ^ 2 * A ^ 2 + (c + 1 / 2000000) * c * (((mPerDeg : ℚ) : ℝ) ^ 2 * B ^ 2) := by
    rw [hAdef, hBdef, hcdef]; unfold budget; push_cast; ring
  rw [e]
  have t1 : (6399594 : ℝ) ^ 2 * (A * (π / 180)) ^ 2 ≤ ((mPerDeg : ℚ) : ℝ) ^ 2 * A ^ 2 := by
    have : (6399594 * (π / 180)) ^ 2 ≤ ((mPerDeg : ℚ) : ℝ) ^ 2 := pow_le_pow_left₀ hK0 hK 2
    nlinarith [sq_nonneg A]
  have t2 : (6399594 : ℝ) ^ 2 * (B * (π / 180)) ^ 2 ≤ ((mPerDeg : ℚ) : ℝ) ^ 2 * B ^ 2 := by
    have : (6399594 * (π / 180)) ^ 2 ≤ ((mPerDeg : ℚ) : ℝ) ^ 2 := pow_le_pow_left₀ hK0 hK 2
    nlinarith [sq_nonneg B]
  have t3 : (c + A * (π / 180)) * c ≤ (c + 1 / 2000000) * c :=
    mul_le_mul_of_nonneg_right (by linarith) hc0
  have t4 : (c + A * (π / 180)) * c * ((6399594 : ℝ) ^ 2 * (B * (π / 180)) ^ 2)
      ≤ (c + 1 / 2000000) * c * (((mPerDeg : ℚ) : ℝ) ^ 2 * B ^ 2) :=
    mul_le_mul t3 t2 (by positivity) (by positivity)
  calc (6399594 : ℝ) ^ 2 * chordSq (rad lat) (rad lon) (rad rl) (rad ro)
      ≤ (6399594 : ℝ) ^ 2 * ((A * (π / 180)) ^ 2 + (c + A * (π / 180)) * c * (B * (π / 180)) ^ 2) :=
        mul_le_mul_of_nonneg_left key (by positivity)
    _ = (6399594 : ℝ) ^ 2 * (A * (π / 180)) ^ 2
          + (c + A * (π / 180)) * c * ((6399594 : ℝ) ^ 2 * (B * (π / 180)) ^ 2) := by ring
    _ ≤ _ := add_le_add t1 t4

open Real Rs1090.Proofs.Geo in
/-- chord and great-circle distance from a budget: `budget ≤ S²`, `0 ≤ S ≤ 10` ⇒ chord ≤ S, arc ≤ S + 1 mm -/
theorem sphere_dist (i : Nat) (hi : i ≤ 1) (s : ℚ) (hs : 262144 ≤ s) (lat lon rl ro : ℚ) (k : ℤ)
    (hlat : |lat| ≤ 90) (hrl : |rl| ≤ 90) (hA : |rl - lat| ≤ dlat i / s)
    (hB : |ro - (lon + 360 * k)| ≤ dlonOf (NL rl) i / s)
    (S : ℚ) (hS0 : 0 ≤ S) (hS10 : S ≤ 10) (hbud : budget (NL rl) i s ≤ S ^ 2) :
    chordDist 6399594 (rad lat) (rad lon) (rad rl) (rad ro) ≤ (S : ℝ) ∧
    gcDist 6399594 (rad lat) (rad lon) (rad rl) (rad ro) ≤ (S : ℝ) + 1 / 1000 := by
  have h := close_sphere i hi s hs lat lon rl ro k hlat hrl hA hB
  have hb : ((budget (NL rl) i s : ℚ) : ℝ) ≤ (S : ℝ) ^ 2 := by exact_mod_cast hbud
  have hS : (6399594 : ℝ) ^ 2 * chordSq (rad lat) (rad lon) (rad rl) (rad ro) ≤ (S : ℝ) ^ 2 :=
    le_trans h hb
  have hS0' : (0 : ℝ) ≤ S := by exact_mod_cast hS0
  have hS10' : (S : ℝ) ≤ 10 := by exact_mod_cast hS10
  refine ⟨chordDist_le _ _ _ _ _ _ (by norm_num) hS0' hS, ?_⟩
  apply gcDist_le 6399594 ((S : ℝ) + 1 / 1000) S _ _ _ _ (by norm_num) (by linarith) (by linarith) hS0' hS
  have h3 : ((S : ℝ) + 1 / 1000) ^ 3 ≤ 11 ^ 3 := pow_le_pow_left₀ (by linarith) (by linarith) 3
  have h4 : ((S : ℝ) + 1 / 1000) ^ 3 / (24 * 6399594 ^ 2) ≤ 11 ^ 3 / (24 * 6399594 ^ 2) :=
    div_le_div_of_nonneg_right h3 (by norm_num)
  have h5 : (11 : ℝ) ^ 3 / (24 * 6399594 ^ 2) ≤ 1 / 1000 := by norm_num
  linarith

/-! ### the two axes in metres (ℚ, no transcendental function) -/

theorem mPerDeg_pos : 0 < mPerDeg := by unfold mPerDeg; norm_num

/-- per-axis lengths and their Euclidean combination are within the budget -/
theorem axes_le (n i : Nat) (h1 : 1 ≤ n) (h59 : n ≤ 59) (s dA dB : ℚ)
    (hA : |dA| ≤ dlat i / s) (hB : |dB| ≤ dlonOf n i / s) :
    nsM dA ≤ mPerDeg * (dlat i / s) ∧ ewM n dB ≤ mPerDeg * cosUB n * (dlonOf n i / s) ∧
    nsM dA ^ 2 + ewM n dB ^ 2 ≤ budget n i s := by
  have hK := mPerDeg_pos
  have hc := cosUB_nonneg n h1 h59
  have a0 := abs_nonneg dA
  have b0 := abs_nonneg dB
  have e1 : nsM dA ≤ mPerDeg * (dlat i / s) := mul_le_mul_of_nonneg_left hA hK.le
  have e2 : ewM n dB ≤ mPerDeg * cosUB n * (dlonOf n i / s) :=
    mul_le_mul_of_nonneg_left hB (mul_nonneg hK.le hc)
  refine ⟨e1, e2, ?_⟩
  have n0 : 0 ≤ nsM dA := mul_nonneg hK.le a0
  have w0 : 0 ≤ ewM n dB := mul_nonneg (mul_nonneg hK.le hc) b0
  have s1 : nsM dA ^ 2 ≤ (mPerDeg * (dlat i / s)) ^ 2 := pow_le_pow_left₀ n0 e1 2
  have s2 : ewM n dB ^ 2 ≤ (mPerDeg * cosUB n * (dlonOf n i / s)) ^ 2 := pow_le_pow_left₀ w0 e2 2
  have s3 : (mPerDeg * cosUB n * (dlonOf n i / s)) ^ 2
      ≤ (cosUB n + 1 / 2000000) * cosUB n * (mPerDeg * (dlonOf n i / s)) ^ 2 := by
    have : (mPerDeg * cosUB n * (dlonOf n i / s)) ^ 2
        = cosUB n * cosUB n * (mPerDeg * (dlonOf n i / s)) ^ 2 := by ring
    rw [this]
    apply mul_le_mul_of_nonneg_right _ (sq_nonneg _)
    apply mul_le_mul_of_nonneg_right _ hc
    linarith
  unfold budget
  linarith

/-! ### the recovered lattice points of the airborne and the surface encoder -/

theorem abs_le_90 {x : ℚ} (h : -90 ≤ x ∧ x ≤ 90) : |x| ≤ 90 := abs_le.mpr h

open Real Rs1090.Proofs.Geo in
/-- airborne: any `ro` within `Dlon/2^18` of `lon` (mod 360) next to `Rlat` is within `chordMax` metres -/
theorem air_dist (i : Nat) (hi : i ≤ 1) (lat lon : ℚ) (hlat : -90 ≤ lat ∧ lat ≤ 90) (ro : ℚ) (k : ℤ)
    (hro : |ro - (lon + 360 * k)| ≤ dlon i (rlat 17 i lat) / 262144) :
    chordDist 6399594 (rad lat) (rad lon) (rad (rlat 17 i lat)) (rad ro)
      ≤ ((chordMax (NL (rlat 17 i lat)) : ℚ) : ℝ) ∧
    gcDist 6399594 (rad lat) (rad lon) (rad (rlat 17 i lat)) (rad ro)
      ≤ ((chordMax (NL (rlat 17 i lat)) : ℚ) : ℝ) + 1 / 1000 := by
  obtain ⟨h1, h59⟩ := NL_range (rlat 17 i lat)
  have hA : |rlat 17 i lat - lat| ≤ dlat i / 262144 := by
    rw [rlat_eq_recv]; exact recv17_err _ _ (dlat_pos i hi)
  rw [dlon_eq_dlonOf] at hro
  exact sphere_dist i hi 262144 le_rfl lat lon _ ro k (abs_le_90 hlat)
    (abs_le_90 (rlat_range_air i hi lat hlat)) hA hro _ (chordMax_pos _).le
    (le_trans (chordMax_le _) (by norm_num)) (budget_air _ h1 h59 i hi)

open Real Rs1090.Proofs.Geo in
/-- surface: a quarter of it -/
theorem surf_dist (i : Nat) (hi : i ≤ 1) (lat lon : ℚ) (hlat : -90 ≤ lat ∧ lat ≤ 90) (ro : ℚ) (k : ℤ)
    (hro : |ro - (lon + 360 * k)| ≤ dlon i (rlat 19 i lat) / 1048576) :
    chordDist 6399594 (rad lat) (rad lon) (rad (rlat 19 i lat)) (rad ro)
      ≤ ((chordMax (NL (rlat 19 i lat)) / 4 : ℚ) : ℝ) ∧
    gcDist 6399594 (rad lat) (rad lon) (rad (rlat 19 i lat)) (rad ro)
      ≤ ((chordMax (NL (rlat 19 i lat)) / 4 : ℚ) : ℝ) + 1 / 1000 := by
  obtain ⟨h1, h59⟩ := NL_range (rlat 19 i lat)
  have hA : |rlat 19 i lat - lat| ≤ dlat i / 1048576 := by
    rw [rlat_eq_recv]; exact recv19_err _ _ (dlat_pos i hi)
  rw [dlon_eq_dlonOf] at hro
  have hc := chordMax_pos (NL (rlat 19 i lat))
  have hc' := chordMax_le (NL (rlat 19 i lat))
  refine sphere_dist i hi 1048576 (by norm_num) lat lon _ ro k (abs_le_90 hlat)
    (abs_le_90 (rlat_range_surf i hi lat hlat)) hA hro _ (by linarith) (by linarith) ?_
  rw [budget_surf]
  have := budget_air _ h1 h59 i hi
  calc budget (NL (rlat 19 i lat)) i 262144 / 16 ≤ chordMax (NL (rlat 19 i lat)) ^ 2 / 16 :=
        div_le_div_of_nonneg_right this (by norm_num)
    _ = (chordMax (NL (rlat 19 i lat)) / 4) ^ 2 := by ring

end Rs1090.Proofs.Metres
