/-
"Within 10 m" for CPR decoding (C04, C05): from the half-quantisation-step bounds in degrees
(`recv17_err`, `recv19_err`) to metres on the sphere of radius `R_MAX = 6 399 594 m` (the largest radius of
curvature of the WGS-84 ellipsoid, a²/b at the poles, rounded up — the radius the harness oracle uses).

  A. `lowThr_le`   ℚ: a latitude whose NL is n lies at or above the lower edge `lowThr n` of the band
  B. `cos_band`    ℝ: hence `cos(latitude) ≤ cosUB (NL latitude)` (59 cosine bounds of `CprMetresCos`)
  C. `budget_air`  ℚ: per band n and format i, `NS² + EW² ≤ 9.628²` with
                      NS = mPerDeg·Dlat_i/2^18, EW = mPerDeg·cosUB n·Dlon/2^18 (and the per-axis / taxicab sums)
  D. `close_sphere` ℝ: the chord and great-circle distance of the true and the recovered point
-/
import Mathlib.Tactic.IntervalCases
import Rs1090.Proofs.CprMetresCos
import Rs1090.Proofs.CprMetresGeo
import Rs1090.Proofs.CprGlobalSpec
namespace Rs1090.Proofs.Metres
open Rs1090 Rs1090.Spec.Cpr Rs1090.Proofs.Cpr

/-! ### A. the lower edge of an NL band (ℚ) -/

/-- a row of the table whose transition latitude is above `a` bounds `findNL a` from below (values descend) -/
theorem findNL_ge (a : ℚ) : ∀ l : List (Nat × Nat), l.Pairwise (fun r s => s.2 ≤ r.2) →
    ∀ row ∈ l, a < (row.1 : ℚ) / nlUnit → row.2 ≤ findNL a l := by
  intro l
  induction l with
  | nil => intro _ row hm; simp at hm
  | cons r rest ih =>
    intro hp row hm hlt
    rw [List.pairwise_cons] at hp
    by_cases hh : a < (r.1 : ℚ) / nlUnit
    · have e : findNL a (r :: rest) = r.2 := by simp [findNL, hh]
      rw [e]
      rcases List.mem_cons.mp hm with h | h
      · rw [h]
      · exact hp.1 row h
    · have e : findNL a (r :: rest) = findNL a rest := by simp [findNL, hh]
      rw [e]
      rcases List.mem_cons.mp hm with h | h
      · rw [h] at hlt; exact absurd hlt hh
      · exact ih hp.2 row h hlt

theorem nlTable_desc : nlTable.Pairwise (fun r s => s.2 ≤ r.2) := by decide

theorem nlTable_le87 : ∀ row ∈ nlTable, row.1 ≤ 8700000000 := by decide

/-- below 87° the standard's NL is the table lookup -/
theorem NL_eq_findNL (rl : ℚ) (h : |rl| < 87) : NL rl = findNL |rl| nlTable := by
  unfold NL
  rw [absR_eq_abs]
  simp only [ne_of_lt h, not_lt.mpr (le_of_lt h), if_false]
  rfl

/-- if `NL rl` is smaller than the value of a row, `|rl|` is at or above that row's transition latitude -/
theorem NL_low (rl : ℚ) (row : Nat × Nat) (hm : row ∈ nlTable) (h : NL rl < row.2) :
    (row.1 : ℚ) / nlUnit ≤ |rl| := by
  by_contra hlt
  rw [not_le] at hlt
  have h87 : (row.1 : ℚ) / nlUnit ≤ 87 := by
    have : (row.1 : ℚ) ≤ 8700000000 := by exact_mod_cast nlTable_le87 row hm
    unfold nlUnit
    rw [div_le_iff₀ (by norm_num)]
    linarith
  have e := NL_eq_findNL rl (lt_of_lt_of_le hlt h87)
  have := findNL_ge |rl| nlTable nlTable_desc row hm hlt
  omega

theorem NL_range (rl : ℚ) : 1 ≤ NL rl ∧ NL rl ≤ 59 := by
  rw [← nl_eq_NL]; exact nl_range rl

/-- every band 1 … 58 has the row n+1 of the table above it -/
theorem row_above : ∀ n, n < 58 → ∃ row ∈ nlTable, row.2 = n + 2 := by decide

/-- **A latitude lies at or above the lower edge of its NL band**: `lowThr (NL rl) ≤ |rl|`. -/
theorem lowThr_le (rl : ℚ) : lowThr (NL rl) ≤ |rl| := by
  obtain ⟨h1, h59⟩ := NL_range rl
  by_cases h : NL rl = 59
  · rw [h, lowThr_59]; exact abs_nonneg _
  · obtain ⟨row, hm, hr⟩ := row_above (NL rl - 1) (by omega)
    have ht := List.all_eq_true.mp lowThr_table row hm
    rw [decide_eq_true_eq] at ht
    have e : row.2 - 1 = NL rl := by omega
    rw [e] at ht
    rw [ht]
    exact NL_low rl row hm (by omega)

theorem lowThr_nonneg (n : Nat) (h1 : 1 ≤ n) (h59 : n ≤ 59) : 0 ≤ lowThr n := by
  interval_cases n <;> norm_num [lowThr]

/-! ### B. the cosine on an NL band (ℝ) -/

open Real Rs1090.Proofs.Geo in
/-- **The cosine of a latitude is at most the cosine bound of its NL band.** -/
theorem cos_band (rl : ℚ) (h90 : |rl| ≤ 90) : cos (rad (rl : ℝ)) ≤ ((cosUB (NL rl) : ℚ) : ℝ) := by
  obtain ⟨h1, h59⟩ := NL_range rl
  have hlow : ((lowThr (NL rl) : ℚ) : ℝ) ≤ |(rl : ℝ)| := by exact_mod_cast lowThr_le rl
  have h0 : (0 : ℝ) ≤ ((lowThr (NL rl) : ℚ) : ℝ) := by exact_mod_cast lowThr_nonneg _ h1 h59
  have h90' : |(rl : ℝ)| ≤ 90 := by exact_mod_cast h90
  have e : cos (rad (rl : ℝ)) = cos (|(rl : ℝ)| * π / 180) := by
    unfold rad
    rcases abs_cases (rl : ℝ) with ⟨ha, _⟩ | ⟨ha, _⟩
    · rw [ha]
    · rw [ha, ← cos_neg]; congr 1; ring
  rw [e]
  refine le_trans ?_ (cos_lowThr _ h1 h59)
  have hp := pi_pos
  apply cos_le_cos_of_nonneg_of_le_pi
  · positivity
  · nlinarith
  · nlinarith

open Real Rs1090.Proofs.Geo in
/-- latitudes in [-90°, 90°] have a non-negative cosine -/
theorem cos_rad_nonneg (x : ℚ) (h90 : |x| ≤ 90) : 0 ≤ cos (rad (x : ℝ)) := by
  have h90' : |(x : ℝ)| ≤ 90 := by exact_mod_cast h90
  obtain ⟨hl, hu⟩ := abs_le.mp h90'
  have hp := pi_pos
  unfold rad
  apply cos_nonneg_of_neg_pi_div_two_le_of_le <;> nlinarith
