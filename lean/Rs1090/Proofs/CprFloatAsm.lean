import Rs1090.Proofs.CprFloat
import Rs1090.Proofs.IeeeRound
/-!
The f64 argument for `airborne_position`, ASSEMBLED (C04).

`Proofs/CprFloat.lean` relates the `f64` computation of cpr.rs to the exact-rational model quantity by
quantity (`j`, `modulo`, `lat_even`, `m`, the longitude factor exact; `lat_odd`, the longitude within `10⁻¹²`°).
This file composes them into ONE float-level model of the whole function, `fAirbornePosition fl`, in which
every comparison (`>= 270`, `[-90, 90]`, the NL ladder against its decimal literals, `nl(lat_even) != nl(lat_odd)`,
`>= 180`) is made on the float values, and proves

  `airborne_position_f64_close` — for every `fl` with `Rounding fl`, all 17-bit fields, both report orders:
  under the margin hypothesis `Margin e o` (the exact values are farther than `10⁻⁹`° from the points where a
  comparison flips) the float computation returns `None` exactly when the exact model does, and otherwise a
  position within `10⁻¹¹`° of the model's on both axes;

  `airborne_position_ieee_close` — the same for `fl := fl64`, IEEE-754 binary64 round-to-nearest-even.

How the machine's view of a decimal literal is modelled: the literal `t` (e.g. `10.470_471_30`) is the binary64
value `fl t` — the literal is parsed correctly rounded.  `-90.`, `90.`, `270.0`, `180.0`, `360.0`, `0.5`, `59.0`,
`60.0` are binary64 values themselves.  Negation (`lat = -lat` in `nl`) flips the sign bit; it is not a rounded
operation and is modelled exactly.
-/
namespace Rs1090.Proofs.CprFloat
open Rs1090 Rs1090.Model.Cpr Rs1090.Proofs.Cpr

/-! ### `fn nl` on an f64 latitude, against the thresholds as the machine holds them -/

section NlDefs
variable (fl : ℚ → ℚ)
/-- the decimal literal `t / 10^8` of the generated ladder as the machine holds it: correctly rounded -/
def fThr (t : ℕ) : ℚ := fl (thr t)
/-- `Model.Cpr.rowHit` with the rounded literal -/
def fRowHit (a : ℚ) (t : ℕ) (strict : Bool) : Bool :=
  if strict then decide (a < fThr fl t) else decide (a ≤ fThr fl t)
/-- `Model.Cpr.nlGo` with the rounded literals -/
def fNlGo (a : ℚ) (dflt : ℕ) : List (ℕ × Bool × ℕ) → ℕ
  | [] => dflt
  | (t, strict, r) :: rest => if fRowHit fl a t strict then r else fNlGo a dflt rest
/-- `fn nl(lat: f64) -> u64` (cpr.rs l.133-206) on the f64 value `lat`: `if lat < 0.0 { lat = -lat }` (exact),
    then the generated ladder with every literal rounded -/
def fNl (lat : ℚ) : ℕ := fNlGo fl (fabs lat) Gen.Cpr.nlDefault Gen.Cpr.nlLadder
end NlDefs

variable {fl : ℚ → ℚ}

/-- one row is decided alike when the exact `a` is farther from the exact threshold than the two errors -/
theorem fRowHit_eq {a' a ε ρ : ℚ} (t : ℕ) (s : Bool) (h : |a' - a| ≤ ε)
    (ht : |fl (thr t) - thr t| ≤ ρ) (far : ε + ρ < |a - thr t|) : fRowHit fl a' t s = rowHit a t s := by
  have h1 := abs_le.mp h
  have h2 := abs_le.mp ht
  unfold fRowHit rowHit fThr
  rcases le_or_gt 0 (a - thr t) with hs | hs
  · rw [abs_of_nonneg hs] at far
    cases s
    · simp only [Bool.false_eq_true, if_false]
      rw [decide_eq_decide]
      constructor <;> intro _ <;> linarith
    · simp only [if_true]
      rw [decide_eq_decide]
      constructor <;> intro _ <;> linarith
  · rw [abs_of_neg hs] at far
    cases s
    · simp only [Bool.false_eq_true, if_false]
      rw [decide_eq_decide]
      constructor <;> intro _ <;> linarith
    · simp only [if_true]
      rw [decide_eq_decide]
      constructor <;> intro _ <;> linarith

theorem fNlGo_eq {a' a ε ρ : ℚ} (dflt : ℕ) (h : |a' - a| ≤ ε) :
    ∀ l : List (ℕ × Bool × ℕ),
      (∀ row ∈ l, |fl (thr row.1) - thr row.1| ≤ ρ ∧ ε + ρ < |a - thr row.1|) →
      fNlGo fl a' dflt l = nlGo a dflt l := by
  intro l
  induction l with
  | nil => intro _; rfl
  | cons row rest ih =>
    intro hall
    obtain ⟨t, s, r⟩ := row
    have h0 := hall (t, s, r) (List.mem_cons_self ..)
    unfold fNlGo nlGo
    rw [fRowHit_eq t s h h0.1 h0.2, ih (fun row hrow => hall row (List.mem_cons_of_mem _ hrow))]

/-- every threshold of the generated ladder is at most 87° -/
theorem ladder_thr_le : ∀ row ∈ Gen.Cpr.nlLadder, row.1 ≤ 8700000000 := by decide +kernel

/-- **the literals**: each decimal threshold is held within `10⁻¹³`° (`87·u + 2⁻¹⁰⁰ < 9.7·10⁻¹⁵`) -/
theorem thr_err (R : Rounding fl) : ∀ row ∈ Gen.Cpr.nlLadder, |fl (thr row.1) - thr row.1| ≤ 1 / 10 ^ 13 := by
  intro row hrow
  have h1 := ladder_thr_le row hrow
  have h2 : (row.1 : ℚ) ≤ 8700000000 := by exact_mod_cast h1
  have h3 : (0 : ℚ) ≤ (row.1 : ℚ) := Nat.cast_nonneg _
  have e : thr row.1 = (row.1 : ℚ) / 100000000 := by
    unfold thr Gen.Cpr.nlScale; norm_num
  have hb : |thr row.1| ≤ 87 := by
    rw [e, abs_of_nonneg (by positivity), div_le_iff₀ (by norm_num)]; linarith
  exact le_trans (R.abs_err hb (by norm_num)) (by unfold u; norm_num)

/-- the exact `|x|` is farther than `δ` from every transition latitude of the ladder -/
def nlFar (δ x : ℚ) : Prop := ∀ row ∈ Gen.Cpr.nlLadder, δ < abs (|x| - thr row.1)

instance (δ x : ℚ) : Decidable (nlFar δ x) := by unfold nlFar; infer_instance

theorem nlFar_mono {δ δ' x : ℚ} (h : δ' ≤ δ) (hf : nlFar δ x) : nlFar δ' x :=
  fun row hrow => lt_of_le_of_lt h (hf row hrow)

/-- **`nl` on the float value returns the exact model's band** when the float latitude is within `ε` of the exact
    one and the exact `|lat|` is farther than `ε + 10⁻¹³` (the literal's rounding error) from EVERY threshold -/
theorem fNl_eq_of_far (R : Rounding fl) {lat' lat ε : ℚ} (h : |lat' - lat| ≤ ε)
    (far : nlFar (ε + 1 / 10 ^ 13) lat) : fNl fl lat' = nl lat := by
  have ha : |fabs lat' - fabs lat| ≤ ε := by
    rw [fabs_eq_abs, fabs_eq_abs]
    exact le_trans (abs_abs_sub_abs_le_abs_sub _ _) h
  have := fNlGo_eq (fl := fl) (ρ := 1 / 10 ^ 13) Gen.Cpr.nlDefault ha Gen.Cpr.nlLadder
    (fun row hrow => ⟨thr_err R row hrow, by rw [fabs_eq_abs]; exact far row hrow⟩)
  exact this

/-- the float-level `nl` also returns `1..59` whatever the rounding (so `nl(lat) - p`, `nl(lat) - 1` on `u64`
    cannot underflow at float level either) -/
theorem fNlGo_range (lo hi dflt : ℕ) (a : ℚ) :
    ∀ l, ladderIn lo hi dflt l = true → lo ≤ fNlGo fl a dflt l ∧ fNlGo fl a dflt l ≤ hi := by
  intro l
  induction l with
  | nil =>
    intro h
    simp [ladderIn] at h
    simp [fNlGo, h]
  | cons row rest ih =>
    intro h
    obtain ⟨t, s, r⟩ := row
    simp only [ladderIn, List.all_cons, Bool.and_eq_true, decide_eq_true_eq] at h
    unfold fNlGo
    split
    · exact ⟨h.2.1.1, h.2.1.2⟩
    · apply ih
      simp only [ladderIn, Bool.and_eq_true, decide_eq_true_eq]
      exact ⟨h.1, h.2.2⟩

theorem fNl_range (x : ℚ) : 1 ≤ fNl fl x ∧ fNl fl x ≤ 59 :=
  fNlGo_range 1 59 _ _ _ (by decide +kernel)

end Rs1090.Proofs.CprFloat
