import Rs1090.Proofs.CprFloat
import Rs1090.Proofs.IeeeRound
/-!
The f64 argument for `airborne_position`, ASSEMBLED (C04).

`Proofs/CprFloat.lean` relates the `f64` computation of cpr.rs to the exact-rational model quantity by
quantity (`j`, `modulo`, `lat_even`, `m`, the longitude factor exact; `lat_odd`, the longitude within `10⁻¹²`°).
This file composes them into ONE float-level model of the whole function, `fAirbornePosition fl`, in which
every comparison (`>= 270`, `[-90, 90]`, the NL ladder against its decimal literals, `nl(lat_even) != nl(lat_odd)`,
`>= 180`) is made on the float values, and proves

  `airborne_position_f64_close` — for every `fl` with `Rounding fl`, all 17-bit fields, both report orders:
  under the margin hypothesis `Margin e o` (the exact values are farther than `10⁻⁹`° from the points where a
  comparison flips) the float computation returns `None` exactly when the exact model does, and otherwise a
  position within `10⁻¹¹`° of the model's on both axes;

  `airborne_position_ieee_close` — the same for `fl := fl64`, IEEE-754 binary64 round-to-nearest-even.

How the machine's view of a decimal literal is modelled: the literal `t` (e.g. `10.470_471_30`) is the binary64
value `fl t` — the literal is parsed correctly rounded.  `-90.`, `90.`, `270.0`, `180.0`, `360.0`, `0.5`, `59.0`,
`60.0` are binary64 values themselves.  Negation (`lat = -lat` in `nl`) flips the sign bit; it is not a rounded
operation and is modelled exactly.
-/
namespace Rs1090.Proofs.CprFloat
open Rs1090 Rs1090.Model.Cpr Rs1090.Proofs.Cpr

/-! ### `fn nl` on an f64 latitude, against the thresholds as the machine holds them -/

section NlDefs
variable (fl : ℚ → ℚ)
/-- the decimal literal `t / 10^8` of the generated ladder as the machine holds it: correctly rounded -/
def fThr (t : ℕ) : ℚ := fl (thr t)
/-- `Model.Cpr.rowHit` with the rounded literal -/
def fRowHit (a : ℚ) (t : ℕ) (strict : Bool) : Bool :=
  if strict then decide (a < fThr fl t) else decide (a ≤ fThr fl t)
/-- `Model.Cpr.nlGo` with the rounded literals -/
def fNlGo (a : ℚ) (dflt : ℕ) : List (ℕ × Bool × ℕ) → ℕ
  | [] => dflt
  | (t, strict, r) :: rest => if fRowHit fl a t strict then r else fNlGo a dflt rest
/-- `fn nl(lat: f64) -> u64` (cpr.rs l.133-206) on the f64 value `lat`: `if lat < 0.0 { lat = -lat }` (exact),
    then the generated ladder with every literal rounded -/
def fNl (lat : ℚ) : ℕ := fNlGo fl (fabs lat) Gen.Cpr.nlDefault Gen.Cpr.nlLadder
end NlDefs

variable {fl : ℚ → ℚ}

/-- one row is decided alike when the exact `a` is farther from the exact threshold than the two errors -/
theorem fRowHit_eq {a' a ε ρ : ℚ} (t : ℕ) (s : Bool) (h : |a' - a| ≤ ε)
    (ht : |fl (thr t) - thr t| ≤ ρ) (far : ε + ρ < |a - thr t|) : fRowHit fl a' t s = rowHit a t s := by
  have h1 := abs_le.mp h
  have h2 := abs_le.mp ht
  unfold fRowHit rowHit fThr
  rcases le_or_gt 0 (a - thr t) with hs | hs
  · rw [abs_of_nonneg hs] at far
    cases s
    · simp only [Bool.false_eq_true, if_false]
      rw [decide_eq_decide]
      constructor <;> intro _ <;> linarith
    · simp only [if_true]
      rw [decide_eq_decide]
      constructor <;> intro _ <;> linarith
  · rw [abs_of_neg hs] at far
    cases s
    · simp only [Bool.false_eq_true, if_false]
      rw [decide_eq_decide]
      constructor <;> intro _ <;> linarith
    · simp only [if_true]
      rw [decide_eq_decide]
      constructor <;> intro _ <;> linarith

theorem fNlGo_eq {a' a ε ρ : ℚ} (dflt : ℕ) (h : |a' - a| ≤ ε) :
    ∀ l : List (ℕ × Bool × ℕ),
      (∀ row ∈ l, |fl (thr row.1) - thr row.1| ≤ ρ ∧ ε + ρ < |a - thr row.1|) →
      fNlGo fl a' dflt l = nlGo a dflt l := by
  intro l
  induction l with
  | nil => intro _; rfl
  | cons row rest ih =>
    intro hall
    obtain ⟨t, s, r⟩ := row
    have h0 := hall (t, s, r) (List.mem_cons_self ..)
    unfold fNlGo nlGo
    rw [fRowHit_eq t s h h0.1 h0.2, ih (fun row hrow => hall row (List.mem_cons_of_mem _ hrow))]

/-- every threshold of the generated ladder is at most 87° -/
theorem ladder_thr_le : ∀ row ∈ Gen.Cpr.nlLadder, row.1 ≤ 8700000000 := by decide +kernel

/-- **the literals**: each decimal threshold is held within `10⁻¹³`° (`87·u + 2⁻¹⁰⁰ < 9.7·10⁻¹⁵`) -/
theorem thr_err (R : Rounding fl) : ∀ row ∈ Gen.Cpr.nlLadder, |fl (thr row.1) - thr row.1| ≤ 1 / 10 ^ 13 := by
  intro row hrow
  have h1 := ladder_thr_le row hrow
  have h2 : (row.1 : ℚ) ≤ 8700000000 := by exact_mod_cast h1
  have h3 : (0 : ℚ) ≤ (row.1 : ℚ) := Nat.cast_nonneg _
  have e : thr row.1 = (row.1 : ℚ) / 100000000 := by
    unfold thr Gen.Cpr.nlScale; norm_num
  have hb : |thr row.1| ≤ 87 := by
    rw [e, abs_of_nonneg (by positivity), div_le_iff₀ (by norm_num)]; linarith
  exact le_trans (R.abs_err hb (by norm_num)) (by unfold u; norm_num)

/-- the exact `|x|` is farther than `δ` from every transition latitude of the ladder -/
def nlFar (δ x : ℚ) : Prop := ∀ row ∈ Gen.Cpr.nlLadder, δ < abs (|x| - thr row.1)

instance (δ x : ℚ) : Decidable (nlFar δ x) := by unfold nlFar; infer_instance

theorem nlFar_mono {δ δ' x : ℚ} (h : δ' ≤ δ) (hf : nlFar δ x) : nlFar δ' x :=
  fun row hrow => lt_of_le_of_lt h (hf row hrow)

/-- **`nl` on the float value returns the exact model's band** when the float latitude is within `ε` of the exact
    one and the exact `|lat|` is farther than `ε + 10⁻¹³` (the literal's rounding error) from EVERY threshold -/
theorem fNl_eq_of_far (R : Rounding fl) {lat' lat ε : ℚ} (h : |lat' - lat| ≤ ε)
    (far : nlFar (ε + 1 / 10 ^ 13) lat) : fNl fl lat' = nl lat := by
  have ha : |fabs lat' - fabs lat| ≤ ε := by
    rw [fabs_eq_abs, fabs_eq_abs]
    exact le_trans (abs_abs_sub_abs_le_abs_sub _ _) h
  have := fNlGo_eq (fl := fl) (ρ := 1 / 10 ^ 13) Gen.Cpr.nlDefault ha Gen.Cpr.nlLadder
    (fun row hrow => ⟨thr_err R row hrow, by rw [fabs_eq_abs]; exact far row hrow⟩)
  exact this

/-- the float-level `nl` also returns `1..59` whatever the rounding (so `nl(lat) - p`, `nl(lat) - 1` on `u64`
    cannot underflow at float level either) -/
theorem fNlGo_range (lo hi dflt : ℕ) (a : ℚ) :
    ∀ l, ladderIn lo hi dflt l = true → lo ≤ fNlGo fl a dflt l ∧ fNlGo fl a dflt l ≤ hi := by
  intro l
  induction l with
  | nil =>
    intro h
    simp [ladderIn] at h
    simp [fNlGo, h]
  | cons row rest ih =>
    intro h
    obtain ⟨t, s, r⟩ := row
    simp only [ladderIn, List.all_cons, Bool.and_eq_true, decide_eq_true_eq] at h
    unfold fNlGo
    split
    · exact ⟨h.2.1.1, h.2.1.2⟩
    · apply ih
      simp only [ladderIn, Bool.and_eq_true, decide_eq_true_eq]
      exact ⟨h.1, h.2.2⟩

theorem fNl_range (x : ℚ) : 1 ≤ fNl fl x ∧ fNl fl x ≤ 59 :=
  fNlGo_range 1 59 _ _ _ (by decide +kernel)

/-! ### the complete float-level model of `airborne_position` (cpr.rs l.225-307) -/

section AsmDefs
variable (fl : ℚ → ℚ)

/-- body of `airborne_position` once the `match` has named the even and the odd frame — `Model.Cpr.globalCore`
    (in the normal form `Proofs.Cpr.globalCore_eq`) with every value replaced by the f64 value and every
    comparison made on the f64 values: the two `>= 270` wraps (inside `fLatE`, `fLatO`), the `[-90, 90]` test
    (`-90.`, `90.` are binary64 values), `nl(lat_even) != nl(lat_odd)` through `fNl`, `latest == even_frame`,
    `(p, c)`, `ni`, `m`, `r`, the longitude (`fLon0` with `n = fNl(lat)`) and its `>= 180` wrap.  `none` exactly
    where the Rust code returns `None`.  (`fNl ≥ 1` — `fNl_range` — so the `u64` subtractions `nl(lat) - p`,
    `nl(lat) - 1` inside `fLon0`/`fM` do not underflow: truncated = checked subtraction.) -/
def fGlobalCore (e o l : Msg) : Option (ℚ × ℚ) :=
  if (!(inLatRange (fLatE fl e o)) || !(inLatRange (fLatO fl e o))) = true then none
  else if fNl fl (fLatE fl e o) ≠ fNl fl (fLatO fl e o) then none
  else some (if l = e then fLatE fl e o else fLatO fl e o,
    fWrap180 fl (fLon0 fl e o (fNl fl (if l = e then fLatE fl e o else fLatO fl e o))
      (if l.parity = .even then 0 else 1) (if l.parity = .even then e.lon else o.lon)))

/-- `pub fn airborne_position(oldest, latest) -> Option<Position>` in f64: the `match` on the two parities, as
    `Model.Cpr.airbornePosition` -/
def fAirbornePosition (oldest latest : Msg) : Option (ℚ × ℚ) :=
  match oldest.parity, latest.parity with
  | .even, .odd => fGlobalCore fl oldest latest latest
  | .odd, .even => fGlobalCore fl latest oldest latest
  | _, _ => none
end AsmDefs

theorem fAirbornePosition_eo (fl : ℚ → ℚ) (e o : Msg) (he : e.parity = .even) (ho : o.parity = .odd) :
    fAirbornePosition fl e o = fGlobalCore fl e o o ∧ fAirbornePosition fl o e = fGlobalCore fl e o e := by
  unfold fAirbornePosition
  simp [he, ho]

/-- **The margin hypothesis** at distance `δ`: the exact (rational-model) values stay farther than `δ` degrees from
    every point where one of the comparisons that involve an INEXACT f64 value flips.  (`lat_even` is computed
    exactly, so only its NL band needs a margin — against the rounding of the literals.)  Every clause is a
    decidable statement about rationals computed from the four 17-bit fields. -/
structure MarginAt (δ : ℚ) (e o : Msg) : Prop where
  /-- `lat_even` is not within `δ` of a transition latitude of the NL table -/
  latE_nl : nlFar δ (gLatE e o)
  /-- nor is `lat_odd` -/
  latO_nl : nlFar δ (gLatO e o)
  /-- `lat_odd` before the wrap is not within `δ` of the `>= 270` wrap point -/
  latO_270 : δ < |gLatO0 e o - 270|
  /-- `lat_odd` is not within `δ` of `+90` … -/
  latO_90 : δ < |gLatO e o - 90|
  /-- … or of `-90` -/
  latO_m90 : δ < |gLatO e o + 90|
  /-- the longitude (before the wrap) is not within `δ` of the `>= 180` wrap point, latest = even … -/
  lonE_180 : δ < |gLon0 e o (nl (gLatE e o)) 0 e.lon - 180|
  /-- … and latest = odd -/
  lonO_180 : δ < |gLon0 e o (nl (gLatO e o)) 1 o.lon - 180|

/-- the margin of the assembled theorem: `δ = 10⁻⁹` degrees (0.1 mm on the ground) -/
abbrev Margin (e o : Msg) : Prop := MarginAt (1 / 10 ^ 9) e o

/-- float result vs model result: `None` together, or positions within `tol` degrees on both axes -/
def Close (tol : ℚ) (f : Option (ℚ × ℚ)) (g : Outcome (Option Pos)) : Prop :=
  (f = none ↔ g = .ok none) ∧
  ∀ q, f = some q → ∃ p : Pos, g = .ok (some p) ∧ |q.1 - p.lat| ≤ tol ∧ |q.2 - p.lon| ≤ tol

/-- the facts about the two latitudes that every branch of the assembly uses -/
theorem lat_facts (R : Rounding fl) (e o : Msg) (he : e.lat < 131072) (ho : o.lat < 131072) {δ : ℚ}
    (hδ : 1 / 10 ^ 11 ≤ δ) (M : MarginAt δ e o) :
    fLatE fl e o = gLatE e o ∧ |fLatO fl e o - gLatO e o| ≤ 2 / 10 ^ 12 ∧
    inLatRange (fLatO fl e o) = inLatRange (gLatO e o) ∧
    fNl fl (fLatE fl e o) = nl (gLatE e o) ∧ fNl fl (fLatO fl e o) = nl (gLatO e o) := by
  have hE := fLatE_eq R e o he ho
  obtain ⟨w1, w2⟩ := lat_odd_wrapped_err R e o he ho
  have hO : |fLatO fl e o - gLatO e o| ≤ 2 / 10 ^ 12 :=
    w1 (w2 (lt_of_le_of_lt (by linarith) M.latO_270))
  have hδ2 : (2 : ℚ) / 10 ^ 12 < δ := lt_of_lt_of_le (by norm_num) hδ
  have r1 : (fLatO fl e o ≤ 90 ↔ gLatO e o ≤ 90) := le_iff_of_far hO (lt_trans hδ2 M.latO_90)
  have r2 : (fLatO fl e o ≥ -90 ↔ gLatO e o ≥ -90) :=
    ge_iff_of_far hO (by rw [sub_neg_eq_add]; exact lt_trans hδ2 M.latO_m90)
  refine ⟨hE, hO, ?_, ?_, ?_⟩
  · unfold inLatRange
    rw [decide_eq_decide.mpr r1]
    have : decide (-90 ≤ fLatO fl e o) = decide (-90 ≤ gLatO e o) := decide_eq_decide.mpr r2
    rw [this]
  · rw [hE]
    exact fNl_eq_of_far R (ε := 0) (by simp)
      (nlFar_mono (le_trans (by norm_num) hδ) M.latE_nl)
  · exact fNl_eq_of_far R hO (nlFar_mono (le_trans (by norm_num) hδ) M.latO_nl)

/-- the assembly for one choice of `latest` (`l = o`: order (even, odd); `l = e`: order (odd, even)) -/
theorem fGlobalCore_close (R : Rounding fl) (e o l : Msg) (hpe : e.parity = .even) (hpo : o.parity = .odd)
    (he : e.lat < 131072 ∧ e.lon < 131072) (ho : o.lat < 131072 ∧ o.lon < 131072) (hl : l = e ∨ l = o)
    {δ : ℚ} (hδ : 1 / 10 ^ 11 ≤ δ) (M : MarginAt δ e o) :
    Close (1 / 10 ^ 11) (fGlobalCore fl e o l) (globalCore e o l) := by
  obtain ⟨hE, hO, hR, hN1, hN2⟩ := lat_facts R e o he.1 ho.1 hδ M
  have hδ1 : (1 : ℚ) / 10 ^ 12 < δ := lt_of_lt_of_le (by norm_num) hδ
  have hne : ¬ (o = e) := by
    intro h; rw [h, hpe] at hpo; cases hpo
  have hN1' : fNl fl (gLatE e o) = nl (gLatE e o) := by rw [hE] at hN1; exact hN1
  rw [globalCore_eq]
  unfold fGlobalCore
  rw [hN1, hN2, hR, hE]
  by_cases c1 : (!(inLatRange (gLatE e o)) || !(inLatRange (gLatO e o))) = true
  · rw [if_pos c1, if_pos c1]
    exact ⟨by simp, fun q hq => by cases hq⟩
  rw [if_neg c1, if_neg c1]
  by_cases c2 : nl (gLatE e o) ≠ nl (gLatO e o)
  · rw [if_pos c2, if_pos c2]
    exact ⟨by simp, fun q hq => by cases hq⟩
  rw [if_neg c2, if_neg c2]
  refine ⟨by simp, fun q hq => ?_⟩
  have hq' := (Option.some.inj hq).symm
  refine ⟨_, rfl, ?_⟩
  rw [hq']
  rcases hl with rfl | rfl
  · -- latest = even frame
    simp only [if_true, hpe]
    rw [hN1']
    obtain ⟨n1, n59⟩ := nl_range (gLatE l o)
    obtain ⟨l1, l2⟩ := lon_wrapped_err R l o (nl (gLatE l o)) 0 l.lon he.2 ho.2 he.2 n1 n59
    have := l1 (l2 (lt_trans hδ1 M.lonE_180))
    rw [gLon_eq_gLon0]
    exact ⟨by simp, le_trans this (by norm_num)⟩
  · -- latest = odd frame
    simp only [if_neg hne, hpo, reduceCtorEq, if_false]
    rw [hN2]
    obtain ⟨n1, n59⟩ := nl_range (gLatO e l)
    obtain ⟨l1, l2⟩ := lon_wrapped_err R e l (nl (gLatO e l)) 1 l.lon he.2 ho.2 ho.2 n1 n59
    have := l1 (l2 (lt_trans hδ1 M.lonO_180))
    rw [gLon_eq_gLon0]
    exact ⟨le_trans hO (by norm_num), le_trans this (by norm_num)⟩

/-- **The complete f64 computation of `airborne_position` returns (almost) what the exact model returns.**
    For every rounding function `fl` satisfying the standard model, every even report `e` and odd report `o`
    with 17-bit fields, BOTH orders of the pair: under the margin hypothesis the float-level computation returns
    `None` exactly when the rational model returns `None`, and otherwise the two positions differ by at most
    `10⁻¹¹` degrees in latitude and in longitude (in fact `2·10⁻¹²`). -/
theorem airborne_position_f64_close (fl : ℚ → ℚ) (R : Rounding fl) (e o : Msg)
    (hpe : e.parity = .even) (hpo : o.parity = .odd)
    (he : e.lat < 131072 ∧ e.lon < 131072) (ho : o.lat < 131072 ∧ o.lon < 131072) (M : Margin e o) :
    ((fAirbornePosition fl e o = none ↔ airbornePosition e o = .ok none) ∧
      ∀ q, fAirbornePosition fl e o = some q → ∃ p : Pos, airbornePosition e o = .ok (some p) ∧
        |q.1 - p.lat| ≤ 1 / 10 ^ 11 ∧ |q.2 - p.lon| ≤ 1 / 10 ^ 11) ∧
    ((fAirbornePosition fl o e = none ↔ airbornePosition o e = .ok none) ∧
      ∀ q, fAirbornePosition fl o e = some q → ∃ p : Pos, airbornePosition o e = .ok (some p) ∧
        |q.1 - p.lat| ≤ 1 / 10 ^ 11 ∧ |q.2 - p.lon| ≤ 1 / 10 ^ 11) := by
  obtain ⟨a1, a2⟩ := airbornePosition_eo e o hpe hpo
  obtain ⟨f1, f2⟩ := fAirbornePosition_eo fl e o hpe hpo
  rw [a1, a2, f1, f2]
  exact ⟨fGlobalCore_close R e o o hpe hpo he ho (Or.inr rfl) (by norm_num) M,
    fGlobalCore_close R e o e hpe hpo he ho (Or.inl rfl) (by norm_num) M⟩

/-- **… in IEEE-754 binary64 round-to-nearest-even**, unconditionally in the rounding -/
theorem airborne_position_ieee_close (e o : Msg)
    (hpe : e.parity = .even) (hpo : o.parity = .odd)
    (he : e.lat < 131072 ∧ e.lon < 131072) (ho : o.lat < 131072 ∧ o.lon < 131072) (M : Margin e o) :
    ((fAirbornePosition IeeeRound.fl64 e o = none ↔ airbornePosition e o = .ok none) ∧
      ∀ q, fAirbornePosition IeeeRound.fl64 e o = some q → ∃ p : Pos, airbornePosition e o = .ok (some p) ∧
        |q.1 - p.lat| ≤ 1 / 10 ^ 11 ∧ |q.2 - p.lon| ≤ 1 / 10 ^ 11) ∧
    ((fAirbornePosition IeeeRound.fl64 o e = none ↔ airbornePosition o e = .ok none) ∧
      ∀ q, fAirbornePosition IeeeRound.fl64 o e = some q → ∃ p : Pos, airbornePosition o e = .ok (some p) ∧
        |q.1 - p.lat| ≤ 1 / 10 ^ 11 ∧ |q.2 - p.lon| ≤ 1 / 10 ^ 11) :=
  airborne_position_f64_close IeeeRound.fl64 IeeeRound.rounding_fl64 e o hpe hpo he ho M

/-- … and, read the other way: whenever the exact model returns a position `p` (in either order of the pair),
    the float-level computation returns a position too, within `10⁻¹¹` degrees of `p` on both axes -/
theorem airborne_position_f64_some (fl : ℚ → ℚ) (R : Rounding fl) (e o : Msg)
    (hpe : e.parity = .even) (hpo : o.parity = .odd)
    (he : e.lat < 131072 ∧ e.lon < 131072) (ho : o.lat < 131072 ∧ o.lon < 131072) (M : Margin e o) :
    (∀ p : Pos, airbornePosition e o = .ok (some p) → ∃ q, fAirbornePosition fl e o = some q ∧
        |q.1 - p.lat| ≤ 1 / 10 ^ 11 ∧ |q.2 - p.lon| ≤ 1 / 10 ^ 11) ∧
    (∀ p : Pos, airbornePosition o e = .ok (some p) → ∃ q, fAirbornePosition fl o e = some q ∧
        |q.1 - p.lat| ≤ 1 / 10 ^ 11 ∧ |q.2 - p.lon| ≤ 1 / 10 ^ 11) := by
  obtain ⟨⟨n1, s1⟩, ⟨n2, s2⟩⟩ := airborne_position_f64_close fl R e o hpe hpo he ho M
  constructor
  · intro p hp
    cases hf : fAirbornePosition fl e o with
    | none => rw [n1.mp hf] at hp; cases hp
    | some q =>
      obtain ⟨p', hp', c⟩ := s1 q hf
      rw [hp] at hp'; cases hp'
      exact ⟨q, rfl, c⟩
  · intro p hp
    cases hf : fAirbornePosition fl o e with
    | none => rw [n2.mp hf] at hp; cases hp
    | some q =>
      obtain ⟨p', hp', c⟩ := s2 q hf
      rw [hp] at hp'; cases hp'
      exact ⟨q, rfl, c⟩

/-! ### the margin is decidable (a finite conjunction of comparisons of rationals) -/

theorem marginAt_iff (δ : ℚ) (e o : Msg) : MarginAt δ e o ↔
    (nlFar δ (gLatE e o) ∧ nlFar δ (gLatO e o) ∧ δ < |gLatO0 e o - 270| ∧ δ < |gLatO e o - 90| ∧
      δ < |gLatO e o + 90| ∧ δ < |gLon0 e o (nl (gLatE e o)) 0 e.lon - 180| ∧
      δ < |gLon0 e o (nl (gLatO e o)) 1 o.lon - 180|) :=
  ⟨fun M => ⟨M.1, M.2, M.3, M.4, M.5, M.6, M.7⟩, fun ⟨a, b, c, d, e', f, g⟩ => ⟨a, b, c, d, e', f, g⟩⟩

instance (δ : ℚ) (e o : Msg) : Decidable (MarginAt δ e o) := decidable_of_iff _ (marginAt_iff δ e o).symm

/-- the transmitted fields of an encoded report are 17-bit values -/
theorem report_fields_lt (nb i : ℕ) (lat lon : ℚ) :
    (report nb i lat lon).lat < 131072 ∧ (report nb i lat lon).lon < 131072 := by
  unfold report Spec.Cpr.encode
  constructor
  · show (Spec.Cpr.yz nb i lat % 131072).toNat < 131072
    omega
  · show (Spec.Cpr.xz nb i (Spec.Cpr.rlat nb i lat) lon % 131072).toNat < 131072
    omega

/-! ### the complete float-level model of `airborne_position_with_reference` / `surface_position_with_reference` -/

section LocalAsmDefs
variable (fl : ℚ → ℚ)
/-- l.337 / 402 `lat = d_lat * (j + cpr_lat)` with `j` of l.335 / 400 -/
def fLatOf (full : ℚ) (m : Msg) (latRef : ℚ) : ℚ :=
  fCoord fl (fDLat fl full m) (fIdx fl latRef (fDLat fl full m) m.lat) m.lat
/-- l.347-351 / 412-416 `ni = if even { nl(lat) } else { nl(lat) - 1 }` (`u64`; `fNl ≥ 1`, no underflow) -/
def fNi (m : Msg) (lat : ℚ) : ℕ := fNl fl lat - fmt m
/-- l.352-361 / 417-426 -/
def fLonOf (full : ℚ) (m : Msg) (lat lonRef : ℚ) : ℚ :=
  fCoord fl (fDLon fl full (fNi fl m lat)) (fIdx fl lonRef (fDLon fl full (fNi fl m lat)) m.lon) m.lon
/-- l.343, 364 / 408, 429 `fabs(x - ref) > d / 2.` on the f64 values -/
def fHalfFar (x ref d : ℚ) : Prop := fabs (fl (x - ref)) > fl (d / 2)
instance (x ref d : ℚ) : Decidable (fHalfFar fl x ref d) := by unfold fHalfFar; infer_instance

/-- `Model.Cpr.withRef` (normal form `Proofs.Cpr.withRef_eq`) on the f64 values -/
def fWithRef (full : ℚ) (m : Msg) (latRef lonRef : ℚ) : Option (ℚ × ℚ) :=
  if inLatRange (fLatOf fl full m latRef) = false then none
  else if fHalfFar fl (fLatOf fl full m latRef) latRef (fDLat fl full m) then none
  else if fHalfFar fl (fLonOf fl full m (fLatOf fl full m latRef) lonRef) lonRef
      (fDLon fl full (fNi fl m (fLatOf fl full m latRef))) then none
  else some (fLatOf fl full m latRef, fLonOf fl full m (fLatOf fl full m latRef) lonRef)

/-- `pub fn airborne_position_with_reference(msg, latitude_ref, longitude_ref)` in f64 -/
def fAirborneWithRef (m : Msg) (latRef lonRef : ℚ) : Option (ℚ × ℚ) := fWithRef fl 360 m latRef lonRef
/-- `pub fn surface_position_with_reference(msg, latitude_ref, longitude_ref)` in f64 -/
def fSurfaceWithRef (m : Msg) (latRef lonRef : ℚ) : Option (ℚ × ℚ) := fWithRef fl 90 m latRef lonRef
end LocalAsmDefs

/-- the decoded coordinate is within half a zone of the reference (before any test) -/
theorem coord_near {d ref : ℚ} (k : ℕ) (hd : 0 < d) :
    |d * ((⌊gIdxArg ref d k⌋ : ℚ) + (k : ℚ) / 131072) - ref| ≤ d / 2 := by
  generalize hA : gIdxArg ref d k = A
  have hAeq : A = 1 / 2 + ref / d - (k : ℚ) / 131072 := by rw [← hA]; rfl
  have h0 : ((⌊A⌋ : ℤ) : ℚ) ≤ A := Int.floor_le A
  have h1 : A < ((⌊A⌋ : ℤ) : ℚ) + 1 := Int.lt_floor_add_one A
  have e : d * ((⌊A⌋ : ℚ) + (k : ℚ) / 131072) - ref = d * ((⌊A⌋ : ℚ) - A + 1 / 2) := by
    rw [hAeq]; field_simp; ring
  rw [e, abs_le]
  constructor <;> nlinarith

/-- **the half-cell test** `fabs(x - ref) > d / 2.` on the f64 values is decided as on the exact values unless the
    exact `|x − ref|` is within `10⁻¹¹` of `d / 2` -/
theorem half_cmp (R : Rounding fl) {x' x ref d' d : ℚ} (hx : |x' - x| ≤ 1 / 10 ^ 12)
    (hd : 3 / 2 ≤ d) (hd360 : d ≤ 360) (hd' : |d' - d| ≤ d * u + 1 / 2 ^ 100) (hxr : |x - ref| ≤ 200)
    (far : 1 / 10 ^ 11 < abs (|x - ref| - d / 2)) : fHalfFar fl x' ref d' ↔ |x - ref| > d / 2 := by
  have hxx := abs_le.mp hx
  have hxr' := abs_le.mp hxr
  have hdd := abs_le.mp hd'
  have hu : d * u + 1 / 2 ^ 100 ≤ 1 / 10 ^ 13 := by
    have : d * u ≤ 360 * u := mul_le_mul_of_nonneg_right hd360 (le_of_lt u_pos)
    have : 360 * u + 1 / 2 ^ 100 ≤ 1 / 10 ^ 13 := by unfold u; norm_num
    linarith
  have b1 : |x' - ref| ≤ 256 := by rw [abs_le]; constructor <;> linarith
  have r1 := abs_le.mp (R.abs_err b1 (by norm_num))
  have b2 : |d' / 2| ≤ 256 := by rw [abs_le]; constructor <;> linarith
  have r2 := abs_le.mp (R.abs_err b2 (by norm_num))
  have hu2 : 256 * u + 1 / 2 ^ 100 ≤ 1 / 10 ^ 13 := by unfold u; norm_num
  -- |fl(x' - ref)| vs |x - ref|
  have ha : abs (|fl (x' - ref)| - |x - ref|) ≤ 2 / 10 ^ 12 := by
    refine le_trans (abs_abs_sub_abs_le_abs_sub _ _) ?_
    rw [abs_le]; constructor <;> linarith
  have ha' := abs_le.mp ha
  unfold fHalfFar
  rw [fabs_eq_abs]
  rcases le_or_gt 0 (|x - ref| - d / 2) with hs | hs
  · rw [abs_of_nonneg hs] at far
    constructor <;> intro _ <;> simp only [gt_iff_lt] <;> linarith
  · rw [abs_of_neg hs] at far
    constructor <;> intro h <;> simp only [gt_iff_lt] at h ⊢ <;> linarith

theorem inLatRange_eq_of_far {x' x ε : ℚ} (h : |x' - x| ≤ ε) (f1 : ε < |x - 90|) (f2 : ε < |x + 90|) :
    inLatRange x' = inLatRange x := by
  have r1 : (x' ≤ 90 ↔ x ≤ 90) := le_iff_of_far h f1
  have r2 : (x' ≥ -90 ↔ x ≥ -90) := ge_iff_of_far h (by rw [sub_neg_eq_add]; exact f2)
  unfold inLatRange
  rw [decide_eq_decide.mpr r1]
  have : decide (-90 ≤ x') = decide (-90 ≤ x) := decide_eq_decide.mpr r2
  rw [this]

/-- l.352 / 417 with `ni = nl(lat) - i` (`u64`): one rounding of the model's `d_lon = full / max(nl(lat) − i, 1)` -/
theorem fDLon_niOf (R : Rounding fl) (full : ℚ) (hf : full = 360 ∨ full = 90) (i : ℕ) (lat : ℚ) :
    |fDLon fl full (nl lat - i) - full / (niOf i lat : ℚ)| ≤ full / (niOf i lat : ℚ) * u + 1 / 2 ^ 100 ∧
      3 / 2 ≤ full / (niOf i lat : ℚ) ∧ full / (niOf i lat : ℚ) ≤ 360 := by
  have hr := nl_range lat
  by_cases h : 1 ≤ nl lat - i
  · have e : niOf i lat = nl lat - i := by unfold niOf; exact max_eq_left h
    rw [e]
    exact fDLon_err R full hf (nl lat - i) h (by omega)
  · have h0 : nl lat - i = 0 := by omega
    have e : niOf i lat = 1 := by unfold niOf; rw [h0]; rfl
    have hu : (0 : ℚ) ≤ full * u + 1 / 2 ^ 100 := by
      have := u_pos
      rcases hf with h | h <;> rw [h] <;> positivity
    rw [e, h0]
    unfold fDLon
    simp only [gt_iff_lt, lt_self_iff_false, if_false, Nat.cast_one, div_one, sub_self, abs_zero]
    refine ⟨hu, ?_, ?_⟩ <;> rcases hf with h | h <;> rw [h] <;> norm_num

/-- **The margin hypothesis of the local decoders** at distance `δ`: the two floor arguments stay `δ` away from
    the integers, the latitude `δ` away from ±90 and from every NL transition latitude, and the two half-cell
    tests `δ` away from equality — all on the EXACT values. -/
structure LocalMarginAt (δ full : ℚ) (m : Msg) (latRef lonRef : ℚ) : Prop where
  latIdx_lo : (⌊gIdxArg latRef (dLatOf full m) m.lat⌋ : ℚ) + δ ≤ gIdxArg latRef (dLatOf full m) m.lat
  latIdx_hi : gIdxArg latRef (dLatOf full m) m.lat + δ < (⌊gIdxArg latRef (dLatOf full m) m.lat⌋ : ℚ) + 1
  lat_90 : δ < |latOf full m latRef - 90|
  lat_m90 : δ < |latOf full m latRef + 90|
  lat_half : δ < abs (|latOf full m latRef - latRef| - dLatOf full m / 2)
  lat_nl : nlFar δ (latOf full m latRef)
  lonIdx_lo : (⌊gIdxArg lonRef (dLonOf full m (latOf full m latRef)) m.lon⌋ : ℚ) + δ
      ≤ gIdxArg lonRef (dLonOf full m (latOf full m latRef)) m.lon
  lonIdx_hi : gIdxArg lonRef (dLonOf full m (latOf full m latRef)) m.lon + δ
      < (⌊gIdxArg lonRef (dLonOf full m (latOf full m latRef)) m.lon⌋ : ℚ) + 1
  lon_half : δ < abs (|lonOf full m (latOf full m latRef) lonRef - lonRef|
      - dLonOf full m (latOf full m latRef) / 2)

/-- the margin of the assembled local theorem: `δ = 10⁻⁹` -/
abbrev LocalMargin (full : ℚ) (m : Msg) (latRef lonRef : ℚ) : Prop := LocalMarginAt (1 / 10 ^ 9) full m latRef lonRef

theorem withRef_f64_close_at (R : Rounding fl) (full : ℚ) (hf : full = 360 ∨ full = 90) (m : Msg)
    (hm : m.lat < 131072 ∧ m.lon < 131072) (latRef lonRef : ℚ) (hlr : |latRef| ≤ 360) (hor : |lonRef| ≤ 360)
    {δ : ℚ} (hδ : 1 / 10 ^ 11 ≤ δ) (M : LocalMarginAt δ full m latRef lonRef) :
    Close (1 / 10 ^ 11) (fWithRef fl full m latRef lonRef) (withRef full m latRef lonRef) := by
  have hδ1 : (1 : ℚ) / 10 ^ 12 ≤ δ := le_trans (by norm_num) hδ
  have hδ2 : (1 : ℚ) / 10 ^ 12 < δ := lt_of_lt_of_le (by norm_num) hδ
  -- latitude
  obtain ⟨dl1, dl2, dl3⟩ := fDLat_err R full hf m
  obtain ⟨_, idx, crd⟩ := local_axis R m.lat hm.1 dl2 dl3 dl1 hlr
  have hJ := idx (by linarith [M.latIdx_lo]) (by linarith [M.latIdx_hi])
  have hLat : |fLatOf fl full m latRef - latOf full m latRef| ≤ 1 / 10 ^ 12 := by
    unfold fLatOf; rw [hJ, latOf_eq]; exact crd
  have hR : inLatRange (fLatOf fl full m latRef) = inLatRange (latOf full m latRef) :=
    inLatRange_eq_of_far hLat (lt_trans hδ2 M.lat_90) (lt_trans hδ2 M.lat_m90)
  have near1 : |latOf full m latRef - latRef| ≤ 200 := by
    rw [latOf_eq]; exact le_trans (coord_near m.lat (by linarith)) (by linarith)
  have hH1 := half_cmp R hLat dl2 dl3 dl1 near1 (lt_of_le_of_lt hδ M.lat_half)
  have hN : fNl fl (fLatOf fl full m latRef) = nl (latOf full m latRef) :=
    fNl_eq_of_far R hLat (nlFar_mono (le_trans (by norm_num) hδ) M.lat_nl)
  -- longitude
  obtain ⟨o1, o2, o3⟩ := fDLon_niOf R full hf (fmt m) (latOf full m latRef)
  have hNi : fNi fl m (fLatOf fl full m latRef) = nl (latOf full m latRef) - fmt m := by
    unfold fNi; rw [hN]
  have o1' : |fDLon fl full (nl (latOf full m latRef) - fmt m) - dLonOf full m (latOf full m latRef)|
      ≤ dLonOf full m (latOf full m latRef) * u + 1 / 2 ^ 100 := o1
  have o2' : 3 / 2 ≤ dLonOf full m (latOf full m latRef) := o2
  have o3' : dLonOf full m (latOf full m latRef) ≤ 360 := o3
  obtain ⟨_, idx', crd'⟩ := local_axis R m.lon hm.2 o2' o3' o1' hor
  have hM := idx' (by linarith [M.lonIdx_lo]) (by linarith [M.lonIdx_hi])
  have hLon : |fLonOf fl full m (fLatOf fl full m latRef) lonRef
      - lonOf full m (latOf full m latRef) lonRef| ≤ 1 / 10 ^ 12 := by
    unfold fLonOf; rw [hNi, hM, lonOf_eq]; exact crd'
  have near2 : |lonOf full m (latOf full m latRef) lonRef - lonRef| ≤ 200 := by
    rw [lonOf_eq]; exact le_trans (coord_near m.lon (by linarith)) (by linarith)
  have hH2 := half_cmp R hLon o2' o3' o1' near2 (lt_of_le_of_lt hδ M.lon_half)
  -- the branches
  rw [withRef_eq]
  unfold fWithRef
  rw [hNi, hR]
  by_cases c1 : inLatRange (latOf full m latRef) = false
  · rw [if_pos c1, if_pos c1]
    exact ⟨by simp, fun q hq => by cases hq⟩
  rw [if_neg c1, if_neg c1]
  by_cases c2 : |latOf full m latRef - latRef| > dLatOf full m / 2
  · rw [if_pos c2, if_pos (hH1.mpr c2)]
    exact ⟨by simp, fun q hq => by cases hq⟩
  rw [if_neg c2, if_neg (fun h => c2 (hH1.mp h))]
  by_cases c3 : |lonOf full m (latOf full m latRef) lonRef - lonRef| > dLonOf full m (latOf full m latRef) / 2
  · rw [if_pos c3, if_pos (hH2.mpr c3)]
    exact ⟨by simp, fun q hq => by cases hq⟩
  rw [if_neg c3, if_neg (fun h => c3 (hH2.mp h))]
  refine ⟨by simp, fun q hq => ?_⟩
  have hq' := (Option.some.inj hq).symm
  refine ⟨_, rfl, ?_⟩
  rw [hq']
  exact ⟨le_trans hLat (by norm_num), le_trans hLon (by norm_num)⟩

/-- **The complete f64 computation of `airborne_position_with_reference` returns (almost) what the exact model
    returns** (C05): for every rounding function satisfying the standard model, every report with 17-bit fields and
    every reference with `|lat_ref|, |lon_ref| ≤ 360`, under the margin hypothesis: `None` exactly when the rational
    model returns `None`, otherwise positions within `10⁻¹¹` degrees on each axis (in fact `10⁻¹²`). -/
theorem airborne_with_reference_f64_close (fl : ℚ → ℚ) (R : Rounding fl) (m : Msg)
    (hm : m.lat < 131072 ∧ m.lon < 131072) (latRef lonRef : ℚ) (hlr : |latRef| ≤ 360) (hor : |lonRef| ≤ 360)
    (M : LocalMargin 360 m latRef lonRef) :
    (fAirborneWithRef fl m latRef lonRef = none ↔ airborneWithRef m latRef lonRef = .ok none) ∧
    ∀ q, fAirborneWithRef fl m latRef lonRef = some q → ∃ p : Pos, airborneWithRef m latRef lonRef = .ok (some p) ∧
      |q.1 - p.lat| ≤ 1 / 10 ^ 11 ∧ |q.2 - p.lon| ≤ 1 / 10 ^ 11 :=
  withRef_f64_close_at R 360 (Or.inl rfl) m hm latRef lonRef hlr hor (by norm_num) M

/-- the same for `surface_position_with_reference` (`full = 90`) -/
theorem surface_with_reference_f64_close (fl : ℚ → ℚ) (R : Rounding fl) (m : Msg)
    (hm : m.lat < 131072 ∧ m.lon < 131072) (latRef lonRef : ℚ) (hlr : |latRef| ≤ 360) (hor : |lonRef| ≤ 360)
    (M : LocalMargin 90 m latRef lonRef) :
    (fSurfaceWithRef fl m latRef lonRef = none ↔ surfaceWithRef m latRef lonRef = .ok none) ∧
    ∀ q, fSurfaceWithRef fl m latRef lonRef = some q → ∃ p : Pos, surfaceWithRef m latRef lonRef = .ok (some p) ∧
      |q.1 - p.lat| ≤ 1 / 10 ^ 11 ∧ |q.2 - p.lon| ≤ 1 / 10 ^ 11 :=
  withRef_f64_close_at R 90 (Or.inr rfl) m hm latRef lonRef hlr hor (by norm_num) M

theorem localMarginAt_iff (δ full : ℚ) (m : Msg) (latRef lonRef : ℚ) : LocalMarginAt δ full m latRef lonRef ↔
    (((⌊gIdxArg latRef (dLatOf full m) m.lat⌋ : ℚ) + δ ≤ gIdxArg latRef (dLatOf full m) m.lat) ∧
     (gIdxArg latRef (dLatOf full m) m.lat + δ < (⌊gIdxArg latRef (dLatOf full m) m.lat⌋ : ℚ) + 1) ∧
     δ < |latOf full m latRef - 90| ∧ δ < |latOf full m latRef + 90| ∧
     δ < abs (|latOf full m latRef - latRef| - dLatOf full m / 2) ∧ nlFar δ (latOf full m latRef) ∧
     ((⌊gIdxArg lonRef (dLonOf full m (latOf full m latRef)) m.lon⌋ : ℚ) + δ
        ≤ gIdxArg lonRef (dLonOf full m (latOf full m latRef)) m.lon) ∧
     (gIdxArg lonRef (dLonOf full m (latOf full m latRef)) m.lon + δ
        < (⌊gIdxArg lonRef (dLonOf full m (latOf full m latRef)) m.lon⌋ : ℚ) + 1) ∧
     δ < abs (|lonOf full m (latOf full m latRef) lonRef - lonRef| - dLonOf full m (latOf full m latRef) / 2)) :=
  ⟨fun M => ⟨M.1, M.2, M.3, M.4, M.5, M.6, M.7, M.8, M.9⟩,
   fun ⟨a, b, c, d, e, f, g, h, i⟩ => ⟨a, b, c, d, e, f, g, h, i⟩⟩

instance (δ full : ℚ) (m : Msg) (latRef lonRef : ℚ) : Decidable (LocalMarginAt δ full m latRef lonRef) :=
  decidable_of_iff _ (localMarginAt_iff δ full m latRef lonRef).symm

/-- read the other way: when the exact model returns a position `p`, the float-level computation returns one too,
    within the tolerance -/
theorem Close.of_some {tol : ℚ} {f : Option (ℚ × ℚ)} {g : Outcome (Option Pos)} (h : Close tol f g) {p : Pos}
    (hg : g = .ok (some p)) : ∃ q, f = some q ∧ |q.1 - p.lat| ≤ tol ∧ |q.2 - p.lon| ≤ tol := by
  obtain ⟨n, s⟩ := h
  cases hf : f with
  | none => rw [n.mp hf] at hg; cases hg
  | some q =>
    obtain ⟨p', hp', c⟩ := s q hf
    rw [hg] at hp'; cases hp'
    exact ⟨q, rfl, c⟩

end Rs1090.Proofs.CprFloat
