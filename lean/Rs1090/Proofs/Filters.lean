/-
Helper lemmas for C11: what the top-level `DF` reader (`Message.df`) guarantees about the `df`
and `icao24` keys of the serialised message, *whatever the payload readers do* (they are opaque
here: `me`, `Commb.df20`, `Commb.df21`, `ac13Field`, … only contribute a value and a next state).
-/
import Rs1090.Model.Filters
namespace Rs1090.Proofs.Filters
open Rs1090 Rs1090.Model Rs1090.Model.Filters Rs1090.Model.Message

/-! ### the reader monad -/

theorem bind_ok {α β} {m : R α} {f : α → R β} {s : Rd} {r : β × Rd}
    (h : (m >>= f) s = .ok r) : ∃ a s', m s = .ok (a, s') ∧ f a s' = .ok r := by
  change R.bind m f s = .ok r at h
  unfold R.bind at h
  split at h
  · rename_i a s' hm; exact ⟨a, s', hm, h⟩
  · cases h
  · cases h

theorem pure_ok {α} {a : α} {s : Rd} {r : α × Rd} (h : (pure a : R α) s = .ok r) : r = (a, s) := by
  change R.pure a s = .ok r at h
  unfold R.pure at h
  cases h; rfl

/-- a successful non-empty big-endian read: the value, and the state keeps its bytes and advances -/
theorem bits_ok {n : Nat} {s : Rd} {v : Nat} {s' : Rd} (hn : n ≠ 0) (h : bits n s = .ok (v, s')) :
    v = bitsBE s.bytes s.p n ∧ s'.bytes = s.bytes ∧ s'.p = s.p + n := by
  unfold bits at h
  have hn' : (n == 0) = false := by simpa using hn
  rw [hn'] at h
  simp only [Bool.false_eq_true, if_false] at h
  split at h
  · cases h; exact ⟨rfl, rfl, rfl⟩
  · cases h

theorem enumId_ok {n : Nat} {s : Rd} {v : Nat} {s' : Rd} (hn : n ≠ 0) (h : enumId n s = .ok (v, s')) :
    v = bitsBE s.bytes s.p n ∧ s'.bytes = s.bytes ∧ s'.p = s.p + n := by
  unfold enumId at h
  exact bits_ok (s := { s with last := 0 }) hn h

/-! ### field lists -/

/-- `fs` shows the downlink format and (for the address-carrying formats) the address of `v` -/
def Shows (fs : Fields) (v : MsgView) : Prop :=
  (∃ k, fs.head? = some (key! "df", some (Json.lit k)) ∧ k.name = (display v).1) ∧
  ∀ a, (display v).2 = some a → (key! "icao24", some (jhex6 a)) ∈ fs

theorem withFields_ok {pre post : Fields} {inner : SerFields} {fs : Fields}
    (h : withFields pre inner post = .ok fs) : ∃ mid, fs = pre ++ mid ++ post := by
  unfold withFields at h
  cases inner with
  | error e => cases h
  | ok mid => exact ⟨mid, by cases h; rfl⟩

theorem mem_toObj {fs : Fields} {k : Key} {j : Json} (h : (k, some j) ∈ fs) : (k, j) ∈ fs.toObj := by
  unfold Fields.toObj
  rw [List.mem_filterMap]
  exact ⟨(k, some j), h, rfl⟩

theorem head_toObj {fs : Fields} {k : Key} {j : Json} (h : fs.head? = some (k, some j)) :
    fs.toObj.head? = some (k, j) := by
  cases fs with
  | nil => cases h
  | cons x rest =>
    simp only [List.head?_cons, Option.some.injEq] at h
    subst h
    simp [Fields.toObj]


theorem bind_ok' {α β} {m : R α} {f : α → R β} {s : Rd} {r : β × Rd}
    (h : (m >>= f) s = .ok r) : ∃ a s', f a s' = .ok r := by
  obtain ⟨a, s', _, h⟩ := bind_ok h
  exact ⟨a, s', h⟩

theorem shows_of_append {pre mid post : Fields} {v : MsgView} (h : Shows (pre ++ post) v) (hp : pre ≠ []) :
    Shows (pre ++ mid ++ post) v := by
  obtain ⟨⟨k, hk, hn⟩, ha⟩ := h
  refine ⟨⟨k, ?_, hn⟩, ?_⟩
  · cases pre with
    | nil => exact absurd rfl hp
    | cons x xs => simpa using hk
  · intro a hda
    have := ha a hda
    simp only [List.mem_append] at this ⊢
    rcases this with h | h
    · exact Or.inl (Or.inl h)
    · exact Or.inr h

/-! ### the top-level `DF` reader

Whenever `Message.df crc` succeeds on the buffered frame `bs` — with any result of the payload
readers — the header view exists and, if the message serialises (`r = .ok fs`), the field list
starts with the `df` tag that `display` announces and contains the announced `icao24`. -/
theorem df_fields (crc : Nat) (bs : List Nat) (r : SerFields) (s : Rd)
    (h : (Message.df crc).run bs = .ok (r, s)) :
    ∃ v, hdrView crc bs = some v ∧ ∀ fs, r = .ok fs → Shows fs v := by
  unfold R.run Message.df at h
  obtain ⟨id, s1, h1, h⟩ := bind_ok h
  obtain ⟨hid, hb1, hp1⟩ := enumId_ok (by decide) h1
  simp only [Rd.init] at hid hb1 hp1
  unfold hdrView
  rw [← hid]
  unfold Message.dfBody at h
  split at h
  · -- DF0
    obtain ⟨_, _, h⟩ := bind_ok' h
    obtain ⟨_, _, h⟩ := bind_ok' h
    obtain ⟨_, _, h⟩ := bind_ok' h
    cases pure_ok h
    refine ⟨_, rfl, ?_⟩
    intro fs hfs; cases hfs
    exact ⟨⟨_, rfl, rfl⟩, by intro a ha; cases ha; simp [fld]⟩
  · -- DF4
    obtain ⟨_, _, h⟩ := bind_ok' h
    obtain ⟨_, _, h⟩ := bind_ok' h
    obtain ⟨_, _, h⟩ := bind_ok' h
    cases pure_ok h
    refine ⟨_, rfl, ?_⟩
    intro fs hfs; cases hfs
    exact ⟨⟨_, rfl, rfl⟩, by intro a ha; cases ha; simp [fld]⟩
  · -- DF5
    obtain ⟨_, _, h⟩ := bind_ok' h
    obtain ⟨_, _, h⟩ := bind_ok' h
    obtain ⟨_, _, h⟩ := bind_ok' h
    cases pure_ok h
    refine ⟨_, rfl, ?_⟩
    intro fs hfs; cases hfs
    exact ⟨⟨_, rfl, rfl⟩, by intro a ha; cases ha; simp [fld]⟩
  · -- DF11: `icao` is the 24 bits after the 5-bit DF and the 3-bit capability
    obtain ⟨cap, s2, h2, h⟩ := bind_ok h
    obtain ⟨_, hb2, hp2⟩ := enumId_ok (by decide) h2
    obtain ⟨icao, s3, h3, h⟩ := bind_ok h
    obtain ⟨hicao, hb3, hp3⟩ := bits_ok (by decide) h3
    obtain ⟨_, _, h⟩ := bind_ok' h
    cases pure_ok h
    rw [hb2, hb1, hp2, hp1] at hicao
    simp only [Nat.zero_add, Nat.reduceAdd] at hicao
    refine ⟨.allCall icao (bitsBE bs 32 24), ?_, ?_⟩
    · rw [hicao]; rfl
    · intro fs hfs; cases hfs
      exact ⟨⟨_, rfl, rfl⟩, by intro a ha; cases ha; simp [fld]⟩
  · -- DF16
    obtain ⟨_, _, h⟩ := bind_ok' h
    obtain ⟨_, _, h⟩ := bind_ok' h
    obtain ⟨_, _, h⟩ := bind_ok' h
    obtain ⟨_, _, h⟩ := bind_ok' h
    obtain ⟨_, _, h⟩ := bind_ok' h
    obtain ⟨_, _, h⟩ := bind_ok' h
    obtain ⟨_, _, h⟩ := bind_ok' h
    obtain ⟨_, _, h⟩ := bind_ok' h
    obtain ⟨_, _, h⟩ := bind_ok' h
    cases pure_ok h
    refine ⟨_, rfl, ?_⟩
    intro fs hfs; cases hfs
    exact ⟨⟨_, rfl, rfl⟩, by intro a ha; cases ha; simp [fld]⟩
  · -- DF17: the `ME` reader is opaque; its fields land between the two keys and nothing
    obtain ⟨cap, s2, h2, h⟩ := bind_ok h
    obtain ⟨_, hb2, hp2⟩ := enumId_ok (by decide) h2
    obtain ⟨icao, s3, h3, h⟩ := bind_ok h
    obtain ⟨hicao, hb3, hp3⟩ := bits_ok (by decide) h3
    obtain ⟨m, _, h⟩ := bind_ok' h
    obtain ⟨_, _, h⟩ := bind_ok' h
    cases pure_ok h
    rw [hb2, hb1, hp2, hp1] at hicao
    simp only [Nat.zero_add, Nat.reduceAdd] at hicao
    refine ⟨.adsb icao, ?_, ?_⟩
    · rw [hicao]; rfl
    · intro fs hfs
      obtain ⟨mid, rfl⟩ := withFields_ok hfs
      exact shows_of_append ⟨⟨_, rfl, rfl⟩, by intro a ha; cases ha; simp [fld]⟩ (by simp)
  · -- DF18
    obtain ⟨ft, s2, h2, h⟩ := bind_ok h
    obtain ⟨_, hb2, hp2⟩ := enumId_ok (by decide) h2
    obtain ⟨aa, s3, h3, h⟩ := bind_ok h
    obtain ⟨haa, hb3, hp3⟩ := bits_ok (by decide) h3
    obtain ⟨m, _, h⟩ := bind_ok' h
    obtain ⟨_, _, h⟩ := bind_ok' h
    cases pure_ok h
    rw [hb2, hb1, hp2, hp1] at haa
    simp only [Nat.zero_add, Nat.reduceAdd] at haa
    refine ⟨.tisb aa, ?_, ?_⟩
    · rw [haa]; rfl
    · intro fs hfs
      obtain ⟨mid, rfl⟩ := withFields_ok hfs
      exact shows_of_append ⟨⟨_, rfl, rfl⟩, by intro a ha; cases ha; simp [fld]⟩ (by simp)
  · -- DF19
    obtain ⟨_, _, h⟩ := bind_ok' h
    cases pure_ok h
    refine ⟨_, rfl, ?_⟩
    intro fs hfs; cases hfs
    exact ⟨⟨_, rfl, rfl⟩, by intro a ha; cases ha⟩
  · -- DF20: the Comm-B selector is opaque; `icao24` is appended after whatever it yields
    obtain ⟨_, _, h⟩ := bind_ok' h
    obtain ⟨_, _, h⟩ := bind_ok' h
    obtain ⟨_, _, h⟩ := bind_ok' h
    obtain ⟨_, _, h⟩ := bind_ok' h
    cases pure_ok h
    refine ⟨_, rfl, ?_⟩
    intro fs hfs
    obtain ⟨mid, rfl⟩ := withFields_ok hfs
    exact shows_of_append ⟨⟨_, rfl, rfl⟩, by intro a ha; cases ha; simp [fld]⟩ (by simp)
  · -- DF21
    obtain ⟨_, _, h⟩ := bind_ok' h
    obtain ⟨_, _, h⟩ := bind_ok' h
    obtain ⟨_, _, h⟩ := bind_ok' h
    obtain ⟨_, _, h⟩ := bind_ok' h
    cases pure_ok h
    refine ⟨_, rfl, ?_⟩
    intro fs hfs
    obtain ⟨mid, rfl⟩ := withFields_ok hfs
    exact shows_of_append ⟨⟨_, rfl, rfl⟩, by intro a ha; cases ha; simp [fld]⟩ (by simp)
  · -- DF24..31, or an unknown discriminant (which fails)
    split at h
    · rename_i hcond
      obtain ⟨_, _, h⟩ := bind_ok' h
      obtain ⟨_, _, h⟩ := bind_ok' h
      obtain ⟨_, _, h⟩ := bind_ok' h
      obtain ⟨_, _, h⟩ := bind_ok' h
      obtain ⟨_, _, h⟩ := bind_ok' h
      obtain ⟨_, _, h⟩ := bind_ok' h
      cases pure_ok h
      refine ⟨.commD (bitsBE bs 86 24), ?_, ?_⟩
      · simp only [Bool.and_eq_true, decide_eq_true_eq] at hcond
        have h8 : id = 24 ∨ id = 25 ∨ id = 26 ∨ id = 27 ∨ id = 28 ∨ id = 29 ∨ id = 30 ∨ id = 31 := by omega
        rcases h8 with rfl | rfl | rfl | rfl | rfl | rfl | rfl | rfl <;> rfl
      · intro fs hfs; cases hfs
        exact ⟨⟨_, rfl, rfl⟩, by intro a ha; cases ha⟩
    · cases h


/-! ### from the buffered frame to `Message.tryFrom` -/

/-- the JSON object `kvs` shows the downlink format and the address of `v`: the object starts with
    the `df` tag (serde writes the tag of an internally tagged enum first) whose text is
    `(display v).1`, and it has the member `"icao24": "<six hex digits of (display v).2>"` -/
def ShowsObj (kvs : List (Key × Json)) (v : MsgView) : Prop :=
  (∃ k, kvs.head? = some (key! "df", Json.lit k) ∧ k.name = (display v).1) ∧
  ∀ a, (display v).2 = some a → (key! "icao24", jhex6 a) ∈ kvs

theorem showsObj_of_shows {fs : Fields} {v : MsgView} (h : Shows fs v) : ShowsObj fs.toObj v := by
  obtain ⟨⟨k, hk, hn⟩, ha⟩ := h
  exact ⟨⟨k, head_toObj hk, hn⟩, fun a hda => mem_toObj (ha a hda)⟩

theorem decodeBuf_view (b0 : Nat) (bs : List Nat) (r : SerFields)
    (h : decodeBuf b0 bs = .ok r) :
    ∃ crc, modesChecksum bs (frameBits b0) = .ok crc ∧ ((b0 >>> 3) == 17 && crc > 0) = false ∧
      ∃ v, hdrView crc bs = some v ∧ ∀ fs, r = .ok fs → Shows fs v := by
  unfold decodeBuf at h
  split at h
  · cases h
  · cases h
  · rename_i crc hcrc
    split at h
    · cases h
    · rename_i hc
      split at h
      · cases h
      · cases h
      · rename_i v s hrun
        cases h
        exact ⟨crc, hcrc, by simpa using hc, df_fields crc bs _ s hrun⟩

/-- **Every accepted frame has a view, and its JSON shows what `display` says** — for all nine
    address-carrying formats (and DF19/24–31), independently of the payload readers. -/
theorem tryFrom_view (bs : List Nat) (d : Decoded) (h : tryFrom bs = .ok d) :
    ∃ v, viewOf bs = some v ∧ ∀ kvs, d = .json (.obj kvs) → ShowsObj kvs v := by
  cases bs with
  | nil => simp [tryFrom] at h
  | cons b0 rest =>
    simp only [tryFrom] at h
    split at h
    · cases h
    · split at h
      · cases h
      · cases h
      · rename_i r hdb
        split at h
        · cases h
        · rename_i hl
          simp only [bne_iff_ne, ne_eq, Decidable.not_not] at hl
          have htake : (b0 :: rest).take (frameBits b0 / 8) = b0 :: rest := by
            rw [hl]; exact List.take_length
          rw [htake] at hdb
          obtain ⟨crc, hcrc, hc, v, hv, hs⟩ := decodeBuf_view b0 _ r hdb
          refine ⟨v, ?_, ?_⟩
          · simp only [viewOf]
            have : ((b0 :: rest).length != frameBits b0 / 8) = false := by
              simp [hl]
            rw [this, hcrc]
            simp only [Bool.false_eq_true, if_false]
            rw [hc]
            simpa using hv
          · intro kvs hd
            cases h
            cases r with
            | error e => simp [toDecoded] at hd
            | ok fs =>
              simp only [toDecoded, Decoded.json.injEq, Json.obj.injEq] at hd
              subst hd
              exact showsObj_of_shows (hs fs rfl)


/-! ### key lookup -/

/-- the member a JSON reader finds under key `k` (first match; keys compare by interned id) -/
def objGet (kvs : List (Key × Json)) (k : Key) : Option Json :=
  (kvs.find? fun kv => kv.1 == k).map (·.2)

/-- in an object without duplicate keys, membership is lookup -/
theorem objGet_of_mem {kvs : List (Key × Json)} {k : Key} {j : Json}
    (hnd : (kvs.map (·.1.id)).Nodup) (hm : (k, j) ∈ kvs) : objGet kvs k = some j := by
  induction kvs with
  | nil => cases hm
  | cons x xs ih =>
    simp only [List.map_cons, List.nodup_cons] at hnd
    unfold objGet
    rw [List.find?_cons]
    by_cases hx : (x.1 == k) = true
    · rw [hx]
      rcases List.mem_cons.mp hm with h | h
      · subst h; rfl
      · exfalso
        apply hnd.1
        have hid : x.1.id = k.id := by
          have : (x.1.id == k.id) = true := hx
          simpa using this
        rw [hid]
        exact List.mem_map.mpr ⟨(k, j), h, rfl⟩
    · have hx' : (x.1 == k) = false := by simpa using hx
      rw [hx']
      rcases List.mem_cons.mp hm with h | h
      · subst h
        exfalso; apply hx
        show (k.id == k.id) = true
        simp
      · exact ih hnd.2 h

theorem objGet_head {kvs : List (Key × Json)} {k : Key} {j : Json}
    (h : kvs.head? = some (k, j)) : objGet kvs k = some j := by
  cases kvs with
  | nil => cases h
  | cons x xs =>
    simp only [List.head?_cons, Option.some.injEq] at h
    subst h
    unfold objGet
    rw [List.find?_cons]
    have : ((k, j).1 == k) = true := by show (k.id == k.id) = true; simp
    rw [this]; rfl

/-! ### the displayed address is a 24-bit number -/

theorem bitsBE_lt (bs : List Nat) (p n : Nat) : bitsBE bs p n < 2 ^ n := by
  induction n with
  | zero => simp [bitsBE]
  | succ n ih =>
    have hb : bitAt bs (p + n) < 2 := by unfold bitAt; exact Nat.mod_lt _ (by decide)
    simp only [bitsBE, Nat.pow_succ]
    omega

theorem crcLoop_lt (l : List Nat) (rem r : Nat) (hr : rem < 2 ^ 24) (h : crcLoop l rem = .ok r) :
    r < 2 ^ 24 := by
  induction l generalizing rem with
  | nil => simp only [crcLoop] at h; cases h; exact hr
  | cons b rest ih =>
    simp only [crcLoop] at h
    cases ht : idx Gen.Crc.crcTable (b ^^^ ((rem &&& 0xff0000) >>> 16)) with
    | ok t =>
      rw [ht] at h
      change Outcome.bind (.ok t) _ = _ at h
      rw [Outcome.bind_ok] at h
      refine ih _ ?_ h
      exact Nat.lt_of_le_of_lt Nat.and_le_right (by decide)
    | err e => rw [ht] at h; change Outcome.bind (.err e) _ = _ at h; rw [Outcome.bind_err] at h; cases h
    | panic x => rw [ht] at h; change Outcome.bind (.panic x) _ = _ at h; rw [Outcome.bind_panic] at h; cases h

theorem idx_mem {α} {xs : List α} {i : Nat} {a : α} (h : idx xs i = .ok a) : a ∈ xs := by
  unfold idx at h
  split at h
  · rename_i b hb; cases h; exact List.mem_of_getElem? hb
  · cases h

theorem obind_ok {α β} {x : Outcome α} {f : α → Outcome β} {r : β} (h : (x >>= f) = .ok r) :
    ∃ a, x = .ok a ∧ f a = .ok r := by
  change Outcome.bind x f = .ok r at h
  cases x with
  | ok a => rw [Outcome.bind_ok] at h; exact ⟨a, rfl, h⟩
  | err e => rw [Outcome.bind_err] at h; cases h
  | panic s => rw [Outcome.bind_panic] at h; cases h

theorem modesChecksum_lt (bs : List Nat) (bits crc : Nat) (hb : ∀ b ∈ bs, b < 256)
    (h : modesChecksum bs bits = .ok crc) : crc < 2 ^ 24 := by
  unfold modesChecksum at h
  simp only at h
  split at h
  · cases h
  · obtain ⟨rem, hrem, h⟩ := obind_ok h
    obtain ⟨m1, h1, h⟩ := obind_ok h
    obtain ⟨m2, h2, h⟩ := obind_ok h
    obtain ⟨m3, h3, h⟩ := obind_ok h
    rw [Outcome.pure_eq] at h
    cases h
    have hr := crcLoop_lt _ 0 rem (by decide) hrem
    have b1 := hb _ (idx_mem h1)
    have b2 := hb _ (idx_mem h2)
    have b3 := hb _ (idx_mem h3)
    have s1 : m1 <<< 16 < 2 ^ 24 := by rw [Nat.shiftLeft_eq]; omega
    have s2 : m2 <<< 8 < 2 ^ 24 := by rw [Nat.shiftLeft_eq]; omega
    have s3 : m3 < 2 ^ 24 := by omega
    exact Nat.xor_lt_two_pow hr (Nat.xor_lt_two_pow (Nat.xor_lt_two_pow s1 s2) s3)

/-- the view's format is address-carrying exactly for the nine DF numbers of the property -/
theorem hdrView_addressCarrying {crc : Nat} {bs : List Nat} {v : MsgView} (h : hdrView crc bs = some v) :
    addressCarrying v = [0, 4, 5, 11, 16, 17, 18, 20, 21].contains (bitsBE bs 0 5) := by
  unfold hdrView at h
  simp only at h
  split at h
  case h_11 =>
    split at h
    · rename_i hcond
      cases h
      simp only [Bool.and_eq_true, decide_eq_true_eq] at hcond
      have : ∀ x, 24 ≤ x → [0, 4, 5, 11, 16, 17, 18, 20, 21].contains x = false := by
        intro x hx; simp; omega
      rw [this _ hcond.1]; rfl
    · cases h
  all_goals
    rename_i hid
    cases h
    rw [hid]; rfl

/-- with byte-valued input, every address a view displays is below 2^24 (so its six hex digits
    identify it) -/
theorem hdrView_display_lt {crc : Nat} {bs : List Nat} {v : MsgView} {a : Nat} (hc : crc < 2 ^ 24)
    (h : hdrView crc bs = some v) (ha : (display v).2 = some a) : a < 2 ^ 24 := by
  unfold hdrView at h
  simp only at h
  split at h
  case h_11 =>
    split at h
    · cases h; cases ha
    · cases h
  all_goals
    cases h
    first
      | (cases ha; done)
      | (cases ha; exact hc)
      | (cases ha; exact bitsBE_lt _ _ _)

theorem viewOf_display_lt {bs : List Nat} {v : MsgView} {a : Nat} (hb : ∀ b ∈ bs, b < 256)
    (h : viewOf bs = some v) (ha : (display v).2 = some a) : a < 2 ^ 24 := by
  unfold viewOf at h
  split at h
  · cases h
  · split at h
    · cases h
    · split at h
      · rename_i crc hcrc
        split at h
        · cases h
        · exact hdrView_display_lt (modesChecksum_lt _ _ _ hb hcrc) h ha
      · cases h

theorem viewOf_addressCarrying {bs : List Nat} {v : MsgView} (h : viewOf bs = some v) :
    addressCarrying v = [0, 4, 5, 11, 16, 17, 18, 20, 21].contains (bitsBE bs 0 5) := by
  unfold viewOf at h
  split at h
  · cases h
  · split at h
    · cases h
    · split at h
      · split at h
        · cases h
        · exact hdrView_addressCarrying h
      · cases h

end Rs1090.Proofs.Filters
