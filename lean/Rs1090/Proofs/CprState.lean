import Rs1090.Model.CprState
import Mathlib.Tactic.SplitIfs
import Mathlib.Tactic.Linarith
/-!
The stateful trajectory decoder (`Model/CprState.lean`), without arithmetic:

* readable normal forms of the two arms of `decode_position`, written with the LITERAL windows and gates
  (`< 0`, `< 10`, `< 180`, `> 50`, `< 180`, `< 1`) — `airborneArm_literal`, `surfaceArm_literal` prove that the
  model instantiated with gates that ARE these literals (`LiteralGates g`) is that normal form;
  `Props.C06.source_gates_literal` proves `LiteralGates Gates.source` for the regenerated gates, so that an
  edit of a number or of a comparison operator in the source breaks that theorem;
* the frame lemmas of the cache and the non-interference induction.
-/
set_option linter.unusedSimpArgs false
set_option linter.unusedVariables false
namespace Rs1090.Proofs.CprState
open Rs1090 Rs1090.Model.Cpr Rs1090.Model.CprState

/-- the six windows and gates are the documented ones, with their comparison operators -/
structure LiteralGates (g : Gates) : Prop where
  outOfOrder : ∀ dt, g.outOfOrder dt = decide (dt < 0)
  pairWindow : ∀ dt, g.pairWindow dt = decide (dt < 10)
  refWindow : ∀ dt, g.refWindow dt = decide (dt < 180)
  gateReject : ∀ d, g.gateReject d = decide (d > 50)
  surfRefWindow : ∀ dt, g.surfRefWindow dt = decide (dt < 180)
  surfContinuity : ∀ d, g.surfContinuity d = decide (d < 1)

/-! ### the BDS 0,5 arm with literal windows -/

/-- globally unambiguous decoding against the stored report of the other parity, if it is less than 10 s old -/
def pairDecode (e : AircraftState) (ts : Rat) (m : Msg) : Option Pos :=
  if ts - otherTs e m.parity < 10 then
    match otherMsg e m.parity with
    | some oldest => flat (airbornePosition oldest m)
    | none => none
  else none

/-- locally unambiguous decoding against the aircraft's last position, if it is less than 180 s old -/
def refDecode (e : AircraftState) (ts : Rat) (m : Msg) : Option Pos :=
  if ts - e.timestamp < 180 then
    match e.pos with
    | some latestPos => flat (airborneWithRef m latestPos.lat latestPos.lon)
    | none => none
  else none

/-- pair first, last position second -/
def airCandidate (e : AircraftState) (ts : Rat) (m : Msg) : Option Pos :=
  match pairDecode e ts m with
  | some p => some p
  | none => refDecode e ts m

/-- the 50 km plausibility gate against the last position (whatever its age) -/
def gate50 (dist : Pos → Pos → Rat) (cand last : Option Pos) : Option Pos :=
  match cand, last with
  | some newPos, some latestPos => if dist newPos latestPos > 50 then none else some newPos
  | c, _ => c

/-- what is attached to a BDS 0,5 report that passes the out-of-order guard -/
def airOut (dist : Pos → Pos → Rat) (e : AircraftState) (ts : Rat) (m : Msg) : Option Pos :=
  gate50 dist (airCandidate e ts m) e.pos

/-- the entry after a BDS 0,5 report that passes the out-of-order guard: position := what was attached
    (`None` on failure), time stamp of the position only on success, parity slot always -/
def airEntry (dist : Pos → Pos → Rat) (e : AircraftState) (ts : Rat) (m : Msg) : AircraftState :=
  storeSlot
    (match airOut dist e ts m with
     | some p => { e with pos := some p, timestamp := ts }
     | none => { e with pos := none })
    m ts

theorem airborneArm_literal (g : Gates) (hg : LiteralGates g) (dist : Pos → Pos → Rat) (e : AircraftState)
    (ts : Rat) (m : Msg) :
    airborneArm g dist e ts m =
      if ts - otherTs e m.parity < 0 then none else some (airEntry dist e ts m, airOut dist e ts m) := by
  unfold airborneArm airEntry airOut gate50 airCandidate pairDecode refDecode
  simp only [hg.outOfOrder, hg.pairWindow, hg.refWindow, hg.gateReject, decide_eq_true_eq, Bool.and_eq_true]
  by_cases h0 : ts - otherTs e m.parity < 0
  · simp only [h0, if_true]
  · simp only [h0, if_false]
    cases hm : otherMsg e m.parity with
    | none =>
      cases hp : e.pos with
      | none =>
        simp only
        by_cases h10 : ts - otherTs e m.parity < 10 <;> by_cases h180 : ts - e.timestamp < 180 <;>
          simp only [h10, h180, if_true, if_false, Option.isNone_none, Option.isNone_some, and_true, true_and,
            and_false, false_and, and_self, Bool.false_eq_true] <;>
          (try split_ifs) <;> rfl
      | some lp =>
        simp only
        generalize flat (airborneWithRef m lp.lat lp.lon) = L
        cases L <;>
        by_cases h10 : ts - otherTs e m.parity < 10 <;> by_cases h180 : ts - e.timestamp < 180 <;>
          simp only [h10, h180, if_true, if_false, Option.isNone_none, Option.isNone_some, and_true, true_and,
            and_false, false_and, and_self, Bool.false_eq_true] <;>
          (try split_ifs) <;> rfl
    | some o =>
      simp only
      generalize flat (airbornePosition o m) = G
      cases hp : e.pos with
      | none =>
        simp only
        cases G <;>
        by_cases h10 : ts - otherTs e m.parity < 10 <;> by_cases h180 : ts - e.timestamp < 180 <;>
          simp only [h10, h180, if_true, if_false, Option.isNone_none, Option.isNone_some, and_true, true_and,
            and_false, false_and, and_self, Bool.false_eq_true] <;>
          (try split_ifs) <;> rfl
      | some lp =>
        simp only
        generalize flat (airborneWithRef m lp.lat lp.lon) = L
        cases G <;> cases L <;>
        by_cases h10 : ts - otherTs e m.parity < 10 <;> by_cases h180 : ts - e.timestamp < 180 <;>
          simp only [h10, h180, if_true, if_false, Option.isNone_none, Option.isNone_some, and_true, true_and,
            and_false, false_and, and_self, Bool.false_eq_true] <;>
          (try split_ifs) <;> rfl

/-! ### the BDS 0,6 arm with literal windows -/

/-- decoding against the aircraft's last position: less than 180 s old, result within 1 km of it -/
def surfLast (dist : Pos → Pos → Rat) (e : AircraftState) (ts : Rat) (m : Msg) : Option Pos :=
  if ts - e.timestamp < 180 then
    match e.pos with
    | some latestPos =>
      match flat (surfaceWithRef m latestPos.lat latestPos.lon) with
      | some sp => if dist latestPos sp < 1 then some sp else none
      | none => none
    | none => none
  else none

/-- last position first, receiver reference second -/
def surfOut (dist : Pos → Pos → Rat) (e : AircraftState) (reference : Option Pos) (ts : Rat) (m : Msg) :
    Option Pos :=
  match surfLast dist e ts m with
  | some p => some p
  | none =>
    match reference with
    | some r => flat (surfaceWithRef m r.lat r.lon)
    | none => none

/-- the entry after a BDS 0,6 report: updated on success only -/
def surfEntry (dist : Pos → Pos → Rat) (e : AircraftState) (reference : Option Pos) (ts : Rat) (m : Msg) :
    AircraftState :=
  match surfOut dist e reference ts m with
  | some p => { e with pos := some p, timestamp := ts }
  | none => e

theorem surfaceArm_literal (g : Gates) (hg : LiteralGates g) (dist : Pos → Pos → Rat) (e : AircraftState)
    (reference : Option Pos) (ts : Rat) (m : Msg) :
    surfaceArm g dist e reference ts m
      = (surfEntry dist e reference ts m, surfOut dist e reference ts m) := by
  unfold surfaceArm surfEntry surfOut surfLast
  simp only [hg.surfRefWindow, hg.surfContinuity, decide_eq_true_eq]
  cases hp : e.pos with
  | none =>
    cases hr : reference with
    | none =>
      simp only
      by_cases h180 : ts - e.timestamp < 180 <;>
      simp only [h180, if_true, if_false, Option.isNone_none, Option.isNone_some, Bool.false_eq_true] <;>
      (try split_ifs) <;>
      simp only [Option.isNone_none, Option.isNone_some, Bool.false_eq_true, if_true, if_false] <;>
      first | rfl | (exfalso; simp at *)
    | some rf =>
      simp only
      generalize flat (surfaceWithRef m rf.lat rf.lon) = S2
      cases S2 <;>
      by_cases h180 : ts - e.timestamp < 180 <;>
      simp only [h180, if_true, if_false, Option.isNone_none, Option.isNone_some, Bool.false_eq_true] <;>
      (try split_ifs) <;>
      simp only [Option.isNone_none, Option.isNone_some, Bool.false_eq_true, if_true, if_false] <;>
      first | rfl | (exfalso; simp at *)
  | some lp =>
    simp only
    generalize flat (surfaceWithRef m lp.lat lp.lon) = S1
    cases hr : reference with
    | none =>
      simp only
      cases S1 <;>
      by_cases h180 : ts - e.timestamp < 180 <;>
      simp only [h180, if_true, if_false, Option.isNone_none, Option.isNone_some, Bool.false_eq_true] <;>
      (try split_ifs) <;>
      simp only [Option.isNone_none, Option.isNone_some, Bool.false_eq_true, if_true, if_false] <;>
      first | rfl | (exfalso; simp at *)
    | some rf =>
      simp only
      generalize flat (surfaceWithRef m rf.lat rf.lon) = S2
      cases S1 <;> cases S2 <;>
      by_cases h180 : ts - e.timestamp < 180 <;>
      simp only [h180, if_true, if_false, Option.isNone_none, Option.isNone_some, Bool.false_eq_true] <;>
      (try split_ifs) <;>
      simp only [Option.isNone_none, Option.isNone_some, Bool.false_eq_true, if_true, if_false] <;>
      first | rfl | (exfalso; simp at *)

/-! ### `stepEntry` in normal form -/

/-- the receiver reference after a BDS 0,5 report to which `out` was attached -/
def refAfter (upd : Option (Report → Bool)) (reference : Option Pos) (r : Report) (out : Option Pos) :
    Option Pos :=
  match out, upd with
  | some p, some f => if f r then some p else reference
  | _, _ => reference

theorem stepEntry_airborne (g : Gates) (hg : LiteralGates g) (dist : Pos → Pos → Rat)
    (upd : Option (Report → Bool)) (entry : Option AircraftState) (reference : Option Pos) (r : Report)
    (hk : r.kind = .airborne) :
    stepEntry g dist upd entry reference r =
      if r.ts - otherTs (entry.getD (AircraftState.fresh r.ts)) r.msg.parity < 0 then
        (entry.getD (AircraftState.fresh r.ts), reference, none)
      else
        (airEntry dist (entry.getD (AircraftState.fresh r.ts)) r.ts r.msg,
         refAfter upd reference r (airOut dist (entry.getD (AircraftState.fresh r.ts)) r.ts r.msg),
         airOut dist (entry.getD (AircraftState.fresh r.ts)) r.ts r.msg) := by
  unfold stepEntry
  simp only [hk, airborneArm_literal g hg]
  split_ifs <;> rfl

theorem stepEntry_surface (g : Gates) (hg : LiteralGates g) (dist : Pos → Pos → Rat)
    (upd : Option (Report → Bool)) (entry : Option AircraftState) (reference : Option Pos) (r : Report)
    (hk : r.kind = .surface) :
    stepEntry g dist upd entry reference r =
      (surfEntry dist (entry.getD (AircraftState.fresh r.ts)) reference r.ts r.msg, reference,
       surfOut dist (entry.getD (AircraftState.fresh r.ts)) reference r.ts r.msg) := by
  unfold stepEntry
  simp only [hk, surfaceArm_literal g hg]

theorem stepEntry_other (g : Gates) (dist : Pos → Pos → Rat) (upd : Option (Report → Bool))
    (entry : Option AircraftState) (reference : Option Pos) (r : Report) (hk : r.kind = .other) :
    stepEntry g dist upd entry reference r = (entry.getD (AircraftState.fresh r.ts), reference, none) := by
  unfold stepEntry
  simp only [hk]

/-! ### one step, the cache, the reference -/

theorem set_same (c : Cache) (a : Address) (s : AircraftState) : (c.set a s) a = some s := by
  simp [Cache.set]

theorem set_other (c : Cache) (a b : Address) (s : AircraftState) (h : b ≠ a) : (c.set a s) b = c b := by
  simp [Cache.set, h]

/-- with `update_reference = None` no call ever changes the receiver reference -/
theorem stepEntry_ref_fixed (g : Gates) (dist : Pos → Pos → Rat) (entry : Option AircraftState)
    (reference : Option Pos) (r : Report) :
    (stepEntry g dist none entry reference r).2.1 = reference := by
  unfold stepEntry
  cases r.kind
  · simp only
    cases airborneArm g dist (entry.getD (AircraftState.fresh r.ts)) r.ts r.msg with
    | none => rfl
    | some x => cases x with | mk a b => cases b <;> rfl
  · rfl
  · rfl

/-- **frame lemma**: a call for address `B` leaves the entry of every other address `A` untouched … -/
theorem decodePosition_frame (g : Gates) (dist : Pos → Pos → Rat) (upd : Option (Report → Bool)) (st : State)
    (r : Report) (A : Address) (h : A ≠ r.addr) :
    (decodePosition g dist upd st r).1.1 A = st.1 A := by
  unfold decodePosition
  exact set_other _ _ _ _ h

/-- … and, with a fixed reference, the reference as well -/
theorem decodePosition_ref_fixed (g : Gates) (dist : Pos → Pos → Rat) (st : State) (r : Report) :
    (decodePosition g dist none st r).1.2 = st.2 := by
  unfold decodePosition
  exact stepEntry_ref_fixed g dist _ _ r

/-- a call reads nothing but the entry of its own address and the reference -/
theorem decodePosition_local (g : Gates) (dist : Pos → Pos → Rat) (upd : Option (Report → Bool))
    (s1 s2 : State) (r : Report) (he : s1.1 r.addr = s2.1 r.addr) (hr : s1.2 = s2.2) :
    (decodePosition g dist upd s1 r).2 = (decodePosition g dist upd s2 r).2 ∧
    (decodePosition g dist upd s1 r).1.1 r.addr = (decodePosition g dist upd s2 r).1.1 r.addr ∧
    (decodePosition g dist upd s1 r).1.2 = (decodePosition g dist upd s2 r).1.2 := by
  unfold decodePosition
  simp only [he, hr, set_same, and_self]

/-! ### histories -/

/-- the reports of aircraft `A` in a history -/
def own (A : Address) (h : List Report) : List Report := h.filter fun r => r.addr == A

/-- the outputs attached to the reports of aircraft `A` -/
def outputsOf (A : Address) (h : List Report) (outs : List (Option Pos)) : List (Option Pos) :=
  ((h.zip outs).filter fun x => x.1.addr == A).map (·.2)

theorem outputsOf_cons_same (A : Address) (r : Report) (h : List Report) (o : Option Pos)
    (outs : List (Option Pos)) (hr : r.addr = A) :
    outputsOf A (r :: h) (o :: outs) = o :: outputsOf A h outs := by
  simp [outputsOf, hr]

theorem outputsOf_cons_other (A : Address) (r : Report) (h : List Report) (o : Option Pos)
    (outs : List (Option Pos)) (hr : r.addr ≠ A) :
    outputsOf A (r :: h) (o :: outs) = outputsOf A h outs := by
  simp [outputsOf, hr]

/-- **non-interference, general form**: from any two states that agree on the entry of `A` and on the
    (fixed) reference, the outputs attached to `A`'s reports in a history are those of `A`'s own reports
    run alone -/
theorem run_own (g : Gates) (dist : Pos → Pos → Rat) (A : Address) :
    ∀ (h : List Report) (s1 s2 : State), s1.1 A = s2.1 A → s1.2 = s2.2 →
      outputsOf A h (run g dist none s1 h) = run g dist none s2 (own A h) := by
  intro h
  induction h with
  | nil => intro s1 s2 _ _; rfl
  | cons r rest ih =>
    intro s1 s2 he hr
    by_cases ha : r.addr = A
    · have hown : own A (r :: rest) = r :: own A rest := by simp [own, ha]
      rw [hown]
      simp only [run]
      rw [outputsOf_cons_same A r rest _ _ ha]
      obtain ⟨h1, h2, h3⟩ := decodePosition_local g dist none s1 s2 r (by rw [ha]; exact he) hr
      rw [h1]
      congr 1
      exact ih _ _ (by rw [← ha]; exact h2) h3
    · have hown : own A (r :: rest) = own A rest := by simp [own, ha]
      rw [hown]
      simp only [run]
      rw [outputsOf_cons_other A r rest _ _ ha]
      apply ih
      · rw [decodePosition_frame g dist none s1 r A (fun h => ha h.symm)]; exact he
      · rw [decodePosition_ref_fixed]; exact hr

/-- the output at a position of a run is the step from the state reached by the prefix -/
theorem run_append (g : Gates) (dist : Pos → Pos → Rat) (upd : Option (Report → Bool)) :
    ∀ (pre : List Report) (st : State) (r : Report) (post : List Report),
      run g dist upd st (pre ++ r :: post)
        = run g dist upd st pre ++
          (decodePosition g dist upd (runState g dist upd st pre) r).2 ::
            run g dist upd (decodePosition g dist upd (runState g dist upd st pre) r).1 post := by
  intro pre
  induction pre with
  | nil => intro st r post; rfl
  | cons a pre ih =>
    intro st r post
    simp only [List.cons_append, run, runState]
    rw [ih]

theorem run_length (g : Gates) (dist : Pos → Pos → Rat) (upd : Option (Report → Bool)) :
    ∀ (h : List Report) (st : State), (run g dist upd st h).length = h.length := by
  intro h
  induction h with
  | nil => intro st; rfl
  | cons a h ih => intro st; simp [run, ih]

/-- the outputs of a prefix are the prefix of the outputs: later deliveries do not change earlier outputs -/
theorem run_take (g : Gates) (dist : Pos → Pos → Rat) (upd : Option (Report → Bool)) :
    ∀ (h : List Report) (st : State) (n : ℕ),
      run g dist upd st (h.take n) = (run g dist upd st h).take n := by
  intro h
  induction h with
  | nil => intro st n; simp [run]
  | cons a h ih =>
    intro st n
    cases n with
    | zero => simp [run]
    | succ n => simp [run, ih]

end Rs1090.Proofs.CprState
