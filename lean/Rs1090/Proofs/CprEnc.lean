import Rs1090.Proofs.CprZone
import Rs1090.Proofs.CprNl
/-!
Closed forms of the DO-260B encoder (`Spec/Cpr.lean`) in terms of the lattice index `rnd`:
for a zone size `d` and a coordinate `v`

    YZ          = rnd (v/d) − 2^17 ⌊v/d⌋                      (airborne, Nb = 17)
    YZ          = rnd (v/(d/4)) − 2^19 ⌊v/d⌋                  (surface,  Nb = 19)
    R (= Rlat, Rlon) = d · rnd (v/d) / 2^17        resp.   (d/4) · rnd (v/(d/4)) / 2^17
    transmitted = YZ mod 2^17 = rnd (…) mod 2^17

so that a receiver that knows the zone recovers `R` exactly, and `|R − v| ≤ d/2^18` (resp. `d/2^20`).
-/
namespace Rs1090.Proofs.Cpr
open Rs1090 Rs1090.Spec.Cpr

theorem ratFloor (q : ℚ) : q.floor = ⌊q⌋ := rfl

/-- the encoder's field before truncation, for zone size `d`: `floor(2^nb · MOD(v,d)/d + 1/2)` -/
def fld (nb : Nat) (d v : ℚ) : ℤ := ((2 : ℚ) ^ nb * (fmod v d / d) + 1 / 2).floor

/-- the value the encoder expects the receiver to recover: `d · (fld / 2^nb + floor(v/d))` -/
def recv (nb : Nat) (d v : ℚ) : ℚ := d * ((fld nb d v : ℚ) / (2 : ℚ) ^ nb + ((v / d).floor : ℤ))

theorem yz_eq_fld (nb i : Nat) (lat : ℚ) : yz nb i lat = fld nb (dlat i) lat := rfl
theorem xz_eq_fld (nb i : Nat) (rl lon : ℚ) : xz nb i rl lon = fld nb (dlon i rl) lon := rfl
theorem rlat_eq_recv (nb i : Nat) (lat : ℚ) : rlat nb i lat = recv nb (dlat i) lat := rfl
theorem rlon_eq_recv (nb i : Nat) (rl lon : ℚ) : rlon nb i rl lon = recv nb (dlon i rl) lon := rfl

theorem fmod_div (v d : ℚ) (hd : d ≠ 0) : fmod v d / d = v / d - (⌊v / d⌋ : ℚ) := by
  unfold fmod
  rw [ratFloor]
  field_simp

theorem fld17 (d v : ℚ) (hd : d ≠ 0) : fld 17 d v = rnd (v / d) - 131072 * ⌊v / d⌋ := by
  unfold fld rnd
  rw [ratFloor, fmod_div v d hd]
  have : (2 : ℚ) ^ 17 * (v / d - (⌊v / d⌋ : ℚ)) + 1 / 2
      = (131072 * (v / d) + 1 / 2) - ((131072 * ⌊v / d⌋ : ℤ) : ℚ) := by
    push_cast; ring
  rw [this, Int.floor_sub_intCast]

theorem fld19 (d v : ℚ) (hd : d ≠ 0) : fld 19 d v = rnd (v / (d / 4)) - 524288 * ⌊v / d⌋ := by
  unfold fld rnd
  rw [ratFloor, fmod_div v d hd]
  have : (2 : ℚ) ^ 19 * (v / d - (⌊v / d⌋ : ℚ)) + 1 / 2
      = (131072 * (v / (d / 4)) + 1 / 2) - ((524288 * ⌊v / d⌋ : ℤ) : ℚ) := by
    push_cast; field_simp; ring
  rw [this, Int.floor_sub_intCast]

theorem recv17 (d v : ℚ) (hd : d ≠ 0) : recv 17 d v = d * ((rnd (v / d) : ℚ) / 131072) := by
  unfold recv
  rw [fld17 d v hd, ratFloor]
  push_cast
  ring

theorem recv19 (d v : ℚ) (hd : d ≠ 0) : recv 19 d v = (d / 4) * ((rnd (v / (d / 4)) : ℚ) / 131072) := by
  unfold recv
  rw [fld19 d v hd, ratFloor]
  push_cast
  ring

/-- the transmitted 17 bits (as the fraction the decoder forms) — airborne -/
theorem field17 (d v : ℚ) (hd : d ≠ 0) :
    (((fld 17 d v % 131072).toNat : ℕ) : ℚ) / Model.Cpr.cprMax = frac17 (rnd (v / d)) := by
  have h : fld 17 d v % 131072 = rnd (v / d) % 131072 := by
    rw [fld17 d v hd]; omega
  have hnn : 0 ≤ rnd (v / d) % 131072 := by omega
  unfold frac17 Model.Cpr.cprMax Gen.Cpr.CPR_MAX
  rw [h]
  have : (((rnd (v / d) % 131072).toNat : ℕ) : ℚ) = ((rnd (v / d) % 131072 : ℤ) : ℚ) := by
    have := Int.toNat_of_nonneg hnn
    exact_mod_cast this
  rw [this]
  norm_num

/-- the transmitted 17 bits — surface (the two high-order bits of the 19 are dropped) -/
theorem field19 (d v : ℚ) (hd : d ≠ 0) :
    (((fld 19 d v % 131072).toNat : ℕ) : ℚ) / Model.Cpr.cprMax = frac17 (rnd (v / (d / 4))) := by
  have h : fld 19 d v % 131072 = rnd (v / (d / 4)) % 131072 := by
    rw [fld19 d v hd]; omega
  have hnn : 0 ≤ rnd (v / (d / 4)) % 131072 := by omega
  unfold frac17 Model.Cpr.cprMax Gen.Cpr.CPR_MAX
  rw [h]
  have : (((rnd (v / (d / 4)) % 131072).toNat : ℕ) : ℚ) = ((rnd (v / (d / 4)) % 131072 : ℤ) : ℚ) := by
    have := Int.toNat_of_nonneg hnn
    exact_mod_cast this
  rw [this]
  norm_num

/-- quantisation error of the recovered value: half a lattice step -/
theorem recv17_err (d v : ℚ) (hd : 0 < d) : |recv 17 d v - v| ≤ d / 262144 := by
  rw [recv17 d v (ne_of_gt hd)]
  have h := rnd_err (v / d)
  have e : d * ((rnd (v / d) : ℚ) / 131072) - v = d * ((rnd (v / d) : ℚ) / 131072 - v / d) := by
    field_simp
  rw [e, abs_mul, abs_of_pos hd]
  calc d * |(rnd (v / d) : ℚ) / 131072 - v / d| ≤ d * (1 / 262144) :=
        mul_le_mul_of_nonneg_left h (le_of_lt hd)
    _ = d / 262144 := by ring

theorem recv19_err (d v : ℚ) (hd : 0 < d) : |recv 19 d v - v| ≤ d / 1048576 := by
  rw [recv19 d v (ne_of_gt hd)]
  have hd4 : 0 < d / 4 := by positivity
  have h := rnd_err (v / (d / 4))
  have e : d / 4 * ((rnd (v / (d / 4)) : ℚ) / 131072) - v
      = (d / 4) * ((rnd (v / (d / 4)) : ℚ) / 131072 - v / (d / 4)) := by
    field_simp
  rw [e, abs_mul, abs_of_pos hd4]
  calc d / 4 * |(rnd (v / (d / 4)) : ℚ) / 131072 - v / (d / 4)| ≤ d / 4 * (1 / 262144) :=
        mul_le_mul_of_nonneg_left h (le_of_lt hd4)
    _ = d / 1048576 := by ring

/-! ### zone sizes -/

theorem dlat0 : dlat 0 = 6 := by unfold dlat NZ; norm_num
theorem dlat1 : dlat 1 = 360 / 59 := by unfold dlat NZ; norm_num

theorem dlat_pos (i : Nat) (hi : i ≤ 1) : 0 < dlat i := by
  have : i = 0 ∨ i = 1 := by omega
  rcases this with h | h <;> subst h
  · rw [dlat0]; norm_num
  · rw [dlat1]; norm_num

/-- `Dlon_i = 360 / max(NL − i, 1)` (the standard's case distinction, with truncated subtraction) -/
theorem dlon_eq (i : Nat) (rl : ℚ) : dlon i rl = 360 / (((max (NL rl - i) 1 : ℕ)) : ℚ) := by
  unfold dlon
  by_cases h : i < NL rl
  · have h1 : ((NL rl : ℤ) - (i : ℤ) > 0) := by omega
    have h2 : max (NL rl - i) 1 = NL rl - i := by omega
    rw [if_pos h1, h2]
    congr 1
    have : ((NL rl - i : ℕ) : ℤ) = (NL rl : ℤ) - (i : ℤ) := by omega
    exact_mod_cast congrArg (Int.cast (R := ℚ)) this.symm
  · have h1 : ¬ ((NL rl : ℤ) - (i : ℤ) > 0) := by omega
    have h2 : max (NL rl - i) 1 = 1 := by omega
    rw [if_neg h1, h2]
    norm_num

theorem dlon_pos (i : Nat) (rl : ℚ) : 0 < dlon i rl := by
  rw [dlon_eq]
  have : (1 : ℚ) ≤ ((max (NL rl - i) 1 : ℕ) : ℚ) := by
    exact_mod_cast le_max_right _ _
  positivity

end Rs1090.Proofs.Cpr
